import Gofasta.Model.GbText
import Gofasta.Lemmas.CsvRoundTrip
/-
C14 (text level): the GenBank location grammar and the flat-file reader read back what a writer of well-formed
records writes.
  * strconv.Atoi with its error kinds agrees with the Atoi of Model/Csv.lean;
  * unNestRecur terminates: the fuel handed to it by getPositions is never exhausted;
  * parseLocation is the inverse of renderLocation on the five location shapes of Model/Regions.lean;
  * GetPositions on the text of a well-formed location of any of the five shapes, with any number of segments, gives
    exactly locPositions of Model/Regions.lean.
-/
namespace Gofasta.Lemmas.GbRT
open Gofasta Model Model.Csv Model.GbText
open Gofasta.Lemmas.CsvRT

/-! ### the byte constants are the texts they stand for -/

theorem joinCut_text : joinCut = "join(".toList.map Char.toNat := by decide +kernel
theorem compCut_text : compCut = "complement(".toList.map Char.toNat := by decide +kernel
theorem joinWord_text : joinWord = "join".toList.map Char.toNat := by decide +kernel
theorem compWord_text : compWord = "comp".toList.map Char.toNat := by decide +kernel
theorem joinOuter_text : joinOuter = "join()".toList.map Char.toNat := by decide +kernel
theorem compOuter_text : compOuter = "complement()".toList.map Char.toNat := by decide +kernel
theorem featuresWord_text : featuresWord = "FEATURES".toList.map Char.toNat := by decide +kernel
theorem originWord_text : originWord = "ORIGIN".toList.map Char.toNat := by decide +kernel

/-! ### strconv.Atoi -/

def foldDigits (ds : Bytes) (init : Nat) : Nat := ds.foldl (fun acc b => 10 * acc + (b - 48)) init

theorem foldDigits_ge (ds : Bytes) : ∀ init, init ≤ foldDigits ds init := by
  induction ds with
  | nil => intro init; exact Nat.le_refl _
  | cons b t ih =>
    intro init
    have := ih (10 * init + (b - 48))
    simp only [foldDigits, List.foldl_cons] at this ⊢
    omega

/-- while no overflow of uint64 happens, ParseUint's loop computes the decimal value -/
theorem parseDigits_ok (ds : Bytes) : ∀ (n : Nat), (∀ b ∈ ds, isDigitB b = true) → foldDigits ds n ≤ maxUint64 →
    parseDigits ds n = .ok (foldDigits ds n : Nat) := by
  induction ds with
  | nil => intro n _ _; simp [parseDigits, foldDigits]
  | cons b t ih =>
    intro n hd hv
    have hb := hd b List.mem_cons_self
    simp only [isDigitB, Bool.and_eq_true, decide_eq_true_eq] at hb
    have hstep : foldDigits (b :: t) n = foldDigits t (10 * n + (b - 48)) := by simp [foldDigits]
    have hge := foldDigits_ge t (10 * n + (b - 48))
    rw [hstep] at hv
    have h1 : ¬ (n ≥ maxUint64 / 10 + 1) := by
      simp only [maxUint64] at hv hge ⊢
      omega
    have h2 : ¬ (n * 10 + (b - 48) > maxUint64) := by omega
    have hcomm : n * 10 + (b - 48) = 10 * n + (b - 48) := by omega
    simp only [parseDigits, hb.1, hb.2, decide_true, Bool.and_self, Bool.not_true, Bool.false_eq_true, if_false, h1, h2]
    rw [hcomm, hstep]
    exact ih _ (fun x hx => hd x (List.mem_cons_of_mem _ hx)) hv

/-- Atoi reads back what Itoa wrote (with the error kinds modelled) -/
theorem atoiE_digitsOf (n : Nat) (hn : n ≤ maxInt64) : atoiE (digitsOf n) = .ok (n : Int) := by
  have hne := digitsOf_ne_nil n
  have hd := digitsOf_isDigit n
  have hv : foldDigits (digitsOf n) 0 = n := digitsVal_digitsOf n
  cases hds : digitsOf n with
  | nil => exact absurd hds hne
  | cons b t =>
    have hb : isDigitB b = true := hd b (by rw [hds]; exact List.mem_cons_self)
    have hb45 : b ≠ 45 := by
      intro h; subst h; simp [isDigitB] at hb
    have hb43 : b ≠ 43 := by
      intro h; subst h; simp [isDigitB] at hb
    have hp : parseDigits (b :: t) 0 = .ok (n : Int) := by
      rw [← hds, parseDigits_ok (digitsOf n) 0 hd (by rw [hv]; simp only [maxInt64, maxUint64] at hn ⊢; omega), hv]
    have hn' : ¬ ((n : Int) > (maxInt64 : Int)) := by
      simp only [maxInt64] at hn ⊢; omega
    unfold atoiE atoiSigned
    simp only [hb45, hb43, if_false, reduceCtorEq, hp, hn', Bool.false_eq_true]

theorem parseDigits_digits (ds : Bytes) : ∀ (n : Nat), (∀ b ∈ ds, isDigitB b = true) → n ≤ maxUint64 →
    (parseDigits ds n = .ok (foldDigits ds n : Nat) ∧ foldDigits ds n ≤ maxUint64) ∨
      (parseDigits ds n = .rngErr ∧ foldDigits ds n > maxUint64) := by
  induction ds with
  | nil => intro n _ hn; left; exact ⟨by simp [parseDigits, foldDigits], by simpa [foldDigits] using hn⟩
  | cons b t ih =>
    intro n hd hn
    have hb := hd b List.mem_cons_self
    simp only [isDigitB, Bool.and_eq_true, decide_eq_true_eq] at hb
    have hstep : foldDigits (b :: t) n = foldDigits t (10 * n + (b - 48)) := by simp [foldDigits]
    have hge := foldDigits_ge t (10 * n + (b - 48))
    have hcomm : n * 10 + (b - 48) = 10 * n + (b - 48) := by omega
    simp only [parseDigits, hb.1, hb.2, decide_true, Bool.and_self, Bool.not_true, Bool.false_eq_true, if_false]
    by_cases h1 : n ≥ maxUint64 / 10 + 1
    · right
      refine ⟨by simp [h1], ?_⟩
      rw [hstep]
      simp only [maxUint64] at h1 hge ⊢
      omega
    · by_cases h2 : n * 10 + (b - 48) > maxUint64
      · right
        refine ⟨by simp [h1, h2], ?_⟩
        rw [hstep]; omega
      · simp only [h1, h2, if_false]
        rw [hstep, hcomm]
        exact ih _ (fun x hx => hd x (List.mem_cons_of_mem _ hx)) (by omega)

theorem parseDigits_not_ok (ds : Bytes) : ∀ (n : Nat), (∃ b ∈ ds, isDigitB b = false) → ∀ v, parseDigits ds n ≠ .ok v := by
  induction ds with
  | nil => intro n h; obtain ⟨b, hb, _⟩ := h; cases hb
  | cons b t ih =>
    intro n h v
    by_cases hb : isDigitB b = true
    · have hb' := hb
      simp only [isDigitB, Bool.and_eq_true, decide_eq_true_eq] at hb'
      have ht : ∃ x ∈ t, isDigitB x = false := by
        obtain ⟨x, hx, hx2⟩ := h
        rcases List.mem_cons.1 hx with rfl | hx'
        · rw [hb] at hx2; cases hx2
        · exact ⟨x, hx', hx2⟩
      simp only [parseDigits, hb'.1, hb'.2, decide_true, Bool.and_self, Bool.not_true, Bool.false_eq_true, if_false]
      split
      · simp
      · split
        · simp
        · exact ih _ ht v
    · have hb' : (decide (48 ≤ b) && decide (b ≤ 57)) = false := by
        simpa [isDigitB] using hb
      simp [parseDigits, hb']

theorem atoiSigned_forget (ds : Bytes) (neg : Bool) :
    (if ds = [] ∨ (!ds.all isDigitB) = true then (none : Option Int)
     else if neg = true then (if digitsVal ds ≤ maxInt64 + 1 then some (-(digitsVal ds : Int)) else none)
     else (if digitsVal ds ≤ maxInt64 then some (digitsVal ds : Int) else none)) = (atoiSigned neg ds).toOption := by
  unfold atoiSigned
  by_cases hnil : ds = []
  · simp [hnil, AtoiRes.toOption]
  · by_cases hall : ds.all isDigitB = true
    · have hd : ∀ x ∈ ds, isDigitB x = true := List.all_eq_true.1 hall
      have hv : foldDigits ds 0 = digitsVal ds := rfl
      rcases parseDigits_digits ds 0 hd (by simp [maxUint64]) with ⟨hp, hle⟩ | ⟨hp, hgt⟩
      · simp only [hnil, hall, false_or, Bool.not_true, Bool.false_eq_true, if_false, hp, hv]
        cases neg
        · by_cases h : digitsVal ds ≤ maxInt64
          · have h' : ¬ ((digitsVal ds : Int) > (maxInt64 : Int)) := by omega
            simp [h, h', AtoiRes.toOption]
          · have h' : (digitsVal ds : Int) > (maxInt64 : Int) := by omega
            simp [h, h', AtoiRes.toOption]
        · by_cases h : digitsVal ds ≤ maxInt64 + 1
          · have h' : ¬ ((digitsVal ds : Int) > (maxInt64 : Int) + 1) := by omega
            simp [h, h', AtoiRes.toOption]
          · have h' : (digitsVal ds : Int) > (maxInt64 : Int) + 1 := by omega
            simp [h, h', AtoiRes.toOption]
      · rw [hv] at hgt
        have h1 : ¬ (digitsVal ds ≤ maxInt64) := by simp only [maxInt64, maxUint64] at hgt ⊢; omega
        have h2 : ¬ (digitsVal ds ≤ maxInt64 + 1) := by simp only [maxInt64, maxUint64] at hgt ⊢; omega
        simp only [hnil, hall, false_or, Bool.not_true, Bool.false_eq_true, if_false, hp, h1, h2]
        cases neg <;> simp [AtoiRes.toOption]
    · have hex : ∃ x ∈ ds, isDigitB x = false := by
        have hne : ds.all isDigitB = false := by simpa using hall
        obtain ⟨x, hx, hx2⟩ := List.all_eq_false.1 hne
        exact ⟨x, hx, by simpa using hx2⟩
      have hno := parseDigits_not_ok ds 0 hex
      have hall' : (!ds.all isDigitB) = true := by simpa using hall
      simp only [hnil, hall', or_true, if_true, if_false]
      cases hp : parseDigits ds 0 with
      | ok v => exact absurd hp (hno v)
      | synErr => rfl
      | rngErr => rfl

/-- the Atoi of Model/Csv.lean is this one with the error kinds forgotten -/
theorem atoi_forget (s : Bytes) : atoi s = (atoiE s).toOption := by
  cases s with
  | nil => simp [atoi, atoiE, AtoiRes.toOption]
  | cons b t =>
    unfold atoi atoiE
    by_cases h45 : b = 45
    · subst h45
      have := atoiSigned_forget t true
      simpa using this
    · by_cases h43 : b = 43
      · subst h43
        have := atoiSigned_forget t false
        simpa using this
      · have := atoiSigned_forget (b :: t) false
        simpa [h45, h43] using this

/-! ### strings.Split(s, "..") -/

theorem splitDD_ne_nil : ∀ (s : Bytes), splitDD s ≠ []
  | [] => by simp [splitDD]
  | [_] => by simp [splitDD]
  | a :: b :: t => by
    simp only [splitDD]
    split
    · simp
    · cases h : splitDD (b :: t) with
      | nil => exact absurd h (splitDD_ne_nil (b :: t))
      | cons x y => simp [consB]

theorem splitDD_cons_ne (a : Nat) (t : Bytes) (ha : a ≠ dot) : splitDD (a :: t) = consB a (splitDD t) := by
  cases t with
  | nil => simp [splitDD, consB]
  | cons b t' => simp [splitDD, ha]

theorem splitDD_plain : ∀ (d : Bytes), (∀ b ∈ d, b ≠ dot) → splitDD d = [d] := by
  intro d
  induction d with
  | nil => intro _; rfl
  | cons a t ih =>
    intro h
    rw [splitDD_cons_ne a t (h a List.mem_cons_self), ih (fun x hx => h x (List.mem_cons_of_mem _ hx))]
    rfl

theorem splitDD_append_dd : ∀ (d rest : Bytes), (∀ b ∈ d, b ≠ dot) →
    splitDD (d ++ dot :: dot :: rest) = d :: splitDD rest := by
  intro d
  induction d with
  | nil => intro rest _; simp [splitDD]
  | cons a t ih =>
    intro rest h
    rw [List.cons_append, splitDD_cons_ne a _ (h a List.mem_cons_self),
      ih rest (fun x hx => h x (List.mem_cons_of_mem _ hx))]
    rfl

theorem digits_no_dot (n : Nat) : ∀ b ∈ digitsOf n, b ≠ dot := digit_not n dot (by decide)

theorem splitDD_segB (s : Nat × Nat) : splitDD (segB s) = [digitsOf s.1, digitsOf s.2] := by
  unfold segB
  rw [splitDD_append_dd _ _ (digits_no_dot s.1), splitDD_plain _ (digits_no_dot s.2)]

theorem atoiPair_segB (s : Nat × Nat) (h1 : s.1 ≤ maxInt64) (h2 : s.2 ≤ maxInt64) :
    atoiPair (segB s) = .ok (s.1 : Int) (s.2 : Int) := by
  unfold atoiPair
  rw [splitDD_segB]
  simp only [atoiE_digitsOf s.1 h1, atoiE_digitsOf s.2 h2]

/-! ### the loops over positions -/

theorem rangeInt_ofNat (a b : Nat) : rangeInt (a : Int) (b : Int) = (rangeUp a b).map fun (p : Nat) => (p : Int) := by
  unfold rangeInt rangeUp
  by_cases h : a ≤ b
  · have h' : (a : Int) ≤ (b : Int) := by omega
    have hlen : ((b : Int) - (a : Int) + 1).toNat = b + 1 - a := by omega
    simp only [h', if_true, hlen]
    rw [List.range'_eq_map_range]
    simp only [List.map_map]
    apply List.map_congr_left
    intro k _
    simp
  · have h' : ¬ ((a : Int) ≤ (b : Int)) := by omega
    have hz : b + 1 - a = 0 := by omega
    simp [h', hz]

/-! ### well-formed locations -/

def SegOk (s : Nat × Nat) : Prop := s.1 ≤ maxInt64 ∧ s.2 ≤ maxInt64

instance (s : Nat × Nat) : Decidable (SegOk s) := by unfold SegOk; exact inferInstance

/-- at least one segment; exactly one for a..b and complement(a..b); every number within int64 -/
def LocOk (l : Loc) : Prop :=
  l.2 ≠ [] ∧ ((l.1 = .range ∨ l.1 = .comp) → l.2.length = 1) ∧ ∀ s ∈ l.2, SegOk s

instance (l : Loc) : Decidable (LocOk l) := by unfold LocOk; exact inferInstance

/-! ### digits at the ends of the rendered pieces -/

def StartsDigit (x : Bytes) : Prop := ∃ c t, x = c :: t ∧ isDigitB c = true
def EndsDigit (x : Bytes) : Prop := ∃ y c, x = y ++ [c] ∧ isDigitB c = true

theorem startsDigit_digits (n : Nat) : StartsDigit (digitsOf n) := by
  cases h : digitsOf n with
  | nil => exact absurd h (digitsOf_ne_nil n)
  | cons c t => exact ⟨c, t, rfl, digitsOf_isDigit n c (by rw [h]; exact List.mem_cons_self)⟩

theorem endsDigit_digits (n : Nat) : EndsDigit (digitsOf n) := by
  have hne := digitsOf_ne_nil n
  refine ⟨(digitsOf n).dropLast, (digitsOf n).getLast hne, (List.dropLast_concat_getLast hne).symm, ?_⟩
  exact digitsOf_isDigit n _ (List.getLast_mem hne)

theorem startsDigit_append {a : Bytes} (b : Bytes) (h : StartsDigit a) : StartsDigit (a ++ b) := by
  obtain ⟨c, t, rfl, hc⟩ := h
  exact ⟨c, t ++ b, rfl, hc⟩

theorem endsDigit_append (a : Bytes) {b : Bytes} (h : EndsDigit b) : EndsDigit (a ++ b) := by
  obtain ⟨y, c, rfl, hc⟩ := h
  exact ⟨a ++ y, c, by simp, hc⟩

theorem startsDigit_segB (s : Nat × Nat) : StartsDigit (segB s) := startsDigit_append _ (startsDigit_digits s.1)

theorem endsDigit_segB (s : Nat × Nat) : EndsDigit (segB s) := by
  unfold segB
  have : digitsOf s.1 ++ dot :: dot :: digitsOf s.2 = (digitsOf s.1 ++ [dot, dot]) ++ digitsOf s.2 := by simp
  rw [this]
  exact endsDigit_append _ (endsDigit_digits s.2)

theorem joinB_cons_head (sep : Nat) (p : Bytes) (ps : List Bytes) : ∃ r, joinB sep (p :: ps) = p ++ r := by
  cases ps with
  | nil => exact ⟨[], by simp [joinB]⟩
  | cons q t => exact ⟨sep :: joinB sep (q :: t), by simp [joinB]⟩

theorem joinB_last (sep : Nat) : ∀ (ps : List Bytes) (h : ps ≠ []), ∃ r, joinB sep ps = r ++ ps.getLast h := by
  intro ps
  induction ps with
  | nil => intro h; exact absurd rfl h
  | cons p t ih =>
    intro h
    cases t with
    | nil => exact ⟨[], by simp [joinB]⟩
    | cons q t' =>
      obtain ⟨r, hr⟩ := ih (by simp)
      refine ⟨p ++ sep :: r, ?_⟩
      simp only [joinB, List.getLast_cons_cons]
      rw [hr]; simp

theorem startsDigit_join (segs : List (Nat × Nat)) (h : segs ≠ []) : StartsDigit (joinB commaB (segs.map segB)) := by
  cases segs with
  | nil => exact absurd rfl h
  | cons s t =>
    obtain ⟨r, hr⟩ := joinB_cons_head commaB (segB s) (t.map segB)
    rw [List.map_cons, hr]
    exact startsDigit_append _ (startsDigit_segB s)

theorem endsDigit_join (segs : List (Nat × Nat)) (h : segs ≠ []) : EndsDigit (joinB commaB (segs.map segB)) := by
  have hne : segs.map segB ≠ [] := by simpa using h
  obtain ⟨r, hr⟩ := joinB_last commaB (segs.map segB) hne
  rw [hr]
  apply endsDigit_append
  rw [List.getLast_map]
  exact endsDigit_segB _

/-! ### strings.TrimLeft / TrimRight on the rendered pieces -/

theorem trimLeftSet_prefix (cut : List Nat) (pre rest : Bytes) (hpre : ∀ b ∈ pre, cut.contains b = true)
    (hrest : ∀ b t, rest = b :: t → cut.contains b = false) : trimLeftSet cut (pre ++ rest) = rest := by
  unfold trimLeftSet
  rw [List.dropWhile_append_of_pos (by simpa using hpre)]
  cases rest with
  | nil => rfl
  | cons b t =>
    have := hrest b t rfl
    rw [List.dropWhile_cons_of_neg (by simpa using this)]

theorem digit_not_in_cut (cut : List Nat) (hc : ∀ b ∈ cut, isDigitB b = false) (b : Nat) (hb : isDigitB b = true) :
    cut.contains b = false := by
  cases h : cut.contains b with
  | false => rfl
  | true =>
    have hmem : b ∈ cut := by simpa using h
    have := hc b hmem
    rw [hb] at this; cases this

theorem joinCut_no_digit : ∀ b ∈ joinCut, isDigitB b = false := by decide
theorem compCut_no_digit : ∀ b ∈ compCut, isDigitB b = false := by decide

theorem trimLeft_joinCut (x : Bytes) (hx : StartsDigit x) : trimLeftSet joinCut (joinCut ++ x) = x := by
  apply trimLeftSet_prefix
  · intro b hb; simpa using hb
  · intro b t hbt
    obtain ⟨c, t', hx', hc⟩ := hx
    rw [hx'] at hbt
    injection hbt with h1 _
    subst h1
    exact digit_not_in_cut _ joinCut_no_digit _ hc

theorem trimLeft_compCut (x : Bytes) (hx : StartsDigit x) : trimLeftSet compCut (compCut ++ x) = x := by
  apply trimLeftSet_prefix
  · intro b hb; simpa using hb
  · intro b t hbt
    obtain ⟨c, t', hx', hc⟩ := hx
    rw [hx'] at hbt
    injection hbt with h1 _
    subst h1
    exact digit_not_in_cut _ compCut_no_digit _ hc

theorem trimRightRp_snoc (x : Bytes) (hx : EndsDigit x) : trimRightRp (x ++ [rp]) = x := by
  obtain ⟨y, c, rfl, hc⟩ := hx
  have hne : (c == rp) = false := by
    cases h : c == rp with
    | false => rfl
    | true =>
      have : c = rp := by simpa using h
      subst this
      simp [isDigitB, rp] at hc
  simp [trimRightRp, List.reverse_append, hne]

/-! ### posFromRange, posFromJoin, posFromComp on the rendered pieces -/

def segRange (s : Nat × Nat) : List Int := rangeInt (s.1 : Int) (s.2 : Int)

theorem posFromRange_segB (s : Nat × Nat) (h : SegOk s) : posFromRange (segB s) = .ok (segRange s) := by
  unfold posFromRange
  rw [splitDD_segB]
  simp only [atoiE_digitsOf s.1 h.1, atoiE_digitsOf s.2 h.2, segRange]

theorem segB_no_comma (s : Nat × Nat) : ∀ b ∈ segB s, b ≠ commaB := by
  intro b hb
  unfold segB at hb
  simp only [List.mem_append, List.mem_cons] at hb
  rcases hb with h | h | h | h
  · exact digit_not s.1 commaB (by decide) b h
  · subst h; decide
  · subst h; decide
  · exact digit_not s.2 commaB (by decide) b h

theorem joinParts_segs : ∀ (segs : List (Nat × Nat)) (acc : List Int), (∀ s ∈ segs, SegOk s) →
    joinParts (segs.map segB) acc = .ok (acc ++ segs.flatMap segRange) := by
  intro segs
  induction segs with
  | nil => intro acc _; simp [joinParts]
  | cons s t ih =>
    intro acc h
    have hs := h s List.mem_cons_self
    simp only [List.map_cons, joinParts, atoiPair_segB s hs.1 hs.2]
    rw [ih _ (fun x hx => h x (List.mem_cons_of_mem _ hx))]
    simp [segRange]

theorem posFromJoin_render (segs : List (Nat × Nat)) (hne : segs ≠ []) (h : ∀ s ∈ segs, SegOk s) :
    posFromJoin (joinCut ++ joinB commaB (segs.map segB) ++ [rp]) = .ok (segs.flatMap segRange) := by
  unfold posFromJoin
  rw [List.append_assoc, trimLeft_joinCut _ (startsDigit_append _ (startsDigit_join segs hne)),
    trimRightRp_snoc _ (endsDigit_join segs hne),
    splitB_joinB commaB _ (by simpa using hne) (by
      intro p hp
      obtain ⟨s, _, rfl⟩ := List.mem_map.1 hp
      exact segB_no_comma s),
    joinParts_segs segs [] h]
  simp

theorem posFromComp_render (s : Nat × Nat) (h : SegOk s) :
    posFromComp (compSegB s) = .ok (segRange s).reverse := by
  unfold posFromComp compSegB
  rw [List.append_assoc, trimLeft_compCut _ (startsDigit_append _ (startsDigit_segB s)),
    trimRightRp_snoc _ (endsDigit_segB s), atoiPair_segB s h.1 h.2]
  rfl

/-! ### parentheses -/

def NoParen (x : Bytes) : Prop := ∀ b ∈ x, b ≠ lp ∧ b ≠ rp

/-- the bytes of `complement` -/
def complWord : Bytes := [99, 111, 109, 112, 108, 101, 109, 101, 110, 116]

theorem joinCut_split : joinCut = joinWord ++ [lp] := by decide
theorem compCut_split : compCut = complWord ++ [lp] := by decide
theorem noParen_joinWord : NoParen joinWord := by unfold NoParen; decide
theorem noParen_complWord : NoParen complWord := by unfold NoParen; decide

theorem noParen_append {a b : Bytes} (ha : NoParen a) (hb : NoParen b) : NoParen (a ++ b) := by
  intro x hx
  rcases List.mem_append.1 hx with h | h
  · exact ha x h
  · exact hb x h

theorem noParen_digits (n : Nat) : NoParen (digitsOf n) :=
  fun b hb => ⟨digit_not n lp (by decide) b hb, digit_not n rp (by decide) b hb⟩

theorem noParen_segB (s : Nat × Nat) : NoParen (segB s) := by
  unfold segB
  apply noParen_append (noParen_digits _)
  intro b hb
  rcases List.mem_cons.1 hb with h | hb
  · subst h; decide
  · rcases List.mem_cons.1 hb with h | hb
    · subst h; decide
    · exact noParen_digits _ b hb

theorem noParen_joinSegs : ∀ (segs : List (Nat × Nat)), NoParen (joinB commaB (segs.map segB)) := by
  intro segs
  induction segs with
  | nil => intro b hb; cases hb
  | cons s t ih =>
    cases t with
    | nil => simpa [joinB] using noParen_segB s
    | cons q t' =>
      simp only [List.map_cons, joinB] at ih ⊢
      apply noParen_append (noParen_segB s)
      intro b hb
      rcases List.mem_cons.1 hb with h | hb
      · subst h; decide
      · exact ih b hb

theorem isNestedAux_noParen : ∀ (x rest : Bytes) (d : Int), NoParen x → d ≤ 1 →
    isNestedAux (x ++ rest) d = isNestedAux rest d := by
  intro x
  induction x with
  | nil => intro rest d _ _; rfl
  | cons b t ih =>
    intro rest d hx hd
    have hb := hx b List.mem_cons_self
    have hgt : ¬ (d > 1) := by omega
    simp only [List.cons_append, isNestedAux, hb.1, hb.2, if_false, hgt]
    exact ih rest d (fun y hy => hx y (List.mem_cons_of_mem _ hy)) hd

theorem isNestedAux_lp (rest : Bytes) (d : Int) :
    isNestedAux (lp :: rest) d = if d + 1 > 1 then true else isNestedAux rest (d + 1) := by
  simp [isNestedAux]

theorem isNestedAux_rp (rest : Bytes) (d : Int) (hd : d ≤ 2) : isNestedAux (rp :: rest) d = isNestedAux rest (d - 1) := by
  have h1 : rp ≠ lp := by decide
  have h2 : ¬ (d - 1 > 1) := by omega
  simp [isNestedAux, h1, h2]

theorem isNested_noParen (x : Bytes) (h : NoParen x) : isNested x = false := by
  have := isNestedAux_noParen x [] 0 h (by omega)
  simpa [isNested, isNestedAux] using this

/-- word(x) with x free of parentheses is not nested -/
theorem isNested_word_paren (w x : Bytes) (hw : NoParen w) (hx : NoParen x) : isNested (w ++ lp :: x ++ [rp]) = false := by
  unfold isNested
  rw [List.append_assoc, isNestedAux_noParen w _ 0 hw (by omega), List.cons_append, isNestedAux_lp]
  simp only [Int.zero_add, Int.lt_irrefl, gt_iff_lt, if_false]
  rw [isNestedAux_noParen x _ 1 hx (by omega), isNestedAux_rp _ 1 (by omega)]
  simp [isNestedAux]

/-- word(word'(… : nested as soon as the second parenthesis opens -/
theorem isNested_two (w w' rest : Bytes) (hw : NoParen w) (hw' : NoParen w') :
    isNested (w ++ lp :: (w' ++ lp :: rest)) = true := by
  unfold isNested
  rw [isNestedAux_noParen w _ 0 hw (by omega), isNestedAux_lp]
  simp only [Int.zero_add, Int.lt_irrefl, gt_iff_lt, if_false]
  rw [isNestedAux_noParen w' _ 1 hw' (by omega), isNestedAux_lp]
  simp

theorem hasDD_append : ∀ (d r : Bytes), hasDD (d ++ dot :: dot :: r) = true := by
  intro d
  induction d with
  | nil => intro r; simp [hasDD]
  | cons a t ih =>
    intro r
    cases ht : t ++ dot :: dot :: r with
    | nil => simp at ht
    | cons b t' =>
      rw [List.cons_append, ht]
      simp only [hasDD, Bool.or_eq_true, decide_eq_true_eq]
      right
      rw [← ht]; exact ih r

/-! ### GetPositions on the three flat shapes -/

theorem positions_range (s : Nat × Nat) (h : SegOk s) : getPositions (segB s) = .ok (segRange s) := by
  unfold getPositions
  rw [isNested_noParen _ (noParen_segB s)]
  obtain ⟨c, t, hct, hc⟩ := startsDigit_segB s
  have hdd : hasDD (segB s) = true := hasDD_append _ _
  have hp := posFromRange_segB s h
  rw [hct] at hdd hp ⊢
  simp [hc, hdd, hp]

theorem positions_join (segs : List (Nat × Nat)) (hne : segs ≠ []) (h : ∀ s ∈ segs, SegOk s) :
    getPositions (joinCut ++ joinB commaB (segs.map segB) ++ [rp]) = .ok (segs.flatMap segRange) := by
  have hp := posFromJoin_render segs hne h
  have hn : isNested (joinCut ++ joinB commaB (segs.map segB) ++ [rp]) = false := by
    rw [joinCut_split, List.append_assoc, List.append_assoc, List.singleton_append]
    have := isNested_word_paren joinWord _ noParen_joinWord (noParen_joinSegs segs)
    simpa using this
  unfold getPositions
  rw [hn]
  generalize joinB commaB (segs.map segB) = X at hp ⊢
  simp only [joinCut, List.cons_append, List.nil_append] at hp ⊢
  simp [isDigitB, joinWord, hp]

theorem positions_comp (s : Nat × Nat) (h : SegOk s) : getPositions (compSegB s) = .ok (segRange s).reverse := by
  have hp := posFromComp_render s h
  have hn : isNested (compSegB s) = false := by
    unfold compSegB
    rw [compCut_split, List.append_assoc, List.append_assoc, List.singleton_append]
    have := isNested_word_paren complWord _ noParen_complWord (noParen_segB s)
    simpa using this
  unfold getPositions
  rw [hn]
  unfold compSegB at hp ⊢
  generalize segB s = X at hp ⊢
  simp only [compCut, List.cons_append, List.nil_append] at hp ⊢
  simp [isDigitB, joinWord, compWord, hp]

/-! ### the index scan of unNestRecur -/

theorem scanParens_oi_fixed : ∀ (t : Bytes) (i o c oi ci : Nat), oi ≠ 0 → (scanParens t i o c oi ci).1 = oi := by
  intro t
  induction t with
  | nil => intro i o c oi ci _; rfl
  | cons b t ih =>
    intro i o c oi ci h
    have h0 : ¬ (o = 1 ∧ oi = 0) := fun hh => h hh.2
    simp only [scanParens, h0, if_false]
    split
    · exact ih _ _ _ _ _ h
    · split
      · exact ih _ _ _ _ _ h
      · exact ih _ _ _ _ _ h

/-- when as many `)` as `(` have been seen at the last byte, closed_idx is the index of that byte -/
theorem scanParens_last : ∀ (t : Bytes) (i o c oi ci : Nat), o + t.count lp = c + t.count rp + 1 →
    (scanParens (t ++ [rp]) i o c oi ci).2 = i + t.length := by
  intro t
  induction t with
  | nil =>
    intro i o c oi ci h
    have h1 : rp ≠ lp := by decide
    have h2 : o = c + 1 := by simpa using h
    simp [scanParens, h1, h2]
  | cons b t ih =>
    intro i o c oi ci h
    simp only [List.cons_append, scanParens, List.length_cons]
    by_cases hl : b = lp
    · subst hl
      have hne : lp ≠ rp := by decide
      simp only [if_true]
      rw [ih]
      · omega
      · simp only [List.count_cons_self, List.count_cons_of_ne hne] at h
        omega
    · by_cases hr : b = rp
      · subst hr
        simp only [hl, if_false, if_true]
        rw [ih]
        · omega
        · have hne : rp ≠ lp := by decide
          simp only [List.count_cons_self, List.count_cons_of_ne hne] at h
          omega
      · simp only [hl, hr, if_false]
        rw [ih]
        · omega
        · simp only [List.count_cons_of_ne hl, List.count_cons_of_ne hr] at h
          omega

theorem scanParens_noParen : ∀ (w rest : Bytes) (i ci : Nat), NoParen w →
    scanParens (w ++ rest) i 0 0 0 ci = scanParens rest (i + w.length) 0 0 0 ci := by
  intro w
  induction w with
  | nil => intro rest i ci _; rfl
  | cons b t ih =>
    intro rest i ci h
    have hb := h b List.mem_cons_self
    simp only [List.cons_append, scanParens, hb.1, hb.2, if_false, List.length_cons]
    have h0 : ¬ ((0 : Nat) = 1 ∧ True) := by omega
    simp only [h0, if_false]
    rw [ih rest (i + 1) ci (fun y hy => h y (List.mem_cons_of_mem _ hy))]
    congr 1; omega

/-- word ( mid ) with as many `(` as `)` in mid: open_idx is the index after the first `(`, closed_idx the last index -/
theorem scanParens_word (w mid : Bytes) (hw : NoParen w) (hbal : mid.count lp = mid.count rp) :
    scanParens (w ++ lp :: (mid ++ [rp])) 0 0 0 0 0 = (w.length + 1, w.length + 1 + mid.length) := by
  rw [scanParens_noParen w _ 0 0 hw]
  have hstep : scanParens (lp :: (mid ++ [rp])) (0 + w.length) 0 0 0 0 = scanParens (mid ++ [rp]) (w.length + 1) 1 0 0 0 := by
    simp [scanParens]
  rw [hstep]
  apply Prod.ext
  · -- open_idx
    cases hm : mid ++ [rp] with
    | nil => simp at hm
    | cons b t =>
      have hlen : w.length + 1 ≠ 0 := by omega
      simp only [scanParens, and_self, if_true]
      split
      · exact scanParens_oi_fixed _ _ _ _ _ _ hlen
      · split
        · exact scanParens_oi_fixed _ _ _ _ _ _ hlen
        · exact scanParens_oi_fixed _ _ _ _ _ _ hlen
  · exact scanParens_last mid _ 1 0 0 0 (by omega)

/-! ### splitOnOuterCommas -/

theorem splitOuterAux_ne_nil : ∀ (s : Bytes) (d : Int), splitOuterAux s d ≠ [] := by
  intro s
  induction s with
  | nil => intro d; simp [splitOuterAux]
  | cons b t ih =>
    intro d
    simp only [splitOuterAux]
    split
    · cases h : splitOuterAux t (d + 1) with
      | nil => exact absurd h (ih _)
      | cons x y => simp [consB]
    · split
      · cases h : splitOuterAux t (d - 1) with
        | nil => exact absurd h (ih _)
        | cons x y => simp [consB]
      · split
        · simp
        · cases h : splitOuterAux t d with
          | nil => exact absurd h (ih _)
          | cons x y => simp [consB]

theorem consB_consHead (b : Nat) (x : Bytes) (R : List Bytes) : consB b (consHead x R) = consHead (b :: x) R := by
  cases R <;> simp [consB, consHead]

theorem consHead_nil (R : List Bytes) (h : R ≠ []) : consHead [] R = R := by
  cases R with
  | nil => exact absurd rfl h
  | cons a t => simp [consHead]

theorem consB_eq_consHead (b : Nat) (R : List Bytes) : consB b R = consHead [b] R := by
  cases R <;> simp [consB, consHead]

/-- bytes that are neither a parenthesis nor a comma at depth zero stay in the current field -/
theorem splitOuterAux_plain : ∀ (x rest : Bytes) (d : Int), NoParen x → (d = 0 → ∀ b ∈ x, b ≠ commaB) →
    splitOuterAux (x ++ rest) d = consHead x (splitOuterAux rest d) := by
  intro x
  induction x with
  | nil => intro rest d _ _; exact (consHead_nil _ (splitOuterAux_ne_nil rest d)).symm
  | cons b t ih =>
    intro rest d hx hc
    have hb := hx b List.mem_cons_self
    have hcb : ¬ (b = commaB ∧ d = 0) := fun hh => hc hh.2 b List.mem_cons_self hh.1
    simp only [List.cons_append, splitOuterAux, hb.1, hb.2, hcb, if_false]
    rw [ih rest d (fun y hy => hx y (List.mem_cons_of_mem _ hy)) (fun h0 y hy => hc h0 y (List.mem_cons_of_mem _ hy)),
      consB_consHead]

theorem splitOuterAux_lp (rest : Bytes) (d : Int) : splitOuterAux (lp :: rest) d = consHead [lp] (splitOuterAux rest (d + 1)) := by
  simp [splitOuterAux, consB_eq_consHead]

theorem splitOuterAux_rp (rest : Bytes) (d : Int) : splitOuterAux (rp :: rest) d = consHead [rp] (splitOuterAux rest (d - 1)) := by
  have h : rp ≠ lp := by decide
  simp [splitOuterAux, h, consB_eq_consHead]

theorem consHead_consHead (x y : Bytes) (R : List Bytes) (h : R ≠ []) : consHead x (consHead y R) = consHead (x ++ y) R := by
  cases R with
  | nil => exact absurd rfl h
  | cons a t => simp [consHead]

/-- word(x) is a single field when x has no parentheses -/
theorem splitOuterAux_word_paren (w x rest : Bytes) (d : Int) (hw : NoParen w) (hwc : ∀ b ∈ w, b ≠ commaB) (hx : NoParen x)
    (hxc : d + 1 = 0 → ∀ b ∈ x, b ≠ commaB) :
    splitOuterAux (w ++ lp :: (x ++ rp :: rest)) d = consHead (w ++ lp :: (x ++ [rp])) (splitOuterAux rest d) := by
  have hne := splitOuterAux_ne_nil rest d
  rw [splitOuterAux_plain w _ d hw (fun _ => hwc), splitOuterAux_lp, splitOuterAux_plain x _ (d + 1) hx hxc,
    splitOuterAux_rp]
  have hd : d + 1 - 1 = d := by omega
  rw [hd, consHead_consHead _ _ _ hne, consHead_consHead _ _ _ hne, consHead_consHead _ _ _ hne]
  simp

theorem complWord_no_comma : ∀ b ∈ complWord, b ≠ commaB := by decide
theorem joinWord_no_comma : ∀ b ∈ joinWord, b ≠ commaB := by decide

theorem compSegB_eq (s : Nat × Nat) : compSegB s = complWord ++ lp :: (segB s ++ [rp]) := by
  simp [compSegB, compCut_split]

/-- at depth zero the commas between complement(a..b) pieces are the cutting points -/
theorem splitOuter_compSegs : ∀ (segs : List (Nat × Nat)), segs ≠ [] →
    splitOuter (joinB commaB (segs.map compSegB)) = segs.map compSegB := by
  intro segs
  induction segs with
  | nil => intro h; exact absurd rfl h
  | cons s t ih =>
    intro _
    cases t with
    | nil =>
      simp only [List.map_cons, List.map_nil, joinB, splitOuter]
      have := splitOuterAux_word_paren complWord (segB s) [] 0 noParen_complWord complWord_no_comma (noParen_segB s)
        (fun _ => segB_no_comma s)
      rw [compSegB_eq]
      rw [this]
      simp [splitOuterAux, consHead]
    | cons q t' =>
      have ih' := ih (by simp)
      simp only [List.map_cons, joinB, splitOuter] at ih' ⊢
      have := splitOuterAux_word_paren complWord (segB s) (commaB :: joinB commaB (compSegB q :: t'.map compSegB)) 0
        noParen_complWord complWord_no_comma (noParen_segB s) (fun _ => segB_no_comma s)
      rw [compSegB_eq s]
      have hre : (complWord ++ lp :: (segB s ++ [rp])) ++ commaB :: joinB commaB (compSegB q :: List.map compSegB t') =
          complWord ++ lp :: (segB s ++ rp :: commaB :: joinB commaB (compSegB q :: List.map compSegB t')) := by simp
      rw [hre, this]
      have hc : commaB ≠ lp ∧ commaB ≠ rp := by decide
      simp only [splitOuterAux, hc.1, hc.2, if_false, and_self, if_true]
      rw [ih']
      simp [consHead]

theorem splitOuterAux_comma_deep (rest : Bytes) (d : Int) (hd : d ≠ 0) :
    splitOuterAux (commaB :: rest) d = consHead [commaB] (splitOuterAux rest d) := by
  have hc : commaB ≠ lp ∧ commaB ≠ rp := by decide
  have hcd : ¬ (True ∧ d = 0) := fun hh => hd hh.2
  simp only [splitOuterAux, hc.1, hc.2, if_false, hcd]
  exact consB_eq_consHead _ _

/-- inside an enclosing parenthesis the commas between complement(a..b) pieces do not cut -/
theorem splitOuterAux_compSegs_deep : ∀ (segs : List (Nat × Nat)) (rest : Bytes) (d : Int), d ≠ 0 →
    splitOuterAux (joinB commaB (segs.map compSegB) ++ rest) d =
      consHead (joinB commaB (segs.map compSegB)) (splitOuterAux rest d) := by
  intro segs
  induction segs with
  | nil => intro rest d _; simp only [List.map_nil, joinB, List.nil_append]; exact (consHead_nil _ (splitOuterAux_ne_nil rest d)).symm
  | cons s t ih =>
    intro rest d hd
    cases t with
    | nil =>
      simp only [List.map_cons, List.map_nil, joinB]
      rw [compSegB_eq]
      have := splitOuterAux_word_paren complWord (segB s) rest d noParen_complWord complWord_no_comma (noParen_segB s)
        (fun _ => segB_no_comma s)
      simpa using this
    | cons q t' =>
      have ih' := ih rest d hd
      simp only [List.map_cons, joinB] at ih' ⊢
      rw [compSegB_eq s]
      have hre : (complWord ++ lp :: (segB s ++ [rp])) ++ commaB :: joinB commaB (compSegB q :: List.map compSegB t') ++ rest =
          complWord ++ lp :: (segB s ++ rp :: (commaB :: (joinB commaB (compSegB q :: List.map compSegB t') ++ rest))) := by simp
      rw [hre, splitOuterAux_word_paren complWord (segB s) _ d noParen_complWord complWord_no_comma (noParen_segB s)
        (fun _ => segB_no_comma s)]
      rw [splitOuterAux_comma_deep _ d hd, ih', consHead_consHead _ _ _ (splitOuterAux_ne_nil rest d),
        consHead_consHead _ _ _ (splitOuterAux_ne_nil rest d)]
      simp

/-! ### one iteration of the loop of unNestRecur -/

theorem procFields_join_step (recur : Bytes → NestRes) (f : Bytes) (fs : List Bytes) (acc : List (List Int)) (ps : List Int)
    (hn : isNested f = false) (hlen : 4 ≤ f.length) (hw : f.take 4 = joinWord) (hp : posFromJoin f = .ok ps) :
    procFields recur (f :: fs) acc = procFields recur fs (acc ++ [ps]) := by
  have h1 : ¬ (f.length < 4) := by omega
  simp [procFields, hn, h1, hw, hp]

theorem procFields_comp_step (recur : Bytes → NestRes) (f : Bytes) (fs : List Bytes) (acc : List (List Int)) (ps : List Int)
    (hn : isNested f = false) (hlen : 4 ≤ f.length) (hw : f.take 4 = compWord) (hp : posFromComp f = .ok ps) :
    procFields recur (f :: fs) acc = procFields recur fs (acc ++ [ps]) := by
  have h1 : ¬ (f.length < 4) := by omega
  have h2 : compWord ≠ joinWord := by decide
  simp [procFields, hn, h1, hw, hp, h2]

theorem procFields_nested_join (recur : Bytes → NestRes) (f : Bytes) (fs : List Bytes) (acc : List (List Int))
    (oi ci : Nat) (res : List (List Int)) (hn : isNested f = true) (hs : scanParens f 0 0 0 0 0 = (oi, ci)) (hle : oi ≤ ci)
    (ho : f.take oi ++ f.drop ci = joinOuter) (hr : recur ((f.drop oi).take (ci - oi)) = .ok res) :
    procFields recur (f :: fs) acc = procFields recur fs (acc ++ [res.flatten]) := by
  have h1 : ¬ (oi > ci) := by omega
  simp [procFields, hn, hs, h1, ho, hr]

theorem procFields_nested_comp (recur : Bytes → NestRes) (f : Bytes) (fs : List Bytes) (acc : List (List Int))
    (oi ci : Nat) (r : List Int) (hn : isNested f = true) (hs : scanParens f 0 0 0 0 0 = (oi, ci)) (hle : oi ≤ ci)
    (ho : f.take oi ++ f.drop ci = compOuter) (hr : recur ((f.drop oi).take (ci - oi)) = .ok [r]) :
    procFields recur (f :: fs) acc = procFields recur fs (acc ++ [r.reverse]) := by
  have h1 : ¬ (oi > ci) := by omega
  have h2 : compOuter ≠ joinOuter := by decide
  simp [procFields, hn, hs, h1, ho, hr, h2]

/-! ### counting parentheses -/

theorem count_noParen (x : Bytes) (h : NoParen x) : x.count lp = 0 ∧ x.count rp = 0 := by
  constructor
  · exact List.count_eq_zero.2 (fun hm => (h lp hm).1 rfl)
  · exact List.count_eq_zero.2 (fun hm => (h rp hm).2 rfl)

theorem count_word_paren (w x : Bytes) (hw : NoParen w) (hx : NoParen x) :
    (w ++ lp :: (x ++ [rp])).count lp = 1 ∧ (w ++ lp :: (x ++ [rp])).count rp = 1 := by
  have h1 := count_noParen w hw
  have h2 := count_noParen x hx
  have hne : lp ≠ rp := by decide
  have hne' : rp ≠ lp := by decide
  simp [List.count_append, List.count_cons, h1.1, h1.2, h2.1, h2.2, hne, hne']

theorem count_compSegs : ∀ (segs : List (Nat × Nat)),
    (joinB commaB (segs.map compSegB)).count lp = (joinB commaB (segs.map compSegB)).count rp := by
  intro segs
  induction segs with
  | nil => simp [joinB]
  | cons s t ih =>
    have hs := count_word_paren complWord (segB s) noParen_complWord (noParen_segB s)
    rw [← compSegB_eq] at hs
    cases t with
    | nil => simp [joinB, hs.1, hs.2]
    | cons q t' =>
      simp only [List.map_cons, joinB] at ih ⊢
      have hc1 : commaB ≠ lp := by decide
      have hc2 : commaB ≠ rp := by decide
      rw [List.count_append, List.count_append, List.count_cons_of_ne hc1, List.count_cons_of_ne hc2, hs.1, hs.2, ih]

/-! ### GetPositions on the two nested shapes -/

theorem isNested_compSegB (s : Nat × Nat) : isNested (compSegB s) = false := by
  rw [compSegB_eq]
  have := isNested_word_paren complWord _ noParen_complWord (noParen_segB s)
  simpa using this

theorem procFields_compSegs (recur : Bytes → NestRes) : ∀ (segs : List (Nat × Nat)) (acc : List (List Int)),
    (∀ s ∈ segs, SegOk s) →
    procFields recur (segs.map compSegB) acc = .ok (acc ++ segs.map fun s => (segRange s).reverse) := by
  intro segs
  induction segs with
  | nil => intro acc _; simp [procFields]
  | cons s t ih =>
    intro acc h
    rw [List.map_cons, procFields_comp_step recur (compSegB s) _ acc _ (isNested_compSegB s)
      (by simp [compSegB, compCut]) (by simp [compSegB, compCut, compWord]) (posFromComp_render s (h s List.mem_cons_self)),
      ih _ (fun x hx => h x (List.mem_cons_of_mem _ hx))]
    simp

/-- the text join(a..b,...) as a whole argument of unNestRecur -/
theorem unNest_joinText (segs : List (Nat × Nat)) (hne : segs ≠ []) (h : ∀ s ∈ segs, SegOk s) (n : Nat) :
    unNest (n + 1) (joinCut ++ joinB commaB (segs.map segB) ++ [rp]) = .ok [segs.flatMap segRange] := by
  have hp := posFromJoin_render segs hne h
  have hn : isNested (joinCut ++ joinB commaB (segs.map segB) ++ [rp]) = false := by
    rw [joinCut_split, List.append_assoc, List.append_assoc, List.singleton_append]
    have := isNested_word_paren joinWord _ noParen_joinWord (noParen_joinSegs segs)
    simpa using this
  have hsplit : splitOuter (joinCut ++ joinB commaB (segs.map segB) ++ [rp]) = [joinCut ++ joinB commaB (segs.map segB) ++ [rp]] := by
    have := splitOuterAux_word_paren joinWord (joinB commaB (segs.map segB)) [] 0 noParen_joinWord joinWord_no_comma
      (noParen_joinSegs segs) (fun h0 => by omega)
    unfold splitOuter
    rw [joinCut_split, List.append_assoc, List.append_assoc, List.singleton_append, this]
    simp [splitOuterAux, consHead]
  simp only [unNest, hsplit]
  rw [procFields_join_step _ _ _ _ _ hn (by simp [joinCut]) (by simp [joinCut, joinWord]) hp]
  simp [procFields]

theorem take_drop_word (w mid : Bytes) :
    (w ++ lp :: (mid ++ [rp])).take (w.length + 1) ++ (w ++ lp :: (mid ++ [rp])).drop (w.length + 1 + mid.length) = w ++ [lp, rp] ∧
    ((w ++ lp :: (mid ++ [rp])).drop (w.length + 1)).take (w.length + 1 + mid.length - (w.length + 1)) = mid := by
  have e : w ++ lp :: (mid ++ [rp]) = (w ++ [lp]) ++ (mid ++ [rp]) := by simp
  have l1 : (w ++ [lp]).length = w.length + 1 := by simp
  constructor
  · rw [e, List.take_left' l1]
    have e2 : (w ++ [lp]) ++ (mid ++ [rp]) = ((w ++ [lp]) ++ mid) ++ [rp] := by simp
    have l2 : ((w ++ [lp]) ++ mid).length = w.length + 1 + mid.length := by simp; omega
    rw [e2, List.drop_left' l2]
    simp
  · rw [e, List.drop_left' l1]
    have : w.length + 1 + mid.length - (w.length + 1) = mid.length := by omega
    rw [this, List.take_left' rfl]

theorem positions_compJoin (segs : List (Nat × Nat)) (hne : segs ≠ []) (h : ∀ s ∈ segs, SegOk s) :
    getPositions (compCut ++ (joinCut ++ joinB commaB (segs.map segB) ++ [rp]) ++ [rp]) =
      .ok (segs.flatMap segRange).reverse := by
  generalize hJ : joinCut ++ joinB commaB (segs.map segB) ++ [rp] = J
  have hJ' : J = joinWord ++ lp :: (joinB commaB (segs.map segB) ++ [rp]) := by
    rw [← hJ, joinCut_split]; simp
  have hs : compCut ++ J ++ [rp] = complWord ++ lp :: (J ++ [rp]) := by rw [compCut_split]; simp
  have hnest : isNested (compCut ++ J ++ [rp]) = true := by
    rw [hs, hJ']
    have := isNested_two complWord joinWord ((joinB commaB (segs.map segB) ++ [rp]) ++ [rp]) noParen_complWord noParen_joinWord
    simpa using this
  have hcount : J.count lp = J.count rp := by
    rw [hJ']
    have := count_word_paren joinWord _ noParen_joinWord (noParen_joinSegs segs)
    rw [this.1, this.2]
  have hscan := scanParens_word complWord J noParen_complWord hcount
  have htd := take_drop_word complWord J
  have hsplit : splitOuter (complWord ++ lp :: (J ++ [rp])) = [complWord ++ lp :: (J ++ [rp])] := by
    unfold splitOuter
    rw [splitOuterAux_plain complWord _ 0 noParen_complWord (fun _ => complWord_no_comma), splitOuterAux_lp, hJ']
    have e : (joinWord ++ lp :: (joinB commaB (segs.map segB) ++ [rp])) ++ [rp] =
        joinWord ++ lp :: (joinB commaB (segs.map segB) ++ rp :: [rp]) := by simp
    rw [e, splitOuterAux_word_paren joinWord _ [rp] (0 + 1) noParen_joinWord joinWord_no_comma (noParen_joinSegs segs)
      (fun h0 => by omega), splitOuterAux_rp]
    simp [splitOuterAux, consHead]
  have hun : ∀ n, unNest (n + 2) (complWord ++ lp :: (J ++ [rp])) = .ok [(segs.flatMap segRange).reverse] := by
    intro n
    have hrec : unNest (n + 1) ((List.drop (complWord.length + 1) (complWord ++ lp :: (J ++ [rp]))).take
        (complWord.length + 1 + J.length - (complWord.length + 1))) = .ok [segs.flatMap segRange] := by
      rw [htd.2, ← hJ]; exact unNest_joinText segs hne h n
    have : unNest (n + 2) (complWord ++ lp :: (J ++ [rp])) =
        procFields (unNest (n + 1)) (splitOuter (complWord ++ lp :: (J ++ [rp]))) [] := rfl
    rw [this, hsplit, procFields_nested_comp (unNest (n + 1)) _ [] [] _ _ _ (by rw [← hs]; exact hnest) hscan (by omega)
      (by rw [htd.1]; decide) hrec]
    simp [procFields]
  unfold getPositions
  rw [hnest, hs]
  have hl : (complWord ++ lp :: (J ++ [rp])).length + 1 = ((complWord ++ lp :: (J ++ [rp])).length - 1) + 2 := by
    simp; omega
  rw [hl, hun]
  simp

theorem positions_joinComp (segs : List (Nat × Nat)) (hne : segs ≠ []) (h : ∀ s ∈ segs, SegOk s) :
    getPositions (joinCut ++ joinB commaB (segs.map compSegB) ++ [rp]) =
      .ok (segs.flatMap fun s => (segRange s).reverse) := by
  generalize hY : joinB commaB (segs.map compSegB) = Y
  have hs : joinCut ++ Y ++ [rp] = joinWord ++ lp :: (Y ++ [rp]) := by rw [joinCut_split]; simp
  have hnest : isNested (joinWord ++ lp :: (Y ++ [rp])) = true := by
    cases segs with
    | nil => exact absurd rfl hne
    | cons s t =>
      obtain ⟨r, hr⟩ := joinB_cons_head commaB (compSegB s) (t.map compSegB)
      rw [← hY, List.map_cons, hr, compSegB_eq]
      have := isNested_two joinWord complWord ((segB s ++ [rp]) ++ r ++ [rp]) noParen_joinWord noParen_complWord
      simpa using this
  have hcount : Y.count lp = Y.count rp := by rw [← hY]; exact count_compSegs segs
  have hscan := scanParens_word joinWord Y noParen_joinWord hcount
  have htd := take_drop_word joinWord Y
  have hsplit : splitOuter (joinWord ++ lp :: (Y ++ [rp])) = [joinWord ++ lp :: (Y ++ [rp])] := by
    unfold splitOuter
    rw [splitOuterAux_plain joinWord _ 0 noParen_joinWord (fun _ => joinWord_no_comma), splitOuterAux_lp, ← hY,
      splitOuterAux_compSegs_deep segs [rp] (0 + 1) (by omega), splitOuterAux_rp]
    simp [splitOuterAux, consHead]
  have hun : ∀ n, unNest (n + 2) (joinWord ++ lp :: (Y ++ [rp])) = .ok [segs.flatMap fun s => (segRange s).reverse] := by
    intro n
    have hrec : unNest (n + 1) ((List.drop (joinWord.length + 1) (joinWord ++ lp :: (Y ++ [rp]))).take
        (joinWord.length + 1 + Y.length - (joinWord.length + 1))) = .ok (segs.map fun s => (segRange s).reverse) := by
      rw [htd.2, ← hY]
      simp only [unNest, splitOuter_compSegs segs hne]
      rw [procFields_compSegs _ segs [] h]
      simp
    have : unNest (n + 2) (joinWord ++ lp :: (Y ++ [rp])) =
        procFields (unNest (n + 1)) (splitOuter (joinWord ++ lp :: (Y ++ [rp]))) [] := rfl
    rw [this, hsplit, procFields_nested_join (unNest (n + 1)) _ [] [] _ _ _ hnest hscan (by omega)
      (by rw [htd.1]; decide) hrec]
    simp [procFields, List.flatMap]
  unfold getPositions
  rw [hs, hnest]
  have hl : (joinWord ++ lp :: (Y ++ [rp])).length + 1 = ((joinWord ++ lp :: (Y ++ [rp])).length - 1) + 2 := by
    simp; omega
  rw [hl, hun]
  simp

/-! ### GetPositions on the text of a well-formed location = locPositions of Model/Regions.lean -/

theorem segRange_eq (s : Nat × Nat) : segRange s = (rangeUp s.1 s.2).map fun (p : Nat) => (p : Int) := rangeInt_ofNat s.1 s.2

theorem flatMap_segRange (segs : List (Nat × Nat)) :
    segs.flatMap segRange = (segs.flatMap fun s => rangeUp s.1 s.2).map fun (p : Nat) => (p : Int) := by
  rw [List.map_flatMap]
  congr 1
  funext s
  exact segRange_eq s

theorem flatMap_segRange_rev (segs : List (Nat × Nat)) :
    (segs.flatMap fun s => (segRange s).reverse) = (segs.flatMap fun s => (rangeUp s.1 s.2).reverse).map fun (p : Nat) => (p : Int) := by
  rw [List.map_flatMap]
  congr 1
  funext s
  rw [segRange_eq, List.map_reverse]

/-- **GetPositions of a rendered location.** For each of the five shapes, any number of segments (one for a..b and
complement(a..b)), every number within int64: the Go algorithm, on the text, computes the positions of the structured
model. -/
theorem getPositions_render (l : Loc) (h : LocOk l) : getPositions (renderLocation l) = .ok (locPositionsInt l) := by
  obtain ⟨form, segs⟩ := l
  obtain ⟨hne, hone, hok⟩ := h
  simp only at hne hone hok
  cases form with
  | range =>
    have h1 := hone (Or.inl rfl)
    match segs, h1, hok with
    | [s], _, hok =>
      have hs := hok s List.mem_cons_self
      simp only [renderLocation, List.headD_cons, locPositionsInt, locPositions]
      rw [positions_range s hs, segRange_eq]
      simp
  | comp =>
    have h1 := hone (Or.inr rfl)
    match segs, h1, hok with
    | [s], _, hok =>
      have hs := hok s List.mem_cons_self
      simp only [renderLocation, List.headD_cons, locPositionsInt, locPositions]
      have := positions_comp s hs
      unfold compSegB at this
      rw [this, segRange_eq]
      simp
  | join =>
    simp only [renderLocation, locPositionsInt, locPositions]
    rw [positions_join segs hne hok, flatMap_segRange]
  | compJoin =>
    simp only [renderLocation, locPositionsInt, locPositions]
    rw [positions_compJoin segs hne hok, flatMap_segRange, List.map_reverse]
  | joinComp =>
    simp only [renderLocation, locPositionsInt, locPositions]
    rw [positions_joinComp segs hne hok, flatMap_segRange_rev]

/-! ### the fuel of unNestRecur always suffices -/

theorem scanParens_ci_bound : ∀ (t : Bytes) (i o c oi ci : Nat),
    (scanParens t i o c oi ci).2 = ci ∨ (scanParens t i o c oi ci).2 < i + t.length := by
  intro t
  induction t with
  | nil => intro i o c oi ci; left; rfl
  | cons b t ih =>
    intro i o c oi ci
    simp only [scanParens, List.length_cons]
    split
    · rcases ih (i + 1) (o + 1) c (if o = 1 ∧ oi = 0 then i else oi) ci with h | h
      · left; exact h
      · right; omega
    · split
      · rcases ih (i + 1) o (c + 1) (if o = 1 ∧ oi = 0 then i else oi) (if o = c + 1 then i else ci) with h | h
        · by_cases hoc : o = c + 1
          · right; rw [h]; simp only [hoc, if_true]; omega
          · left; rw [h]; simp [hoc]
        · right; omega
      · rcases ih (i + 1) o c (if o = 1 ∧ oi = 0 then i else oi) ci with h | h
        · left; exact h
        · right; omega

theorem splitOuterAux_len : ∀ (s : Bytes) (d : Int), ∀ f ∈ splitOuterAux s d, f.length ≤ s.length := by
  intro s
  induction s with
  | nil => intro d f hf; simp [splitOuterAux] at hf; subst hf; simp
  | cons b t ih =>
    intro d f hf
    have hcons : ∀ (L : List Bytes), (∀ x ∈ L, x.length ≤ t.length) → ∀ x ∈ consB b L, x.length ≤ t.length + 1 := by
      intro L hL x hx
      cases L with
      | nil => simp [consB] at hx; subst hx; simp
      | cons h r =>
        simp only [consB, List.mem_cons] at hx
        rcases hx with rfl | hx
        · have := hL h List.mem_cons_self; simp; omega
        · have := hL x (List.mem_cons_of_mem _ hx); omega
    simp only [splitOuterAux] at hf
    simp only [List.length_cons]
    split at hf
    · exact hcons _ (ih _) f hf
    · split at hf
      · exact hcons _ (ih _) f hf
      · split at hf
        · rcases List.mem_cons.1 hf with rfl | hf
          · simp
          · have := ih d f hf; omega
        · exact hcons _ (ih _) f hf

theorem procFields_no_fuel (recur : Bytes → NestRes) : ∀ (fields : List Bytes) (acc : List (List Int)),
    (∀ f ∈ fields, ∀ x : Bytes, x.length < f.length → recur x ≠ .fuel) → procFields recur fields acc ≠ .fuel := by
  intro fields
  induction fields with
  | nil => intro acc _; simp [procFields]
  | cons f fs ih =>
    intro acc h
    have hfs : ∀ g ∈ fs, ∀ x : Bytes, x.length < g.length → recur x ≠ .fuel :=
      fun g hg => h g (List.mem_cons_of_mem _ hg)
    unfold procFields
    simp only
    split
    · simp
    · split
      · split <;> first | exact ih _ hfs | simp
      · split
        · split <;> first | exact ih _ hfs | simp
        · rename_i hshort _ _
          split
          · simp
          · rename_i hle
            -- the inner string is shorter than the field
            have hne : f ≠ [] := by
              intro hf
              subst hf
              simp [isNested, isNestedAux] at hshort
            have hci : (scanParens f 0 0 0 0 0).2 < f.length := by
              have hb := scanParens_ci_bound f 0 0 0 0 0
              have hpos : 0 < f.length := List.length_pos_iff.2 hne
              omega
            have hlt : ((f.drop (scanParens f 0 0 0 0 0).1).take
                ((scanParens f 0 0 0 0 0).2 - (scanParens f 0 0 0 0 0).1)).length < f.length := by
              rw [List.length_take]
              omega
            have hrec := h f List.mem_cons_self _ hlt
            split
            · split
              · exact ih _ hfs
              · split
                · split
                  · exact ih _ hfs
                  · simp
                · exact ih _ hfs
            · simp
            · simp
            · rename_i hfu
              exact absurd hfu hrec

/-- **unNestRecur terminates within the fuel getPositions hands it.** -/
theorem unNest_fuel : ∀ (n : Nat) (s : Bytes), s.length < n → unNest n s ≠ .fuel := by
  intro n
  induction n with
  | zero => intro s h; omega
  | succ n ih =>
    intro s h
    simp only [unNest]
    apply procFields_no_fuel
    intro f hf x hx
    have := splitOuterAux_len s 0 f hf
    exact ih x (by omega)

theorem unNest_fuel' (s : Bytes) : unNest (s.length + 1) s ≠ .fuel := unNest_fuel _ s (by omega)

/-! ### parseLocation is the inverse of renderLocation -/

theorem stripPrefix_append : ∀ (p x : Bytes), stripPrefix p (p ++ x) = some x := by
  intro p
  induction p with
  | nil => intro x; cases x <;> rfl
  | cons a t ih => intro x; simp [stripPrefix, ih]

theorem stripSuffix_append (q x : Bytes) : stripSuffix q (x ++ q) = some x := by
  simp [stripSuffix, List.reverse_append, stripPrefix_append]

theorem stripPrefix_head_ne (a : Nat) (p : Bytes) (c : Nat) (t : Bytes) (h : a ≠ c) : stripPrefix (a :: p) (c :: t) = none := by
  simp [stripPrefix, h]

theorem stripPrefix_joinCut_digit (x : Bytes) (hx : StartsDigit x) : stripPrefix joinCut x = none := by
  obtain ⟨c, t, rfl, hc⟩ := hx
  apply stripPrefix_head_ne
  intro h; subst h; simp [isDigitB] at hc

theorem stripPrefix_compCut_digit (x : Bytes) (hx : StartsDigit x) : stripPrefix compCut x = none := by
  obtain ⟨c, t, rfl, hc⟩ := hx
  apply stripPrefix_head_ne
  intro h; subst h; simp [isDigitB] at hc

theorem parseNum_digitsOf (n : Nat) (h : n ≤ maxInt64) : parseNum (digitsOf n) = some n := by
  have hall : (digitsOf n).all isDigitB = true := List.all_eq_true.2 (digitsOf_isDigit n)
  simp [parseNum, hall, digitsVal_digitsOf, h]

theorem parseSeg_segB (s : Nat × Nat) (h : SegOk s) : parseSeg (segB s) = some s := by
  unfold parseSeg
  rw [splitDD_segB]
  simp [parseNum_digitsOf s.1 h.1, parseNum_digitsOf s.2 h.2]

theorem mapM_parseSeg : ∀ (segs : List (Nat × Nat)), (∀ s ∈ segs, SegOk s) → (segs.map segB).mapM parseSeg = some segs := by
  intro segs
  induction segs with
  | nil => intro _; rfl
  | cons s t ih =>
    intro h
    simp [List.mapM_cons, parseSeg_segB s (h s List.mem_cons_self), ih (fun x hx => h x (List.mem_cons_of_mem _ hx))]

theorem parseCompSeg_compSegB (s : Nat × Nat) (h : SegOk s) : parseCompSeg (compSegB s) = some s := by
  unfold parseCompSeg compSegB
  rw [List.append_assoc, stripPrefix_append]
  simp only [stripSuffix_append]
  exact parseSeg_segB s h

theorem mapM_parseCompSeg : ∀ (segs : List (Nat × Nat)), (∀ s ∈ segs, SegOk s) →
    (segs.map compSegB).mapM parseCompSeg = some segs := by
  intro segs
  induction segs with
  | nil => intro _; rfl
  | cons s t ih =>
    intro h
    simp [List.mapM_cons, parseCompSeg_compSegB s (h s List.mem_cons_self), ih (fun x hx => h x (List.mem_cons_of_mem _ hx))]

theorem parseNum_not_digit (d : Bytes) (h : ∃ b ∈ d, isDigitB b = false) : parseNum d = none := by
  have : d.all isDigitB ≠ true := by
    intro hall
    obtain ⟨b, hb, hb2⟩ := h
    have := List.all_eq_true.1 hall b hb
    rw [hb2] at this; cases this
  simp [parseNum, this]

theorem compCut_no_dot : ∀ b ∈ compCut, b ≠ dot := by decide

theorem parseSeg_compSegB (s : Nat × Nat) : parseSeg (compSegB s) = none := by
  unfold parseSeg compSegB segB
  have e : compCut ++ (digitsOf s.1 ++ dot :: dot :: digitsOf s.2) ++ [rp] =
      (compCut ++ digitsOf s.1) ++ dot :: dot :: (digitsOf s.2 ++ [rp]) := by simp
  have hnd1 : ∀ b ∈ compCut ++ digitsOf s.1, b ≠ dot := by
    intro b hb
    rcases List.mem_append.1 hb with h | h
    · exact compCut_no_dot b h
    · exact digits_no_dot _ b h
  have hnd2 : ∀ b ∈ digitsOf s.2 ++ [rp], b ≠ dot := by
    intro b hb
    rcases List.mem_append.1 hb with h | h
    · exact digits_no_dot _ b h
    · simp at h; subst h; decide
  rw [e, splitDD_append_dd _ _ hnd1, splitDD_plain _ hnd2]
  have : parseNum (compCut ++ digitsOf s.1) = none :=
    parseNum_not_digit _ ⟨99, by simp [compCut], by decide⟩
  simp [this]

theorem compCut_no_comma : ∀ b ∈ compCut, b ≠ commaB := by decide

theorem compSegB_no_comma (s : Nat × Nat) : ∀ b ∈ compSegB s, b ≠ commaB := by
  intro b hb
  unfold compSegB at hb
  rcases List.mem_append.1 hb with h | h
  · rcases List.mem_append.1 h with h | h
    · exact compCut_no_comma b h
    · exact segB_no_comma s b h
  · simp at h; subst h; decide

/-- **parseLocation reads back what renderLocation writes**, for all five shapes and any number of segments -/
theorem parse_render (l : Loc) (h : LocOk l) : parseLocation (renderLocation l) = some l := by
  obtain ⟨form, segs⟩ := l
  obtain ⟨hne, hone, hok⟩ := h
  simp only at hne hone hok
  have hsplit : splitB commaB (joinB commaB (segs.map segB)) = segs.map segB :=
    splitB_joinB commaB _ (by simpa using hne) (by
      intro p hp
      obtain ⟨s, _, rfl⟩ := List.mem_map.1 hp
      exact segB_no_comma s)
  cases form with
  | range =>
    have h1 := hone (Or.inl rfl)
    match segs, h1, hok with
    | [s], _, hok =>
      have hs := hok s List.mem_cons_self
      simp only [renderLocation, List.headD_cons, parseLocation]
      rw [stripPrefix_joinCut_digit _ (startsDigit_segB s), stripPrefix_compCut_digit _ (startsDigit_segB s), parseSeg_segB s hs]
      rfl
  | comp =>
    have h1 := hone (Or.inr rfl)
    match segs, h1, hok with
    | [s], _, hok =>
      have hs := hok s List.mem_cons_self
      simp only [renderLocation, List.headD_cons, parseLocation]
      have hj : stripPrefix joinCut (compCut ++ segB s ++ [rp]) = none := by simp [stripPrefix, joinCut, compCut]
      rw [hj, List.append_assoc, stripPrefix_append]
      simp only [stripSuffix_append]
      rw [stripPrefix_joinCut_digit _ (startsDigit_segB s), parseSeg_segB s hs]
      rfl
  | join =>
    simp only [renderLocation, parseLocation]
    rw [List.append_assoc, stripPrefix_append]
    simp only [stripSuffix_append, hsplit, mapM_parseSeg segs hok]
  | compJoin =>
    simp only [renderLocation, parseLocation]
    have hj : stripPrefix joinCut (compCut ++ (joinCut ++ joinB commaB (segs.map segB) ++ [rp]) ++ [rp]) = none := by
      simp [stripPrefix, joinCut, compCut]
    rw [hj, List.append_assoc, stripPrefix_append]
    simp only [stripSuffix_append]
    rw [List.append_assoc, stripPrefix_append]
    simp only [stripSuffix_append, hsplit, mapM_parseSeg segs hok]
    rfl
  | joinComp =>
    simp only [renderLocation, parseLocation]
    rw [List.append_assoc, stripPrefix_append]
    have hsplit2 : splitB commaB (joinB commaB (segs.map compSegB)) = segs.map compSegB :=
      splitB_joinB commaB _ (by simpa using hne) (by
        intro p hp
        obtain ⟨s, _, rfl⟩ := List.mem_map.1 hp
        exact compSegB_no_comma s)
    have hnone : (segs.map compSegB).mapM parseSeg = none := by
      cases segs with
      | nil => exact absurd rfl hne
      | cons s t => simp [List.mapM_cons, parseSeg_compSegB]
    simp only [stripSuffix_append, hsplit2, hnone, mapM_parseCompSeg segs hok]

/-! ### everything parseLocation accepts is the rendering of a well-formed location -/

theorem stripPrefix_some : ∀ (p s r : Bytes), stripPrefix p s = some r → s = p ++ r := by
  intro p
  induction p with
  | nil => intro s r h; cases s <;> simp_all [stripPrefix]
  | cons a t ih =>
    intro s r h
    cases s with
    | nil => simp [stripPrefix] at h
    | cons b u =>
      simp only [stripPrefix] at h
      by_cases hab : a = b
      · subst hab
        simp only [if_true] at h
        rw [ih u r h]; rfl
      · simp [hab] at h

theorem stripSuffix_some (q s r : Bytes) (h : stripSuffix q s = some r) : s = r ++ q := by
  unfold stripSuffix at h
  cases hp : stripPrefix q.reverse s.reverse with
  | none => simp [hp] at h
  | some r' =>
    simp only [hp, Option.map_some, Option.some.injEq] at h
    have := stripPrefix_some _ _ _ hp
    have h2 : s = (q.reverse ++ r').reverse := by rw [← this]; simp
    rw [h2, ← h]; simp

theorem joinB_cons_ne (sep : Nat) (x : Bytes) (L : List Bytes) (h : L ≠ []) : joinB sep (x :: L) = x ++ sep :: joinB sep L := by
  cases L with
  | nil => exact absurd rfl h
  | cons y r => rfl

theorem joinB_cons_cons_head (sep b : Nat) (hd : Bytes) (r : List Bytes) : joinB sep ((b :: hd) :: r) = b :: joinB sep (hd :: r) := by
  cases r <;> simp [joinB]

theorem joinB_splitB (sep : Nat) : ∀ (s : Bytes), joinB sep (splitB sep s) = s := by
  intro s
  induction s with
  | nil => rfl
  | cons b t ih =>
    simp only [splitB]
    split
    · rename_i hb
      rw [joinB_cons_ne sep [] _ (splitB_ne_nil sep t), ih, hb]; rfl
    · cases hs : splitB sep t with
      | nil => exact absurd hs (splitB_ne_nil sep t)
      | cons hd r =>
        simp only
        rw [joinB_cons_cons_head, ← hs, ih]

def joinDD : List Bytes → Bytes
  | [] => []
  | [x] => x
  | x :: y :: r => x ++ dot :: dot :: joinDD (y :: r)

theorem joinDD_consB (a : Nat) (L : List Bytes) (h : L ≠ []) : joinDD (consB a L) = a :: joinDD L := by
  cases L with
  | nil => exact absurd rfl h
  | cons x r => cases r <;> simp [consB, joinDD]

theorem joinDD_splitDD : ∀ (x : Bytes), joinDD (splitDD x) = x
  | [] => rfl
  | [_] => rfl
  | a :: b :: t => by
    simp only [splitDD]
    split
    · rename_i h
      have hne := splitDD_ne_nil t
      cases hs : splitDD t with
      | nil => exact absurd hs hne
      | cons y r =>
        simp only [joinDD, List.nil_append]
        rw [← hs, joinDD_splitDD t, h.1, h.2]
    · rw [joinDD_consB a _ (splitDD_ne_nil (b :: t)), joinDD_splitDD (b :: t)]

theorem splitDD_two (x a b : Bytes) (h : splitDD x = [a, b]) : x = a ++ dot :: dot :: b := by
  have := joinDD_splitDD x
  rw [h] at this
  simpa [joinDD] using this.symm

theorem parseNum_some (d : Bytes) (n : Nat) (h : parseNum d = some n) : digitsOf n = d ∧ n ≤ maxInt64 := by
  unfold parseNum at h
  split at h
  · rename_i hc
    simp only [Option.some.injEq] at h
    subst h
    exact ⟨hc.2.2, hc.2.1⟩
  · cases h

theorem parseSeg_some (x : Bytes) (sg : Nat × Nat) (h : parseSeg x = some sg) : x = segB sg ∧ SegOk sg := by
  unfold parseSeg at h
  split at h
  · rename_i a b hs
    cases ha : parseNum a with
    | none => simp [ha] at h
    | some m =>
      cases hb : parseNum b with
      | none => simp [ha, hb] at h
      | some n =>
        simp only [ha, hb, Option.some.injEq] at h
        subst h
        have h1 := parseNum_some a m ha
        have h2 := parseNum_some b n hb
        refine ⟨?_, h1.2, h2.2⟩
        rw [splitDD_two x a b hs, segB, h1.1, h2.1]
  · cases h

theorem parseCompSeg_some (x : Bytes) (sg : Nat × Nat) (h : parseCompSeg x = some sg) : x = compSegB sg ∧ SegOk sg := by
  unfold parseCompSeg at h
  cases h1 : stripPrefix compCut x with
  | none => simp [h1] at h
  | some y =>
    simp only [h1] at h
    cases h2 : stripSuffix [rp] y with
    | none => simp [h2] at h
    | some z =>
      simp only [h2] at h
      have hz := parseSeg_some z sg h
      refine ⟨?_, hz.2⟩
      rw [stripPrefix_some _ _ _ h1, stripSuffix_some _ _ _ h2, hz.1, compSegB]
      simp

theorem mapM_some_inv {α : Type} (f : Bytes → Option α) (g : α → Bytes) (P : α → Prop)
    (hf : ∀ x a, f x = some a → x = g a ∧ P a) :
    ∀ (parts : List Bytes) (as : List α), parts.mapM f = some as → parts = as.map g ∧ ∀ a ∈ as, P a := by
  intro parts
  induction parts with
  | nil => intro as h; simp at h; subst h; simp
  | cons x t ih =>
    intro as h
    rw [List.mapM_cons] at h
    cases hx : f x with
    | none => simp [hx] at h
    | some a =>
      cases ht : t.mapM f with
      | none => simp [hx, ht] at h
      | some as' =>
        simp [hx, ht] at h
        subst h
        have h1 := hf x a hx
        have h2 := ih as' ht
        refine ⟨by rw [List.map_cons, ← h1.1, ← h2.1], ?_⟩
        intro y hy
        rcases List.mem_cons.1 hy with rfl | hy
        · exact h1.2
        · exact h2.2 y hy

theorem mapM_ne_nil {α : Type} (f : Bytes → Option α) : ∀ (parts : List Bytes) (as : List α), parts ≠ [] →
    parts.mapM f = some as → as ≠ [] := by
  intro parts as hne h
  cases parts with
  | nil => exact absurd rfl hne
  | cons x t =>
    rw [List.mapM_cons] at h
    cases hx : f x with
    | none => simp [hx] at h
    | some a =>
      cases ht : t.mapM f with
      | none => simp [hx, ht] at h
      | some as' => simp [hx, ht] at h; subst h; simp

/-- **what parseLocation accepts**: exactly the renderings of well-formed locations -/
theorem render_parse (s : Bytes) (l : Loc) (h : parseLocation s = some l) : renderLocation l = s ∧ LocOk l := by
  unfold parseLocation at h
  cases hj : stripPrefix joinCut s with
  | some r =>
    simp only [hj] at h
    cases hr : stripSuffix [rp] r with
    | none => simp [hr] at h
    | some m =>
      simp only [hr] at h
      have hs : s = joinCut ++ (m ++ [rp]) := by rw [stripPrefix_some _ _ _ hj, stripSuffix_some _ _ _ hr]
      have hm := joinB_splitB commaB m
      cases h1 : (splitB commaB m).mapM parseSeg with
      | some segs =>
        simp only [h1, Option.some.injEq] at h
        subst h
        have hinv := mapM_some_inv parseSeg segB SegOk parseSeg_some _ _ h1
        have hne := mapM_ne_nil parseSeg _ _ (splitB_ne_nil commaB m) h1
        refine ⟨?_, hne, by simp, hinv.2⟩
        simp only [renderLocation]
        rw [← hinv.1, hm, hs]; simp
      | none =>
        simp only [h1] at h
        cases h2 : (splitB commaB m).mapM parseCompSeg with
        | none => simp [h2] at h
        | some segs =>
          simp only [h2, Option.some.injEq] at h
          subst h
          have hinv := mapM_some_inv parseCompSeg compSegB SegOk parseCompSeg_some _ _ h2
          have hne := mapM_ne_nil parseCompSeg _ _ (splitB_ne_nil commaB m) h2
          refine ⟨?_, hne, by simp, hinv.2⟩
          simp only [renderLocation]
          rw [← hinv.1, hm, hs]; simp
  | none =>
    simp only [hj] at h
    cases hc : stripPrefix compCut s with
    | some r =>
      simp only [hc] at h
      cases hr : stripSuffix [rp] r with
      | none => simp [hr] at h
      | some m =>
        simp only [hr] at h
        have hs : s = compCut ++ (m ++ [rp]) := by rw [stripPrefix_some _ _ _ hc, stripSuffix_some _ _ _ hr]
        cases hj2 : stripPrefix joinCut m with
        | some r2 =>
          simp only [hj2] at h
          cases hr2 : stripSuffix [rp] r2 with
          | none => simp [hr2] at h
          | some m2 =>
            simp only [hr2] at h
            have hm2 := joinB_splitB commaB m2
            cases h1 : (splitB commaB m2).mapM parseSeg with
            | none => simp [h1] at h
            | some segs =>
              simp only [h1, Option.map_some, Option.some.injEq] at h
              subst h
              have hinv := mapM_some_inv parseSeg segB SegOk parseSeg_some _ _ h1
              have hne := mapM_ne_nil parseSeg _ _ (splitB_ne_nil commaB m2) h1
              refine ⟨?_, hne, by simp, hinv.2⟩
              simp only [renderLocation]
              rw [← hinv.1, hm2, hs, stripPrefix_some _ _ _ hj2, stripSuffix_some _ _ _ hr2]; simp
        | none =>
          simp only [hj2] at h
          cases h1 : parseSeg m with
          | none => simp [h1] at h
          | some sg =>
            simp only [h1, Option.map_some, Option.some.injEq] at h
            subst h
            have hsg := parseSeg_some m sg h1
            refine ⟨?_, by simp, by simp, by simpa using hsg.2⟩
            simp only [renderLocation, List.headD_cons]
            rw [hs, hsg.1]; simp
    | none =>
      simp only [hc] at h
      cases h1 : parseSeg s with
      | none => simp [h1] at h
      | some sg =>
        simp only [h1, Option.map_some, Option.some.injEq] at h
        subst h
        have hsg := parseSeg_some s sg h1
        refine ⟨?_, by simp, by simp, by simpa using hsg.2⟩
        simp only [renderLocation, List.headD_cons]
        exact hsg.1.symm

/-- **the strict parser lands in the structured model**: whatever text parseLocation accepts, the Go algorithm for
GetPositions computes on it the positions that Model/Regions.lean assigns to the parsed location -/
theorem getPositions_of_parse (s : Bytes) (l : Loc) (h : parseLocation s = some l) :
    getPositions s = .ok (locPositionsInt l) := by
  have := render_parse s l h
  rw [← this.1]
  exact getPositions_render l this.2

/-! ## the flat file -/

/-! ### ASCII text through the UTF-8 layer -/

open Gofasta.Model.GbUnicode (isSpace isLetter)

def Ascii (s : Bytes) : Prop := ∀ b ∈ s, b < 128

/-- printable, not a blank -/
def WordB (b : Nat) : Prop := 33 ≤ b ∧ b ≤ 126

instance (b : Nat) : Decidable (WordB b) := by unfold WordB; exact inferInstance

def AllWord (s : Bytes) : Prop := ∀ b ∈ s, WordB b

instance (s : Bytes) : Decidable (AllWord s) := by unfold AllWord; exact inferInstance

theorem allWord_ascii {s : Bytes} (h : AllWord s) : Ascii s := fun b hb => by have := h b hb; unfold WordB at this; omega

theorem ascii_append {a b : Bytes} (ha : Ascii a) (hb : Ascii b) : Ascii (a ++ b) := by
  intro x hx
  rcases List.mem_append.1 hx with h | h
  · exact ha x h
  · exact hb x h

theorem ascii_cons {x : Nat} {a : Bytes} (hx : x < 128) (ha : Ascii a) : Ascii (x :: a) := by
  intro y hy
  rcases List.mem_cons.1 hy with rfl | h
  · exact hx
  · exact ha y h

theorem allWord_append {a b : Bytes} (ha : AllWord a) (hb : AllWord b) : AllWord (a ++ b) := by
  intro x hx
  rcases List.mem_append.1 hx with h | h
  · exact ha x h
  · exact hb x h

theorem allWord_cons {x : Nat} {a : Bytes} (hx : WordB x) (ha : AllWord a) : AllWord (x :: a) := by
  intro y hy
  rcases List.mem_cons.1 hy with rfl | h
  · exact hx
  · exact ha y h

def tokA (s : Bytes) : List (Nat × Bytes) := s.map fun b => (b, [b])

theorem decodeRune_ascii (b : Nat) (t : Bytes) (h : b < 128) : decodeRune (b :: t) = (b, 1) := by
  simp [decodeRune, h]

theorem toks_ascii : ∀ (s : Bytes), Ascii s → toks s = tokA s := by
  intro s
  unfold toks
  induction s with
  | nil => intro _; rfl
  | cons b t ih =>
    intro h
    have hb := h b List.mem_cons_self
    simp only [toksAux, decodeRune_ascii b t hb, tokA, List.map_cons]
    rw [show (1 : Nat) - 1 = 0 from rfl, ih (fun x hx => h x (List.mem_cons_of_mem _ hx))]
    simp [tokA]

theorem runes_ascii (s : Bytes) (h : Ascii s) : runes s = s := by
  unfold runes
  rw [toks_ascii s h]
  simp [tokA, Function.comp_def]

theorem encodeRunes_ascii : ∀ (s : Bytes), Ascii s → encodeRunes s = s := by
  intro s
  induction s with
  | nil => intro _; rfl
  | cons b t ih =>
    intro h
    have hb := h b List.mem_cons_self
    have := ih (fun x hx => h x (List.mem_cons_of_mem _ hx))
    unfold encodeRunes at this ⊢
    simp [encodeRune, hb, this]

theorem isSpace_blank : isSpace 32 = true := by decide

theorem isSpace_word (b : Nat) (h : WordB b) : isSpace b = false := by
  unfold WordB at h
  unfold isSpace
  simp
  omega

/-! ### strings.Fields on the rendered lines -/

def spaces (n : Nat) : Bytes := List.replicate n 32

theorem fieldsT_spaces : ∀ (n : Nat) (r : Bytes), fieldsT (tokA (spaces n ++ r)) = fieldsT (tokA r) := by
  intro n
  induction n with
  | zero => intro r; rfl
  | succ n ih =>
    intro r
    have : spaces (n + 1) ++ r = 32 :: (spaces n ++ r) := by simp [spaces, List.replicate_succ]
    rw [this]
    simp only [tokA, List.map_cons, fieldsT, isSpace_blank, if_true]
    exact ih r

theorem fieldsT_word_blank : ∀ (w : Bytes), w ≠ [] → AllWord w → ∀ (r : Bytes),
    fieldsT (tokA (w ++ 32 :: r)) = w :: fieldsT (tokA r) := by
  intro w
  induction w with
  | nil => intro h; exact absurd rfl h
  | cons b t ih =>
    intro _ hw r
    have hb := isSpace_word b (hw b List.mem_cons_self)
    cases t with
    | nil =>
      simp only [List.cons_append, List.nil_append, tokA, List.map_cons, fieldsT, hb, isSpace_blank, if_true]
      simp
    | cons b' t' =>
      have hb' := isSpace_word b' (hw b' (List.mem_cons_of_mem _ List.mem_cons_self))
      have ih' := ih (by simp) (fun x hx => hw x (List.mem_cons_of_mem _ hx)) r
      simp only [List.cons_append, tokA, List.map_cons] at ih' ⊢
      simp only [fieldsT, hb, hb', if_false, Bool.false_eq_true] at ih' ⊢
      rw [ih']
      simp [consHead]

theorem fieldsT_word_end : ∀ (w : Bytes), w ≠ [] → AllWord w → fieldsT (tokA w) = [w] := by
  intro w
  induction w with
  | nil => intro h; exact absurd rfl h
  | cons b t ih =>
    intro _ hw
    have hb := isSpace_word b (hw b List.mem_cons_self)
    cases t with
    | nil => simp [tokA, fieldsT, hb]
    | cons b' t' =>
      have hb' := isSpace_word b' (hw b' (List.mem_cons_of_mem _ List.mem_cons_self))
      have ih' := ih (by simp) (fun x hx => hw x (List.mem_cons_of_mem _ hx))
      simp only [tokA, List.map_cons] at ih' ⊢
      simp only [fieldsT, hb, hb', if_false, Bool.false_eq_true] at ih' ⊢
      rw [ih']
      simp [consHead]

theorem fieldsT_two (c : Nat) (bs : Bytes) (b : Nat) (bs' : Bytes) (t : List (Nat × Bytes)) :
    fieldsT ((c, bs) :: (b, bs') :: t) =
      if isSpace c = true then fieldsT ((b, bs') :: t)
      else if isSpace b = true then bs :: fieldsT ((b, bs') :: t) else consHead bs (fieldsT ((b, bs') :: t)) := by
  rw [fieldsT]

/-- the first field of a line that begins with a non-blank byte starts with that byte -/
theorem fieldsT_head : ∀ (r : Bytes) (c : Nat), isSpace c = false →
    ∃ f fs, fieldsT (tokA (c :: r)) = (c :: f) :: fs := by
  intro r
  induction r with
  | nil => intro c hs; exact ⟨[], [], by simp [tokA, fieldsT, hs]⟩
  | cons b t ih =>
    intro c hs
    simp only [tokA, List.map_cons] at ih ⊢
    rw [fieldsT_two]
    by_cases hsb : isSpace b = true
    · exact ⟨[], fieldsT ((b, [b]) :: List.map (fun b => (b, [b])) t), by simp [hs, hsb]⟩
    · have hsb' : isSpace b = false := by simpa using hsb
      obtain ⟨f, fs, hf⟩ := ih b hsb'
      refine ⟨b :: f, fs, ?_⟩
      simp only [hs, hsb', if_false, Bool.false_eq_true]
      rw [hf]
      simp [consHead]

/-! ### strings.TrimSpace on the rendered lines -/

theorem trimLeftAux_spaces : ∀ (n : Nat) (c : Nat) (r : Bytes), c < 128 → isSpace c = false →
    trimLeftAux 0 (spaces n ++ c :: r) = c :: r := by
  intro n
  induction n with
  | zero => intro c r hc hs; simp [spaces, trimLeftAux, decodeRune_ascii c r hc, hs]
  | succ n ih =>
    intro c r hc hs
    have : spaces (n + 1) ++ c :: r = 32 :: (spaces n ++ c :: r) := by simp [spaces, List.replicate_succ]
    rw [this]
    simp only [trimLeftAux, decodeRune_ascii 32 _ (by omega), isSpace_blank, if_true]
    exact ih c r hc hs

theorem trimRightAux_keep (e : Nat) (r : Bytes) (he : e < 128) (hs : isSpace e = false) : trimRightAux 0 (e :: r) = e :: r := by
  simp [trimRightAux, decodeLastRev, he, hs]

/-- blanks, then a body that begins and ends with a non-blank ASCII byte -/
theorem trimSpace_line (n : Nat) (c : Nat) (t : Bytes) (y : Bytes) (e : Nat) (hbody : c :: t = y ++ [e])
    (hc : c < 128) (hcs : isSpace c = false) (he : e < 128) (hes : isSpace e = false) :
    trimSpace (spaces n ++ c :: t) = c :: t := by
  unfold trimSpace
  rw [trimLeftAux_spaces n c t hc hcs, hbody, List.reverse_append, List.reverse_cons, List.reverse_nil, List.nil_append,
    List.singleton_append, trimRightAux_keep e _ he hes]
  simp

/-! ### the qualifier scans -/

theorem valScan_plain : ∀ (v r : List Nat) (qc : Bool), (∀ b ∈ v, b ≠ eqB ∧ b ≠ quoteB) →
    valScan (v ++ r) qc = (v ++ (valScan r qc).1, (valScan r qc).2) := by
  intro v
  induction v with
  | nil => intro r qc _; rfl
  | cons b t ih =>
    intro r qc h
    have hb := h b List.mem_cons_self
    simp only [List.cons_append, valScan, hb.1, hb.2, if_false]
    rw [ih r qc (fun x hx => h x (List.mem_cons_of_mem _ hx))]

theorem qualScan_key : ∀ (k r : List Nat), (∀ b ∈ k, b ≠ eqB) →
    qualScan (k ++ eqB :: r) = (k, (valScan r true).1, (valScan r true).2) := by
  intro k
  induction k with
  | nil => intro r _; simp [qualScan]
  | cons b t ih =>
    intro r h
    have hb := h b List.mem_cons_self
    simp only [List.cons_append, qualScan, hb, if_false]
    rw [ih r (fun x hx => h x (List.mem_cons_of_mem _ hx))]

/-- `key="value"` -/
theorem qualScan_quoted (k v : List Nat) (hk : ∀ b ∈ k, b ≠ eqB) (hv : ∀ b ∈ v, b ≠ eqB ∧ b ≠ quoteB) :
    qualScan (k ++ eqB :: quoteB :: (v ++ [quoteB])) = (k, v, true) := by
  rw [qualScan_key k _ hk]
  have h1 : valScan (quoteB :: (v ++ [quoteB])) true = valScan (v ++ [quoteB]) false := by
    have : quoteB ≠ eqB := by decide
    simp [valScan, this]
  rw [h1, valScan_plain v [quoteB] false hv]
  have : quoteB ≠ eqB := by decide
  simp [valScan, this]

/-! ### rendering of well-formed features -/

/-- a feature as a writer holds it: key, structured location, qualifiers in order -/
structure FeatS where
  key : Bytes
  loc : Loc
  quals : List (Bytes × List Bytes)   -- key and the value as laid out: one piece, or wrapped into several lines

/-- the key column is 16 wide; a longer key is followed by one blank -/
def padN (k : Nat) : Nat := if k < 16 then 16 - k else 1

/-- five blanks, the key, blanks up to column 22, the location -/
def featLine (f : FeatS) : Bytes := spaces 5 ++ (f.key ++ (spaces (padN f.key.length) ++ renderLocation f.loc))

/-- 21 blanks, then /key="value" -/
def qualLine (q : Bytes × Bytes) : Bytes := spaces 21 ++ slash :: (q.1 ++ eqB :: quoteB :: (q.2 ++ [quoteB]))

/-- the continuation lines of a wrapped value: 21 blanks and the next piece; the closing quote after the last -/
def contLines : List Bytes → List Bytes
  | [] => []
  | [c] => [spaces 21 ++ (c ++ [quoteB])]
  | c :: c' :: r => (spaces 21 ++ c) :: contLines (c' :: r)

/-- the lines of a qualifier: /key="value" on one line, or /key="piece and continuation lines -/
def qualLines (q : Bytes × List Bytes) : List Bytes :=
  match q.2 with
  | [] => []
  | [c] => [qualLine (q.1, c)]
  | c :: c' :: r => (spaces 21 ++ slash :: (q.1 ++ eqB :: quoteB :: c)) :: contLines (c' :: r)

/-- key and value of a laid-out qualifier -/
def qv (q : Bytes × List Bytes) : Bytes × Bytes := (q.1, q.2.flatten)

def featLines (f : FeatS) : List Bytes := featLine f :: f.quals.flatMap qualLines

/-- what the reader must give back -/
def expected (f : FeatS) : Feat := { key := f.key, loc := renderLocation f.loc, info := some (f.quals.map qv) }

def ValB (b : Nat) : Prop := 32 ≤ b ∧ b ≤ 126 ∧ b ≠ eqB ∧ b ≠ quoteB

instance (b : Nat) : Decidable (ValB b) := by unfold ValB; exact inferInstance

/-- a qualifier the reader gives back unchanged: a non-empty key of printable non-blank bytes without `=`, a non-empty
value of printable bytes without `=` and `"`, the line within the scanner's limit -/
def QualOk (q : Bytes × Bytes) : Prop :=
  q.1 ≠ [] ∧ AllWord q.1 ∧ (∀ b ∈ q.1, b ≠ eqB) ∧ q.2 ≠ [] ∧ (∀ b ∈ q.2, ValB b) ∧ (qualLine q).length < maxTok

instance (q : Bytes × Bytes) : Decidable (QualOk q) := by unfold QualOk; exact inferInstance

/-- a laid-out qualifier the reader gives back unchanged: key as above; at least one piece, no piece empty, printable
bytes without `=` and `"`; a value wrapped over several lines contains no blank (the reader trims every line, so a blank
at a line break would be lost); every line within the scanner's limit -/
def QualOkW (q : Bytes × List Bytes) : Prop :=
  q.1 ≠ [] ∧ AllWord q.1 ∧ (∀ b ∈ q.1, b ≠ eqB) ∧ q.2 ≠ [] ∧ (∀ c ∈ q.2, c ≠ [] ∧ ∀ b ∈ c, ValB b) ∧
    (1 < q.2.length → ∀ c ∈ q.2, AllWord c) ∧ (∀ l ∈ qualLines q, l.length < maxTok)

instance (q : Bytes × List Bytes) : Decidable (QualOkW q) := by unfold QualOkW; exact inferInstance

/-- a feature the reader gives back unchanged: a key of printable non-blank bytes not starting with `/`, a well-formed
location, at least one qualifier, every qualifier well-formed, no qualifier key twice, the line within the limit -/
def FeatOk (f : FeatS) : Prop :=
  f.key ≠ [] ∧ AllWord f.key ∧ f.key.head? ≠ some slash ∧ LocOk f.loc ∧ f.quals ≠ [] ∧ (∀ q ∈ f.quals, QualOkW q) ∧
    (f.quals.map (·.1)).Nodup ∧ (featLine f).length < maxTok

instance (f : FeatS) : Decidable (FeatOk f) := by unfold FeatOk; exact inferInstance

/-! the text of a location consists of printable non-blank bytes -/

theorem allWord_digits (n : Nat) : AllWord (digitsOf n) := by
  intro b hb
  have := digitsOf_isDigit n b hb
  simp only [isDigitB, Bool.and_eq_true, decide_eq_true_eq] at this
  unfold WordB; omega

theorem allWord_segB (s : Nat × Nat) : AllWord (segB s) := by
  unfold segB
  exact allWord_append (allWord_digits _) (allWord_cons (by decide) (allWord_cons (by decide) (allWord_digits _)))

theorem allWord_joinB (parts : List Bytes) (h : ∀ p ∈ parts, AllWord p) : AllWord (joinB commaB parts) := by
  induction parts with
  | nil => intro b hb; cases hb
  | cons p t ih =>
    cases t with
    | nil => simpa [joinB] using h p List.mem_cons_self
    | cons q t' =>
      simp only [joinB]
      exact allWord_append (h p List.mem_cons_self) (allWord_cons (by decide) (ih (fun x hx => h x (List.mem_cons_of_mem _ hx))))

theorem allWord_joinCut : AllWord joinCut := by unfold AllWord; decide
theorem allWord_compCut : AllWord compCut := by unfold AllWord; decide

theorem allWord_compSegB (s : Nat × Nat) : AllWord (compSegB s) := by
  unfold compSegB
  exact allWord_append (allWord_append allWord_compCut (allWord_segB s)) (allWord_cons (by decide) (fun _ h => by cases h))

theorem allWord_render (l : Loc) : AllWord (renderLocation l) := by
  obtain ⟨form, segs⟩ := l
  have hrp : AllWord [rp] := allWord_cons (by decide) (fun _ h => by cases h)
  have hj : AllWord (joinB commaB (segs.map segB)) := allWord_joinB _ (by
    intro p hp; obtain ⟨s, _, rfl⟩ := List.mem_map.1 hp; exact allWord_segB s)
  cases form with
  | range => exact allWord_segB _
  | join => exact allWord_append (allWord_append allWord_joinCut hj) hrp
  | comp => exact allWord_append (allWord_append allWord_compCut (allWord_segB _)) hrp
  | compJoin => exact allWord_append (allWord_append allWord_compCut (allWord_append (allWord_append allWord_joinCut hj) hrp)) hrp
  | joinComp =>
    exact allWord_append (allWord_append allWord_joinCut (allWord_joinB _ (by
      intro p hp; obtain ⟨s, _, rfl⟩ := List.mem_map.1 hp; exact allWord_compSegB s))) hrp

theorem render_ne_nil (l : Loc) : renderLocation l ≠ [] := by
  obtain ⟨form, segs⟩ := l
  cases form with
  | range =>
    obtain ⟨c, t, h, _⟩ := startsDigit_segB (segs.headD (0, 0))
    simp only [renderLocation]
    rw [h]; simp
  | join => simp [renderLocation, joinCut]
  | comp => simp [renderLocation, compCut]
  | compJoin => simp [renderLocation, compCut]
  | joinComp => simp [renderLocation, joinCut]

theorem ascii_spaces (n : Nat) : Ascii (spaces n) := by
  intro b hb
  have := List.eq_of_mem_replicate hb
  omega

theorem ascii_featLine (f : FeatS) (h : FeatOk f) : Ascii (featLine f) := by
  unfold featLine
  exact ascii_append (ascii_spaces _) (ascii_append (allWord_ascii h.2.1)
    (ascii_append (ascii_spaces _) (allWord_ascii (allWord_render _))))

theorem ascii_val {v : Bytes} (h : ∀ b ∈ v, ValB b) : Ascii v := fun b hb => by
  have := h b hb; unfold ValB at this; omega

theorem ascii_qualLine (q : Bytes × Bytes) (h : QualOk q) : Ascii (qualLine q) := by
  unfold qualLine
  exact ascii_append (ascii_spaces _) (ascii_cons (by decide) (ascii_append (allWord_ascii h.2.1)
    (ascii_cons (by decide) (ascii_cons (by decide) (ascii_append (ascii_val h.2.2.2.2.1) (ascii_cons (by decide) (fun _ hh => by cases hh)))))))

/-! ### the lines of a feature through isFeatureLine, strings.Fields and strings.TrimSpace -/

theorem padN_pos (k : Nat) : ∃ p, padN k = p + 1 := by
  unfold padN
  split
  · exact ⟨16 - k - 1, by omega⟩
  · exact ⟨0, rfl⟩

theorem fields_featLine (f : FeatS) (h : FeatOk f) : fields (featLine f) = [f.key, renderLocation f.loc] := by
  unfold fields
  rw [toks_ascii _ (ascii_featLine f h)]
  unfold featLine
  obtain ⟨p, hp⟩ := padN_pos f.key.length
  rw [fieldsT_spaces, hp]
  have : spaces (p + 1) ++ renderLocation f.loc = 32 :: (spaces p ++ renderLocation f.loc) := by
    simp [spaces, List.replicate_succ]
  rw [this, fieldsT_word_blank f.key h.1 h.2.1, fieldsT_spaces, fieldsT_word_end _ (render_ne_nil _) (allWord_render _)]

theorem isFeatureLine_featLine (f : FeatS) (h : FeatOk f) : isFeatureLine (featLine f) true = true := by
  unfold isFeatureLine
  rw [fields_featLine f h]
  have := h.2.2.1
  simpa using this

theorem newGb_featLine (f : FeatS) (h : FeatOk f) :
    newGb (featLine f) = { key := f.key, loc := renderLocation f.loc, info := some [] } := by
  unfold newGb
  rw [fields_featLine f h]

theorem isFeatureLine_qualLine (q : Bytes × Bytes) (h : QualOk q) (qc : Bool) : isFeatureLine (qualLine q) qc = false := by
  unfold isFeatureLine
  cases qc with
  | false => rfl
  | true =>
    unfold fields
    rw [toks_ascii _ (ascii_qualLine q h)]
    unfold qualLine
    rw [fieldsT_spaces]
    obtain ⟨f, fs, hf⟩ := fieldsT_head (q.1 ++ eqB :: quoteB :: (q.2 ++ [quoteB])) slash (by decide)
    rw [hf]
    cases fs with
    | nil => rfl
    | cons a t =>
      cases t with
      | nil => simp
      | cons _ _ => rfl

theorem trimSpace_qualLine (q : Bytes × Bytes) :
    trimSpace (qualLine q) = slash :: (q.1 ++ eqB :: quoteB :: (q.2 ++ [quoteB])) := by
  unfold qualLine
  apply trimSpace_line 21 slash _ (slash :: (q.1 ++ eqB :: quoteB :: q.2)) quoteB
  · simp
  · decide
  · decide
  · decide
  · decide

theorem trimSpace_featLine (f : FeatS) (h : FeatOk f) :
    ∃ c t, trimSpace (featLine f) = c :: t ∧ c ≠ slash := by
  obtain ⟨hk, hkw, hks, _⟩ := h
  cases hkey : f.key with
  | nil => exact absurd hkey hk
  | cons c t =>
    have hc : WordB c := hkw c (by rw [hkey]; exact List.mem_cons_self)
    have hne := render_ne_nil f.loc
    have hlast : WordB ((renderLocation f.loc).getLast hne) := allWord_render f.loc _ (List.getLast_mem hne)
    refine ⟨c, t ++ (spaces (padN f.key.length) ++ renderLocation f.loc), ?_, ?_⟩
    · unfold featLine
      rw [hkey]
      have hc' := hc; unfold WordB at hc'
      have hl' := hlast; unfold WordB at hl'
      have := trimSpace_line 5 c (t ++ (spaces (padN (c :: t).length) ++ renderLocation f.loc))
        (c :: t ++ (spaces (padN (c :: t).length) ++ (renderLocation f.loc).dropLast)) ((renderLocation f.loc).getLast hne)
        (by
          have := List.dropLast_concat_getLast hne
          conv => lhs; rw [← this]
          simp)
        (by omega) (isSpace_word c hc) (by omega) (isSpace_word _ hlast)
      simpa using this
    · intro hcs
      subst hcs
      rw [hkey] at hks
      simp at hks

/-! ### parseGenbankFEATURES on the rendered feature table -/

/-- the loop state between two lines, outside a quoted value -/
def stOf (done : List Feat) (cur : Feat) (pk pv : Bytes) : FSt :=
  { feats := done, quoteClosed := true, gb := cur, key := pk, val := pv }

/-- the pending qualifier goes into the map when the next one starts -/
def flushQ (m : Info) (pk pv : Bytes) : Info := if pk = [] then m else setKV m pk pv

theorem qual_step (q : Bytes × Bytes) (hq : QualOk q) (done : List Feat) (ck cl : Bytes) (m : Info) (pk pv : Bytes)
    (hpk : Ascii pk) (hpv : Ascii pv) :
    featStep false (qualLine q) (stOf done { key := ck, loc := cl, info := some m } pk pv) =
      some (stOf done { key := ck, loc := cl, info := some (flushQ m pk pv) } q.1 q.2) := by
  obtain ⟨_, hkw, hke, _, hv, _⟩ := hq
  have hrunes : runes (q.1 ++ eqB :: quoteB :: (q.2 ++ [quoteB])) = q.1 ++ eqB :: quoteB :: (q.2 ++ [quoteB]) :=
    runes_ascii _ (ascii_append (allWord_ascii hkw) (ascii_cons (by decide) (ascii_cons (by decide)
      (ascii_append (ascii_val hv) (ascii_cons (by decide) (fun _ hh => by cases hh))))))
  have hscan := qualScan_quoted q.1 q.2 hke (fun b hb => ⟨(hv b hb).2.2.1, (hv b hb).2.2.2⟩)
  unfold featStep
  simp only [stOf, isFeatureLine_qualLine q ⟨by assumption, hkw, hke, by assumption, hv, by assumption⟩ true,
    Bool.false_eq_true, false_and, if_false, trimSpace_qualLine, hrunes, hscan, true_and]
  by_cases hp : pk = []
  · subst hp
    simp [flushQ]
  · simp [hp, flushQ, store, encodeRunes_ascii pk hpk, encodeRunes_ascii pv hpv]

theorem feat_step (f : FeatS) (hf : FeatOk f) (done : List Feat) (ck cl : Bytes) (m : Info) (pk pv : Bytes)
    (hpk : Ascii pk) (hpv : Ascii pv) :
    featStep false (featLine f) (stOf done { key := ck, loc := cl, info := some m } pk pv) =
      some (stOf (done ++ [{ key := ck, loc := cl, info := some (setKV m pk pv) }])
        { key := f.key, loc := renderLocation f.loc, info := some [] } [] []) := by
  obtain ⟨c, t, htrim, hc⟩ := trimSpace_featLine f hf
  unfold featStep
  simp only [stOf, isFeatureLine_featLine f hf, Bool.false_eq_true, and_false, if_false, htrim, hc, false_and,
    Bool.not_true, true_and, if_true, store, encodeRunes_ascii pk hpk, encodeRunes_ascii pv hpv, newGb_featLine f hf]

theorem feat_first (f : FeatS) (hf : FeatOk f) :
    featStep true (featLine f) featInit =
      some (stOf [] { key := f.key, loc := renderLocation f.loc, info := some [] } [] []) := by
  unfold featStep
  simp [featInit, stOf, isFeatureLine_featLine f hf, newGb_featLine f hf]

/-! a value wrapped over several lines -/

/-- the loop state inside a quoted value -/
def stO (done : List Feat) (cur : Feat) (k v : Bytes) : FSt :=
  { feats := done, quoteClosed := false, gb := cur, key := k, val := v }

theorem contScan_plain : ∀ (c r : List Nat) (qc : Bool), (∀ b ∈ c, b ≠ quoteB) →
    contScan (c ++ r) qc = (c ++ (contScan r qc).1, (contScan r qc).2) := by
  intro c
  induction c with
  | nil => intro r qc _; rfl
  | cons b t ih =>
    intro r qc h
    have hb := h b List.mem_cons_self
    simp only [List.cons_append, contScan, hb, if_false]
    rw [ih r qc (fun x hx => h x (List.mem_cons_of_mem _ hx))]

/-- a piece of a wrapped value: non-empty, printable, no blank, no `=`, no `"` -/
def PieceOk (c : Bytes) : Prop := c ≠ [] ∧ AllWord c ∧ ∀ b ∈ c, ValB b

theorem piece_ends (c : Bytes) (h : PieceOk c) : ∃ h0 t y e, c = h0 :: t ∧ c = y ++ [e] ∧ WordB h0 ∧ WordB e := by
  obtain ⟨hne, hw, _⟩ := h
  cases hc : c with
  | nil => exact absurd hc hne
  | cons h0 t =>
    have hne' : h0 :: t ≠ [] := by simp
    refine ⟨h0, t, (h0 :: t).dropLast, (h0 :: t).getLast hne', rfl, (List.dropLast_concat_getLast hne').symm, ?_, ?_⟩
    · exact hw h0 (by rw [hc]; exact List.mem_cons_self)
    · exact hw _ (by rw [hc]; exact List.getLast_mem hne')

theorem trimSpace_piece (c : Bytes) (h : PieceOk c) : trimSpace (spaces 21 ++ c) = c := by
  obtain ⟨h0, t, y, e, hc, hy, hw0, hwe⟩ := piece_ends c h
  have hw0' := hw0; unfold WordB at hw0'
  have hwe' := hwe; unfold WordB at hwe'
  rw [hc]
  exact trimSpace_line 21 h0 t y e (by rw [← hc]; exact hy) (by omega) (isSpace_word _ hw0) (by omega) (isSpace_word _ hwe)

theorem trimSpace_piece_quote (c : Bytes) (h : PieceOk c) : trimSpace (spaces 21 ++ (c ++ [quoteB])) = c ++ [quoteB] := by
  obtain ⟨h0, t, y, e, hc, hy, hw0, hwe⟩ := piece_ends c h
  have hw0' := hw0; unfold WordB at hw0'
  rw [hc]
  exact trimSpace_line 21 h0 (t ++ [quoteB]) (h0 :: t) quoteB (by simp) (by omega) (isSpace_word _ hw0) (by decide) (by decide)

theorem cont_step (c : Bytes) (hc : PieceOk c) (done : List Feat) (cur : Feat) (k v : Bytes) (hk : k ≠ []) :
    featStep false (spaces 21 ++ c) (stO done cur k v) = some (stO done cur k (v ++ c)) := by
  obtain ⟨h0, t, y, e, hct, _, hw0, _⟩ := piece_ends c hc
  have hascii : Ascii c := allWord_ascii hc.2.1
  have hscan : contScan c false = (c, false) := by
    have := contScan_plain c [] false (fun b hb => (hc.2.2 b hb).2.2.2)
    simpa [contScan] using this
  have hh0 : h0 ≠ slash ∨ k ≠ [] := Or.inr hk
  unfold featStep
  simp only [stO, isFeatureLine, Bool.false_and, Bool.false_eq_true, false_and, if_false, trimSpace_piece c hc]
  rw [hct]
  simp only [hk, and_false, if_false, Bool.not_false, if_true]
  rw [← hct, runes_ascii c hascii, hscan]

theorem close_step (c : Bytes) (hc : PieceOk c) (done : List Feat) (cur : Feat) (k v : Bytes) (hk : k ≠ []) :
    featStep false (spaces 21 ++ (c ++ [quoteB])) (stO done cur k v) = some (stOf done cur k (v ++ c)) := by
  obtain ⟨h0, t, y, e, hct, _, hw0, _⟩ := piece_ends c hc
  have hascii : Ascii (c ++ [quoteB]) := ascii_append (allWord_ascii hc.2.1) (ascii_cons (by decide) (fun _ hh => by cases hh))
  have hscan : contScan (c ++ [quoteB]) false = (c, true) := by
    have := contScan_plain c [quoteB] false (fun b hb => (hc.2.2 b hb).2.2.2)
    simpa [contScan] using this
  unfold featStep
  simp only [stO, stOf, isFeatureLine, Bool.false_and, Bool.false_eq_true, false_and, if_false, trimSpace_piece_quote c hc]
  rw [hct]
  simp only [List.cons_append, hk, and_false, if_false, Bool.not_false, if_true]
  have e1 : h0 :: (t ++ [quoteB]) = c ++ [quoteB] := by rw [hct]; rfl
  rw [e1, runes_ascii _ hascii, hscan]
  simp [hct]

theorem cont_loop : ∀ (cs : List Bytes) (rest : List Bytes) (done : List Feat) (cur : Feat) (k v : Bytes), cs ≠ [] →
    (∀ c ∈ cs, PieceOk c) → k ≠ [] →
    featLoop (contLines cs ++ rest) false (stO done cur k v) = featLoop rest false (stOf done cur k (v ++ cs.flatten)) := by
  intro cs
  induction cs with
  | nil => intro _ _ _ _ _ h; exact absurd rfl h
  | cons c t ih =>
    intro rest done cur k v _ hp hk
    cases t with
    | nil =>
      simp only [contLines, List.cons_append, List.nil_append, featLoop, close_step c (hp c List.mem_cons_self) done cur k v hk]
      simp
    | cons c' r =>
      simp only [contLines, List.cons_append, featLoop, cont_step c (hp c List.mem_cons_self) done cur k v hk]
      rw [ih rest done cur k (v ++ c) (by simp) (fun x hx => hp x (List.mem_cons_of_mem _ hx)) hk]
      simp

theorem open_step (k c : Bytes) (hk1 : AllWord k) (hk2 : ∀ b ∈ k, b ≠ eqB) (hc : PieceOk c) (done : List Feat) (ck cl : Bytes)
    (m : Info) (pk pv : Bytes) (hpk : Ascii pk) (hpv : Ascii pv) :
    featStep false (spaces 21 ++ slash :: (k ++ eqB :: quoteB :: c)) (stOf done { key := ck, loc := cl, info := some m } pk pv) =
      some (stO done { key := ck, loc := cl, info := some (flushQ m pk pv) } k c) := by
  obtain ⟨h0, t, y, e, hct, hy, _, hwe⟩ := piece_ends c hc
  have hwe' := hwe; unfold WordB at hwe'
  have hbody : Ascii (k ++ eqB :: quoteB :: c) :=
    ascii_append (allWord_ascii hk1) (ascii_cons (by decide) (ascii_cons (by decide) (allWord_ascii hc.2.1)))
  have hline : Ascii (spaces 21 ++ slash :: (k ++ eqB :: quoteB :: c)) :=
    ascii_append (ascii_spaces _) (ascii_cons (by decide) hbody)
  have hfl : isFeatureLine (spaces 21 ++ slash :: (k ++ eqB :: quoteB :: c)) true = false := by
    unfold isFeatureLine fields
    rw [toks_ascii _ hline, fieldsT_spaces]
    obtain ⟨f, fs, hf⟩ := fieldsT_head (k ++ eqB :: quoteB :: c) slash (by decide)
    rw [hf]
    cases fs with
    | nil => rfl
    | cons a t' =>
      cases t' with
      | nil => simp
      | cons _ _ => rfl
  have htrim : trimSpace (spaces 21 ++ slash :: (k ++ eqB :: quoteB :: c)) = slash :: (k ++ eqB :: quoteB :: c) := by
    apply trimSpace_line 21 slash _ (slash :: (k ++ eqB :: quoteB :: y)) e
    · rw [hy]; simp
    · decide
    · decide
    · omega
    · exact isSpace_word _ hwe
  have hscan : qualScan (k ++ eqB :: quoteB :: c) = (k, c, false) := by
    rw [qualScan_key k _ hk2]
    have h1 : valScan (quoteB :: c) true = valScan c false := by
      have : quoteB ≠ eqB := by decide
      simp [valScan, this]
    have h2 := valScan_plain c [] false (fun b hb => ⟨(hc.2.2 b hb).2.2.1, (hc.2.2 b hb).2.2.2⟩)
    rw [h1]
    simp only [List.append_nil] at h2
    rw [h2]
    simp [valScan]
  unfold featStep
  simp only [stOf, stO, hfl, Bool.false_eq_true, false_and, if_false, htrim, runes_ascii _ hbody, hscan, true_and]
  by_cases hp : pk = []
  · subst hp
    simp [flushQ]
  · simp [hp, flushQ, store, encodeRunes_ascii pk hpk, encodeRunes_ascii pv hpv]

theorem ascii_flatten (cs : List Bytes) (h : ∀ c ∈ cs, ∀ b ∈ c, ValB b) : Ascii cs.flatten := by
  intro b hb
  obtain ⟨c, hc, hbc⟩ := List.mem_flatten.1 hb
  have := h c hc b hbc
  unfold ValB at this; omega

/-- all the lines of one qualifier: the pending one is stored, this one becomes pending with its whole value -/
theorem qual_lines (q : Bytes × List Bytes) (hq : QualOkW q) (rest : List Bytes) (done : List Feat) (ck cl : Bytes) (m : Info)
    (pk pv : Bytes) (hpk : Ascii pk) (hpv : Ascii pv) :
    featLoop (qualLines q ++ rest) false (stOf done { key := ck, loc := cl, info := some m } pk pv) =
      featLoop rest false (stOf done { key := ck, loc := cl, info := some (flushQ m pk pv) } (qv q).1 (qv q).2) := by
  obtain ⟨k, cs⟩ := q
  obtain ⟨hk0, hk1, hk2, hne, hcs, hwrap, hlen⟩ := hq
  simp only at hk0 hk1 hk2 hne hcs hwrap hlen
  match cs, hne, hcs, hwrap, hlen with
  | [c], _, hcs, _, hlen =>
    have hq1 : QualOk (k, c) := ⟨hk0, hk1, hk2, (hcs c List.mem_cons_self).1, (hcs c List.mem_cons_self).2,
      hlen _ (by simp [qualLines])⟩
    simp only [qualLines, List.cons_append, List.nil_append, featLoop, qual_step (k, c) hq1 done ck cl m pk pv hpk hpv, qv]
    simp
  | c :: c' :: r, _, hcs, hwrap, _ =>
    have hpieces : ∀ x ∈ c :: c' :: r, PieceOk x := fun x hx =>
      ⟨(hcs x hx).1, hwrap (by simp) x hx, (hcs x hx).2⟩
    simp only [qualLines, List.cons_append, featLoop,
      open_step k c hk1 hk2 (hpieces c List.mem_cons_self) done ck cl m pk pv hpk hpv]
    rw [cont_loop (c' :: r) rest done _ k c (by simp) (fun x hx => hpieces x (List.mem_cons_of_mem _ hx)) hk0]
    simp [qv]

/-- the map and the pending qualifier after a run of qualifiers -/
def runQuals : Info → Bytes × Bytes → List (Bytes × Bytes) → Info × (Bytes × Bytes)
  | m, p, [] => (m, p)
  | m, p, q :: qs => runQuals (flushQ m p.1 p.2) q qs

/-- key and value non-empty and ASCII -/
def PairOk (p : Bytes × Bytes) : Prop := p.1 ≠ [] ∧ p.2 ≠ [] ∧ Ascii p.1 ∧ Ascii p.2

theorem pairOk_qv (q : Bytes × List Bytes) (hq : QualOkW q) : PairOk (qv q) := by
  obtain ⟨hk0, hk1, _, hne, hcs, _, _⟩ := hq
  refine ⟨hk0, ?_, allWord_ascii hk1, ascii_flatten _ (fun c hc => (hcs c hc).2)⟩
  cases hq2 : q.2 with
  | nil => exact absurd hq2 hne
  | cons c t =>
    have := (hcs c (by rw [hq2]; exact List.mem_cons_self)).1
    cases c with
    | nil => exact absurd rfl this
    | cons b u => simp [qv, hq2]

theorem quals_loop : ∀ (qs : List (Bytes × List Bytes)) (rest : List Bytes) (done : List Feat) (ck cl : Bytes) (m : Info)
    (p : Bytes × Bytes), (∀ q ∈ qs, QualOkW q) → Ascii p.1 → Ascii p.2 →
    featLoop (qs.flatMap qualLines ++ rest) false (stOf done { key := ck, loc := cl, info := some m } p.1 p.2) =
      featLoop rest false (stOf done { key := ck, loc := cl, info := some (runQuals m p (qs.map qv)).1 }
        (runQuals m p (qs.map qv)).2.1 (runQuals m p (qs.map qv)).2.2) := by
  intro qs
  induction qs with
  | nil => intro rest done ck cl m p _ _ _; rfl
  | cons q t ih =>
    intro rest done ck cl m p h h1 h2
    have hq := h q List.mem_cons_self
    have hp := pairOk_qv q hq
    simp only [List.flatMap_cons, List.append_assoc, List.map_cons, runQuals]
    rw [qual_lines q hq _ done ck cl m p.1 p.2 h1 h2]
    exact ih rest done ck cl _ (qv q) (fun x hx => h x (List.mem_cons_of_mem _ hx)) hp.2.2.1 hp.2.2.2

/-- m[k] = v on the insertion-ordered view, for a run of qualifiers -/
def storeAll (m : Info) (qs : List (Bytes × Bytes)) : Info := qs.foldl (fun m q => setKV m q.1 q.2) m

theorem runQuals_store : ∀ (qs : List (Bytes × Bytes)) (m : Info) (p : Bytes × Bytes), qs ≠ [] → (∀ q ∈ qs, q.1 ≠ []) →
    setKV (runQuals m p qs).1 (runQuals m p qs).2.1 (runQuals m p qs).2.2 = storeAll (flushQ m p.1 p.2) qs := by
  intro qs
  induction qs with
  | nil => intro m p h; exact absurd rfl h
  | cons q t ih =>
    intro m p _ hk
    cases t with
    | nil => simp [runQuals, storeAll]
    | cons q' t' =>
      have := ih (flushQ m p.1 p.2) q (by simp) (fun x hx => hk x (List.mem_cons_of_mem _ hx))
      have hq : q.1 ≠ [] := hk q List.mem_cons_self
      simp only [runQuals] at this ⊢
      rw [this]
      simp [storeAll, flushQ, hq]

theorem setKV_new (m : Info) (k v : Bytes) (h : ∀ e ∈ m, e.1 ≠ k) : setKV m k v = m ++ [(k, v)] := by
  unfold setKV
  have : m.any (fun e => e.1 == k) = false := by
    rw [List.any_eq_false]
    intro e he
    simpa using h e he
  simp [this]

theorem storeAll_nodup : ∀ (qs : List (Bytes × Bytes)) (m : Info), (qs.map (·.1)).Nodup →
    (∀ e ∈ m, ∀ q ∈ qs, e.1 ≠ q.1) → storeAll m qs = m ++ qs := by
  intro qs
  induction qs with
  | nil => intro m _ _; simp [storeAll]
  | cons q t ih =>
    intro m hnd hdis
    have hnd' : q.1 ∉ t.map (·.1) ∧ (t.map (·.1)).Nodup := List.nodup_cons.1 hnd
    have h1 : setKV m q.1 q.2 = m ++ [(q.1, q.2)] := setKV_new m q.1 q.2 (fun e he => hdis e he q List.mem_cons_self)
    have : storeAll m (q :: t) = storeAll (setKV m q.1 q.2) t := rfl
    rw [this, h1, ih _ hnd'.2]
    · simp
    · intro e he x hx
      rcases List.mem_append.1 he with he | he
      · exact hdis e he x (List.mem_cons_of_mem _ hx)
      · simp at he
        subst he
        intro heq
        exact hnd'.1 (List.mem_map.2 ⟨x, hx, heq.symm⟩)

theorem runQuals_last : ∀ (qs : List (Bytes × Bytes)) (m0 : Info) (p0 : Bytes × Bytes), qs ≠ [] → (∀ q ∈ qs, PairOk q) →
    (runQuals m0 p0 qs).2.1 ≠ [] ∧ (runQuals m0 p0 qs).2.2 ≠ [] ∧ Ascii (runQuals m0 p0 qs).2.1 ∧ Ascii (runQuals m0 p0 qs).2.2 := by
  intro qs
  induction qs with
  | nil => intro _ _ hh; exact absurd rfl hh
  | cons q t' ih' =>
    intro m0 p0 _ hall
    cases t' with
    | nil => exact hall q List.mem_cons_self
    | cons q' t'' => exact ih' _ q (by simp) (fun x hx => hall x (List.mem_cons_of_mem _ hx))

/-- the rest of the table, then the end of the loop: with a feature open and a qualifier pending -/
theorem feats_loop : ∀ (fs : List FeatS) (done : List Feat) (ck cl : Bytes) (m : Info) (pk pv : Bytes),
    (∀ f ∈ fs, FeatOk f) → pk ≠ [] → pv ≠ [] → Ascii pk → Ascii pv →
    (featLoop (fs.flatMap featLines) false (stOf done { key := ck, loc := cl, info := some m } pk pv)).bind featFinish =
      some (done ++ [{ key := ck, loc := cl, info := some (setKV m pk pv) }] ++ fs.map expected) := by
  intro fs
  induction fs with
  | nil =>
    intro done ck cl m pk pv _ hk hv hak hav
    simp [featLoop, featFinish, stOf, hk, hv, store, encodeRunes_ascii pk hak, encodeRunes_ascii pv hav]
  | cons f t ih =>
    intro done ck cl m pk pv h hk hv hak hav
    have hf := h f List.mem_cons_self
    have hqne := hf.2.2.2.2.1
    have hqs := hf.2.2.2.2.2.1
    have hnd := hf.2.2.2.2.2.2.1
    have hstep := feat_step f hf done ck cl m pk pv hak hav
    have e : (f :: t).flatMap featLines = featLine f :: (f.quals.flatMap qualLines ++ t.flatMap featLines) := by
      simp [featLines]
    rw [e]
    simp only [featLoop, hstep]
    have hloop := quals_loop f.quals (t.flatMap featLines) (done ++ [{ key := ck, loc := cl, info := some (setKV m pk pv) }])
      f.key (renderLocation f.loc) [] ([], []) hqs (fun _ hh => by cases hh) (fun _ hh => by cases hh)
    simp only at hloop
    rw [hloop]
    -- the last qualifier of f is pending
    have hpairs : ∀ p ∈ f.quals.map qv, PairOk p := by
      intro p hp
      obtain ⟨q, hq, rfl⟩ := List.mem_map.1 hp
      exact pairOk_qv q (hqs q hq)
    have hqne' : f.quals.map qv ≠ [] := by simpa using hqne
    obtain ⟨l1, l2, l3, l4⟩ := runQuals_last (f.quals.map qv) [] ([], []) hqne' hpairs
    rw [ih _ f.key (renderLocation f.loc) _ _ _ (fun x hx => h x (List.mem_cons_of_mem _ hx)) l1 l2 l3 l4]
    have hstore := runQuals_store (f.quals.map qv) [] ([], []) hqne' (fun q hq => (hpairs q hq).1)
    rw [hstore]
    have hall : storeAll (flushQ [] ([] : Bytes) ([] : Bytes)) (f.quals.map qv) = f.quals.map qv := by
      have hnd' : ((f.quals.map qv).map (·.1)).Nodup := by
        have : (f.quals.map qv).map (·.1) = f.quals.map (·.1) := by simp [qv, Function.comp_def]
        rw [this]; exact hnd
      have := storeAll_nodup (f.quals.map qv) [] hnd' (fun e he => by cases he)
      simpa [flushQ] using this
    simp only [] at hall ⊢
    rw [hall]
    simp [expected]

theorem parseFeatures_eq_bind (lines : List Bytes) :
    parseFeatures lines = (featLoop lines true featInit).bind featFinish := by
  unfold parseFeatures
  cases featLoop lines true featInit <;> rfl

/-- **the feature table**: parseGenbankFEATURES gives back every well-formed feature, in order, with its key, the
text of its location and all its qualifiers -/
theorem parseFeatures_render (fs : List FeatS) (hne : fs ≠ []) (h : ∀ f ∈ fs, FeatOk f) :
    parseFeatures (fs.flatMap featLines) = some (fs.map expected) := by
  cases fs with
  | nil => exact absurd rfl hne
  | cons f t =>
    have hf := h f List.mem_cons_self
    have hqne := hf.2.2.2.2.1
    have hqs := hf.2.2.2.2.2.1
    have hnd := hf.2.2.2.2.2.2.1
    have e : (f :: t).flatMap featLines = featLine f :: (f.quals.flatMap qualLines ++ t.flatMap featLines) := by
      simp [featLines]
    rw [parseFeatures_eq_bind, e]
    simp only [featLoop, feat_first f hf]
    have hloop := quals_loop f.quals (t.flatMap featLines) [] f.key (renderLocation f.loc) [] ([], []) hqs
      (fun _ hh => by cases hh) (fun _ hh => by cases hh)
    simp only at hloop
    rw [hloop]
    have hpairs : ∀ p ∈ f.quals.map qv, PairOk p := by
      intro p hp
      obtain ⟨q, hq, rfl⟩ := List.mem_map.1 hp
      exact pairOk_qv q (hqs q hq)
    have hqne' : f.quals.map qv ≠ [] := by simpa using hqne
    obtain ⟨l1, l2, l3, l4⟩ := runQuals_last (f.quals.map qv) [] ([], []) hqne' hpairs
    rw [feats_loop t [] f.key (renderLocation f.loc) _ _ _ (fun x hx => h x (List.mem_cons_of_mem _ hx)) l1 l2 l3 l4]
    have hstore := runQuals_store (f.quals.map qv) [] ([], []) hqne' (fun q hq => (hpairs q hq).1)
    rw [hstore]
    have hall : storeAll (flushQ [] ([] : Bytes) ([] : Bytes)) (f.quals.map qv) = f.quals.map qv := by
      have hnd' : ((f.quals.map qv).map (·.1)).Nodup := by
        have : (f.quals.map qv).map (·.1) = f.quals.map (·.1) := by simp [qv, Function.comp_def]
        rw [this]; exact hnd
      have := storeAll_nodup (f.quals.map qv) [] hnd' (fun e he => by cases he)
      simpa [flushQ] using this
    simp only [] at hall ⊢
    rw [hall]
    simp [expected]

/-! ### the whole record -/

/-- the bytes of `LOCUS       GB` -/
def locusLine : Bytes := [76, 79, 67, 85, 83, 32, 32, 32, 32, 32, 32, 32, 71, 66]
/-- the bytes of `FEATURES             Location/Qualifiers` -/
def featuresHdr : Bytes := [70, 69, 65, 84, 85, 82, 69, 83, 32, 32, 32, 32, 32, 32, 32, 32, 32, 32, 32, 32, 32, 76, 111, 99, 97,
  116, 105, 111, 110, 47, 81, 117, 97, 108, 105, 102, 105, 101, 114, 115]
/-- the bytes of `ORIGIN` and six blanks -/
def originHdr : Bytes := [79, 82, 73, 71, 73, 78, 32, 32, 32, 32, 32, 32]
/-- the terminator line -/
def endLine : Bytes := [47, 47]

theorem locusLine_text : locusLine = "LOCUS       GB".toList.map Char.toNat := by decide +kernel
theorem featuresHdr_text : featuresHdr = "FEATURES             Location/Qualifiers".toList.map Char.toNat := by decide +kernel
theorem originHdr_text : originHdr = "ORIGIN      ".toList.map Char.toNat := by decide +kernel

/-- cut into pieces of k elements (the last one may be shorter); `cur` is the piece being filled -/
def chunkGo {α : Type} (k : Nat) : List α → List α → List (List α)
  | [], cur => if cur.isEmpty then [] else [cur]
  | a :: t, cur => if cur.length + 1 = k then (cur ++ [a]) :: chunkGo k t [] else chunkGo k t (cur ++ [a])

/-- the number right-aligned in nine columns -/
def pad9 (n : Nat) : Bytes := spaces (9 - (digitsOf n).length) ++ digitsOf n

/-- one ORIGIN line: the number of its first base, then blocks of bases each preceded by a blank -/
def originLineOf (start : Nat) (groups : List Bytes) : Bytes := pad9 start ++ groups.flatMap fun g => 32 :: g

def numberLines : Nat → List (List Bytes) → List Bytes
  | _, [] => []
  | n, g :: gs => originLineOf n g :: numberLines (n + 60) gs

/-- sixty bases per line in blocks of ten -/
def originLines (origin : Bytes) : List Bytes := numberLines 1 (chunkGo 6 (chunkGo 10 origin []) [])

/-- the lines of the record: LOCUS, FEATURES, the feature table, ORIGIN, the sequence, the terminator -/
def renderLines (feats : List FeatS) (origin : Bytes) : List Bytes :=
  locusLine :: featuresHdr :: (feats.flatMap featLines ++ originHdr :: (originLines origin ++ [endLine]))

/-- the file: every line followed by a newline -/
def render (feats : List FeatS) (origin : Bytes) : Bytes := (renderLines feats origin).flatMap fun l => l ++ [10]

def isAlphaB (b : Nat) : Bool := (65 ≤ b && b ≤ 90) || (97 ≤ b && b ≤ 122)

/-- the sequence consists of ASCII letters (either case), and its lines stay within the scanner's limit -/
def OriginOk (origin : Bytes) : Prop :=
  (∀ b ∈ origin, isAlphaB b = true) ∧ ∀ l ∈ originLines origin, l.length < maxTok

instance (origin : Bytes) : Decidable (OriginOk origin) := by unfold OriginOk; exact inferInstance

/-! #### bufio.Scanner on the rendered text -/

def LineOk (l : Bytes) : Prop := (∀ b ∈ l, b ≠ 10 ∧ b ≠ 13) ∧ l.length < maxTok

theorem dropCRrev_no13 (x : Bytes) (h : ∀ b ∈ x, b ≠ 13) : dropCRrev x = x := by
  cases x with
  | nil => rfl
  | cons a t =>
    have := h a List.mem_cons_self
    unfold dropCRrev
    split
    · rename_i heq; injection heq with h1 _; exact absurd h1.symm (by omega)
    · rfl

theorem scanLines_line : ∀ (l rest acc : Bytes) (n : Nat), (∀ b ∈ l, b ≠ 10) → n + l.length < maxTok →
    scanLines (l ++ 10 :: rest) acc n = (dropCRrev (l.reverse ++ acc)).reverse :: scanLines rest [] 0 := by
  intro l
  induction l with
  | nil => intro rest acc n _ _; simp [scanLines]
  | cons b t ih =>
    intro rest acc n h hn
    have hb := h b List.mem_cons_self
    have hlim : ¬ (n + 1 ≥ maxTok) := by simp only [List.length_cons] at hn; omega
    simp only [List.cons_append, scanLines, hb, if_false, hlim]
    rw [ih rest (b :: acc) (n + 1) (fun x hx => h x (List.mem_cons_of_mem _ hx)) (by simp only [List.length_cons] at hn; omega)]
    simp

theorem scanLines_lines : ∀ (lines : List Bytes), (∀ l ∈ lines, LineOk l) →
    scanLines (lines.flatMap fun l => l ++ [10]) [] 0 = lines := by
  intro lines
  induction lines with
  | nil => intro _; simp [scanLines]
  | cons l t ih =>
    intro h
    have hl := h l List.mem_cons_self
    simp only [List.flatMap_cons, List.append_assoc, List.singleton_append]
    rw [scanLines_line l _ [] 0 (fun b hb => (hl.1 b hb).1) (by have := hl.2; omega), ih (fun x hx => h x (List.mem_cons_of_mem _ hx))]
    simp only [List.append_nil]
    rw [dropCRrev_no13 _ (fun b hb => (hl.1 b (List.mem_reverse.1 hb)).2)]
    simp

/-- Scan does not give up inside a line that fits the buffer -/
theorem tooLong_line : ∀ (l rest : Bytes) (n : Nat), (∀ b ∈ l, b ≠ 10) → n + l.length < maxTok →
    tooLong (l ++ 10 :: rest) n = tooLong rest 0 := by
  intro l
  induction l with
  | nil => intro rest n _ _; simp [tooLong]
  | cons b t ih =>
    intro rest n h hn
    have hb := h b List.mem_cons_self
    have hlim : ¬ (n + 1 ≥ maxTok) := by simp only [List.length_cons] at hn; omega
    simp only [List.cons_append, tooLong, hb, if_false, hlim]
    exact ih rest (n + 1) (fun x hx => h x (List.mem_cons_of_mem _ hx)) (by simp only [List.length_cons] at hn; omega)

/-- **tooLong_false_of_short** - a text made of LF-terminated lines that all fit the buffer (the same line facts
`scanLines_lines` uses): Scanner.Err stays nil -/
theorem tooLong_false_of_short : ∀ (lines : List Bytes), (∀ l ∈ lines, LineOk l) →
    tooLong (lines.flatMap fun l => l ++ [10]) 0 = false := by
  intro lines
  induction lines with
  | nil => intro _; simp [tooLong]
  | cons l t ih =>
    intro h
    have hl := h l List.mem_cons_self
    simp only [List.flatMap_cons, List.append_assoc, List.singleton_append]
    rw [tooLong_line l _ 0 (fun b hb => (hl.1 b hb).1) (by have := hl.2; omega)]
    exact ih (fun x hx => h x (List.mem_cons_of_mem _ hx))

/-! #### the section loop -/

/-- the loop over the lines has no error outcome of its own: a record or a panic -/
theorem readLoop_ne_error : ∀ (ls : List Bytes) (s : RSt), readLoop ls s ≠ .error := by
  intro ls
  induction ls with
  | nil =>
    intro s h
    unfold readLoop at h
    split at h <;> cases h
  | cons l t ih =>
    intro s h
    unfold readLoop at h
    split at h
    · exact ih _ h
    · split at h
      · split at h
        · exact ih _ h
        · split at h
          · cases h
          · exact ih _ h
      · exact ih _ h

theorem readLoop_collect : ∀ (block rest : List Bytes) (s : RSt), (∀ l ∈ block, ∃ b t, l = b :: t ∧ isUpperB b = false) →
    readLoop (block ++ rest) s = readLoop rest { s with lines := block.reverse ++ s.lines } := by
  intro block
  induction block with
  | nil => intro rest s _; rfl
  | cons l t ih =>
    intro rest s h
    obtain ⟨b, u, hl, hb⟩ := h l List.mem_cons_self
    subst hl
    simp only [List.cons_append, readLoop, hb, Bool.false_eq_true, if_false]
    rw [ih rest _ (fun x hx => h x (List.mem_cons_of_mem _ hx))]
    simp

theorem spaces_succ (n : Nat) (r : Bytes) : spaces (n + 1) ++ r = 32 :: (spaces n ++ r) := by
  simp [spaces, List.replicate_succ]

theorem contLines_start : ∀ (cs : List Bytes), ∀ l ∈ contLines cs, ∃ b t, l = b :: t ∧ isUpperB b = false := by
  intro cs
  induction cs with
  | nil => intro l hl; cases hl
  | cons c t ih =>
    intro l hl
    cases t with
    | nil =>
      simp only [contLines, List.mem_singleton] at hl
      subst hl
      exact ⟨32, _, spaces_succ 20 _, by decide⟩
    | cons c' r =>
      simp only [contLines] at hl
      rcases List.mem_cons.1 hl with rfl | hl
      · exact ⟨32, _, spaces_succ 20 _, by decide⟩
      · exact ih l hl

theorem qualLines_start (q : Bytes × List Bytes) : ∀ l ∈ qualLines q, ∃ b t, l = b :: t ∧ isUpperB b = false := by
  intro l hl
  obtain ⟨k, cs⟩ := q
  match cs, hl with
  | [], hl => cases hl
  | [c], hl =>
    simp only [qualLines, List.mem_singleton] at hl
    subst hl
    exact ⟨32, _, by unfold qualLine; exact spaces_succ 20 _, by decide⟩
  | c :: c' :: r, hl =>
    simp only [qualLines] at hl
    rcases List.mem_cons.1 hl with rfl | hl
    · exact ⟨32, _, spaces_succ 20 _, by decide⟩
    · exact contLines_start _ l hl

theorem featLines_start (f : FeatS) : ∀ l ∈ featLines f, ∃ b t, l = b :: t ∧ isUpperB b = false := by
  intro l hl
  unfold featLines at hl
  rcases List.mem_cons.1 hl with rfl | hl
  · exact ⟨32, _, by unfold featLine; exact spaces_succ 4 _, by decide⟩
  · obtain ⟨q, _, hlq⟩ := List.mem_flatMap.1 hl
    exact qualLines_start q l hlq

/-! #### parseGenbankORIGIN on the rendered sequence lines -/

theorem isLetter_ascii_fin : ∀ b : Fin 128, isLetter b.val = isAlphaB b.val := by decide +kernel

theorem isLetter_ascii (b : Nat) (h : b < 128) : isLetter b = isAlphaB b := isLetter_ascii_fin ⟨b, h⟩

theorem originLine_ascii : ∀ (l : Bytes), Ascii l → originLine l = l.filter isAlphaB := by
  intro l hl
  unfold originLine
  rw [toks_ascii l hl]
  induction l with
  | nil => rfl
  | cons b t ih =>
    have hb := hl b List.mem_cons_self
    have ih' := ih (fun x hx => hl x (List.mem_cons_of_mem _ hx))
    simp only [tokA, List.map_cons, List.flatMap_cons, List.filter_cons] at ih' ⊢
    rw [ih', isLetter_ascii b hb]
    cases isAlphaB b <;> simp [encodeRune, hb]

theorem chunkGo_flatten {α : Type} (k : Nat) : ∀ (s cur : List α), (chunkGo k s cur).flatten = cur ++ s := by
  intro s
  induction s with
  | nil =>
    intro cur
    cases cur <;> simp [chunkGo]
  | cons a t ih =>
    intro cur
    simp only [chunkGo]
    split
    · simp [ih]
    · simp [ih]

theorem filter_alpha_none (x : Bytes) (h : ∀ b ∈ x, isAlphaB b = false) : x.filter isAlphaB = [] := by
  apply List.filter_eq_nil_iff.2
  intro b hb
  simp [h b hb]

theorem filter_alpha_all (x : Bytes) (h : ∀ b ∈ x, isAlphaB b = true) : x.filter isAlphaB = x :=
  List.filter_eq_self.2 h

theorem pad9_not_alpha (n : Nat) : ∀ b ∈ pad9 n, isAlphaB b = false := by
  intro b hb
  unfold pad9 at hb
  rcases List.mem_append.1 hb with h | h
  · have := List.eq_of_mem_replicate h; subst this; decide
  · have := digitsOf_isDigit n b h
    simp only [isDigitB, Bool.and_eq_true, decide_eq_true_eq] at this
    simp [isAlphaB]; omega

theorem filter_groups : ∀ (groups : List Bytes), (∀ g ∈ groups, ∀ b ∈ g, isAlphaB b = true) →
    (groups.flatMap fun g => 32 :: g).filter isAlphaB = groups.flatten := by
  intro groups
  induction groups with
  | nil => intro _; rfl
  | cons g t ih =>
    intro h
    simp only [List.flatMap_cons, List.cons_append, List.filter_cons, List.flatten_cons, List.filter_append]
    rw [ih (fun x hx => h x (List.mem_cons_of_mem _ hx)), filter_alpha_all g (h g List.mem_cons_self)]
    simp [isAlphaB]

theorem ascii_originLineOf (n : Nat) (groups : List Bytes) (h : ∀ g ∈ groups, ∀ b ∈ g, isAlphaB b = true) :
    Ascii (originLineOf n groups) := by
  intro b hb
  unfold originLineOf at hb
  rcases List.mem_append.1 hb with h1 | h1
  · unfold pad9 at h1
    rcases List.mem_append.1 h1 with h2 | h2
    · have := List.eq_of_mem_replicate h2; omega
    · have := digitsOf_isDigit n b h2
      simp only [isDigitB, Bool.and_eq_true, decide_eq_true_eq] at this
      omega
  · obtain ⟨g, hg, hbg⟩ := List.mem_flatMap.1 h1
    rcases List.mem_cons.1 hbg with rfl | hbg
    · omega
    · have := h g hg b hbg
      simp only [isAlphaB, Bool.or_eq_true, Bool.and_eq_true, decide_eq_true_eq] at this
      omega

theorem parseOrigin_numberLines : ∀ (gs : List (List Bytes)) (n : Nat), (∀ groups ∈ gs, ∀ g ∈ groups, ∀ b ∈ g, isAlphaB b = true) →
    parseOrigin (numberLines n gs) = gs.flatten.flatten := by
  intro gs
  induction gs with
  | nil => intro n _; rfl
  | cons groups t ih =>
    intro n h
    have hg := h groups List.mem_cons_self
    have := ih (n + 60) (fun x hx => h x (List.mem_cons_of_mem _ hx))
    unfold parseOrigin at this ⊢
    simp only [numberLines, List.flatMap_cons, List.flatten_cons, List.flatten_append]
    rw [this, originLine_ascii _ (ascii_originLineOf n groups hg)]
    unfold originLineOf
    rw [List.filter_append, filter_alpha_none _ (pad9_not_alpha n), filter_groups groups hg]
    simp

theorem parseOrigin_append (a b : List Bytes) : parseOrigin (a ++ b) = parseOrigin a ++ parseOrigin b := by
  simp [parseOrigin]

theorem parseOrigin_render (origin : Bytes) (h : ∀ b ∈ origin, isAlphaB b = true) :
    parseOrigin (originLines origin ++ [endLine]) = origin := by
  have hfl : (chunkGo 6 (chunkGo 10 origin []) []).flatten.flatten = origin := by
    rw [chunkGo_flatten, List.nil_append, chunkGo_flatten, List.nil_append]
  have hmem : ∀ groups ∈ chunkGo 6 (chunkGo 10 origin []) [], ∀ g ∈ groups, ∀ b ∈ g, isAlphaB b = true := by
    intro groups hgs g hg b hb
    apply h
    rw [← hfl]
    exact List.mem_flatten.2 ⟨g, List.mem_flatten.2 ⟨groups, hgs, hg⟩, hb⟩
  rw [parseOrigin_append]
  unfold originLines
  rw [parseOrigin_numberLines _ 1 hmem, hfl]
  have : parseOrigin [endLine] = [] := by decide +kernel
  rw [this]; simp

/-! #### every rendered line is one the scanner delivers unchanged -/

def Printable (s : Bytes) : Prop := ∀ b ∈ s, 32 ≤ b ∧ b ≤ 126

theorem printable_append {a b : Bytes} (ha : Printable a) (hb : Printable b) : Printable (a ++ b) := by
  intro x hx
  rcases List.mem_append.1 hx with h | h
  · exact ha x h
  · exact hb x h

theorem printable_cons {x : Nat} {a : Bytes} (hx : 32 ≤ x ∧ x ≤ 126) (ha : Printable a) : Printable (x :: a) := by
  intro y hy
  rcases List.mem_cons.1 hy with rfl | h
  · exact hx
  · exact ha y h

theorem printable_nil : Printable [] := fun _ h => by cases h

theorem printable_spaces (n : Nat) : Printable (spaces n) := by
  intro b hb
  have := List.eq_of_mem_replicate hb
  omega

theorem printable_word {s : Bytes} (h : AllWord s) : Printable s := fun b hb => by
  have := h b hb; unfold WordB at this; omega

theorem printable_val {v : Bytes} (h : ∀ b ∈ v, ValB b) : Printable v := fun b hb => by
  have := h b hb; unfold ValB at this; omega

theorem lineOk_printable {l : Bytes} (hp : Printable l) (hlen : l.length < maxTok) : LineOk l :=
  ⟨fun b hb => by have := hp b hb; omega, hlen⟩

theorem lineOk_featLine (f : FeatS) (h : FeatOk f) : LineOk (featLine f) := by
  apply lineOk_printable _ h.2.2.2.2.2.2.2
  unfold featLine
  exact printable_append (printable_spaces _) (printable_append (printable_word h.2.1)
    (printable_append (printable_spaces _) (printable_word (allWord_render _))))

theorem lineOk_qualLine (q : Bytes × Bytes) (h : QualOk q) : LineOk (qualLine q) := by
  apply lineOk_printable _ h.2.2.2.2.2
  unfold qualLine
  exact printable_append (printable_spaces _) (printable_cons (by decide) (printable_append (printable_word h.2.1)
    (printable_cons (by decide) (printable_cons (by decide) (printable_append (printable_val h.2.2.2.2.1)
      (printable_cons (by decide) printable_nil))))))

theorem printable_contLines : ∀ (cs : List Bytes), (∀ c ∈ cs, ∀ b ∈ c, ValB b) → ∀ l ∈ contLines cs, Printable l := by
  intro cs
  induction cs with
  | nil => intro _ l hl; cases hl
  | cons c t ih =>
    intro h l hl
    have hc := printable_val (h c List.mem_cons_self)
    cases t with
    | nil =>
      simp only [contLines, List.mem_singleton] at hl
      subst hl
      exact printable_append (printable_spaces _) (printable_append hc (printable_cons (by decide) printable_nil))
    | cons c' r =>
      simp only [contLines] at hl
      rcases List.mem_cons.1 hl with rfl | hl
      · exact printable_append (printable_spaces _) hc
      · exact ih (fun x hx => h x (List.mem_cons_of_mem _ hx)) l hl

theorem printable_qualLines (q : Bytes × List Bytes) (hq : QualOkW q) : ∀ l ∈ qualLines q, Printable l := by
  intro l hl
  obtain ⟨k, cs⟩ := q
  obtain ⟨_, hk1, _, _, hcs, _, _⟩ := hq
  simp only at hk1 hcs
  match cs, hcs, hl with
  | [], _, hl => cases hl
  | [c], hcs, hl =>
    simp only [qualLines, List.mem_singleton] at hl
    subst hl
    unfold qualLine
    exact printable_append (printable_spaces _) (printable_cons (by decide) (printable_append (printable_word hk1)
      (printable_cons (by decide) (printable_cons (by decide) (printable_append (printable_val (hcs c List.mem_cons_self).2)
        (printable_cons (by decide) printable_nil))))))
  | c :: c' :: r, hcs, hl =>
    simp only [qualLines] at hl
    rcases List.mem_cons.1 hl with rfl | hl
    · exact printable_append (printable_spaces _) (printable_cons (by decide) (printable_append (printable_word hk1)
        (printable_cons (by decide) (printable_cons (by decide) (printable_val (hcs c List.mem_cons_self).2)))))
    · exact printable_contLines _ (fun x hx => (hcs x (List.mem_cons_of_mem _ hx)).2) l hl

theorem printable_originLineOf (n : Nat) (groups : List Bytes) (h : ∀ g ∈ groups, ∀ b ∈ g, isAlphaB b = true) :
    Printable (originLineOf n groups) := by
  intro b hb
  unfold originLineOf at hb
  rcases List.mem_append.1 hb with h1 | h1
  · unfold pad9 at h1
    rcases List.mem_append.1 h1 with h2 | h2
    · have := List.eq_of_mem_replicate h2; omega
    · have := digitsOf_isDigit n b h2
      simp only [isDigitB, Bool.and_eq_true, decide_eq_true_eq] at this
      omega
  · obtain ⟨g, hg, hbg⟩ := List.mem_flatMap.1 h1
    rcases List.mem_cons.1 hbg with rfl | hbg
    · omega
    · have := h g hg b hbg
      simp only [isAlphaB, Bool.or_eq_true, Bool.and_eq_true, decide_eq_true_eq] at this
      omega

theorem mem_numberLines : ∀ (gs : List (List Bytes)) (n : Nat) (l : Bytes), l ∈ numberLines n gs →
    ∃ m groups, groups ∈ gs ∧ l = originLineOf m groups := by
  intro gs
  induction gs with
  | nil => intro n l h; cases h
  | cons g t ih =>
    intro n l h
    simp only [numberLines] at h
    rcases List.mem_cons.1 h with rfl | h
    · exact ⟨n, g, List.mem_cons_self, rfl⟩
    · obtain ⟨m, groups, hg, hl⟩ := ih (n + 60) l h
      exact ⟨m, groups, List.mem_cons_of_mem _ hg, hl⟩

theorem originGroups_alpha (origin : Bytes) (h : ∀ b ∈ origin, isAlphaB b = true) :
    ∀ groups ∈ chunkGo 6 (chunkGo 10 origin []) [], ∀ g ∈ groups, ∀ b ∈ g, isAlphaB b = true := by
  have hfl : (chunkGo 6 (chunkGo 10 origin []) []).flatten.flatten = origin := by
    rw [chunkGo_flatten, List.nil_append, chunkGo_flatten, List.nil_append]
  intro groups hgs g hg b hb
  apply h
  rw [← hfl]
  exact List.mem_flatten.2 ⟨g, List.mem_flatten.2 ⟨groups, hgs, hg⟩, hb⟩

theorem pad9_start (n : Nat) : ∃ b t, pad9 n = b :: t ∧ isUpperB b = false := by
  unfold pad9
  cases h : 9 - (digitsOf n).length with
  | zero =>
    obtain ⟨c, t, hc, hd⟩ := startsDigit_digits n
    refine ⟨c, t, by simp [spaces, hc], ?_⟩
    simp only [isDigitB, Bool.and_eq_true, decide_eq_true_eq] at hd
    simp [isUpperB]; omega
  | succ k => exact ⟨32, _, spaces_succ k _, by decide⟩

theorem originLines_start (origin : Bytes) : ∀ l ∈ originLines origin ++ [endLine], ∃ b t, l = b :: t ∧ isUpperB b = false := by
  intro l hl
  rcases List.mem_append.1 hl with h | h
  · obtain ⟨m, groups, _, rfl⟩ := mem_numberLines _ _ _ h
    obtain ⟨b, t, hp, hb⟩ := pad9_start m
    exact ⟨b, t ++ groups.flatMap (fun g => 32 :: g), by unfold originLineOf; rw [hp]; rfl, hb⟩
  · simp at h; subst h
    exact ⟨47, [47], rfl, by decide⟩

theorem lineOk_renderLines (feats : List FeatS) (origin : Bytes) (hf : ∀ f ∈ feats, FeatOk f) (ho : OriginOk origin) :
    ∀ l ∈ renderLines feats origin, LineOk l := by
  have hfix : LineOk locusLine ∧ LineOk featuresHdr ∧ LineOk originHdr ∧ LineOk endLine := by
    unfold LineOk; decide
  intro l hl
  unfold renderLines at hl
  rcases List.mem_cons.1 hl with rfl | hl
  · exact hfix.1
  rcases List.mem_cons.1 hl with rfl | hl
  · exact hfix.2.1
  rcases List.mem_append.1 hl with hl | hl
  · obtain ⟨f, hfm, hlf⟩ := List.mem_flatMap.1 hl
    unfold featLines at hlf
    rcases List.mem_cons.1 hlf with rfl | hlf
    · exact lineOk_featLine f (hf f hfm)
    · obtain ⟨q, hq, hlq⟩ := List.mem_flatMap.1 hlf
      have hqok := (hf f hfm).2.2.2.2.2.1 q hq
      exact lineOk_printable (printable_qualLines q hqok l hlq) (hqok.2.2.2.2.2.2 l hlq)
  rcases List.mem_cons.1 hl with rfl | hl
  · exact hfix.2.2.1
  rcases List.mem_append.1 hl with hl | hl
  · have hlen := ho.2 l hl
    obtain ⟨m, groups, hg, rfl⟩ := mem_numberLines _ _ _ hl
    exact lineOk_printable (printable_originLineOf m groups (originGroups_alpha origin ho.1 groups hg)) hlen
  · simp at hl; subst hl
    exact hfix.2.2.2

/-! #### the round trip -/

def rst (h : Bytes) (ls : List Bytes) (r : Record) : RSt := { first := false, header := h, lines := ls, record := r }

def rec0 : Record := { features := none, origin := none }

def recF (fs : List Feat) : Record := { features := some fs, origin := none }

def recFO (fs : List Feat) (o : Bytes) : Record := { features := some fs, origin := some o }

def rstInit : RSt := { first := true, header := [], lines := [], record := rec0 }

theorem readLoop_upper_first (b : Nat) (t : Bytes) (rest : List Bytes) (hb : isUpperB b = true) :
    readLoop ((b :: t) :: rest) rstInit = readLoop rest (rst ((fields (b :: t)).headD []) [] rec0) := by
  simp [readLoop, hb, rstInit, rst]

theorem readLoop_upper_next (b : Nat) (t : Bytes) (rest : List Bytes) (h : Bytes) (ls : List Bytes) (r0 r : Record)
    (hb : isUpperB b = true) (hfl : flush (rst h ls r0) = some r) :
    readLoop ((b :: t) :: rest) (rst h ls r0) = readLoop rest (rst ((fields (b :: t)).headD []) [] r) := by
  simp only [readLoop, hb, if_true, hfl]
  simp [rst]

theorem readLoop_collect' (block rest : List Bytes) (h : Bytes) (r : Record)
    (hb : ∀ l ∈ block, ∃ b t, l = b :: t ∧ isUpperB b = false) :
    readLoop (block ++ rest) (rst h [] r) = readLoop rest (rst h block.reverse r) := by
  rw [readLoop_collect block rest _ hb]
  simp [rst]

theorem readLoop_end (s : RSt) (r : Record) (hfl : flush s = some r) : readLoop [] s = .ok r := by
  simp [readLoop, hfl]

theorem header_locus : (fields locusLine).headD [] = [76, 79, 67, 85, 83] := by decide +kernel
theorem header_features : (fields featuresHdr).headD [] = featuresWord := by decide +kernel
theorem header_origin : (fields originHdr).headD [] = originWord := by decide +kernel

theorem flush_locus : flush (rst [76, 79, 67, 85, 83] [] rec0) = some rec0 := by decide

theorem flush_features (feats : List FeatS) (hne : feats ≠ []) (hf : ∀ f ∈ feats, FeatOk f) :
    flush (rst featuresWord (feats.flatMap featLines).reverse rec0) = some (recF (feats.map expected)) := by
  simp [flush, rst, rec0, recF, parseFeatures_render feats hne hf]

theorem flush_origin (fs : List Feat) (origin : Bytes) (h : ∀ b ∈ origin, isAlphaB b = true) :
    flush (rst originWord (originLines origin ++ [endLine]).reverse (recF fs)) = some (recFO fs origin) := by
  have hne' : originWord ≠ featuresWord := by decide
  simp only [flush, rst, hne', if_false, if_true, List.reverse_reverse, parseOrigin_render origin h, recF, recFO]

/-- **gb_short_lines_unchanged** - on a text in which Scan never gives up (no 1 MiB without a newline), the repaired
reader (which looks at Scanner.Err after its loop) does exactly what the reader did before: the section loop over the
scanned lines -/
theorem gb_short_lines_unchanged (text : Bytes) (h : tooLong text 0 = false) :
    readGenBank text = readLoop (scanLines text [] 0) rstInit := by
  have hr : readGenBank text = match readLoop (scanLines text [] 0) rstInit with
      | .panic => .panic
      | .error => .error
      | .ok r => if tooLong text 0 then .error else .ok r := rfl
  rw [hr, h]
  cases readLoop (scanLines text [] 0) rstInit <;> simp

/-- **gb_long_line_reported** - a text in which Scan gives up on an over-long line is never read as a record: the
outcome is the error (or the panic of a section BEFORE that line, raised inside the loop). Before the repair of the Go
reader the lines before the long one were parsed and returned as if the file ended there. -/
theorem gb_long_line_reported (text : Bytes) (h : tooLong text 0 = true) (r : Record) : readGenBank text ≠ .ok r := by
  have hr : readGenBank text = match readLoop (scanLines text [] 0) rstInit with
      | .panic => .panic
      | .error => .error
      | .ok r => if tooLong text 0 then .error else .ok r := rfl
  rw [hr, h]
  cases readLoop (scanLines text [] 0) rstInit <;> simp

/-- more precisely: the error, unless the loop over the lines before the long one panics -/
theorem gb_long_line_result (text : Bytes) (h : tooLong text 0 = true) :
    readGenBank text = .error ∨ (readGenBank text = .panic ∧ readLoop (scanLines text [] 0) rstInit = .panic) := by
  have hr : readGenBank text = match readLoop (scanLines text [] 0) rstInit with
      | .panic => .panic
      | .error => .error
      | .ok r => if tooLong text 0 then .error else .ok r := rfl
  rw [hr, h]
  cases readLoop (scanLines text [] 0) rstInit <;> simp

/-- **GenBank round trip.** For every non-empty list of well-formed features and every ORIGIN sequence of ASCII letters,
the reader (bufio.Scanner line splitting, section detection, parseGenbankFEATURES, parseGenbankORIGIN) gives back, from
the rendered flat file, every feature in order - key, location text, all qualifiers - and the sequence. -/
theorem gb_roundtrip (feats : List FeatS) (origin : Bytes) (hne : feats ≠ []) (hf : ∀ f ∈ feats, FeatOk f)
    (ho : OriginOk origin) :
    readGenBank (render feats origin) = .ok { features := some (feats.map expected), origin := some origin } := by
  have hinit : readGenBank (render feats origin) = readLoop (scanLines (render feats origin) [] 0) rstInit :=
    gb_short_lines_unchanged _ (tooLong_false_of_short _ (lineOk_renderLines feats origin hf ho))
  rw [hinit]
  unfold render
  rw [scanLines_lines _ (lineOk_renderLines feats origin hf ho)]
  unfold renderLines
  have e1 : locusLine = 76 :: locusLine.tail := rfl
  have e2 : featuresHdr = 70 :: featuresHdr.tail := rfl
  have e3 : originHdr = 79 :: originHdr.tail := rfl
  -- LOCUS
  rw [e1, readLoop_upper_first 76 _ _ (by decide), ← e1, header_locus]
  -- FEATURES
  rw [e2, readLoop_upper_next 70 _ _ _ _ rec0 rec0 (by decide) flush_locus, ← e2, header_features]
  -- the feature table is collected
  rw [readLoop_collect' (feats.flatMap featLines) _ _ _ (by
    intro l hl
    obtain ⟨f, _, hlf⟩ := List.mem_flatMap.1 hl
    exact featLines_start f l hlf)]
  -- ORIGIN: the table is parsed
  rw [e3, readLoop_upper_next 79 _ _ _ _ rec0 _ (by decide) (flush_features feats hne hf), ← e3, header_origin]
  -- the sequence lines and the terminator are collected, then parsed at the end of the input
  have := readLoop_collect' (originLines origin ++ [endLine]) [] originWord (recF (feats.map expected)) (originLines_start origin)
  rw [List.append_nil] at this
  rw [this]
  exact readLoop_end _ _ (flush_origin _ origin ho.1)

end Gofasta.Lemmas.GbRT
