import Gofasta.Lemmas.AggOrder
import Gofasta.Lemmas.AACalls
import Std.Data.String.ToNat
/-
C12 for `variants --aggregate`: the aggregate table does not depend on the order in which the per-sequence
variant lists reach the aggregating writer.
-/
namespace Gofasta.Lemmas.AggVariants
open Gofasta Model

/-! ### 1. counting maps, generic in the key type -/

section Generic
variable {κ : Type} [DecidableEq κ]

/-- the association-list counter shared by `countInsert` (snps) and `aggInsert` (variants) -/
def ins (k : κ) : List (κ × Nat) → List (κ × Nat)
  | [] => [(k, 1)]
  | (k', n) :: t => if k' = k then (k', n + 1) :: t else (k', n) :: ins k t

/-- count every key of a list, in order -/
def insAll (ks : List κ) (m : List (κ × Nat)) : List (κ × Nat) := ks.foldl (fun m k => ins k m) m

/-- the number stored for a key -/
def cnt (k : κ) : List (κ × Nat) → Nat
  | [] => 0
  | (k', n) :: t => if k' = k then n else cnt k t

def keys (m : List (κ × Nat)) : List κ := m.map (·.1)

theorem cnt_ins_self (k : κ) : ∀ (m : List (κ × Nat)), cnt k (ins k m) = cnt k m + 1 := by
  intro m
  induction m with
  | nil => simp [ins, cnt]
  | cons e t ih =>
    obtain ⟨k', n⟩ := e
    by_cases h : k' = k
    · simp [ins, cnt, h]
    · simp [ins, cnt, h, ih]

theorem cnt_ins_other (k j : κ) (h : j ≠ k) : ∀ (m : List (κ × Nat)), cnt j (ins k m) = cnt j m := by
  intro m
  have h' : ¬ k = j := fun e => h e.symm
  induction m with
  | nil => simp [ins, cnt, h']
  | cons e t ih =>
    obtain ⟨k', n⟩ := e
    by_cases hk : k' = k
    · subst hk; simp [ins, cnt, h']
    · by_cases hj : k' = j
      · subst hj; simp [ins, cnt, h]
      · simp [ins, cnt, hk, hj, ih]

theorem cnt_insAll (k : κ) : ∀ (ks : List κ) (m : List (κ × Nat)), cnt k (insAll ks m) = cnt k m + ks.count k := by
  intro ks
  induction ks with
  | nil => intro m; simp [insAll]
  | cons s t ih =>
    intro m
    have := ih (ins s m)
    simp only [insAll, List.foldl_cons] at this ⊢
    rw [this]
    by_cases h : s = k
    · subst h; rw [cnt_ins_self]; simp; omega
    · rw [cnt_ins_other s k (fun e => h e.symm)]
      have : (s == k) = false := by simpa using h
      simp [List.count_cons, this]

theorem keys_ins (k : κ) : ∀ (m : List (κ × Nat)),
    keys (ins k m) = if k ∈ keys m then keys m else keys m ++ [k] := by
  intro m
  induction m with
  | nil => simp [ins, keys]
  | cons e t ih =>
    obtain ⟨k', n⟩ := e
    unfold keys at ih ⊢
    by_cases h : k' = k
    · subst h; simp [ins]
    · simp only [ins, h, if_false, List.map_cons, ih, List.mem_cons]
      have hne : ¬ (k = k') := fun e => h e.symm
      simp only [hne, false_or]
      split <;> simp

theorem keys_ins_nodup (k : κ) (m : List (κ × Nat)) (h : (keys m).Nodup) : (keys (ins k m)).Nodup := by
  rw [keys_ins]
  split
  · exact h
  · rename_i hk
    rw [List.nodup_append]
    refine ⟨h, by simp, ?_⟩
    intro a ha b hb
    simp only [List.mem_singleton] at hb
    subst hb
    intro e; subst e; exact hk ha

theorem mem_keys_ins (k j : κ) (m : List (κ × Nat)) : j ∈ keys (ins k m) ↔ j = k ∨ j ∈ keys m := by
  rw [keys_ins]
  split
  · rename_i hk
    constructor
    · intro h; exact Or.inr h
    · rintro (h | h)
      · subst h; exact hk
      · exact h
  · simp only [List.mem_append, List.mem_singleton]
    constructor
    · rintro (h | h); exact Or.inr h; exact Or.inl h
    · rintro (h | h); exact Or.inr h; exact Or.inl h

theorem keys_insAll : ∀ (ks : List κ) (m : List (κ × Nat)), (keys m).Nodup →
    (keys (insAll ks m)).Nodup ∧ ∀ j, j ∈ keys (insAll ks m) ↔ j ∈ ks ∨ j ∈ keys m := by
  intro ks
  induction ks with
  | nil => intro m h; exact ⟨h, fun j => by simp [insAll]⟩
  | cons s t ih =>
    intro m h
    have := ih (ins s m) (keys_ins_nodup s m h)
    simp only [insAll, List.foldl_cons] at this ⊢
    refine ⟨this.1, ?_⟩
    intro j
    rw [this.2 j, mem_keys_ins]
    simp only [List.mem_cons]
    constructor
    · rintro (h1 | h1 | h1)
      · exact Or.inl (Or.inr h1)
      · exact Or.inl (Or.inl h1)
      · exact Or.inr h1
    · rintro ((h1 | h1) | h1)
      · exact Or.inr (Or.inl h1)
      · exact Or.inl h1
      · exact Or.inr (Or.inr h1)

/-- the counting map has one entry per distinct key, and exactly the keys that occur -/
theorem insAll_keys (ks : List κ) : (keys (insAll ks [])).Nodup ∧ ∀ j, j ∈ keys (insAll ks []) ↔ j ∈ ks := by
  have := keys_insAll ks ([] : List (κ × Nat)) (by simp [keys])
  refine ⟨this.1, ?_⟩
  intro j
  rw [this.2 j]
  simp [keys]

/-- with distinct keys an entry is in the map iff it is the entry `cnt` finds -/
theorem mem_iff_cnt : ∀ (m : List (κ × Nat)), (keys m).Nodup → ∀ (e : κ × Nat),
    e ∈ m ↔ e.1 ∈ keys m ∧ e.2 = cnt e.1 m := by
  intro m
  induction m with
  | nil => intro _ e; simp [keys]
  | cons a t ih =>
    intro h e
    have hnd : (keys t).Nodup := by unfold keys at *; exact (List.nodup_cons.1 h).2
    have hna : a.1 ∉ keys t := by unfold keys at *; exact (List.nodup_cons.1 h).1
    obtain ⟨ak, an⟩ := a
    by_cases hk : ak = e.1
    · have hco : cnt e.1 ((ak, an) :: t) = an := by simp [cnt, hk]
      constructor
      · intro hm
        rcases List.mem_cons.1 hm with rfl | hm
        · exact ⟨by simp [keys], hco.symm⟩
        · exfalso; apply hna; simp only []; rw [hk]; exact List.mem_map.2 ⟨e, hm, rfl⟩
      · rintro ⟨_, h2⟩
        rw [hco] at h2
        have : e = (ak, an) := Prod.ext hk.symm h2
        rw [this]; exact List.mem_cons_self
    · have hco : cnt e.1 ((ak, an) :: t) = cnt e.1 t := by simp [cnt, hk]
      rw [hco]
      have iht := ih hnd e
      constructor
      · intro hm
        rcases List.mem_cons.1 hm with rfl | hm
        · exact absurd rfl hk
        · have := iht.1 hm
          exact ⟨by unfold keys at *; exact List.mem_cons_of_mem _ this.1, this.2⟩
      · rintro ⟨h1, h2⟩
        have h1' : e.1 ∈ keys t := by
          unfold keys at *
          rcases List.mem_cons.1 h1 with h | h
          · exact absurd h.symm hk
          · exact h
        exact List.mem_cons_of_mem _ (iht.2 ⟨h1', h2⟩)

omit [DecidableEq κ] in
theorem nodup_of_keys_nodup : ∀ (m : List (κ × Nat)), (keys m).Nodup → m.Nodup := by
  intro m
  induction m with
  | nil => intro _; simp
  | cons a t ih =>
    intro h
    unfold keys at h
    have := List.nodup_cons.1 h
    rw [List.nodup_cons]
    refine ⟨?_, ih this.2⟩
    intro ha
    exact this.1 (List.mem_map.2 ⟨a, ha, rfl⟩)

/-- **the counting maps of two arrival orders are permutations of each other** (any key type) -/
theorem insAll_perm (ks1 ks2 : List κ) (h : ks1.Perm ks2) : (insAll ks1 []).Perm (insAll ks2 []) := by
  have k1 := insAll_keys ks1
  have k2 := insAll_keys ks2
  rw [List.perm_ext_iff_of_nodup (nodup_of_keys_nodup _ k1.1) (nodup_of_keys_nodup _ k2.1)]
  intro e
  rw [mem_iff_cnt _ k1.1, mem_iff_cnt _ k2.1, k1.2, k2.2, cnt_insAll, cnt_insAll, h.mem_iff, h.count_eq]

/-- two entries of a counting map with the same key are the same entry -/
theorem entry_ext (m : List (κ × Nat)) (hk : (keys m).Nodup) (x y : κ × Nat) (hx : x ∈ m) (hy : y ∈ m)
    (h : x.1 = y.1) : x = y := by
  have hxm := (mem_iff_cnt m hk x).1 hx
  have hym := (mem_iff_cnt m hk y).1 hy
  exact Prod.ext h (by rw [hxm.2, hym.2, h])

end Generic

end Gofasta.Lemmas.AggVariants

namespace Gofasta.Lemmas.AggVariants
open Gofasta Model

/-! ### 2. the two instances of the generic counter -/

theorem aggInsert_eq_ins (k : AggKey) : ∀ (m : List (AggKey × Nat)), aggInsert k m = ins k m := by
  intro m
  induction m with
  | nil => rfl
  | cons e t ih =>
    obtain ⟨k', n⟩ := e
    simp only [aggInsert, ins, ih]

theorem countInsert_eq_ins (k : Snp) : ∀ (m : List (Snp × Nat)), countInsert k m = ins k m := by
  intro m
  induction m with
  | nil => rfl
  | cons e t ih =>
    obtain ⟨k', n⟩ := e
    simp only [countInsert, ins, ih]

theorem foldl_foldl_flatMap {α β γ : Type} (f : γ → β → γ) (g : α → List β) : ∀ (rows : List α) (m : γ),
    rows.foldl (fun m r => (g r).foldl f m) m = (rows.flatMap g).foldl f m := by
  intro rows
  induction rows with
  | nil => intro m; rfl
  | cons r t ih => intro m; simp only [List.foldl_cons, List.flatMap_cons, List.foldl_append, ih]

/-- the snps counting map is the generic one on the concatenated rows -/
theorem countAll_eq_insAll (rows : List (List Snp)) : countAll rows = insAll rows.flatten [] := by
  unfold countAll insAll
  have : (fun (m : List (Snp × Nat)) (s : Snp) => countInsert s m) = fun m s => ins s m := by
    funext m s; exact countInsert_eq_ins s m
  rw [this, foldl_foldl_flatMap (fun m s => ins s m) (fun r => r) rows []]
  simp [List.flatMap_id']

/-- `AggOrder.countAll_perm` again, now as an instance of the generic `insAll_perm` -/
theorem countAll_perm' (rows1 rows2 : List (List Snp)) (h : rows1.Perm rows2) : (countAll rows1).Perm (countAll rows2) := by
  rw [countAll_eq_insAll, countAll_eq_insAll]
  exact insAll_perm _ _ (List.Perm.flatten h)

/-! ### 3. sorting: congruence in the comparator, and permutations without ties -/

section Sorting
variable {α : Type}

theorem insSorted_congr (lt lt' : α → α → Bool) (x : α) : ∀ (l : List α), (∀ y ∈ l, lt x y = lt' x y) →
    insSorted lt x l = insSorted lt' x l := by
  intro l
  induction l with
  | nil => intro _; rfl
  | cons y t ih =>
    intro h
    simp only [insSorted]
    rw [h y List.mem_cons_self, ih (fun z hz => h z (List.mem_cons_of_mem _ hz))]

/-- two comparators that agree on the elements of a list sort it the same way -/
theorem sortStable_congr (lt lt' : α → α → Bool) : ∀ (l : List α), (∀ x ∈ l, ∀ y ∈ l, lt x y = lt' x y) →
    sortStable lt l = sortStable lt' l := by
  intro l
  induction l using rev_ind with
  | nil => intro _; rfl
  | snoc l x ih =>
    intro h
    rw [sortStable_append_singleton, sortStable_append_singleton,
      ih (fun a ha b hb => h a (List.mem_append_left _ ha) b (List.mem_append_left _ hb))]
    apply insSorted_congr
    intro y hy
    have hy' : y ∈ l := (sortStable_perm (lt := lt') l).mem_iff.1 hy
    exact h x (List.mem_append_right _ (List.mem_singleton.2 rfl)) y (List.mem_append_left _ hy')

/-- sorting two duplicate-free permutations of each other gives the same list when no two different
elements are tied (generic form of `AggOrder.sort_perm_eq`) -/
theorem sort_perm_eq_of_no_ties {lt : α → α → Bool} (hS : SWO lt) (m1 m2 : List α) (hp : m1.Perm m2) (hnd : m1.Nodup)
    (hd : ∀ x ∈ m1, ∀ y ∈ m1, tied lt x y = true → x = y) :
    sortStable lt m1 = sortStable lt m2 := by
  apply sorted_stable_unique hS _ _ ((sortStable_perm m1).trans (hp.trans (sortStable_perm m2).symm))
    (sorted_sortStable hS m1) (sorted_sortStable hS m2)
  intro z
  rw [sortStable_stable hS z m1, sortStable_stable hS z m2]
  apply AggOrder.perm_length_le_one _ _ (hp.filter _)
  apply AggOrder.filter_length_le_one _ _ hnd
  intro x hx y hy hzx hzy
  exact hd x hx y hy (tied_trans hS (tied_symm hzx) hzy)

end Sorting

/-! ### 4. lexicographic comparators are strict weak orders -/

section Lex
variable {α β : Type} [DecidableEq β]

/-- compare by the key `f` with `ltβ`; on equal keys fall through to `rest` -/
def lexLt (f : α → β) (ltβ : β → β → Bool) (rest : α → α → Bool) (a b : α) : Bool :=
  if f a != f b then ltβ (f a) (f b) else rest a b

/-- a strict total order, as Booleans -/
structure STO (ltβ : β → β → Bool) : Prop where
  asymm : ∀ a b, ltβ a b = true → ltβ b a = false
  trans : ∀ a b c, ltβ a b = true → ltβ b c = true → ltβ a c = true
  total : ∀ a b, a ≠ b → ltβ a b = true ∨ ltβ b a = true

theorem lexLt_swo (f : α → β) {ltβ : β → β → Bool} {rest : α → α → Bool} (hβ : STO ltβ) (hr : SWO rest) :
    SWO (lexLt f ltβ rest) := by
  constructor
  · intro a b h
    unfold lexLt at *
    by_cases e : f a = f b
    · have e' : f b = f a := e.symm
      simp only [e, bne_self_eq_false, Bool.false_eq_true, if_false] at h
      simp only [e', bne_self_eq_false, Bool.false_eq_true, if_false]
      exact hr.asymm _ _ h
    · have e' : ¬ f b = f a := fun x => e x.symm
      have n1 : (f a != f b) = true := by simpa using e
      have n2 : (f b != f a) = true := by simpa using e'
      simp only [n1, if_true] at h
      simp only [n2, if_true]
      exact hβ.asymm _ _ h
  · intro a b c h
    unfold lexLt at *
    by_cases eab : f a = f b
    · simp only [eab, bne_self_eq_false, Bool.false_eq_true, if_false] at h
      by_cases ebc : f b = f c
      · simp only [eab, ebc, bne_self_eq_false, Bool.false_eq_true, if_false]
        exact hr.negtrans a b c h
      · have ecb : ¬ f c = f b := fun x => ebc x.symm
        have n1 : (f b != f c) = true := by simpa using ebc
        have n2 : (f c != f b) = true := by simpa using ecb
        simp only [eab, n1, n2, if_true]
        exact hβ.total _ _ ebc
    · have n1 : (f a != f b) = true := by simpa using eab
      simp only [n1, if_true] at h
      by_cases eac : f a = f c
      · right
        have ecb : ¬ f c = f b := fun x => eab (eac.trans x)
        have n2 : (f c != f b) = true := by simpa using ecb
        simp only [n2, if_true]
        rw [← eac]; exact h
      · have n2 : (f a != f c) = true := by simpa using eac
        simp only [n2, if_true]
        by_cases ecb : f c = f b
        · left; rw [ecb]; exact h
        · have n3 : (f c != f b) = true := by simpa using ecb
          simp only [n3, if_true]
          rcases hβ.total _ _ eac with h1 | h1
          · exact Or.inl h1
          · exact Or.inr (hβ.trans _ _ _ h1 h)

/-- two elements are tied under a lexicographic comparator iff their keys are equal and the rest ties them -/
theorem tied_lexLt (f : α → β) {ltβ : β → β → Bool} (rest : α → α → Bool) (hβ : STO ltβ) (a b : α) :
    tied (lexLt f ltβ rest) a b = true ↔ f a = f b ∧ tied rest a b = true := by
  rw [tied_iff, tied_iff]
  unfold lexLt
  by_cases e : f a = f b
  · have e' : f b = f a := e.symm
    simp only [e, bne_self_eq_false, Bool.false_eq_true, if_false, true_and]
  · have e' : ¬ f b = f a := fun x => e x.symm
    have n1 : (f a != f b) = true := by simpa using e
    have n2 : (f b != f a) = true := by simpa using e'
    simp only [n1, n2, if_true, e, false_and, iff_false]
    rintro ⟨h1, h2⟩
    rcases hβ.total _ _ e with h | h
    · rw [h1] at h; cases h
    · rw [h2] at h; cases h

omit [DecidableEq β] in
theorem swo_false : SWO (fun (_ _ : α) => false) := by
  constructor
  · intro _ _ h; cases h
  · intro _ _ _ h; cases h

end Lex

theorem sto_int : STO (fun (a b : Int) => decide (a < b)) := by
  constructor
  · intro a b h; simp only [decide_eq_true_eq, decide_eq_false_iff_not] at *; omega
  · intro a b c h1 h2; simp only [decide_eq_true_eq] at *; omega
  · intro a b h; simp only [decide_eq_true_eq]; omega

theorem sto_nat : STO (fun (a b : Nat) => decide (a < b)) := by
  constructor
  · intro a b h; simp only [decide_eq_true_eq, decide_eq_false_iff_not] at *; omega
  · intro a b c h1 h2; simp only [decide_eq_true_eq] at *; omega
  · intro a b h; simp only [decide_eq_true_eq]; omega

/-- `<` on strings (lexicographic on the characters) is a strict total order -/
theorem sto_string : STO (fun (a b : String) => decide (a < b)) := by
  constructor
  · intro a b h
    simp only [decide_eq_true_eq, decide_eq_false_iff_not] at *
    exact String.lt_asymm h
  · intro a b c h1 h2
    simp only [decide_eq_true_eq] at *
    exact String.lt_trans h1 h2
  · intro a b h
    simp only [decide_eq_true_eq]
    by_cases h1 : a < b
    · exact Or.inl h1
    · by_cases h2 : b < a
      · exact Or.inr h2
      · exact absurd (String.le_antisymm (String.not_lt.1 h2) (String.not_lt.1 h1)) h

end Gofasta.Lemmas.AggVariants

namespace Gofasta.Lemmas.AggVariants
open Gofasta Model

/-! ### 5. the comparator of the variants aggregate table -/

abbrev VEntry := AggKey × Nat

/-- the repaired comparator: position, kind rank, query allele AS A STRING, printed form. It differs from `aggLt`
only in deciding "same query allele" on the strings that are then compared. -/
def aggLtN : VEntry → VEntry → Bool :=
  lexLt (fun e => e.1.v.pos) (fun x y => decide (x < y))
    (lexLt (fun e => e.1.v.kind.rank) (fun x y => decide (x < y))
      (lexLt (fun e => bytesToString e.1.v.queAl) (fun x y => decide (x < y))
        (lexLt (fun e => e.1.rep) (fun x y => decide (x < y)) (fun _ _ => false))))

/-- **`aggLtN` is a strict weak order** (on all entries) -/
theorem aggLtN_swo : SWO aggLtN :=
  lexLt_swo _ sto_int (lexLt_swo _ sto_nat (lexLt_swo _ sto_string (lexLt_swo _ sto_string swo_false)))

theorem rank_inj (a b : VKind) (h : a.rank = b.rank) : a = b := by
  cases a <;> cases b <;> simp [VKind.rank] at h <;> rfl

/-- entries tied under `aggLtN` agree on everything the comparator looks at -/
theorem tied_aggLtN_iff (a b : VEntry) : tied aggLtN a b = true ↔
    a.1.v.pos = b.1.v.pos ∧ a.1.v.kind = b.1.v.kind ∧ bytesToString a.1.v.queAl = bytesToString b.1.v.queAl ∧ a.1.rep = b.1.rep := by
  unfold aggLtN
  rw [tied_lexLt _ _ sto_int, tied_lexLt _ _ sto_nat, tied_lexLt _ _ sto_string, tied_lexLt _ _ sto_string]
  simp only [tied, Bool.not_false, Bool.and_self, and_true]
  constructor
  · rintro ⟨h1, h2, h3, h4⟩; exact ⟨h1, rank_inj _ _ h2, h3, h4⟩
  · rintro ⟨h1, h2, h3, h4⟩; exact ⟨h1, by rw [h2], h3, h4⟩

/-- `aggLt` written with the combinator: the third level tests the byte lists but orders the strings -/
theorem aggLt_unfold (a b : VEntry) : aggLt a b =
    lexLt (fun (e : VEntry) => e.1.v.pos) (fun x y => decide (x < y))
      (lexLt (fun (e : VEntry) => e.1.v.kind.rank) (fun x y => decide (x < y))
        (fun a b => if a.1.v.queAl != b.1.v.queAl then decide (bytesToString a.1.v.queAl < bytesToString b.1.v.queAl)
          else decide (a.1.rep < b.1.rep))) a b := by
  unfold aggLt lexLt
  rfl

theorem rest_false (a b : VEntry) : lexLt (fun (e : VEntry) => e.1.rep) (fun x y => decide (x < y)) (fun _ _ => false) a b
    = decide (a.1.rep < b.1.rep) := by
  unfold lexLt
  by_cases h : a.1.rep = b.1.rep
  · simp [h]
  · have : (a.1.rep != b.1.rep) = true := by simpa using h
    simp only [this, if_true]

/-- where the two comparators can differ: same position and kind, different query-allele bytes, same query-allele string -/
theorem aggLt_eq_aggLtN (a b : VEntry)
    (h : a.1.v.queAl = b.1.v.queAl ∨ bytesToString a.1.v.queAl ≠ bytesToString b.1.v.queAl ∨
      a.1.v.pos ≠ b.1.v.pos ∨ a.1.v.kind.rank ≠ b.1.v.kind.rank) : aggLt a b = aggLtN a b := by
  rw [aggLt_unfold]
  unfold aggLtN
  by_cases hp : a.1.v.pos = b.1.v.pos
  · by_cases hk : a.1.v.kind.rank = b.1.v.kind.rank
    · have hq : a.1.v.queAl = b.1.v.queAl ∨ bytesToString a.1.v.queAl ≠ bytesToString b.1.v.queAl := by
        rcases h with h | h | h | h
        · exact Or.inl h
        · exact Or.inr h
        · exact absurd hp h
        · exact absurd hk h
      have e1 : ∀ (r1 r2 : VEntry → VEntry → Bool), r1 a b = r2 a b →
          lexLt (fun (e : VEntry) => e.1.v.pos) (fun x y => decide (x < y))
            (lexLt (fun (e : VEntry) => e.1.v.kind.rank) (fun x y => decide (x < y)) r1) a b =
          lexLt (fun (e : VEntry) => e.1.v.pos) (fun x y => decide (x < y))
            (lexLt (fun (e : VEntry) => e.1.v.kind.rank) (fun x y => decide (x < y)) r2) a b := by
        intro r1 r2 hr
        unfold lexLt
        simp only [hp, hk, bne_self_eq_false, Bool.false_eq_true, if_false, hr]
      apply e1
      rcases hq with hq | hq
      · have hs : bytesToString a.1.v.queAl = bytesToString b.1.v.queAl := by rw [hq]
        rw [show lexLt (fun (e : VEntry) => bytesToString e.1.v.queAl) (fun x y => decide (x < y))
            (lexLt (fun (e : VEntry) => e.1.rep) (fun x y => decide (x < y)) (fun _ _ => false)) a b
            = lexLt (fun (e : VEntry) => e.1.rep) (fun x y => decide (x < y)) (fun _ _ => false) a b from by
              unfold lexLt; simp only [hs, bne_self_eq_false, Bool.false_eq_true, if_false]]
        rw [rest_false]
        simp only [hq, bne_self_eq_false, Bool.false_eq_true, if_false]
      · have hne : a.1.v.queAl ≠ b.1.v.queAl := fun e => hq (by rw [e])
        have n1 : (a.1.v.queAl != b.1.v.queAl) = true := by simpa using hne
        have n2 : (bytesToString a.1.v.queAl != bytesToString b.1.v.queAl) = true := by simpa using hq
        unfold lexLt
        simp only [n1, n2, if_true]
    · have n : (a.1.v.kind.rank != b.1.v.kind.rank) = true := by simpa using hk
      unfold lexLt
      simp only [hp, bne_self_eq_false, Bool.false_eq_true, if_false, n, if_true]
  · have n : (a.1.v.pos != b.1.v.pos) = true := by simpa using hp
    unfold lexLt
    simp only [n, if_true]

/-- in the case where they can differ `aggLt` ties the two entries -/
theorem aggLt_false_of_same_string (a b : VEntry) (hp : a.1.v.pos = b.1.v.pos) (hk : a.1.v.kind.rank = b.1.v.kind.rank)
    (hne : a.1.v.queAl ≠ b.1.v.queAl) (hs : bytesToString a.1.v.queAl = bytesToString b.1.v.queAl) : aggLt a b = false := by
  have n1 : (a.1.v.queAl != b.1.v.queAl) = true := by simpa using hne
  unfold aggLt
  simp only [hp, hk, bne_self_eq_false, Bool.false_eq_true, if_false, n1, if_true, hs, decide_eq_false_iff_not]
  exact String.lt_irrefl _

/-- if entries tied by `aggLt` have the same key, the two comparators agree on them -/
theorem aggLt_agree (a b : VEntry) (h : tied aggLt a b = true → a.1 = b.1) : aggLt a b = aggLtN a b := by
  by_cases hq : a.1.v.queAl = b.1.v.queAl
  · exact aggLt_eq_aggLtN a b (Or.inl hq)
  · by_cases hs : bytesToString a.1.v.queAl = bytesToString b.1.v.queAl
    · by_cases hp : a.1.v.pos = b.1.v.pos
      · by_cases hk : a.1.v.kind.rank = b.1.v.kind.rank
        · exfalso
          apply hq
          rw [h ((tied_iff a b).2 ⟨aggLt_false_of_same_string a b hp hk hq hs,
            aggLt_false_of_same_string b a hp.symm hk.symm (fun e => hq e.symm) hs.symm⟩)]
        · exact aggLt_eq_aggLtN a b (Or.inr (Or.inr (Or.inr hk)))
      · exact aggLt_eq_aggLtN a b (Or.inr (Or.inr (Or.inl hp)))
    · exact aggLt_eq_aggLtN a b (Or.inr (Or.inl hs))

/-- what a tie under `aggLt` means, from the definitions and trichotomy of string `<` -/
theorem tied_aggLt_iff (a b : VEntry) : tied aggLt a b = true ↔
    a.1.v.pos = b.1.v.pos ∧ a.1.v.kind = b.1.v.kind ∧ bytesToString a.1.v.queAl = bytesToString b.1.v.queAl ∧
      (a.1.v.queAl = b.1.v.queAl → a.1.rep = b.1.rep) := by
  by_cases hq : a.1.v.queAl = b.1.v.queAl
  · have e1 := aggLt_eq_aggLtN a b (Or.inl hq)
    have e2 := aggLt_eq_aggLtN b a (Or.inl hq.symm)
    have : tied aggLt a b = tied aggLtN a b := by unfold tied; rw [e1, e2]
    rw [this, tied_aggLtN_iff]
    simp only [hq, true_imp_iff]
  · simp only [hq, false_imp_iff, and_true]
    by_cases hs : bytesToString a.1.v.queAl = bytesToString b.1.v.queAl
    · by_cases hp : a.1.v.pos = b.1.v.pos
      · by_cases hk : a.1.v.kind.rank = b.1.v.kind.rank
        · have t : tied aggLt a b = true := (tied_iff a b).2 ⟨aggLt_false_of_same_string a b hp hk hq hs,
            aggLt_false_of_same_string b a hp.symm hk.symm (fun e => hq e.symm) hs.symm⟩
          simp only [t, true_iff]
          exact ⟨hp, rank_inj _ _ hk, hs⟩
        · have e1 := aggLt_eq_aggLtN a b (Or.inr (Or.inr (Or.inr hk)))
          have e2 := aggLt_eq_aggLtN b a (Or.inr (Or.inr (Or.inr (fun e => hk e.symm))))
          have : tied aggLt a b = tied aggLtN a b := by unfold tied; rw [e1, e2]
          rw [this, tied_aggLtN_iff]
          constructor
          · rintro ⟨h1, h2, h3, _⟩; exact ⟨h1, h2, h3⟩
          · rintro ⟨_, h2, _⟩; exact absurd (by rw [h2]) hk
      · have e1 := aggLt_eq_aggLtN a b (Or.inr (Or.inr (Or.inl hp)))
        have e2 := aggLt_eq_aggLtN b a (Or.inr (Or.inr (Or.inl (fun e => hp e.symm))))
        have : tied aggLt a b = tied aggLtN a b := by unfold tied; rw [e1, e2]
        rw [this, tied_aggLtN_iff]
        constructor
        · rintro ⟨h1, h2, h3, _⟩; exact ⟨h1, h2, h3⟩
        · rintro ⟨h1, _, _⟩; exact absurd h1 hp
    · have e1 := aggLt_eq_aggLtN a b (Or.inr (Or.inl hs))
      have e2 := aggLt_eq_aggLtN b a (Or.inr (Or.inl (fun e => hs e.symm)))
      have : tied aggLt a b = tied aggLtN a b := by unfold tied; rw [e1, e2]
      rw [this, tied_aggLtN_iff]
      constructor
      · rintro ⟨h1, h2, h3, _⟩; exact ⟨h1, h2, h3⟩
      · rintro ⟨_, _, h3⟩; exact absurd h3 hs

end Gofasta.Lemmas.AggVariants

namespace Gofasta.Lemmas.AggVariants
open Gofasta Model

/-! ### 6. the aggregate table for any arrival order -/

/-- the counter key of one mutation: the record with `snps` blanked, and its printed form -/
def aggKeyOf (appendSnp : Bool) (v : Variant) : AggKey := ⟨{ v with snps := "" }, formatVariant appendSnp v⟩

/-- all the keys counted by `variantsAggregate`, in arrival order: the mutations inside the window of every
record not named like the reference -/
def aggKeys (appendSnp : Bool) (start stop : Int) (refID : String) (rows : List (String × List Variant)) : List AggKey :=
  (rows.filter fun r => r.1 != refID).flatMap fun r => (r.2.filter (inWindow start stop)).map (aggKeyOf appendSnp)

/-- the counting map of `variantsAggregate` -/
def aggCounts (appendSnp : Bool) (start stop : Int) (refID : String) (rows : List (String × List Variant)) : List VEntry :=
  insAll (aggKeys appendSnp start stop refID rows) []

theorem counts_fold (a : Bool) (s e : Int) : ∀ (qrows : List (String × List Variant)) (m : List VEntry),
    qrows.foldl (fun m r => (r.2.filter (inWindow s e)).foldl (fun m v =>
      aggInsert { v := { v with snps := "" }, rep := formatVariant a v } m) m) m =
    insAll (qrows.flatMap fun r => (r.2.filter (inWindow s e)).map (aggKeyOf a)) m := by
  intro qrows
  induction qrows with
  | nil => intro m; rfl
  | cons r t ih =>
    intro m
    simp only [List.foldl_cons, List.flatMap_cons, insAll, List.foldl_append, List.foldl_map]
    rw [ih]
    simp only [insAll, aggKeyOf, aggInsert_eq_ins]

/-- `variantsAggregate`, with its counting map named -/
theorem variantsAggregate_eq (a : Bool) (s e : Int) (n d : Nat) (refID : String) (rows : List (String × List Variant)) :
    variantsAggregate a s e n d refID rows =
      "mutation,frequency\n" ++ String.join (((sortStable aggLt (aggCounts a s e refID rows)).filter fun x =>
        x.2 * d ≥ n * (rows.filter fun r => r.1 != refID).length).map fun x =>
          x.1.rep ++ "," ++ fmt9 x.2 (rows.filter fun r => r.1 != refID).length ++ "\n") := by
  unfold variantsAggregate aggCounts aggKeys
  simp only []
  rw [counts_fold]

/-- (3) the record filter and the key list respect permutations -/
theorem aggKeys_perm (a : Bool) (s e : Int) (refID : String) (rows1 rows2 : List (String × List Variant))
    (h : rows1.Perm rows2) : (aggKeys a s e refID rows1).Perm (aggKeys a s e refID rows2) :=
  List.Perm.flatMap_right _ (h.filter _)

theorem aggCounts_perm (a : Bool) (s e : Int) (refID : String) (rows1 rows2 : List (String × List Variant))
    (h : rows1.Perm rows2) : (aggCounts a s e refID rows1).Perm (aggCounts a s e refID rows2) :=
  insAll_perm _ _ (aggKeys_perm a s e refID rows1 rows2 h)

/-- the hypothesis about ties: two different counters that occur are never tied under `aggLt`
(the count plays no part in `aggLt`, so any count may be attached) -/
def Separated (ks : List AggKey) : Prop :=
  ∀ k1 ∈ ks, ∀ k2 ∈ ks, ∀ n1 n2 : Nat, tied aggLt (k1, n1) (k2, n2) = true → k1 = k2

/-- the same hypothesis spelled out with `tied_aggLt_iff` -/
theorem separated_iff (ks : List AggKey) : Separated ks ↔
    ∀ k1 ∈ ks, ∀ k2 ∈ ks, k1.v.pos = k2.v.pos → k1.v.kind = k2.v.kind →
      bytesToString k1.v.queAl = bytesToString k2.v.queAl → (k1.v.queAl = k2.v.queAl → k1.rep = k2.rep) → k1 = k2 := by
  unfold Separated
  constructor
  · intro h k1 h1 k2 h2 e1 e2 e3 e4
    exact h k1 h1 k2 h2 0 0 ((tied_aggLt_iff (k1, 0) (k2, 0)).2 ⟨e1, e2, e3, e4⟩)
  · intro h k1 h1 k2 h2 n1 n2 ht
    have := (tied_aggLt_iff (k1, n1) (k2, n2)).1 ht
    exact h k1 h1 k2 h2 this.1 this.2.1 this.2.2.1 this.2.2.2

/-- the sorted counting map is the same for every arrival order -/
theorem sorted_counts_any_order (a : Bool) (s e : Int) (refID : String) (rows1 rows2 : List (String × List Variant))
    (h : rows1.Perm rows2) (hsep : Separated (aggKeys a s e refID rows1)) :
    sortStable aggLt (aggCounts a s e refID rows1) = sortStable aggLt (aggCounts a s e refID rows2) := by
  have hp := aggCounts_perm a s e refID rows1 rows2 h
  have hk := insAll_keys (aggKeys a s e refID rows1)
  -- every entry of the map carries an occurring key
  have hmem : ∀ x ∈ aggCounts a s e refID rows1, x.1 ∈ aggKeys a s e refID rows1 := by
    intro x hx
    exact (hk.2 x.1).1 (List.mem_map.2 ⟨x, hx, rfl⟩)
  have hag : ∀ x ∈ aggCounts a s e refID rows1, ∀ y ∈ aggCounts a s e refID rows1, aggLt x y = aggLtN x y := by
    intro x hx y hy
    apply aggLt_agree
    intro ht
    exact hsep x.1 (hmem x hx) y.1 (hmem y hy) x.2 y.2 ht
  have hag2 : ∀ x ∈ aggCounts a s e refID rows2, ∀ y ∈ aggCounts a s e refID rows2, aggLt x y = aggLtN x y := by
    intro x hx y hy
    exact hag x (hp.mem_iff.2 hx) y (hp.mem_iff.2 hy)
  rw [sortStable_congr aggLt aggLtN _ hag, sortStable_congr aggLt aggLtN _ hag2]
  apply sort_perm_eq_of_no_ties aggLtN_swo _ _ hp (nodup_of_keys_nodup _ hk.1)
  intro x hx y hy ht
  apply entry_ext _ hk.1 x y hx hy
  have ht' : tied aggLt x y = true := by
    unfold tied at ht ⊢
    rw [hag x hx y hy, hag y hy x hx]; exact ht
  exact hsep x.1 (hmem x hx) y.1 (hmem y hy) x.2 y.2 ht'

/-- **C12 for `variants --aggregate`** — the whole table, bytes and all, is the same for every order in which the
per-sequence mutation lists reach the aggregating writer, provided two different counters that occur are never
tied under the sort key -/
theorem variants_aggregate_any_order (a : Bool) (s e : Int) (n d : Nat) (refID : String)
    (rows1 rows2 : List (String × List Variant)) (h : rows1.Perm rows2)
    (hsep : Separated (aggKeys a s e refID rows1)) :
    variantsAggregate a s e n d refID rows1 = variantsAggregate a s e n d refID rows2 := by
  rw [variantsAggregate_eq, variantsAggregate_eq, sorted_counts_any_order a s e refID rows1 rows2 h hsep,
    (h.filter _).length_eq]

end Gofasta.Lemmas.AggVariants

namespace Gofasta.Lemmas.AggVariants
open Gofasta Model

/-! ### 7. the hypotheses cannot be dropped: two counterexamples -/

def cxA : VEntry := (⟨{ kind := .nuc, pos := 1, queAl := [0] }, "a"⟩, 1)
def cxB : VEntry := (⟨{ kind := .nuc, pos := 1, queAl := [55296] }, "a"⟩, 1)
def cxC : VEntry := (⟨{ kind := .nuc, pos := 1, queAl := [0] }, "b"⟩, 1)

/-- **`aggLt` itself is NOT a strict weak order on all entries**: it tests the query alleles as byte lists but
orders them as strings, and `bytesToString` is not injective (0 and the surrogate 55296 both print as the NUL
character). Here A is before C, yet B is tied with both. -/
theorem aggLt_not_swo : ¬ SWO aggLt := by
  intro h
  have := h.negtrans cxA cxC cxB (by decide)
  revert this
  decide

def cxV1 : Variant := { kind := .del, pos := 5, len := 1, feature := "x" }
def cxV2 : Variant := { kind := .del, pos := 5, len := 1, feature := "y" }
def cxRows1 : List (String × List Variant) := [("a", [cxV1]), ("b", [cxV2]), ("c", [cxV2])]
def cxRows2 : List (String × List Variant) := [("b", [cxV2]), ("a", [cxV1]), ("c", [cxV2])]

/-- **the tie hypothesis is needed for arbitrary `Variant` lists**: two records that differ only in a field that
neither the sort key nor the printed form shows (here `feature` of a deletion) are different counters, tied under
`aggLt`, and the two arrival orders print their lines (with different frequencies) in different order:
`del:5:1,0.333333333 / del:5:1,0.666666667` against `del:5:1,0.666666667 / del:5:1,0.333333333`. -/
theorem tie_hypothesis_needed : cxRows1.Perm cxRows2 ∧
    variantsAggregate false 0 0 0 1 "ref" cxRows1 ≠ variantsAggregate false 0 0 0 1 "ref" cxRows2 :=
  ⟨List.Perm.swap _ _ _, by decide⟩

/-! ### 8. what can be proved about ties from the definitions of `formatVariant` and `AggKey` -/

/-- byte values that `Char.ofNat` keeps -/
def ValidBytes (l : List Nat) : Prop := ∀ x ∈ l, x.isValidChar

theorem toNat_ofNat_valid (n : Nat) (h : n.isValidChar) : (Char.ofNat n).toNat = n := by
  simp [Char.ofNat, h, Char.ofNatAux, Char.toNat]

theorem map_toNat_ofNat : ∀ (l : List Nat), ValidBytes l → (l.map Char.ofNat).map Char.toNat = l := by
  intro l
  induction l with
  | nil => intro _; rfl
  | cons x t ih =>
    intro h
    simp only [List.map_cons]
    rw [toNat_ofNat_valid x (h x List.mem_cons_self), ih (fun y hy => h y (List.mem_cons_of_mem _ hy))]

/-- on valid bytes the printed string determines the byte list -/
theorem bytesToString_inj (l1 l2 : List Nat) (h1 : ValidBytes l1) (h2 : ValidBytes l2)
    (h : bytesToString l1 = bytesToString l2) : l1 = l2 := by
  unfold bytesToString at h
  have h' := String.ofList_injective h
  rw [← map_toNat_ofNat l1 h1, ← map_toNat_ofNat l2 h2, h']

/-- the shape of the indel and SNP records made by `getIndelsPair`, `getNucsPair` and `aaStep`: the fields that
the printed form does not show have their default values -/
def Plain (v : Variant) : Prop :=
  ((v.kind = .ins ∨ v.kind = .del) ∧ v.refAl = [] ∧ v.queAl = [] ∧ v.feature = "" ∧ v.residue = 0) ∨
  (v.kind = .nuc ∧ v.len = 0 ∧ v.feature = "" ∧ v.residue = 0 ∧ ValidBytes v.refAl ∧ ValidBytes v.queAl)

theorem aggKeyOf_ext (a : Bool) (v1 v2 : Variant) (h1 : v1.kind = v2.kind) (h2 : v1.pos = v2.pos) (h3 : v1.len = v2.len)
    (h4 : v1.refAl = v2.refAl) (h5 : v1.queAl = v2.queAl) (h6 : v1.feature = v2.feature) (h7 : v1.residue = v2.residue)
    (h8 : formatVariant a v1 = formatVariant a v2) : aggKeyOf a v1 = aggKeyOf a v2 := by
  obtain ⟨k1, p1, l1, r1, q1, f1, e1, s1⟩ := v1
  obtain ⟨k2, p2, l2, r2, q2, f2, e2, s2⟩ := v2
  simp only at h1 h2 h3 h4 h5 h6 h7
  subst h1 h2 h3 h4 h5 h6 h7
  unfold aggKeyOf
  rw [h8]

/-- **for indel and SNP records of the model's shape a tie under `aggLt` forces equal counters — proved from the
definitions**: the printed form shows the length of an indel and the reference allele of a SNP -/
theorem plain_tie (a : Bool) (v1 v2 : Variant) (p1 : Plain v1) (p2 : Plain v2)
    (hk : v1.kind = v2.kind) (hp : v1.pos = v2.pos) (hs : bytesToString v1.queAl = bytesToString v2.queAl)
    (hr : v1.queAl = v2.queAl → formatVariant a v1 = formatVariant a v2) : aggKeyOf a v1 = aggKeyOf a v2 := by
  rcases p1 with ⟨k1, r1, q1, f1, e1⟩ | ⟨k1, l1, f1, e1, vr1, vq1⟩
  · rcases p2 with ⟨k2, r2, q2, f2, e2⟩ | ⟨k2, _⟩
    · have hq : v1.queAl = v2.queAl := by rw [q1, q2]
      have hrep := hr hq
      apply aggKeyOf_ext a v1 v2 hk hp _ (by rw [r1, r2]) hq (by rw [f1, f2]) (by rw [e1, e2]) hrep
      have hlen : toString v1.len = toString v2.len := by
        rcases k1 with k1 | k1
        · have k2' : v2.kind = .ins := by rw [← hk, k1]
          simp only [formatVariant, k1, k2', hp] at hrep
          exact (String.append_right_inj _).1 hrep
        · have k2' : v2.kind = .del := by rw [← hk, k1]
          simp only [formatVariant, k1, k2', hp] at hrep
          exact (String.append_right_inj _).1 hrep
      exact Nat.repr_injective hlen
    · exfalso
      rw [k2] at hk
      rcases k1 with k1 | k1 <;> rw [k1] at hk <;> cases hk
  · rcases p2 with ⟨k2, _⟩ | ⟨k2, l2, f2, e2, vr2, vq2⟩
    · exfalso
      rw [k1] at hk
      rcases k2 with k2 | k2 <;> rw [k2] at hk <;> cases hk
    · have hq : v1.queAl = v2.queAl := bytesToString_inj _ _ vq1 vq2 hs
      have hrep := hr hq
      apply aggKeyOf_ext a v1 v2 hk hp (by rw [l1, l2]) _ hq (by rw [f1, f2]) (by rw [e1, e2]) hrep
      simp only [formatVariant, k1, k2, fmtNuc, hp, hq] at hrep
      have h1 := (String.append_left_inj _).1 hrep
      have h2 := (String.append_left_inj _).1 h1
      have h3 := (String.append_right_inj _).1 h2
      exact bytesToString_inj _ _ vr1 vr2 h3

/-- the mutations counted by `variantsAggregate`, in arrival order -/
def aggVariants (start stop : Int) (refID : String) (rows : List (String × List Variant)) : List Variant :=
  (rows.filter fun r => r.1 != refID).flatMap fun r => r.2.filter (inWindow start stop)

theorem aggKeys_eq_map (a : Bool) (s e : Int) (refID : String) (rows : List (String × List Variant)) :
    aggKeys a s e refID rows = (aggVariants s e refID rows).map (aggKeyOf a) := by
  unfold aggKeys aggVariants
  rw [List.map_flatMap]

/-- what has to be assumed about amino-acid records: among the occurring ones, position, query allele and printed
form determine the record (feature name, reference residue, residue number) -/
def AADecided (a : Bool) (vs : List Variant) : Prop :=
  ∀ v1 ∈ vs, ∀ v2 ∈ vs, v1.kind = .aa → v2.kind = .aa → v1.pos = v2.pos →
    bytesToString v1.queAl = bytesToString v2.queAl → (v1.queAl = v2.queAl → formatVariant a v1 = formatVariant a v2) →
    aggKeyOf a v1 = aggKeyOf a v2

/-- the tie hypothesis reduced to the amino-acid records -/
theorem separated_of_shape (a : Bool) (vs : List Variant) (hshape : ∀ v ∈ vs, Plain v ∨ v.kind = .aa)
    (haa : AADecided a vs) : Separated (vs.map (aggKeyOf a)) := by
  rw [separated_iff]
  intro k1 hk1 k2 hk2 hp hk hs hr
  obtain ⟨v1, hv1, rfl⟩ := List.mem_map.1 hk1
  obtain ⟨v2, hv2, rfl⟩ := List.mem_map.1 hk2
  have hp' : v1.pos = v2.pos := hp
  have hk' : v1.kind = v2.kind := hk
  have hs' : bytesToString v1.queAl = bytesToString v2.queAl := hs
  have hr' : v1.queAl = v2.queAl → formatVariant a v1 = formatVariant a v2 := hr
  rcases hshape v1 hv1 with s1 | s1
  · rcases hshape v2 hv2 with s2 | s2
    · exact plain_tie a v1 v2 s1 s2 hk' hp' hs' hr'
    · exfalso
      rw [s2] at hk'
      rcases s1 with ⟨k1 | k1, _⟩ | ⟨k1, _⟩ <;> rw [k1] at hk' <;> cases hk'
  · have s2 : v2.kind = .aa := by rw [← hk', s1]
    exact haa v1 hv1 v2 hv2 s1 s2 hp' hs' hr'

/-- **C12 for `variants --aggregate`, records of the model's shape** — with indel and SNP records of the shape the
model produces, the only assumption left is the one about amino-acid records -/
theorem variants_aggregate_any_order_shaped (a : Bool) (s e : Int) (n d : Nat) (refID : String)
    (rows1 rows2 : List (String × List Variant)) (h : rows1.Perm rows2)
    (hshape : ∀ r ∈ rows1, ∀ v ∈ r.2, Plain v ∨ v.kind = .aa)
    (haa : AADecided a (aggVariants s e refID rows1)) :
    variantsAggregate a s e n d refID rows1 = variantsAggregate a s e n d refID rows2 := by
  apply variants_aggregate_any_order a s e n d refID rows1 rows2 h
  rw [aggKeys_eq_map]
  apply separated_of_shape a _ _ haa
  intro v hv
  unfold aggVariants at hv
  obtain ⟨r, hr, hvr⟩ := List.mem_flatMap.1 hv
  exact hshape r (List.mem_filter.1 hr).1 v (List.mem_filter.1 hvr).1

/-- **no assumption about ties at all when there are no amino-acid records** (no coding regions in the annotation) -/
theorem variants_aggregate_any_order_plain (a : Bool) (s e : Int) (n d : Nat) (refID : String)
    (rows1 rows2 : List (String × List Variant)) (h : rows1.Perm rows2)
    (hshape : ∀ r ∈ rows1, ∀ v ∈ r.2, Plain v) :
    variantsAggregate a s e n d refID rows1 = variantsAggregate a s e n d refID rows2 := by
  apply variants_aggregate_any_order_shaped a s e n d refID rows1 rows2 h (fun r hr v hv => Or.inl (hshape r hr v hv))
  intro v1 hv1 v2 _ k1 _ _ _ _
  exfalso
  unfold aggVariants at hv1
  obtain ⟨r, hr, hvr⟩ := List.mem_flatMap.1 hv1
  have := hshape r (List.mem_filter.1 hr).1 v1 (List.mem_filter.1 hvr).1
  rcases this with ⟨k | k, _⟩ | ⟨k, _⟩ <;> rw [k] at k1 <;> cases k1

end Gofasta.Lemmas.AggVariants

namespace Gofasta.Lemmas.AggVariants
open Gofasta Model

/-! ### 9. the mutation lists of the model have the shape assumed in section 8 -/

theorem decTab_lt : ∀ x ∈ Gen.decTab, x < 256 := by decide +kernel

theorem dec_valid (e : Nat) : (dec e).isValidChar := by
  unfold dec
  rw [List.getD_eq_getElem?_getD]
  by_cases h : e < Gen.decTab.length
  · rw [List.getElem?_eq_getElem h]
    have := decTab_lt _ (List.getElem_mem h)
    simp only [Option.getD_some]
    left; omega
  · rw [List.getElem?_eq_none (by omega)]
    left; simp

theorem plain_ins (p : Int) (l : Nat) : Plain { kind := .ins, pos := p, len := l } :=
  Or.inl ⟨Or.inl rfl, rfl, rfl, rfl, rfl⟩
theorem plain_del (p : Int) (l : Nat) : Plain { kind := .del, pos := p, len := l } :=
  Or.inl ⟨Or.inr rfl, rfl, rfl, rfl, rfl⟩
theorem plain_nuc (p : Int) (r x : Nat) : Plain { kind := .nuc, pos := p, refAl := [dec r], queAl := [dec x] } := by
  refine Or.inr ⟨rfl, rfl, rfl, rfl, ?_, ?_⟩
  · intro y hy; simp only [List.mem_singleton] at hy; subst hy; exact dec_valid r
  · intro y hy; simp only [List.mem_singleton] at hy; subst hy; exact dec_valid x

theorem indelStep_out (s : IndelState) (rq : Nat × Nat) (h : ∀ v ∈ s.out, Plain v) : ∀ v ∈ (indelStep s rq).out, Plain v := by
  obtain ⟨r, q⟩ := rq
  unfold indelStep
  simp only []
  intro v hv
  split at hv
  · split at hv
    · exact h v hv
    · split at hv
      · exact h v hv
      · exact h v hv
  · simp only [] at hv
    have h1 : ∀ v ∈ (if s.insOpen = true then { s with insOpen := false, out := s.out ++ [{ kind := .ins, pos := (s.insStart : Int), len := s.insLen }] } else s).out, Plain v := by
      intro v hv
      split at hv
      · rcases List.mem_append.1 hv with hv | hv
        · exact h v hv
        · simp only [List.mem_singleton] at hv; subst hv; exact plain_ins _ _
      · exact h v hv
    generalize (if s.insOpen = true then { s with insOpen := false, out := s.out ++ [{ kind := .ins, pos := (s.insStart : Int), len := s.insLen }] } else s) = s1 at hv h1
    split at hv
    · split at hv
      · exact h1 v hv
      · exact h1 v hv
    · split at hv
      · simp only [] at hv
        split at hv
        · rcases List.mem_append.1 hv with hv | hv
          · exact h1 v hv
          · simp only [List.mem_singleton] at hv; subst hv; exact plain_del _ _
        · exact h1 v hv
      · exact h1 v hv

theorem indelFold_out : ∀ (cols : List (Nat × Nat)) (s : IndelState), (∀ v ∈ s.out, Plain v) →
    ∀ v ∈ (cols.foldl indelStep s).out, Plain v := by
  intro cols
  induction cols with
  | nil => intro s h; exact h
  | cons c t ih => intro s h; exact ih _ (indelStep_out s c h)

theorem getIndelsPair_plain (ref q : List Nat) : ∀ v ∈ getIndelsPair ref q, Plain v := by
  intro v hv
  unfold getIndelsPair at hv
  simp only [] at hv
  have h0 := indelFold_out (ref.zip q) {} (by intro v hv; cases hv)
  split at hv
  · rcases List.mem_append.1 hv with hv | hv
    · exact h0 v hv
    · simp only [List.mem_singleton] at hv; subst hv; exact plain_ins _ _
  · exact h0 v hv

theorem getNucsPair_plain (ref q cols inter : List Nat) : ∀ v ∈ getNucsPair ref q cols inter, Plain v := by
  intro v hv
  unfold getNucsPair at hv
  obtain ⟨p, _, hp⟩ := List.mem_filterMap.1 hv
  split at hp
  · simp only [] at hp
    split at hp
    · cases hp; exact plain_nuc _ _ _
    · cases hp
  · cases hp

theorem dict_values : Gen.codonDict.all (fun e => match e.2 with
    | [x] => decide (x < 256) && (decide (x < 48) || decide (57 < x))
    | _ => false) = true := by decide +kernel

/-- one byte that is not a decimal digit -/
def AAByte (l : List Nat) : Prop := ∃ x, l = [x] ∧ x < 256 ∧ (x < 48 ∨ 57 < x)

theorem dictLookup_aabyte (c a : List Nat) (h : dictLookup c = some a) : AAByte a := by
  unfold dictLookup at h
  cases hf : Gen.codonDict.find? (fun e => e.1 == c) with
  | none => rw [hf] at h; cases h
  | some e =>
    rw [hf] at h
    simp only [Option.map_some, Option.some.injEq] at h
    have hm := List.mem_of_find?_eq_some hf
    have := (List.all_eq_true.1 dict_values) e hm
    subst h
    split at this
    · rename_i x hx
      simp only [Bool.and_eq_true, Bool.or_eq_true, decide_eq_true_eq] at this
      exact ⟨x, hx, this.1, this.2⟩
    · cases this

theorem aabyte_valid (l : List Nat) (h : AAByte l) : ValidBytes l := by
  obtain ⟨x, rfl, hx, _⟩ := h
  intro y hy
  simp only [List.mem_singleton] at hy
  subst hy
  left; omega

/-- the shape of the amino-acid records made by `aaStep` for a region -/
def AAShape (reg : Region) (v : Variant) : Prop :=
  v.kind = .aa ∧ v.len = 0 ∧ v.feature = reg.name ∧ v.refAl = [reg.translation.getD (v.residue - 1) 0] ∧ AAByte v.queAl

theorem aa_emit (reg : Region) (s : AAState) (snps : List Variant) (p : Nat) (aa : List Nat) (haa : AAByte aa)
    (hs : ∀ v ∈ snps, Plain v) (h2 : ∀ v ∈ s.out, Plain v ∨ AAShape reg v) :
    (∀ v ∈ (if aa ≠ [reg.translation.getD s.aaCounter 0] ∧ aa ≠ [88] then
        ({ codonSnps := [], codon := [], aaCounter := s.aaCounter + 1,
           out := s.out ++ [{ kind := .aa, feature := reg.name, refAl := [reg.translation.getD s.aaCounter 0], queAl := aa,
                              pos := (p : Int) - 2 * reg.strand, residue := s.aaCounter + 1,
                              snps := joinWith ";" (snps.map fmtNuc) }] } : AAState)
        else { codonSnps := [], codon := [], aaCounter := s.aaCounter + 1, out := s.out ++ snps }).codonSnps, Plain v) ∧
    (∀ v ∈ (if aa ≠ [reg.translation.getD s.aaCounter 0] ∧ aa ≠ [88] then
        ({ codonSnps := [], codon := [], aaCounter := s.aaCounter + 1,
           out := s.out ++ [{ kind := .aa, feature := reg.name, refAl := [reg.translation.getD s.aaCounter 0], queAl := aa,
                              pos := (p : Int) - 2 * reg.strand, residue := s.aaCounter + 1,
                              snps := joinWith ";" (snps.map fmtNuc) }] } : AAState)
        else { codonSnps := [], codon := [], aaCounter := s.aaCounter + 1, out := s.out ++ snps }).out,
      Plain v ∨ AAShape reg v) := by
  split
  · refine ⟨(by intro v hv; cases hv), ?_⟩
    intro v hv
    rcases List.mem_append.1 hv with hv | hv
    · exact h2 v hv
    · simp only [List.mem_singleton] at hv; subst hv
      exact Or.inr ⟨rfl, rfl, rfl, rfl, haa⟩
  · refine ⟨(by intro v hv; cases hv), ?_⟩
    intro v hv
    rcases List.mem_append.1 hv with hv | hv
    · exact h2 v hv
    · exact Or.inl (hs v hv)

theorem aaStep_inv (ref q cols : List Nat) (reg : Region) (s : AAState) (p : Nat)
    (h1 : ∀ v ∈ s.codonSnps, Plain v) (h2 : ∀ v ∈ s.out, Plain v ∨ AAShape reg v) :
    (∀ v ∈ (aaStep ref q cols reg s p).codonSnps, Plain v) ∧
    (∀ v ∈ (aaStep ref q cols reg s p).out, Plain v ∨ AAShape reg v) := by
  unfold aaStep
  split
  · exact ⟨h1, h2⟩
  · rename_i c _
    simp only []
    have hs : ∀ v ∈ (if encDiffer (q.getD c 0) (ref.getD c 0) = true then
        s.codonSnps ++ [{ kind := .nuc, pos := (p : Int), refAl := [dec (ref.getD c 0)], queAl := [dec (q.getD c 0)] }]
        else s.codonSnps), Plain v := by
      intro v hv
      split at hv
      · rcases List.mem_append.1 hv with hv | hv
        · exact h1 v hv
        · simp only [List.mem_singleton] at hv; subst hv; exact plain_nuc _ _ _
      · exact h1 v hv
    generalize (if encDiffer (q.getD c 0) (ref.getD c 0) = true then
        s.codonSnps ++ [{ kind := .nuc, pos := (p : Int), refAl := [dec (ref.getD c 0)], queAl := [dec (q.getD c 0)] }]
        else s.codonSnps) = snps at hs
    split
    · split
      · rename_i a ha
        exact aa_emit reg s snps p a (dictLookup_aabyte _ a ha) hs h2
      · exact aa_emit reg s snps p [88] ⟨88, rfl, by omega, by omega⟩ hs h2
    · exact ⟨hs, h2⟩


theorem aaFold_inv (ref q cols : List Nat) (reg : Region) : ∀ (ps : List Nat) (s : AAState),
    (∀ v ∈ s.codonSnps, Plain v) → (∀ v ∈ s.out, Plain v ∨ AAShape reg v) →
    ∀ v ∈ (ps.foldl (aaStep ref q cols reg) s).out, Plain v ∨ AAShape reg v := by
  intro ps
  induction ps with
  | nil => intro s _ h2; exact h2
  | cons p t ih =>
    intro s h1 h2
    have := aaStep_inv ref q cols reg s p h1 h2
    exact ih _ this.1 this.2

theorem getAAsPair_shape (ref q cols : List Nat) (reg : Region) :
    ∀ v ∈ getAAsPair ref q cols reg, Plain v ∨ AAShape reg v :=
  aaFold_inv ref q cols reg reg.positions {} (by intro v hv; cases hv) (by intro v hv; cases hv)

/-- **every record of the model's mutation list has the model's shape**: a plain indel or SNP record, or an
amino-acid record of one of the regions -/
theorem getVariantsPair_shape (ref q : List Nat) (regions : List Region) (inter : List Nat) :
    ∀ v ∈ getVariantsPair ref q regions inter, Plain v ∨ ∃ reg ∈ regions, AAShape reg v := by
  intro v hv
  unfold getVariantsPair at hv
  simp only [] at hv
  have hv' := ((Gofasta.Lemmas.mem_dedupRun _ v).1 hv).1
  rw [Gofasta.Lemmas.mem_sortStable] at hv'
  simp only [List.mem_append, List.mem_flatMap] at hv'
  rcases hv' with (h | h) | ⟨reg, hreg, h⟩
  · exact Or.inl (getIndelsPair_plain ref q v h)
  · exact Or.inl (getNucsPair_plain ref q _ inter v h)
  · rcases getAAsPair_shape ref q _ reg v h with h | h
    · exact Or.inl h
    · exact Or.inr ⟨reg, hreg, h⟩

theorem getVariantsPair_shaped (ref q : List Nat) (regions : List Region) (inter : List Nat) :
    ∀ v ∈ getVariantsPair ref q regions inter, Plain v ∨ v.kind = .aa := by
  intro v hv
  rcases getVariantsPair_shape ref q regions inter v hv with h | ⟨_, _, h⟩
  · exact Or.inl h
  · exact Or.inr h.1

/-- without coding regions every record is an indel or SNP record of the plain shape -/
theorem getVariantsPair_plain_of_no_regions (ref q : List Nat) (inter : List Nat) :
    ∀ v ∈ getVariantsPair ref q [] inter, Plain v := by
  intro v hv
  rcases getVariantsPair_shape ref q [] inter v hv with h | ⟨_, hr, _⟩
  · exact h
  · cases hr

/-- the rows that reach the aggregating writer: one mutation list per record of the alignment -/
def modelRows (ref : List Nat) (regions : List Region) (inter : List Nat) (recs : List (String × List Nat)) :
    List (String × List Variant) := recs.map fun r => (r.1, getVariantsPair ref r.2 regions inter)

/-- C12 for `variants --aggregate` over the model, with the assumption `AADecided` about the amino-acid records
that occur (discharged in section 10 from two conditions on the annotation) -/
theorem variants_aggregate_model_any_order (a : Bool) (s e : Int) (n d : Nat) (refID : String)
    (ref : List Nat) (regions : List Region) (inter : List Nat) (recs1 recs2 : List (String × List Nat))
    (h : recs1.Perm recs2)
    (haa : AADecided a (aggVariants s e refID (modelRows ref regions inter recs1))) :
    variantsAggregate a s e n d refID (modelRows ref regions inter recs1) =
      variantsAggregate a s e n d refID (modelRows ref regions inter recs2) := by
  apply variants_aggregate_any_order_shaped a s e n d refID _ _ (h.map _) _ haa
  intro r hr v hv
  obtain ⟨x, _, rfl⟩ := List.mem_map.1 hr
  exact getVariantsPair_shaped ref x.2 regions inter v hv

/-- **unconditional when the annotation has no coding regions** (indels and SNPs only): no assumption about ties -/
theorem variants_aggregate_model_any_order_no_regions (a : Bool) (s e : Int) (n d : Nat) (refID : String)
    (ref : List Nat) (inter : List Nat) (recs1 recs2 : List (String × List Nat)) (h : recs1.Perm recs2) :
    variantsAggregate a s e n d refID (modelRows ref [] inter recs1) =
      variantsAggregate a s e n d refID (modelRows ref [] inter recs2) := by
  apply variants_aggregate_any_order_plain a s e n d refID _ _ (h.map _)
  intro r hr v hv
  obtain ⟨x, _, rfl⟩ := List.mem_map.1 hr
  exact getVariantsPair_plain_of_no_regions ref x.2 inter v hv

end Gofasta.Lemmas.AggVariants

namespace Gofasta.Lemmas.AggVariants
open Gofasta Model

/-! ### 10. amino-acid records: the printed form can be read back, so `AADecided` holds for the model -/

theorem split_at_first {α : Type} (P : α → Prop) : ∀ (l1 l2 : List α) (c1 c2 : α) (r1 r2 : List α),
    (∀ x ∈ l1, P x) → (∀ x ∈ l2, P x) → ¬ P c1 → ¬ P c2 → l1 ++ c1 :: r1 = l2 ++ c2 :: r2 →
    l1 = l2 ∧ c1 :: r1 = c2 :: r2 := by
  intro l1
  induction l1 with
  | nil =>
    intro l2 c1 c2 r1 r2 _ h2 n1 _ h
    cases l2 with
    | nil => exact ⟨rfl, h⟩
    | cons y t =>
      exfalso
      simp only [List.nil_append, List.cons_append, List.cons.injEq] at h
      exact n1 (h.1 ▸ h2 y List.mem_cons_self)
  | cons x t ih =>
    intro l2 c1 c2 r1 r2 h1 h2 n1 n2 h
    cases l2 with
    | nil =>
      exfalso
      simp only [List.nil_append, List.cons_append, List.cons.injEq] at h
      exact n2 (h.1 ▸ h1 x List.mem_cons_self)
    | cons y u =>
      simp only [List.cons_append, List.cons.injEq] at h
      have := ih u c1 c2 r1 r2 (fun z hz => h1 z (List.mem_cons_of_mem _ hz)) (fun z hz => h2 z (List.mem_cons_of_mem _ hz)) n1 n2 h.2
      exact ⟨by rw [h.1, this.1], this.2⟩

theorem aa_rep_toList (a : Bool) (v : Variant) (hk : v.kind = .aa) :
    (formatVariant a v).toList = 'a' :: 'a' :: ':' :: (v.feature.toList ++ ':' :: (v.refAl.map Char.ofNat ++
      (Nat.toDigits 10 v.residue ++ (v.queAl.map Char.ofNat ++ (if a then "(" ++ v.snps ++ ")" else "").toList)))) := by
  have e1 : "aa:".toList = ['a', 'a', ':'] := by decide
  have e2 : ":".toList = [':'] := by decide
  simp only [formatVariant, hk, String.toList_append, bytesToString, String.toList_ofList, e1, e2,
    Nat.toString_eq_repr, Nat.toList_repr, List.append_assoc, List.cons_append, List.nil_append]

theorem isDigit_ofNat_false (x : Nat) (h1 : x < 256) (h2 : x < 48 ∨ 57 < x) : (Char.ofNat x).isDigit = false := by
  have := toNat_ofNat_valid x (Or.inl (by omega))
  unfold Char.toNat at this
  simp only [Char.isDigit, UInt32.le_iff_toNat_le, this, Bool.and_eq_false_iff, decide_eq_false_iff_not, ge_iff_le]
  have e1 : '0'.val.toNat = 48 := by decide
  have e2 : '9'.val.toNat = 57 := by decide
  rw [e1, e2]
  omega

/-- **the printed form of an amino-acid record can be read back**: feature name (if it has no colon), reference
residue character and residue number -/
theorem aa_parse (a : Bool) (v1 v2 : Variant) (k1 : v1.kind = .aa) (k2 : v2.kind = .aa)
    (f1 : ∀ c ∈ v1.feature.toList, c ≠ ':') (f2 : ∀ c ∈ v2.feature.toList, c ≠ ':')
    (r1 : ∃ x, v1.refAl = [x]) (r2 : ∃ y, v2.refAl = [y])
    (hq : v1.queAl = v2.queAl) (haa : AAByte v1.queAl)
    (h : formatVariant a v1 = formatVariant a v2) :
    v1.feature = v2.feature ∧ v1.residue = v2.residue ∧ v1.refAl.map Char.ofNat = v2.refAl.map Char.ofNat := by
  have h' := congrArg String.toList h
  rw [aa_rep_toList a v1 k1, aa_rep_toList a v2 k2] at h'
  simp only [List.cons.injEq, true_and] at h'
  obtain ⟨e1, e2⟩ := split_at_first (fun c => c ≠ ':') _ _ ':' ':' _ _ f1 f2 (by simp) (by simp) h'
  obtain ⟨x, hx⟩ := r1
  obtain ⟨y, hy⟩ := r2
  obtain ⟨z, hz, z1, z2⟩ := haa
  have hz2 : v2.queAl = [z] := by rw [← hq, hz]
  rw [hx, hy, hz, hz2] at e2
  simp only [List.map_cons, List.map_nil, List.cons_append, List.nil_append, List.cons.injEq, true_and] at e2
  have nd := isDigit_ofNat_false z z1 z2
  obtain ⟨e3, _⟩ := split_at_first (fun c => c.isDigit = true) _ _ (Char.ofNat z) (Char.ofNat z) _ _
    (fun c hc => Nat.isDigit_of_mem_toDigits (by omega) (by omega) hc)
    (fun c hc => Nat.isDigit_of_mem_toDigits (by omega) (by omega) hc) (by simp [nd]) (by simp [nd]) e2.2
  refine ⟨String.toList_inj.1 e1, ?_, ?_⟩
  · apply Nat.repr_injective
    rw [Nat.repr_eq_ofList_toDigits, Nat.repr_eq_ofList_toDigits, e3]
  · rw [hx, hy]; simp only [List.map_cons, List.map_nil, e2.1]

theorem plain_not_aa (v : Variant) (h : Plain v) : v.kind ≠ .aa := by
  intro k
  rcases h with ⟨k1 | k1, _⟩ | ⟨k1, _⟩ <;> rw [k1] at k <;> cases k

/-- the two conditions on the annotation: feature names contain no colon (the separator of the printed form), and
translations are bytes -/
def RegionsOk (regions : List Region) : Prop :=
  ∀ reg ∈ regions, (∀ c ∈ reg.name.toList, c ≠ ':') ∧ ValidBytes reg.translation

theorem getD_valid (l : List Nat) (h : ValidBytes l) (k : Nat) : ValidBytes [l.getD k 0] := by
  intro y hy
  simp only [List.mem_singleton] at hy
  subst hy
  rw [List.getD_eq_getElem?_getD]
  by_cases hk : k < l.length
  · rw [List.getElem?_eq_getElem hk]; exact h _ (List.getElem_mem hk)
  · rw [List.getElem?_eq_none (by omega)]; left; simp

/-- **`AADecided` holds for the mutation lists of the model** -/
theorem aaDecided_model (a : Bool) (s e : Int) (refID : String) (ref : List Nat) (regions : List Region) (inter : List Nat)
    (recs : List (String × List Nat)) (hreg : RegionsOk regions) :
    AADecided a (aggVariants s e refID (modelRows ref regions inter recs)) := by
  have shape : ∀ v ∈ aggVariants s e refID (modelRows ref regions inter recs), v.kind = .aa →
      ∃ reg ∈ regions, AAShape reg v := by
    intro v hv k
    unfold aggVariants at hv
    obtain ⟨r, hr, hvr⟩ := List.mem_flatMap.1 hv
    obtain ⟨x, _, rfl⟩ := List.mem_map.1 (List.mem_filter.1 hr).1
    rcases getVariantsPair_shape ref x.2 regions inter v (List.mem_filter.1 hvr).1 with h | h
    · exact absurd k (plain_not_aa v h)
    · exact h
  intro v1 hv1 v2 hv2 k1 k2 hp hs hr
  obtain ⟨g1, hg1, _, l1, f1, r1, q1⟩ := shape v1 hv1 k1
  obtain ⟨g2, hg2, _, l2, f2, r2, q2⟩ := shape v2 hv2 k2
  have hq : v1.queAl = v2.queAl := bytesToString_inj _ _ (aabyte_valid _ q1) (aabyte_valid _ q2) hs
  have hrep := hr hq
  have hn1 : ∀ c ∈ v1.feature.toList, c ≠ ':' := by rw [f1]; exact (hreg g1 hg1).1
  have hn2 : ∀ c ∈ v2.feature.toList, c ≠ ':' := by rw [f2]; exact (hreg g2 hg2).1
  obtain ⟨ef, er, ea⟩ := aa_parse a v1 v2 k1 k2 hn1 hn2 ⟨_, r1⟩ ⟨_, r2⟩ hq q1 hrep
  have hra : v1.refAl = v2.refAl := by
    apply bytesToString_inj
    · rw [r1]; exact getD_valid _ (hreg g1 hg1).2 _
    · rw [r2]; exact getD_valid _ (hreg g2 hg2).2 _
    · unfold bytesToString; rw [ea]
  exact aggKeyOf_ext a v1 v2 (k1.trans k2.symm) hp (by rw [l1, l2]) hra hq ef er hrep

/-- **C12 for `variants --aggregate`, end to end over the model** — for every encoded reference row, every alignment
and every annotation whose feature names contain no colon and whose translations are bytes, the aggregate table
(which mutations, their frequencies, their order: the printed text) is the same for every order in which the
per-sequence mutation lists reach the aggregating writer. No assumption about ties: that different counters are
never tied is proved from the definitions of `formatVariant`, `AggKey` and the model's mutation lists. -/
theorem variants_aggregate_model_deterministic (a : Bool) (s e : Int) (n d : Nat) (refID : String)
    (ref : List Nat) (regions : List Region) (inter : List Nat) (recs1 recs2 : List (String × List Nat))
    (h : recs1.Perm recs2) (hreg : RegionsOk regions) :
    variantsAggregate a s e n d refID (modelRows ref regions inter recs1) =
      variantsAggregate a s e n d refID (modelRows ref regions inter recs2) :=
  variants_aggregate_model_any_order a s e n d refID ref regions inter recs1 recs2 h
    (aaDecided_model a s e refID ref regions inter recs1 hreg)

end Gofasta.Lemmas.AggVariants
