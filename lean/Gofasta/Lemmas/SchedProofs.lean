import Gofasta.Model.Sched
import Gofasta.Lemmas.Reorder
/-
Properties of the pipeline scheduling model (Gofasta/Model/Sched.lean) that hold for EVERY schedule:
every reachable state satisfies the invariant `Inv` (conservation of records plus consistency of
program counters and channel flags), from which
  T1 success_means_complete, T2 no_deadlock, T3 step_decreases (termination), T4 error_reported,
  T5 no_spurious_error, T6 no_send_on_closed and close_once
follow; then counterexamples for three wrong variants of the Go code.
-/
namespace Gofasta.Lemmas.Sched
open Gofasta.Model.Sched
variable {α β ε σ : Type}

/-! ### small list facts -/

/-- the record index a worker is holding, if any -/
def widx : WPc β ε → List Nat
  | .sendOut i _ => [i]
  | .errS i _ => [i]
  | _ => []

def held (ws : List (WPc β ε)) : List Nat := ws.flatMap widx

@[simp] theorem widx_recv : widx (.recv : WPc β ε) = [] := rfl
@[simp] theorem widx_exited : widx (.exited : WPc β ε) = [] := rfl
@[simp] theorem widx_sendOut (i : Nat) (y : β) : widx (.sendOut i y : WPc β ε) = [i] := rfl
@[simp] theorem widx_errS (i : Nat) (e : ε) : widx (.errS i e : WPc β ε) = [i] := rfl

theorem all_isExited {ws : List (WPc β ε)} :
    ws.all WPc.isExited = true ↔ ∀ p ∈ ws, p = .exited := by
  rw [List.all_eq_true]
  constructor
  · intro h p hp
    have := h p hp
    cases p <;> simp_all [WPc.isExited]
  · intro h p hp
    rw [h p hp]; rfl

theorem held_all_exited {ws : List (WPc β ε)} (h : ∀ p ∈ ws, p = .exited) : held ws = [] := by
  induction ws with
  | nil => rfl
  | cons a t ih =>
    have ha : a = .exited := h a (by simp)
    subst ha
    have := ih (fun p hp => h p (by simp [hp]))
    simpa [held, widx] using this

theorem held_set_count {ws : List (WPc β ε)} {w : Nat} {p q : WPc β ε} (h : ws[w]? = some p) (a : Nat) :
    List.count a (held (ws.set w q)) + List.count a (widx p) =
      List.count a (held ws) + List.count a (widx q) := by
  induction ws generalizing w with
  | nil => simp at h
  | cons b t ih =>
    cases w with
    | zero =>
      simp at h; subst h
      simp [held, List.flatMap_cons]; omega
    | succ w =>
      simp at h
      have := ih h
      simp [held, List.flatMap_cons] at this ⊢; omega

theorem wsμ_set {ws : List (WPc β ε)} {w : Nat} {p q : WPc β ε} (h : ws[w]? = some p) :
    wsμ (ws.set w q) + wμ p = wsμ ws + wμ q := by
  induction ws generalizing w with
  | nil => simp at h
  | cons b t ih =>
    cases w with
    | zero => simp at h; subst h; simp [wsμ]; omega
    | succ w =>
      simp at h
      have := ih h
      simp [wsμ] at this ⊢; omega

theorem forall_mem_set {ws : List (WPc β ε)} {P : WPc β ε → Prop} {w : Nat} {q : WPc β ε}
    (h : ∀ p ∈ ws, P p) (hq : P q) : ∀ p ∈ ws.set w q, P p := by
  intro p hp
  rcases List.mem_or_eq_of_mem_set hp with h' | rfl
  · exact h p h'
  · exact hq

theorem absorbAll_snoc (absorb : σ → Nat × β → Except ε σ) (st : σ) (l : List (Nat × β)) (r : Nat × β) :
    absorbAll absorb st (l ++ [r]) =
      match absorbAll absorb st l with
      | .ok st' => absorb st' r
      | .error e => .error e := by
  induction l generalizing st with
  | nil => simp only [List.nil_append, absorbAll]; cases absorb st r <;> rfl
  | cons a t ih =>
    simp only [List.cons_append, absorbAll]
    cases absorb st a with
    | ok st' => exact ih st'
    | error e => rfl

/-! ### the reader's program counter -/

def rpos (cfg : Cfg α β ε σ) : RPc ε → Nat
  | .sending i => i
  | _ => nSend cfg

theorem nSend_le (cfg : Cfg α β ε σ) : nSend cfg ≤ cfg.items.length := by
  unfold nSend; split
  · exact Nat.le_refl _
  · exact Nat.min_le_right _ _

theorem nSend_none {cfg : Cfg α β ε σ} (h : cfg.readFail = none) : nSend cfg = cfg.items.length := by
  unfold nSend; rw [h]

/-- consistency of the reader's program counter with the configuration -/
structure RInv (cfg : Cfg α β ε σ) (r : RPc ε) : Prop where
  rSend : ∀ i, r = .sending i → i < nSend cfg
  rErr : ∀ e, r = .errS e → ∃ k, cfg.readFail = some (k, e)
  rDone : r = .doneS → cfg.readFail = none

theorem rAfter_cases (cfg : Cfg α β ε σ) :
    (rAfter cfg = .doneS ∧ cfg.readFail = none) ∨ (∃ k e, rAfter cfg = .errS e ∧ cfg.readFail = some (k, e)) := by
  unfold rAfter
  cases h : cfg.readFail with
  | none => left; exact ⟨rfl, rfl⟩
  | some ke => obtain ⟨k, e⟩ := ke; right; exact ⟨k, e, rfl, rfl⟩

theorem rnext_inv (cfg : Cfg α β ε σ) (j : Nat) (hj : j ≤ nSend cfg) :
    RInv cfg (rnext cfg j) ∧ rnext cfg j ≠ .exited ∧ rpos cfg (rnext cfg j) = j := by
  unfold rnext
  by_cases h : j < nSend cfg
  · simp only [h, if_true]
    refine ⟨⟨?_, ?_, ?_⟩, ?_, rfl⟩
    · intro i hi; cases hi; exact h
    · intro e he; cases he
    · intro he; cases he
    · intro he; cases he
  · simp only [h, if_false]
    have hj' : j = nSend cfg := by omega
    rcases rAfter_cases cfg with ⟨h1, h2⟩ | ⟨k, e, h1, h2⟩
    · rw [h1]
      refine ⟨⟨?_, ?_, ?_⟩, ?_, ?_⟩
      · intro i hi; cases hi
      · intro e he; cases he
      · intro _; exact h2
      · intro he; cases he
      · simp [rpos, hj']
    · rw [h1]
      refine ⟨⟨?_, ?_, ?_⟩, ?_, ?_⟩
      · intro i hi; cases hi
      · intro e' he; cases he; exact ⟨k, h2⟩
      · intro he; cases he
      · intro he; cases he
      · simp [rpos, hj']

/-! ### the invariant -/

/-- record r is what a worker makes of item r.1 -/
def GoodOut (cfg : Cfg α β ε σ) (r : Nat × β) : Prop :=
  ∃ x, cfg.items[r.1]? = some x ∧ cfg.f x = .ok r.2

/-- what a worker holds is what f made of the item with that index -/
def WOk (cfg : Cfg α β ε σ) : WPc β ε → Prop
  | .sendOut i y => ∃ x, cfg.items[i]? = some x ∧ cfg.f x = .ok y
  | .errS i e => ∃ x, cfg.items[i]? = some x ∧ cfg.f x = .error e
  | _ => True

/-- the error e was produced by some component of the pipeline -/
def ErrSource (cfg : Cfg α β ε σ) (e : ε) : Prop :=
  (∃ k, cfg.readFail = some (k, e)) ∨ (∃ x ∈ cfg.items, cfg.f x = .error e) ∨
  (∃ st r, cfg.absorb st r = .error e) ∨ (∃ st, cfg.finish st = .error e)

/-- the indices that are somewhere between the reader and the writer's state, in pipeline order -/
def places (s : State α β ε σ) : List Nat :=
  s.cIn.queue.map Prod.fst ++ held s.workers ++ s.cOut.queue.map Prod.fst ++ s.arrival.map Prod.fst

structure Inv (cfg : Cfg α β ε σ) (s : State α β ε σ) : Prop where
  wlen : s.workers.length = cfg.N
  np : s.panicked = false
  inCap : s.cIn.queue.length ≤ cfg.capIn
  outCap : s.cOut.queue.length ≤ cfg.capOut
  rinv : RInv cfg s.reader
  rExit : s.reader = .exited → cfg.readFail = none
  rClosed : s.reader = .exited ↔ s.cIn.closed = true
  wOk : ∀ p ∈ s.workers, WOk cfg p
  wExit : .exited ∈ s.workers → s.cIn.closed = true ∧ s.cIn.queue = []
  inOk : ∀ r ∈ s.cIn.queue, cfg.items[r.1]? = some r.2
  outOk : ∀ r ∈ s.cOut.queue, GoodOut cfg r
  arrOk : ∀ r ∈ s.arrival, GoodOut cfg r
  /-- conservation: every index the reader has sent is in exactly one place -/
  cons : (places s).Perm (List.range (rpos cfg s.reader))
  tWait : s.waiter ≠ .waiting → ∀ p ∈ s.workers, p = .exited
  tClosed : s.waiter = .exited ↔ s.cOut.closed = true
  oRecv : s.writer = .recv → absorbAll cfg.absorb cfg.init s.arrival = .ok s.wst
  oDone : (s.writer = .doneS ∨ s.writer = .exited) → s.cOut.closed = true ∧ s.cOut.queue = [] ∧
    ∃ st, absorbAll cfg.absorb cfg.init s.arrival = .ok st ∧ cfg.finish st = .ok s.wst
  oErr : ∀ e, s.writer = .errS e → (∃ st r, cfg.absorb st r = .error e) ∨ (∃ st, cfg.finish st = .error e)
  m1 : s.main = .stage1 → s.cIn.closed = false ∧ s.cOut.closed = false
  m2 : s.main = .stage2 → s.cIn.closed = true ∧ s.cOut.closed = false
  m3 : s.main = .stage3 → s.cOut.closed = true
  mOk : s.main = .ret none ↔ s.writer = .exited
  mErr : ∀ e, s.main = .ret (some e) → ErrSource cfg e

theorem inv_init (cfg : Cfg α β ε σ) : Inv cfg (init cfg) := by
  obtain ⟨h1, h2, h3⟩ := rnext_inv cfg 0 (Nat.zero_le _)
  have hrep : ∀ p ∈ List.replicate cfg.N (WPc.recv : WPc β ε), p = .recv := fun p hp => (List.mem_replicate.mp hp).2
  have hheld : held (List.replicate cfg.N (WPc.recv : WPc β ε)) = [] := by
    generalize cfg.N = n
    induction n with
    | zero => rfl
    | succ n ih => simp [held, List.replicate_succ, widx]
  refine ⟨?_, rfl, ?_, ?_, h1, ?_, ?_, ?_, ?_, ?_, ?_, ?_, ?_, ?_, ?_, ?_, ?_, ?_, ?_, ?_, ?_, ?_, ?_⟩
  · simp [init]
  · simp [init]
  · simp [init]
  · intro h; exact absurd h h2
  · simp only [init]; constructor
    · intro h; exact absurd h h2
    · intro h; cases h
  · intro p hp; rw [hrep p hp]; trivial
  · intro h; cases hrep _ h
  · intro r hr; simp [init] at hr
  · intro r hr; simp [init] at hr
  · intro r hr; simp [init] at hr
  · simp only [places, init, hheld, h3]; simp
  · intro h; simp [init] at h
  · simp [init]
  · intro _; rfl
  · intro h; simp [init] at h
  · intro e h; simp [init] at h
  · intro _; simp [init]
  · intro h; simp [init] at h
  · intro h; simp [init] at h
  · simp [init]
  · intro e h; simp [init] at h

/-! ### preservation, one lemma per label -/

theorem inv_readerSend {cfg : Cfg α β ε σ} {s s' : State α β ε σ} (h : Inv cfg s)
    (hs : stepReaderSend cfg s = some s') : Inv cfg s' := by
  unfold stepReaderSend at hs
  split at hs
  · rename_i i hr hc
    have := h.rClosed.mpr hc; rw [hr] at this; cases this
  · rename_i i hr hc
    split at hs
    · rename_i x hx
      split at hs
      · rename_i hcap
        cases hs
        have hi := h.rinv.rSend i hr
        obtain ⟨r1, r2, r3⟩ := rnext_inv cfg (i+1) hi
        exact { h with
          inCap := by simp; omega
          rinv := r1
          rExit := fun e => absurd e r2
          rClosed := ⟨fun e => absurd e r2, fun e => by simp [hc] at e⟩
          wExit := fun e => by have := (h.wExit e).1; simp [hc] at this
          inOk := by
            intro r hr
            simp at hr
            rcases hr with hr | rfl
            · exact h.inOk r hr
            · exact hx
          cons := by
            have := h.cons
            rw [hr] at this
            show (places _).Perm (List.range (rpos cfg (rnext cfg (i+1))))
            rw [r3]
            rw [List.perm_iff_count] at this ⊢
            intro a
            have := this a
            simp [places, rpos, List.count_cons] at this ⊢
            by_cases h1 : a < i <;> by_cases h2 : i = a <;> by_cases h3 : a < i + 1 <;>
              simp [h1, h2, h3] at this ⊢ <;> omega }
      · cases hs
    · cases hs
  · cases hs

@[simp] theorem widx_wnext (cfg : Cfg α β ε σ) (r : Nat × α) : widx (wnext cfg r) = [r.1] := by
  unfold wnext; split <;> rfl

theorem wnext_ne_exited (cfg : Cfg α β ε σ) (r : Nat × α) : wnext cfg r ≠ .exited := by
  unfold wnext; split <;> (intro h; cases h)

theorem wOk_wnext {cfg : Cfg α β ε σ} {r : Nat × α} (h : cfg.items[r.1]? = some r.2) : WOk cfg (wnext cfg r) := by
  unfold wnext
  cases hf : cfg.f r.2 with
  | ok y => exact ⟨r.2, h, hf⟩
  | error e => exact ⟨r.2, h, hf⟩

theorem inv_workerRecv {cfg : Cfg α β ε σ} {s s' : State α β ε σ} {w : Nat} (h : Inv cfg s)
    (hs : stepWorkerRecv cfg s w = some s') : Inv cfg s' := by
  unfold stepWorkerRecv at hs
  split at hs
  · rename_i r rest hw hq
    cases hs
    have hmem : WPc.recv ∈ s.workers := List.mem_of_getElem? hw
    have hrq : r ∈ s.cIn.queue := by rw [hq]; simp
    have hnoexit : ¬ (WPc.exited ∈ s.workers) := by
      intro e; have := (h.wExit e).2; rw [hq] at this; cases this
    exact { h with
      wlen := by simp [h.wlen]
      inCap := by have := h.inCap; rw [hq] at this; simp at this ⊢; omega
      wOk := forall_mem_set h.wOk (wOk_wnext (h.inOk r hrq))
      wExit := fun e => by
        rcases List.mem_or_eq_of_mem_set e with e | e
        · exact absurd e hnoexit
        · exact absurd e.symm (wnext_ne_exited cfg r)
      inOk := fun r' hr' => h.inOk r' (by rw [hq]; simp [hr'])
      cons := by
        have := h.cons
        rw [List.perm_iff_count] at this ⊢
        intro a
        have := this a
        have hh := held_set_count hw (q := wnext cfg r) a
        simp [places, hq, List.count_cons] at this hh ⊢
        omega
      tWait := fun hw' => by have := h.tWait hw' _ hmem; cases this }
  · cases hs

theorem inv_handIn {cfg : Cfg α β ε σ} {s s' : State α β ε σ} {w : Nat} (h : Inv cfg s)
    (hs : stepHandIn cfg s w = some s') : Inv cfg s' := by
  unfold stepHandIn at hs
  split at hs
  · rename_i i hr hw hc hcap
    split at hs
    · rename_i x hx
      cases hs
      have hmem : WPc.recv ∈ s.workers := List.mem_of_getElem? hw
      have hi := h.rinv.rSend i hr
      obtain ⟨r1, r2, r3⟩ := rnext_inv cfg (i+1) hi
      have hnoexit : ¬ (WPc.exited ∈ s.workers) := by
        intro e; have := (h.wExit e).1; simp [hc] at this
      exact { h with
        wlen := by simp [h.wlen]
        rinv := r1
        rExit := fun e => absurd e r2
        rClosed := ⟨fun e => absurd e r2, fun e => by simp [hc] at e⟩
        wOk := forall_mem_set h.wOk (wOk_wnext (r := (i, x)) hx)
        wExit := fun e => by
          rcases List.mem_or_eq_of_mem_set e with e | e
          · exact absurd e hnoexit
          · exact absurd e.symm (wnext_ne_exited cfg _)
        cons := by
          have := h.cons
          rw [hr] at this
          show (places _).Perm (List.range (rpos cfg (rnext cfg (i+1))))
          rw [r3]
          rw [List.perm_iff_count] at this ⊢
          intro a
          have := this a
          have hh := held_set_count hw (q := wnext cfg (i, x)) a
          simp [places, rpos, List.count_cons] at this hh ⊢
          by_cases h1 : a < i <;> by_cases h2 : i = a <;> by_cases h3 : a < i + 1 <;>
            simp [h1, h2, h3] at this hh ⊢ <;> omega
        tWait := fun hw' => by have := h.tWait hw' _ hmem; cases this }
    · cases hs
  · cases hs

theorem inv_workerClosed {cfg : Cfg α β ε σ} {s s' : State α β ε σ} {w : Nat} (h : Inv cfg s)
    (hs : stepWorkerClosed s w = some s') : Inv cfg s' := by
  unfold stepWorkerClosed at hs
  split at hs
  · rename_i hw hc hq
    cases hs
    have hmem : WPc.recv ∈ s.workers := List.mem_of_getElem? hw
    exact { h with
      wlen := by simp [h.wlen]
      wOk := forall_mem_set h.wOk trivial
      wExit := fun _ => ⟨hc, hq⟩
      cons := by
        have := h.cons
        rw [List.perm_iff_count] at this ⊢
        intro a
        have := this a
        have hh := held_set_count hw (q := (.exited : WPc β ε)) a
        simp [places] at this hh ⊢
        omega
      tWait := fun hw' => by have := h.tWait hw' _ hmem; cases this }
  · cases hs

theorem inv_workerSend {cfg : Cfg α β ε σ} {s s' : State α β ε σ} {w : Nat} (h : Inv cfg s)
    (hs : stepWorkerSend cfg s w = some s') : Inv cfg s' := by
  unfold stepWorkerSend at hs
  split at hs
  · rename_i i y hw hc
    have hmem := List.mem_of_getElem? hw
    have := h.tWait (fun e => by have := h.tClosed.mpr hc; rw [e] at this; cases this) _ hmem
    cases this
  · rename_i i y hw hc
    split at hs
    · rename_i hcap
      cases hs
      have hmem := List.mem_of_getElem? hw
      exact { h with
        wlen := by simp [h.wlen]
        outCap := by simp; omega
        wOk := forall_mem_set h.wOk trivial
        wExit := fun e => by
          rcases List.mem_or_eq_of_mem_set e with e | e
          · exact h.wExit e
          · cases e
        outOk := by
          intro r hr
          simp at hr
          rcases hr with hr | rfl
          · exact h.outOk r hr
          · exact h.wOk _ hmem
        cons := by
          have := h.cons
          rw [List.perm_iff_count] at this ⊢
          intro a
          have := this a
          have hh := held_set_count hw (q := (.recv : WPc β ε)) a
          simp [places, List.count_cons] at this hh ⊢
          omega
        tWait := fun hw' => by have := h.tWait hw' _ hmem; cases this
        oDone := fun e => by have := (h.oDone e).1; simp [hc] at this }
    · cases hs
  · cases hs

theorem forall_mem_snoc {τ : Type} {P : τ → Prop} {l : List τ} {r : τ} (h : ∀ x ∈ l, P x) (hr : P r) :
    ∀ x ∈ l ++ [r], P x := by
  intro x hx
  simp at hx
  rcases hx with hx | rfl
  · exact h x hx
  · exact hr

theorem absorbAll_snoc_ok {absorb : σ → Nat × β → Except ε σ} {st0 st st' : σ} {l : List (Nat × β)} {r : Nat × β}
    (h : absorbAll absorb st0 l = .ok st) (hr : absorb st r = .ok st') :
    absorbAll absorb st0 (l ++ [r]) = .ok st' := by
  rw [absorbAll_snoc, h]; exact hr

theorem inv_writerRecv {cfg : Cfg α β ε σ} {s s' : State α β ε σ} (h : Inv cfg s)
    (hs : stepWriterRecv cfg s = some s') : Inv cfg s' := by
  unfold stepWriterRecv at hs
  split at hs
  · rename_i r rest hw hq
    cases hs
    have hrq : r ∈ s.cOut.queue := by rw [hq]; simp
    have hgood := h.outOk r hrq
    have hfold := h.oRecv hw
    have hnr : s.main ≠ .ret none := fun e => by have := h.mOk.mp e; rw [hw] at this; cases this
    have hcons : ∀ a, List.count a (List.map Prod.fst s.cIn.queue ++ held s.workers ++ List.map Prod.fst rest ++
        List.map Prod.fst (s.arrival ++ [r])) = List.count a (List.range (rpos cfg s.reader)) := by
      have := h.cons
      rw [List.perm_iff_count] at this
      intro a
      have := this a
      simp [places, hq, List.count_cons] at this ⊢
      omega
    unfold absorbInto
    split
    · rename_i st heq
      exact { h with
        outCap := by have := h.outCap; rw [hq] at this; simp at this ⊢; omega
        outOk := fun r' hr' => h.outOk r' (by rw [hq]; simp [hr'])
        arrOk := forall_mem_snoc h.arrOk hgood
        cons := by rw [List.perm_iff_count]; exact hcons
        oRecv := fun _ => absorbAll_snoc_ok hfold heq
        oDone := fun e => by
          have e' : s.writer = .doneS ∨ s.writer = .exited := e
          rw [hw] at e'; rcases e' with e' | e' <;> cases e' }
    · rename_i e heq
      exact { h with
        outCap := by have := h.outCap; rw [hq] at this; simp at this ⊢; omega
        outOk := fun r' hr' => h.outOk r' (by rw [hq]; simp [hr'])
        arrOk := forall_mem_snoc h.arrOk hgood
        cons := by rw [List.perm_iff_count]; exact hcons
        oRecv := fun e' => by cases e'
        oDone := fun e' => by rcases e' with e' | e' <;> cases e'
        oErr := fun e' he' => by cases he'; exact Or.inl ⟨_, _, heq⟩
        mOk := ⟨fun e' => absurd e' hnr, fun e' => by cases e'⟩ }
  · cases hs

theorem inv_handOut {cfg : Cfg α β ε σ} {s s' : State α β ε σ} {w : Nat} (h : Inv cfg s)
    (hs : stepHandOut cfg s w = some s') : Inv cfg s' := by
  unfold stepHandOut at hs
  split at hs
  · rename_i i y hw hwr hc hcap
    cases hs
    have hmem := List.mem_of_getElem? hw
    have hgood : GoodOut cfg (i, y) := h.wOk _ hmem
    have hfold := h.oRecv hwr
    have hnr : s.main ≠ .ret none := fun e => by have := h.mOk.mp e; rw [hwr] at this; cases this
    have hcons : ∀ a, List.count a (List.map Prod.fst s.cIn.queue ++ held (s.workers.set w .recv) ++
        List.map Prod.fst s.cOut.queue ++ List.map Prod.fst (s.arrival ++ [(i, y)])) =
          List.count a (List.range (rpos cfg s.reader)) := by
      have := h.cons
      rw [List.perm_iff_count] at this
      intro a
      have := this a
      have hh := held_set_count hw (q := (.recv : WPc β ε)) a
      simp [places, List.count_cons] at this hh ⊢
      omega
    have hwex : WPc.exited ∈ s.workers.set w .recv → s.cIn.closed = true ∧ s.cIn.queue = [] := fun e => by
      rcases List.mem_or_eq_of_mem_set e with e | e
      · exact h.wExit e
      · cases e
    have htw : s.waiter ≠ .waiting → ∀ p ∈ s.workers.set w .recv, p = .exited :=
      fun hw' => by have := h.tWait hw' _ hmem; cases this
    unfold absorbInto
    split
    · rename_i st heq
      exact { h with
        wlen := by simp [h.wlen]
        wOk := forall_mem_set h.wOk trivial
        wExit := hwex
        arrOk := forall_mem_snoc h.arrOk hgood
        cons := by rw [List.perm_iff_count]; exact hcons
        tWait := htw
        oRecv := fun _ => absorbAll_snoc_ok hfold heq
        oDone := fun e => by
          have e' : s.writer = .doneS ∨ s.writer = .exited := e
          rw [hwr] at e'; rcases e' with e' | e' <;> cases e' }
    · rename_i e heq
      exact { h with
        wlen := by simp [h.wlen]
        wOk := forall_mem_set h.wOk trivial
        wExit := hwex
        arrOk := forall_mem_snoc h.arrOk hgood
        cons := by rw [List.perm_iff_count]; exact hcons
        tWait := htw
        oRecv := fun e' => by cases e'
        oDone := fun e' => by rcases e' with e' | e' <;> cases e'
        oErr := fun e' he' => by cases he'; exact Or.inl ⟨_, _, heq⟩
        mOk := ⟨fun e' => absurd e' hnr, fun e' => by cases e'⟩ }
  · cases hs

theorem inv_writerClosed {cfg : Cfg α β ε σ} {s s' : State α β ε σ} (h : Inv cfg s)
    (hs : stepWriterClosed cfg s = some s') : Inv cfg s' := by
  unfold stepWriterClosed at hs
  split at hs
  · rename_i hw hc hq
    have hnr : s.main ≠ .ret none := fun e => by have := h.mOk.mp e; rw [hw] at this; cases this
    split at hs
    · rename_i st heq
      cases hs
      exact { h with
        oRecv := fun e' => by cases e'
        oDone := fun _ => ⟨hc, hq, s.wst, h.oRecv hw, heq⟩
        oErr := fun e' he' => by cases he'
        mOk := ⟨fun e' => absurd e' hnr, fun e' => by cases e'⟩ }
    · rename_i e heq
      cases hs
      exact { h with
        oRecv := fun e' => by cases e'
        oDone := fun e' => by rcases e' with e' | e' <;> cases e'
        oErr := fun e' he' => by cases he'; exact Or.inr ⟨_, heq⟩
        mOk := ⟨fun e' => absurd e' hnr, fun e' => by cases e'⟩ }
  · cases hs

theorem inv_wait {cfg : Cfg α β ε σ} {s s' : State α β ε σ} (h : Inv cfg s)
    (hs : stepWait s = some s') : Inv cfg s' := by
  unfold stepWait at hs
  split at hs
  · rename_i hw
    split at hs
    · rename_i hall
      cases hs
      have hnc : s.cOut.closed ≠ true := fun e => by have := h.tClosed.mpr e; rw [hw] at this; cases this
      exact { h with
        tWait := fun _ => all_isExited.mp hall
        tClosed := ⟨fun e => (by cases e), fun e => absurd e hnc⟩ }
    · cases hs
  · cases hs

theorem not_ret_of_not_final {s : State α β ε σ} (hnf : s.final = false) (r : Option ε) : s.main ≠ .ret r := by
  intro e
  simp [State.final, e, MPc.isRet] at hnf

theorem inv_mainErrReader {cfg : Cfg α β ε σ} {s s' : State α β ε σ} (h : Inv cfg s) (hnf : s.final = false)
    (hs : stepMainErrReader s = some s') : Inv cfg s' := by
  unfold stepMainErrReader at hs
  split at hs
  · rename_i e hr
    cases hs
    have hnw : s.writer ≠ .exited := fun e' => not_ret_of_not_final hnf _ (h.mOk.mpr e')
    exact { h with
      m1 := fun e' => by cases e'
      m2 := fun e' => by cases e'
      m3 := fun e' => by cases e'
      mOk := ⟨fun e' => (by cases e'), fun e' => absurd e' hnw⟩
      mErr := fun e' he' => by cases he'; exact Or.inl (h.rinv.rErr _ hr) }
  · cases hs

theorem inv_mainErrWorker {cfg : Cfg α β ε σ} {s s' : State α β ε σ} {w : Nat} (h : Inv cfg s) (hnf : s.final = false)
    (hs : stepMainErrWorker s w = some s') : Inv cfg s' := by
  unfold stepMainErrWorker at hs
  split at hs
  · rename_i i e hw
    cases hs
    have hnw : s.writer ≠ .exited := fun e' => not_ret_of_not_final hnf _ (h.mOk.mpr e')
    obtain ⟨x, hx, hf⟩ := h.wOk _ (List.mem_of_getElem? hw)
    exact { h with
      m1 := fun e' => by cases e'
      m2 := fun e' => by cases e'
      m3 := fun e' => by cases e'
      mOk := ⟨fun e' => (by cases e'), fun e' => absurd e' hnw⟩
      mErr := fun e' he' => by cases he'; exact Or.inr (Or.inl ⟨x, List.mem_of_getElem? hx, hf⟩) }
  · cases hs

theorem inv_mainErrWriter {cfg : Cfg α β ε σ} {s s' : State α β ε σ} (h : Inv cfg s) (_hnf : s.final = false)
    (hs : stepMainErrWriter s = some s') : Inv cfg s' := by
  unfold stepMainErrWriter at hs
  split at hs
  · rename_i e hw
    cases hs
    have hnw : s.writer ≠ .exited := fun e' => by rw [hw] at e'; cases e'
    exact { h with
      m1 := fun e' => by cases e'
      m2 := fun e' => by cases e'
      m3 := fun e' => by cases e'
      mOk := ⟨fun e' => (by cases e'), fun e' => absurd e' hnw⟩
      mErr := fun e' he' => by cases he'; exact Or.inr (Or.inr (h.oErr _ hw)) }
  · cases hs

theorem inv_mainReadDone {cfg : Cfg α β ε σ} {s s' : State α β ε σ} (h : Inv cfg s)
    (hs : stepMainReadDone s = some s') : Inv cfg s' := by
  unfold stepMainReadDone at hs
  split at hs
  · rename_i hm hr
    have hc := (h.m1 hm).1
    have hnw : s.writer ≠ .exited := fun e' => by have := h.mOk.mpr e'; rw [hm] at this; cases this
    simp only [hc] at hs
    cases hs
    exact { h with
      rinv := ⟨fun i e => (by cases e), fun e e' => (by cases e'), fun e => (by cases e)⟩
      rExit := fun _ => h.rinv.rDone hr
      rClosed := ⟨fun _ => rfl, fun _ => rfl⟩
      wExit := fun e => by have := (h.wExit e).1; simp [hc] at this
      cons := by have := h.cons; rw [hr] at this; exact this
      m1 := fun e' => by cases e'
      m2 := fun _ => ⟨rfl, (h.m1 hm).2⟩
      m3 := fun e' => by cases e'
      mOk := ⟨fun e' => (by cases e'), fun e' => absurd e' hnw⟩
      mErr := fun e' he' => by cases he' }
  · cases hs

theorem inv_mainWgDone {cfg : Cfg α β ε σ} {s s' : State α β ε σ} (h : Inv cfg s)
    (hs : stepMainWgDone s = some s') : Inv cfg s' := by
  unfold stepMainWgDone at hs
  split at hs
  · rename_i hm hw
    have hc := (h.m2 hm).2
    have hnw : s.writer ≠ .exited := fun e' => by have := h.mOk.mpr e'; rw [hm] at this; cases this
    simp only [hc] at hs
    cases hs
    exact { h with
      tWait := fun _ => h.tWait (by rw [hw]; intro e; cases e)
      tClosed := ⟨fun _ => rfl, fun _ => rfl⟩
      oDone := fun e => by have := (h.oDone e).1; simp [hc] at this
      m1 := fun e' => by cases e'
      m2 := fun e' => by cases e'
      m3 := fun _ => rfl
      mOk := ⟨fun e' => (by cases e'), fun e' => absurd e' hnw⟩
      mErr := fun e' he' => by cases he' }
  · cases hs

theorem inv_mainWriteDone {cfg : Cfg α β ε σ} {s s' : State α β ε σ} (h : Inv cfg s)
    (hs : stepMainWriteDone s = some s') : Inv cfg s' := by
  unfold stepMainWriteDone at hs
  split at hs
  · rename_i hm hw
    cases hs
    exact { h with
      oRecv := fun e' => by cases e'
      oDone := fun _ => h.oDone (Or.inl hw)
      oErr := fun e' he' => by cases he'
      m1 := fun e' => by cases e'
      m2 := fun e' => by cases e'
      m3 := fun e' => by cases e'
      mOk := ⟨fun _ => rfl, fun _ => rfl⟩
      mErr := fun e' he' => by cases he' }
  · cases hs

theorem inv_step {cfg : Cfg α β ε σ} {s s' : State α β ε σ} {l : Label} (h : Inv cfg s)
    (hs : step? cfg s l = some s') : Inv cfg s' := by
  unfold step? at hs
  by_cases hnf : s.final = true
  · simp [hnf] at hs
  · have hnf' : s.final = false := by simpa using hnf
    simp only [hnf', Bool.false_eq_true, if_false] at hs
    cases l with
    | readerSend => exact inv_readerSend h hs
    | workerRecv w => exact inv_workerRecv h hs
    | handIn w => exact inv_handIn h hs
    | workerClosed w => exact inv_workerClosed h hs
    | workerSend w => exact inv_workerSend h hs
    | writerRecv => exact inv_writerRecv h hs
    | handOut w => exact inv_handOut h hs
    | writerClosed => exact inv_writerClosed h hs
    | wait => exact inv_wait h hs
    | mainErrReader => exact inv_mainErrReader h hnf' hs
    | mainErrWorker w => exact inv_mainErrWorker h hnf' hs
    | mainErrWriter => exact inv_mainErrWriter h hnf' hs
    | mainReadDone => exact inv_mainReadDone h hs
    | mainWgDone => exact inv_mainWgDone h hs
    | mainWriteDone => exact inv_mainWriteDone h hs

theorem reach_inv {cfg : Cfg α β ε σ} {s : State α β ε σ} (h : Reach cfg s) : Inv cfg s := by
  induction h with
  | init => exact inv_init cfg
  | step l _ hs ih => exact inv_step ih hs

/-! ### T3: every step decreases the measure -/

theorem rμ_rnext (cfg : Cfg α β ε σ) (i : Nat) : rμ cfg (rnext cfg (i + 1)) + 4 ≤ rμ cfg (.sending i) := by
  unfold rnext
  by_cases h : i + 1 < nSend cfg
  · simp only [h, if_true, rμ]; omega
  · simp only [h, if_false]
    rcases rAfter_cases cfg with ⟨h1, _⟩ | ⟨k, e, h1, _⟩ <;> rw [h1] <;> simp only [rμ] <;> omega

theorem wμ_wnext (cfg : Cfg α β ε σ) (r : Nat × α) : wμ (wnext cfg r) ≤ 3 := by
  unfold wnext; split <;> simp [wμ]

theorem μ_absorbInto (cfg : Cfg α β ε σ) (s : State α β ε σ) (r : Nat × β) (hw : s.writer = .recv) :
    μ cfg (absorbInto cfg s r) ≤ μ cfg s := by
  unfold absorbInto
  split
  · simp [μ]
  · simp [μ, hw, oμ]

theorem mμ_pos {m : MPc ε} (h : m.isRet = false) : 1 ≤ mμ m := by
  cases m <;> simp_all [MPc.isRet, mμ]

theorem mμ_ret (r : Option ε) : mμ (.ret r) = 0 := rfl

theorem step_decreases {cfg : Cfg α β ε σ} {s s' : State α β ε σ} {l : Label}
    (hs : step? cfg s l = some s') : μ cfg s' < μ cfg s := by
  unfold step? at hs
  by_cases hnf : s.final = true
  · simp [hnf] at hs
  · have hnf' : s.final = false := by simpa using hnf
    have hp : s.panicked = false := by simp [State.final] at hnf'; exact hnf'.1
    have hm : 1 ≤ mμ s.main := mμ_pos (by simp [State.final] at hnf'; exact hnf'.2)
    simp only [hnf', Bool.false_eq_true, if_false] at hs
    cases l with
    | readerSend =>
      replace hs : stepReaderSend cfg s = some s' := hs
      unfold stepReaderSend at hs
      split at hs
      · cases hs; simp [μ, hp]
      · rename_i i hr hc
        split at hs
        · split at hs
          · cases hs
            have := rμ_rnext cfg i
            simp [μ, hr, hp] at this ⊢; omega
          · cases hs
        · cases hs
      · cases hs
    | workerRecv w =>
      replace hs : stepWorkerRecv cfg s w = some s' := hs
      unfold stepWorkerRecv at hs
      split at hs
      · rename_i r rest hw hq
        cases hs
        have h1 := wsμ_set hw (q := wnext cfg r)
        have h2 := wμ_wnext cfg r
        simp [μ, hq, wμ] at h1 h2 ⊢; omega
      · cases hs
    | handIn w =>
      replace hs : stepHandIn cfg s w = some s' := hs
      unfold stepHandIn at hs
      split at hs
      · rename_i i hr hw hc hcap
        split at hs
        · rename_i x hx
          cases hs
          have h1 := wsμ_set hw (q := wnext cfg (i, x))
          have h2 := wμ_wnext cfg (i, x)
          have h3 := rμ_rnext cfg i
          simp [μ, hr, wμ] at h1 h2 h3 ⊢; omega
        · cases hs
      · cases hs
    | workerClosed w =>
      replace hs : stepWorkerClosed s w = some s' := hs
      unfold stepWorkerClosed at hs
      split at hs
      · rename_i hw hc hq
        cases hs
        have h1 := wsμ_set hw (q := (.exited : WPc β ε))
        simp [μ, wμ] at h1 ⊢; omega
      · cases hs
    | workerSend w =>
      replace hs : stepWorkerSend cfg s w = some s' := hs
      unfold stepWorkerSend at hs
      split at hs
      · cases hs; simp [μ, hp]
      · rename_i i y hw hc
        split at hs
        · cases hs
          have h1 := wsμ_set hw (q := (.recv : WPc β ε))
          simp [μ, wμ] at h1 ⊢; omega
        · cases hs
      · cases hs
    | writerRecv =>
      replace hs : stepWriterRecv cfg s = some s' := hs
      unfold stepWriterRecv at hs
      split at hs
      · rename_i r rest hw hq
        cases hs
        refine Nat.lt_of_le_of_lt (μ_absorbInto cfg _ r hw) ?_
        simp [μ, hq]
      · cases hs
    | handOut w =>
      replace hs : stepHandOut cfg s w = some s' := hs
      unfold stepHandOut at hs
      split at hs
      · rename_i i y hw hwr hc hcap
        cases hs
        refine Nat.lt_of_le_of_lt (μ_absorbInto cfg _ (i, y) hwr) ?_
        have h1 := wsμ_set hw (q := (.recv : WPc β ε))
        simp [μ, wμ] at h1 ⊢; omega
      · cases hs
    | writerClosed =>
      replace hs : stepWriterClosed cfg s = some s' := hs
      unfold stepWriterClosed at hs
      split at hs
      · rename_i hw hc hq
        split at hs <;> cases hs <;> simp [μ, hw, oμ]
      · cases hs
    | wait =>
      replace hs : stepWait s = some s' := hs
      unfold stepWait at hs
      split at hs
      · rename_i hw
        split at hs
        · cases hs; simp [μ, hw, tμ]
        · cases hs
      · cases hs
    | mainErrReader =>
      replace hs : stepMainErrReader s = some s' := hs
      unfold stepMainErrReader at hs
      split at hs
      · cases hs; simp [μ, mμ_ret, hp]; omega
      · cases hs
    | mainErrWorker w =>
      replace hs : stepMainErrWorker s w = some s' := hs
      unfold stepMainErrWorker at hs
      split at hs
      · cases hs; simp [μ, mμ_ret, hp]; omega
      · cases hs
    | mainErrWriter =>
      replace hs : stepMainErrWriter s = some s' := hs
      unfold stepMainErrWriter at hs
      split at hs
      · cases hs; simp [μ, mμ_ret, hp]; omega
      · cases hs
    | mainReadDone =>
      replace hs : stepMainReadDone s = some s' := hs
      unfold stepMainReadDone at hs
      split at hs
      · rename_i hm' hr
        split at hs <;> cases hs
        · simp [μ, hp]
        · simp [μ, hm', hr, mμ, rμ]; omega
      · cases hs
    | mainWgDone =>
      replace hs : stepMainWgDone s = some s' := hs
      unfold stepMainWgDone at hs
      split at hs
      · rename_i hm' hw
        split at hs <;> cases hs
        · simp [μ, hp]
        · simp [μ, hm', hw, mμ, tμ]; omega
      · cases hs
    | mainWriteDone =>
      replace hs : stepMainWriteDone s = some s' := hs
      unfold stepMainWriteDone at hs
      split at hs
      · rename_i hm' hw
        cases hs
        simp [μ, hm', hw, mμ, oμ]; omega
      · cases hs

/-! ### T1: main returns nil only if every record went all the way through -/

/-- when the writer has exited, everything upstream has shut down and is empty -/
theorem drained {cfg : Cfg α β ε σ} {s : State α β ε σ} (hN : 1 ≤ cfg.N) (h : Inv cfg s)
    (hw : s.writer = .exited) :
    cfg.readFail = none ∧ (s.arrival.map Prod.fst).Perm (List.range cfg.items.length) ∧
    ∃ st, absorbAll cfg.absorb cfg.init s.arrival = .ok st ∧ cfg.finish st = .ok s.wst := by
  obtain ⟨hc, hq, st, hfold, hfin⟩ := h.oDone (Or.inr hw)
  have htw : s.waiter = .exited := h.tClosed.mpr hc
  have hall := h.tWait (by rw [htw]; intro e; cases e)
  have h0 : 0 < s.workers.length := by rw [h.wlen]; exact hN
  have hex : WPc.exited ∈ s.workers := by
    have hm : s.workers[0] ∈ s.workers := List.getElem_mem h0
    rw [hall _ hm] at hm; exact hm
  obtain ⟨hic, hiq⟩ := h.wExit hex
  have hrd : s.reader = .exited := h.rClosed.mpr hic
  have hrf := h.rExit hrd
  refine ⟨hrf, ?_, st, hfold, hfin⟩
  have := h.cons
  simpa [places, hiq, hq, held_all_exited hall, hrd, rpos, nSend_none hrf] using this

theorem success_means_complete {cfg : Cfg α β ε σ} {s : State α β ε σ} (hN : 1 ≤ cfg.N)
    (hr : Reach cfg s) (hm : s.main = .ret none) :
    cfg.readFail = none ∧ (∀ x ∈ cfg.items, ∃ y, cfg.f x = .ok y) ∧
    ∃ recs : List (Nat × β),
      (recs.map Prod.fst).Perm (List.range cfg.items.length) ∧
      (∀ r ∈ recs, ∃ x, cfg.items[r.1]? = some x ∧ cfg.f x = .ok r.2) ∧
      ∃ st, absorbAll cfg.absorb cfg.init recs = .ok st ∧ cfg.finish st = .ok s.wst := by
  have h := reach_inv hr
  obtain ⟨hrf, hperm, hst⟩ := drained hN h (h.mOk.mp hm)
  refine ⟨hrf, ?_, s.arrival, hperm, h.arrOk, hst⟩
  intro x hx
  obtain ⟨i, hi, rfl⟩ := List.getElem_of_mem hx
  have hmem : i ∈ s.arrival.map Prod.fst := hperm.mem_iff.mpr (List.mem_range.mpr hi)
  obtain ⟨r, hr, rfl⟩ := List.mem_map.mp hmem
  obtain ⟨x', hx', hf⟩ := h.arrOk r hr
  rw [List.getElem?_eq_getElem hi] at hx'
  cases hx'
  exact ⟨_, hf⟩

/-- records that come out of workers are determined by their indices -/
theorem recs_eq_filterMap {cfg : Cfg α β ε σ} {recs : List (Nat × β)}
    (h : ∀ r ∈ recs, ∃ x, cfg.items[r.1]? = some x ∧ cfg.f x = .ok r.2) :
    recs = (recs.map Prod.fst).filterMap (rec? cfg) := by
  induction recs with
  | nil => rfl
  | cons r t ih =>
    obtain ⟨x, hx, hf⟩ := h r (by simp)
    have hr : rec? cfg r.1 = some r := by simp [rec?, hx, hf]
    rw [List.map_cons, List.filterMap_cons, hr, ← ih (fun r' hr' => h r' (by simp [hr']))]

/-- T1 in terms of the arrival order of the indices alone -/
theorem success_means_complete' {cfg : Cfg α β ε σ} {s : State α β ε σ} (hN : 1 ≤ cfg.N)
    (hr : Reach cfg s) (hm : s.main = .ret none) :
    cfg.readFail = none ∧ (∀ x ∈ cfg.items, ∃ y, cfg.f x = .ok y) ∧
    ∃ arrival : List Nat, arrival.Perm (List.range cfg.items.length) ∧
      ∃ st, absorbAll cfg.absorb cfg.init (arrival.filterMap (rec? cfg)) = .ok st ∧
        cfg.finish st = .ok s.wst := by
  obtain ⟨h1, h2, recs, h3, h4, h5⟩ := success_means_complete hN hr hm
  refine ⟨h1, h2, recs.map Prod.fst, h3, ?_⟩
  rw [← recs_eq_filterMap h4]; exact h5

/-! ### T6: nobody sends on a closed channel, each channel is closed once -/

theorem no_panic {cfg : Cfg α β ε σ} {s : State α β ε σ} (hr : Reach cfg s) : s.panicked = false :=
  (reach_inv hr).np

/-- once cIn is closed the reader is past its sends; once cOut is closed every worker has exited -/
theorem no_send_on_closed {cfg : Cfg α β ε σ} {s : State α β ε σ} (hr : Reach cfg s) :
    (s.cIn.closed = true → s.reader = .exited) ∧
    (s.cOut.closed = true → ∀ p ∈ s.workers, p = .exited) := by
  have h := reach_inv hr
  refine ⟨h.rClosed.mpr, fun hc => h.tWait ?_⟩
  rw [h.tClosed.mpr hc]; intro e; cases e

/-- the close statements execute on open channels -/
theorem close_once {cfg : Cfg α β ε σ} {s s' : State α β ε σ} (hr : Reach cfg s) :
    (step? cfg s .mainReadDone = some s' → s.cIn.closed = false ∧ s'.cIn.closed = true) ∧
    (step? cfg s .mainWgDone = some s' → s.cOut.closed = false ∧ s'.cOut.closed = true) := by
  have h := reach_inv hr
  constructor
  · intro hs
    unfold step? at hs
    split at hs
    · cases hs
    · replace hs : stepMainReadDone s = some s' := hs
      unfold stepMainReadDone at hs
      split at hs
      · rename_i hm _
        have hc := (h.m1 hm).1
        simp only [hc] at hs
        cases hs
        exact ⟨hc, rfl⟩
      · cases hs
  · intro hs
    unfold step? at hs
    split at hs
    · cases hs
    · replace hs : stepMainWgDone s = some s' := hs
      unfold stepMainWgDone at hs
      split at hs
      · rename_i hm _
        have hc := (h.m2 hm).2
        simp only [hc] at hs
        cases hs
        exact ⟨hc, rfl⟩
      · cases hs

/-- no other step touches the closed flags -/
theorem closed_unchanged {cfg : Cfg α β ε σ} {s s' : State α β ε σ} {l : Label}
    (hs : step? cfg s l = some s') :
    (l ≠ .mainReadDone → s'.cIn.closed = s.cIn.closed) ∧ (l ≠ .mainWgDone → s'.cOut.closed = s.cOut.closed) := by
  unfold step? at hs
  split at hs
  · cases hs
  · cases l <;> simp only [] at hs
    all_goals
      simp only [stepReaderSend, stepWorkerRecv, stepHandIn, stepWorkerClosed, stepWorkerSend, stepWriterRecv,
        stepHandOut, stepWriterClosed, stepWait, stepMainErrReader, stepMainErrWorker, stepMainErrWriter,
        stepMainReadDone, stepMainWgDone, stepMainWriteDone, absorbInto] at hs
      repeat' split at hs
      all_goals
        cases hs
        try (constructor <;> intro hne <;> first | rfl | (exact absurd rfl hne) | (split <;> rfl))

theorem buffers_bounded {cfg : Cfg α β ε σ} {s : State α β ε σ} (hr : Reach cfg s) :
    s.cIn.queue.length ≤ cfg.capIn ∧ s.cOut.queue.length ≤ cfg.capOut :=
  ⟨(reach_inv hr).inCap, (reach_inv hr).outCap⟩

/-! ### T5: an error main returns is an error some component produced -/

theorem error_has_source {cfg : Cfg α β ε σ} {s : State α β ε σ} {e : ε}
    (hr : Reach cfg s) (hm : s.main = .ret (some e)) : ErrSource cfg e :=
  (reach_inv hr).mErr e hm

theorem no_spurious_error {cfg : Cfg α β ε σ} {s : State α β ε σ}
    (hrf : cfg.readFail = none) (hf : ∀ x ∈ cfg.items, ∃ y, cfg.f x = .ok y)
    (ha : ∀ st r, ∃ st', cfg.absorb st r = .ok st') (hfin : ∀ st, ∃ st', cfg.finish st = .ok st')
    (hr : Reach cfg s) (e : ε) : s.main ≠ .ret (some e) := by
  intro hm
  rcases error_has_source hr hm with ⟨k, h⟩ | ⟨x, hx, h⟩ | ⟨st, r, h⟩ | ⟨st, h⟩
  · rw [hrf] at h; cases h
  · obtain ⟨y, hy⟩ := hf x hx; rw [hy] at h; cases h
  · obtain ⟨st', hy⟩ := ha st r; rw [hy] at h; cases h
  · obtain ⟨st', hy⟩ := hfin st; rw [hy] at h; cases h

/-! ### T4: a failure anywhere means main never returns nil -/

theorem error_reported {cfg : Cfg α β ε σ} {s : State α β ε σ} (hN : 1 ≤ cfg.N)
    (hfail : cfg.readFail ≠ none ∨ (∃ x ∈ cfg.items, ∃ e, cfg.f x = .error e) ∨
      (∀ recs : List (Nat × β), (recs.map Prod.fst).Perm (List.range cfg.items.length) →
        (∀ r ∈ recs, ∃ x, cfg.items[r.1]? = some x ∧ cfg.f x = .ok r.2) →
        ∀ st st', absorbAll cfg.absorb cfg.init recs = .ok st → cfg.finish st ≠ .ok st'))
    (hr : Reach cfg s) : s.main ≠ .ret none := by
  intro hm
  obtain ⟨h1, h2, recs, h3, h4, st, h5, h6⟩ := success_means_complete hN hr hm
  rcases hfail with h | ⟨x, hx, e, he⟩ | h
  · exact h h1
  · obtain ⟨y, hy⟩ := h2 x hx; rw [hy] at he; cases he
  · exact h recs h3 h4 st _ h5 h6

/-! ### T2: no reachable non-final state is stuck -/

/-- some label of the label universe is enabled -/
def Progress (cfg : Cfg α β ε σ) (s : State α β ε σ) : Prop :=
  ∃ l ∈ allLabels cfg.N, (step? cfg s l).isSome = true

theorem enabled_ne_nil_of_progress {cfg : Cfg α β ε σ} {s : State α β ε σ} (h : Progress cfg s) :
    enabled cfg s ≠ [] := by
  obtain ⟨l, hl, hs⟩ := h
  intro he
  have : l ∈ enabled cfg s := by
    unfold enabled enabledWith
    exact List.mem_filter.mpr ⟨hl, hs⟩
  rw [he] at this; cases this

theorem progress_of_enabled_ne_nil {cfg : Cfg α β ε σ} {s : State α β ε σ} (h : enabled cfg s ≠ []) :
    Progress cfg s := by
  cases he : enabled cfg s with
  | nil => exact absurd he h
  | cons l t =>
    have : l ∈ enabled cfg s := by rw [he]; simp
    unfold enabled enabledWith at this
    obtain ⟨h1, h2⟩ := List.mem_filter.mp this
    exact ⟨l, h1, h2⟩

section
variable {cfg : Cfg α β ε σ} {s : State α β ε σ}

theorem idx_lt (h : Inv cfg s) {w : Nat} {p : WPc β ε} (hw : s.workers[w]? = some p) : w < cfg.N := by
  rw [← h.wlen]
  exact (List.getElem?_eq_some_iff.mp hw).1

/-- a worker blocked on its send to an open cOut can move, or the writer can -/
theorem out_progress (h : Inv cfg s) (hnf : s.final = false) {w i : Nat} {y : β}
    (hw : s.workers[w]? = some (.sendOut i y)) (hc : s.cOut.closed = false)
    (hwr : ∀ e, s.writer ≠ .errS e) : Progress cfg s := by
  have hwN := idx_lt h hw
  have hrecv : s.writer = .recv := by
    cases hwr' : s.writer with
    | recv => rfl
    | errS e => exact absurd hwr' (hwr e)
    | doneS => have := (h.oDone (Or.inl hwr')).1; simp [hc] at this
    | exited => have := (h.oDone (Or.inr hwr')).1; simp [hc] at this
  by_cases hcap : cfg.capOut = 0
  · exact ⟨.handOut w, by simp [allLabels, workerLabels, hwN],
      by simp [step?, hnf, stepHandOut, hw, hrecv, hc, hcap]⟩
  · by_cases hroom : s.cOut.queue.length < cfg.capOut
    · exact ⟨.workerSend w, by simp [allLabels, workerLabels, hwN],
        by simp [step?, hnf, stepWorkerSend, hw, hc, hroom]⟩
    · cases hq : s.cOut.queue with
      | nil => rw [hq] at hroom; simp at hroom; omega
      | cons r rest =>
        exact ⟨.writerRecv, by simp [allLabels], by simp [step?, hnf, stepWriterRecv, hrecv, hq]⟩

theorem no_deadlock' (hN : 1 ≤ cfg.N) (h : Inv cfg s) (hnf : s.final = false) : Progress cfg s := by
  -- somebody is waiting to report an error: main's cErr arm is ready in every stage
  by_cases hre : ∃ e, s.reader = .errS e
  · obtain ⟨e, he⟩ := hre
    exact ⟨.mainErrReader, by simp [allLabels], by simp [step?, hnf, stepMainErrReader, he]⟩
  by_cases hwe : ∃ e, s.writer = .errS e
  · obtain ⟨e, he⟩ := hwe
    exact ⟨.mainErrWriter, by simp [allLabels], by simp [step?, hnf, stepMainErrWriter, he]⟩
  by_cases hke : ∃ (w i : Nat) (e : ε), s.workers[w]? = some (WPc.errS i e)
  · obtain ⟨w, i, e, he⟩ := hke
    exact ⟨.mainErrWorker w, by simp [allLabels, workerLabels, idx_lt h he],
      by simp [step?, hnf, stepMainErrWorker, he]⟩
  have hwr : ∀ e, s.writer ≠ .errS e := fun e he => hwe ⟨e, he⟩
  -- a worker blocked on cOut while cOut is open
  by_cases hso : (∃ (w i : Nat) (y : β), s.workers[w]? = some (WPc.sendOut i y)) ∧ s.cOut.closed = false
  · obtain ⟨⟨w, i, y, hw⟩, hc⟩ := hso
    exact out_progress h hnf hw hc hwr
  have h0 : 0 < s.workers.length := by rw [h.wlen]; exact hN
  cases hm : s.main with
  | ret r => simp [State.final, hm, MPc.isRet] at hnf
  | stage1 =>
    obtain ⟨hic, hoc⟩ := h.m1 hm
    cases hr : s.reader with
    | errS e => exact absurd ⟨e, hr⟩ hre
    | exited => have := h.rClosed.mp hr; simp [hic] at this
    | doneS =>
      exact ⟨.mainReadDone, by simp [allLabels], by simp [step?, hnf, stepMainReadDone, hm, hr, hic]⟩
    | sending i =>
      have hi : i < cfg.items.length := Nat.lt_of_lt_of_le (h.rinv.rSend i hr) (nSend_le cfg)
      have hx : cfg.items[i]? = some cfg.items[i] := List.getElem?_eq_getElem hi
      -- worker 0 sits at its receive
      have hw0 : s.workers[0]? = some .recv := by
        have hg : s.workers[0]? = some s.workers[0] := List.getElem?_eq_getElem h0
        cases hp : s.workers[0] with
        | recv => rw [hg, hp]
        | sendOut j y => exact absurd ⟨⟨0, j, y, by rw [hg, hp]⟩, hoc⟩ hso
        | errS j e => exact absurd ⟨0, j, e, by rw [hg, hp]⟩ hke
        | exited =>
          have : WPc.exited ∈ s.workers := by rw [← hp]; exact List.getElem_mem h0
          have := (h.wExit this).1; simp [hic] at this
      by_cases hcap : cfg.capIn = 0
      · exact ⟨.handIn 0, by simp [allLabels, workerLabels]; omega,
          by simp [step?, hnf, stepHandIn, hr, hw0, hic, hcap, hx]⟩
      · by_cases hroom : s.cIn.queue.length < cfg.capIn
        · exact ⟨.readerSend, by simp [allLabels],
            by simp [step?, hnf, stepReaderSend, hr, hic, hx, hroom]⟩
        · cases hq : s.cIn.queue with
          | nil => rw [hq] at hroom; simp at hroom; omega
          | cons r rest =>
            exact ⟨.workerRecv 0, by simp [allLabels, workerLabels]; omega,
              by simp [step?, hnf, stepWorkerRecv, hw0, hq]⟩
  | stage2 =>
    obtain ⟨hic, hoc⟩ := h.m2 hm
    cases ht : s.waiter with
    | exited => have := h.tClosed.mp ht; simp [hoc] at this
    | doneS =>
      exact ⟨.mainWgDone, by simp [allLabels], by simp [step?, hnf, stepMainWgDone, hm, ht, hoc]⟩
    | waiting =>
      by_cases hall : s.workers.all WPc.isExited = true
      · exact ⟨.wait, by simp [allLabels], by simp [step?, hnf, stepWait, ht, hall]⟩
      · have : ∃ p ∈ s.workers, p ≠ .exited := by
          apply Classical.byContradiction
          intro hcon
          apply hall
          rw [all_isExited]
          intro p hp
          apply Classical.byContradiction
          intro hne
          exact hcon ⟨p, hp, hne⟩
        obtain ⟨p, hp, hne⟩ := this
        obtain ⟨w, hw⟩ := List.mem_iff_getElem?.mp hp
        have hwN := idx_lt h hw
        cases p with
        | exited => exact absurd rfl hne
        | errS j e => exact absurd ⟨w, j, e, hw⟩ hke
        | sendOut j y => exact absurd ⟨⟨w, j, y, hw⟩, hoc⟩ hso
        | recv =>
          cases hq : s.cIn.queue with
          | nil =>
            exact ⟨.workerClosed w, by simp [allLabels, workerLabels, hwN],
              by simp [step?, hnf, stepWorkerClosed, hw, hic, hq]⟩
          | cons r rest =>
            exact ⟨.workerRecv w, by simp [allLabels, workerLabels, hwN],
              by simp [step?, hnf, stepWorkerRecv, hw, hq]⟩
  | stage3 =>
    have hoc := h.m3 hm
    cases hw : s.writer with
    | errS e => exact absurd ⟨e, hw⟩ hwe
    | exited => have := h.mOk.mpr hw; rw [hm] at this; cases this
    | doneS =>
      exact ⟨.mainWriteDone, by simp [allLabels], by simp [step?, hnf, stepMainWriteDone, hm, hw]⟩
    | recv =>
      cases hq : s.cOut.queue with
      | nil =>
        refine ⟨.writerClosed, by simp [allLabels], ?_⟩
        simp only [step?, hnf, stepWriterClosed, hw, hoc, hq]
        cases cfg.finish s.wst <;> simp
      | cons r rest =>
        exact ⟨.writerRecv, by simp [allLabels], by simp [step?, hnf, stepWriterRecv, hw, hq]⟩

end

theorem no_deadlock {cfg : Cfg α β ε σ} {s : State α β ε σ} (hN : 1 ≤ cfg.N) (hr : Reach cfg s)
    (hm : ∀ r, s.main ≠ .ret r) : enabled cfg s ≠ [] := by
  have h := reach_inv hr
  apply enabled_ne_nil_of_progress
  apply no_deadlock' hN h
  simp only [State.final, h.np, Bool.false_or]
  cases hm' : s.main with
  | ret r => exact absurd hm' (hm r)
  | _ => rfl

/-! ### runs: every schedule is finite and every maximal run ends with main returned -/

/-- a finite run: the labels chosen by some scheduler, in order -/
inductive Steps (cfg : Cfg α β ε σ) : State α β ε σ → List Label → State α β ε σ → Prop where
  | nil (s : State α β ε σ) : Steps cfg s [] s
  | cons {s s1 s2 : State α β ε σ} {l : Label} {ls : List Label} :
      step? cfg s l = some s1 → Steps cfg s1 ls s2 → Steps cfg s (l :: ls) s2

/-- T3: the measure μ strictly decreases along every step -/
theorem terminates {cfg : Cfg α β ε σ} {s s' : State α β ε σ} {l : Label}
    (hs : step? cfg s l = some s') : μ cfg s' < μ cfg s := step_decreases hs

/-- T3, for runs: a run from s has at most μ s steps -/
theorem run_length_le {cfg : Cfg α β ε σ} {s s' : State α β ε σ} {ls : List Label}
    (h : Steps cfg s ls s') : ls.length + μ cfg s' ≤ μ cfg s := by
  induction h with
  | nil s => simp
  | cons hs _ ih => have := step_decreases hs; simp; omega

theorem reach_steps {cfg : Cfg α β ε σ} {s s' : State α β ε σ} {ls : List Label}
    (hr : Reach cfg s) (h : Steps cfg s ls s') : Reach cfg s' := by
  induction h with
  | nil s => exact hr
  | cons hs _ ih => exact ih (Reach.step _ hr hs)

theorem steps_snoc {cfg : Cfg α β ε σ} {s s1 s2 : State α β ε σ} {ls : List Label} {l : Label}
    (h : Steps cfg s ls s1) (hs : step? cfg s1 l = some s2) : Steps cfg s (ls ++ [l]) s2 := by
  induction h with
  | nil s => exact Steps.cons hs (Steps.nil _)
  | cons hs' _ ih => exact Steps.cons hs' (ih hs)

theorem reach_iff_steps {cfg : Cfg α β ε σ} {s : State α β ε σ} :
    Reach cfg s ↔ ∃ ls, Steps cfg (init cfg) ls s := by
  constructor
  · intro h
    induction h with
    | init => exact ⟨[], Steps.nil _⟩
    | step l _ hs ih => obtain ⟨ls, h⟩ := ih; exact ⟨ls ++ [l], steps_snoc h hs⟩
  · rintro ⟨ls, h⟩; exact reach_steps Reach.init h

/-- a run that cannot be extended has main returned (T2 restated) -/
theorem maximal_run_returned {cfg : Cfg α β ε σ} {s : State α β ε σ} (hN : 1 ≤ cfg.N)
    (hr : Reach cfg s) (hstuck : enabled cfg s = []) : ∃ r, s.main = .ret r := by
  apply Classical.byContradiction
  intro hcon
  exact no_deadlock hN hr (fun r hm => hcon ⟨r, hm⟩) hstuck

/-- T4, whole runs: with a failure somewhere every maximal run ends with main returning an error -/
theorem maximal_run_error {cfg : Cfg α β ε σ} {s : State α β ε σ} (hN : 1 ≤ cfg.N)
    (hfail : cfg.readFail ≠ none ∨ (∃ x ∈ cfg.items, ∃ e, cfg.f x = .error e) ∨
      (∀ recs : List (Nat × β), (recs.map Prod.fst).Perm (List.range cfg.items.length) →
        (∀ r ∈ recs, ∃ x, cfg.items[r.1]? = some x ∧ cfg.f x = .ok r.2) →
        ∀ st st', absorbAll cfg.absorb cfg.init recs = .ok st → cfg.finish st ≠ .ok st'))
    (hr : Reach cfg s) (hstuck : enabled cfg s = []) : ∃ e, s.main = .ret (some e) ∧ ErrSource cfg e := by
  obtain ⟨r, hm⟩ := maximal_run_returned hN hr hstuck
  cases r with
  | none => exact absurd hm (error_reported hN hfail hr)
  | some e => exact ⟨e, hm, error_has_source hr hm⟩

/-- T5, whole runs: with no failure anywhere every maximal run ends with main returning nil
    and the writer having absorbed every record once -/
theorem maximal_run_success {cfg : Cfg α β ε σ} {s : State α β ε σ} (hN : 1 ≤ cfg.N)
    (hrf : cfg.readFail = none) (hf : ∀ x ∈ cfg.items, ∃ y, cfg.f x = .ok y)
    (ha : ∀ st r, ∃ st', cfg.absorb st r = .ok st') (hfin : ∀ st, ∃ st', cfg.finish st = .ok st')
    (hr : Reach cfg s) (hstuck : enabled cfg s = []) :
    s.main = .ret none ∧
    ∃ recs : List (Nat × β),
      (recs.map Prod.fst).Perm (List.range cfg.items.length) ∧
      (∀ r ∈ recs, ∃ x, cfg.items[r.1]? = some x ∧ cfg.f x = .ok r.2) ∧
      ∃ st, absorbAll cfg.absorb cfg.init recs = .ok st ∧ cfg.finish st = .ok s.wst := by
  obtain ⟨r, hm⟩ := maximal_run_returned hN hr hstuck
  cases r with
  | some e => exact absurd hm (no_spurious_error hrf hf ha hfin hr e)
  | none => exact ⟨hm, (success_means_complete hN hr hm).2.2⟩

/-! ### executing schedules -/

theorem runWith_reach {cfg : Cfg α β ε σ} (sched : List Nat) {s : State α β ε σ} (hr : Reach cfg s) :
    Reach cfg (runWith (step? cfg) cfg.N s sched) := by
  induction sched generalizing s with
  | nil => exact hr
  | cons k ks ih =>
    simp only [runWith]
    split
    · exact hr
    · rename_i l _
      split
      · rename_i s' hs; exact ih (Reach.step l hr hs)
      · exact hr

theorem runSchedule_reach (cfg : Cfg α β ε σ) (sched : List Nat) : Reach cfg (runSchedule cfg sched) :=
  runWith_reach sched Reach.init

theorem runWith_returned {cfg : Cfg α β ε σ} (sched : List Nat) {s : State α β ε σ} {r : Option ε}
    (hm : s.main = .ret r) : runWith (step? cfg) cfg.N s sched = s := by
  cases sched with
  | nil => rfl
  | cons k ks =>
    have : enabledWith (step? cfg) cfg.N s = [] := by
      unfold enabledWith
      apply List.filter_eq_nil_iff.mpr
      intro l _
      simp [step?, State.final, hm, MPc.isRet]
    simp [runWith, this]

/-- every schedule of length at least μ(init) runs the pipeline to the point where main has returned -/
theorem runWith_returns {cfg : Cfg α β ε σ} (hN : 1 ≤ cfg.N) (sched : List Nat) {s : State α β ε σ}
    (hr : Reach cfg s) (hlen : μ cfg s ≤ sched.length) :
    ∃ r, (runWith (step? cfg) cfg.N s sched).main = .ret r := by
  induction sched generalizing s with
  | nil =>
    apply Classical.byContradiction
    intro hcon
    have hne := no_deadlock hN hr (fun r hm => hcon ⟨r, hm⟩)
    obtain ⟨l, _, hl⟩ := progress_of_enabled_ne_nil hne
    obtain ⟨s', hs'⟩ := Option.isSome_iff_exists.mp hl
    have := step_decreases hs'
    simp at hlen; omega
  | cons k ks ih =>
    by_cases hret : ∃ r, s.main = .ret r
    · obtain ⟨r, hm⟩ := hret
      rw [runWith_returned _ hm]; exact ⟨r, hm⟩
    · have hne := no_deadlock hN hr (fun r hm => hret ⟨r, hm⟩)
      have hpos : 0 < (enabled cfg s).length := List.length_pos_iff.mpr hne
      have hlt : k % (enabled cfg s).length < (enabled cfg s).length := Nat.mod_lt _ hpos
      have hget : (enabledWith (step? cfg) cfg.N s)[k % (enabledWith (step? cfg) cfg.N s).length]? =
          some ((enabled cfg s)[k % (enabled cfg s).length]) := List.getElem?_eq_getElem hlt
      have hmem : (enabled cfg s)[k % (enabled cfg s).length] ∈ enabled cfg s := List.getElem_mem hlt
      generalize (enabled cfg s)[k % (enabled cfg s).length] = l at hget hmem
      have hl : (step? cfg s l).isSome = true := by
        unfold enabled enabledWith at hmem
        exact (List.mem_filter.mp hmem).2
      obtain ⟨s', hs'⟩ := Option.isSome_iff_exists.mp hl
      have hdec := step_decreases hs'
      simp only [runWith, hget, hs']
      apply ih (Reach.step l hr hs')
      simp at hlen; omega

theorem runSchedule_returns {cfg : Cfg α β ε σ} (hN : 1 ≤ cfg.N) (sched : List Nat)
    (hlen : μ cfg (init cfg) ≤ sched.length) : ∃ r, (runSchedule cfg sched).main = .ret r :=
  runWith_returns hN sched Reach.init hlen

/-! ### T1b: the re-ordering writer emits the records in input order, whatever the schedule -/

theorem absorbAll_total {absorb : σ → Nat × β → Except ε σ} {g : σ → Nat × β → σ}
    (h : ∀ st r, absorb st r = .ok (g st r)) (st : σ) (l : List (Nat × β)) :
    absorbAll absorb st l = .ok (l.foldl g st) := by
  induction l generalizing st with
  | nil => rfl
  | cons r t ih => simp only [absorbAll, h, List.foldl_cons]; exact ih _

theorem rec?_of_good {cfg : Cfg α β ε σ} {r : Nat × β}
    (h : ∃ x, cfg.items[r.1]? = some x ∧ cfg.f x = .ok r.2) : rec? cfg r.1 = some r := by
  obtain ⟨x, hx, hf⟩ := h
  simp [rec?, hx, hf]

open Gofasta.Model in
theorem reorder_writer_in_order {cfg : Cfg α β ε (Reorder.St β)} {s : State α β ε (Reorder.St β)}
    (hN : 1 ≤ cfg.N)
    (habs : ∀ st r, cfg.absorb st r = .ok (Reorder.recv st r))
    (hfin : ∀ st, cfg.finish st = .ok st)
    (hinit : cfg.init = ⟨[], 0, []⟩)
    (hr : Reach cfg s) (hm : s.main = .ret none) :
    s.wst.out.map Except.ok = cfg.items.map cfg.f := by
  obtain ⟨_, hall, recs, hperm, hgood, st, hfold, hfin'⟩ := success_means_complete hN hr hm
  rw [absorbAll_total habs] at hfold
  injection hfold with hfold
  rw [hfin] at hfin'
  injection hfin' with hfin'
  rw [← hfin', ← hfold]
  rw [hinit]
  have hrun : (List.foldl Reorder.recv ⟨[], 0, []⟩ recs).out = Reorder.run recs := rfl
  rw [hrun]
  cases hrecs : recs with
  | nil =>
    rw [hrecs] at hperm
    have hl := hperm.length_eq
    simp at hl
    have : cfg.items = [] := List.eq_nil_of_length_eq_zero hl.symm
    rw [this]; rfl
  | cons r0 t =>
    rw [← hrecs]
    let g : Nat → β := fun i => match rec? cfg i with
      | some r => r.2
      | none => r0.2
    have hg : ∀ r ∈ recs, (r.1, g r.1) = r := by
      intro r hr
      simp only [g, rec?_of_good (hgood r hr)]
    have hmap : recs = (recs.map Prod.fst).map (fun i => (i, g i)) := by
      rw [List.map_map]
      have : ∀ r ∈ recs, ((fun i => (i, g i)) ∘ Prod.fst) r = id r := fun r hr => hg r hr
      rw [List.map_congr_left this, List.map_id]
    rw [hmap, Reorder.run_perm g cfg.items.length _ hperm]
    apply List.ext_getElem
    · simp
    · intro i h1 h2
      simp at h1
      obtain ⟨y, hy⟩ := hall cfg.items[i] (List.getElem_mem h1)
      have hrec : rec? cfg i = some (i, y) := by simp [rec?, List.getElem?_eq_getElem h1, hy]
      simp [g, hrec, hy]

/-- a writer whose loop body is total and commutative ends in the state of the in-order fold -/
theorem commutative_writer {cfg : Cfg α β ε σ} {s : State α β ε σ} (hN : 1 ≤ cfg.N)
    (g : σ → Nat × β → σ) (habs : ∀ st r, cfg.absorb st r = .ok (g st r))
    (hfin : ∀ st, cfg.finish st = .ok st)
    (hcomm : ∀ st a b, g (g st a) b = g (g st b) a)
    (hr : Reach cfg s) (hm : s.main = .ret none) :
    s.wst = ((List.range cfg.items.length).filterMap (rec? cfg)).foldl g cfg.init := by
  obtain ⟨_, _, recs, hperm, hgood, st, hfold, hfin'⟩ := success_means_complete hN hr hm
  rw [absorbAll_total habs] at hfold
  injection hfold with hfold
  rw [hfin] at hfin'
  injection hfin' with hfin'
  rw [← hfin', ← hfold]
  rw [recs_eq_filterMap hgood]
  exact List.Perm.foldl_eq' (hperm.filterMap _) (fun x _ y _ z => hcomm z x y) _

theorem foldl_count {τ : Type} (l : List τ) (c : Nat) : List.foldl (fun st _ => st + 1) c l = c + l.length := by
  induction l generalizing c with
  | nil => simp
  | cons r t ih => simp only [List.foldl_cons, List.length_cons, ih]; omega

/-- the counting writer: the count is the number of items, whatever the schedule -/
theorem counting_writer {cfg : Cfg α β ε Nat} {s : State α β ε Nat} (hN : 1 ≤ cfg.N)
    (habs : ∀ st r, cfg.absorb st r = .ok (st + 1)) (hfin : ∀ st, cfg.finish st = .ok st)
    (hinit : cfg.init = 0)
    (hr : Reach cfg s) (hm : s.main = .ret none) : s.wst = cfg.items.length := by
  obtain ⟨_, _, recs, hperm, _, st, hfold, hfin'⟩ := success_means_complete hN hr hm
  rw [absorbAll_total (g := fun st _ => st + 1) habs] at hfold
  injection hfold with hfold
  rw [hfin] at hfin'
  injection hfin' with hfin'
  rw [← hfin', ← hfold]
  have hl := hperm.length_eq
  simp at hl
  rw [hinit, foldl_count, ← hl]; simp

/-! ### the statements are not vacuous: wrong variants of the Go code fail, concretely -/

namespace Demo
open Gofasta.Model

/-- items are numbers, f adds one and rejects 99 with error 7, the writer appends what arrives -/
def demo (items : List Nat) (N capIn capOut : Nat) : Cfg Nat Nat Nat (List (Nat × Nat)) where
  items := items
  f := fun x => if x = 99 then .error 7 else .ok (x + 1)
  N := N
  capIn := capIn
  capOut := capOut
  readFail := none
  absorb := fun st r => .ok (st ++ [r])
  finish := fun st => .ok st
  init := []

/-- (a) stage 1 closes cOut instead of cIn: a worker sends on the closed channel (Go panics).
    Schedule: readerSend, workerRecv 0, mainReadDone, workerSend 0. -/
theorem variantA_send_on_closed :
    (runLabels (stepA (demo [10] 1 1 1)) (init (demo [10] 1 1 1))
      [.readerSend, .workerRecv 0, .mainReadDone, .workerSend 0]).map (·.panicked) = some true := by
  decide

theorem variantA_send_on_closed' :
    (runWith (stepA (demo [10] 1 1 1)) 1 (init (demo [10] 1 1 1)) [0, 1, 0, 1]).panicked = true := by
  decide

/-- (a) another schedule: the record gets through, but cIn is never closed, so the worker never
    leaves its loop and main waits for cWgDone for ever -/
theorem variantA_deadlock :
    (runLabels (stepA (demo [10] 1 1 1)) (init (demo [10] 1 1 1))
      [.readerSend, .workerRecv 0, .workerSend 0, .mainReadDone, .writerRecv, .writerClosed]).map
      (fun s => (enabledWith (stepA (demo [10] 1 1 1)) 1 s, s.main, s.panicked)) =
      some ([], .stage2, false) := by
  decide

/-- (b) no cErr arm in the stage-2 select: a worker error arriving after cReadDone is never received.
    Schedule: readerSend, workerRecv 0 (f fails), mainReadDone; now nothing is enabled. -/
theorem variantB_deadlock :
    (runLabels (stepB (demo [99] 1 1 1)) (init (demo [99] 1 1 1))
      [.readerSend, .workerRecv 0, .mainReadDone]).map
      (fun s => (enabledWith (stepB (demo [99] 1 1 1)) 1 s, s.main, s.workers)) =
      some ([], .stage2, [.errS 0 7]) := by
  decide

theorem variantB_deadlock' :
    enabledWith (stepB (demo [99] 1 1 1)) 1
      (runWith (stepB (demo [99] 1 1 1)) 1 (init (demo [99] 1 1 1)) [0, 1, 0]) = [] ∧
    (runWith (stepB (demo [99] 1 1 1)) 1 (init (demo [99] 1 1 1)) [0, 1, 0]).main = .stage2 := by
  decide

/-- the faithful model on the same input and schedule prefix: main returns the error -/
theorem faithful_reports :
    (runSchedule (demo [99] 1 1 1) (List.replicate 27 0)).main = .ret (some 7) := by
  decide

/-- (c) the worker swallows its error: main returns nil and record 1 is missing -/
theorem variantC_loses_record :
    (runWith (stepC (demo [10, 99, 30] 1 1 1)) 1 (init (demo [10, 99, 30] 1 1 1)) (List.replicate 16 0)).main
      = .ret none ∧
    (runWith (stepC (demo [10, 99, 30] 1 1 1)) 1 (init (demo [10, 99, 30] 1 1 1)) (List.replicate 16 0)).wst
      = [(0, 11), (2, 31)] := by
  decide

/-- the hypothesis 1 ≤ N of T1 is needed: with no workers and a buffered cIn the record stays in
    the buffer and main returns nil -/
theorem zero_workers_lose_record :
    (runLabels (step? (demo [10] 0 1 1)) (init (demo [10] 0 1 1))
      [.readerSend, .mainReadDone, .wait, .mainWgDone, .writerClosed, .mainWriteDone]).map
      (fun s => (s.main, s.wst, s.cIn.queue)) = some (.ret none, [], [(0, 10)]) := by
  decide

/-- the hypothesis 1 ≤ N of T2 is needed: with no workers the reader blocks for ever on an
    unbuffered cIn (wg.Wait() returns at once, but main is still in stage 1) -/
theorem zero_workers_deadlock :
    (runLabels (step? (demo [10] 0 0 1)) (init (demo [10] 0 0 1)) [.wait]).map
      (fun s => (enabled (demo [10] 0 0 1) s, s.main)) = some ([], .stage1) := by
  decide

/-- three items, two workers, capOut 2, the re-ordering writer -/
def rdemo : Cfg Nat Nat Nat (Reorder.St Nat) where
  items := [10, 20, 30]
  f := fun x => .ok (x + 1)
  N := 2
  capIn := 1
  capOut := 2
  readFail := none
  absorb := fun st r => .ok (Reorder.recv st r)
  finish := fun st => .ok st
  init := ⟨[], 0, []⟩

/-- two schedules, two arrival orders at the writer, one output -/
example :
    (runSchedule rdemo (List.replicate 19 0)).arrival = [(0, 11), (1, 21), (2, 31)] ∧
    (runSchedule rdemo [0, 0, 0, 1, 2, 2, 0, 3, 1, 1, 0, 1, 0, 0, 0, 0, 0, 0, 0]).arrival
      = [(1, 21), (0, 11), (2, 31)] ∧
    (runSchedule rdemo (List.replicate 19 0)).wst.out = [11, 21, 31] ∧
    (runSchedule rdemo [0, 0, 0, 1, 2, 2, 0, 3, 1, 1, 0, 1, 0, 0, 0, 0, 0, 0, 0]).wst.out = [11, 21, 31] ∧
    (runSchedule rdemo (List.replicate 19 0)).main = .ret none ∧
    (runSchedule rdemo [0, 0, 0, 1, 2, 2, 0, 3, 1, 1, 0, 1, 0, 0, 0, 0, 0, 0, 0]).main = .ret none := by
  decide

/-- and the general theorem says the same about every schedule of rdemo -/
example (sched : List Nat) (h : (runSchedule rdemo sched).main = .ret none) :
    (runSchedule rdemo sched).wst.out = [11, 21, 31] := by
  have := reorder_writer_in_order (cfg := rdemo) (by decide) (fun _ _ => rfl) (fun _ => rfl) rfl
    (runSchedule_reach rdemo sched) h
  have h2 : (runSchedule rdemo sched).wst.out.map (Except.ok (ε := Nat)) = [11, 21, 31].map Except.ok := this
  exact (List.map_inj_right (fun a b h => Except.ok.inj h)).mp h2

end Demo

end Gofasta.Lemmas.Sched
