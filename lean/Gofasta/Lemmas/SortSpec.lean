import Gofasta.Lemmas.TopK
/-
The stable sort of the models (`sortStable`, used wherever the Go code calls sort.SliceStable) is THE stable
sort: a permutation of its input, sorted, keeping tied elements in input order — and the only such list.
-/
namespace Gofasta.Model
variable {α : Type} {lt : α → α → Bool}

/-- neither is before the other -/
def tied (lt : α → α → Bool) (a b : α) : Bool := !lt a b && !lt b a

theorem tied_iff (a b : α) : tied lt a b = true ↔ lt a b = false ∧ lt b a = false := by
  simp [tied]

theorem tied_trans (hS : SWO lt) {a b c : α} (hab : tied lt a b = true) (hbc : tied lt b c = true) : tied lt a c = true := by
  rw [tied_iff] at *
  constructor
  · cases h : lt a c with
    | false => rfl
    | true => rcases hS.negtrans a c b h with h1 | h1 <;> simp_all
  · cases h : lt c a with
    | false => rfl
    | true => rcases hS.negtrans c a b h with h1 | h1 <;> simp_all

theorem tied_symm {a b : α} (h : tied lt a b = true) : tied lt b a = true := by
  rw [tied_iff] at *; exact ⟨h.2, h.1⟩

theorem insSorted_perm (x : α) (l : List α) : (insSorted lt x l).Perm (x :: l) := by
  induction l with
  | nil => exact List.Perm.refl _
  | cons y t ih =>
    simp only [insSorted]
    split
    · exact List.Perm.refl _
    · exact ((List.Perm.cons y ih).trans (List.Perm.swap x y t))

/-- a permutation of its input -/
theorem sortStable_perm (l : List α) : (sortStable lt l).Perm l := by
  induction l using rev_ind with
  | nil => exact List.Perm.refl _
  | snoc l x ih =>
    rw [sortStable_append_singleton]
    exact (insSorted_perm x _).trans ((List.Perm.cons x ih).trans (List.perm_append_singleton x l).symm)

/-- everything after a smaller head is smaller too -/
theorem lt_of_sorted_cons (hS : SWO lt) {x y : α} {t : List α} (hs : Sorted lt (y :: t)) (hxy : lt x y = true) :
    ∀ z ∈ y :: t, lt x z = true := by
  intro z hz
  rcases List.mem_cons.1 hz with rfl | hz
  · exact hxy
  · have hzy : lt z y = false := (List.pairwise_cons.1 hs).1 z hz
    rcases hS.negtrans x y z hxy with h | h
    · exact h
    · rw [hzy] at h; cases h

theorem insSorted_filter_tied (hS : SWO lt) (x z : α) : ∀ (l : List α), Sorted lt l →
    (insSorted lt x l).filter (tied lt z) = (l ++ [x]).filter (tied lt z) := by
  intro l
  induction l with
  | nil => intro _; rfl
  | cons y t ih =>
    intro hs
    simp only [insSorted]
    split
    · rename_i hxy
      by_cases hzx : tied lt z x = true
      · have hnone : (y :: t).filter (tied lt z) = [] := by
          rw [List.filter_eq_nil_iff]
          intro w hw hzw
          have hxw := lt_of_sorted_cons hS hs hxy w hw
          have := tied_trans hS (tied_symm hzx) hzw
          rw [tied_iff] at this
          rw [this.1] at hxw; cases hxw
        rw [List.filter_cons, if_pos hzx, hnone, List.filter_append, hnone]
        simp [List.filter_cons, hzx]
      · rw [List.filter_cons, if_neg hzx, List.filter_append]
        simp [List.filter_cons, hzx]
    · have hst : Sorted lt t := (List.pairwise_cons.1 hs).2
      simp only [List.cons_append, List.filter_cons]
      rw [ih hst]

/-- **stability** — elements that the order does not separate keep their input order -/
theorem sortStable_stable (hS : SWO lt) (z : α) (l : List α) : (sortStable lt l).filter (tied lt z) = l.filter (tied lt z) := by
  induction l using rev_ind with
  | nil => rfl
  | snoc l x ih =>
    rw [sortStable_append_singleton, insSorted_filter_tied hS x z _ (sorted_sortStable hS l)]
    rw [List.filter_append, ih, List.filter_append]

/-- **uniqueness** — two sorted permutations of each other that agree on the order inside every class of tied
elements are the same list -/
theorem sorted_stable_unique (hS : SWO lt) : ∀ (l1 l2 : List α), l1.Perm l2 → Sorted lt l1 → Sorted lt l2 →
    (∀ z, l1.filter (tied lt z) = l2.filter (tied lt z)) → l1 = l2 := by
  intro l1
  induction l1 with
  | nil => intro l2 hp _ _ _; exact (List.Perm.nil_eq hp)
  | cons a t1 ih =>
    intro l2 hp hs1 hs2 hf
    cases l2 with
    | nil => exact absurd hp.symm (by intro h; have := List.Perm.nil_eq h; cases this)
    | cons b t2 =>
      have hab : lt a b = false := by
        have : a ∈ b :: t2 := hp.mem_iff.1 (List.mem_cons_self)
        rcases List.mem_cons.1 this with rfl | h
        · cases hh : lt a a with
          | false => rfl
          | true => have := hS.asymm _ _ hh; rw [hh] at this; cases this
        · exact (List.pairwise_cons.1 hs2).1 a h
      have hba : lt b a = false := by
        have : b ∈ a :: t1 := hp.mem_iff.2 (List.mem_cons_self)
        rcases List.mem_cons.1 this with rfl | h
        · cases hh : lt b b with
          | false => rfl
          | true => have := hS.asymm _ _ hh; rw [hh] at this; cases this
        · exact (List.pairwise_cons.1 hs1).1 b h
      have haa : tied lt a a = true := by
        rw [tied_iff]
        have : lt a a = false := by
          cases hh : lt a a with
          | false => rfl
          | true => have := hS.asymm _ _ hh; rw [hh] at this; cases this
        exact ⟨this, this⟩
      have htab : tied lt a b = true := (tied_iff a b).2 ⟨hab, hba⟩
      have hfa := hf a
      rw [List.filter_cons, if_pos haa, List.filter_cons, if_pos htab] at hfa
      have heq : a = b := (List.cons.inj hfa).1
      subst heq
      congr 1
      apply ih t2 (List.Perm.cons_inv hp) (List.pairwise_cons.1 hs1).2 (List.pairwise_cons.1 hs2).2
      intro z
      have := hf z
      simp only [List.filter_cons] at this
      split at this
      · exact (List.cons.inj this).2
      · exact this

/-- **the stable sort, characterised** — `sortStable lt l` is the one list that is a permutation of `l`, sorted
by `lt`, and keeps tied elements in input order -/
theorem sortStable_unique (hS : SWO lt) (l l' : List α) (hp : l'.Perm l) (hs : Sorted lt l')
    (hst : ∀ z, l'.filter (tied lt z) = l.filter (tied lt z)) : l' = sortStable lt l := by
  apply sorted_stable_unique hS l' (sortStable lt l) (hp.trans (sortStable_perm l).symm) hs (sorted_sortStable hS l)
  intro z
  rw [hst z, sortStable_stable hS z l]

end Gofasta.Model
