import Gofasta.Lemmas.SchedFaults
/-
C19 ("a failed output write is never reported as success") at the level of the goroutines, for what the closing
remark of Lemmas/SchedFaults leaves open:

  (A) the AGGREGATING writers (`snps --aggregate`, `variants --aggregate`): the loop body only counts, ALL write calls
      are made after the loop, in `finish`: the header, then one call per row of the sorted table;
  (B) the header write AT ONCE: the writer goroutine writes the header before its receive loop and, when that call
      fails, sits at `cErr <- err` before it has received anything (SchedFaults: reported at the first record).

Modelling decisions
  * `Dest`, `Sink`, `Sink.put`, `Sink.putAll`, `SinkInv` are those of SchedFaults (not redefined).
  * the writer `AW κ` = an accumulator `acc : κ` (the counting map and the record counter) + the sink.
    `AW.absorb accum` never touches the sink.  `AW.finish d pre rows e` makes the calls `pre ++ rows acc`, in order,
    every one checked, and returns `.error e` exactly when one of them failed.  The calls made BEFORE the loop are
    `hs` (`AW.start d hs acc0`).  (A) is `hs = []`, `pre = [header]`; the aggregating writer that writes its header
    before the loop is `hs = [header]`, `pre = []`.  The call sequence of a run is `hs ++ pre ++ rows acc`,
    W = its length = 1 + the number of rows in both cases.
  * the rows may depend on the order of arrival (the counting map is an association list in first-seen order);
    `RowsAre items F acc0 accum rows R` says that every complete arrival order gives the rows R.  It is proved for
    snps (no hypothesis) and for variants (hypothesis `Separated`, as in SchedCommands) from the order theorems of
    AggOrder and AggVariants.
  * (B) `Model.Sched.init` has the writer at the head of its loop, and `Model.Sched.Reach` starts there: `Reach` itself
    cannot express a writer that fails before its loop.  The step function `step?` and the program counter
    `OPc.errS e` can: `ReachFrom cfg s0` is `Reach` with the start state a parameter (same `step?`, Model untouched) and
    `hdrStart cfg e failed` is `init cfg`, with the writer at `cErr <- err` when the header call failed.  The
    invariant `Inv` of SchedProofs holds there (`inv_errStart`), so every theorem of SchedProofs that is stated for
    `Inv` carries over.

Contents
  0.  `AW`, `AW.absorb`, `AW.finish`, `AW.start`, `CompleteFor`, `RowsAre`, pure cores `aw_fault_hit`, `aw_success_text`
  1.  one pool, `Reach`: `IsAW`, `agg_fault_reported'`, `agg_fault_reported`, `agg_fault_maximal_run`,
      `agg_fault_beyond_run_harmless`, `agg_no_write_error`, `agg_fault_beyond_run_no_error`,
      `agg_fault_beyond_run_maximal`, `agg_fault_maximal_run_write_error`, `aggAccepted`, `agg_sink_untouched`,
      `agg_finished_complete`, `aggAccepted_eq_wst`, `aggAccepted_failing`, `agg_written_is_prefix`,
      `agg_nothing_before_all_arrived`
  2.  (B): `ReachFrom`, `errStart`, `hdrStart`, `inv_errStart`, `frozen`; for the streaming writer `FW` of SchedFaults
      `hdr_fault_reported`, `hdr_fault_beyond_run_harmless`, `hdr_written_is_prefix`, `header_fault_immediate`,
      `hdr_fault_maximal_run`, `hdr_fault_maximal_run_write_error`; for the aggregating writer `agg_hdr_*`
  3.  any number of pools (Model/SchedChain): `chain_drained_closed`, `chain_writer_leaves_recv`,
      `chain_reach_finished_complete`, `IsAWc`, `chain_agg_*` (all of 1.)
  4.  C  snps --aggregate (`snps_rowsAre`, `snps_agg_*`), A (B) snps with the header first (`snps_hdr_*`,
      `snps_header_fault_immediate`), E' variants --aggregate (`var_rowsAre`, `variants_agg_*`),
      F' sam variants --aggregate, two pools (`samVar_rowsAre`, `sam_variants_agg_*`)
  namespace `Examples`: a fault at the header call, at a middle row, at the last row, no fault, two schedules each;
      partial runs with an empty sink; runs from the header-first start (by decide)
-/
set_option autoImplicit false

namespace Gofasta.Lemmas.SchedFaultsAgg
open Gofasta Gofasta.Model
open Gofasta.Model.Sched (absorbAll)
open Gofasta.Lemmas.SchedCommands
open Gofasta.Lemmas.SchedFaults

variable {α β ε κ : Type}

/-! ## 0. the aggregating writer -/

/-- state of an aggregating writer goroutine (snps.aggregateWriteOutput, the aggregating writer of variants): what the
loop has accumulated, and the sink -/
structure AW (κ : Type) where
  acc : κ
  sink : Sink

/-- the loop body: accumulate. The destination is not touched, nothing can fail -/
def AW.absorb (accum : κ → Nat × β → κ) (st : AW κ) (r : Nat × β) : Except ε (AW κ) :=
  .ok ⟨accum st.acc r, st.sink⟩

/-- after the loop: the calls `pre` (the header, when it is written here), then one call per row, every call checked -/
def AW.finish (d : Dest) (pre : List String) (rows : κ → List String) (e : ε) (st : AW κ) : Except ε (AW κ) :=
  if (Sink.putAll d st.sink (pre ++ rows st.acc)).failed then .error e
  else .ok ⟨st.acc, Sink.putAll d st.sink (pre ++ rows st.acc)⟩

/-- before the loop: the calls `hs` (nothing, or the header) -/
def AW.start (d : Dest) (hs : List String) (acc0 : κ) : AW κ := ⟨acc0, Sink.putAll d Sink.empty hs⟩

/-- the write calls of a run that ends with the accumulator acc -/
def aggCalls (hs pre : List String) (R : List String) : List String := hs ++ pre ++ R

/-- W: the number of write calls of the fault-free run -/
def aggW (hs pre : List String) (R : List String) : Nat := hs.length + pre.length + R.length

theorem aggCalls_length (hs pre R : List String) : (aggCalls hs pre R).length = aggW hs pre R := by
  simp [aggCalls, aggW]; omega

/-- `recs` is an arrival sequence of a complete run: every index once, every record what F makes of its item -/
def CompleteFor (items : List α) (F : α → Except ε β) (recs : List (Nat × β)) : Prop :=
  (recs.map Prod.fst).Perm (List.range items.length) ∧ ∀ r ∈ recs, ∃ x, items[r.1]? = some x ∧ F x = .ok r.2

/-- whatever the order of arrival of a complete run, the rows printed are R -/
def RowsAre (items : List α) (F : α → Except ε β) (acc0 : κ) (accum : κ → Nat × β → κ) (rows : κ → List String)
    (R : List String) : Prop :=
  ∀ recs, CompleteFor items F recs → rows (recs.foldl accum acc0) = R

theorem aw_foldl (accum : κ → Nat × β → κ) : ∀ (recs : List (Nat × β)) (st : AW κ),
    recs.foldl (fun st r => (⟨accum st.acc r, st.sink⟩ : AW κ)) st = ⟨recs.foldl accum st.acc, st.sink⟩ := by
  intro recs
  induction recs with
  | nil => intro st; rfl
  | cons r t ih => intro st; simp only [List.foldl_cons, ih]

/-- the loop never fails and leaves the sink as it found it -/
theorem absorbAll_aw {absorb : AW κ → Nat × β → Except ε (AW κ)} {accum : κ → Nat × β → κ}
    (habs : ∀ st r, absorb st r = AW.absorb accum st r) (recs : List (Nat × β)) (st : AW κ) :
    absorbAll absorb st recs = .ok ⟨recs.foldl accum st.acc, st.sink⟩ := by
  rw [Gofasta.Lemmas.Sched.absorbAll_total (g := fun st r => (⟨accum st.acc r, st.sink⟩ : AW κ))
    (fun st r => by rw [habs]; rfl), aw_foldl]

theorem putAll_start (d : Dest) (hs pre R : List String) :
    Sink.putAll d (Sink.putAll d Sink.empty hs) (pre ++ R) = Sink.putAll d Sink.empty (aggCalls hs pre R) := by
  rw [aggCalls, List.append_assoc, Sink.putAll_append d Sink.empty hs]

/-- **the pure core of (1)**: the k-th call of the run is made in `finish`, before the writer can report success -/
theorem aw_fault_hit {d : Dest} {hs pre : List String} {rows : κ → List String} {e : ε} {acc : κ}
    (k : Nat) (hk1 : 1 ≤ k) (hd : d.fails k = true) (hkW : k ≤ aggW hs pre (rows acc)) (st' : AW κ) :
    AW.finish d pre rows e ⟨acc, Sink.putAll d Sink.empty hs⟩ ≠ .ok st' := by
  have hfail : (Sink.putAll d (Sink.putAll d Sink.empty hs) (pre ++ rows acc)).failed = true := by
    rw [putAll_start]
    exact sink_fails d _ k hk1 (by rw [aggCalls_length]; exact hkW) hd
  simp [AW.finish, hfail]

/-- **the pure core of (2)**: a `finish` that did not report has seen every call of the run succeed -/
theorem aw_success_text {d : Dest} {hs pre : List String} {rows : κ → List String} {e : ε} {acc : κ} {st' : AW κ}
    (hfin : AW.finish d pre rows e ⟨acc, Sink.putAll d Sink.empty hs⟩ = .ok st') :
    st'.acc = acc ∧ st'.sink = Sink.putAll d Sink.empty (aggCalls hs pre (rows acc)) ∧
      st'.sink.text = String.join (aggCalls hs pre (rows acc)) ∧ st'.sink.failed = false ∧
      st'.sink.calls = aggW hs pre (rows acc) ∧ ∀ i, 1 ≤ i → i ≤ aggW hs pre (rows acc) → d.fails i = false := by
  unfold AW.finish at hfin
  by_cases hf : (Sink.putAll d (Sink.putAll d Sink.empty hs) (pre ++ rows acc)).failed = true
  · simp [hf] at hfin
  · have hf' : (Sink.putAll d (Sink.putAll d Sink.empty hs) (pre ++ rows acc)).failed = false := by
      cases h : (Sink.putAll d (Sink.putAll d Sink.empty hs) (pre ++ rows acc)).failed <;> simp_all
    simp only [hf', Bool.false_eq_true, if_false] at hfin
    injection hfin with hfin
    subst hfin
    have hinv := sinkInv_all d (aggCalls hs pre (rows acc))
    rw [← putAll_start] at hinv
    obtain ⟨h1, h2, h3⟩ := hinv.good hf'
    rw [aggCalls_length] at h2 h3
    exact ⟨rfl, putAll_start d hs pre (rows acc), h1, hf', h2, h3⟩

/-- the only error the writer sends on cErr is e, and it comes from `finish` -/
theorem aw_error_is_e {d : Dest} {pre : List String} {rows : κ → List String} {e e' : ε} {st : AW κ}
    (h : AW.finish d pre rows e st = .error e') : e' = e ∧ (Sink.putAll d st.sink (pre ++ rows st.acc)).failed = true := by
  unfold AW.finish at h
  split at h
  · rename_i hf; injection h with h; exact ⟨h.symm, hf⟩
  · cases h

/-! ## 1. one worker pool (Model/Sched) -/

section frames
open Gofasta.Model.Sched Gofasta.Lemmas.Sched
variable {σ : Type}

/-- a closed and empty cOut: everything upstream has shut down and every record has arrived (the argument of
`Lemmas.Sched.drained`, which starts from a writer that has exited) -/
theorem drained_closed {cfg : Cfg α β ε σ} {s : State α β ε σ} (hN : 1 ≤ cfg.N) (h : Inv cfg s)
    (hc : s.cOut.closed = true) (hq : s.cOut.queue = []) :
    cfg.readFail = none ∧ (s.arrival.map Prod.fst).Perm (List.range cfg.items.length) := by
  have htw : s.waiter = .exited := h.tClosed.mpr hc
  have hall := h.tWait (by rw [htw]; intro e; cases e)
  have h0 : 0 < s.workers.length := by rw [h.wlen]; exact hN
  have hex : WPc.exited ∈ s.workers := by
    have hm : s.workers[0] ∈ s.workers := List.getElem_mem h0
    rw [hall _ hm] at hm; exact hm
  obtain ⟨hic, hiq⟩ := h.wExit hex
  have hrd : s.reader = .exited := h.rClosed.mpr hic
  have hrf := h.rExit hrd
  refine ⟨hrf, ?_⟩
  have := h.cons
  simpa [places, hiq, hq, held_all_exited hall, hrd, rpos, nSend_none hrf] using this

/-- the step on which the writer leaves the head of its loop: `range cOut` ended on a closed and empty channel
(then `finish` ran), or the loop body failed -/
theorem writer_leaves_recv {cfg : Cfg α β ε σ} {s s' : State α β ε σ} {l : Label} (hs : step? cfg s l = some s')
    (hw : s.writer = .recv) (hw' : s'.writer ≠ .recv) :
    (s.cOut.closed = true ∧ s.cOut.queue = [] ∧ s'.arrival = s.arrival) ∨ (∃ r e, cfg.absorb s.wst r = .error e) := by
  unfold step? at hs
  split at hs
  · cases hs
  · cases l <;> simp only [] at hs
    case writerRecv =>
      unfold stepWriterRecv at hs
      split at hs
      · rename_i r rest hwr hq
        unfold absorbInto at hs
        split at hs
        · cases hs; exact absurd hw hw'
        · rename_i e hab; exact Or.inr ⟨r, e, hab⟩
      · cases hs
    case handOut w =>
      unfold stepHandOut at hs
      split at hs
      · rename_i i y hwk hwr hc hcap
        unfold absorbInto at hs
        split at hs
        · cases hs; exact absurd hw hw'
        · rename_i e hab; exact Or.inr ⟨(i, y), e, hab⟩
      · cases hs
    case writerClosed =>
      unfold stepWriterClosed at hs
      split at hs
      · rename_i hwr hc hq
        left
        split at hs <;> (cases hs; exact ⟨hc, hq, rfl⟩)
      · cases hs
    case mainWriteDone =>
      unfold stepMainWriteDone at hs
      split at hs
      · rename_i hm hwd; rw [hw] at hwd; cases hwd
      · cases hs
    all_goals
      simp only [stepReaderSend, stepWorkerRecv, stepHandIn, stepWorkerClosed, stepWorkerSend, stepWait,
        stepMainErrReader, stepMainErrWorker, stepMainErrWriter, stepMainReadDone, stepMainWgDone] at hs
      repeat' split at hs
      all_goals first | (cases hs; exact absurd hw hw') | cases hs

/-- **a writer whose loop body cannot fail is past its loop only when every record has arrived**: `finish` runs after
the last record, on every schedule -/
theorem reach_finished_complete {cfg : Cfg α β ε σ} {s : State α β ε σ} (hN : 1 ≤ cfg.N)
    (hok : ∀ st r e, cfg.absorb st r ≠ .error e) (hr : Reach cfg s) (hw : s.writer ≠ .recv) :
    cfg.readFail = none ∧ (s.arrival.map Prod.fst).Perm (List.range cfg.items.length) := by
  induction hr with
  | init => exact absurd rfl hw
  | step l hr hs ih =>
    rename_i s0 s1
    by_cases hws : s0.writer = .recv
    · rcases writer_leaves_recv hs hws hw with ⟨hc, hq, ha⟩ | ⟨r, e, hab⟩
      · rw [ha]; exact drained_closed hN (reach_inv hr) hc hq
      · exact absurd hab (hok _ _ _)
    · rcases writer_frame hs with ⟨_, _, h3⟩ | ⟨hw0, _⟩ | ⟨hw0, _⟩ | ⟨_, _, _, h3⟩
      · rw [h3]; exact ih hws
      · exact absurd hw0 hws
      · exact absurd hw0 hws
      · rw [h3]; exact ih hws

end frames

section onePool
open Gofasta.Model.Sched Gofasta.Lemmas.Sched

/-- the configuration's writer is the aggregating writer: destination d, the calls `hs` before the loop, a loop that
only accumulates (from acc0, with accum), after the loop the calls `pre` and one call per row, the error e sent on
cErr when a call fails -/
structure IsAW (cfg : Cfg α β ε (AW κ)) (d : Dest) (hs pre : List String) (acc0 : κ) (accum : κ → Nat × β → κ)
    (rows : κ → List String) (e : ε) : Prop where
  habs : ∀ st r, cfg.absorb st r = AW.absorb accum st r
  hfin : ∀ st, cfg.finish st = AW.finish d pre rows e st
  hinit : cfg.init = AW.start d hs acc0

variable {cfg : Cfg α β ε (AW κ)} {s : State α β ε (AW κ)} {d : Dest} {hs pre : List String} {acc0 : κ}
  {accum : κ → Nat × β → κ} {rows : κ → List String} {e : ε} {R : List String}

theorem aw_abs_ok (h : IsAW cfg d hs pre acc0 accum rows e) : ∀ st r e', cfg.absorb st r ≠ .error e' := by
  intro st r e' hab
  rw [h.habs] at hab
  cases hab

/-- the loop of the configuration on any arrival sequence -/
theorem aw_fold (h : IsAW cfg d hs pre acc0 accum rows e) (recs : List (Nat × β)) :
    absorbAll cfg.absorb cfg.init recs = .ok ⟨recs.foldl accum acc0, Sink.putAll d Sink.empty hs⟩ := by
  rw [h.hinit, absorbAll_aw h.habs]
  rfl

theorem aw_hfail (h : IsAW cfg d hs pre acc0 accum rows e) (k : Nat) (hk1 : 1 ≤ k) (hd : d.fails k = true)
    (hkW : ∀ recs, CompleteFor cfg.items cfg.f recs → k ≤ aggW hs pre (rows (recs.foldl accum acc0))) :
    ∀ recs : List (Nat × β), (recs.map Prod.fst).Perm (List.range cfg.items.length) →
      (∀ r ∈ recs, ∃ x, cfg.items[r.1]? = some x ∧ cfg.f x = .ok r.2) →
      ∀ st st', absorbAll cfg.absorb cfg.init recs = .ok st → cfg.finish st ≠ .ok st' := by
  intro recs hperm hgood st st' hfold
  rw [aw_fold h] at hfold
  injection hfold with hfold
  rw [h.hfin, ← hfold]
  exact aw_fault_hit k hk1 hd (hkW recs ⟨hperm, hgood⟩) st'

/-- **(1) agg_fault_reported, general form** (the rows may depend on the order of arrival): the destination fails a
call k that every complete run makes: on no schedule does main return nil -/
theorem agg_fault_reported' (h : IsAW cfg d hs pre acc0 accum rows e) (hN : 1 ≤ cfg.N) (k : Nat) (hk1 : 1 ≤ k)
    (hd : d.fails k = true)
    (hkW : ∀ recs, CompleteFor cfg.items cfg.f recs → k ≤ aggW hs pre (rows (recs.foldl accum acc0)))
    (hr : Reach cfg s) : s.main ≠ .ret none :=
  error_reported hN (Or.inr (Or.inr (aw_hfail h k hk1 hd hkW))) hr

theorem hkW_of_rows (hR : RowsAre cfg.items cfg.f acc0 accum rows R) {k : Nat} (hkW : k ≤ aggW hs pre R) :
    ∀ recs, CompleteFor cfg.items cfg.f recs → k ≤ aggW hs pre (rows (recs.foldl accum acc0)) := by
  intro recs hc
  rw [hR recs hc]; exact hkW

/-- **(1) agg_fault_reported**: any N ≥ 1, any capacities, any reader failure; `failFrom k` or `failOnce k` with
1 ≤ k ≤ W (W = the header call and one call per row of the table R): no reachable state has main = ret none -/
theorem agg_fault_reported (h : IsAW cfg d hs pre acc0 accum rows e) (hN : 1 ≤ cfg.N)
    (hR : RowsAre cfg.items cfg.f acc0 accum rows R) (k : Nat) (hd : d = .failFrom k ∨ d = .failOnce k) (hk1 : 1 ≤ k)
    (hkW : k ≤ aggW hs pre R) (hr : Reach cfg s) : s.main ≠ .ret none :=
  agg_fault_reported' h hN k hk1 (Dest.fails_of_at hd) (hkW_of_rows hR hkW) hr

/-- **(1) whole runs**: every run that cannot be extended has returned an error -/
theorem agg_fault_maximal_run (h : IsAW cfg d hs pre acc0 accum rows e) (hN : 1 ≤ cfg.N)
    (hR : RowsAre cfg.items cfg.f acc0 accum rows R) (k : Nat) (hd : d = .failFrom k ∨ d = .failOnce k) (hk1 : 1 ≤ k)
    (hkW : k ≤ aggW hs pre R) (hr : Reach cfg s) (hstuck : enabled cfg s = []) :
    ∃ e', s.main = .ret (some e') ∧ ErrSource cfg e' :=
  maximal_run_error hN (Or.inr (Or.inr (aw_hfail h k hk1 (Dest.fails_of_at hd) (hkW_of_rows hR hkW)))) hr hstuck

/-- (1) executed schedules: every schedule of at least μ(init) numbers ends with main returning an error -/
theorem agg_fault_runSchedule (h : IsAW cfg d hs pre acc0 accum rows e) (hN : 1 ≤ cfg.N)
    (hR : RowsAre cfg.items cfg.f acc0 accum rows R) (k : Nat) (hd : d = .failFrom k ∨ d = .failOnce k) (hk1 : 1 ≤ k)
    (hkW : k ≤ aggW hs pre R) (sched : List Nat) (hlen : μ cfg (init cfg) ≤ sched.length) :
    ∃ e', (runSchedule cfg sched).main = .ret (some e') := by
  obtain ⟨r, hret⟩ := runSchedule_returns hN sched hlen
  cases r with
  | none => exact absurd hret (agg_fault_reported h hN hR k hd hk1 hkW (runSchedule_reach cfg sched))
  | some e' => exact ⟨e', hret⟩

/-- **(2), general form**: whatever the destination, a reachable state in which main has returned nil has seen a
complete arrival sequence, and every call of the run - `hs`, `pre`, one per row of the table of that sequence - has
succeeded -/
theorem agg_fault_beyond_run_harmless' (h : IsAW cfg d hs pre acc0 accum rows e) (hN : 1 ≤ cfg.N)
    (hr : Reach cfg s) (hm : s.main = .ret none) :
    ∃ recs, CompleteFor cfg.items cfg.f recs ∧ s.wst.acc = recs.foldl accum acc0 ∧
      s.wst.sink.text = String.join (aggCalls hs pre (rows s.wst.acc)) ∧ s.wst.sink.failed = false ∧
      s.wst.sink.calls = aggW hs pre (rows s.wst.acc) ∧
      ∀ i, 1 ≤ i → i ≤ aggW hs pre (rows s.wst.acc) → d.fails i = false := by
  obtain ⟨_, _, recs, hperm, hgood, st, hfold, hfin'⟩ := success_means_complete hN hr hm
  rw [aw_fold h] at hfold
  injection hfold with hfold
  rw [h.hfin, ← hfold] at hfin'
  obtain ⟨h1, _, h2, h3, h4, h5⟩ := aw_success_text hfin'
  rw [← h1] at h2 h4 h5
  exact ⟨recs, ⟨hperm, hgood⟩, h1, h2, h3, h4, h5⟩

/-- **(2) agg_fault_beyond_run_harmless**: whatever the destination, in every reachable state in which main has
returned nil every one of the W calls of the run succeeded and the text accepted is the sequential aggregate text:
the header, then the rows R -/
theorem agg_fault_beyond_run_harmless (h : IsAW cfg d hs pre acc0 accum rows e) (hN : 1 ≤ cfg.N)
    (hR : RowsAre cfg.items cfg.f acc0 accum rows R) (hr : Reach cfg s) (hm : s.main = .ret none) :
    s.wst.sink.text = String.join (aggCalls hs pre R) ∧ s.wst.sink.failed = false ∧
      s.wst.sink.calls = aggW hs pre R ∧ ∀ i, 1 ≤ i → i ≤ aggW hs pre R → d.fails i = false := by
  obtain ⟨recs, hc, hacc, h2, h3, h4, h5⟩ := agg_fault_beyond_run_harmless' h hN hr hm
  have : rows s.wst.acc = R := by rw [hacc]; exact hR recs hc
  rw [this] at h2 h4 h5
  exact ⟨h2, h3, h4, h5⟩

/-- the writer at the head of its loop has not touched the destination since its start: the sink is what the calls
`hs` left there (for (A): the empty sink, no call made), whatever has arrived -/
theorem agg_sink_untouched (h : IsAW cfg d hs pre acc0 accum rows e) (hr : Reach cfg s) (hw : s.writer = .recv) :
    s.wst = ⟨s.arrival.foldl accum acc0, Sink.putAll d Sink.empty hs⟩ := by
  have := (reach_inv hr).oRecv hw
  rw [aw_fold h] at this
  injection this with this
  exact this.symm

/-- the writer is past its loop: every record has arrived -/
theorem agg_finished_complete (h : IsAW cfg d hs pre acc0 accum rows e) (hN : 1 ≤ cfg.N) (hr : Reach cfg s)
    (hw : s.writer ≠ .recv) : cfg.readFail = none ∧ CompleteFor cfg.items cfg.f s.arrival := by
  obtain ⟨h1, h2⟩ := reach_finished_complete hN (aw_abs_ok h) hr hw
  exact ⟨h1, h2, (reach_inv hr).arrOk⟩

/-- the writer at `cErr <- err`: the error is e, it comes from `finish`, which ran on the accumulator of the whole
arrival sequence with the sink still as the calls `hs` left it, and one of its calls failed -/
theorem agg_writer_err (h : IsAW cfg d hs pre acc0 accum rows e) (hr : Reach cfg s) {e' : ε}
    (hw : s.writer = .errS e') :
    e' = e ∧ s.wst = ⟨s.arrival.foldl accum acc0, Sink.putAll d Sink.empty hs⟩ ∧
      (Sink.putAll d Sink.empty (aggCalls hs pre (rows (s.arrival.foldl accum acc0)))).failed = true := by
  rcases (reach_hist hr).wErr e' hw with ⟨_, r, _, _, hab⟩ | ⟨hfold, hfin'⟩
  · exact absurd hab (aw_abs_ok h _ _ _)
  · rw [aw_fold h] at hfold
    injection hfold with hfold
    rw [h.hfin, ← hfold] at hfin'
    obtain ⟨h1, h2⟩ := aw_error_is_e hfin'
    exact ⟨h1, hfold.symm, by rw [← putAll_start]; exact h2⟩

/-- no call of the run fails (`ok`, or a fault beyond the last call): the writer never sits at `cErr <- err` -/
theorem agg_no_write_error (h : IsAW cfg d hs pre acc0 accum rows e) (hN : 1 ≤ cfg.N)
    (hR : RowsAre cfg.items cfg.f acc0 accum rows R)
    (hd : ∀ i, 1 ≤ i → i ≤ aggW hs pre R → d.fails i = false) (hr : Reach cfg s) (e' : ε) :
    s.writer ≠ .errS e' := by
  intro hw
  obtain ⟨_, _, hfail⟩ := agg_writer_err h hr hw
  obtain ⟨_, hc⟩ := agg_finished_complete h hN hr (by rw [hw]; intro hc; cases hc)
  rw [hR _ hc] at hfail
  obtain ⟨h1, h2, h3, _, _⟩ := (sinkInv_all d (aggCalls hs pre R)).bad hfail
  rw [aggCalls_length] at h2
  rw [hd _ h1 h2] at h3
  cases h3

/-- **(2), the other half**: reader and workers do not fail and no call of the run fails (`ok`, or k > W): on no
schedule does main return an error -/
theorem agg_fault_beyond_run_no_error (h : IsAW cfg d hs pre acc0 accum rows e) (hN : 1 ≤ cfg.N)
    (hrf : cfg.readFail = none) (hall : ∀ x ∈ cfg.items, ∃ y, cfg.f x = .ok y)
    (hR : RowsAre cfg.items cfg.f acc0 accum rows R)
    (hd : ∀ i, 1 ≤ i → i ≤ aggW hs pre R → d.fails i = false) (hr : Reach cfg s) (e' : ε) :
    s.main ≠ .ret (some e') := by
  intro hm
  rcases (reach_hist hr).mErr e' hm with ⟨k, hk⟩ | ⟨x, hx, hf⟩ | hw
  · rw [hrf] at hk; cases hk
  · obtain ⟨y, hy⟩ := hall x hx
    rw [hy] at hf; cases hf
  · exact agg_no_write_error h hN hR hd hr e' hw

/-- **(2), whole runs**: then every run that cannot be extended has returned nil with the sequential aggregate text
accepted -/
theorem agg_fault_beyond_run_maximal (h : IsAW cfg d hs pre acc0 accum rows e) (hN : 1 ≤ cfg.N)
    (hrf : cfg.readFail = none) (hall : ∀ x ∈ cfg.items, ∃ y, cfg.f x = .ok y)
    (hR : RowsAre cfg.items cfg.f acc0 accum rows R)
    (hd : ∀ i, 1 ≤ i → i ≤ aggW hs pre R → d.fails i = false) (hr : Reach cfg s) (hstuck : enabled cfg s = []) :
    s.main = .ret none ∧ s.wst.sink.text = String.join (aggCalls hs pre R) := by
  obtain ⟨r, hm⟩ := maximal_run_returned hN hr hstuck
  cases r with
  | some e' => exact absurd hm (agg_fault_beyond_run_no_error h hN hrf hall hR hd hr e')
  | none => exact ⟨hm, (agg_fault_beyond_run_harmless h hN hR hr hm).1⟩

/-- **(1), which error**: reader and workers do not fail, the destination fails a call of the run: every run that
cannot be extended has returned THE WRITE ERROR e -/
theorem agg_fault_maximal_run_write_error (h : IsAW cfg d hs pre acc0 accum rows e) (hN : 1 ≤ cfg.N)
    (hrf : cfg.readFail = none) (hall : ∀ x ∈ cfg.items, ∃ y, cfg.f x = .ok y)
    (hR : RowsAre cfg.items cfg.f acc0 accum rows R) (k : Nat) (hd : d = .failFrom k ∨ d = .failOnce k) (hk1 : 1 ≤ k)
    (hkW : k ≤ aggW hs pre R) (hr : Reach cfg s) (hstuck : enabled cfg s = []) : s.main = .ret (some e) := by
  obtain ⟨e', hm, _⟩ := agg_fault_maximal_run h hN hR k hd hk1 hkW hr hstuck
  rcases (reach_hist hr).mErr e' hm with ⟨j, hj⟩ | ⟨x, hx, hf⟩ | hw
  · rw [hrf] at hj; cases hj
  · obtain ⟨y, hy⟩ := hall x hx
    rw [hy] at hf; cases hf
  · rw [hm, (agg_writer_err h hr hw).1]

/-! ### (3) what the destination has accepted, in any state -/

/-- the text the destination has accepted so far, in ANY state: while the writer is at the head of its loop, what the
calls `hs` left there; once it is past its loop (also when it sits at `cErr <- err` after a failed call of `finish`,
where `wst` is still the state before `finish`), what the checked calls of `finish` on the accumulator of the arrival
sequence have left there. `aggAccepted_eq_wst` and `aggAccepted_failing` tie it to the writer's state -/
def aggAccepted (d : Dest) (hs pre : List String) (acc0 : κ) (accum : κ → Nat × β → κ) (rows : κ → List String)
    (s : State α β ε (AW κ)) : String :=
  match s.writer with
  | .recv => (Sink.putAll d Sink.empty hs).text
  | _ => (Sink.putAll d Sink.empty (aggCalls hs pre (rows (s.arrival.foldl accum acc0)))).text

theorem aggAccepted_recv (hw : s.writer = .recv) :
    aggAccepted d hs pre acc0 accum rows s = (Sink.putAll d Sink.empty hs).text := by
  simp only [aggAccepted, hw]

theorem aggAccepted_not_recv (hw : s.writer ≠ .recv) :
    aggAccepted d hs pre acc0 accum rows s =
      (Sink.putAll d Sink.empty (aggCalls hs pre (rows (s.arrival.foldl accum acc0)))).text := by
  unfold aggAccepted
  cases hwr : s.writer with
  | recv => exact absurd hwr hw
  | errS _ => rfl
  | doneS => rfl
  | exited => rfl

/-- as long as the writer has not failed, `aggAccepted` is the text field of its state -/
theorem aggAccepted_eq_wst (h : IsAW cfg d hs pre acc0 accum rows e) (hr : Reach cfg s)
    (hw : ∀ e', s.writer ≠ .errS e') : aggAccepted d hs pre acc0 accum rows s = s.wst.sink.text := by
  have hi := reach_inv hr
  have fin : (s.writer = .doneS ∨ s.writer = .exited) → s.writer ≠ .recv →
      aggAccepted d hs pre acc0 accum rows s = s.wst.sink.text := by
    intro hdone hnr
    obtain ⟨_, _, st, hfold, hfin'⟩ := hi.oDone hdone
    rw [aw_fold h] at hfold
    injection hfold with hfold
    rw [h.hfin, ← hfold] at hfin'
    rw [aggAccepted_not_recv hnr, (aw_success_text hfin').2.1]
  cases hwr : s.writer with
  | errS e' => exact absurd hwr (hw e')
  | recv => rw [aggAccepted_recv hwr, agg_sink_untouched h hr hwr]
  | doneS => exact fin (Or.inl hwr) (by rw [hwr]; intro hc; cases hc)
  | exited => exact fin (Or.inr hwr) (by rw [hwr]; intro hc; cases hc)

/-- the writer at `cErr <- err`: `aggAccepted` is the text of the sink that the failing `finish` computed from the
writer's state (which it did not store) -/
theorem aggAccepted_failing (h : IsAW cfg d hs pre acc0 accum rows e) (hr : Reach cfg s) {e' : ε}
    (hw : s.writer = .errS e') :
    aggAccepted d hs pre acc0 accum rows s = (Sink.putAll d s.wst.sink (pre ++ rows s.wst.acc)).text ∧
      (Sink.putAll d s.wst.sink (pre ++ rows s.wst.acc)).failed = true := by
  obtain ⟨_, hwst, hfail⟩ := agg_writer_err h hr hw
  rw [aggAccepted_not_recv (by rw [hw]; intro hc; cases hc), hwst, putAll_start]
  exact ⟨rfl, hfail⟩

/-- **(3) agg_written_is_prefix**: in EVERY reachable state (whoever failed, wherever main is) the text accepted by
the destination is the fault-free call sequence - the header, then the rows R - cut at a call boundary -/
theorem agg_written_is_prefix (h : IsAW cfg d hs pre acc0 accum rows e) (hN : 1 ≤ cfg.N)
    (hR : RowsAre cfg.items cfg.f acc0 accum rows R) (hr : Reach cfg s) :
    ∃ j, aggAccepted d hs pre acc0 accum rows s = String.join ((aggCalls hs pre R).take j) := by
  by_cases hw : s.writer = .recv
  · obtain ⟨j, hj, ht⟩ := sink_text_take d hs
    refine ⟨j, ?_⟩
    rw [aggAccepted_recv hw, ht, aggCalls, List.append_assoc, List.take_append_of_le_length hj]
  · obtain ⟨_, hc⟩ := agg_finished_complete h hN hr hw
    obtain ⟨j, _, ht⟩ := sink_text_take d (aggCalls hs pre R)
    exact ⟨j, by rw [aggAccepted_not_recv hw, hR _ hc, ht]⟩

/-- **(3), nothing before the last record**: while some record has not been absorbed (it is still on its way, or its
worker failed, or the reader never read it) the writer is at the head of its loop and has made no call since its
start: the sink is what the calls `hs` left there -/
theorem agg_nothing_before_all_arrived (h : IsAW cfg d hs pre acc0 accum rows e) (hN : 1 ≤ cfg.N) (hr : Reach cfg s)
    {i : Nat} (hi : i < cfg.items.length) (hni : i ∉ s.arrival.map Prod.fst) :
    s.writer = .recv ∧ s.wst.sink = Sink.putAll d Sink.empty hs ∧
      aggAccepted d hs pre acc0 accum rows s = (Sink.putAll d Sink.empty hs).text := by
  have hw : s.writer = .recv := by
    apply Classical.byContradiction
    intro hw
    obtain ⟨_, hperm, _⟩ := agg_finished_complete h hN hr hw
    exact hni (hperm.mem_iff.mpr (List.mem_range.mpr hi))
  refine ⟨hw, ?_, aggAccepted_recv hw⟩
  rw [agg_sink_untouched h hr hw]

/-- (3) for (A), where no call is made before the loop: **while some record has not been absorbed, the sink is
empty** - no call made, nothing accepted -/
theorem agg_sink_empty_before_all_arrived {header : String} (h : IsAW cfg d [] [header] acc0 accum rows e)
    (hN : 1 ≤ cfg.N) (hr : Reach cfg s) {i : Nat} (hi : i < cfg.items.length) (hni : i ∉ s.arrival.map Prod.fst) :
    s.wst.sink = Sink.empty ∧ aggAccepted d [] [header] acc0 accum rows s = "" := by
  obtain ⟨_, h1, h2⟩ := agg_nothing_before_all_arrived h hN hr hi hni
  exact ⟨h1, h2⟩

end onePool

/-! ## 2. (B) the header write at once: the writer goroutine makes the calls `hs` BEFORE its loop and, when one of
them fails, sits at `cErr <- err` without having received anything -/

section startStates
open Gofasta.Model.Sched Gofasta.Lemmas.Sched
variable {σ : Type}

/-- `Model.Sched.Reach` with the start state a parameter: the same step function, the same labels -/
inductive ReachFrom (cfg : Cfg α β ε σ) (s0 : State α β ε σ) : State α β ε σ → Prop where
  | start : ReachFrom cfg s0 s0
  | step {s s' : State α β ε σ} (l : Label) : ReachFrom cfg s0 s → step? cfg s l = some s' → ReachFrom cfg s0 s'

theorem reachFrom_init {cfg : Cfg α β ε σ} {s : State α β ε σ} : ReachFrom cfg (init cfg) s ↔ Reach cfg s := by
  constructor
  · intro h
    induction h with
    | start => exact Reach.init
    | step l _ hs ih => exact Reach.step l ih hs
  · intro h
    induction h with
    | init => exact ReachFrom.start
    | step l _ hs ih => exact ReachFrom.step l ih hs

/-- the start state of a pipeline whose writer goroutine has failed before its loop: everything as in
`Model.Sched.init`, the writer at `cErr <- e` (its prologue talks to nobody, so it is folded into the start, as Model/Sched
folds every local computation into the step before it) -/
def errStart (cfg : Cfg α β ε σ) (e : ε) : State α β ε σ := { init cfg with writer := .errS e }

/-- the start state of a pipeline whose writer makes its first write calls before its loop: `failed` says whether
one of them failed -/
def hdrStart (cfg : Cfg α β ε σ) (e : ε) (failed : Bool) : State α β ε σ :=
  if failed then errStart cfg e else init cfg

theorem hdrStart_false (cfg : Cfg α β ε σ) (e : ε) : hdrStart cfg e false = init cfg := rfl
theorem hdrStart_true (cfg : Cfg α β ε σ) (e : ε) : hdrStart cfg e true = errStart cfg e := rfl

/-- the invariant of SchedProofs holds in that start state, provided e is an error the writer can produce -/
theorem inv_errStart (cfg : Cfg α β ε σ) (e : ε) (he : ∃ st, cfg.finish st = .error e) : Inv cfg (errStart cfg e) := by
  have h := inv_init cfg
  exact ⟨h.wlen, h.np, h.inCap, h.outCap, h.rinv, h.rExit, h.rClosed, h.wOk, h.wExit, h.inOk, h.outOk, h.arrOk, h.cons,
    h.tWait, h.tClosed, fun hw => by simp [errStart] at hw,
    fun hw => by rcases hw with hw | hw <;> simp [errStart] at hw,
    fun e' hw => by
      simp only [errStart, OPc.errS.injEq] at hw
      subst hw; exact Or.inr he,
    h.m1, h.m2, h.m3,
    ⟨fun hm => by simp [errStart, init] at hm, fun hw => by simp [errStart] at hw⟩, h.mErr⟩

theorem hist_errStart (cfg : Cfg α β ε σ) (e : ε) (he : cfg.finish cfg.init = .error e) : Hist cfg (errStart cfg e) := by
  constructor
  · intro e' hw
    simp only [errStart, OPc.errS.injEq] at hw
    subst hw
    exact Or.inr ⟨rfl, he⟩
  · intro e' hm
    simp [errStart, init] at hm

theorem reachFrom_inv {cfg : Cfg α β ε σ} {s0 s : State α β ε σ} (h0 : Inv cfg s0) (hr : ReachFrom cfg s0 s) :
    Inv cfg s := by
  induction hr with
  | start => exact h0
  | step l _ hs ih => exact inv_step ih hs

theorem reachFrom_hist {cfg : Cfg α β ε σ} {s0 s : State α β ε σ} (h0 : Inv cfg s0) (hh : Hist cfg s0)
    (hr : ReachFrom cfg s0 s) : Hist cfg s := by
  induction hr with
  | start => exact hh
  | step l hr hs ih => exact hist_step (reachFrom_inv h0 hr) ih hs

/-- a writer that sits at `cErr <- err` stays there: it receives nothing, its state does not change -/
theorem frozen {cfg : Cfg α β ε σ} {s0 s : State α β ε σ} {e : ε} (h0 : s0.writer = .errS e)
    (hr : ReachFrom cfg s0 s) : s.writer = .errS e ∧ s.wst = s0.wst ∧ s.arrival = s0.arrival := by
  induction hr with
  | start => exact ⟨h0, rfl, rfl⟩
  | step l hr hs ih =>
    obtain ⟨i1, i2, i3⟩ := ih
    rcases writer_frame hs with ⟨h1, h2, h3⟩ | ⟨hw, _⟩ | ⟨hw, _⟩ | ⟨hw, _⟩
    · exact ⟨h1.trans i1, h2.trans i2, h3.trans i3⟩
    · rw [i1] at hw; cases hw
    · rw [i1] at hw; cases hw
    · rw [i1] at hw; cases hw

/-- every state reachable from `errStart`: nothing has arrived, the writer's state is its initial state, the writer
sits at `cErr <- e`, main has not returned nil -/
theorem errStart_frozen {cfg : Cfg α β ε σ} {s : State α β ε σ} {e : ε} (he : ∃ st, cfg.finish st = .error e)
    (hr : ReachFrom cfg (errStart cfg e) s) :
    s.writer = .errS e ∧ s.wst = cfg.init ∧ s.arrival = [] ∧ s.main ≠ .ret none := by
  obtain ⟨h1, h2, h3⟩ := frozen (e := e) rfl hr
  refine ⟨h1, h2, h3, ?_⟩
  intro hm
  have := (reachFrom_inv (inv_errStart cfg e he) hr).mOk.mp hm
  rw [h1] at this; cases this

/-- the report can be made at once: in the start state itself main's `case err := <-cErr` is enabled -/
theorem errStart_reportable (cfg : Cfg α β ε σ) (e : ε) :
    step? cfg (errStart cfg e) .mainErrWriter = some { errStart cfg e with main := .ret (some e) } := rfl

/-- no reachable state is stuck before main has returned -/
theorem reachFrom_maximal_returned {cfg : Cfg α β ε σ} {s0 s : State α β ε σ} (hN : 1 ≤ cfg.N) (h0 : Inv cfg s0)
    (hr : ReachFrom cfg s0 s) (hstuck : enabled cfg s = []) : ∃ r, s.main = .ret r := by
  have h := reachFrom_inv h0 hr
  cases hm : s.main with
  | ret r => exact ⟨r, rfl⟩
  | _ =>
    refine absurd hstuck (enabled_ne_nil_of_progress (no_deadlock' hN h ?_))
    simp [State.final, h.np, hm, MPc.isRet]

/-- from `errStart` with nothing else failing: every run that cannot be extended has returned e -/
theorem errStart_maximal {cfg : Cfg α β ε σ} {s : State α β ε σ} {e : ε} (hN : 1 ≤ cfg.N)
    (he : cfg.finish cfg.init = .error e) (hr : ReachFrom cfg (errStart cfg e) s) (hstuck : enabled cfg s = []) :
    (∃ e', s.main = .ret (some e')) ∧
    (cfg.readFail = none → (∀ x ∈ cfg.items, ∃ y, cfg.f x = .ok y) → s.main = .ret (some e)) := by
  have h0 := inv_errStart cfg e ⟨_, he⟩
  obtain ⟨hw, _, _, hnil⟩ := errStart_frozen ⟨_, he⟩ hr
  obtain ⟨r, hm⟩ := reachFrom_maximal_returned hN h0 hr hstuck
  cases r with
  | none => exact absurd hm hnil
  | some e' =>
    refine ⟨⟨e', hm⟩, fun hrf hall => ?_⟩
    rcases (reachFrom_hist h0 (hist_errStart cfg e he) hr).mErr e' hm with ⟨k, hk⟩ | ⟨x, hx, hf⟩ | hw'
    · rw [hrf] at hk; cases hk
    · obtain ⟨y, hy⟩ := hall x hx
      rw [hy] at hf; cases hf
    · rw [hw] at hw'
      cases hw'
      exact hm

end startStates

theorem Sink.putAll_of_failed (d : Dest) : ∀ (cs : List String) (s : Sink), s.failed = true → Sink.putAll d s cs = s := by
  intro cs
  induction cs with
  | nil => intro s _; rfl
  | cons c t ih =>
    intro s h
    have : Sink.put d s c = s := by simp [Sink.put, h]
    simp only [Sink.putAll, List.foldl_cons, this]
    exact ih s h

theorem put_header (d : Dest) (header : String) :
    Sink.put d Sink.empty header = if d.fails 1 then ⟨"", 1, true⟩ else ⟨header, 1, false⟩ := by
  cases hd : d.fails 1 <;> simp [Sink.put, Sink.empty, hd]

/-! ### (B) for the streaming writers of SchedFaults: `FW.start` makes the header call; when it fails the pipeline
starts in `errStart` -/

section hdrFW
open Gofasta.Model.Sched Gofasta.Lemmas.Sched

variable {cfg : Cfg α β ε (FW β)} {s : State α β ε (FW β)} {d : Dest} {chunks : β → List String}
  {header : String} {k0 : Nat} {e : ε}

theorem fw_finish_init (h : IsFW cfg d chunks header k0 e) (hd : d.fails 1 = true) :
    cfg.finish cfg.init = .error e := by
  rw [h.hfin, h.hinit]
  simp [FW.finish, FW.start, put_header, hd]

/-- the start state of the streaming writer with the header written first: `init`, or - when the first call fails -
the writer at `cErr <- e` -/
theorem fw_hdrStart_inv (h : IsFW cfg d chunks header k0 e) : Inv cfg (hdrStart cfg e (d.fails 1)) := by
  cases hd : d.fails 1 with
  | false => exact inv_init cfg
  | true => exact inv_errStart cfg e ⟨_, fw_finish_init h hd⟩

/-- **(B 1) hdr_fault_reported**: the header call is made first; `failFrom k` or `failOnce k` with 1 ≤ k ≤ W: no state
reachable from the header-first start has main = ret none -/
theorem hdr_fault_reported (h : IsFW cfg d chunks header k0 e) (hN : 1 ≤ cfg.N) (k : Nat)
    (hd : d = .failFrom k ∨ d = .failOnce k) (hk1 : 1 ≤ k)
    (hkW : ∀ ys, cfg.items.map cfg.f = ys.map Except.ok → k ≤ nCalls chunks ys)
    (hr : ReachFrom cfg (hdrStart cfg e (d.fails 1)) s) : s.main ≠ .ret none := by
  cases h1 : d.fails 1 with
  | false =>
    rw [h1] at hr
    exact fault_reported h hN k hd hk1 hkW (reachFrom_init.mp hr)
  | true =>
    rw [h1] at hr
    exact (errStart_frozen ⟨_, fw_finish_init h h1⟩ hr).2.2.2

/-- **(B 2) hdr_fault_beyond_run_harmless**: whatever the destination, a state reachable from the header-first start
in which main has returned nil has the sequential text accepted, every call having succeeded -/
theorem hdr_fault_beyond_run_harmless (h : IsFW cfg d chunks header k0 e) (hN : 1 ≤ cfg.N)
    (hr : ReachFrom cfg (hdrStart cfg e (d.fails 1)) s) (hm : s.main = .ret none) :
    ∃ ys : List β, cfg.items.map cfg.f = ys.map Except.ok ∧
      s.wst.sink.text = header ++ String.join (ys.map fun y => String.join (chunks y)) ∧
      s.wst.sink.failed = false ∧ s.wst.sink.calls = nCalls chunks ys ∧
      ∀ i, 1 ≤ i → i ≤ nCalls chunks ys → d.fails i = false := by
  cases h1 : d.fails 1 with
  | false =>
    rw [h1] at hr
    exact fault_beyond_run_harmless h hN (reachFrom_init.mp hr) hm
  | true =>
    rw [h1] at hr
    exact absurd hm (errStart_frozen ⟨_, fw_finish_init h h1⟩ hr).2.2.2

/-- **(B 3) hdr_written_is_prefix**: in every state reachable from the header-first start the text accepted is the
fault-free call sequence cut at a call boundary -/
theorem hdr_written_is_prefix (h : IsFW cfg d chunks header k0 e)
    (hr : ReachFrom cfg (hdrStart cfg e (d.fails 1)) s) :
    ∃ j, accepted d chunks header k0 s =
      String.join ((callSeq header chunks (goodPrefix cfg.f cfg.items)).take j) := by
  have hi := reachFrom_inv (fw_hdrStart_inv h) hr
  exact fwAfter_text_prefix d chunks header k0 (arrival_nodup hi) hi.arrOk

/-- **(B) header_fault_immediate**: the first call fails (`failFrom 1`, `failOnce 1`): in EVERY state reachable from
the header-first start the writer has received nothing and sits at `cErr <- e`; exactly one call - the header - was
ever made, nothing was accepted: no record text is ever presented to the destination -/
theorem header_fault_immediate (h : IsFW cfg d chunks header k0 e) (hd : d.fails 1 = true)
    (hr : ReachFrom cfg (hdrStart cfg e (d.fails 1)) s) :
    s.arrival = [] ∧ s.writer = .errS e ∧ s.wst.sink = ⟨"", 1, true⟩ ∧ accepted d chunks header k0 s = "" ∧
      s.main ≠ .ret none := by
  rw [hd] at hr
  obtain ⟨h1, h2, h3, h4⟩ := errStart_frozen ⟨_, fw_finish_init h hd⟩ hr
  have hsink : (FW.start d header k0 : FW β).sink = ⟨"", 1, true⟩ := by simp [FW.start, put_header, hd]
  refine ⟨h3, h1, by rw [h2, h.hinit]; exact hsink, ?_, h4⟩
  unfold accepted
  rw [h3]
  exact congrArg Sink.text hsink

theorem header_fault_immediate' (h : IsFW cfg d chunks header k0 e) (hd : d = .failFrom 1 ∨ d = .failOnce 1)
    (hr : ReachFrom cfg (hdrStart cfg e (d.fails 1)) s) :
    s.arrival = [] ∧ s.writer = .errS e ∧ s.wst.sink = ⟨"", 1, true⟩ ∧ accepted d chunks header k0 s = "" ∧
      s.main ≠ .ret none :=
  header_fault_immediate h (Dest.fails_of_at hd) hr

/-- (B) the report is available at once: in the start state itself, before any record has moved, main's
`case err := <-cErr` can take the write error -/
theorem header_fault_reportable_at_once (cfg : Cfg α β ε (FW β)) (e : ε) :
    step? cfg (hdrStart cfg e true) .mainErrWriter = some { errStart cfg e with main := .ret (some e) } := rfl

/-- **(B 1), whole runs**: every run from the header-first start that cannot be extended has returned an error -/
theorem hdr_fault_maximal_run (h : IsFW cfg d chunks header k0 e) (hN : 1 ≤ cfg.N) (k : Nat)
    (hd : d = .failFrom k ∨ d = .failOnce k) (hk1 : 1 ≤ k)
    (hkW : ∀ ys, cfg.items.map cfg.f = ys.map Except.ok → k ≤ nCalls chunks ys)
    (hr : ReachFrom cfg (hdrStart cfg e (d.fails 1)) s) (hstuck : enabled cfg s = []) :
    ∃ e', s.main = .ret (some e') := by
  obtain ⟨r, hm⟩ := reachFrom_maximal_returned hN (fw_hdrStart_inv h) hr hstuck
  cases r with
  | none => exact absurd hm (hdr_fault_reported h hN k hd hk1 hkW hr)
  | some e' => exact ⟨e', hm⟩

/-- **(B 1), which error**: reader and workers do not fail: every run from the header-first start that cannot be
extended has returned the write error -/
theorem hdr_fault_maximal_run_write_error (h : IsFW cfg d chunks header k0 e) (hN : 1 ≤ cfg.N)
    (hrf : cfg.readFail = none) {ys : List β} (hys : cfg.items.map cfg.f = ys.map Except.ok) (k : Nat)
    (hd : d = .failFrom k ∨ d = .failOnce k) (hk1 : 1 ≤ k) (hkW : k ≤ nCalls chunks ys)
    (hr : ReachFrom cfg (hdrStart cfg e (d.fails 1)) s) (hstuck : enabled cfg s = []) : s.main = .ret (some e) := by
  cases h1 : d.fails 1 with
  | false =>
    rw [h1] at hr
    exact fault_maximal_run_write_error h hN hrf hys k hd hk1 hkW (reachFrom_init.mp hr) hstuck
  | true =>
    rw [h1] at hr
    exact (errStart_maximal hN (fw_finish_init h h1) hr hstuck).2 hrf (all_ok_of_map hys)

end hdrFW

/-! ### (B) for the aggregating writer that makes the calls `hs` before its loop -/

section hdrAW
open Gofasta.Model.Sched Gofasta.Lemmas.Sched

variable {cfg : Cfg α β ε (AW κ)} {s : State α β ε (AW κ)} {d : Dest} {hs pre : List String} {acc0 : κ}
  {accum : κ → Nat × β → κ} {rows : κ → List String} {e : ε} {R : List String}

theorem aw_finish_init (h : IsAW cfg d hs pre acc0 accum rows e) (hf : (Sink.putAll d Sink.empty hs).failed = true) :
    cfg.finish cfg.init = .error e := by
  rw [h.hfin, h.hinit]
  simp [AW.finish, AW.start, Sink.putAll_of_failed d _ _ hf, hf]

theorem aw_hdrStart_inv (h : IsAW cfg d hs pre acc0 accum rows e) :
    Inv cfg (hdrStart cfg e (Sink.putAll d Sink.empty hs).failed) := by
  cases hf : (Sink.putAll d Sink.empty hs).failed with
  | false => exact inv_init cfg
  | true => exact inv_errStart cfg e ⟨_, aw_finish_init h hf⟩

/-- **(B 1) for the aggregating writer** -/
theorem agg_hdr_fault_reported (h : IsAW cfg d hs pre acc0 accum rows e) (hN : 1 ≤ cfg.N)
    (hR : RowsAre cfg.items cfg.f acc0 accum rows R) (k : Nat) (hd : d = .failFrom k ∨ d = .failOnce k) (hk1 : 1 ≤ k)
    (hkW : k ≤ aggW hs pre R) (hr : ReachFrom cfg (hdrStart cfg e (Sink.putAll d Sink.empty hs).failed) s) :
    s.main ≠ .ret none := by
  cases hf : (Sink.putAll d Sink.empty hs).failed with
  | false =>
    rw [hf] at hr
    exact agg_fault_reported h hN hR k hd hk1 hkW (reachFrom_init.mp hr)
  | true =>
    rw [hf] at hr
    exact (errStart_frozen ⟨_, aw_finish_init h hf⟩ hr).2.2.2

/-- **(B 2) for the aggregating writer** -/
theorem agg_hdr_fault_beyond_run_harmless (h : IsAW cfg d hs pre acc0 accum rows e) (hN : 1 ≤ cfg.N)
    (hR : RowsAre cfg.items cfg.f acc0 accum rows R)
    (hr : ReachFrom cfg (hdrStart cfg e (Sink.putAll d Sink.empty hs).failed) s) (hm : s.main = .ret none) :
    s.wst.sink.text = String.join (aggCalls hs pre R) ∧ s.wst.sink.failed = false ∧
      s.wst.sink.calls = aggW hs pre R ∧ ∀ i, 1 ≤ i → i ≤ aggW hs pre R → d.fails i = false := by
  cases hf : (Sink.putAll d Sink.empty hs).failed with
  | false =>
    rw [hf] at hr
    exact agg_fault_beyond_run_harmless h hN hR (reachFrom_init.mp hr) hm
  | true =>
    rw [hf] at hr
    exact absurd hm (errStart_frozen ⟨_, aw_finish_init h hf⟩ hr).2.2.2

/-- **(B 3) for the aggregating writer** -/
theorem agg_hdr_written_is_prefix (h : IsAW cfg d hs pre acc0 accum rows e) (hN : 1 ≤ cfg.N)
    (hR : RowsAre cfg.items cfg.f acc0 accum rows R)
    (hr : ReachFrom cfg (hdrStart cfg e (Sink.putAll d Sink.empty hs).failed) s) :
    ∃ j, aggAccepted d hs pre acc0 accum rows s = String.join ((aggCalls hs pre R).take j) := by
  cases hf : (Sink.putAll d Sink.empty hs).failed with
  | false =>
    rw [hf] at hr
    exact agg_written_is_prefix h hN hR (reachFrom_init.mp hr)
  | true =>
    rw [hf] at hr
    obtain ⟨h1, _, h3, _⟩ := errStart_frozen ⟨_, aw_finish_init h hf⟩ hr
    obtain ⟨j, hj, ht⟩ := sink_text_take d hs
    refine ⟨j, ?_⟩
    rw [aggAccepted_not_recv (by rw [h1]; intro hc; cases hc), aggCalls, List.append_assoc,
      Sink.putAll_append d Sink.empty hs, Sink.putAll_of_failed d _ _ hf, ht, aggCalls, List.append_assoc,
      List.take_append_of_le_length hj]

/-- **(B) header_fault_immediate for the aggregating writer that writes its header before the loop** -/
theorem agg_header_fault_immediate {header : String} (h : IsAW cfg d [header] [] acc0 accum rows e)
    (hd : d.fails 1 = true) (hr : ReachFrom cfg (hdrStart cfg e (Sink.putAll d Sink.empty [header]).failed) s) :
    s.arrival = [] ∧ s.writer = .errS e ∧ s.wst.sink = ⟨"", 1, true⟩ ∧
      aggAccepted d [header] [] acc0 accum rows s = "" ∧ s.main ≠ .ret none := by
  have hsink : Sink.putAll d Sink.empty [header] = ⟨"", 1, true⟩ := by
    simp [Sink.putAll, put_header, hd]
  have hf : (Sink.putAll d Sink.empty [header]).failed = true := by rw [hsink]
  rw [hf] at hr
  obtain ⟨h1, h2, h3, h4⟩ := errStart_frozen ⟨_, aw_finish_init h hf⟩ hr
  refine ⟨h3, h1, by rw [h2, h.hinit]; exact hsink, ?_, h4⟩
  rw [aggAccepted_not_recv (by rw [h1]; intro hc; cases hc), aggCalls, List.append_assoc,
    Sink.putAll_append d Sink.empty [header], Sink.putAll_of_failed d _ _ hf, hsink]

/-- **(B 1), which error, for the aggregating writer** -/
theorem agg_hdr_fault_maximal_run_write_error (h : IsAW cfg d hs pre acc0 accum rows e) (hN : 1 ≤ cfg.N)
    (hrf : cfg.readFail = none) (hall : ∀ x ∈ cfg.items, ∃ y, cfg.f x = .ok y)
    (hR : RowsAre cfg.items cfg.f acc0 accum rows R) (k : Nat) (hd : d = .failFrom k ∨ d = .failOnce k) (hk1 : 1 ≤ k)
    (hkW : k ≤ aggW hs pre R) (hr : ReachFrom cfg (hdrStart cfg e (Sink.putAll d Sink.empty hs).failed) s)
    (hstuck : enabled cfg s = []) : s.main = .ret (some e) := by
  cases hf : (Sink.putAll d Sink.empty hs).failed with
  | false =>
    rw [hf] at hr
    exact agg_fault_maximal_run_write_error h hN hrf hall hR k hd hk1 hkW (reachFrom_init.mp hr) hstuck
  | true =>
    rw [hf] at hr
    exact (errStart_maximal hN (aw_finish_init h hf) hr hstuck).2 hrf hall

end hdrAW

/-! ## 3. any number of worker pools (Model/SchedChain) -/

section chainFrames
open Gofasta.Model.SchedChain Gofasta.Lemmas.SchedChain
open Gofasta.Model.Sched (RPc WPc TPc OPc Chan)
open Gofasta.Lemmas.Sched (held_all_exited rpos nSend_none)
variable {γ σ : Type}

/-- a closed and empty c_m: everything upstream has shut down and every record has arrived (the argument of
`Lemmas.SchedChain.drained`, which starts from a writer that has exited) -/
theorem chain_drained_closed {cfg : Cfg γ ε σ} {s : State γ ε σ} (hN : ∀ P ∈ cfg.pools, 1 ≤ P.N) (h : Inv cfg s)
    (hc : cAt s.chans cfg.m = true) (hq : qAt s.chans cfg.m = []) :
    cfg.readFail = none ∧ (s.arrival.map Prod.fst).Perm (List.range cfg.items.length) := by
  obtain ⟨h1, h2⟩ := upstream_drained hN h cfg.m (Nat.le_refl _) hc hq
  have hrd : s.reader = .exited := h.rClosed.mpr (h1 0 (Nat.zero_le _)).1
  have hrf := h.rExit hrd
  refine ⟨hrf, ?_⟩
  have e1 : s.chans.flatMap (fun ch => ch.queue.map Prod.fst) = [] := by
    apply flatMap_eq_nil_of
    intro k ch hk
    have hlt := lt_of_getElem? hk
    rw [h.lenC] at hlt
    have := (h1 k (by omega)).2
    rw [qAt_of hk] at this; simp [this]
  have e2 : s.workers.flatMap Gofasta.Lemmas.Sched.held = [] := by
    apply flatMap_eq_nil_of
    intro j ws hj
    have hlt := lt_of_getElem? hj
    rw [h.lenW] at hlt
    have := h2 j hlt
    rw [wsAt_of hj] at this
    exact held_all_exited this
  have := h.cons
  have hn : Gofasta.Model.Sched.nSend cfg.rd = cfg.items.length := nSend_none (cfg := cfg.rd) hrf
  simpa [places, e1, e2, tIdx, hrd, rpos, hn] using this

theorem leaves_same {s s' : State γ ε σ} (h : wview s' = wview s) (hw : s.writer = .recv) (hw' : s'.writer ≠ .recv) :
    False := by
  simp only [wview, Prod.mk.injEq] at h
  exact hw' (h.1.trans hw)

theorem leaves_deliver {cfg : Cfg γ ε σ} {s s0 : State γ ε σ} (b : Rcv) (r : Nat × γ) (h0 : wview s0 = wview s)
    (hw : s.writer = .recv) (hw' : (rcvDeliver cfg s0 b r).writer ≠ .recv) :
    ∃ r e, cfg.absorb s.wst r = .error e := by
  cases b with
  | worker j w =>
    simp only [rcvDeliver] at hw'
    split at hw'
    · exact (leaves_same ((wview_setW _ _ _ _).trans h0) hw hw').elim
    · exact (leaves_same h0 hw hw').elim
  | writer =>
    simp only [wview, Prod.mk.injEq] at h0
    simp only [rcvDeliver, absorbInto] at hw'
    split at hw'
    · exact absurd (h0.1.trans hw) hw'
    · rename_i e hab
      rw [h0.2.1] at hab
      exact ⟨r, e, hab⟩

/-- the step of the chain on which the writer leaves the head of its loop: `range c_m` ended on a closed and empty
channel (then `finish` ran), or the loop body failed -/
theorem chain_writer_leaves_recv {cfg : Cfg γ ε σ} {s s' : State γ ε σ} {l : Label} (hs : step? cfg s l = some s')
    (hw : s.writer = .recv) (hw' : s'.writer ≠ .recv) :
    (cAt s.chans cfg.m = true ∧ qAt s.chans cfg.m = [] ∧ s'.arrival = s.arrival) ∨
      (∃ r e, cfg.absorb s.wst r = .error e) := by
  unfold step? at hs
  split at hs
  · cases hs
  · cases l <;> simp only [] at hs
    case send a =>
      unfold stepSend at hs
      split at hs
      · split at hs
        · cases hs; exact absurd hw hw'
        · split at hs
          · cases hs
            exact (leaves_same ((wview_putChan _ _ _).trans (wview_sndAdvance cfg s a)) hw hw').elim
          · cases hs
      · cases hs
    case recv b =>
      unfold stepRecv at hs
      split at hs
      · rename_i ch hb hch
        split at hs
        · cases hs; exact Or.inr (leaves_deliver b _ (wview_putChan _ _ _) hw hw')
        · cases hs
      · cases hs
    case hand a b =>
      unfold stepHand at hs
      split at hs
      · split at hs
        · rename_i v ch hv hb hch
          split at hs
          · cases hs
          · cases hs; exact Or.inr (leaves_deliver b _ (wview_sndAdvance cfg s a) hw hw')
        · cases hs
      · cases hs
    case closed b =>
      unfold stepClosed at hs
      split at hs
      · rename_i ch hb hch
        split at hs
        · rename_i hcl hqu
          cases hs
          cases b with
          | worker j w => exact (leaves_same (wview_setW _ _ _ _) hw hw').elim
          | writer =>
            have hch' : s.chans[cfg.m]? = some ch := hch
            refine Or.inl ⟨by rw [cAt_of hch']; exact hcl, by rw [qAt_of hch']; exact hqu, ?_⟩
            simp only [rcvEnd]
            split <;> rfl
        · cases hs
      · cases hs
    case wait j =>
      unfold stepWait at hs
      split at hs
      · split at hs
        · cases hs; exact absurd hw hw'
        · cases hs
      · cases hs
    case mainErr who =>
      unfold stepMainErr at hs
      split at hs
      · cases hs; exact absurd hw hw'
      · cases hs
    case mainDone =>
      unfold stepMainDone at hs
      split at hs
      · cases hs
      · split at hs
        · unfold stepDoneWriter at hs
          split at hs
          · rename_i hwd; rw [hw] at hwd; cases hwd
          · cases hs
        · split at hs
          · unfold stepDoneReader at hs
            split at hs
            · split at hs <;> (cases hs; exact absurd hw hw')
            · cases hs
          · unfold stepDoneWaiter at hs
            split at hs
            · split at hs <;> (cases hs; exact absurd hw hw')
            · cases hs

/-- **a chain writer whose loop body cannot fail is past its loop only when every record has arrived** -/
theorem chain_reach_finished_complete {cfg : Cfg γ ε σ} {s : State γ ε σ} (hN : ∀ P ∈ cfg.pools, 1 ≤ P.N)
    (hok : ∀ st r e, cfg.absorb st r ≠ .error e) (hr : Reach cfg s) (hw : s.writer ≠ .recv) :
    cfg.readFail = none ∧ (s.arrival.map Prod.fst).Perm (List.range cfg.items.length) := by
  induction hr with
  | init => exact absurd rfl hw
  | step l hr hs ih =>
    rename_i s0 s1
    by_cases hws : s0.writer = .recv
    · rcases chain_writer_leaves_recv hs hws hw with ⟨hc, hq, ha⟩ | ⟨r, e, hab⟩
      · rw [ha]; exact chain_drained_closed hN (reach_inv hr) hc hq
      · exact absurd hab (hok _ _ _)
    · rcases chain_writer_frame hs with ⟨_, _, h3, _⟩ | ⟨hw0, _⟩ | ⟨hw0, _⟩ | ⟨_, _, _, h3, _⟩
      · rw [h3]; exact ih hws
      · exact absurd hw0 hws
      · exact absurd hw0 hws
      · rw [h3]; exact ih hws

end chainFrames

section chain
open Gofasta.Model.SchedChain Gofasta.Lemmas.SchedChain

variable {γ : Type}

/-- the chain's writer is the aggregating writer -/
structure IsAWc (cfg : Cfg γ ε (AW κ)) (d : Dest) (hs pre : List String) (acc0 : κ) (accum : κ → Nat × γ → κ)
    (rows : κ → List String) (e : ε) : Prop where
  habs : ∀ st r, cfg.absorb st r = AW.absorb accum st r
  hfin : ∀ st, cfg.finish st = AW.finish d pre rows e st
  hinit : cfg.init = AW.start d hs acc0

variable {cfg : Cfg γ ε (AW κ)} {s : State γ ε (AW κ)} {d : Dest} {hs pre : List String} {acc0 : κ}
  {accum : κ → Nat × γ → κ} {rows : κ → List String} {e : ε} {R : List String}

theorem chain_aw_abs_ok (h : IsAWc cfg d hs pre acc0 accum rows e) : ∀ st r e', cfg.absorb st r ≠ .error e' := by
  intro st r e' hab
  rw [h.habs] at hab
  cases hab

theorem chain_aw_fold (h : IsAWc cfg d hs pre acc0 accum rows e) (recs : List (Nat × γ)) :
    absorbAll cfg.absorb cfg.init recs = .ok ⟨recs.foldl accum acc0, Sink.putAll d Sink.empty hs⟩ := by
  rw [h.hinit, absorbAll_aw h.habs]
  rfl

theorem chain_aw_hfail (h : IsAWc cfg d hs pre acc0 accum rows e) (k : Nat) (hk1 : 1 ≤ k) (hd : d.fails k = true)
    (hkW : ∀ recs, CompleteFor cfg.items (pass cfg.pools) recs → k ≤ aggW hs pre (rows (recs.foldl accum acc0))) :
    ∀ recs : List (Nat × γ), (recs.map Prod.fst).Perm (List.range cfg.items.length) →
      (∀ r ∈ recs, ∃ x, cfg.items[r.1]? = some x ∧ pass cfg.pools x = .ok r.2) →
      ∀ st st', absorbAll cfg.absorb cfg.init recs = .ok st → cfg.finish st ≠ .ok st' := by
  intro recs hperm hgood st st' hfold
  rw [chain_aw_fold h] at hfold
  injection hfold with hfold
  rw [h.hfin, ← hfold]
  exact aw_fault_hit k hk1 hd (hkW recs ⟨hperm, hgood⟩) st'

/-- **(1) for the chain, general form** -/
theorem chain_agg_fault_reported' (h : IsAWc cfg d hs pre acc0 accum rows e) (hN : ∀ P ∈ cfg.pools, 1 ≤ P.N) (k : Nat)
    (hk1 : 1 ≤ k) (hd : d.fails k = true)
    (hkW : ∀ recs, CompleteFor cfg.items (pass cfg.pools) recs → k ≤ aggW hs pre (rows (recs.foldl accum acc0)))
    (hr : Reach cfg s) : s.main ≠ .ret none :=
  chain_error_reported hN (Or.inr (Or.inr (chain_aw_hfail h k hk1 hd hkW))) hr

theorem chain_hkW_of_rows (hR : RowsAre cfg.items (pass cfg.pools) acc0 accum rows R) {k : Nat}
    (hkW : k ≤ aggW hs pre R) :
    ∀ recs, CompleteFor cfg.items (pass cfg.pools) recs → k ≤ aggW hs pre (rows (recs.foldl accum acc0)) := by
  intro recs hc
  rw [hR recs hc]; exact hkW

/-- **(1) chain_agg_fault_reported**: any pools, any capacities; `failFrom k` or `failOnce k` with 1 ≤ k ≤ W: no
reachable state has main = ret none -/
theorem chain_agg_fault_reported (h : IsAWc cfg d hs pre acc0 accum rows e) (hN : ∀ P ∈ cfg.pools, 1 ≤ P.N)
    (hR : RowsAre cfg.items (pass cfg.pools) acc0 accum rows R) (k : Nat) (hd : d = .failFrom k ∨ d = .failOnce k)
    (hk1 : 1 ≤ k) (hkW : k ≤ aggW hs pre R) (hr : Reach cfg s) : s.main ≠ .ret none :=
  chain_agg_fault_reported' h hN k hk1 (Dest.fails_of_at hd) (chain_hkW_of_rows hR hkW) hr

/-- **(1) for the chain, whole runs** -/
theorem chain_agg_fault_maximal_run (h : IsAWc cfg d hs pre acc0 accum rows e) (hN : ∀ P ∈ cfg.pools, 1 ≤ P.N)
    (hR : RowsAre cfg.items (pass cfg.pools) acc0 accum rows R) (k : Nat) (hd : d = .failFrom k ∨ d = .failOnce k)
    (hk1 : 1 ≤ k) (hkW : k ≤ aggW hs pre R) (hr : Reach cfg s) (hstuck : enabled cfg s = []) :
    ∃ e', s.main = .ret (some e') ∧ ErrSource cfg e' :=
  chain_maximal_run_error hN
    (Or.inr (Or.inr (chain_aw_hfail h k hk1 (Dest.fails_of_at hd) (chain_hkW_of_rows hR hkW)))) hr hstuck

/-- **(2) for the chain, general form** -/
theorem chain_agg_fault_beyond_run_harmless' (h : IsAWc cfg d hs pre acc0 accum rows e)
    (hN : ∀ P ∈ cfg.pools, 1 ≤ P.N) (hr : Reach cfg s) (hm : s.main = .ret none) :
    ∃ recs, CompleteFor cfg.items (pass cfg.pools) recs ∧ s.wst.acc = recs.foldl accum acc0 ∧
      s.wst.sink.text = String.join (aggCalls hs pre (rows s.wst.acc)) ∧ s.wst.sink.failed = false ∧
      s.wst.sink.calls = aggW hs pre (rows s.wst.acc) ∧
      ∀ i, 1 ≤ i → i ≤ aggW hs pre (rows s.wst.acc) → d.fails i = false := by
  obtain ⟨_, _, recs, hperm, hgood, st, hfold, hfin'⟩ := chain_success_means_complete hN hr hm
  rw [chain_aw_fold h] at hfold
  injection hfold with hfold
  rw [h.hfin, ← hfold] at hfin'
  obtain ⟨h1, _, h2, h3, h4, h5⟩ := aw_success_text hfin'
  rw [← h1] at h2 h4 h5
  exact ⟨recs, ⟨hperm, hgood⟩, h1, h2, h3, h4, h5⟩

/-- **(2) for the chain** -/
theorem chain_agg_fault_beyond_run_harmless (h : IsAWc cfg d hs pre acc0 accum rows e)
    (hN : ∀ P ∈ cfg.pools, 1 ≤ P.N) (hR : RowsAre cfg.items (pass cfg.pools) acc0 accum rows R)
    (hr : Reach cfg s) (hm : s.main = .ret none) :
    s.wst.sink.text = String.join (aggCalls hs pre R) ∧ s.wst.sink.failed = false ∧
      s.wst.sink.calls = aggW hs pre R ∧ ∀ i, 1 ≤ i → i ≤ aggW hs pre R → d.fails i = false := by
  obtain ⟨recs, hc, hacc, h2, h3, h4, h5⟩ := chain_agg_fault_beyond_run_harmless' h hN hr hm
  have : rows s.wst.acc = R := by rw [hacc]; exact hR recs hc
  rw [this] at h2 h4 h5
  exact ⟨h2, h3, h4, h5⟩

theorem chain_agg_sink_untouched (h : IsAWc cfg d hs pre acc0 accum rows e) (hr : Reach cfg s)
    (hw : s.writer = .recv) : s.wst = ⟨s.arrival.foldl accum acc0, Sink.putAll d Sink.empty hs⟩ := by
  have := (reach_inv hr).oRecv hw
  rw [chain_aw_fold h] at this
  injection this with this
  exact this.symm

theorem chain_agg_finished_complete (h : IsAWc cfg d hs pre acc0 accum rows e) (hN : ∀ P ∈ cfg.pools, 1 ≤ P.N)
    (hr : Reach cfg s) (hw : s.writer ≠ .recv) :
    cfg.readFail = none ∧ CompleteFor cfg.items (pass cfg.pools) s.arrival := by
  obtain ⟨h1, h2⟩ := chain_reach_finished_complete hN (chain_aw_abs_ok h) hr hw
  exact ⟨h1, h2, chain_arrival_good (reach_inv hr)⟩

theorem chain_agg_writer_err (h : IsAWc cfg d hs pre acc0 accum rows e) (hr : Reach cfg s) {e' : ε}
    (hw : s.writer = .errS e') :
    e' = e ∧ s.wst = ⟨s.arrival.foldl accum acc0, Sink.putAll d Sink.empty hs⟩ ∧
      (Sink.putAll d Sink.empty (aggCalls hs pre (rows (s.arrival.foldl accum acc0)))).failed = true := by
  rcases (chain_reach_hist hr).wErr e' hw with ⟨_, r, _, _, hab⟩ | ⟨hfold, hfin'⟩
  · exact absurd hab (chain_aw_abs_ok h _ _ _)
  · rw [chain_aw_fold h] at hfold
    injection hfold with hfold
    rw [h.hfin, ← hfold] at hfin'
    obtain ⟨h1, h2⟩ := aw_error_is_e hfin'
    exact ⟨h1, hfold.symm, by rw [← putAll_start]; exact h2⟩

theorem chain_agg_no_write_error (h : IsAWc cfg d hs pre acc0 accum rows e) (hN : ∀ P ∈ cfg.pools, 1 ≤ P.N)
    (hR : RowsAre cfg.items (pass cfg.pools) acc0 accum rows R)
    (hd : ∀ i, 1 ≤ i → i ≤ aggW hs pre R → d.fails i = false) (hr : Reach cfg s) (e' : ε) :
    s.writer ≠ .errS e' := by
  intro hw
  obtain ⟨_, _, hfail⟩ := chain_agg_writer_err h hr hw
  obtain ⟨_, hc⟩ := chain_agg_finished_complete h hN hr (by rw [hw]; intro hc; cases hc)
  rw [hR _ hc] at hfail
  obtain ⟨h1, h2, h3, _, _⟩ := (sinkInv_all d (aggCalls hs pre R)).bad hfail
  rw [aggCalls_length] at h2
  rw [hd _ h1 h2] at h3
  cases h3

/-- **(2) for the chain, the other half** -/
theorem chain_agg_fault_beyond_run_no_error (h : IsAWc cfg d hs pre acc0 accum rows e)
    (hN : ∀ P ∈ cfg.pools, 1 ≤ P.N) (hrf : cfg.readFail = none)
    (hall : ∀ x ∈ cfg.items, ∃ y, pass cfg.pools x = .ok y)
    (hR : RowsAre cfg.items (pass cfg.pools) acc0 accum rows R)
    (hd : ∀ i, 1 ≤ i → i ≤ aggW hs pre R → d.fails i = false) (hr : Reach cfg s) (e' : ε) :
    s.main ≠ .ret (some e') := by
  intro hm
  rcases (chain_reach_hist hr).mErr e' hm with ⟨k, hk⟩ | ⟨x, hx, hf⟩ | hw
  · rw [hrf] at hk; cases hk
  · obtain ⟨y, hy⟩ := hall x hx
    rw [hy] at hf; cases hf
  · exact chain_agg_no_write_error h hN hR hd hr e' hw

/-- **(2) for the chain, whole runs** -/
theorem chain_agg_fault_beyond_run_maximal (h : IsAWc cfg d hs pre acc0 accum rows e)
    (hN : ∀ P ∈ cfg.pools, 1 ≤ P.N) (hrf : cfg.readFail = none)
    (hall : ∀ x ∈ cfg.items, ∃ y, pass cfg.pools x = .ok y)
    (hR : RowsAre cfg.items (pass cfg.pools) acc0 accum rows R)
    (hd : ∀ i, 1 ≤ i → i ≤ aggW hs pre R → d.fails i = false) (hr : Reach cfg s) (hstuck : enabled cfg s = []) :
    s.main = .ret none ∧ s.wst.sink.text = String.join (aggCalls hs pre R) := by
  obtain ⟨r, hm⟩ := chain_maximal_run_returned hN hr hstuck
  cases r with
  | some e' => exact absurd hm (chain_agg_fault_beyond_run_no_error h hN hrf hall hR hd hr e')
  | none => exact ⟨hm, (chain_agg_fault_beyond_run_harmless h hN hR hr hm).1⟩

/-- **(1) for the chain, which error** -/
theorem chain_agg_fault_maximal_run_write_error (h : IsAWc cfg d hs pre acc0 accum rows e)
    (hN : ∀ P ∈ cfg.pools, 1 ≤ P.N) (hrf : cfg.readFail = none)
    (hall : ∀ x ∈ cfg.items, ∃ y, pass cfg.pools x = .ok y)
    (hR : RowsAre cfg.items (pass cfg.pools) acc0 accum rows R) (k : Nat) (hd : d = .failFrom k ∨ d = .failOnce k)
    (hk1 : 1 ≤ k) (hkW : k ≤ aggW hs pre R) (hr : Reach cfg s) (hstuck : enabled cfg s = []) :
    s.main = .ret (some e) := by
  obtain ⟨e', hm, _⟩ := chain_agg_fault_maximal_run h hN hR k hd hk1 hkW hr hstuck
  rcases (chain_reach_hist hr).mErr e' hm with ⟨j, hj⟩ | ⟨x, hx, hf⟩ | hw
  · rw [hrf] at hj; cases hj
  · obtain ⟨y, hy⟩ := hall x hx
    rw [hy] at hf; cases hf
  · rw [hm, (chain_agg_writer_err h hr hw).1]

/-- the text the destination has accepted so far, in any state of the chain -/
def chainAggAccepted (d : Dest) (hs pre : List String) (acc0 : κ) (accum : κ → Nat × γ → κ) (rows : κ → List String)
    (s : State γ ε (AW κ)) : String :=
  match s.writer with
  | .recv => (Sink.putAll d Sink.empty hs).text
  | _ => (Sink.putAll d Sink.empty (aggCalls hs pre (rows (s.arrival.foldl accum acc0)))).text

theorem chainAggAccepted_recv (hw : s.writer = .recv) :
    chainAggAccepted d hs pre acc0 accum rows s = (Sink.putAll d Sink.empty hs).text := by
  simp only [chainAggAccepted, hw]

theorem chainAggAccepted_not_recv (hw : s.writer ≠ .recv) :
    chainAggAccepted d hs pre acc0 accum rows s =
      (Sink.putAll d Sink.empty (aggCalls hs pre (rows (s.arrival.foldl accum acc0)))).text := by
  unfold chainAggAccepted
  cases hwr : s.writer with
  | recv => exact absurd hwr hw
  | errS _ => rfl
  | doneS => rfl
  | exited => rfl

theorem chainAggAccepted_eq_wst (h : IsAWc cfg d hs pre acc0 accum rows e) (hr : Reach cfg s)
    (hw : ∀ e', s.writer ≠ .errS e') : chainAggAccepted d hs pre acc0 accum rows s = s.wst.sink.text := by
  have hi := reach_inv hr
  have fin : (s.writer = .doneS ∨ s.writer = .exited) → s.writer ≠ .recv →
      chainAggAccepted d hs pre acc0 accum rows s = s.wst.sink.text := by
    intro hdone hnr
    obtain ⟨st, hfold, hfin'⟩ := hi.oFold hdone
    rw [chain_aw_fold h] at hfold
    injection hfold with hfold
    rw [h.hfin, ← hfold] at hfin'
    rw [chainAggAccepted_not_recv hnr, (aw_success_text hfin').2.1]
  cases hwr : s.writer with
  | errS e' => exact absurd hwr (hw e')
  | recv => rw [chainAggAccepted_recv hwr, chain_agg_sink_untouched h hr hwr]
  | doneS => exact fin (Or.inl hwr) (by rw [hwr]; intro hc; cases hc)
  | exited => exact fin (Or.inr hwr) (by rw [hwr]; intro hc; cases hc)

theorem chainAggAccepted_failing (h : IsAWc cfg d hs pre acc0 accum rows e) (hr : Reach cfg s) {e' : ε}
    (hw : s.writer = .errS e') :
    chainAggAccepted d hs pre acc0 accum rows s = (Sink.putAll d s.wst.sink (pre ++ rows s.wst.acc)).text ∧
      (Sink.putAll d s.wst.sink (pre ++ rows s.wst.acc)).failed = true := by
  obtain ⟨_, hwst, hfail⟩ := chain_agg_writer_err h hr hw
  rw [chainAggAccepted_not_recv (by rw [hw]; intro hc; cases hc), hwst, putAll_start]
  exact ⟨rfl, hfail⟩

/-- **(3) for the chain** -/
theorem chain_agg_written_is_prefix (h : IsAWc cfg d hs pre acc0 accum rows e) (hN : ∀ P ∈ cfg.pools, 1 ≤ P.N)
    (hR : RowsAre cfg.items (pass cfg.pools) acc0 accum rows R) (hr : Reach cfg s) :
    ∃ j, chainAggAccepted d hs pre acc0 accum rows s = String.join ((aggCalls hs pre R).take j) := by
  by_cases hw : s.writer = .recv
  · obtain ⟨j, hj, ht⟩ := sink_text_take d hs
    refine ⟨j, ?_⟩
    rw [chainAggAccepted_recv hw, ht, aggCalls, List.append_assoc, List.take_append_of_le_length hj]
  · obtain ⟨_, hc⟩ := chain_agg_finished_complete h hN hr hw
    obtain ⟨j, _, ht⟩ := sink_text_take d (aggCalls hs pre R)
    exact ⟨j, by rw [chainAggAccepted_not_recv hw, hR _ hc, ht]⟩

/-- **(3) for the chain, nothing before the last record** -/
theorem chain_agg_nothing_before_all_arrived (h : IsAWc cfg d hs pre acc0 accum rows e)
    (hN : ∀ P ∈ cfg.pools, 1 ≤ P.N) (hr : Reach cfg s) {i : Nat} (hi : i < cfg.items.length)
    (hni : i ∉ s.arrival.map Prod.fst) :
    s.writer = .recv ∧ s.wst.sink = Sink.putAll d Sink.empty hs ∧
      chainAggAccepted d hs pre acc0 accum rows s = (Sink.putAll d Sink.empty hs).text := by
  have hw : s.writer = .recv := by
    apply Classical.byContradiction
    intro hw
    obtain ⟨_, hperm, _⟩ := chain_agg_finished_complete h hN hr hw
    exact hni (hperm.mem_iff.mpr (List.mem_range.mpr hi))
  refine ⟨hw, ?_, chainAggAccepted_recv hw⟩
  rw [chain_agg_sink_untouched h hr hw]

end chain

/-! ## 4. the commands -/

/-! ### C. `gofasta snps --aggregate` -/

section snpsAggregate
open Gofasta.Model.Sched Gofasta.Lemmas.Sched Gofasta.Lemmas.AggOrder

/-- what snps.aggregateWriteOutput accumulates: the counting map (association list in first-seen order) and the
number of records received -/
abbrev SnpAcc := List (Snp × Nat) × Nat

/-- the loop body: count every SNP of the row that arrived, count the record (`AggW.absorb` of SchedCommands) -/
def snpsAccum (acc : SnpAcc) (r : Nat × (String × List Snp)) : SnpAcc :=
  (r.2.2.foldl (fun m s => countInsert s m) acc.1, acc.2 + 1)

/-- the rows printed after the loop: sort by (position, query allele), keep what reaches the threshold, one line each
(`AggW.finish` of SchedCommands, line by line) -/
def snpsAggRowsOf (thrNum thrDen : Nat) (acc : SnpAcc) : List String :=
  ((sortStable snpLt acc.1).filter fun e => keepFreq e.2 acc.2 thrNum thrDen).map fun e =>
    fmtSnp e.1 ++ "," ++ fmt9 e.2 acc.2 ++ "\n"

def snpsAggHeader : String := "SNP,frequency\n"

/-- the rows of the sequential table `Model.snpsAggregate` -/
def snpsAggLines (hard : Bool) (thrNum thrDen : Nat) (ref : List Nat) (recs : List (String × List Nat)) : List String :=
  snpsAggRowsOf thrNum thrDen (countAll (recs.map fun r => snpsRow hard ref r.2), recs.length)

/-- `Model.snpsAggregate` is the header followed by these rows -/
theorem snpsAggregate_eq_join (hard : Bool) (thrNum thrDen : Nat) (ref : List Nat) (recs : List (String × List Nat)) :
    snpsAggregate hard thrNum thrDen ref recs = String.join (snpsAggHeader :: snpsAggLines hard thrNum thrDen ref recs) := by
  simp only [String.join_cons]; rfl

/-- `gofasta snps --aggregate` writing to the destination d; the calls `hs` before the loop, the calls `pre` and the
rows after it: (A) is `hs = []`, `pre = [snpsAggHeader]` -/
def snpsAggFCfg (d : Dest) (hs pre : List String) (hard : Bool) (thrNum thrDen : Nat) (ref : List Nat)
    (recs : List (String × List Nat)) (N capIn capOut : Nat) (rf : Option (Nat × RunErr)) :
    Cfg (String × List Nat) (String × List Snp) RunErr (AW SnpAcc) where
  items := encItems hard recs
  f := liftW (snpsWorker (ref.map (enc hard)))
  N := N
  capIn := capIn
  capOut := capOut
  readFail := rf
  absorb := AW.absorb snpsAccum
  finish := AW.finish d pre (snpsAggRowsOf thrNum thrDen) .write
  init := AW.start d hs ([], 0)

theorem snpsAggF_isAW (d : Dest) (hs pre : List String) (hard : Bool) (thrNum thrDen : Nat) (ref : List Nat)
    (recs : List (String × List Nat)) (N capIn capOut : Nat) (rf : Option (Nat × RunErr)) :
    IsAW (snpsAggFCfg d hs pre hard thrNum thrDen ref recs N capIn capOut rf) d hs pre ([], 0) snpsAccum
      (snpsAggRowsOf thrNum thrDen) .write :=
  ⟨fun _ _ => rfl, fun _ => rfl, rfl⟩

theorem snps_fold_acc : ∀ (arr : List (Nat × (String × List Snp))) (acc : SnpAcc),
    arr.foldl snpsAccum acc =
      ((arr.map (·.2.2)).foldl (fun m row => row.foldl (fun m s => countInsert s m) m) acc.1, acc.2 + arr.length) := by
  intro arr
  induction arr with
  | nil => intro acc; rfl
  | cons r t ih =>
    intro acc
    simp only [List.foldl_cons, ih, List.map_cons, List.length_cons, snpsAccum]
    congr 1
    omega

/-- **the table does not depend on the order of arrival**: every complete arrival sequence gives the rows of
`Model.snpsAggregate` (no hypothesis on the symbols: rows computed against one reference) -/
theorem snps_rowsAre (hard : Bool) (thrNum thrDen : Nat) (ref : List Nat) (recs : List (String × List Nat)) :
    RowsAre (encItems hard recs) (liftW (snpsWorker (ref.map (enc hard)))) (([], 0) : SnpAcc) snpsAccum
      (snpsAggRowsOf thrNum thrDen) (snpsAggLines hard thrNum thrDen ref recs) := by
  intro arr hc
  obtain ⟨hperm, hgood⟩ := hc
  obtain ⟨ys, hys⟩ := outputs_exist (all_ok_of_complete hperm hgood)
  have hgood' : ∀ r ∈ arr, ys[r.1]? = some r.2 := by
    intro r hr
    obtain ⟨x, hx, hf⟩ := hgood r hr
    exact good_index hys hx hf
  have hlen := map_ok_length hys
  rw [← hlen] at hperm
  have hsnd := snd_perm_of_indexed hperm hgood'
  have hys' : ys = recs.map fun r => (r.1, snpsRow hard ref r.2) := by
    have := map_ok_eq (snpsWorker_ok (ref.map (enc hard))) (map_liftW_ok.mp hys)
    rw [this]
    simp only [encItems, List.map_map]
    rfl
  have hrows : (arr.map (·.2.2)).Perm (recs.map fun r => snpsRow hard ref r.2) := by
    have := hsnd.map (fun y : String × List Snp => y.2)
    rw [hys', List.map_map, List.map_map] at this
    exact this
  have hkd : KeyDecides (countAll (arr.map (·.2.2))) := by
    apply keyDecides_of_rows (ref.map (enc hard))
    intro row hrow
    obtain ⟨r, _, rfl⟩ := List.mem_map.mp (hrows.mem_iff.mp hrow)
    exact ⟨r.2.map (enc hard), rfl⟩
  have hsort := snps_aggregate_any_order _ _ hrows hkd
  have hn : arr.length = recs.length := by
    have := hperm.length_eq
    simp only [List.length_map, List.length_range] at this
    rw [this, hlen]
    simp [encItems]
  have hcnt : (arr.map (·.2.2)).foldl (fun m row => row.foldl (fun m s => countInsert s m) m) [] =
      countAll (arr.map (·.2.2)) := rfl
  rw [snps_fold_acc]
  simp only [snpsAggRowsOf, snpsAggLines, hcnt, hsort, hn, Nat.zero_add]

theorem snpsAggF_all_ok (hard : Bool) (ref : List Nat) (recs : List (String × List Nat))
    (hw : ∀ r ∈ recs, r.2.length = ref.length) :
    ∀ x ∈ encItems hard recs, ∃ y, liftW (snpsWorker (ref.map (enc hard))) x = .ok y := by
  intro x hx
  obtain ⟨r, hr, rfl⟩ := List.mem_map.mp hx
  refine ⟨(r.1, snpsRowEnc 0 (ref.map (enc hard)) (r.2.map (enc hard))), ?_⟩
  apply liftW_of_ok
  simp [snpsWorker, hw r hr]

theorem aggW_A (header : String) (R : List String) : aggW [] [header] R = 1 + R.length := by simp [aggW]
theorem aggW_B (header : String) (R : List String) : aggW [header] [] R = 1 + R.length := by simp [aggW]
theorem aggCalls_A (header : String) (R : List String) : aggCalls [] [header] R = header :: R := rfl
theorem aggCalls_B (header : String) (R : List String) : aggCalls [header] [] R = header :: R := rfl

/-- **C (1)**: W = 1 + the number of rows of the table; the destination fails at call k, 1 ≤ k ≤ W (the header call,
a middle row, the last row): no schedule returns nil -/
theorem snps_agg_fault_reported (d : Dest) (hard : Bool) (thrNum thrDen : Nat) (ref : List Nat)
    (recs : List (String × List Nat)) (N capIn capOut : Nat) (rf : Option (Nat × RunErr)) (hN : 1 ≤ N) (k : Nat)
    (hd : d = .failFrom k ∨ d = .failOnce k) (hk1 : 1 ≤ k)
    (hkW : k ≤ 1 + (snpsAggLines hard thrNum thrDen ref recs).length) {s : State _ _ _ _}
    (hr : Reach (snpsAggFCfg d [] [snpsAggHeader] hard thrNum thrDen ref recs N capIn capOut rf) s) :
    s.main ≠ .ret none :=
  agg_fault_reported (snpsAggF_isAW d [] [snpsAggHeader] hard thrNum thrDen ref recs N capIn capOut rf) hN
    (snps_rowsAre hard thrNum thrDen ref recs) k hd hk1 (by rw [aggW_A]; exact hkW) hr

/-- **C (1), which error**: rows as wide as the reference, a reader that does not fail: every run that cannot be
extended has returned the write error -/
theorem snps_agg_fault_maximal_run_write_error (d : Dest) (hard : Bool) (thrNum thrDen : Nat) (ref : List Nat)
    (recs : List (String × List Nat)) (N capIn capOut : Nat) (hN : 1 ≤ N) (hw : ∀ r ∈ recs, r.2.length = ref.length)
    (k : Nat) (hd : d = .failFrom k ∨ d = .failOnce k) (hk1 : 1 ≤ k)
    (hkW : k ≤ 1 + (snpsAggLines hard thrNum thrDen ref recs).length) {s : State _ _ _ _}
    (hr : Reach (snpsAggFCfg d [] [snpsAggHeader] hard thrNum thrDen ref recs N capIn capOut none) s)
    (hstuck : enabled (snpsAggFCfg d [] [snpsAggHeader] hard thrNum thrDen ref recs N capIn capOut none) s = []) :
    s.main = .ret (some .write) :=
  agg_fault_maximal_run_write_error (snpsAggF_isAW d [] [snpsAggHeader] hard thrNum thrDen ref recs N capIn capOut none)
    hN rfl (snpsAggF_all_ok hard ref recs hw) (snps_rowsAre hard thrNum thrDen ref recs) k hd hk1
    (by rw [aggW_A]; exact hkW) hr hstuck

/-- **C (2)**: whatever the destination, whenever the driver returns nil the text accepted is
`snpsAggregate hard thrNum thrDen ref recs`, and every one of the W calls succeeded -/
theorem snps_agg_fault_beyond_run_harmless (d : Dest) (hard : Bool) (thrNum thrDen : Nat) (ref : List Nat)
    (recs : List (String × List Nat)) (N capIn capOut : Nat) (rf : Option (Nat × RunErr)) (hN : 1 ≤ N)
    {s : State _ _ _ _}
    (hr : Reach (snpsAggFCfg d [] [snpsAggHeader] hard thrNum thrDen ref recs N capIn capOut rf) s)
    (hm : s.main = .ret none) :
    s.wst.sink.text = snpsAggregate hard thrNum thrDen ref recs ∧
      s.wst.sink.calls = 1 + (snpsAggLines hard thrNum thrDen ref recs).length ∧
      ∀ i, 1 ≤ i → i ≤ 1 + (snpsAggLines hard thrNum thrDen ref recs).length → d.fails i = false := by
  obtain ⟨h1, _, h3, h4⟩ := agg_fault_beyond_run_harmless
    (snpsAggF_isAW d [] [snpsAggHeader] hard thrNum thrDen ref recs N capIn capOut rf) hN
    (snps_rowsAre hard thrNum thrDen ref recs) hr hm
  rw [aggW_A] at h3 h4
  exact ⟨by rw [h1, aggCalls_A, snpsAggregate_eq_join], h3, h4⟩

/-- **C (2), whole runs**: rows as wide as the reference, a reader that does not fail, no call among the W of the run
fails (`ok`, or k > W): every run that cannot be extended has returned nil with `snpsAggregate` accepted -/
theorem snps_agg_fault_beyond_run_maximal (d : Dest) (hard : Bool) (thrNum thrDen : Nat) (ref : List Nat)
    (recs : List (String × List Nat)) (N capIn capOut : Nat) (hN : 1 ≤ N) (hw : ∀ r ∈ recs, r.2.length = ref.length)
    (hd : ∀ i, 1 ≤ i → i ≤ 1 + (snpsAggLines hard thrNum thrDen ref recs).length → d.fails i = false)
    {s : State _ _ _ _}
    (hr : Reach (snpsAggFCfg d [] [snpsAggHeader] hard thrNum thrDen ref recs N capIn capOut none) s)
    (hstuck : enabled (snpsAggFCfg d [] [snpsAggHeader] hard thrNum thrDen ref recs N capIn capOut none) s = []) :
    s.main = .ret none ∧ s.wst.sink.text = snpsAggregate hard thrNum thrDen ref recs := by
  obtain ⟨h1, h2⟩ := agg_fault_beyond_run_maximal
    (snpsAggF_isAW d [] [snpsAggHeader] hard thrNum thrDen ref recs N capIn capOut none) hN rfl
    (snpsAggF_all_ok hard ref recs hw) (snps_rowsAre hard thrNum thrDen ref recs)
    (by rw [aggW_A]; exact hd) hr hstuck
  exact ⟨h1, by rw [h2, aggCalls_A, snpsAggregate_eq_join]⟩

/-- **C (3)**: in every reachable state the text accepted is the header and the first rows of
`snpsAggregate hard thrNum thrDen ref recs`, whole, in table order (`snpsAggregate_eq_join`) -/
theorem snps_agg_written_is_prefix (d : Dest) (hard : Bool) (thrNum thrDen : Nat) (ref : List Nat)
    (recs : List (String × List Nat)) (N capIn capOut : Nat) (rf : Option (Nat × RunErr)) (hN : 1 ≤ N)
    {s : State _ _ _ _}
    (hr : Reach (snpsAggFCfg d [] [snpsAggHeader] hard thrNum thrDen ref recs N capIn capOut rf) s) :
    ∃ j, aggAccepted d [] [snpsAggHeader] ([], 0) snpsAccum (snpsAggRowsOf thrNum thrDen) s =
      String.join ((snpsAggHeader :: snpsAggLines hard thrNum thrDen ref recs).take j) :=
  agg_written_is_prefix (snpsAggF_isAW d [] [snpsAggHeader] hard thrNum thrDen ref recs N capIn capOut rf) hN
    (snps_rowsAre hard thrNum thrDen ref recs) hr

/-- **C (3), nothing before the last record**: while some record has not been absorbed the sink is empty: no call
has been made, nothing has been accepted -/
theorem snps_agg_sink_empty_before_all_arrived (d : Dest) (hard : Bool) (thrNum thrDen : Nat) (ref : List Nat)
    (recs : List (String × List Nat)) (N capIn capOut : Nat) (rf : Option (Nat × RunErr)) (hN : 1 ≤ N)
    {s : State _ _ _ _}
    (hr : Reach (snpsAggFCfg d [] [snpsAggHeader] hard thrNum thrDen ref recs N capIn capOut rf) s)
    {i : Nat} (hi : i < recs.length) (hni : i ∉ s.arrival.map Prod.fst) :
    s.wst.sink = Sink.empty ∧
      aggAccepted d [] [snpsAggHeader] ([], 0) snpsAccum (snpsAggRowsOf thrNum thrDen) s = "" :=
  agg_sink_empty_before_all_arrived
    (snpsAggF_isAW d [] [snpsAggHeader] hard thrNum thrDen ref recs N capIn capOut rf) hN hr
    (by simpa [snpsAggFCfg, encItems] using hi) hni

/-- **C (B)**: the aggregating writer that writes its header before the loop, the first call fails: nothing is ever
received, one call was made, main never returns nil -/
theorem snps_agg_header_fault_immediate (d : Dest) (hard : Bool) (thrNum thrDen : Nat) (ref : List Nat)
    (recs : List (String × List Nat)) (N capIn capOut : Nat) (rf : Option (Nat × RunErr))
    (hd : d = .failFrom 1 ∨ d = .failOnce 1) {s : State _ _ _ _}
    (hr : ReachFrom (snpsAggFCfg d [snpsAggHeader] [] hard thrNum thrDen ref recs N capIn capOut rf)
      (hdrStart (snpsAggFCfg d [snpsAggHeader] [] hard thrNum thrDen ref recs N capIn capOut rf) .write
        (Sink.putAll d Sink.empty [snpsAggHeader]).failed) s) :
    s.arrival = [] ∧ s.writer = .errS .write ∧ s.wst.sink = ⟨"", 1, true⟩ ∧ s.main ≠ .ret none := by
  obtain ⟨h1, h2, h3, _, h5⟩ := agg_header_fault_immediate
    (snpsAggF_isAW d [snpsAggHeader] [] hard thrNum thrDen ref recs N capIn capOut rf) (Dest.fails_of_at hd) hr
  exact ⟨h1, h2, h3, h5⟩

end snpsAggregate

/-! ### A (B). `gofasta snps`, per-sequence output, the header written at once -/

section snpsHeaderFirst
open Gofasta.Model.Sched Gofasta.Lemmas.Sched

/-- **A (B 1)** -/
theorem snps_hdr_fault_reported (d : Dest) (hard : Bool) (ref : List Nat) (recs : List (String × List Nat))
    (N capIn capOut : Nat) (rf : Option (Nat × RunErr)) (hN : 1 ≤ N) (k : Nat)
    (hd : d = .failFrom k ∨ d = .failOnce k) (hk1 : 1 ≤ k) (hkW : k ≤ 1 + recs.length) {s : State _ _ _ _}
    (hr : ReachFrom (snpsFCfg d hard ref recs N capIn capOut rf)
      (hdrStart (snpsFCfg d hard ref recs N capIn capOut rf) .write (d.fails 1)) s) : s.main ≠ .ret none := by
  apply hdr_fault_reported (snpsF_isFW d hard ref recs N capIn capOut rf) hN k hd hk1 _ hr
  intro ys hys
  rw [nCalls_uniform snpsChunks 1 (fun _ => rfl), map_ok_length hys]
  simpa [snpsFCfg, encItems] using hkW

/-- **A (B 2)** -/
theorem snps_hdr_fault_beyond_run_harmless (d : Dest) (hard : Bool) (ref : List Nat) (recs : List (String × List Nat))
    (N capIn capOut : Nat) (rf : Option (Nat × RunErr)) (hN : 1 ≤ N) {s : State _ _ _ _}
    (hr : ReachFrom (snpsFCfg d hard ref recs N capIn capOut rf)
      (hdrStart (snpsFCfg d hard ref recs N capIn capOut rf) .write (d.fails 1)) s) (hm : s.main = .ret none) :
    s.wst.sink.text = snpsOutput hard ref recs ∧ s.wst.sink.calls = 1 + recs.length ∧
      ∀ i, 1 ≤ i → i ≤ 1 + recs.length → d.fails i = false := by
  obtain ⟨ys, hys, htext, _, hcalls, hok⟩ :=
    hdr_fault_beyond_run_harmless (snpsF_isFW d hard ref recs N capIn capOut rf) hN hr hm
  have hy := snpsF_results hys
  have hn : nCalls snpsChunks ys = 1 + recs.length := by
    rw [nCalls_uniform snpsChunks 1 (fun _ => rfl), hy]; simp
  rw [hn] at hcalls hok
  refine ⟨?_, hcalls, hok⟩
  rw [htext, hy, List.map_map]
  simp only [snpsChunks, join_singleton]
  rfl

/-- **A (B 3)** -/
theorem snps_hdr_written_is_prefix (d : Dest) (hard : Bool) (ref : List Nat) (recs : List (String × List Nat))
    (N capIn capOut : Nat) (rf : Option (Nat × RunErr)) (hw : ∀ r ∈ recs, r.2.length = ref.length) {s : State _ _ _ _}
    (hr : ReachFrom (snpsFCfg d hard ref recs N capIn capOut rf)
      (hdrStart (snpsFCfg d hard ref recs N capIn capOut rf) .write (d.fails 1)) s) :
    ∃ j, accepted d snpsChunks "query,SNPs\n" 0 s =
      String.join (("query,SNPs\n" :: snpsLines hard ref recs).take j) := by
  obtain ⟨ys, hys⟩ := snpsF_all_ok d hard ref recs N capIn capOut rf hw
  obtain ⟨j, hj⟩ := hdr_written_is_prefix (snpsF_isFW d hard ref recs N capIn capOut rf) hr
  rw [goodPrefix_all_ok hys, snpsF_results hys, snps_callSeq] at hj
  exact ⟨j, hj⟩

/-- **A (B) header_fault_immediate**: `failFrom 1` or `failOnce 1`: on every schedule nothing reaches the writer, the
only call ever made is the header call, nothing is accepted, main never returns nil -/
theorem snps_header_fault_immediate (d : Dest) (hard : Bool) (ref : List Nat) (recs : List (String × List Nat))
    (N capIn capOut : Nat) (rf : Option (Nat × RunErr)) (hd : d = .failFrom 1 ∨ d = .failOnce 1) {s : State _ _ _ _}
    (hr : ReachFrom (snpsFCfg d hard ref recs N capIn capOut rf)
      (hdrStart (snpsFCfg d hard ref recs N capIn capOut rf) .write (d.fails 1)) s) :
    s.arrival = [] ∧ s.writer = .errS .write ∧ s.wst.sink = ⟨"", 1, true⟩ ∧
      accepted d snpsChunks "query,SNPs\n" 0 s = "" ∧ s.main ≠ .ret none :=
  header_fault_immediate' (snpsF_isFW d hard ref recs N capIn capOut rf) hd hr

end snpsHeaderFirst

/-! ### E'. `gofasta variants --aggregate` -/

section variantsAggregate
open Gofasta.Model.Sched Gofasta.Lemmas.Sched Gofasta.Driver Gofasta.Lemmas.SamVarPipeline
open Gofasta.Lemmas.AggVariants

/-- what the aggregating writer of variants accumulates: the counting map and the number of records counted -/
abbrev VarAcc := List (AggKey × Nat) × Nat

/-- the loop body (`VAggW.absorb` of SchedCommands): a record not named like the reference is counted, and so is each
of its mutations inside the window -/
def varAccum (vi : VarIn) (refID : String) (acc : VarAcc) (r : Nat × (String × List Variant)) : VarAcc :=
  if r.2.1 != refID then
    ((r.2.2.filter (inWindow vi.start vi.stop)).foldl (fun m v =>
      aggInsert { v := { v with snps := "" }, rep := formatVariant vi.append v } m) acc.1, acc.2 + 1)
  else acc

/-- the rows printed after the loop (`VAggW.finish` of SchedCommands, line by line) -/
def varAggRowsOf (vi : VarIn) (acc : VarAcc) : List String :=
  ((sortStable aggLt acc.1).filter fun e => e.2 * vi.thrd ≥ vi.thrn * acc.2).map fun e =>
    e.1.rep ++ "," ++ fmt9 e.2 acc.2 ++ "\n"

def varAggHeader : String := "mutation,frequency\n"

/-- the rows of the sequential table `Model.variantsAggregate` over the mutation lists ys -/
def varAggLines (vi : VarIn) (refID : String) (ys : List (String × List Variant)) : List String :=
  varAggRowsOf vi (aggCounts vi.append vi.start vi.stop refID ys, (ys.filter fun r => r.1 != refID).length)

/-- `Model.variantsAggregate` is the header followed by these rows -/
theorem variantsAggregate_eq_join (vi : VarIn) (refID : String) (ys : List (String × List Variant)) :
    variantsAggregate vi.append vi.start vi.stop vi.thrn vi.thrd refID ys =
      String.join (varAggHeader :: varAggLines vi refID ys) := by
  rw [variantsAggregate_eq]
  simp only [String.join_cons]
  rfl

def varAggFCfg (d : Dest) (hs pre : List String) (vi : VarIn)
    (pairFn : List Nat → List Nat → List Region → List Nat → List Variant)
    (refRow : List Nat) (rows : List (String × List Nat)) (refID : String) (regions : List Region) (inter : List Nat)
    (N capIn capOut : Nat) (rf : Option (Nat × RunErr)) :
    Cfg (String × List Nat) (String × List Variant) RunErr (AW VarAcc) where
  items := rows
  f := liftW (varWorker pairFn refRow regions inter)
  N := N
  capIn := capIn
  capOut := capOut
  readFail := rf
  absorb := AW.absorb (varAccum vi refID)
  finish := AW.finish d pre (varAggRowsOf vi) .write
  init := AW.start d hs ([], 0)

theorem varAggF_isAW (d : Dest) (hs pre : List String) (vi : VarIn)
    (pairFn : List Nat → List Nat → List Region → List Nat → List Variant)
    (refRow : List Nat) (rows : List (String × List Nat)) (refID : String) (regions : List Region) (inter : List Nat)
    (N capIn capOut : Nat) (rf : Option (Nat × RunErr)) :
    IsAW (varAggFCfg d hs pre vi pairFn refRow rows refID regions inter N capIn capOut rf) d hs pre ([], 0)
      (varAccum vi refID) (varAggRowsOf vi) .write :=
  ⟨fun _ _ => rfl, fun _ => rfl, rfl⟩

theorem var_fold_acc (vi : VarIn) (refID : String) : ∀ (arr : List (Nat × (String × List Variant))) (acc : VarAcc),
    arr.foldl (varAccum vi refID) acc =
      (((arr.map Prod.snd).filter fun r => r.1 != refID).foldl (fun m r =>
          (r.2.filter (inWindow vi.start vi.stop)).foldl (fun m v =>
            aggInsert { v := { v with snps := "" }, rep := formatVariant vi.append v } m) m) acc.1,
       acc.2 + ((arr.map Prod.snd).filter fun r => r.1 != refID).length) := by
  intro arr
  induction arr with
  | nil => intro acc; rfl
  | cons r t ih =>
    intro acc
    simp only [List.foldl_cons, ih, List.map_cons]
    by_cases hr : (r.2.1 != refID) = true
    · simp only [varAccum, hr, if_true, List.filter_cons, List.foldl_cons, List.length_cons]
      congr 1
      omega
    · simp only [varAccum, hr, Bool.false_eq_true, if_false, List.filter_cons]

/-- the accumulator after any arrival sequence: the counting map and the counter of `variantsAggregate` on the
mutation lists in arrival order -/
theorem var_fold_counts (vi : VarIn) (refID : String) (arr : List (Nat × (String × List Variant))) :
    arr.foldl (varAccum vi refID) ([], 0) =
      (aggCounts vi.append vi.start vi.stop refID (arr.map Prod.snd),
       ((arr.map Prod.snd).filter fun r => r.1 != refID).length) := by
  rw [var_fold_acc, counts_fold]
  simp only [Nat.zero_add]
  rfl

/-- **the table does not depend on the order of arrival**, provided two different counters that occur are never tied
under the sort key (`Separated`, as in SchedCommands; it holds for the model's caller: `model_separated`) -/
theorem var_rowsAre (vi : VarIn) (pairFn : List Nat → List Nat → List Region → List Nat → List Variant)
    (refRow : List Nat) (rows : List (String × List Nat)) (refID : String) (regions : List Region) (inter : List Nat)
    (hsep : Separated (aggKeys vi.append vi.start vi.stop refID
      (rows.map fun r => (r.1, pairFn refRow r.2 regions inter)))) :
    RowsAre rows (liftW (varWorker pairFn refRow regions inter)) (([], 0) : VarAcc) (varAccum vi refID)
      (varAggRowsOf vi) (varAggLines vi refID (rows.map fun r => (r.1, pairFn refRow r.2 regions inter))) := by
  intro arr hc
  obtain ⟨hperm, hgood⟩ := hc
  obtain ⟨ys, hys⟩ := outputs_exist (all_ok_of_complete hperm hgood)
  have hgood' : ∀ r ∈ arr, ys[r.1]? = some r.2 := by
    intro r hr
    obtain ⟨x, hx, hf⟩ := hgood r hr
    exact good_index hys hx hf
  rw [← map_ok_length hys] at hperm
  have hsnd := snd_perm_of_indexed hperm hgood'
  have hmap : ys = rows.map fun r => (r.1, pairFn refRow r.2 regions inter) :=
    map_ok_eq (varWorker_ok pairFn refRow regions inter) (map_liftW_ok.mp hys)
  rw [hmap] at hsnd
  have hsort := sorted_counts_any_order vi.append vi.start vi.stop refID _ _ hsnd.symm hsep
  have hlen := (hsnd.filter fun r => r.1 != refID).length_eq
  rw [var_fold_counts]
  simp only [varAggRowsOf, varAggLines, hsort, hlen]

theorem varAggF_all_ok (pairFn : List Nat → List Nat → List Region → List Nat → List Variant)
    (refRow : List Nat) (rows : List (String × List Nat)) (regions : List Region) (inter : List Nat)
    (hw : ∀ r ∈ rows, r.2.length = refRow.length) :
    ∀ x ∈ rows, ∃ y, liftW (varWorker pairFn refRow regions inter) x = .ok y := by
  intro x hx
  refine ⟨(x.1, pairFn refRow x.2 regions inter), ?_⟩
  apply liftW_of_ok
  simp [varWorker, hw x hx]

/-- the sequential text is `varCommand vi pairFn` (aggregate form) when every row is as wide as the reference row -/
theorem varAgg_text_eq (vi : VarIn) (pairFn : List Nat → List Nat → List Region → List Nat → List Variant)
    (refRow : List Nat) (rows : List (String × List Nat)) (refID : String) (regions : List Region) (inter : List Nat)
    (hra : refAndRows vi = some (refRow, rows, refID)) (hregs : varRegions vi refRow = some (regions, inter))
    (hagg : vi.agg = true) (hwid : ∀ r ∈ rows, r.2.length = refRow.length) :
    String.join (varAggHeader :: varAggLines vi refID (rows.map fun r => (r.1, pairFn refRow r.2 regions inter))) =
      varCommand vi pairFn := by
  have hwid' : rows.any (fun r => r.2.length != refRow.length) = false := by
    rw [List.any_eq_false]
    intro x hx
    simp [hwid x hx]
  rw [varCommand_unfold vi pairFn refRow rows refID regions inter hra hregs, hwid']
  simp only [hagg, if_true, Bool.false_eq_true, if_false]
  rw [variantsAggregate_eq_join]

/-- **E' (1)**: W = 1 + the number of rows of the table; the destination fails at call k, 1 ≤ k ≤ W: no schedule
returns nil -/
theorem variants_agg_fault_reported (d : Dest) (vi : VarIn)
    (pairFn : List Nat → List Nat → List Region → List Nat → List Variant)
    (refRow : List Nat) (rows : List (String × List Nat)) (refID : String) (regions : List Region) (inter : List Nat)
    (hsep : Separated (aggKeys vi.append vi.start vi.stop refID
      (rows.map fun r => (r.1, pairFn refRow r.2 regions inter))))
    (N capIn capOut : Nat) (rf : Option (Nat × RunErr)) (hN : 1 ≤ N) (k : Nat)
    (hd : d = .failFrom k ∨ d = .failOnce k) (hk1 : 1 ≤ k)
    (hkW : k ≤ 1 + (varAggLines vi refID (rows.map fun r => (r.1, pairFn refRow r.2 regions inter))).length)
    {s : State _ _ _ _}
    (hr : Reach (varAggFCfg d [] [varAggHeader] vi pairFn refRow rows refID regions inter N capIn capOut rf) s) :
    s.main ≠ .ret none :=
  agg_fault_reported (varAggF_isAW d [] [varAggHeader] vi pairFn refRow rows refID regions inter N capIn capOut rf) hN
    (var_rowsAre vi pairFn refRow rows refID regions inter hsep) k hd hk1 (by rw [aggW_A]; exact hkW) hr

/-- **E' (1), which error** -/
theorem variants_agg_fault_maximal_run_write_error (d : Dest) (vi : VarIn)
    (pairFn : List Nat → List Nat → List Region → List Nat → List Variant)
    (refRow : List Nat) (rows : List (String × List Nat)) (refID : String) (regions : List Region) (inter : List Nat)
    (hsep : Separated (aggKeys vi.append vi.start vi.stop refID
      (rows.map fun r => (r.1, pairFn refRow r.2 regions inter))))
    (N capIn capOut : Nat) (hN : 1 ≤ N) (hw : ∀ r ∈ rows, r.2.length = refRow.length) (k : Nat)
    (hd : d = .failFrom k ∨ d = .failOnce k) (hk1 : 1 ≤ k)
    (hkW : k ≤ 1 + (varAggLines vi refID (rows.map fun r => (r.1, pairFn refRow r.2 regions inter))).length)
    {s : State _ _ _ _}
    (hr : Reach (varAggFCfg d [] [varAggHeader] vi pairFn refRow rows refID regions inter N capIn capOut none) s)
    (hstuck : enabled (varAggFCfg d [] [varAggHeader] vi pairFn refRow rows refID regions inter N capIn capOut none) s
      = []) : s.main = .ret (some .write) :=
  agg_fault_maximal_run_write_error
    (varAggF_isAW d [] [varAggHeader] vi pairFn refRow rows refID regions inter N capIn capOut none) hN rfl
    (varAggF_all_ok pairFn refRow rows regions inter hw) (var_rowsAre vi pairFn refRow rows refID regions inter hsep)
    k hd hk1 (by rw [aggW_A]; exact hkW) hr hstuck

/-- **E' (2)**: whatever the destination, whenever the driver returns nil the text accepted is `varCommand vi pairFn`
(aggregate form) and every one of the W calls succeeded -/
theorem variants_agg_fault_beyond_run_harmless (d : Dest) (vi : VarIn)
    (pairFn : List Nat → List Nat → List Region → List Nat → List Variant)
    (refRow : List Nat) (rows : List (String × List Nat)) (refID : String) (regions : List Region) (inter : List Nat)
    (hra : refAndRows vi = some (refRow, rows, refID)) (hregs : varRegions vi refRow = some (regions, inter))
    (hagg : vi.agg = true)
    (hsep : Separated (aggKeys vi.append vi.start vi.stop refID
      (rows.map fun r => (r.1, pairFn refRow r.2 regions inter))))
    (N capIn capOut : Nat) (rf : Option (Nat × RunErr)) (hN : 1 ≤ N) {s : State _ _ _ _}
    (hr : Reach (varAggFCfg d [] [varAggHeader] vi pairFn refRow rows refID regions inter N capIn capOut rf) s)
    (hm : s.main = .ret none) :
    s.wst.sink.text = varCommand vi pairFn ∧
      s.wst.sink.calls =
        1 + (varAggLines vi refID (rows.map fun r => (r.1, pairFn refRow r.2 regions inter))).length ∧
      ∀ i, 1 ≤ i →
        i ≤ 1 + (varAggLines vi refID (rows.map fun r => (r.1, pairFn refRow r.2 regions inter))).length →
        d.fails i = false := by
  obtain ⟨h1, _, h3, h4⟩ := agg_fault_beyond_run_harmless
    (varAggF_isAW d [] [varAggHeader] vi pairFn refRow rows refID regions inter N capIn capOut rf) hN
    (var_rowsAre vi pairFn refRow rows refID regions inter hsep) hr hm
  rw [aggW_A] at h3 h4
  refine ⟨?_, h3, h4⟩
  have hall := (success_means_complete
    (cfg := varAggFCfg d [] [varAggHeader] vi pairFn refRow rows refID regions inter N capIn capOut rf) hN hr hm).2.1
  have hwid : ∀ r ∈ rows, r.2.length = refRow.length := by
    intro x hx
    obtain ⟨y, hy⟩ := hall x hx
    exact varWorker_width pairFn refRow regions inter x y (liftW_ok.mp hy)
  rw [h1, aggCalls_A]
  exact varAgg_text_eq vi pairFn refRow rows refID regions inter hra hregs hagg hwid

/-- **E' (2), whole runs** -/
theorem variants_agg_fault_beyond_run_maximal (d : Dest) (vi : VarIn)
    (pairFn : List Nat → List Nat → List Region → List Nat → List Variant)
    (refRow : List Nat) (rows : List (String × List Nat)) (refID : String) (regions : List Region) (inter : List Nat)
    (hra : refAndRows vi = some (refRow, rows, refID)) (hregs : varRegions vi refRow = some (regions, inter))
    (hagg : vi.agg = true)
    (hsep : Separated (aggKeys vi.append vi.start vi.stop refID
      (rows.map fun r => (r.1, pairFn refRow r.2 regions inter))))
    (N capIn capOut : Nat) (hN : 1 ≤ N) (hw : ∀ r ∈ rows, r.2.length = refRow.length)
    (hd : ∀ i, 1 ≤ i →
      i ≤ 1 + (varAggLines vi refID (rows.map fun r => (r.1, pairFn refRow r.2 regions inter))).length →
      d.fails i = false) {s : State _ _ _ _}
    (hr : Reach (varAggFCfg d [] [varAggHeader] vi pairFn refRow rows refID regions inter N capIn capOut none) s)
    (hstuck : enabled (varAggFCfg d [] [varAggHeader] vi pairFn refRow rows refID regions inter N capIn capOut none) s
      = []) :
    s.main = .ret none ∧ s.wst.sink.text = varCommand vi pairFn := by
  obtain ⟨h1, h2⟩ := agg_fault_beyond_run_maximal
    (varAggF_isAW d [] [varAggHeader] vi pairFn refRow rows refID regions inter N capIn capOut none) hN rfl
    (varAggF_all_ok pairFn refRow rows regions inter hw) (var_rowsAre vi pairFn refRow rows refID regions inter hsep)
    (by rw [aggW_A]; exact hd) hr hstuck
  refine ⟨h1, ?_⟩
  rw [h2, aggCalls_A]
  exact varAgg_text_eq vi pairFn refRow rows refID regions inter hra hregs hagg hw

/-- **E' (3)**: in every reachable state the text accepted is the header and the first rows of the table, whole, in
table order; with rows as wide as the reference row the whole sequence is `varCommand vi pairFn` -/
theorem variants_agg_written_is_prefix (d : Dest) (vi : VarIn)
    (pairFn : List Nat → List Nat → List Region → List Nat → List Variant)
    (refRow : List Nat) (rows : List (String × List Nat)) (refID : String) (regions : List Region) (inter : List Nat)
    (hsep : Separated (aggKeys vi.append vi.start vi.stop refID
      (rows.map fun r => (r.1, pairFn refRow r.2 regions inter))))
    (N capIn capOut : Nat) (rf : Option (Nat × RunErr)) (hN : 1 ≤ N) {s : State _ _ _ _}
    (hr : Reach (varAggFCfg d [] [varAggHeader] vi pairFn refRow rows refID regions inter N capIn capOut rf) s) :
    ∃ j, aggAccepted d [] [varAggHeader] ([], 0) (varAccum vi refID) (varAggRowsOf vi) s =
      String.join ((varAggHeader ::
        varAggLines vi refID (rows.map fun r => (r.1, pairFn refRow r.2 regions inter))).take j) :=
  agg_written_is_prefix (varAggF_isAW d [] [varAggHeader] vi pairFn refRow rows refID regions inter N capIn capOut rf)
    hN (var_rowsAre vi pairFn refRow rows refID regions inter hsep) hr

/-- **E' (3), nothing before the last record** (no hypothesis about ties) -/
theorem variants_agg_sink_empty_before_all_arrived (d : Dest) (vi : VarIn)
    (pairFn : List Nat → List Nat → List Region → List Nat → List Variant)
    (refRow : List Nat) (rows : List (String × List Nat)) (refID : String) (regions : List Region) (inter : List Nat)
    (N capIn capOut : Nat) (rf : Option (Nat × RunErr)) (hN : 1 ≤ N) {s : State _ _ _ _}
    (hr : Reach (varAggFCfg d [] [varAggHeader] vi pairFn refRow rows refID regions inter N capIn capOut rf) s)
    {i : Nat} (hi : i < rows.length) (hni : i ∉ s.arrival.map Prod.fst) :
    s.wst.sink = Sink.empty ∧
      aggAccepted d [] [varAggHeader] ([], 0) (varAccum vi refID) (varAggRowsOf vi) s = "" :=
  agg_sink_empty_before_all_arrived
    (varAggF_isAW d [] [varAggHeader] vi pairFn refRow rows refID regions inter N capIn capOut rf) hN hr hi hni

end variantsAggregate

/-! ### F'. `gofasta sam variants --aggregate`: two worker pools, the aggregating writer -/

section samVariantsAggregate
open Gofasta.Model.SchedChain Gofasta.Lemmas.SchedChain Gofasta.Driver Gofasta.Lemmas.SamVarPipeline Gofasta.Base
open Gofasta.Lemmas.AggVariants

/-- the loop body of the aggregating writer at the end of the chain (`svAggAbsorb` of SchedCommands): it ranges over
cVariants -/
def svAccum (vi : VarIn) (refID : String) (acc : VarAcc) (r : Nat × SV) : VarAcc :=
  match r.2 with
  | .vars n vs => varAccum vi refID acc (r.1, (n, vs))
  | _ => acc

def samVarAggFCfg (d : Dest) (hs pre : List String) (vi : VarIn) (refID : String) (refRaw : List Nat)
    (blocks : List (List SamRec)) (pairOf : List SamRec → List Nat → List Nat × List Nat)
    (caller : List Nat → List Nat → List Region → List Nat → List Variant)
    (regions : List Region) (inter : List Nat) (N1 N2 cap0 cap1 cap2 : Nat) (rf : Option (Nat × RunErr)) :
    Cfg SV RunErr (AW VarAcc) where
  items := blocks.map .block
  pools := [⟨N1, liftW (svPair pairOf (refRaw.map upper)), cap1⟩, ⟨N2, liftW (svCall caller regions inter), cap2⟩]
  cap0 := cap0
  readFail := rf
  absorb := AW.absorb (svAccum vi refID)
  finish := AW.finish d pre (varAggRowsOf vi) .write
  init := AW.start d hs ([], 0)

theorem samVarAggF_isAW (d : Dest) (hs pre : List String) (vi : VarIn) (refID : String) (refRaw : List Nat)
    (blocks : List (List SamRec)) (pairOf : List SamRec → List Nat → List Nat × List Nat)
    (caller : List Nat → List Nat → List Region → List Nat → List Variant)
    (regions : List Region) (inter : List Nat) (N1 N2 cap0 cap1 cap2 : Nat) (rf : Option (Nat × RunErr)) :
    IsAWc (samVarAggFCfg d hs pre vi refID refRaw blocks pairOf caller regions inter N1 N2 cap0 cap1 cap2 rf) d hs pre
      ([], 0) (svAccum vi refID) (varAggRowsOf vi) .write :=
  ⟨fun _ _ => rfl, fun _ => rfl, rfl⟩

theorem samVarAggF_pools_pos {d : Dest} {hs pre : List String} {vi : VarIn} {refID : String} {refRaw : List Nat}
    {blocks : List (List SamRec)} {pairOf : List SamRec → List Nat → List Nat × List Nat}
    {caller : List Nat → List Nat → List Region → List Nat → List Variant}
    {regions : List Region} {inter : List Nat} {N1 N2 cap0 cap1 cap2 : Nat} {rf : Option (Nat × RunErr)}
    (hN1 : 1 ≤ N1) (hN2 : 1 ≤ N2) :
    ∀ P ∈ (samVarAggFCfg d hs pre vi refID refRaw blocks pairOf caller regions inter N1 N2 cap0 cap1 cap2 rf).pools,
      1 ≤ P.N := by
  intro P hP
  simp only [samVarAggFCfg, List.mem_cons, List.not_mem_nil, or_false] at hP
  rcases hP with rfl | rfl
  · exact hN1
  · exact hN2

/-- every block goes through both pools -/
theorem samVarAggF_items_pass (d : Dest) (hs pre : List String) (vi : VarIn) (refID : String) (refRaw : List Nat)
    (blocks : List (List SamRec)) (pairOf : List SamRec → List Nat → List Nat × List Nat)
    (caller : List Nat → List Nat → List Region → List Nat → List Variant)
    (regions : List Region) (inter : List Nat) (N1 N2 cap0 cap1 cap2 : Nat) (rf : Option (Nat × RunErr)) :
    (samVarAggFCfg d hs pre vi refID refRaw blocks pairOf caller regions inter N1 N2 cap0 cap1 cap2 rf).items.map
      (pass (samVarAggFCfg d hs pre vi refID refRaw blocks pairOf caller regions inter N1 N2 cap0 cap1 cap2 rf).pools) =
    (blocks.map (svBoth refRaw pairOf caller regions inter)).map Except.ok := by
  simp only [samVarAggFCfg, List.map_map]
  rfl

theorem sv_fold_acc (vi : VarIn) (refID : String) : ∀ (arr : List (Nat × SV)) (acc : VarAcc),
    (∀ r ∈ arr, ∃ n vs, r.2 = .vars n vs) →
    arr.foldl (svAccum vi refID) acc = (arr.map fun r => (r.1, svRow r.2)).foldl (varAccum vi refID) acc := by
  intro arr
  induction arr with
  | nil => intro acc _; rfl
  | cons r t ih =>
    intro acc h
    obtain ⟨n, vs, hr⟩ := h r (by simp)
    simp only [List.foldl_cons, List.map_cons]
    rw [ih _ (fun r' hr' => h r' (by simp [hr']))]
    congr 1
    simp only [svAccum, hr, svRow]

/-- the mutation lists of the sequential run -/
def samLists (refRaw : List Nat) (blocks : List (List SamRec))
    (pairOf : List SamRec → List Nat → List Nat × List Nat)
    (caller : List Nat → List Nat → List Region → List Nat → List Variant) (regions : List Region) (inter : List Nat) :
    List (String × List Variant) :=
  blocks.map fun b =>
    (qnameOf b, caller (pairOf b (refRaw.map upper)).1 (pairOf b (refRaw.map upper)).2 regions inter)

/-- **the table of the two-pool chain does not depend on the order of arrival** (hypothesis `Separated`) -/
theorem samVar_rowsAre (d : Dest) (hs pre : List String) (vi : VarIn) (refID : String) (refRaw : List Nat)
    (blocks : List (List SamRec)) (pairOf : List SamRec → List Nat → List Nat × List Nat)
    (caller : List Nat → List Nat → List Region → List Nat → List Variant)
    (regions : List Region) (inter : List Nat) (N1 N2 cap0 cap1 cap2 : Nat) (rf : Option (Nat × RunErr))
    (hsep : Separated (aggKeys vi.append vi.start vi.stop refID (samLists refRaw blocks pairOf caller regions inter))) :
    RowsAre (samVarAggFCfg d hs pre vi refID refRaw blocks pairOf caller regions inter N1 N2 cap0 cap1 cap2 rf).items
      (pass (samVarAggFCfg d hs pre vi refID refRaw blocks pairOf caller regions inter N1 N2 cap0 cap1 cap2 rf).pools)
      (([], 0) : VarAcc) (svAccum vi refID) (varAggRowsOf vi)
      (varAggLines vi refID (samLists refRaw blocks pairOf caller regions inter)) := by
  intro arr hc
  obtain ⟨hperm, hgood⟩ := hc
  have hys := samVarAggF_items_pass d hs pre vi refID refRaw blocks pairOf caller regions inter N1 N2 cap0 cap1 cap2 rf
  have hgood' : ∀ r ∈ arr, (blocks.map (svBoth refRaw pairOf caller regions inter))[r.1]? = some r.2 := by
    intro r hr
    obtain ⟨x, hx, hf⟩ := hgood r hr
    exact good_index hys hx hf
  rw [← map_ok_length hys] at hperm
  have hsnd := snd_perm_of_indexed hperm hgood'
  have hvars : ∀ r ∈ arr, ∃ n vs, r.2 = .vars n vs := by
    intro r hr
    have : r.2 ∈ blocks.map (svBoth refRaw pairOf caller regions inter) :=
      hsnd.mem_iff.mp (List.mem_map.mpr ⟨r, hr, rfl⟩)
    obtain ⟨b, _, hb⟩ := List.mem_map.mp this
    exact ⟨_, _, hb.symm⟩
  have hrows : ((arr.map fun r => (r.1, svRow r.2)).map Prod.snd).Perm
      (samLists refRaw blocks pairOf caller regions inter) := by
    have := hsnd.map svRow
    rw [List.map_map, List.map_map] at this
    rw [List.map_map]
    exact this
  have hsort := sorted_counts_any_order vi.append vi.start vi.stop refID _ _ hrows.symm hsep
  have hlen := (hrows.filter fun r => r.1 != refID).length_eq
  rw [sv_fold_acc vi refID arr _ hvars, var_fold_counts]
  simp only [varAggRowsOf, varAggLines, hsort, hlen]

theorem samVarAgg_text_eq (vi : VarIn) (refID : String) (refRaw : List Nat) (blocks : List (List SamRec))
    (pairOf : List SamRec → List Nat → List Nat × List Nat)
    (caller : List Nat → List Nat → List Region → List Nat → List Variant)
    (regions : List Region) (inter : List Nat) (hregs : samRegions vi refRaw = some (regions, inter))
    (hagg : vi.agg = true) :
    String.join (varAggHeader :: varAggLines vi refID (samLists refRaw blocks pairOf caller regions inter)) =
      samVarOn vi refID refRaw blocks pairOf caller := by
  unfold samVarOn
  rw [hregs]
  simp only [hagg, if_true]
  rw [← variantsAggregate_eq_join]
  rfl

/-- **F' (1)**: any numbers of workers in the two pools, any capacities: the destination fails at call k,
1 ≤ k ≤ W = 1 + the number of rows of the table: no schedule of the chain returns nil -/
theorem sam_variants_agg_fault_reported (d : Dest) (vi : VarIn) (refID : String) (refRaw : List Nat)
    (blocks : List (List SamRec)) (pairOf : List SamRec → List Nat → List Nat × List Nat)
    (caller : List Nat → List Nat → List Region → List Nat → List Variant)
    (regions : List Region) (inter : List Nat)
    (hsep : Separated (aggKeys vi.append vi.start vi.stop refID (samLists refRaw blocks pairOf caller regions inter)))
    (N1 N2 cap0 cap1 cap2 : Nat) (rf : Option (Nat × RunErr)) (hN1 : 1 ≤ N1) (hN2 : 1 ≤ N2) (k : Nat)
    (hd : d = .failFrom k ∨ d = .failOnce k) (hk1 : 1 ≤ k)
    (hkW : k ≤ 1 + (varAggLines vi refID (samLists refRaw blocks pairOf caller regions inter)).length)
    {s : State _ _ _}
    (hr : Reach (samVarAggFCfg d [] [varAggHeader] vi refID refRaw blocks pairOf caller regions inter
      N1 N2 cap0 cap1 cap2 rf) s) : s.main ≠ .ret none :=
  chain_agg_fault_reported
    (samVarAggF_isAW d [] [varAggHeader] vi refID refRaw blocks pairOf caller regions inter N1 N2 cap0 cap1 cap2 rf)
    (samVarAggF_pools_pos hN1 hN2)
    (samVar_rowsAre d [] [varAggHeader] vi refID refRaw blocks pairOf caller regions inter N1 N2 cap0 cap1 cap2 rf hsep)
    k hd hk1 (by rw [aggW_A]; exact hkW) hr

/-- **F' (1), which error**: a reader that does not fail: every run of the chain that cannot be extended has returned
the write error -/
theorem sam_variants_agg_fault_maximal_run_write_error (d : Dest) (vi : VarIn) (refID : String) (refRaw : List Nat)
    (blocks : List (List SamRec)) (pairOf : List SamRec → List Nat → List Nat × List Nat)
    (caller : List Nat → List Nat → List Region → List Nat → List Variant)
    (regions : List Region) (inter : List Nat)
    (hsep : Separated (aggKeys vi.append vi.start vi.stop refID (samLists refRaw blocks pairOf caller regions inter)))
    (N1 N2 cap0 cap1 cap2 : Nat) (hN1 : 1 ≤ N1) (hN2 : 1 ≤ N2) (k : Nat)
    (hd : d = .failFrom k ∨ d = .failOnce k) (hk1 : 1 ≤ k)
    (hkW : k ≤ 1 + (varAggLines vi refID (samLists refRaw blocks pairOf caller regions inter)).length)
    {s : State _ _ _}
    (hr : Reach (samVarAggFCfg d [] [varAggHeader] vi refID refRaw blocks pairOf caller regions inter
      N1 N2 cap0 cap1 cap2 none) s)
    (hstuck : enabled (samVarAggFCfg d [] [varAggHeader] vi refID refRaw blocks pairOf caller regions inter
      N1 N2 cap0 cap1 cap2 none) s = []) : s.main = .ret (some .write) :=
  chain_agg_fault_maximal_run_write_error
    (samVarAggF_isAW d [] [varAggHeader] vi refID refRaw blocks pairOf caller regions inter N1 N2 cap0 cap1 cap2 none)
    (samVarAggF_pools_pos hN1 hN2) rfl
    (all_ok_of_map (samVarAggF_items_pass d [] [varAggHeader] vi refID refRaw blocks pairOf caller regions inter
      N1 N2 cap0 cap1 cap2 none))
    (samVar_rowsAre d [] [varAggHeader] vi refID refRaw blocks pairOf caller regions inter N1 N2 cap0 cap1 cap2 none hsep)
    k hd hk1 (by rw [aggW_A]; exact hkW) hr hstuck

/-- **F' (2)**: whatever the destination, whenever the driver returns nil the text accepted is
`samVarOn vi refID refRaw blocks pairOf caller` (aggregate form) -/
theorem sam_variants_agg_fault_beyond_run_harmless (d : Dest) (vi : VarIn) (refID : String) (refRaw : List Nat)
    (blocks : List (List SamRec)) (pairOf : List SamRec → List Nat → List Nat × List Nat)
    (caller : List Nat → List Nat → List Region → List Nat → List Variant)
    (regions : List Region) (inter : List Nat) (hregs : samRegions vi refRaw = some (regions, inter))
    (hagg : vi.agg = true)
    (hsep : Separated (aggKeys vi.append vi.start vi.stop refID (samLists refRaw blocks pairOf caller regions inter)))
    (N1 N2 cap0 cap1 cap2 : Nat) (rf : Option (Nat × RunErr)) (hN1 : 1 ≤ N1) (hN2 : 1 ≤ N2) {s : State _ _ _}
    (hr : Reach (samVarAggFCfg d [] [varAggHeader] vi refID refRaw blocks pairOf caller regions inter
      N1 N2 cap0 cap1 cap2 rf) s) (hm : s.main = .ret none) :
    s.wst.sink.text = samVarOn vi refID refRaw blocks pairOf caller ∧
      s.wst.sink.calls = 1 + (varAggLines vi refID (samLists refRaw blocks pairOf caller regions inter)).length ∧
      ∀ i, 1 ≤ i → i ≤ 1 + (varAggLines vi refID (samLists refRaw blocks pairOf caller regions inter)).length →
        d.fails i = false := by
  obtain ⟨h1, _, h3, h4⟩ := chain_agg_fault_beyond_run_harmless
    (samVarAggF_isAW d [] [varAggHeader] vi refID refRaw blocks pairOf caller regions inter N1 N2 cap0 cap1 cap2 rf)
    (samVarAggF_pools_pos hN1 hN2)
    (samVar_rowsAre d [] [varAggHeader] vi refID refRaw blocks pairOf caller regions inter N1 N2 cap0 cap1 cap2 rf hsep)
    hr hm
  rw [aggW_A] at h3 h4
  refine ⟨?_, h3, h4⟩
  rw [h1, aggCalls_A]
  exact samVarAgg_text_eq vi refID refRaw blocks pairOf caller regions inter hregs hagg

/-- **F' (3)**: in every reachable state of the two-pool chain the text accepted is the header and the first rows of
the table; nothing before the last record -/
theorem sam_variants_agg_written_is_prefix (d : Dest) (vi : VarIn) (refID : String) (refRaw : List Nat)
    (blocks : List (List SamRec)) (pairOf : List SamRec → List Nat → List Nat × List Nat)
    (caller : List Nat → List Nat → List Region → List Nat → List Variant)
    (regions : List Region) (inter : List Nat)
    (hsep : Separated (aggKeys vi.append vi.start vi.stop refID (samLists refRaw blocks pairOf caller regions inter)))
    (N1 N2 cap0 cap1 cap2 : Nat) (rf : Option (Nat × RunErr)) (hN1 : 1 ≤ N1) (hN2 : 1 ≤ N2) {s : State _ _ _}
    (hr : Reach (samVarAggFCfg d [] [varAggHeader] vi refID refRaw blocks pairOf caller regions inter
      N1 N2 cap0 cap1 cap2 rf) s) :
    ∃ j, chainAggAccepted d [] [varAggHeader] ([], 0) (svAccum vi refID) (varAggRowsOf vi) s =
      String.join ((varAggHeader ::
        varAggLines vi refID (samLists refRaw blocks pairOf caller regions inter)).take j) :=
  chain_agg_written_is_prefix
    (samVarAggF_isAW d [] [varAggHeader] vi refID refRaw blocks pairOf caller regions inter N1 N2 cap0 cap1 cap2 rf)
    (samVarAggF_pools_pos hN1 hN2)
    (samVar_rowsAre d [] [varAggHeader] vi refID refRaw blocks pairOf caller regions inter N1 N2 cap0 cap1 cap2 rf hsep)
    hr

theorem sam_variants_agg_sink_empty_before_all_arrived (d : Dest) (vi : VarIn) (refID : String) (refRaw : List Nat)
    (blocks : List (List SamRec)) (pairOf : List SamRec → List Nat → List Nat × List Nat)
    (caller : List Nat → List Nat → List Region → List Nat → List Variant)
    (regions : List Region) (inter : List Nat)
    (N1 N2 cap0 cap1 cap2 : Nat) (rf : Option (Nat × RunErr)) (hN1 : 1 ≤ N1) (hN2 : 1 ≤ N2) {s : State _ _ _}
    (hr : Reach (samVarAggFCfg d [] [varAggHeader] vi refID refRaw blocks pairOf caller regions inter
      N1 N2 cap0 cap1 cap2 rf) s) {i : Nat} (hi : i < blocks.length) (hni : i ∉ s.arrival.map Prod.fst) :
    s.wst.sink = Sink.empty := by
  have := chain_agg_nothing_before_all_arrived
    (samVarAggF_isAW d [] [varAggHeader] vi refID refRaw blocks pairOf caller regions inter N1 N2 cap0 cap1 cap2 rf)
    (samVarAggF_pools_pos hN1 hN2) hr (i := i) (by simpa [samVarAggFCfg] using hi) hni
  exact this.2.1

end samVariantsAggregate

/-! ## the statements are not vacuous: concrete inputs, two schedules each (by decide) -/

section runs
open Gofasta.Model.Sched Gofasta.Lemmas.Sched
variable {σ : Type}

theorem runWith_reachFrom {cfg : Cfg α β ε σ} {s0 : State α β ε σ} (sched : List Nat) {s : State α β ε σ}
    (hr : ReachFrom cfg s0 s) : ReachFrom cfg s0 (runWith (step? cfg) cfg.N s sched) := by
  induction sched generalizing s with
  | nil => exact hr
  | cons k ks ih =>
    simp only [runWith]
    split
    · exact hr
    · rename_i l _
      split
      · rename_i s' hs; exact ih (ReachFrom.step l hr hs)
      · exact hr

/-- run a schedule from the header-first start state -/
def runHdr (cfg : Cfg α β ε σ) (e : ε) (failed : Bool) (sched : List Nat) : State α β ε σ :=
  runWith (step? cfg) cfg.N (hdrStart cfg e failed) sched

theorem runHdr_reachFrom (cfg : Cfg α β ε σ) (e : ε) (failed : Bool) (sched : List Nat) :
    ReachFrom cfg (hdrStart cfg e failed) (runHdr cfg e failed sched) :=
  runWith_reachFrom sched ReachFrom.start

end runs

namespace Examples
open Gofasta.Lemmas.SchedCommands.Examples Gofasta.Lemmas.SchedFaults.Examples

/-! ### C. snps --aggregate (threshold 0): reference ACGT, rows ACGA, TCGT, AGGA; two workers, cIn of capacity 1,
cOut of capacity 2. The table has three rows - A1T, C2G, T4A - so W = 4: header, first row, MIDDLE row, LAST row -/

def aggRecs : List (String × List Nat) :=
  [("q1", [65, 67, 71, 65]), ("q2", [84, 67, 71, 84]), ("q3", [65, 71, 71, 65])]

def aggFEx (d : Dest) := snpsAggFCfg d [] [snpsAggHeader] false 0 1 exRef aggRecs 2 1 2 none

abbrev accEx (d : Dest) (s : Model.Sched.State (String × List Nat) (String × List Snp) RunErr (AW SnpAcc)) : String :=
  aggAccepted d [] [snpsAggHeader] ([], 0) snpsAccum (snpsAggRowsOf 0 1) s

/-- the sequential table, and W -/
example :
    snpsAggregate false 0 1 exRef aggRecs = "SNP,frequency\nA1T,0.333333333\nC2G,0.333333333\nT4A,0.666666667\n" ∧
    1 + (snpsAggLines false 0 1 exRef aggRecs).length = 4 := by
  decide

/-- **a fault at the header call** (the 1st of 4), permanent and transient: two schedules with different arrival
orders, both return the write error, nothing was accepted -/
example :
    (Model.Sched.runSchedule (aggFEx (.failFrom 1)) sched1).arrival.map (·.1) = [0, 1, 2] ∧
    (Model.Sched.runSchedule (aggFEx (.failFrom 1)) sched2).arrival.map (·.1) = [1, 0, 2] ∧
    (Model.Sched.runSchedule (aggFEx (.failFrom 1)) sched1).main = .ret (some .write) ∧
    (Model.Sched.runSchedule (aggFEx (.failFrom 1)) sched2).main = .ret (some .write) ∧
    (Model.Sched.runSchedule (aggFEx (.failOnce 1)) sched1).main = .ret (some .write) ∧
    (Model.Sched.runSchedule (aggFEx (.failOnce 1)) sched2).main = .ret (some .write) ∧
    accEx (.failFrom 1) (Model.Sched.runSchedule (aggFEx (.failFrom 1)) sched1) = "" ∧
    accEx (.failOnce 1) (Model.Sched.runSchedule (aggFEx (.failOnce 1)) sched2) = "" := by
  decide

/-- **a fault at a middle row** (call 3 of 4: the row C2G): both schedules return the write error; the header and the
first row were accepted -/
example :
    (Model.Sched.runSchedule (aggFEx (.failFrom 3)) sched1).main = .ret (some .write) ∧
    (Model.Sched.runSchedule (aggFEx (.failFrom 3)) sched2).main = .ret (some .write) ∧
    (Model.Sched.runSchedule (aggFEx (.failOnce 3)) sched1).main = .ret (some .write) ∧
    (Model.Sched.runSchedule (aggFEx (.failOnce 3)) sched2).main = .ret (some .write) ∧
    accEx (.failFrom 3) (Model.Sched.runSchedule (aggFEx (.failFrom 3)) sched1) = "SNP,frequency\nA1T,0.333333333\n" ∧
    accEx (.failOnce 3) (Model.Sched.runSchedule (aggFEx (.failOnce 3)) sched2) = "SNP,frequency\nA1T,0.333333333\n" ∧
    (Model.Sched.runSchedule (aggFEx (.failFrom 3)) sched1).wst.sink = Sink.empty := by
  decide

/-- **a fault at the last row** (call 4 of 4) -/
example :
    (Model.Sched.runSchedule (aggFEx (.failFrom 4)) sched1).main = .ret (some .write) ∧
    (Model.Sched.runSchedule (aggFEx (.failFrom 4)) sched2).main = .ret (some .write) ∧
    (Model.Sched.runSchedule (aggFEx (.failOnce 4)) sched1).main = .ret (some .write) ∧
    (Model.Sched.runSchedule (aggFEx (.failOnce 4)) sched2).main = .ret (some .write) ∧
    accEx (.failOnce 4) (Model.Sched.runSchedule (aggFEx (.failOnce 4)) sched2) =
      "SNP,frequency\nA1T,0.333333333\nC2G,0.333333333\n" := by
  decide

/-- **no fault, and a fault beyond the run** (k = 5 > W = 4): nil and the full sequential text on both schedules,
four calls made -/
example :
    (Model.Sched.runSchedule (aggFEx .ok) sched1).main = .ret none ∧
    (Model.Sched.runSchedule (aggFEx .ok) sched2).main = .ret none ∧
    (Model.Sched.runSchedule (aggFEx (.failFrom 5)) sched1).main = .ret none ∧
    (Model.Sched.runSchedule (aggFEx (.failFrom 5)) sched2).main = .ret none ∧
    (Model.Sched.runSchedule (aggFEx .ok) sched1).wst.sink.text = snpsAggregate false 0 1 exRef aggRecs ∧
    (Model.Sched.runSchedule (aggFEx .ok) sched2).wst.sink.text = snpsAggregate false 0 1 exRef aggRecs ∧
    (Model.Sched.runSchedule (aggFEx (.failFrom 5)) sched2).wst.sink.text = snpsAggregate false 0 1 exRef aggRecs ∧
    (Model.Sched.runSchedule (aggFEx .ok) sched2).wst.sink.calls = 4 ∧
    accEx .ok (Model.Sched.runSchedule (aggFEx .ok) sched2) = snpsAggregate false 0 1 exRef aggRecs := by
  decide

/-- **nothing is written before the last record**: the second schedule stopped after 12, 13 and 17 steps: one, two,
three records have arrived, the writer is at the head of its loop, no call has been made; the 18th step is `finish`:
four calls -/
example :
    (Model.Sched.runSchedule (aggFEx .ok) (sched2.take 12)).arrival.map (·.1) = [1] ∧
    (Model.Sched.runSchedule (aggFEx .ok) (sched2.take 12)).wst.sink = Sink.empty ∧
    (Model.Sched.runSchedule (aggFEx .ok) (sched2.take 13)).arrival.map (·.1) = [1, 0] ∧
    (Model.Sched.runSchedule (aggFEx .ok) (sched2.take 13)).wst.sink = Sink.empty ∧
    (Model.Sched.runSchedule (aggFEx .ok) (sched2.take 17)).arrival.map (·.1) = [1, 0, 2] ∧
    (Model.Sched.runSchedule (aggFEx .ok) (sched2.take 17)).wst.sink = Sink.empty ∧
    (Model.Sched.runSchedule (aggFEx .ok) (sched2.take 17)).writer = .recv ∧
    (Model.Sched.runSchedule (aggFEx .ok) (sched2.take 18)).writer = .doneS ∧
    (Model.Sched.runSchedule (aggFEx .ok) (sched2.take 18)).wst.sink.calls = 4 := by
  decide

/-- and the general theorems say so about every schedule -/
example (sched : List Nat) : (Model.Sched.runSchedule (aggFEx (.failOnce 3)) sched).main ≠ .ret none :=
  snps_agg_fault_reported (.failOnce 3) false 0 1 exRef aggRecs 2 1 2 none (by decide) 3 (Or.inr rfl) (by decide)
    (by decide) (Lemmas.Sched.runSchedule_reach _ sched)

example (sched : List Nat) (h : (Model.Sched.runSchedule (aggFEx (.failFrom 5)) sched).main = .ret none) :
    (Model.Sched.runSchedule (aggFEx (.failFrom 5)) sched).wst.sink.text =
      "SNP,frequency\nA1T,0.333333333\nC2G,0.333333333\nT4A,0.666666667\n" :=
  (snps_agg_fault_beyond_run_harmless (.failFrom 5) false 0 1 exRef aggRecs 2 1 2 none (by decide)
    (Lemmas.Sched.runSchedule_reach _ sched) h).1.trans (by decide)

/-! ### E'. variants --aggregate: the alignment of SchedCommands.Examples, reference from standard input; the table
has three rows, W = 4 -/

section variantsExample
open Gofasta.Driver Gofasta.Lemmas.SamVarPipeline Gofasta.Base Gofasta.Lemmas.AggVariants

def varAggFEx (d : Dest) :=
  varAggFCfg d [] [varAggHeader] (exVi "stdin" true) modelPair pvRef exRows "ref" exRegs.1 exRegs.2 2 1 2 none

/-- a fault at the header call, at the middle row, at the last row: both schedules (two arrival orders) return the
write error; no fault within the run: nil and `varCommand` -/
example :
    (Model.Sched.runSchedule (varAggFEx (.failOnce 3)) sched1).arrival.map (·.1) = [0, 1, 2] ∧
    (Model.Sched.runSchedule (varAggFEx (.failOnce 3)) sched2).arrival.map (·.1) = [1, 0, 2] ∧
    (Model.Sched.runSchedule (varAggFEx (.failFrom 1)) sched1).main = .ret (some .write) ∧
    (Model.Sched.runSchedule (varAggFEx (.failFrom 1)) sched2).main = .ret (some .write) ∧
    (Model.Sched.runSchedule (varAggFEx (.failOnce 3)) sched1).main = .ret (some .write) ∧
    (Model.Sched.runSchedule (varAggFEx (.failOnce 3)) sched2).main = .ret (some .write) ∧
    (Model.Sched.runSchedule (varAggFEx (.failFrom 4)) sched1).main = .ret (some .write) ∧
    (Model.Sched.runSchedule (varAggFEx (.failFrom 4)) sched2).main = .ret (some .write) ∧
    (Model.Sched.runSchedule (varAggFEx (.failOnce 5)) sched1).main = .ret none ∧
    (Model.Sched.runSchedule (varAggFEx .ok) sched2).main = .ret none ∧
    (Model.Sched.runSchedule (varAggFEx (.failOnce 5)) sched1).wst.sink.text = varCommand (exVi "stdin" true) modelPair ∧
    (Model.Sched.runSchedule (varAggFEx .ok) sched2).wst.sink.text = varCommand (exVi "stdin" true) modelPair ∧
    varCommand (exVi "stdin" true) modelPair =
      "mutation,frequency\naa:g:A2V(nuc:C5T),0.333333333\ndel:4:1,0.333333333\nnuc:C14T,0.333333333\n" := by
  decide +kernel

end variantsExample

/-! ### F'. sam variants --aggregate: two pools of two workers (the blocks of SchedFaults.Examples); the table has four
rows, W = 5; a transient fault at call 3 (a middle row) -/

section chainExample
open Gofasta.Driver Gofasta.Lemmas.SamVarPipeline Gofasta.Base Gofasta.Lemmas.AggVariants

def samAggFEx (d : Dest) := samVarAggFCfg d [] [varAggHeader] (pvVi "gff" true) "ref" pvRef
  (samBlocks [pvRec, pvRec2, pvRec3]) (fun b r => blockToSeqPair b r) modelPair svRegs.1 svRegs.2 2 2 1 2 2 none

set_option maxRecDepth 100000 in
example :
    (Model.SchedChain.runSchedule (samAggFEx (.failOnce 3)) csched1).arrival.map (·.1) = [0, 1, 2] ∧
    (Model.SchedChain.runSchedule (samAggFEx (.failOnce 3)) csched2).arrival.map (·.1) = [1, 0, 2] ∧
    (Model.SchedChain.runSchedule (samAggFEx (.failOnce 3)) csched1).main = .ret (some .write) ∧
    (Model.SchedChain.runSchedule (samAggFEx (.failOnce 3)) csched2).main = .ret (some .write) ∧
    (Model.SchedChain.runSchedule (samAggFEx (.failFrom 1)) csched2).main = .ret (some .write) ∧
    (Model.SchedChain.runSchedule (samAggFEx (.failFrom 5)) csched2).main = .ret (some .write) ∧
    chainAggAccepted (.failOnce 3) [] [varAggHeader] ([], 0) (svAccum (pvVi "gff" true) "ref")
      (varAggRowsOf (pvVi "gff" true)) (Model.SchedChain.runSchedule (samAggFEx (.failOnce 3)) csched2) =
        "mutation,frequency\naa:g:A2E(nuc:C5A),0.333333333\n" := by
  decide +kernel

set_option maxRecDepth 100000 in
example :
    (Model.SchedChain.runSchedule (samAggFEx .ok) csched1).main = .ret none ∧
    (Model.SchedChain.runSchedule (samAggFEx (.failFrom 6)) csched2).main = .ret none ∧
    (Model.SchedChain.runSchedule (samAggFEx .ok) csched1).wst.sink.text =
      "mutation,frequency\naa:g:A2E(nuc:C5A),0.333333333\naa:g:A2V(nuc:C5T),0.333333333\nins:4:1,0.333333333\ndel:8:2,0.333333333\n" ∧
    (Model.SchedChain.runSchedule (samAggFEx (.failFrom 6)) csched2).wst.sink.text =
      "mutation,frequency\naa:g:A2E(nuc:C5A),0.333333333\naa:g:A2V(nuc:C5T),0.333333333\nins:4:1,0.333333333\ndel:8:2,0.333333333\n" ∧
    (Model.SchedChain.runSchedule (samAggFEx .ok) csched2).wst.sink.calls = 5 := by
  decide +kernel

/-- the general theorem on this input: no schedule of the two-pool chain returns nil (the tie hypothesis `Separated`
is decided on the four keys that occur) -/
example (sched : List Nat) : (Model.SchedChain.runSchedule (samAggFEx (.failOnce 3)) sched).main ≠ .ret none :=
  sam_variants_agg_fault_reported (.failOnce 3) (pvVi "gff" true) "ref" pvRef (samBlocks [pvRec, pvRec2, pvRec3])
    (fun b r => blockToSeqPair b r) modelPair svRegs.1 svRegs.2 (by rw [separated_iff]; decide +kernel) 2 2 1 2 2 none
    (by decide) (by decide) 3 (Or.inr rfl) (by decide) (by decide +kernel) (Lemmas.SchedChain.runSchedule_reach _ sched)

end chainExample

/-! ### (B) the header write at once: `gofasta snps` per-sequence output (the configuration of SchedFaults.Examples) -/

/-- the first call fails: on both schedules main returns the write error, nothing has arrived at the writer, one
call was made; the schedule [1] takes main's `cErr` arm as the very first step (SchedFaults: the same fault is
reported when the first record arrives - there one record has arrived) -/
example :
    (runHdr (snpsFEx (.failFrom 1)) .write ((Dest.failFrom 1).fails 1) sched1).main = .ret (some .write) ∧
    (runHdr (snpsFEx (.failFrom 1)) .write ((Dest.failFrom 1).fails 1) sched2).main = .ret (some .write) ∧
    (runHdr (snpsFEx (.failFrom 1)) .write ((Dest.failFrom 1).fails 1) sched2).arrival = [] ∧
    (runHdr (snpsFEx (.failOnce 1)) .write ((Dest.failOnce 1).fails 1) sched2).main = .ret (some .write) ∧
    (runHdr (snpsFEx (.failOnce 1)) .write ((Dest.failOnce 1).fails 1) sched2).wst.sink = ⟨"", 1, true⟩ ∧
    (runHdr (snpsFEx (.failFrom 1)) .write ((Dest.failFrom 1).fails 1) [1]).main = .ret (some .write) ∧
    (Model.Sched.runSchedule (snpsFEx (.failFrom 1)) sched1).arrival.length = 1 := by
  decide

/-- a schedule that lets the pipeline run as long as possible before main takes the error (a step other than main's
`cErr` arm is chosen as long as there is one): cOut fills up, a worker blocks on its send, main gets to stage 2, then
only main's `cErr` arm is left - and still nothing has reached the writer -/
example :
    (runHdr (snpsFEx (.failFrom 1)) .write true [0, 1, 0, 1, 1, 0, 1, 1, 1, 1]).arrival = [] ∧
    (runHdr (snpsFEx (.failFrom 1)) .write true [0, 1, 0, 1, 1, 0, 1, 1, 1, 1]).writer = .errS .write ∧
    (runHdr (snpsFEx (.failFrom 1)) .write true [0, 1, 0, 1, 1, 0, 1, 1, 1, 1]).main = .stage2 ∧
    (runHdr (snpsFEx (.failFrom 1)) .write true [0, 1, 0, 1, 1, 0, 1, 1, 1, 1]).cOut.queue.map (·.1) = [0, 1] ∧
    Model.Sched.enabled (snpsFEx (.failFrom 1))
      (runHdr (snpsFEx (.failFrom 1)) .write true [0, 1, 0, 1, 1, 0, 1, 1, 1, 1]) = [.mainErrWriter] ∧
    (runHdr (snpsFEx (.failFrom 1)) .write true [0, 1, 0, 1, 1, 0, 1, 1, 1, 1, 0]).main = .ret (some .write) := by
  decide

/-- the header call succeeds: the header-first start is `init`; a fault at a middle call, and no fault -/
example :
    (runHdr (snpsFEx (.failFrom 3)) .write ((Dest.failFrom 3).fails 1) sched1).main = .ret (some .write) ∧
    (runHdr (snpsFEx (.failFrom 3)) .write ((Dest.failFrom 3).fails 1) sched2).main = .ret (some .write) ∧
    (runHdr (snpsFEx .ok) .write (Dest.ok.fails 1) sched2).main = .ret none ∧
    (runHdr (snpsFEx .ok) .write (Dest.ok.fails 1) sched2).wst.sink.text = snpsOutput false exRef exRecs := by
  decide

/-- the general theorem: on EVERY schedule from the header-first start nothing is ever presented after the header -/
example (sched : List Nat) :
    (runHdr (snpsFEx (.failOnce 1)) .write ((Dest.failOnce 1).fails 1) sched).arrival = [] ∧
    (runHdr (snpsFEx (.failOnce 1)) .write ((Dest.failOnce 1).fails 1) sched).main ≠ .ret none := by
  obtain ⟨h1, _, _, _, h5⟩ := snps_header_fault_immediate (.failOnce 1) false exRef exRecs 2 1 2 none (Or.inr rfl)
    (runHdr_reachFrom _ _ _ sched)
  exact ⟨h1, h5⟩

/-- (B) for the aggregating writer that writes its header before the loop -/
example :
    (runHdr (snpsAggFCfg (.failFrom 1) [snpsAggHeader] [] false 0 1 exRef aggRecs 2 1 2 none) .write true sched2).main
      = .ret (some .write) ∧
    (runHdr (snpsAggFCfg (.failFrom 1) [snpsAggHeader] [] false 0 1 exRef aggRecs 2 1 2 none) .write true sched2).arrival
      = [] ∧
    (runHdr (snpsAggFCfg (.failOnce 3) [snpsAggHeader] [] false 0 1 exRef aggRecs 2 1 2 none) .write false sched2).main
      = .ret (some .write) ∧
    (runHdr (snpsAggFCfg .ok [snpsAggHeader] [] false 0 1 exRef aggRecs 2 1 2 none) .write false sched2).wst.sink.text
      = snpsAggregate false 0 1 exRef aggRecs := by
  decide

end Examples

end Gofasta.Lemmas.SchedFaultsAgg
