import Gofasta.Lemmas.PairSpec
import Gofasta.Lemmas.SortSpec
import Gofasta.Props.C15
/-
C02 for a query aligned by ANY number of records (supplementary alignments; overlapping or not, conflicting or not,
insertions anywhere, also exactly at a boundary shared by two records): the pair written by `blockToSeqPair` is the
specification `specPair` (`blockToSeqPair_eq_specPair`), hence lossless (`multi_ref_lossless`), of equal row lengths
(`multi_lengths`), and equal to the `toMultiAlign --pad` row once the insertion columns are deleted
(`multi_skip_insertions`).  Route: rows as layouts by reference position (Part 0), one row through the fold of
`applyInsertion` over the position-sorted insertions (Part 1), the CIGAR walk as a layout (Part 2), the stable sort
(Part 3), the merged rows (Part 4), flattening (Parts 5-7), the comparison with the specification (Part 8).
-/
namespace Gofasta.Lemmas.PairMulti
open Gofasta Model Spec Gofasta.Props.C01 Gofasta.Props.C02 Gofasta.Lemmas

/-! ### Part 0 — layouts: a row written position by position

`lay n seg base` = seg 0, base 0, seg 1, base 1, …, base (n-1), seg n : the columns inserted before reference
position p (`seg p`) followed by the column of position p (`base p`), for the first n positions, and the columns
inserted after the last of them. -/

section Layout
variable {α : Type}

theorem flatMap_congr' {β γ : Type} (f g : β → List γ) : ∀ (l : List β), (∀ x ∈ l, f x = g x) → l.flatMap f = l.flatMap g := by
  intro l
  induction l with
  | nil => intro _; rfl
  | cons a t ih =>
    intro h
    simp only [List.flatMap_cons]
    rw [h a (List.mem_cons_self), ih (fun x hx => h x (List.mem_cons_of_mem _ hx))]

def pre (seg : Nat → List α) (base : Nat → α) (p : Nat) : List α :=
  (List.range p).flatMap fun i => seg i ++ [base i]

def lay (n : Nat) (seg : Nat → List α) (base : Nat → α) : List α := pre seg base n ++ seg n

def post (seg : Nat → List α) (base : Nat → α) (p n : Nat) : List α :=
  (List.range (n - p)).flatMap fun i => base (p + i) :: seg (p + i + 1)

theorem pre_zero (seg : Nat → List α) (base : Nat → α) : pre seg base 0 = [] := rfl

theorem pre_succ (seg : Nat → List α) (base : Nat → α) (p : Nat) :
    pre seg base (p + 1) = pre seg base p ++ (seg p ++ [base p]) := by
  unfold pre
  rw [List.range_succ, List.flatMap_append]
  simp

theorem lay_succ (seg : Nat → List α) (base : Nat → α) (n : Nat) :
    lay (n + 1) seg base = lay n seg base ++ base n :: seg (n + 1) := by
  unfold lay
  rw [pre_succ]
  simp

theorem pre_congr (seg seg' : Nat → List α) (base base' : Nat → α) (p : Nat)
    (hs : ∀ i, i < p → seg i = seg' i) (hb : ∀ i, i < p → base i = base' i) : pre seg base p = pre seg' base' p := by
  unfold pre
  apply flatMap_congr'
  intro i hi
  have hi' := List.mem_range.1 hi
  rw [hs i hi', hb i hi']

theorem post_congr (seg seg' : Nat → List α) (base base' : Nat → α) (p n : Nat)
    (hs : ∀ i, p < i → i ≤ n → seg i = seg' i) (hb : ∀ i, p ≤ i → i < n → base i = base' i) :
    post seg base p n = post seg' base' p n := by
  unfold post
  apply flatMap_congr'
  intro i hi
  have hi' := List.mem_range.1 hi
  rw [hs (p + i + 1) (by omega) (by omega), hb (p + i) (by omega) (by omega)]

theorem lay_congr (seg seg' : Nat → List α) (base base' : Nat → α) (n : Nat)
    (hs : ∀ i, i ≤ n → seg i = seg' i) (hb : ∀ i, i < n → base i = base' i) : lay n seg base = lay n seg' base' := by
  unfold lay
  rw [pre_congr seg seg' base base' n (fun i hi => hs i (by omega)) hb, hs n (Nat.le_refl _)]

theorem post_succ (seg : Nat → List α) (base : Nat → α) (p d : Nat) :
    post seg base p (p + d + 1) = post seg base p (p + d) ++ base (p + d) :: seg (p + d + 1) := by
  unfold post
  have h1 : p + d + 1 - p = d + 1 := by omega
  have h2 : p + d - p = d := by omega
  rw [h1, h2, List.range_succ, List.flatMap_append]
  simp

theorem lay_split_add (seg : Nat → List α) (base : Nat → α) (p : Nat) : ∀ (d : Nat),
    lay (p + d) seg base = pre seg base p ++ seg p ++ post seg base p (p + d) := by
  intro d
  induction d with
  | zero => simp [lay, post]
  | succ d ih =>
    have : p + (d + 1) = p + d + 1 := by omega
    rw [this, lay_succ, ih, post_succ]
    simp

/-- a layout cut at position p -/
theorem lay_split (seg : Nat → List α) (base : Nat → α) (p n : Nat) (h : p ≤ n) :
    lay n seg base = pre seg base p ++ seg p ++ post seg base p n := by
  have : n = p + (n - p) := by omega
  rw [this]
  exact lay_split_add seg base p (n - p)

def sumTo (f : Nat → Nat) (p : Nat) : Nat := ((List.range p).map f).sum

theorem sumTo_succ (f : Nat → Nat) (p : Nat) : sumTo f (p + 1) = sumTo f p + f p := by
  unfold sumTo
  rw [List.range_succ, List.map_append, List.sum_append]
  simp

theorem pre_length (seg : Nat → List α) (base : Nat → α) (p : Nat) :
    (pre seg base p).length = p + sumTo (fun i => (seg i).length) p := by
  induction p with
  | zero => simp [pre, sumTo]
  | succ p ih =>
    rw [pre_succ, List.length_append, ih, sumTo_succ]
    simp only [List.length_append, List.length_cons, List.length_nil]
    omega

theorem lay_length (seg : Nat → List α) (base : Nat → α) (n : Nat) :
    (lay n seg base).length = n + sumTo (fun i => (seg i).length) (n + 1) := by
  unfold lay
  rw [List.length_append, pre_length, sumTo_succ]
  omega

theorem lay_map {β : Type} (f : α → β) (seg : Nat → List α) (base : Nat → α) (n : Nat) :
    (lay n seg base).map f = lay n (fun p => (seg p).map f) (fun p => f (base p)) := by
  induction n with
  | zero => simp [lay, pre]
  | succ n ih => rw [lay_succ, lay_succ, List.map_append, ih]; simp

/-- a layout whose first a positions carry no inserted column -/
theorem lay_shift (seg : Nat → List α) (base : Nat → α) (a : Nat) (h0 : ∀ i, i < a → seg i = []) : ∀ (n : Nat),
    lay (a + n) seg base = (List.range a).map base ++ lay n (fun i => seg (a + i)) (fun i => base (a + i)) := by
  intro n
  induction n with
  | zero =>
    simp only [Nat.add_zero, lay, pre_zero, List.nil_append]
    congr 1
    induction a with
    | zero => rfl
    | succ a ih =>
      rw [pre_succ, List.range_succ, List.map_append, ih (fun i hi => h0 i (by omega)), h0 a (by omega)]
      simp
  | succ n ih =>
    have : a + (n + 1) = a + n + 1 := by omega
    rw [this, lay_succ, ih, lay_succ]
    simp [Nat.add_assoc]

/-- a layout continued over positions that carry no inserted column -/
theorem lay_extend (seg : Nat → List α) (base : Nat → α) (n : Nat) (h0 : ∀ i, n < i → seg i = []) : ∀ (d : Nat),
    lay (n + d) seg base = lay n seg base ++ (List.range d).map fun i => base (n + i) := by
  intro d
  induction d with
  | zero => simp
  | succ d ih =>
    have : n + (d + 1) = n + d + 1 := by omega
    rw [this, lay_succ, ih, h0 (n + d + 1) (by omega), List.range_succ, List.map_append]
    simp

end Layout


/-! ### Part 1 — one row through the fold of `applyInsertion` -/

/-- an insertion with its bases: (reference position, inserted bases, index of the owning record) -/
abbrev Ins := Nat × List Nat × Nat

def wIns (x : Ins) : Nat := x.2.1.length
def tot (Y : List Ins) : Nat := (Y.map wIns).sum
def forget (x : Ins) : Nat × Nat × Nat := (x.1, x.2.1.length, x.2.2)

/-- what row j holds for insertion x: its own columns, or gap columns for an insertion of another record -/
def rho (c : Ins → List Nat) (j : Nat) (x : Ins) : List Nat := if x.2.2 = j then c x else List.replicate (wIns x) dash

/-- the inserted columns of row j before position p when the insertions X1 have been applied and X2 have not -/
def segOf (c : Ins → List Nat) (j : Nat) (X1 X2 : List Ins) (p : Nat) : List Nat :=
  (X1.filter fun x => x.1 == p).flatMap (rho c j) ++ (X2.filter fun x => x.1 == p && x.2.2 == j).flatMap c

theorem tot_nil : tot [] = 0 := rfl
theorem tot_cons (x : Ins) (Y : List Ins) : tot (x :: Y) = wIns x + tot Y := by simp [tot]
theorem tot_append (Y Z : List Ins) : tot (Y ++ Z) = tot Y + tot Z := by simp [tot]

theorem flatMap_length_tot (g : Ins → List Nat) (hg : ∀ x, (g x).length = wIns x) : ∀ (Y : List Ins),
    (Y.flatMap g).length = tot Y := by
  intro Y
  induction Y with
  | nil => rfl
  | cons x t ih => rw [List.flatMap_cons, List.length_append, hg, ih, tot_cons]

theorem rho_length (c : Ins → List Nat) (hc : ∀ x, (c x).length = wIns x) (j : Nat) (x : Ins) : (rho c j x).length = wIns x := by
  unfold rho
  split
  · exact hc x
  · simp

theorem spliceAt_mid (A G B : List Nat) (t len : Nat) (ht : t ≤ G.length) :
    spliceAt (A.length + t) len (A ++ G ++ B) = A ++ spliceAt t len G ++ B := by
  unfold spliceAt
  have h1 : (A ++ G ++ B).take (A.length + t) = A ++ G.take t := by
    rw [List.append_assoc, List.take_append]
    have : (A.take (A.length + t)) = A := List.take_of_length_le (by omega)
    rw [this]
    have e : A.length + t - A.length = t := by omega
    rw [e, List.take_append]
    have : t - G.length = 0 := by omega
    rw [this]; simp
  have h2 : (A ++ G ++ B).drop (A.length + t) = G.drop t ++ B := by
    rw [List.append_assoc, List.drop_append]
    have : (A.drop (A.length + t)) = [] := List.drop_of_length_le (by omega)
    rw [this]
    have e : A.length + t - A.length = t := by omega
    rw [e, List.drop_append]
    have : t - G.length = 0 := by omega
    rw [this]; simp
  rw [h1, h2]
  simp

theorem spliceAt_end (G1 G2 : List Nat) (len : Nat) :
    spliceAt G1.length len (G1 ++ G2) = G1 ++ List.replicate len dash ++ G2 := by
  unfold spliceAt
  simp

theorem segOf_own (c : Ins → List Nat) (j : Nat) (X1 X2 : List Ins) (x : Ins) (p : Nat) (hx : x.2.2 = j) :
    segOf c j (X1 ++ [x]) X2 p = segOf c j X1 (x :: X2) p := by
  unfold segOf
  by_cases hp : x.1 = p
  · simp [hp, hx, rho]
  · simp [hp]

theorem segOf_other_ne (c : Ins → List Nat) (j : Nat) (X1 X2 : List Ins) (x : Ins) (p : Nat) (hp : x.1 ≠ p) :
    segOf c j (X1 ++ [x]) X2 p = segOf c j X1 (x :: X2) p := by
  unfold segOf
  simp [hp]

theorem segOf_other_eq (c : Ins → List Nat) (j : Nat) (X1 X2 : List Ins) (x : Ins) (hx : x.2.2 ≠ j) :
    segOf c j (X1 ++ [x]) X2 x.1 =
      (X1.filter fun y => y.1 == x.1).flatMap (rho c j) ++ List.replicate (wIns x) dash ++
        (X2.filter fun y => y.1 == x.1 && y.2.2 == j).flatMap c ∧
    segOf c j X1 (x :: X2) x.1 =
      (X1.filter fun y => y.1 == x.1).flatMap (rho c j) ++ (X2.filter fun y => y.1 == x.1 && y.2.2 == j).flatMap c := by
  unfold segOf
  constructor
  · simp [hx, rho]
  · simp [hx]

theorem tot_filter_lt_succ (Y : List Ins) (p : Nat) :
    tot (Y.filter fun x => decide (x.1 < p + 1)) = tot (Y.filter fun x => decide (x.1 < p)) + tot (Y.filter fun x => x.1 == p) := by
  induction Y with
  | nil => rfl
  | cons x t ih =>
    rcases Nat.lt_trichotomy x.1 p with h | h | h
    · have a : decide (x.1 < p + 1) = true := by simp; omega
      have b : decide (x.1 < p) = true := by simp; omega
      have c : (x.1 == p) = false := by simp; omega
      simp only [List.filter_cons, a, b, c, if_true, Bool.false_eq_true, if_false, tot_cons, ih]
      omega
    · have a : decide (x.1 < p + 1) = true := by simp; omega
      have b : decide (x.1 < p) = false := by simp; omega
      have c : (x.1 == p) = true := by simp; omega
      simp only [List.filter_cons, a, b, c, if_true, Bool.false_eq_true, if_false, tot_cons, ih]
      omega
    · have a : decide (x.1 < p + 1) = false := by simp; omega
      have b : decide (x.1 < p) = false := by simp; omega
      have c : (x.1 == p) = false := by simp; omega
      simp only [List.filter_cons, a, b, c, Bool.false_eq_true, if_false, ih]

theorem tot_filter_all (Y : List Ins) (f : Ins → Bool) (h : ∀ y ∈ Y, f y = true) : tot (Y.filter f) = tot Y := by
  rw [List.filter_eq_self.2 h]

theorem filter_nil_of {β : Type} (Y : List β) (f : β → Bool) (h : ∀ y ∈ Y, f y = false) : Y.filter f = [] := by
  rw [List.filter_eq_nil_iff]
  intro y hy
  simp [h y hy]

/-- where position p starts in row j, when everything applied so far sits at or before p and the rest at or after -/
theorem pre_segOf_length (c : Ins → List Nat) (hc : ∀ x, (c x).length = wIns x) (j : Nat) (X1 X2 : List Ins) (b : Nat → Nat)
    (p : Nat) (h2 : ∀ y ∈ X2, p ≤ y.1) : ∀ (i : Nat), i ≤ p →
    (pre (segOf c j X1 X2) b i).length = i + tot (X1.filter fun x => decide (x.1 < i)) := by
  intro i
  induction i with
  | zero =>
    intro _
    have : (X1.filter fun x => decide (x.1 < 0)) = [] := filter_nil_of _ _ (by intro y _; simp)
    rw [this]; rfl
  | succ i ih =>
    intro hi
    rw [pre_succ, List.length_append, ih (by omega), tot_filter_lt_succ]
    have hX2 : (X2.filter fun x => x.1 == i && x.2.2 == j) = [] := by
      apply filter_nil_of
      intro y hy
      have := h2 y hy
      have : ¬ y.1 = i := by omega
      simp [this]
    unfold segOf
    rw [hX2]
    simp only [List.flatMap_nil, List.append_nil, List.length_append, List.length_cons, List.length_nil]
    rw [flatMap_length_tot _ (rho_length c hc j)]
    omega

/-- the insertion x of another record, applied to row j at the column the model computes -/
theorem splice_lay (c : Ins → List Nat) (hc : ∀ x, (c x).length = wIns x) (j E : Nat) (X1 X2 : List Ins) (x : Ins) (b : Nat → Nat)
    (hx : x.2.2 ≠ j) (hE : x.1 ≤ E) (h1 : ∀ y ∈ X1, y.1 ≤ x.1) (h2 : ∀ y ∈ X2, x.1 ≤ y.1) :
    spliceAt (x.1 + tot X1) (wIns x) (lay E (segOf c j X1 (x :: X2)) b) = lay E (segOf c j (X1 ++ [x]) X2) b := by
  rw [lay_split _ b x.1 E hE, lay_split _ b x.1 E hE]
  have hpre : pre (segOf c j (X1 ++ [x]) X2) b x.1 = pre (segOf c j X1 (x :: X2)) b x.1 :=
    pre_congr _ _ _ _ _ (fun i hi => segOf_other_ne c j X1 X2 x i (by omega)) (fun _ _ => rfl)
  have hpost : post (segOf c j (X1 ++ [x]) X2) b x.1 E = post (segOf c j X1 (x :: X2)) b x.1 E :=
    post_congr _ _ _ _ _ _ (fun i hi _ => segOf_other_ne c j X1 X2 x i (by omega)) (fun _ _ _ => rfl)
  rw [hpre, hpost]
  obtain ⟨e1, e2⟩ := segOf_other_eq c j X1 X2 x hx
  rw [e1, e2]
  have hlen := pre_segOf_length c hc j X1 (x :: X2) b x.1
    (by intro y hy; rcases List.mem_cons.1 hy with rfl | h; exact Nat.le_refl _; exact h2 y h) x.1 (Nat.le_refl _)
  have hsplit := tot_filter_lt_succ X1 x.1
  have hall : tot (X1.filter fun y => decide (y.1 < x.1 + 1)) = tot X1 :=
    tot_filter_all _ _ (by intro y hy; have := h1 y hy; simp; omega)
  have hG1 : ((X1.filter fun y => y.1 == x.1).flatMap (rho c j)).length = tot (X1.filter fun y => y.1 == x.1) :=
    flatMap_length_tot _ (rho_length c hc j) _
  have hidx : x.1 + tot X1 = (pre (segOf c j X1 (x :: X2)) b x.1).length + ((X1.filter fun y => y.1 == x.1).flatMap (rho c j)).length := by
    rw [hlen, hG1]; omega
  rw [hidx, spliceAt_mid _ _ _ _ _ (by simp), spliceAt_end]


/-- what `applyInsertion` does to the row of index j -/
def stepRow (j : Nat) (row : PairRow) (ins : Nat × Nat × Nat) : PairRow :=
  if j = ins.2.2 then { row with offset := row.offset + ins.2.1 }
  else if ins.1 > row.refEnd then row
  else { row with ref := spliceAt (ins.1 + row.offset) ins.2.1 row.ref,
                  que := spliceAt (ins.1 + row.offset) ins.2.1 row.que,
                  offset := row.offset + ins.2.1 }

/-- the state of row j when the insertions X1 have been applied and X2 are still to come -/
structure RowInv (j E : Nat) (cR cQ : Ins → List Nat) (bR bQ : Nat → Nat) (X1 X2 : List Ins) (row : PairRow) : Prop where
  href : row.ref = lay E (segOf cR j X1 X2) bR
  hque : row.que = lay E (segOf cQ j X1 X2) bQ
  hoff : row.offset = tot (X1.filter fun x => decide (x.1 ≤ E))
  hend : row.refEnd = E

theorem rowInv_step (j E : Nat) (cR cQ : Ins → List Nat) (hcR : ∀ x, (cR x).length = wIns x) (hcQ : ∀ x, (cQ x).length = wIns x)
    (bR bQ : Nat → Nat) (X1 X2 : List Ins) (x : Ins) (row : PairRow)
    (h1 : ∀ y ∈ X1, y.1 ≤ x.1) (h2 : ∀ y ∈ X2, x.1 ≤ y.1) (hown : x.2.2 = j → x.1 ≤ E)
    (inv : RowInv j E cR cQ bR bQ X1 (x :: X2) row) :
    RowInv j E cR cQ bR bQ (X1 ++ [x]) X2 (stepRow j row (forget x)) := by
  obtain ⟨href, hque, hoff, hend⟩ := inv
  unfold stepRow forget
  simp only []
  by_cases hj : j = x.2.2
  · -- the row's own insertion: nothing moves
    rw [if_pos hj]
    have hle := hown hj.symm
    refine ⟨?_, ?_, ?_, hend⟩
    · simp only []
      rw [href]
      exact lay_congr _ _ _ _ _ (fun i _ => (segOf_own cR j X1 X2 x i hj.symm).symm) (fun _ _ => rfl)
    · simp only []
      rw [hque]
      exact lay_congr _ _ _ _ _ (fun i _ => (segOf_own cQ j X1 X2 x i hj.symm).symm) (fun _ _ => rfl)
    · simp only []
      rw [hoff, List.filter_append, tot_append]
      have : ([x].filter fun y => decide (y.1 ≤ E)) = [x] := by simp [hle]
      rw [this, tot_cons, tot_nil]; rfl
  · rw [if_neg hj]
    have hj' : x.2.2 ≠ j := fun h => hj h.symm
    by_cases hgt : x.1 > row.refEnd
    · -- the row ends before the insertion: left alone
      rw [if_pos hgt]
      rw [hend] at hgt
      refine ⟨?_, ?_, ?_, hend⟩
      · rw [href]
        exact lay_congr _ _ _ _ _ (fun i hi => (segOf_other_ne cR j X1 X2 x i (by omega)).symm) (fun _ _ => rfl)
      · rw [hque]
        exact lay_congr _ _ _ _ _ (fun i hi => (segOf_other_ne cQ j X1 X2 x i (by omega)).symm) (fun _ _ => rfl)
      · rw [hoff, List.filter_append]
        have : ([x].filter fun y => decide (y.1 ≤ E)) = [] := by
          apply filter_nil_of; intro y hy; simp at hy; subst hy; simp; omega
        rw [this, List.append_nil]
    · rw [if_neg hgt]
      rw [hend] at hgt
      have hle : x.1 ≤ E := by omega
      have hoff' : row.offset = tot X1 := by
        rw [hoff]; exact tot_filter_all _ _ (by intro y hy; have := h1 y hy; simp; omega)
      refine ⟨?_, ?_, ?_, hend⟩
      · simp only []
        rw [hoff', href]
        exact splice_lay cR hcR j E X1 X2 x bR hj' hle h1 h2
      · simp only []
        rw [hoff', hque]
        exact splice_lay cQ hcQ j E X1 X2 x bQ hj' hle h1 h2
      · simp only []
        rw [hoff, List.filter_append, tot_append]
        have : ([x].filter fun y => decide (y.1 ≤ E)) = [x] := by simp [hle]
        rw [this, tot_cons, tot_nil]; rfl

theorem rowInv_fold (j E : Nat) (cR cQ : Ins → List Nat) (hcR : ∀ x, (cR x).length = wIns x) (hcQ : ∀ x, (cQ x).length = wIns x)
    (bR bQ : Nat → Nat) : ∀ (X2 X1 : List Ins) (row : PairRow),
    (X1 ++ X2).Pairwise (fun a b => a.1 ≤ b.1) → (∀ x ∈ X2, x.2.2 = j → x.1 ≤ E) →
    RowInv j E cR cQ bR bQ X1 X2 row →
    RowInv j E cR cQ bR bQ (X1 ++ X2) [] ((X2.map forget).foldl (stepRow j) row) := by
  intro X2
  induction X2 with
  | nil => intro X1 row _ _ inv; simpa using inv
  | cons x t ih =>
    intro X1 row hs hown inv
    have hp := List.pairwise_append.1 hs
    have h1 : ∀ y ∈ X1, y.1 ≤ x.1 := fun y hy => hp.2.2 y hy x (List.mem_cons_self)
    have h2 : ∀ y ∈ t, x.1 ≤ y.1 := fun y hy => (List.pairwise_cons.1 hp.2.1).1 y hy
    have inv' := rowInv_step j E cR cQ hcR hcQ bR bQ X1 t x row h1 h2 (hown x (List.mem_cons_self)) inv
    have := ih (X1 ++ [x]) _ (by simpa using hs) (fun y hy => hown y (List.mem_cons_of_mem _ hy)) inv'
    simpa using this


/-! ### the fold over all rows is the fold over each row -/

theorem applyInsertion_eq (rows : List PairRow) (ins : Nat × Nat × Nat) :
    applyInsertion rows ins = (rows.zip (List.range rows.length)).map fun p => stepRow p.2 p.1 ins := by
  unfold applyInsertion
  apply List.map_congr_left
  rintro ⟨row, j⟩ _
  rfl

theorem applyInsertion_length (rows : List PairRow) (ins : Nat × Nat × Nat) : (applyInsertion rows ins).length = rows.length := by
  rw [applyInsertion_eq]; simp

theorem applyInsertion_getD (rows : List PairRow) (ins : Nat × Nat × Nat) (d : PairRow) (j : Nat) (hj : j < rows.length) :
    (applyInsertion rows ins).getD j d = stepRow j (rows.getD j d) ins := by
  rw [applyInsertion_eq]
  simp [List.getD_eq_getElem?_getD, hj]

theorem foldl_applyInsertion (d : PairRow) : ∀ (S : List (Nat × Nat × Nat)) (rows : List PairRow),
    S.foldl applyInsertion rows = (List.range rows.length).map fun j => S.foldl (stepRow j) (rows.getD j d) := by
  intro S
  induction S with
  | nil =>
    intro rows
    apply List.ext_getElem
    · simp
    · intro n h1 h2
      have h3 : n < rows.length := by simpa using h1
      simp [List.getD_eq_getElem?_getD, h3]
  | cons x t ih =>
    intro rows
    rw [List.foldl_cons, ih, applyInsertion_length]
    apply List.map_congr_left
    intro j hj
    rw [applyInsertion_getD rows x d j (List.mem_range.1 hj)]
    rfl


/-! ### Part 2 — the rows written by the CIGAR walk, as layouts -/

theorem insList_M (seq : List Nat) (op len : Nat) (rest : List (Nat × Nat)) (q r : Nat) (h : op = 0 ∨ op = 7 ∨ op = 8) :
    insList seq ((op, len) :: rest) q r = insList seq rest (q + len) (r + len) := by
  rcases h with rfl | rfl | rfl <;> rfl

theorem insList_DN (seq : List Nat) (op len : Nat) (rest : List (Nat × Nat)) (q r : Nat) (h : op = 2 ∨ op = 3) :
    insList seq ((op, len) :: rest) q r = insList seq rest q (r + len) := by
  rcases h with rfl | rfl <;> rfl

theorem insList_I (seq : List Nat) (len : Nat) (rest : List (Nat × Nat)) (q r : Nat) :
    insList seq ((1, len) :: rest) q r = (r, (seq.drop q).take len) :: insList seq rest (q + len) r := rfl

theorem insList_S (seq : List Nat) (len : Nat) (rest : List (Nat × Nat)) (q r : Nat) :
    insList seq ((4, len) :: rest) q r = insList seq rest (q + len) r := rfl

theorem insList_other (seq : List Nat) (op len : Nat) (rest : List (Nat × Nat)) (q r : Nat) (h : op = 5 ∨ op = 6 ∨ 9 ≤ op) :
    insList seq ((op, len) :: rest) q r = insList seq rest q r := by
  rcases h with rfl | rfl | h
  · rfl
  · rfl
  · have hal : isAligned op = false := by simp [isAligned]; omega
    have h2 : (op == 2) = false := by simp; omega
    have h3 : (op == 3) = false := by simp; omega
    have h1 : (op == 1) = false := by simp; omega
    have h4 : (op == 4) = false := by simp; omega
    simp only [insList, hal, h2, h3, h1, h4, Bool.false_eq_true, if_false, Bool.or_self]

theorem insList_ge (seq : List Nat) : ∀ (cigar : List (Nat × Nat)) (q r : Nat), ∀ x ∈ insList seq cigar q r, r ≤ x.1 := by
  intro cigar
  induction cigar with
  | nil => intro q r x hx; simp [insList] at hx
  | cons c rest ih =>
    intro q r x hx
    obtain ⟨op, len⟩ := c
    rcases opEntry_ins_cases op with ⟨ho, _⟩ | ⟨ho, _⟩ | ⟨ho, _⟩ | ⟨ho, _⟩ | ⟨ho, _⟩ | ⟨ho, _⟩ | ⟨ho, _⟩
    · rw [insList_M _ _ _ _ _ _ ho] at hx; have := ih _ _ x hx; omega
    · subst ho; rw [insList_I] at hx
      rcases List.mem_cons.1 hx with rfl | hx
      · exact Nat.le_refl _
      · exact ih _ _ x hx
    · rw [insList_DN _ _ _ _ _ _ (Or.inl ho)] at hx; have := ih _ _ x hx; omega
    · rw [insList_DN _ _ _ _ _ _ (Or.inr ho)] at hx; have := ih _ _ x hx; omega
    · subst ho; rw [insList_S] at hx; exact ih _ _ x hx
    · rw [insList_other _ _ _ _ _ _ (by omega)] at hx; exact ih _ _ x hx
    · rw [insList_other _ _ _ _ _ _ (by omega)] at hx; exact ih _ _ x hx

theorem insList_le (seq : List Nat) : ∀ (cigar : List (Nat × Nat)) (q r : Nat), ∀ x ∈ insList seq cigar q r,
    x.1 ≤ r + refSpan samInsRef cigar := by
  intro cigar
  induction cigar with
  | nil => intro q r x hx; simp [insList] at hx
  | cons c rest ih =>
    intro q r x hx
    obtain ⟨op, len⟩ := c
    simp only [refSpan]
    rcases opEntry_ins_cases op with ⟨ho, he⟩ | ⟨ho, he⟩ | ⟨ho, he⟩ | ⟨ho, he⟩ | ⟨ho, he⟩ | ⟨ho, he⟩ | ⟨ho, he⟩ <;> simp only [he]
    · rw [insList_M _ _ _ _ _ _ ho] at hx; have := ih _ _ x hx; omega
    · subst ho; rw [insList_I] at hx
      rcases List.mem_cons.1 hx with rfl | hx
      · simp
      · have := ih _ _ x hx; omega
    · rw [insList_DN _ _ _ _ _ _ (Or.inl ho)] at hx; have := ih _ _ x hx; omega
    · rw [insList_DN _ _ _ _ _ _ (Or.inr ho)] at hx; have := ih _ _ x hx; omega
    · subst ho; rw [insList_S] at hx; have := ih _ _ x hx; omega
    · rw [insList_other _ _ _ _ _ _ (by omega)] at hx; have := ih _ _ x hx; omega
    · rw [insList_other _ _ _ _ _ _ (by omega)] at hx; have := ih _ _ x hx; omega

/-- the model's list of insertions (position, length) is the specification's list (position, bases) -/
theorem insertionsOf_eq (seq : List Nat) : ∀ (cigar : List (Nat × Nat)) (q r : Nat), q + qSpan samInsRef cigar ≤ seq.length →
    insertionsOf r cigar = (insList seq cigar q r).map fun x => (x.1, x.2.length) := by
  intro cigar
  induction cigar with
  | nil => intro q r _; rfl
  | cons c rest ih =>
    intro q r hq
    obtain ⟨op, len⟩ := c
    simp only [qSpan] at hq
    simp only [insertionsOf]
    rcases opEntry_ins_cases op with ⟨ho, he⟩ | ⟨ho, he⟩ | ⟨ho, he⟩ | ⟨ho, he⟩ | ⟨ho, he⟩ | ⟨ho, he⟩ | ⟨ho, he⟩ <;> simp only [he] at hq
    · rw [insList_M _ _ _ _ _ _ ho, ← ih (q + len) (r + len) (by omega)]
      have h1 : ¬ op = 1 := by omega
      have hcr : op = 0 ∨ op = 2 ∨ op = 3 ∨ op = 7 ∨ op = 8 := by omega
      simp [h1, hcr]
    · subst ho
      rw [insList_I, List.map_cons, ← ih (q + len) r (by omega)]
      have : ((seq.drop q).take len).length = len := by simp [List.length_take, List.length_drop]; omega
      simp [this]
    · rw [insList_DN _ _ _ _ _ _ (Or.inl ho), ← ih q (r + len) (by omega)]
      have h1 : ¬ op = 1 := by omega
      have hcr : op = 0 ∨ op = 2 ∨ op = 3 ∨ op = 7 ∨ op = 8 := by omega
      simp [h1, hcr]
    · rw [insList_DN _ _ _ _ _ _ (Or.inr ho), ← ih q (r + len) (by omega)]
      have h1 : ¬ op = 1 := by omega
      have hcr : op = 0 ∨ op = 2 ∨ op = 3 ∨ op = 7 ∨ op = 8 := by omega
      simp [h1, hcr]
    · subst ho
      rw [insList_S, ← ih (q + len) r (by omega)]
      simp
    · rw [insList_other _ _ _ _ _ _ (by omega), ← ih q r (by omega)]
      have h1 : ¬ op = 1 := by omega
      have hcr : ¬ (op = 0 ∨ op = 2 ∨ op = 3 ∨ op = 7 ∨ op = 8) := by omega
      simp [h1, hcr]
    · rw [insList_other _ _ _ _ _ _ (by omega), ← ih q r (by omega)]
      have h1 : ¬ op = 1 := by omega
      have hcr : ¬ (op = 0 ∨ op = 2 ∨ op = 3 ∨ op = 7 ∨ op = 8) := by omega
      simp [h1, hcr]


theorem lay_prepend_bases {α : Type} (seg seg' : Nat → List α) (base base' : Nat → α) (a n : Nat) (A : List α)
    (hA : A = (List.range a).map base) (h0 : ∀ i, i < a → seg i = []) (hs : ∀ i, i ≤ n → seg (a + i) = seg' i)
    (hb : ∀ i, i < n → base (a + i) = base' i) : lay (a + n) seg base = A ++ lay n seg' base' := by
  rw [lay_shift seg base a h0 n, hA, lay_congr _ seg' _ base' n hs hb]

theorem lay_prepend_seg {α : Type} (seg seg' : Nat → List α) (base : Nat → α) (n : Nat) (A : List α)
    (h0 : seg 0 = A ++ seg' 0) (hs : ∀ i, 0 < i → i ≤ n → seg i = seg' i) : lay n seg base = A ++ lay n seg' base := by
  rw [lay_split seg base 0 n (Nat.zero_le _), lay_split seg' base 0 n (Nat.zero_le _), h0,
    post_congr seg seg' base base 0 n hs (fun _ _ _ => rfl)]
  simp [pre_zero]

theorem slice_eq_map (l : List Nat) (r len : Nat) (h : r + len ≤ l.length) :
    (l.drop r).take len = (List.range len).map fun i => l.getD (r + i) 0 := by
  apply List.ext_getElem
  · simp [List.length_take, List.length_drop]; omega
  · intro i h1 h2
    have hi : i < len := by simpa using h2
    have : r + i < l.length := by omega
    simp [List.getD_eq_getElem?_getD, this]

theorem self_map (A T : List Nat) : A = (List.range A.length).map fun i => (A ++ T).getD i 0 := by
  apply List.ext_getElem
  · simp
  · intro i h1 h2
    simp [List.getD_eq_getElem?_getD, List.getElem?_append_left h1, h1]

theorem getD_append_add (A T : List Nat) (a i : Nat) (h : A.length = a) : (A ++ T).getD (a + i) 0 = T.getD i 0 := by
  subst h
  simp [List.getD_eq_getElem?_getD, List.getElem?_append_right]

/-- the inserted columns of one record before the i-th reference position of the stretch it walks -/
def segW (g : Nat × List Nat → List Nat) (seq : List Nat) (cigar : List (Nat × Nat)) (q r i : Nat) : List Nat :=
  ((insList seq cigar q r).filter fun x => x.1 == r + i).flatMap g

/-- a walk that starts at r + len inserts nothing before position r + i, i < len -/
theorem segW_later (g : Nat × List Nat → List Nat) (seq : List Nat) (cigar : List (Nat × Nat)) (q r len i : Nat) (hi : i < len) :
    ((insList seq cigar q (r + len)).filter fun x => x.1 == r + i).flatMap g = [] := by
  have : ((insList seq cigar q (r + len)).filter fun x => x.1 == r + i) = [] := by
    apply filter_nil_of
    intro x hx
    have := insList_ge seq cigar q (r + len) x hx
    simp; omega
  rw [this]; rfl

theorem walk_lay_bases (ref seq : List Nat) (c : Nat × Nat) (rest : List (Nat × Nat)) (q q' r len span : Nat)
    (hIL : insList seq (c :: rest) q r = insList seq rest q' (r + len)) (A T W1 W2 : List Nat) (hA : A.length = len)
    (hr : r + len ≤ ref.length) (gR gQ : Nat × List Nat → List Nat)
    (ih2 : W2 = lay span (segW gR seq rest q' (r + len)) (fun i => ref.getD (r + len + i) 0))
    (ih1 : W1 = lay span (segW gQ seq rest q' (r + len)) (fun i => T.getD i 0)) :
    (ref.drop r).take len ++ W2 = lay (len + span) (segW gR seq (c :: rest) q r) (fun i => ref.getD (r + i) 0) ∧
    A ++ W1 = lay (len + span) (segW gQ seq (c :: rest) q r) (fun i => (A ++ T).getD i 0) := by
  have hseg : ∀ (g : Nat × List Nat → List Nat) (i : Nat), i < len → segW g seq (c :: rest) q r i = [] := by
    intro g i hi
    unfold segW; rw [hIL]
    exact segW_later g seq rest q' r len i hi
  have hseg2 : ∀ (g : Nat × List Nat → List Nat) (i : Nat), segW g seq (c :: rest) q r (len + i) = segW g seq rest q' (r + len) i := by
    intro g i
    unfold segW; rw [hIL]; simp only [Nat.add_assoc]
  constructor
  · rw [ih2]
    symm
    exact lay_prepend_bases _ _ _ _ len _ _ (slice_eq_map ref r len (by omega)) (hseg _) (fun i _ => hseg2 _ i)
      (fun i _ => by simp only [Nat.add_assoc])
  · rw [ih1]
    symm
    refine lay_prepend_bases _ _ _ _ len _ _ ?_ (hseg _) (fun i _ => hseg2 _ i) ?_
    · have := self_map A T
      rw [hA] at this
      exact this
    · intro i _
      exact getD_append_add _ _ len i hA

/-- **the paired walk, position by position**: the reference row holds the reference bases with a run of '-' before
position i for every insertion located there; the query row holds what the no-insertion walk writes, with the inserted
bases in those columns -/
theorem walk_lay (ref : List Nat) : ∀ (cigar : List (Nat × Nat)) (seq : List Nat) (q r : Nat),
    q + qSpan samInsRef cigar ≤ seq.length → r + refSpan samInsRef cigar ≤ ref.length →
    (walkOps samInsRef seq ref cigar q r).2 =
      lay (refSpan samInsRef cigar) (segW (fun x => List.replicate x.2.length dash) seq cigar q r) (fun i => ref.getD (r + i) 0) ∧
    (walkOps samInsRef seq ref cigar q r).1 =
      lay (refSpan samInsRef cigar) (segW (fun x => x.2) seq cigar q r) (fun i => (walkOps samNoIns seq [] cigar q r).1.getD i 0) := by
  intro cigar
  induction cigar with
  | nil => intro seq q r _ _; simp [walkOps, refSpan, lay, pre, segW, insList]
  | cons c rest ih =>
    intro seq q r hq hr
    obtain ⟨op, len⟩ := c
    simp only [qSpan, refSpan] at hq hr
    simp only [walkOps, refSpan]
    have hrefl : r + len ≤ ref.length → ((ref.drop r).take len).length = len := by
      intro h; simp [List.length_take, List.length_drop]; omega
    have hseql : q + len ≤ seq.length → ((seq.drop q).take len).length = len := by
      intro h; simp [List.length_take, List.length_drop]; omega
    rcases opEntry_ins_cases op with ⟨ho, he⟩ | ⟨ho, he⟩ | ⟨ho, he⟩ | ⟨ho, he⟩ | ⟨ho, he⟩ | ⟨ho, he⟩ | ⟨ho, he⟩ <;>
      rcases opEntry_noins_cases op with ⟨ho', he'⟩ | ⟨ho', he'⟩ | ⟨ho', he'⟩ | ⟨ho', he'⟩ | ⟨ho', he'⟩ | ⟨ho', he'⟩ <;>
      first
        | (exfalso; omega)
        | skip
    · -- M = X
      simp only [he, he'] at hq hr ⊢
      simp only [emit, if_true]
      obtain ⟨ih2, ih1⟩ := ih seq (q + len) (r + len) (by omega) (by omega)
      exact walk_lay_bases ref seq (op, len) rest q (q + len) r len _ (insList_M _ _ _ _ _ _ ho) _ _ _ _ (hseql (by omega)) (by omega) _ _ ih2 ih1
    · -- I
      subst ho
      simp only [he, he'] at hq hr ⊢
      simp only [emit, if_true, Bool.false_eq_true, if_false, List.nil_append, Nat.zero_add] at hq hr ⊢
      obtain ⟨ih2, ih1⟩ := ih seq (q + len) r (by omega) (by omega)
      have h0 : ∀ (g : Nat × List Nat → List Nat), segW g seq ((1, len) :: rest) q r 0 =
          g (r, (seq.drop q).take len) ++ segW g seq rest (q + len) r 0 := by
        intro g; unfold segW; rw [insList_I]; simp
      have hi : ∀ (g : Nat × List Nat → List Nat) (i : Nat), 0 < i → segW g seq ((1, len) :: rest) q r i = segW g seq rest (q + len) r i := by
        intro g i hi; unfold segW; rw [insList_I]
        have : ¬ i = 0 := by omega
        simp [this]
      constructor
      · rw [ih2]; symm
        refine lay_prepend_seg _ _ _ _ _ ?_ (fun i h _ => hi _ i h)
        rw [h0]; simp only [hseql (by omega : q + len ≤ seq.length)]
      · rw [ih1]; symm
        exact lay_prepend_seg _ _ _ _ _ (h0 _) (fun i h _ => hi _ i h)
    · -- D
      simp only [he, he'] at hq hr ⊢
      simp only [emit, if_true, Bool.false_eq_true, if_false, Nat.zero_add] at hq hr ⊢
      obtain ⟨ih2, ih1⟩ := ih seq q (r + len) (by omega) (by omega)
      exact walk_lay_bases ref seq (op, len) rest q q r len _ (insList_DN _ _ _ _ _ _ (Or.inl ho)) _ _ _ _ (by simp) (by omega) _ _ ih2 ih1
    · -- N
      simp only [he, he'] at hq hr ⊢
      simp only [emit, if_true, Bool.false_eq_true, if_false, Nat.zero_add] at hq hr ⊢
      obtain ⟨ih2, ih1⟩ := ih seq q (r + len) (by omega) (by omega)
      exact walk_lay_bases ref seq (op, len) rest q q r len _ (insList_DN _ _ _ _ _ _ (Or.inr ho)) _ _ _ _ (by simp) (by omega) _ _ ih2 ih1
    · -- S
      subst ho
      simp only [he, he'] at hq hr ⊢
      simp only [emit, if_true, Bool.false_eq_true, if_false, List.nil_append, Nat.zero_add] at hq hr ⊢
      have e : ∀ (g : Nat × List Nat → List Nat), segW g seq ((4, len) :: rest) q r = segW g seq rest (q + len) r := by
        intro g; funext i; unfold segW; rw [insList_S]
      rw [e, e]
      exact ih seq (q + len) r (by omega) (by omega)
    · -- H P
      simp only [he, he'] at hq hr ⊢
      simp only [emit, Bool.false_eq_true, if_false, List.nil_append, Nat.zero_add] at hq hr ⊢
      have e : ∀ (g : Nat × List Nat → List Nat), segW g seq ((op, len) :: rest) q r = segW g seq rest q r := by
        intro g; funext i; unfold segW; rw [insList_other _ _ _ _ _ _ (by omega)]
      rw [e, e]
      exact ih seq q r (by omega) (by omega)
    · -- not an operator
      simp only [he, he'] at hq hr ⊢
      simp only [Nat.zero_add] at hq hr ⊢
      have e : ∀ (g : Nat × List Nat → List Nat), segW g seq ((op, len) :: rest) q r = segW g seq rest q r := by
        intro g; funext i; unfold segW; rw [insList_other _ _ _ _ _ _ (by omega)]
      rw [e, e]
      exact ih seq q r (by omega) (by omega)


/-- the reference position at which a record ends -/
def endOf (rc : SamRec) : Nat := rc.pos + refSpan samInsRef rc.cigar

/-- the insertions of a record, with their bases -/
def insOf (rc : SamRec) : List (Nat × List Nat) := insList rc.seq rc.cigar 0 rc.pos

def segRec (g : Nat × List Nat → List Nat) (rc : SamRec) (p : Nat) : List Nat :=
  ((insOf rc).filter fun x => x.1 == p).flatMap g

theorem walkNoIns_split (rc : SamRec) (L : Nat) (hq : qSpan samInsRef rc.cigar ≤ rc.seq.length) :
    walkNoIns rc L = List.replicate rc.pos star ++ ((walkOps samNoIns rc.seq [] rc.cigar 0 rc.pos).1 ++
      List.replicate (L - endOf rc) star) ∧ (walkOps samNoIns rc.seq [] rc.cigar 0 rc.pos).1.length = refSpan samInsRef rc.cigar := by
  have hsp := spans_agree rc.cigar
  have hlen := walkOps_length rc.cigar rc.seq 0 rc.pos (by rw [← hsp.1]; omega)
  refine ⟨?_, by rw [hlen, hsp.2]⟩
  unfold walkNoIns endOf
  rw [op_table_is_sam]
  simp only [List.length_append, List.length_replicate, hlen, hsp.2, List.append_assoc]

/-- **the two rows of one record, position by position over the whole reference** -/
theorem walkWithRef_lay (rc : SamRec) (ref : List Nat) (hq : qSpan samInsRef rc.cigar ≤ rc.seq.length)
    (hr : rc.pos + refSpan samInsRef rc.cigar ≤ ref.length) :
    (walkWithRef rc ref true).2 = lay (endOf rc) (segRec (fun x => List.replicate x.2.length dash) rc) (fun p => ref.getD p 0) ∧
    (walkWithRef rc ref true).1 = lay (endOf rc) (segRec (fun x => x.2) rc) (fun p => (walkNoIns rc ref.length).getD p 0) := by
  have hw : walkWithRef rc ref true = (List.replicate rc.pos star ++ (walkOps samInsRef rc.seq ref rc.cigar 0 rc.pos).1,
      ref.take rc.pos ++ (walkOps samInsRef rc.seq ref rc.cigar 0 rc.pos).2) := by
    simp only [walkWithRef, if_true, op_table_ins_is_sam]
  obtain ⟨h2, h1⟩ := walk_lay ref rc.cigar rc.seq 0 rc.pos (by omega) hr
  obtain ⟨hsplit, hnlen⟩ := walkNoIns_split rc ref.length hq
  rw [hw]
  simp only []
  have hseg0 : ∀ (g : Nat × List Nat → List Nat) (i : Nat), i < rc.pos → segRec g rc i = [] := by
    intro g i hi
    unfold segRec insOf
    have : ((insList rc.seq rc.cigar 0 rc.pos).filter fun x => x.1 == i) = [] := by
      apply filter_nil_of
      intro x hx
      have := insList_ge rc.seq rc.cigar 0 rc.pos x hx
      simp; omega
    rw [this]; rfl
  constructor
  · rw [h2]; symm
    unfold endOf
    refine lay_prepend_bases _ _ _ _ rc.pos _ _ ?_ (hseg0 _) (fun i _ => rfl) (fun i _ => rfl)
    have := slice_eq_map ref 0 rc.pos (by omega)
    simpa using this
  · rw [h1]; symm
    unfold endOf
    refine lay_prepend_bases _ _ _ _ rc.pos _ _ ?_ (hseg0 _) (fun i _ => rfl) ?_
    · rw [hsplit]
      have := self_map (List.replicate rc.pos star) ((walkOps samNoIns rc.seq [] rc.cigar 0 rc.pos).1 ++ List.replicate (ref.length - endOf rc) star)
      simpa using this
    · intro i hi
      rw [hsplit, getD_append_add _ _ rc.pos i (by simp)]
      have hi' : i < (walkOps samNoIns rc.seq [] rc.cigar 0 rc.pos).1.length := by rw [hnlen]; exact hi
      simp [List.getD_eq_getElem?_getD, List.getElem?_append_left hi']


/-! ### Part 3 — the sorted list of all insertions of the block -/

def ltIns (a b : Ins) : Bool := decide (a.1 < b.1)

theorem swo_ltIns : SWO ltIns := by
  constructor
  · intro a b h; simp only [ltIns, decide_eq_true_eq, decide_eq_false_iff_not] at h ⊢; omega
  · intro a b c h; simp only [ltIns, decide_eq_true_eq] at h ⊢; omega

theorem insSorted_map {β γ : Type} (f : β → γ) (lt : β → β → Bool) (lt' : γ → γ → Bool) (h : ∀ a b, lt' (f a) (f b) = lt a b)
    (x : β) : ∀ (l : List β), insSorted lt' (f x) (l.map f) = (insSorted lt x l).map f := by
  intro l
  induction l with
  | nil => rfl
  | cons y t ih =>
    simp only [List.map_cons, insSorted, h]
    split
    · rfl
    · rw [List.map_cons, ih]

theorem sortStable_map {β γ : Type} (f : β → γ) (lt : β → β → Bool) (lt' : γ → γ → Bool) (h : ∀ a b, lt' (f a) (f b) = lt a b)
    (l : List β) : sortStable lt' (l.map f) = (sortStable lt l).map f := by
  induction l using rev_ind with
  | nil => rfl
  | snoc l x ih =>
    rw [List.map_append, List.map_cons, List.map_nil, sortStable_append_singleton, sortStable_append_singleton, ih,
      insSorted_map f lt lt' h]

theorem sorted_pairwise (l : List Ins) (h : Sorted ltIns l) : l.Pairwise (fun a b => a.1 ≤ b.1) := by
  unfold Sorted at h
  apply List.Pairwise.imp _ h
  intro a b hab
  simp only [ltIns, decide_eq_false_iff_not] at hab
  omega

/-- stability: the insertions located at p keep their input order -/
theorem filter_pos_sort (l : List Ins) (p : Nat) :
    (sortStable ltIns l).filter (fun x => x.1 == p) = l.filter (fun x => x.1 == p) := by
  have h := sortStable_stable swo_ltIns ((p, [], 0) : Ins) l
  have e : (fun x : Ins => x.1 == p) = tied ltIns ((p, [], 0) : Ins) := by
    funext x
    simp only [tied, ltIns]
    by_cases hx : x.1 = p
    · simp [hx]
    · have : p < x.1 ∨ x.1 < p := by omega
      rcases this with h1 | h1
      · simp [hx, h1]
      · simp [hx, h1]
  rw [e]; exact h

/-- all insertions of the block, in the order the model lists them: by record, then along the CIGAR -/
def allIns (block : List SamRec) : List Ins :=
  (List.range block.length).flatMap fun i => (insOf (block.getD i default)).map fun x => (x.1, x.2, i)

def sortedIns (block : List SamRec) : List Ins := sortStable ltIns (allIns block)

theorem zip_range_eq {β : Type} (l : List β) (d : β) :
    l.zip (List.range l.length) = (List.range l.length).map fun i => (l.getD i d, i) := by
  apply List.ext_getElem
  · simp
  · intro i h1 h2
    have : i < l.length := by simpa using h2
    simp [List.getD_eq_getElem?_getD, this]

theorem map_eq_range {β γ : Type} (l : List β) (d : β) (f : β → γ) :
    l.map f = (List.range l.length).map fun i => f (l.getD i d) := by
  apply List.ext_getElem
  · simp
  · intro i h1 h2
    have : i < l.length := by simpa using h1
    simp [List.getD_eq_getElem?_getD, this]

theorem getD_mem {β : Type} (l : List β) (d : β) (i : Nat) (h : i < l.length) : l.getD i d ∈ l := by
  simp [List.getD_eq_getElem?_getD, h]

/-- the model's insertion list is `allIns` without the bases -/
theorem model_inss (block : List SamRec) (hq : ∀ r ∈ block, qSpan samInsRef r.cigar ≤ r.seq.length) :
    ((block.zip (List.range block.length)).flatMap fun (r, i) => (insertionsOf r.pos r.cigar).map fun x => (x.1, x.2, i)) =
      (allIns block).map forget := by
  rw [zip_range_eq block default]
  unfold allIns
  rw [List.flatMap_map, List.map_flatMap]
  apply flatMap_congr'
  intro i hi
  have hi' := List.mem_range.1 hi
  have hm := getD_mem block default i hi'
  simp only []
  rw [insertionsOf_eq (block.getD i default).seq (block.getD i default).cigar 0 _ (by have := hq _ hm; omega)]
  unfold insOf forget
  simp [List.map_map]

theorem spec_inss (block : List SamRec) :
    (block.flatMap fun r => insList r.seq r.cigar 0 r.pos) = (allIns block).map fun x => (x.1, x.2.1) := by
  unfold allIns
  rw [List.map_flatMap]
  have : (block.flatMap fun r => insList r.seq r.cigar 0 r.pos) = (block.map insOf).flatten := by
    rw [List.flatMap_def]; rfl
  rw [this, map_eq_range block default insOf, List.flatMap_def]
  congr 1
  apply List.map_congr_left
  intro i _
  simp [List.map_map, Function.comp_def]

theorem mem_allIns (block : List SamRec) (x : Ins) :
    x ∈ allIns block ↔ x.2.2 < block.length ∧ (x.1, x.2.1) ∈ insOf (block.getD x.2.2 default) := by
  unfold allIns
  simp only [List.mem_flatMap, List.mem_range, List.mem_map]
  constructor
  · rintro ⟨i, hi, y, hy, rfl⟩
    exact ⟨hi, hy⟩
  · rintro ⟨h1, h2⟩
    exact ⟨x.2.2, h1, (x.1, x.2.1), h2, rfl⟩

theorem filter_owner_range (F : Nat → List Ins) (hF : ∀ i, ∀ x ∈ F i, x.2.2 = i) (j : Nat) : ∀ (n : Nat),
    ((List.range n).flatMap F).filter (fun x => x.2.2 == j) = if j < n then F j else [] := by
  intro n
  induction n with
  | zero => simp
  | succ n ih =>
    rw [List.range_succ, List.flatMap_append, List.filter_append, ih]
    simp only [List.flatMap_cons, List.flatMap_nil, List.append_nil]
    by_cases hjn : j < n
    · have : (F n).filter (fun x => x.2.2 == j) = [] := by
        apply filter_nil_of; intro x hx; have := hF n x hx; simp; omega
      have h2 : j < n + 1 := by omega
      simp [hjn, h2, this]
    · by_cases hj : j = n
      · subst hj
        have : (F j).filter (fun x => x.2.2 == j) = F j := by
          rw [List.filter_eq_self]; intro x hx; simp [hF j x hx]
        simp [this]
      · have : (F n).filter (fun x => x.2.2 == j) = [] := by
          apply filter_nil_of; intro x hx; have := hF n x hx; simp; omega
        have h2 : ¬ j < n + 1 := by omega
        simp [hjn, h2, this]

theorem filter_owner_allIns (block : List SamRec) (j : Nat) (hj : j < block.length) :
    (allIns block).filter (fun x => x.2.2 == j) = (insOf (block.getD j default)).map fun x => (x.1, x.2, j) := by
  unfold allIns
  rw [filter_owner_range _ _ j block.length, if_pos hj]
  intro i x hx
  simp only [List.mem_map] at hx
  obtain ⟨y, _, rfl⟩ := hx
  rfl

/-- the insertions of record j among the sorted ones located at p are its own insertions located at p, in CIGAR order -/
theorem own_sorted (block : List SamRec) (j : Nat) (hj : j < block.length) (p : Nat) :
    (sortedIns block).filter (fun x => x.1 == p && x.2.2 == j) =
      ((insOf (block.getD j default)).filter fun x => x.1 == p).map fun x => (x.1, x.2, j) := by
  have h1 : (sortedIns block).filter (fun x => x.1 == p && x.2.2 == j) =
      ((sortedIns block).filter (fun x => x.1 == p)).filter (fun x => x.2.2 == j) := by
    rw [List.filter_filter]; apply List.filter_congr; intro x _; exact Bool.and_comm _ _
  rw [h1]
  unfold sortedIns
  rw [filter_pos_sort, List.filter_filter]
  have h2 : (allIns block).filter (fun x => x.2.2 == j && x.1 == p) =
      ((allIns block).filter (fun x => x.2.2 == j)).filter (fun x => x.1 == p) := by
    rw [List.filter_filter]; apply List.filter_congr; intro x _; exact Bool.and_comm _ _
  rw [h2, filter_owner_allIns block j hj, List.filter_map]
  rfl


/-! ### Part 4 — the rows after all insertions have been applied -/

def cR (x : Ins) : List Nat := List.replicate (wIns x) dash
def cQ (x : Ins) : List Nat := x.2.1

theorem cR_length (x : Ins) : (cR x).length = wIns x := by simp [cR]
theorem cQ_length (x : Ins) : (cQ x).length = wIns x := rfl

def mkRow (w : List Nat × List Nat) : PairRow := { ref := w.2, que := w.1, refEnd := (w.2.filter (· != dash)).length }

/-- the inserted columns of the finished row j before position p -/
def finSeg (c : Ins → List Nat) (block : List SamRec) (j p : Nat) : List Nat :=
  ((allIns block).filter fun x => x.1 == p).flatMap (rho c j)

theorem walkWithRef_refEnd (rc : SamRec) (ref : List Nat) (hnd : NoDash ref) (hr : rc.pos + refSpan samInsRef rc.cigar ≤ ref.length) :
    ((walkWithRef rc ref true).2.filter (· != dash)).length = endOf rc := by
  have hw : (walkWithRef rc ref true).2 = ref.take rc.pos ++ (walkOps samInsRef rc.seq ref rc.cigar 0 rc.pos).2 := by
    simp only [walkWithRef, if_true, op_table_ins_is_sam]
  rw [hw]
  have := degap_append (ref.take rc.pos) (walkOps samInsRef rc.seq ref rc.cigar 0 rc.pos).2
  unfold degap at this
  rw [this]
  have h1 : (ref.take rc.pos).filter (· != dash) = ref.take rc.pos := degap_noDash (fun x hx => hnd x (List.mem_of_mem_take hx))
  have h2 := ref_row_degap ref hnd rc.cigar rc.seq 0 rc.pos
  unfold degap at h2
  rw [h1, h2]
  simp only [List.length_append, List.length_take, List.length_drop]
  unfold endOf
  omega

theorem own_le (block : List SamRec) (x : Ins) (hx : x ∈ sortedIns block) :
    x.2.2 < block.length ∧ x.1 ≤ endOf (block.getD x.2.2 default) := by
  unfold sortedIns at hx
  rw [mem_sortStable] at hx
  obtain ⟨h1, h2⟩ := (mem_allIns block x).1 hx
  exact ⟨h1, insList_le _ _ 0 _ _ h2⟩

/-- **the merged rows**: row j holds, before every reference position p up to the end of record j, one run of columns
for each insertion of the block located at p, in block order (its own bases or gap columns), then the column of p -/
theorem merged_rows (block : List SamRec) (ref : List Nat) (hnd : NoDash ref)
    (hq : ∀ r ∈ block, qSpan samInsRef r.cigar ≤ r.seq.length)
    (hr : ∀ r ∈ block, r.pos + refSpan samInsRef r.cigar ≤ ref.length) :
    ∃ F : Nat → PairRow,
      ((sortedIns block).map forget).foldl applyInsertion ((block.map fun r => walkWithRef r ref true).map mkRow) =
        (List.range block.length).map F ∧
      ∀ j, j < block.length →
        (F j).ref = lay (endOf (block.getD j default)) (finSeg cR block j) (fun p => ref.getD p 0) ∧
        (F j).que = lay (endOf (block.getD j default)) (finSeg cQ block j) (fun p => (walkNoIns (block.getD j default) ref.length).getD p 0) := by
  let d : PairRow := mkRow ([], [])
  refine ⟨fun j => ((sortedIns block).map forget).foldl (stepRow j)
    (((block.map fun r => walkWithRef r ref true).map mkRow).getD j d), ?_, ?_⟩
  · rw [foldl_applyInsertion d]
    simp
  · intro j hj
    have hm := getD_mem block default j hj
    have hrow : ((block.map fun r => walkWithRef r ref true).map mkRow).getD j d = mkRow (walkWithRef (block.getD j default) ref true) := by
      simp [List.getD_eq_getElem?_getD, hj]
    simp only [hrow]
    obtain ⟨hl2, hl1⟩ := walkWithRef_lay (block.getD j default) ref (hq _ hm) (hr _ hm)
    have hsegc : ∀ (c : Ins → List Nat) (g : Nat × List Nat → List Nat), (∀ y, c (y.1, y.2, j) = g y) → ∀ p,
        segOf c j [] (sortedIns block) p = segRec g (block.getD j default) p := by
      intro c g hcg p
      unfold segOf segRec
      rw [own_sorted block j hj p, List.flatMap_map]
      simp only [List.filter_nil, List.flatMap_nil, List.nil_append]
      apply flatMap_congr'
      intro y _
      exact hcg y
    have inv0 : RowInv j (endOf (block.getD j default)) cR cQ (fun p => ref.getD p 0)
        (fun p => (walkNoIns (block.getD j default) ref.length).getD p 0) [] (sortedIns block)
        (mkRow (walkWithRef (block.getD j default) ref true)) := by
      refine ⟨?_, ?_, rfl, ?_⟩
      · show (walkWithRef (block.getD j default) ref true).2 = _
        rw [hl2]
        exact lay_congr _ _ _ _ _ (fun p _ => (hsegc cR _ (fun y => rfl) p).symm) (fun _ _ => rfl)
      · show (walkWithRef (block.getD j default) ref true).1 = _
        rw [hl1]
        exact lay_congr _ _ _ _ _ (fun p _ => (hsegc cQ _ (fun y => rfl) p).symm) (fun _ _ => rfl)
      · exact walkWithRef_refEnd _ ref hnd (hr _ hm)
    have hsorted : (([] : List Ins) ++ sortedIns block).Pairwise (fun a b => a.1 ≤ b.1) := by
      rw [List.nil_append]; exact sorted_pairwise _ (sorted_sortStable swo_ltIns (allIns block))
    have hown : ∀ x ∈ sortedIns block, x.2.2 = j → x.1 ≤ endOf (block.getD j default) := by
      intro x hx hxj
      have := (own_le block x hx).2
      rw [hxj] at this; exact this
    have fin := rowInv_fold j _ cR cQ cR_length cQ_length _ _ (sortedIns block) [] _ hsorted hown inv0
    obtain ⟨f1, f2, _, _⟩ := fin
    have hfin : ∀ (c : Ins → List Nat) (p : Nat), segOf c j ([] ++ sortedIns block) [] p = finSeg c block j p := by
      intro c p
      unfold segOf finSeg
      simp only [List.nil_append, List.filter_nil, List.flatMap_nil, List.append_nil]
      unfold sortedIns
      rw [filter_pos_sort]
    constructor
    · rw [f1]; exact lay_congr _ _ _ _ _ (fun p _ => hfin cR p) (fun _ _ => rfl)
    · rw [f2]; exact lay_congr _ _ _ _ _ (fun p _ => hfin cQ p) (fun _ _ => rfl)


/-! ### Part 5 — flattening rows that are layouts over the same columns -/

section Flatten
variable {β : Type}

theorem flattenRows_cons (r0 : List Nat) (t : List (List Nat)) :
    flattenRows (r0 :: t) = (List.range r0.length).map fun c => flattenSite (colAt (r0 :: t) c) := rfl

theorem flattenRows_append (js : List β) (hne : js ≠ []) (a b : β → List Nat) (n : Nat) (ha : ∀ j ∈ js, (a j).length = n) :
    flattenRows (js.map fun j => a j ++ b j) = flattenRows (js.map a) ++ flattenRows (js.map b) := by
  cases js with
  | nil => exact absurd rfl hne
  | cons j0 t =>
    have h0 := ha j0 (List.mem_cons_self)
    simp only [List.map_cons, flattenRows_cons, List.length_append, h0]
    rw [range_add_map]
    congr 1
    · apply List.map_congr_left
      intro c hc
      have hc' := List.mem_range.1 hc
      congr 1
      have : ∀ j ∈ j0 :: t, (a j ++ b j).getD c 0 = (a j).getD c 0 := by
        intro j hj
        have : c < (a j).length := by rw [ha j hj]; exact hc'
        simp [List.getD_eq_getElem?_getD, List.getElem?_append_left this]
      have e := List.map_congr_left this
      simp only [colAt, List.map_cons, List.map_map] at e ⊢
      exact e
    · apply List.map_congr_left
      intro c _
      congr 1
      have : ∀ j ∈ j0 :: t, (a j ++ b j).getD (n + c) 0 = (b j).getD c 0 := by
        intro j hj
        exact getD_append_add _ _ n c (ha j hj)
      have e := List.map_congr_left this
      simp only [colAt, List.map_cons, List.map_map] at e ⊢
      exact e

theorem flattenRows_col (js : List β) (hne : js ≠ []) (v : β → Nat) :
    flattenRows (js.map fun j => [v j]) = [flattenSite (js.map v)] := by
  cases js with
  | nil => exact absurd rfl hne
  | cons j0 t =>
    simp only [List.map_cons, flattenRows_cons, List.length_cons, List.length_nil]
    simp [colAt, Function.comp_def]

theorem flattenRows_nils (js : List β) (hne : js ≠ []) : flattenRows (js.map fun _ => ([] : List Nat)) = [] := by
  cases js with
  | nil => exact absurd rfl hne
  | cons j0 t => simp [flattenRows_cons]

theorem sumTo_congr (f g : Nat → Nat) (n : Nat) (h : ∀ i, i < n → f i = g i) : sumTo f n = sumTo g n := by
  unfold sumTo
  congr 1
  apply List.map_congr_left
  intro i hi
  exact h i (List.mem_range.1 hi)

/-- rows that are layouts with runs of the same lengths flatten run by run and column by column -/
theorem flattenRows_lay (js : List β) (hne : js ≠ []) (sp : β → Nat → List Nat) (bp : β → Nat → Nat) (c : Nat → Nat) : ∀ (n : Nat),
    (∀ j ∈ js, ∀ p, p ≤ n → (sp j p).length = c p) →
    flattenRows (js.map fun j => lay n (sp j) (bp j)) =
      lay n (fun p => flattenRows (js.map fun j => sp j p)) (fun p => flattenSite (js.map fun j => bp j p)) := by
  intro n
  induction n with
  | zero =>
    intro _
    simp [lay, pre_zero]
  | succ n ih =>
    intro hlen
    have hl : ∀ j ∈ js, (lay n (sp j) (bp j)).length = n + sumTo c (n + 1) := by
      intro j hj
      rw [lay_length]
      congr 1
      exact sumTo_congr _ _ _ (fun i hi => hlen j hj i (by omega))
    have e1 : (js.map fun j => lay (n + 1) (sp j) (bp j)) = js.map fun j => lay n (sp j) (bp j) ++ ([bp j n] ++ sp j (n + 1)) := by
      apply List.map_congr_left
      intro j _
      rw [lay_succ]; rfl
    rw [e1, flattenRows_append js hne _ _ _ hl, ih (fun j hj p hp => hlen j hj p (by omega)),
      flattenRows_append js hne (fun j => [bp j n]) _ 1 (fun _ _ => rfl), flattenRows_col js hne, lay_succ]
    rfl

theorem flattenRows_flatMap (js : List β) (hne : js ≠ []) (g : β → Ins → List Nat) (hg : ∀ j ∈ js, ∀ x, (g j x).length = wIns x) :
    ∀ (Y : List Ins), flattenRows (js.map fun j => Y.flatMap (g j)) = Y.flatMap fun x => flattenRows (js.map fun j => g j x) := by
  intro Y
  induction Y with
  | nil => simp only [List.flatMap_nil]; exact flattenRows_nils js hne
  | cons x t ih =>
    simp only [List.flatMap_cons]
    rw [flattenRows_append js hne _ _ (wIns x) (fun j hj => hg j hj x), ih]

theorem eraseDups_all_eq (l : List Nat) (b : Nat) (h : ∀ x ∈ l, x = b) : l.eraseDups = [] ∨ l.eraseDups = [b] := by
  cases l with
  | nil => left; simp
  | cons a t =>
    right
    have ha : a = b := h a (List.mem_cons_self)
    subst ha
    rw [List.eraseDups_cons]
    have : (t.filter fun y => !y == a) = [] := by
      apply filter_nil_of
      intro y hy
      simp [h y (List.mem_cons_of_mem _ hy)]
    rw [this]; simp

/-- a column holding one value and otherwise only smaller marks that are not letters flattens to that value -/
theorem flattenSite_dominant (site : List Nat) (b : Nat) (hb : b ∈ site)
    (h : ∀ y ∈ site, y = b ∨ (y ≤ b ∧ isLetter y = false)) : flattenSite site = b := by
  unfold flattenSite
  simp only []
  rw [filter_eraseDups isLetter _ _ (Nat.le_refl _)]
  have hall : ∀ y ∈ site.filter isLetter, y = b := by
    intro y hy
    obtain ⟨h1, h2⟩ := List.mem_filter.1 hy
    rcases h y h1 with e | ⟨_, e⟩
    · exact e
    · rw [h2] at e; cases e
  have hlen : ¬ (site.filter isLetter).eraseDups.length > 1 := by
    rcases eraseDups_all_eq _ b hall with e | e <;> rw [e] <;> simp
  rw [if_neg hlen]
  apply foldl_max_eq _ b (List.mem_eraseDups.2 hb) _ 0 (Nat.zero_le _)
  intro y hy
  rcases h y (List.mem_eraseDups.1 hy) with e | ⟨e, _⟩
  · rw [e]; exact Nat.le_refl _
  · exact e

theorem not_letter_le (y : Nat) (h : y ≤ dash) : isLetter y = false := by
  unfold isLetter dash at *
  simp only [Bool.or_eq_false_iff, Bool.and_eq_false_iff, decide_eq_false_iff_not]
  omega

/-- rows that hold the same run v, or as many gap or no-coverage marks, flatten to v -/
theorem flattenRows_dominant (js : List β) (g : β → List Nat) (v : List Nat) (hv : ∀ b ∈ v, dash ≤ b) (j0 : β) (hj0 : j0 ∈ js)
    (h0 : g j0 = v)
    (h : ∀ j ∈ js, g j = v ∨ g j = List.replicate v.length dash ∨ g j = List.replicate v.length star) :
    flattenRows (js.map g) = v := by
  cases js with
  | nil => cases hj0
  | cons j1 t =>
    have hlen : ∀ j ∈ j1 :: t, (g j).length = v.length := by
      intro j hj
      rcases h j hj with e | e | e <;> rw [e] <;> simp
    rw [List.map_cons, flattenRows_cons, hlen j1 (List.mem_cons_self)]
    apply List.ext_getElem
    · simp
    · intro c h1 h2
      have hc : c < v.length := by simpa using h2
      simp only [List.getElem_map, List.getElem_range]
      have hvc : dash ≤ v[c] := hv _ (List.getElem_mem hc)
      apply flattenSite_dominant
      · show v[c] ∈ colAt ((j1 :: t).map g) c
        unfold colAt
        rw [List.map_map]
        refine List.mem_map.2 ⟨j0, hj0, ?_⟩
        simp [h0, List.getD_eq_getElem?_getD, hc]
      · intro y hy
        have hy' : y ∈ colAt ((j1 :: t).map g) c := hy
        unfold colAt at hy'
        rw [List.map_map] at hy'
        obtain ⟨j, hj, rfl⟩ := List.mem_map.1 hy'
        simp only [Function.comp]
        rcases h j hj with e | e | e
        · left; simp [e, List.getD_eq_getElem?_getD, hc]
        · right
          have : (g j).getD c 0 = dash := by simp [e, List.getD_eq_getElem?_getD, hc]
          rw [this]; exact ⟨hvc, not_letter_le _ (Nat.le_refl _)⟩
        · right
          have : (g j).getD c 0 = star := by simp [e, List.getD_eq_getElem?_getD, hc]
          rw [this]
          have hsd : star ≤ dash := by decide
          exact ⟨Nat.le_trans hsd hvc, not_letter_le _ hsd⟩

end Flatten


/-! ### Part 6 — padding a finished row to the longest one -/

/-- a layout padded on the right with no-coverage marks is the layout over more positions whose further runs and
columns are no-coverage marks -/
theorem lay_pad (seg : Nat → List Nat) (base : Nat → Nat) (c : Nat → Nat) (E : Nat) : ∀ (d : Nat), ∃ k,
    lay (E + d) (fun p => if p ≤ E then seg p else List.replicate (c p) star) (fun p => if p < E then base p else star) =
      lay E seg base ++ List.replicate k star := by
  intro d
  induction d with
  | zero =>
    refine ⟨0, ?_⟩
    simp only [Nat.add_zero, List.replicate_zero, List.append_nil]
    apply lay_congr
    · intro i hi; simp [hi]
    · intro i hi; simp [hi]
  | succ d ih =>
    obtain ⟨k, hk⟩ := ih
    refine ⟨k + (1 + c (E + d + 1)), ?_⟩
    have : E + (d + 1) = E + d + 1 := by omega
    rw [this, lay_succ, hk]
    have h1 : ¬ E + d < E := by omega
    have h2 : ¬ E + d + 1 ≤ E := by omega
    simp only [h1, h2, if_false, List.append_assoc]
    congr 1
    have e : star :: List.replicate (c (E + d + 1)) star = List.replicate (1 + c (E + d + 1)) star := by
      rw [Nat.add_comm 1 (c (E + d + 1))]; rfl
    rw [e, List.replicate_append_replicate]

theorem padTo_of_eq (row P : List Nat) (n k : Nat) (h : P = row ++ List.replicate k star) (hn : P.length = n) : padTo n row = P := by
  unfold padTo
  rw [h]
  congr 2
  rw [h] at hn
  simp at hn
  omega

theorem replicate_tot (b : Nat) (Y : List Ins) : List.replicate (tot Y) b = Y.flatMap fun x => List.replicate (wIns x) b := by
  induction Y with
  | nil => rfl
  | cons x t ih => rw [tot_cons, List.flatMap_cons, ← ih, List.replicate_append_replicate]

theorem sumTo_tot (Y : List Ins) : ∀ (n : Nat),
    sumTo (fun p => tot (Y.filter fun x => x.1 == p)) n = tot (Y.filter fun x => decide (x.1 < n)) := by
  intro n
  induction n with
  | zero =>
    have : (Y.filter fun x => decide (x.1 < 0)) = [] := filter_nil_of _ _ (by intro y _; simp)
    rw [this]; rfl
  | succ n ih => rw [sumTo_succ, ih, tot_filter_lt_succ]

theorem exists_max (f : Nat → Nat) : ∀ (k : Nat), 0 < k → ∃ m, m < k ∧ ∀ j, j < k → f j ≤ f m := by
  intro k
  induction k with
  | zero => intro h; omega
  | succ k ih =>
    intro _
    by_cases hk : 0 < k
    · obtain ⟨m, hm, hmax⟩ := ih hk
      by_cases hc : f m ≤ f k
      · refine ⟨k, by omega, ?_⟩
        intro j hj
        by_cases hjk : j = k
        · subst hjk; exact Nat.le_refl _
        · exact Nat.le_trans (hmax j (by omega)) hc
      · refine ⟨m, by omega, ?_⟩
        intro j hj
        by_cases hjk : j = k
        · subst hjk; omega
        · exact hmax j (by omega)
    · have : k = 0 := by omega
      subst this
      refine ⟨0, by omega, ?_⟩
      intro j hj
      have : j = 0 := by omega
      subst this; exact Nat.le_refl _


/-- the run of row j before position p after padding: its columns while the row lasts, no-coverage marks after -/
def segP (c : Ins → List Nat) (block : List SamRec) (j p : Nat) : List Nat :=
  ((allIns block).filter fun x => x.1 == p).flatMap fun x =>
    if p ≤ endOf (block.getD j default) then rho c j x else List.replicate (wIns x) star

theorem segP_length (c : Ins → List Nat) (hc : ∀ x, (c x).length = wIns x) (block : List SamRec) (j p : Nat) :
    (segP c block j p).length = tot ((allIns block).filter fun x => x.1 == p) := by
  unfold segP
  apply flatMap_length_tot
  intro x
  split
  · exact rho_length c hc j x
  · simp

theorem lay_segP_length (c : Ins → List Nat) (hc : ∀ x, (c x).length = wIns x) (block : List SamRec) (j M : Nat) (b : Nat → Nat)
    (hall : ∀ x ∈ allIns block, x.1 ≤ M) : (lay M (segP c block j) b).length = M + tot (allIns block) := by
  rw [lay_length, sumTo_congr _ (fun p => tot ((allIns block).filter fun x => x.1 == p)) _ (fun i _ => segP_length c hc block j i),
    sumTo_tot, tot_filter_all _ _ (by intro y hy; have := hall y hy; simp; omega)]

theorem padded_row (c : Ins → List Nat) (hc : ∀ x, (c x).length = wIns x) (block : List SamRec) (j M : Nat) (b : Nat → Nat)
    (hEM : endOf (block.getD j default) ≤ M) (hall : ∀ x ∈ allIns block, x.1 ≤ M) (row : List Nat)
    (hrow : row = lay (endOf (block.getD j default)) (finSeg c block j) b) :
    padTo (M + tot (allIns block)) row =
      lay M (segP c block j) (fun p => if p < endOf (block.getD j default) then b p else star) ∧
    row.length ≤ M + tot (allIns block) ∧ (endOf (block.getD j default) = M → row.length = M + tot (allIns block)) := by
  obtain ⟨k, hk⟩ := lay_pad (finSeg c block j) b (fun p => tot ((allIns block).filter fun x => x.1 == p))
    (endOf (block.getD j default)) (M - endOf (block.getD j default))
  have hM : endOf (block.getD j default) + (M - endOf (block.getD j default)) = M := by omega
  rw [hM] at hk
  have hP : lay M (segP c block j) (fun p => if p < endOf (block.getD j default) then b p else star) = row ++ List.replicate k star := by
    rw [hrow, ← hk]
    apply lay_congr
    · intro p _
      unfold segP finSeg
      by_cases hp : p ≤ endOf (block.getD j default)
      · simp only [hp, if_true]
      · simp only [hp, if_false]
        rw [replicate_tot]
    · intro _ _; rfl
  have hlen := lay_segP_length c hc block j M (fun p => if p < endOf (block.getD j default) then b p else star) hall
  refine ⟨padTo_of_eq row _ _ k hP hlen, ?_, ?_⟩
  · rw [hP] at hlen; simp at hlen; omega
  · intro hE
    have : row = lay M (segP c block j) b := by
      rw [hrow, hE]
      apply lay_congr
      · intro p hp
        unfold segP finSeg
        rw [hE]
        simp only [hp, if_true]
      · intro _ _; rfl
    rw [this]
    exact lay_segP_length c hc block j M b hall

/-- the runs of the padded rows before position p flatten to the inserted columns of the block at p -/
theorem flatten_seg (c : Ins → List Nat) (hc : ∀ x, (c x).length = wIns x) (block : List SamRec) (hne : block ≠ [])
    (hdash : ∀ x ∈ allIns block, ∀ b ∈ c x, dash ≤ b) (p : Nat) :
    flattenRows ((List.range block.length).map fun j => segP c block j p) = ((allIns block).filter fun x => x.1 == p).flatMap c := by
  have hk : 0 < block.length := by cases block with | nil => exact absurd rfl hne | cons _ _ => simp
  have hjs : List.range block.length ≠ [] := by
    intro h; have := congrArg List.length h; simp only [List.length_range, List.length_nil] at this; omega
  unfold segP
  rw [flattenRows_flatMap _ hjs (fun j x => if p ≤ endOf (block.getD j default) then rho c j x else List.replicate (wIns x) star)]
  · apply flatMap_congr'
    intro x hx
    obtain ⟨hxm, hxp⟩ := List.mem_filter.1 hx
    have hxp' : x.1 = p := by simpa using hxp
    have hsm : x ∈ sortedIns block := by unfold sortedIns; rw [mem_sortStable]; exact hxm
    obtain ⟨ho, hle⟩ := own_le block x hsm
    apply flattenRows_dominant _ _ (c x) (hdash x hxm) x.2.2 (List.mem_range.2 ho)
    · rw [hxp'] at hle
      simp only [hle, if_true, rho]
    · intro j _
      by_cases hp : p ≤ endOf (block.getD j default)
      · simp only [hp, if_true]
        unfold rho
        by_cases hj : x.2.2 = j
        · left; simp [hj]
        · right; left; simp [hj, hc x]
      · right; right
        simp only [hp, if_false, hc x]
  · intro j _ x
    split
    · exact rho_length c hc j x
    · simp


/-! ### Part 7 — the flattened rows -/

theorem insList_bases (seq : List Nat) : ∀ (cigar : List (Nat × Nat)) (q r : Nat), ∀ x ∈ insList seq cigar q r, ∀ b ∈ x.2, b ∈ seq := by
  intro cigar
  induction cigar with
  | nil => intro q r x hx; simp [insList] at hx
  | cons c rest ih =>
    intro q r x hx
    obtain ⟨op, len⟩ := c
    rcases opEntry_ins_cases op with ⟨ho, _⟩ | ⟨ho, _⟩ | ⟨ho, _⟩ | ⟨ho, _⟩ | ⟨ho, _⟩ | ⟨ho, _⟩ | ⟨ho, _⟩
    · rw [insList_M _ _ _ _ _ _ ho] at hx; exact ih _ _ x hx
    · subst ho; rw [insList_I] at hx
      rcases List.mem_cons.1 hx with rfl | hx
      · intro b hb; exact List.mem_of_mem_drop (List.mem_of_mem_take hb)
      · exact ih _ _ x hx
    · rw [insList_DN _ _ _ _ _ _ (Or.inl ho)] at hx; exact ih _ _ x hx
    · rw [insList_DN _ _ _ _ _ _ (Or.inr ho)] at hx; exact ih _ _ x hx
    · subst ho; rw [insList_S] at hx; exact ih _ _ x hx
    · rw [insList_other _ _ _ _ _ _ (by omega)] at hx; exact ih _ _ x hx
    · rw [insList_other _ _ _ _ _ _ (by omega)] at hx; exact ih _ _ x hx

theorem allIns_letters (block : List SamRec) (hl : ∀ r ∈ block, ∀ b ∈ r.seq, isLetter b = true) :
    ∀ x ∈ allIns block, ∀ b ∈ x.2.1, isLetter b = true := by
  intro x hx b hb
  obtain ⟨h1, h2⟩ := (mem_allIns block x).1 hx
  have hm := getD_mem block default x.2.2 h1
  exact hl _ hm b (insList_bases _ _ _ _ _ h2 b hb)

theorem covAt_none (rc : SamRec) (p : Nat) (h : endOf rc ≤ p) : covAt rc p = none := by
  unfold covAt
  have : (covOf rc).find? (fun e => e.1 == p) = none := by
    rw [List.find?_eq_none]
    intro e he
    have := covList_lt rc.seq rc.cigar 0 rc.pos e he
    rw [← (spans_agree rc.cigar).2] at this
    unfold endOf at h
    simp; omega
  rw [this]; rfl

theorem wf_ins (rc : SamRec) (L : Nat) (h : WFSamRec rc L) :
    qSpan samInsRef rc.cigar ≤ rc.seq.length ∧ rc.pos + refSpan samInsRef rc.cigar ≤ L := by
  have hsp := spans_agree rc.cigar
  exact ⟨by rw [hsp.1]; exact h.hq, by rw [hsp.2]; exact h.hr⟩

/-- the query byte of record rc in the column of reference position p, no-coverage mark past its end -/
theorem walkNoIns_past (rc : SamRec) (L : Nat) (h : WFSamRec rc L) (p : Nat) (hp : p < L) :
    (if p < endOf rc then (walkNoIns rc L).getD p 0 else star) = (walkNoIns rc L).getD p 0 := by
  by_cases hlt : p < endOf rc
  · simp [hlt]
  · simp only [hlt, if_false]
    rw [walk_row rc L h.hq h.hr, getD_map_range _ _ _ _ hp, covAt_none rc p (by omega)]
    rfl

theorem flatten_que_base (block : List SamRec) (L : Nat) (hne : block ≠ []) (hwf : ∀ r ∈ block, WFSamRec r L) (p : Nat) (hp : p < L) :
    flattenSite ((List.range block.length).map fun j =>
      if p < endOf (block.getD j default) then (walkNoIns (block.getD j default) L).getD p 0 else star) =
      colByte (flatCol block p) := by
  rw [← flatten_column block L hne hwf p, ← colAt_walks block L hwf p hp]
  unfold colAt
  rw [List.map_map, map_eq_range block default]
  congr 1
  apply List.map_congr_left
  intro j hj
  have hm := getD_mem block default j (List.mem_range.1 hj)
  exact walkNoIns_past _ L (hwf _ hm) p hp

theorem star_le_dash : star ≤ dash := by decide

theorem flatten_ref_base (block : List SamRec) (ref : List Nat) (hge : ∀ b ∈ ref, star ≤ b) (m : Nat) (hm : m < block.length)
    (p : Nat) (hp : p < endOf (block.getD m default)) (hpL : p < ref.length) :
    flattenSite ((List.range block.length).map fun j =>
      if p < endOf (block.getD j default) then ref.getD p 0 else star) = ref.getD p 0 := by
  apply flattenSite_dominant
  · refine List.mem_map.2 ⟨m, List.mem_range.2 hm, ?_⟩
    simp only [hp, if_true]
  · intro y hy
    obtain ⟨j, _, rfl⟩ := List.mem_map.1 hy
    by_cases h : p < endOf (block.getD j default)
    · left; simp only [h, if_true]
    · right
      simp only [h, if_false]
      refine ⟨hge _ ?_, not_letter_le _ star_le_dash⟩
      simp [List.getD_eq_getElem?_getD, hpL]


/-- the inserted columns of the whole block before position p -/
def blockSeg (c : Ins → List Nat) (block : List SamRec) (p : Nat) : List Nat :=
  ((allIns block).filter fun x => x.1 == p).flatMap c

/-- the rows of the block after every insertion has been applied, the length of the longest, and the two flattened rows -/
def mergedOf (block : List SamRec) (ref : List Nat) : List PairRow :=
  ((sortedIns block).map forget).foldl applyInsertion ((block.map fun r => walkWithRef r ref true).map mkRow)
def mxOf (block : List SamRec) (ref : List Nat) : Nat := ((mergedOf block ref).map fun r => r.ref.length).foldl max 0
def flatR (block : List SamRec) (ref : List Nat) : List Nat := flattenRows ((mergedOf block ref).map fun r => padTo (mxOf block ref) r.ref)
def flatQ (block : List SamRec) (ref : List Nat) : List Nat := flattenRows ((mergedOf block ref).map fun r => padTo (mxOf block ref) r.que)

/-- **the two flattened rows** of a block, before the right extension: up to the end M of the record reaching furthest,
the reference row holds the reference bases and a run of '-' for every insertion, the query row the inserted bases and
the verdict of `flatCol` for every reference position -/
theorem flattened (block : List SamRec) (ref : List Nat) (hne : block ≠ []) (hnd : NoDash ref) (hge : ∀ b ∈ ref, star ≤ b)
    (hwf : ∀ r ∈ block, WFSamRec r ref.length) :
    ∃ M, M ≤ ref.length ∧ (∀ x ∈ allIns block, x.1 ≤ M) ∧ (∀ r ∈ block, endOf r ≤ M) ∧
      flatR block ref = lay M (blockSeg cR block) (fun p => ref.getD p 0) ∧
      flatQ block ref = lay M (blockSeg cQ block) (fun p => colByte (flatCol block p)) := by
  unfold flatR flatQ mxOf mergedOf
  have hk : 0 < block.length := by cases block with | nil => exact absurd rfl hne | cons _ _ => simp
  have hjs : List.range block.length ≠ [] := by
    intro h; have := congrArg List.length h; simp only [List.length_range, List.length_nil] at this; omega
  have hq : ∀ r ∈ block, qSpan samInsRef r.cigar ≤ r.seq.length := fun r hr => (wf_ins r _ (hwf r hr)).1
  have hr : ∀ r ∈ block, r.pos + refSpan samInsRef r.cigar ≤ ref.length := fun r hr => (wf_ins r _ (hwf r hr)).2
  obtain ⟨F, hF, hrows⟩ := merged_rows block ref hnd hq hr
  obtain ⟨m, hm, hmax⟩ := exists_max (fun j => endOf (block.getD j default)) block.length hk
  have hmm := getD_mem block default m hm
  have hML : endOf (block.getD m default) ≤ ref.length := hr _ hmm
  have hall : ∀ x ∈ allIns block, x.1 ≤ endOf (block.getD m default) := by
    intro x hx
    have hsm : x ∈ sortedIns block := by unfold sortedIns; rw [mem_sortStable]; exact hx
    obtain ⟨ho, hle⟩ := own_le block x hsm
    exact Nat.le_trans hle (hmax _ ho)
  have hends : ∀ r ∈ block, endOf r ≤ endOf (block.getD m default) := by
    intro r hrb
    obtain ⟨j, hj, rfl⟩ := List.getElem_of_mem hrb
    have := hmax j hj
    simpa [List.getD_eq_getElem?_getD, hj] using this
  refine ⟨endOf (block.getD m default), hML, hall, hends, ?_⟩
  rw [hF]
  -- the longest row
  have hmx : (((List.range block.length).map F).map fun r => r.ref.length).foldl max 0 =
      endOf (block.getD m default) + tot (allIns block) := by
    apply foldl_max_eq _ _ _ _ 0 (Nat.zero_le _)
    · rw [List.map_map]
      refine List.mem_map.2 ⟨m, List.mem_range.2 hm, ?_⟩
      exact (padded_row cR cR_length block m _ _ (Nat.le_refl _) hall _ (hrows m hm).1).2.2 rfl
    · intro y hy
      rw [List.map_map] at hy
      obtain ⟨j, hj, rfl⟩ := List.mem_map.1 hy
      have hj' := List.mem_range.1 hj
      exact (padded_row cR cR_length block j _ _ (hmax j hj') hall _ (hrows j hj').1).2.1
  rw [hmx, List.map_map, List.map_map]
  constructor
  · have e : ((List.range block.length).map ((fun r => padTo (endOf (block.getD m default) + tot (allIns block)) r.ref) ∘ F)) =
        (List.range block.length).map fun j => lay (endOf (block.getD m default)) (segP cR block j)
          (fun p => if p < endOf (block.getD j default) then ref.getD p 0 else star) := by
      apply List.map_congr_left
      intro j hj
      have hj' := List.mem_range.1 hj
      exact (padded_row cR cR_length block j _ _ (hmax j hj') hall _ (hrows j hj').1).1
    rw [e, flattenRows_lay _ hjs _ _ (fun p => tot ((allIns block).filter fun x => x.1 == p)) _
      (fun j _ p _ => segP_length cR cR_length block j p)]
    apply lay_congr
    · intro p _
      exact flatten_seg cR cR_length block hne (by
        intro x _ b hb
        unfold cR at hb
        rw [List.eq_of_mem_replicate hb]
        exact Nat.le_refl _) p
    · intro p hp
      exact flatten_ref_base block ref hge m hm p hp (by omega)
  · have e : ((List.range block.length).map ((fun r => padTo (endOf (block.getD m default) + tot (allIns block)) r.que) ∘ F)) =
        (List.range block.length).map fun j => lay (endOf (block.getD m default)) (segP cQ block j)
          (fun p => if p < endOf (block.getD j default) then (walkNoIns (block.getD j default) ref.length).getD p 0 else star) := by
      apply List.map_congr_left
      intro j hj
      have hj' := List.mem_range.1 hj
      exact (padded_row cQ cQ_length block j _ _ (hmax j hj') hall _ (hrows j hj').2).1
    rw [e, flattenRows_lay _ hjs _ _ (fun p => tot ((allIns block).filter fun x => x.1 == p)) _
      (fun j _ p _ => segP_length cQ cQ_length block j p)]
    apply lay_congr
    · intro p _
      exact flatten_seg cQ cQ_length block hne (by
        intro x hx b hb
        have := letter_ge b (allIns_letters block (fun r hr => (hwf r hr).letters) x hx b hb)
        unfold dash; omega) p
    · intro p hp
      exact flatten_que_base block ref.length hne hwf p (by omega)


/-! ### Part 8 — the model against the specification -/

/-- `blockToSeqPair` written over the sorted list of insertions with their bases -/
theorem blockToSeqPair_unfold (block : List SamRec) (ref : List Nat) (hq : ∀ r ∈ block, qSpan samInsRef r.cigar ≤ r.seq.length) :
    blockToSeqPair block ref =
      (flatR block ref ++ ref.drop (ref.length - ((tot (allIns block) + ref.length) - (flatR block ref).length)),
       swapInNs (flatQ block ref ++ List.replicate ((tot (allIns block) + ref.length) - (flatR block ref).length) star)) := by
  unfold flatR flatQ mxOf mergedOf
  unfold blockToSeqPair
  simp only []
  rw [model_inss block hq]
  have hs : sortStable (fun a b : Nat × Nat × Nat => decide (a.1 < b.1)) ((allIns block).map forget) = (sortedIns block).map forget := by
    unfold sortedIns
    exact sortStable_map forget ltIns _ (fun _ _ => rfl) _
  rw [hs]
  have ht : (((allIns block).map forget).map fun x => x.2.1).sum = tot (allIns block) := by
    unfold tot; rw [List.map_map]; rfl
  rw [ht]
  rfl


theorem insCols_fst (X : List Ins) (p : Nat) :
    ((((X.map fun x => (x.1, x.2.1)).filter fun y => y.1 == p).flatMap fun y => y.2.map fun b => (dash, b)).map (·.1)) =
      (X.filter fun x => x.1 == p).flatMap cR := by
  induction X with
  | nil => rfl
  | cons x t ih =>
    by_cases hp : x.1 = p
    · simp only [List.map_cons, List.filter_cons, hp, beq_self_eq_true, if_true, List.flatMap_cons, List.map_append, ih]
      congr 1
      simp only [cR, wIns, List.map_map]
      have : ((fun x : Nat × Nat => x.1) ∘ fun b => (dash, b)) = fun _ => dash := rfl
      rw [this, List.map_const']
    · have : (x.1 == p) = false := by simpa using hp
      simp only [List.map_cons, List.filter_cons, this, Bool.false_eq_true, if_false, ih]

theorem insCols_snd (X : List Ins) (p : Nat) :
    ((((X.map fun x => (x.1, x.2.1)).filter fun y => y.1 == p).flatMap fun y => y.2.map fun b => (dash, b)).map (·.2)) =
      (X.filter fun x => x.1 == p).flatMap cQ := by
  induction X with
  | nil => rfl
  | cons x t ih =>
    by_cases hp : x.1 = p
    · simp only [List.map_cons, List.filter_cons, hp, beq_self_eq_true, if_true, List.flatMap_cons, List.map_append, ih]
      congr 1
      simp only [cQ, List.map_map]
      have : ((fun x : Nat × Nat => x.2) ∘ fun b => (dash, b)) = fun b => b := rfl
      rw [this, List.map_id']
    · have : (x.1 == p) = false := by simpa using hp
      simp only [List.map_cons, List.filter_cons, this, Bool.false_eq_true, if_false, ih]

/-- the specification, as a layout over the whole reference -/
theorem specPair_lay (block : List SamRec) (ref : List Nat) :
    specPair block ref = (lay ref.length (blockSeg cR block) (fun p => ref.getD p 0),
                          lay ref.length (blockSeg cQ block) (fun p => (flatCol block p).getD letN)) := by
  rw [PairSpec.specPair_eq]
  have hcols : (List.range (ref.length + 1)).flatMap (PairSpec.colsAt block ref) =
      lay ref.length (fun p => (((allIns block).map fun x => (x.1, x.2.1)).filter fun y => y.1 == p).flatMap fun y => y.2.map fun b => (dash, b))
        (fun p => (ref.getD p 0, (flatCol block p).getD letN)) := by
    unfold lay pre
    rw [List.range_succ, List.flatMap_append]
    congr 1
    · apply flatMap_congr'
      intro p hp
      have hp' := List.mem_range.1 hp
      unfold PairSpec.colsAt
      rw [spec_inss]
      simp [List.getD_eq_getElem?_getD, hp']
    · unfold PairSpec.colsAt
      rw [spec_inss]
      simp
  rw [hcols, lay_map, lay_map]
  congr 1
  · exact lay_congr _ _ _ _ _ (fun p _ => insCols_fst (allIns block) p) (fun _ _ => rfl)
  · exact lay_congr _ _ _ _ _ (fun p _ => insCols_snd (allIns block) p) (fun _ _ => rfl)

theorem flatCol_none (block : List SamRec) (p : Nat) (h : ∀ r ∈ block, endOf r ≤ p) : flatCol block p = none := by
  have : (block.filterMap fun r => covAt r p) = [] := by
    rw [List.filterMap_eq_nil_iff]
    intro r hr
    exact covAt_none r p (h r hr)
  unfold flatCol
  simp [this]

theorem map_range_const (n b : Nat) (f : Nat → Nat) (h : ∀ i, i < n → f i = b) : (List.range n).map f = List.replicate n b := by
  apply List.ext_getElem
  · simp
  · intro i h1 h2
    have : i < n := by simpa using h1
    simp [h i this]

theorem map_fix (f : Nat → Nat) (l : List Nat) (h : ∀ b ∈ l, f b = b) : l.map f = l := by
  induction l with
  | nil => rfl
  | cons a t ih => rw [List.map_cons, h a (List.mem_cons_self), ih (fun b hb => h b (List.mem_cons_of_mem _ hb))]

/-- **C02.model_is_spec** — for every non-empty block of records (one record or several, overlapping or not, insertions
anywhere, boundaries included), over a reference without '-' whose bytes are not below '*', and records that fit the
reference, whose SEQ covers their CIGAR and holds letters: the pair `blockToSeqPair` writes is exactly the
specification `specPair` -/
theorem blockToSeqPair_eq_specPair_of_ne (block : List SamRec) (ref : List Nat) (hne : block ≠ []) (hnd : NoDash ref)
    (hge : ∀ b ∈ ref, star ≤ b) (hwf : ∀ r ∈ block, WFSamRec r ref.length) :
    blockToSeqPair block ref = specPair block ref := by
  have hq : ∀ r ∈ block, qSpan samInsRef r.cigar ≤ r.seq.length := fun r hr => (wf_ins r _ (hwf r hr)).1
  obtain ⟨M, hML, hall, hends, hR, hQ⟩ := flattened block ref hne hnd hge hwf
  rw [blockToSeqPair_unfold block ref hq, specPair_lay, hR, hQ]
  have hsegnil : ∀ (c : Ins → List Nat) (i : Nat), M < i → blockSeg c block i = [] := by
    intro c i hi
    unfold blockSeg
    have : ((allIns block).filter fun x => x.1 == i) = [] := by
      apply filter_nil_of
      intro x hx
      have := hall x hx
      simp; omega
    rw [this]; rfl
  have hRlen : (lay M (blockSeg cR block) (fun p => ref.getD p 0)).length = M + tot (allIns block) := by
    rw [lay_length]
    have : ∀ i, i < M + 1 → (blockSeg cR block i).length = tot ((allIns block).filter fun x => x.1 == i) := by
      intro i _
      unfold blockSeg
      exact flatMap_length_tot _ cR_length _
    rw [sumTo_congr _ _ _ this, sumTo_tot, tot_filter_all _ _ (by intro y hy; have := hall y hy; simp; omega)]
  rw [hRlen]
  have hdiff : tot (allIns block) + ref.length - (M + tot (allIns block)) = ref.length - M := by omega
  have hM2 : ref.length - (ref.length - M) = M := by omega
  rw [hdiff, hM2]
  have hL : ref.length = M + (ref.length - M) := by omega
  congr 1
  · conv => rhs; rw [hL]
    rw [lay_extend _ _ M (hsegnil cR) (ref.length - M)]
    congr 1
    rw [← slice_eq_map ref M (ref.length - M) (by omega)]
    rw [List.take_of_length_le (by simp)]
  · have hnone : ∀ i, M ≤ i → flatCol block i = none := fun i hi => flatCol_none block i (fun r hr => Nat.le_trans (hends r hr) hi)
    have hext : lay M (blockSeg cQ block) (fun p => colByte (flatCol block p)) ++ List.replicate (ref.length - M) star =
        lay ref.length (blockSeg cQ block) (fun p => colByte (flatCol block p)) := by
      conv => rhs; rw [hL]
      rw [lay_extend _ _ M (hsegnil cQ) (ref.length - M)]
      congr 1
      symm
      apply map_range_const
      intro i _
      rw [hnone (M + i) (by omega)]
      rfl
    rw [hext]
    unfold swapInNs
    rw [lay_map]
    apply lay_congr
    · intro p _
      apply map_fix
      intro b hb
      unfold blockSeg at hb
      obtain ⟨x, hx, hbx⟩ := List.mem_flatMap.1 hb
      have hxm := (List.mem_filter.1 hx).1
      have := letter_ge b (allIns_letters block (fun r hr => (hwf r hr).letters) x hxm b hbx)
      have hne' : b ≠ star := by unfold star; omega
      simp [hne']
    · intro p _
      cases hc : flatCol block p with
      | none => simp [colByte]
      | some b =>
        have := flatCol_ne_star block ref.length hwf p b hc
        simp [colByte, this]


/-- a block without records (never produced by the grouping): the reference against a row of 'N' on both sides -/
theorem blockToSeqPair_nil (ref : List Nat) : blockToSeqPair [] ref = specPair [] ref := by
  rw [specPair_lay]
  have hseg : ∀ (c : Ins → List Nat) (p : Nat), blockSeg c [] p = [] := fun _ _ => rfl
  have hlay : ∀ (c : Ins → List Nat) (b : Nat → Nat), lay ref.length (blockSeg c []) b = (List.range ref.length).map b := by
    intro c b
    have := lay_shift (blockSeg c []) b ref.length (fun i _ => hseg c i) 0
    simpa [lay, pre_zero, hseg] using this
  rw [hlay, hlay]
  have h1 : (List.range ref.length).map (fun p => ref.getD p 0) = ref := by
    have := slice_eq_map ref 0 ref.length (by omega)
    simp only [List.drop_zero, List.take_length, Nat.zero_add] at this
    exact this.symm
  have h2 : (List.range ref.length).map (fun p => (flatCol [] p).getD letN) = List.replicate ref.length letN :=
    map_range_const _ _ _ (fun _ _ => rfl)
  rw [h1, h2]
  simp [blockToSeqPair, sortStable, flattenRows, swapInNs, star, letN]

/-- **C02.model_is_spec** — for every block of records of one query (one record or several, overlapping or not,
conflicting or not, insertions anywhere, shared boundaries included), over a reference without '-' whose bytes are not
below '*', and records that fit the reference, whose SEQ covers their CIGAR and holds letters: the pair
`blockToSeqPair` writes is exactly the specification `specPair` -/
theorem blockToSeqPair_eq_specPair (block : List SamRec) (ref : List Nat) (hnd : NoDash ref)
    (hge : ∀ b ∈ ref, star ≤ b) (hwf : ∀ r ∈ block, WFSamRec r ref.length) :
    blockToSeqPair block ref = specPair block ref := by
  by_cases hne : block = []
  · subst hne; exact blockToSeqPair_nil ref
  · exact blockToSeqPair_eq_specPair_of_ne block ref hne hnd hge hwf

/-! ### the properties of the pair, for every block -/

/-- **C02.multi_ref_lossless** (A) — removing '-' from the reference row gives back exactly the reference -/
theorem multi_ref_lossless (block : List SamRec) (ref : List Nat) (hnd : NoDash ref)
    (hge : ∀ b ∈ ref, star ≤ b) (hwf : ∀ r ∈ block, WFSamRec r ref.length) :
    degap (blockToSeqPair block ref).1 = ref := by
  rw [blockToSeqPair_eq_specPair block ref hnd hge hwf]
  exact PairSpec.specPair_lossless block ref hnd

/-- **C02.multi_equal_length** (B) — the two rows have the same length -/
theorem multi_lengths (block : List SamRec) (ref : List Nat) (hnd : NoDash ref)
    (hge : ∀ b ∈ ref, star ≤ b) (hwf : ∀ r ∈ block, WFSamRec r ref.length) :
    (blockToSeqPair block ref).1.length = (blockToSeqPair block ref).2.length := by
  rw [blockToSeqPair_eq_specPair block ref hnd hge hwf]
  exact PairSpec.specPair_lengths block ref

/-- the common length: the reference plus every inserted base of every record -/
theorem multi_length_eq (block : List SamRec) (ref : List Nat) (hnd : NoDash ref)
    (hge : ∀ b ∈ ref, star ≤ b) (hwf : ∀ r ∈ block, WFSamRec r ref.length) :
    (blockToSeqPair block ref).1.length = ref.length + tot (allIns block) := by
  rw [blockToSeqPair_eq_specPair block ref hnd hge hwf, specPair_lay]
  simp only []
  have hall : ∀ x ∈ allIns block, x.1 ≤ ref.length := by
    intro x hx
    obtain ⟨h1, h2⟩ := (mem_allIns block x).1 hx
    have hm := getD_mem block default x.2.2 h1
    exact Nat.le_trans (insList_le _ _ 0 _ _ h2) (wf_ins _ _ (hwf _ hm)).2
  rw [lay_length]
  have : ∀ i, i < ref.length + 1 → (blockSeg cR block i).length = tot ((allIns block).filter fun x => x.1 == i) := by
    intro i _
    unfold blockSeg
    exact flatMap_length_tot _ cR_length _
  rw [sumTo_congr _ _ _ this, sumTo_tot, tot_filter_all _ _ (by intro y hy; have := hall y hy; simp; omega)]

/-- the reference row has exactly as many '-' columns as the records of the block insert bases -/
theorem multi_gap_count (block : List SamRec) (ref : List Nat) (hnd : NoDash ref)
    (hge : ∀ b ∈ ref, star ≤ b) (hwf : ∀ r ∈ block, WFSamRec r ref.length) :
    ((blockToSeqPair block ref).1.filter (· == dash)).length = tot (allIns block) := by
  have hl := multi_length_eq block ref hnd hge hwf
  have hd := multi_ref_lossless block ref hnd hge hwf
  have hsplit : ∀ (l : List Nat), l.length = (l.filter (· == dash)).length + (degap l).length := by
    intro l
    induction l with
    | nil => rfl
    | cons a t ih =>
      unfold degap at ih ⊢
      by_cases h : a = dash
      · subst h; simp; omega
      · have h1 : (a == dash) = false := by simpa using h
        have h2 : (a != dash) = true := by simpa using h
        simp only [List.filter_cons, h1, h2, Bool.false_eq_true, if_false, if_true, List.length_cons]; omega
  have := hsplit (blockToSeqPair block ref).1
  rw [hd, hl] at this
  omega

/-- **C02.multi_skip_insertions** — deleting the reference-gap columns from the query row gives exactly the
`toMultiAlign --pad` row of the same query -/
theorem multi_skip_insertions (block : List SamRec) (ref : List Nat) (hnd : NoDash ref)
    (hge : ∀ b ∈ ref, star ≤ b) (hwf : ∀ r ∈ block, WFSamRec r ref.length) :
    keepRefCols (blockToSeqPair block ref).1 (blockToSeqPair block ref).2 = specTomaRow block ref.length true := by
  rw [blockToSeqPair_eq_specPair block ref hnd hge hwf]
  exact PairSpec.specPair_skip_insertions block ref hnd

/-- a reference made of letters meets both conditions on the reference -/
theorem letters_ref (ref : List Nat) (h : ∀ b ∈ ref, isLetter b = true) : NoDash ref ∧ ∀ b ∈ ref, star ≤ b := by
  constructor
  · intro b hb; have := letter_ge b (h b hb); unfold dash; omega
  · intro b hb; have := letter_ge b (h b hb); unfold star; omega

theorem blockToSeqPair_eq_specPair_letters (block : List SamRec) (ref : List Nat) (hl : ∀ b ∈ ref, isLetter b = true)
    (hwf : ∀ r ∈ block, WFSamRec r ref.length) : blockToSeqPair block ref = specPair block ref :=
  blockToSeqPair_eq_specPair block ref (letters_ref ref hl).1 (letters_ref ref hl).2 hwf

/-- the same with the hypotheses on the records written with the paired operator table -/
theorem blockToSeqPair_eq_specPair_ins (block : List SamRec) (ref : List Nat) (hnd : NoDash ref) (hge : ∀ b ∈ ref, star ≤ b)
    (hq : ∀ r ∈ block, qSpan samInsRef r.cigar ≤ r.seq.length)
    (hr : ∀ r ∈ block, r.pos + refSpan samInsRef r.cigar ≤ ref.length)
    (hl : ∀ r ∈ block, ∀ b ∈ r.seq, isLetter b = true) : blockToSeqPair block ref = specPair block ref := by
  apply blockToSeqPair_eq_specPair block ref hnd hge
  intro r hrb
  have hsp := spans_agree r.cigar
  exact ⟨by rw [← hsp.1]; exact hq r hrb, by rw [← hsp.2]; exact hr r hrb, hl r hrb⟩

/-! ### the whole command, insertions kept -/

theorem filter_zip_fst (f : Nat → Bool) : ∀ (l : List Nat) (l2 : List Nat), l2.length = l.length →
    ((l.zip l2).filter fun (b, _) => f b).length = (l.filter f).length := by
  intro l
  induction l with
  | nil => intro l2 _; simp
  | cons a t ih =>
    intro l2 h
    cases l2 with
    | nil => simp at h
    | cons c u =>
      simp only [List.zip_cons_cons, List.filter_cons]
      have := ih u (by simpa using h)
      by_cases hf : f a = true
      · simp only [hf, if_true, List.length_cons, this]
      · simp only [hf, Bool.false_eq_true, if_false, this]

/-- **C02.toPairAlign (insertions kept)** — for every SAM file whose retained records fit the reference and carry
letters, over a reference without '-' and without bytes below '*', and every accepted window: one text per query, in
input order, holding the specified pair cut from the column of reference base s to that of base e -/
theorem toPairAlign_keepIns_spec (ref : List Nat) (refName : String) (start stop wrap : Int) (omitRef : Bool)
    (recs : List SamRec) (s e : Nat) (trim : Bool) (hargs : checkArgs ref.length start stop = some (s, e, trim))
    (hnd : NoDash ref) (hge : ∀ b ∈ ref, star ≤ b)
    (hwf : ∀ r ∈ recs, isSkipped r = false → WFSamRec r ref.length) :
    toPairAlign ref refName start stop wrap omitRef false recs =
      some ((samBlocks recs).map fun b =>
        ((b.headD default).name, pairText wrap refName (b.headD default).name omitRef
          (if trim then specTrimPair (specPair b ref) s e else specPair b ref))) := by
  unfold toPairAlign
  rw [hargs]
  simp only [Option.some.injEq]
  apply List.map_congr_left
  intro b hb
  have hbw : ∀ r ∈ b, WFSamRec r ref.length := by
    intro r hr
    have hm := groupRecs_mem _ b hb r hr
    have := List.mem_filter.1 hm
    exact hwf r this.1 (by simpa using this.2)
  have hp : pairOfBlock b ref false = specPair b ref := by
    unfold pairOfBlock
    simp only [Bool.false_eq_true, if_false]
    exact blockToSeqPair_eq_specPair b ref hnd hge hbw
  simp only [hp]
  have hse := checkArgs_start ref.length start stop s e trim hargs
  have hcols : ((((specPair b ref).1.zip (List.range (specPair b ref).1.length)).filter fun (c, _) => c != dash)).length = ref.length := by
    rw [filter_zip_fst (fun c => c != dash) _ _ (by simp)]
    have := PairSpec.specPair_lossless b ref hnd
    unfold degap at this
    rw [this]
  rw [Props.C15.topa_window (specPair b ref) s e (by rw [hcols]; omega) (by rw [hcols]; omega)]

/-- non-vacuity: three records of one query; the first two overlap, disagree on a base and both insert at the same
position; the second ends with an insertion exactly where the third begins with one -/
def exRef : List Nat := [65, 67, 71, 84, 65, 67, 71, 84, 65, 67, 71, 84]
def exB1 : SamRec := ⟨"q", 0, 1, [(0, 2), (1, 2), (0, 2)], [65, 65, 67, 67, 71, 71]⟩
def exB2 : SamRec := ⟨"q", 2048, 2, [(0, 1), (1, 1), (0, 3), (1, 2)], [84, 84, 65, 71, 71, 65, 65]⟩
def exB3 : SamRec := ⟨"q", 2048, 6, [(1, 1), (0, 2), (2, 1), (0, 1)], [67, 84, 84, 65]⟩

example : NoDash exRef ∧ (∀ b ∈ exRef, star ≤ b) ∧ ∀ r ∈ [exB1, exB2, exB3], WFSamRec r exRef.length := by
  refine ⟨by unfold NoDash; decide, by decide, ?_⟩
  intro r hr
  simp only [List.mem_cons, List.mem_nil_iff, or_false] at hr
  rcases hr with rfl | rfl | rfl <;> exact ⟨by decide, by decide, by decide⟩

example : blockToSeqPair [exB1, exB2, exB3] exRef =
    ([65, 67, 71, 45, 45, 45, 84, 65, 67, 45, 45, 45, 71, 84, 65, 67, 71, 84],
     [78, 65, 78, 67, 67, 84, 78, 71, 71, 65, 65, 67, 84, 84, 45, 65, 78, 78]) := by decide +kernel

end Gofasta.Lemmas.PairMulti
