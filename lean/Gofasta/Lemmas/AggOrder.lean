import Gofasta.Props.C13
/-
C12 / C13: the aggregate table does not depend on the order in which the per-sequence rows arrive.
-/
namespace Gofasta.Lemmas.AggOrder
open Gofasta Model Gofasta.Props.C13

abbrev Entry := Snp × Nat

def keys (m : List Entry) : List Snp := m.map (·.1)

theorem keys_insert_nodup (k : Snp) (m : List Entry) (h : (keys m).Nodup) : (keys (countInsert k m)).Nodup := by
  unfold keys at *
  rw [insert_keys]
  split
  · exact h
  · rename_i hk
    rw [List.nodup_append]
    refine ⟨h, by simp, ?_⟩
    intro a ha b hb
    simp only [List.mem_singleton] at hb
    subst hb
    intro e; subst e; exact hk ha

theorem mem_keys_insert (k j : Snp) (m : List Entry) : j ∈ keys (countInsert k m) ↔ j = k ∨ j ∈ keys m := by
  unfold keys
  rw [insert_keys]
  split
  · rename_i hk
    constructor
    · intro h; exact Or.inr h
    · rintro (h | h)
      · subst h; exact hk
      · exact h
  · simp only [List.mem_append, List.mem_singleton]
    constructor
    · rintro (h | h); exact Or.inr h; exact Or.inl h
    · rintro (h | h); exact Or.inr h; exact Or.inl h

theorem fold_row_keys : ∀ (row : List Snp) (m : List Entry), (keys m).Nodup →
    (keys (row.foldl (fun m s => countInsert s m) m)).Nodup ∧
    ∀ j, j ∈ keys (row.foldl (fun m s => countInsert s m) m) ↔ j ∈ row ∨ j ∈ keys m := by
  intro row
  induction row with
  | nil => intro m h; exact ⟨h, fun j => by simp⟩
  | cons s t ih =>
    intro m h
    simp only [List.foldl_cons]
    have := ih (countInsert s m) (keys_insert_nodup s m h)
    refine ⟨this.1, ?_⟩
    intro j
    rw [this.2 j, mem_keys_insert]
    simp only [List.mem_cons]
    constructor
    · rintro (h1 | h1 | h1)
      · exact Or.inl (Or.inr h1)
      · exact Or.inl (Or.inl h1)
      · exact Or.inr h1
    · rintro ((h1 | h1) | h1)
      · exact Or.inr (Or.inl h1)
      · exact Or.inl h1
      · exact Or.inr (Or.inr h1)

theorem fold_rows_keys : ∀ (rows : List (List Snp)) (m : List Entry), (keys m).Nodup →
    (keys (rows.foldl (fun m row => row.foldl (fun m s => countInsert s m) m) m)).Nodup ∧
    ∀ j, j ∈ keys (rows.foldl (fun m row => row.foldl (fun m s => countInsert s m) m) m) ↔ j ∈ rows.flatten ∨ j ∈ keys m := by
  intro rows
  induction rows with
  | nil => intro m h; exact ⟨h, fun j => by simp⟩
  | cons r t ih =>
    intro m h
    simp only [List.foldl_cons, List.flatten_cons, List.mem_append]
    have hr := fold_row_keys r m h
    have := ih _ hr.1
    refine ⟨this.1, ?_⟩
    intro j
    rw [this.2 j, hr.2 j]
    constructor
    · rintro (h1 | h1 | h1)
      · exact Or.inl (Or.inr h1)
      · exact Or.inl (Or.inl h1)
      · exact Or.inr h1
    · rintro ((h1 | h1) | h1)
      · exact Or.inr (Or.inl h1)
      · exact Or.inl h1
      · exact Or.inr (Or.inr h1)

/-- the counting map has one entry per distinct mutation, and exactly the mutations that occur -/
theorem countAll_keys (rows : List (List Snp)) :
    (keys (countAll rows)).Nodup ∧ ∀ j, j ∈ keys (countAll rows) ↔ j ∈ rows.flatten := by
  have := fold_rows_keys rows [] (by simp [keys])
  refine ⟨this.1, ?_⟩
  intro j
  rw [show countAll rows = rows.foldl (fun m row => row.foldl (fun m s => countInsert s m) m) [] from rfl, this.2 j]
  simp [keys]

/-- with distinct keys an entry is in the map iff it is the entry `countOf` finds -/
theorem mem_iff_countOf : ∀ (m : List Entry), (keys m).Nodup → ∀ (e : Entry),
    e ∈ m ↔ e.1 ∈ keys m ∧ e.2 = countOf e.1 m := by
  intro m
  induction m with
  | nil => intro _ e; simp [keys]
  | cons a t ih =>
    intro h e
    have hnd : (keys t).Nodup := by unfold keys at *; exact (List.nodup_cons.1 h).2
    have hna : a.1 ∉ keys t := by unfold keys at *; exact (List.nodup_cons.1 h).1
    by_cases hk : a.1 = e.1
    · have hco : countOf e.1 (a :: t) = a.2 := by
        unfold countOf; simp [List.find?_cons, hk]
      constructor
      · intro hm
        rcases List.mem_cons.1 hm with rfl | hm
        · exact ⟨by simp [keys], hco.symm⟩
        · exfalso; apply hna; rw [hk]; exact List.mem_map.2 ⟨e, hm, rfl⟩
      · rintro ⟨_, h2⟩
        rw [hco] at h2
        have : e = a := Prod.ext hk.symm h2
        rw [this]; exact List.mem_cons_self
    · have hco : countOf e.1 (a :: t) = countOf e.1 t := by
        unfold countOf
        have : (a.1 == e.1) = false := by simpa using hk
        simp [List.find?_cons, this]
      rw [hco]
      have iht := ih hnd e
      constructor
      · intro hm
        rcases List.mem_cons.1 hm with rfl | hm
        · exact absurd rfl hk
        · have := iht.1 hm
          exact ⟨by unfold keys at *; exact List.mem_cons_of_mem _ this.1, this.2⟩
      · rintro ⟨h1, h2⟩
        have h1' : e.1 ∈ keys t := by
          unfold keys at *
          rcases List.mem_cons.1 h1 with h | h
          · exact absurd h.symm hk
          · exact h
        exact List.mem_cons_of_mem _ (iht.2 ⟨h1', h2⟩)

theorem nodup_of_keys_nodup : ∀ (m : List Entry), (keys m).Nodup → m.Nodup := by
  intro m
  induction m with
  | nil => intro _; simp
  | cons a t ih =>
    intro h
    unfold keys at h
    have := List.nodup_cons.1 h
    rw [List.nodup_cons]
    refine ⟨?_, ih this.2⟩
    intro ha
    exact this.1 (List.mem_map.2 ⟨a, ha, rfl⟩)

/-- **the counting maps of two arrival orders are permutations of each other** -/
theorem countAll_perm (rows1 rows2 : List (List Snp)) (h : rows1.Perm rows2) : (countAll rows1).Perm (countAll rows2) := by
  have k1 := countAll_keys rows1
  have k2 := countAll_keys rows2
  rw [List.perm_ext_iff_of_nodup (nodup_of_keys_nodup _ k1.1) (nodup_of_keys_nodup _ k2.1)]
  intro e
  rw [mem_iff_countOf _ k1.1, mem_iff_countOf _ k2.1, k1.2, k2.2]
  have hmem : e.1 ∈ rows1.flatten ↔ e.1 ∈ rows2.flatten := (List.Perm.flatten h).mem_iff
  have hcnt : countOf e.1 (countAll rows1) = countOf e.1 (countAll rows2) := by
    unfold countAll
    rw [countAll_is_occurrences, countAll_is_occurrences]
    congr 1
    exact (List.Perm.flatten h).count_eq e.1
  rw [hmem, hcnt]

end Gofasta.Lemmas.AggOrder

namespace Gofasta.Lemmas.AggOrder
open Gofasta Model Gofasta.Props.C13

/-! ### sorting a permutation with no ties between distinct entries -/

theorem perm_length_le_one {α : Type} : ∀ (l1 l2 : List α), l1.Perm l2 → l1.length ≤ 1 → l1 = l2 := by
  intro l1 l2 h hl
  match l1, hl with
  | [], _ => exact (List.Perm.nil_eq h)
  | [a], _ =>
    have h1 : l2.length = 1 := by rw [← h.length_eq]; rfl
    match l2, h1 with
    | [b], _ =>
      have : a ∈ [b] := h.mem_iff.1 (List.mem_cons_self)
      simp only [List.mem_singleton] at this
      rw [this]

theorem filter_length_le_one {α : Type} (p : α → Bool) : ∀ (l : List α), l.Nodup →
    (∀ x ∈ l, ∀ y ∈ l, p x = true → p y = true → x = y) → (l.filter p).length ≤ 1 := by
  intro l
  induction l with
  | nil => intro _ _; simp
  | cons a t ih =>
    intro hnd h
    have hnd' := List.nodup_cons.1 hnd
    simp only [List.filter_cons]
    by_cases hp : p a = true
    · simp only [hp, if_true, List.length_cons]
      have : t.filter p = [] := by
        rw [List.filter_eq_nil_iff]
        intro x hx hpx
        have := h a (List.mem_cons_self) x (List.mem_cons_of_mem _ hx) hp hpx
        subst this
        exact hnd'.1 hx
      rw [this]; simp
    · simp only [hp, Bool.false_eq_true, if_false]
      exact ih hnd'.2 (fun x hx y hy => h x (List.mem_cons_of_mem _ hx) y (List.mem_cons_of_mem _ hy))

/-- entries that the sort key does not separate are the same mutation (one reference: one reference symbol per position) -/
def KeyDecides (m : List Entry) : Prop := ∀ a ∈ m, ∀ b ∈ m, a.1.1 = b.1.1 → a.1.2.2 = b.1.2.2 → a.1 = b.1

theorem tied_same_key (a b : Entry) (h : tied snpLt a b = true) : a.1.1 = b.1.1 ∧ a.1.2.2 = b.1.2.2 := by
  rw [tied_iff] at h
  simp only [snpLt, Bool.or_eq_false_iff, decide_eq_false_iff_not, Bool.and_eq_false_iff, beq_eq_false_iff_ne] at h
  omega

theorem sort_perm_eq (m1 m2 : List Entry) (hp : m1.Perm m2) (hk : (keys m1).Nodup) (hd : KeyDecides m1) :
    sortStable snpLt m1 = sortStable snpLt m2 := by
  apply sorted_stable_unique snpLt_swo _ _ ((sortStable_perm m1).trans (hp.trans (sortStable_perm m2).symm))
    (sorted_sortStable snpLt_swo m1) (sorted_sortStable snpLt_swo m2)
  intro z
  rw [sortStable_stable snpLt_swo z m1, sortStable_stable snpLt_swo z m2]
  apply perm_length_le_one _ _ (hp.filter _)
  apply filter_length_le_one _ _ (nodup_of_keys_nodup m1 hk)
  intro x hx y hy hzx hzy
  have hxy := tied_trans snpLt_swo (tied_symm hzx) hzy
  have hsame := tied_same_key x y hxy
  have hkey : x.1 = y.1 := hd x hx y hy hsame.1 hsame.2
  -- equal keys in a map with distinct keys: the same entry
  have hxm := (mem_iff_countOf m1 hk x).1 hx
  have hym := (mem_iff_countOf m1 hk y).1 hy
  exact Prod.ext hkey (by rw [hxm.2, hym.2, hkey])

/-- **C12.aggregate_output_any_order** — the whole `snps --aggregate` table, bytes and all, is the same for every order
in which the per-sequence rows reach the aggregating writer -/
theorem snps_aggregate_any_order (rows1 rows2 : List (List Snp)) (h : rows1.Perm rows2)
    (hd : KeyDecides (countAll rows1)) :
    sortStable snpLt (countAll rows1) = sortStable snpLt (countAll rows2) :=
  sort_perm_eq _ _ (countAll_perm rows1 rows2 h) (countAll_keys rows1).1 hd

end Gofasta.Lemmas.AggOrder
