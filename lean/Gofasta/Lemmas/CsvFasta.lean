import Gofasta.Props.C09
import Gofasta.Props.C10
/-
CsvFasta — `updown topranking` prints the same text whether the query and the target are given as FASTA
alignments or as the CSV `updown list` derives from them (all four combinations).

  * `lineOfRow`   : the in-memory record the CSV readers build from a row (`Csv.Row`), as a `UDLine`;
  * `lineOfRow_expected` : for the row read back from the rendering of `l`, that record is `l` with snpCount := 0;
  * `topRankingQuery_core`, `topRankingAll_core` : the ranking reads (snps, ambs) of the query, its id for the
    row label, and `coreFields` = (id, snps, ambs, ambCount) of every target, nothing else;
  * `four_routes` : the closing theorem.
-/
namespace Gofasta.Lemmas.CsvFasta
open Gofasta Model Model.Csv Lemmas.CsvRT Props.C09

/-! ### (1) the record of the CSV route -/

/-- pair up the flattened start/stop array (a trailing odd element cannot occur: getAmbArr appends two at a time) -/
def pairUp : List Int → List (Nat × Nat)
  | a :: b :: t => (a.toNat, b.toNat) :: pairUp t
  | _ => []

/-- one SNP of the CSV route: the string as written ("C10A") and the position parsed out of its middle -/
def snpOfStr (s : Bytes) (p : Int) : Snp := (p.toNat, s.headD 0, s.getLastD 0)

/-- the record the CSV route hands to the ranking core; snpCount is not set by the CSV readers (stays 0) -/
def lineOfRow (r : Row) : UDLine :=
  UDLine.mk (bytesToString r.id) (List.zipWith snpOfStr r.snps r.snpPos) (pairUp r.ambs) 0 r.ambCount.toNat

/-! ### (2) reading back what was written gives the same record, up to snpCount -/

/-- the fields a query contributes: the row label and what `whichWay` reads of it -/
def queryFields (l : UDLine) : String × List Snp × List (Nat × Nat) := (l.id, l.snps, l.ambs)

/-- `l` with the SNP count column forgotten -/
def forgetCount (l : UDLine) : UDLine := UDLine.mk l.id l.snps l.ambs 0 l.ambCount

theorem pairUp_flatAmbs : ∀ (ambs : List (Nat × Nat)), pairUp (flatAmbs ambs) = ambs := by
  intro ambs
  induction ambs with
  | nil => rfl
  | cons a t ih =>
    have : flatAmbs (a :: t) = (a.1 : Int) :: (a.2 : Int) :: flatAmbs t := by simp [flatAmbs]
    rw [this, pairUp, ih]
    simp

theorem snpOfStr_snpB (s : Snp) : snpOfStr (snpB s) (s.1 : Int) = s := by
  obtain ⟨p, r, q⟩ := s
  have h : snpB (p, r, q) = (r :: digitsOf p) ++ [q] := rfl
  simp only [snpOfStr, h, List.getLastD_concat, Int.toNat_natCast]
  rfl

theorem zipWith_snps : ∀ (snps : List Snp),
    List.zipWith snpOfStr (snps.map snpB) (snps.map fun s => (s.1 : Int)) = snps := by
  intro snps
  induction snps with
  | nil => rfl
  | cons s t ih => simp only [List.map_cons, List.zipWith_cons_cons, ih, snpOfStr_snpB]

/-- **the CSV record is the FASTA record without its SNP count**: whatever `l` is (no well-formedness needed at this
step; `RowOk` is only needed for the text layer), the record built from the row that is expected back is `l` with
snpCount := 0 -/
theorem lineOfRow_expected (idb : Bytes) (l : UDLine) (hid : bytesToString idb = l.id) :
    lineOfRow (expected idb l) = forgetCount l := by
  simp only [lineOfRow, expected, forgetCount, hid, zipWith_snps, pairUp_flatAmbs, Int.toNat_natCast]

theorem coreFields_forgetCount (l : UDLine) : coreFields (forgetCount l) = coreFields l := rfl

theorem queryFields_forgetCount (l : UDLine) : queryFields (forgetCount l) = queryFields l := rfl

/-- the only field that may differ is snpCount -/
theorem forgetCount_eq_iff (l : UDLine) : forgetCount l = l ↔ l.snpCount = 0 := by
  obtain ⟨a, b, c, d, e⟩ := l
  simp only [forgetCount, UDLine.mk.injEq, true_and, and_true]
  exact eq_comm

theorem lineOfRow_coreFields (idb : Bytes) (l : UDLine) (hid : bytesToString idb = l.id) :
    coreFields (lineOfRow (expected idb l)) = coreFields l := by
  rw [lineOfRow_expected idb l hid]; rfl

theorem lineOfRow_queryFields (idb : Bytes) (l : UDLine) (hid : bytesToString idb = l.id) :
    queryFields (lineOfRow (expected idb l)) = queryFields l := by
  rw [lineOfRow_expected idb l hid]; rfl

theorem lineOfRow_snpCount (r : Row) : (lineOfRow r).snpCount = 0 := rfl

/-- two records with the same core fields differ at most in snpCount -/
theorem coreFields_eq_iff (l l' : UDLine) : coreFields l = coreFields l' ↔ forgetCount l = forgetCount l' := by
  obtain ⟨a, b, c, d, e⟩ := l
  obtain ⟨a', b', c', d', e'⟩ := l'
  simp [coreFields, forgetCount]

/-! ### (3) the ranking reads nothing else -/

/-- `whichWay` reads only (snps, ambs) of the query -/
theorem whichWay_query (q q' t : UDLine) (n d : Nat) (hs : q.snps = q'.snps) (ha : q.ambs = q'.ambs) :
    whichWay q t n d = whichWay q' t n d := by
  simp [whichWay, whichWayTable, hs, ha]

/-- the candidate of one target, as a function of its core fields -/
def candOf (o : TROpts) (q : UDLine) (c : String × List Snp × List (Nat × Nat) × Nat) : Option (Nat × UDHit) :=
  if c.2.2.2 > o.threshTarg then none
  else if o.ignore.contains c.1 then none
  else match whichWay q (UDLine.mk c.1 c.2.1 c.2.2.1 0 c.2.2.2) o.thrNum o.thrDen with
    | none => none
    | some (dir, dist) => some (dir, { name := c.1, dist := dist, amb := c.2.2.2 })

/-- the candidate list of `topRankingQuery` -/
def cands (o : TROpts) (q : UDLine) (targets : List UDLine) : List (Nat × UDHit) :=
  targets.filterMap fun t =>
    if t.ambCount > o.threshTarg then none
    else if o.ignore.contains t.id then none
    else match whichWay q t o.thrNum o.thrDen with
      | none => none
      | some (dir, dist) => some (dir, { name := t.id, dist := dist, amb := t.ambCount })

/-- the bins as a function of the candidate list alone -/
def binsOf (o : TROpts) (cands : List (Nat × UDHit)) : List (List UDHit) :=
  if o.push > 0 then
    (List.range 4).map fun dir =>
      let hs := (cands.filter fun c => c.1 == dir).map (·.2)
      if dir = 0 then hs
      else sortStable udLt ((hs.foldl (pushInsert o.push) []).flatMap (·.2))
  else
    let total := if o.sizes.contains bigN then bigN else o.sizes.sum
    let bins := (List.range 4).map fun dir =>
      topKG udLt total (((cands.filter fun c => c.1 == dir).map (·.2)).filter fun h => h.dist ≤ o.dists.getD dir 0)
    let size := balance total o.sizes (bins.map (·.length)) o.nofill
    (bins.zip size).map fun (b, s) => b.take s

/-- `topRankingQuery` is: candidate list, then bins -/
theorem topRankingQuery_eq (o : TROpts) (q : UDLine) (targets : List UDLine) :
    topRankingQuery o q targets = binsOf o (cands o q targets) := rfl

/-- the candidate of a target is computed from its core fields (uses `whichWay_core`) -/
theorem candOf_coreFields (o : TROpts) (q t : UDLine) :
    candOf o q (coreFields t) =
      if t.ambCount > o.threshTarg then none
      else if o.ignore.contains t.id then none
      else match whichWay q t o.thrNum o.thrDen with
        | none => none
        | some (dir, dist) => some (dir, { name := t.id, dist := dist, amb := t.ambCount }) := by
  simp only [candOf, coreFields]
  rw [whichWay_core q (UDLine.mk t.id t.snps t.ambs 0 t.ambCount) t o.thrNum o.thrDen rfl]
  rfl

theorem filterMap_ext {α β : Type} (f g : α → Option β) : ∀ (l : List α), (∀ x ∈ l, f x = g x) →
    l.filterMap f = l.filterMap g := by
  intro l
  induction l with
  | nil => intro _; rfl
  | cons a t ih =>
    intro h
    simp only [List.filterMap_cons, h a List.mem_cons_self, ih (fun x hx => h x (List.mem_cons_of_mem _ hx))]

/-- the candidate list reads the targets through `coreFields` only -/
theorem cands_eq (o : TROpts) (q : UDLine) (targets : List UDLine) :
    cands o q targets = (targets.map coreFields).filterMap (candOf o q) := by
  rw [List.filterMap_map]
  unfold cands
  apply filterMap_ext
  intro t _
  exact (candOf_coreFields o q t).symm

theorem candOf_query (o : TROpts) (q q' : UDLine) (hs : q.snps = q'.snps) (ha : q.ambs = q'.ambs) :
    candOf o q = candOf o q' := by
  funext c
  simp only [candOf, whichWay_query q q' _ _ _ hs ha]

/-- **the candidate list depends only on the fields of the records named above** -/
theorem cands_core (o : TROpts) (q q' : UDLine) (ts ts' : List UDLine)
    (hs : q.snps = q'.snps) (ha : q.ambs = q'.ambs) (ht : ts.map coreFields = ts'.map coreFields) :
    cands o q ts = cands o q' ts' := by
  rw [cands_eq, cands_eq, ht, candOf_query o q q' hs ha]

/-- **C09 for one query**: the four bins of a query depend only on (snps, ambs) of the query and on
(id, snps, ambs, ambCount) of the targets, in target order -/
theorem topRankingQuery_core (o : TROpts) (q q' : UDLine) (ts ts' : List UDLine)
    (hs : q.snps = q'.snps) (ha : q.ambs = q'.ambs) (ht : ts.map coreFields = ts'.map coreFields) :
    topRankingQuery o q ts = topRankingQuery o q' ts' := by
  rw [topRankingQuery_eq, topRankingQuery_eq, cands_core o q q' ts ts' hs ha ht]

/-! ### the whole command -/

/-- one result row per query, in query order (see `rows_by_query_index`), labelled with the query id; this is the
`rows` of `Driver.modelTR` -/
def topRankingAll (o : TROpts) (qs ts : List UDLine) : List (String × List (List UDHit)) :=
  qs.map fun q => (q.id, topRankingQuery o q ts)

/-- the text printed: the table form or the list form -/
def trOutput (table : Bool) (rows : List (String × List (List UDHit))) : String :=
  if table then trTableOutput rows else trListOutput rows

/-- the text of a whole `updown topranking` run on in-memory records -/
def trRun (o : TROpts) (table : Bool) (qs ts : List UDLine) : String := trOutput table (topRankingAll o qs ts)

/-- **the whole result reads only `queryFields` of the queries and `coreFields` of the targets** -/
theorem topRankingAll_core (o : TROpts) : ∀ (qs qs' ts ts' : List UDLine),
    qs.map queryFields = qs'.map queryFields → ts.map coreFields = ts'.map coreFields →
    topRankingAll o qs ts = topRankingAll o qs' ts' := by
  intro qs
  induction qs with
  | nil =>
    intro qs' ts ts' hq _
    cases qs' with
    | nil => rfl
    | cons a b => simp at hq
  | cons q t ih =>
    intro qs' ts ts' hq ht
    cases qs' with
    | nil => simp at hq
    | cons q' t' =>
      simp only [List.map_cons, List.cons.injEq, queryFields, Prod.mk.injEq] at hq
      obtain ⟨⟨hid, hs, ha⟩, htl⟩ := hq
      have := ih t' ts ts' htl ht
      simp only [topRankingAll] at this ⊢
      simp only [List.map_cons, this, hid, topRankingQuery_core o q q' ts ts' hs ha ht]

/-- the printed text (both forms) is a function of the result rows, hence of the same fields -/
theorem trRun_core (o : TROpts) (table : Bool) (qs qs' ts ts' : List UDLine)
    (hq : qs.map queryFields = qs'.map queryFields) (ht : ts.map coreFields = ts'.map coreFields) :
    trRun o table qs ts = trRun o table qs' ts' := by
  unfold trRun
  rw [topRankingAll_core o qs qs' ts ts' hq ht]

theorem trListOutput_core (o : TROpts) (qs qs' ts ts' : List UDLine)
    (hq : qs.map queryFields = qs'.map queryFields) (ht : ts.map coreFields = ts'.map coreFields) :
    trListOutput (topRankingAll o qs ts) = trListOutput (topRankingAll o qs' ts') :=
  trRun_core o false qs qs' ts ts' hq ht

theorem trTableOutput_core (o : TROpts) (qs qs' ts ts' : List UDLine)
    (hq : qs.map queryFields = qs'.map queryFields) (ht : ts.map coreFields = ts'.map coreFields) :
    trTableOutput (topRankingAll o qs ts) = trTableOutput (topRankingAll o qs' ts') :=
  trRun_core o true qs qs' ts ts' hq ht

/-! ### the two input routes -/

/-- an input file given as records with their id bytes: a list of FASTA-derived records (`getLine`) -/
abbrev Recs := List (Bytes × UDLine)

/-- what can be written by `updown list` and whose label is the id bytes as a string -/
def RecsOk (rs : Recs) : Prop := ∀ r ∈ rs, RowOk r.1 r.2 ∧ bytesToString r.1 = r.2.id

/-- FASTA route: the records themselves -/
def viaFasta (rs : Recs) : List UDLine := rs.map (·.2)

/-- the records of a parsed CSV text; none = the reader reported an error (or panicked) -/
def linesOfCsv (text : Bytes) : Option (List UDLine) :=
  match readUDL text with
  | .ok rows => some (rows.map lineOfRow)
  | _ => none

/-- CSV route: `updown list` writes the file (`fileB`), the CSV reader of topranking reads it back (`readUDL`) and
builds its records (`lineOfRow`) -/
def viaCsv (rs : Recs) : Option (List UDLine) := linesOfCsv (fileB rs)

/-- **the CSV route delivers the FASTA records with snpCount := 0**, in the same order -/
theorem viaCsv_eq (rs : Recs) (h : RecsOk rs) : viaCsv rs = some ((viaFasta rs).map forgetCount) := by
  unfold viaCsv linesOfCsv
  rw [Props.C09.csv_roundtrip rs (fun r hr => (h r hr).1)]
  simp only [viaFasta, List.map_map, Option.some.injEq]
  apply List.map_congr_left
  intro r hr
  exact lineOfRow_expected r.1 r.2 (h r hr).2

theorem map_coreFields_forget (ls : List UDLine) : (ls.map forgetCount).map coreFields = ls.map coreFields := by
  rw [List.map_map]; rfl

theorem map_queryFields_forget (ls : List UDLine) : (ls.map forgetCount).map queryFields = ls.map queryFields := by
  rw [List.map_map]; rfl

/-- the input format of one side -/
inductive Route where
  | fasta
  | csv
  deriving DecidableEq, Repr

def load : Route → Recs → Option (List UDLine)
  | .fasta, rs => some (viaFasta rs)
  | .csv, rs => viaCsv rs

/-- a whole run with the query given in format `rq` and the target in format `rt`; none = input error -/
def runVia (o : TROpts) (table : Bool) (rq rt : Route) (qs ts : Recs) : Option String :=
  match load rq qs, load rt ts with
  | some ql, some tl => some (trRun o table ql tl)
  | _, _ => none

theorem load_ok (r : Route) (rs : Recs) (h : RecsOk rs) :
    ∃ ls, load r rs = some ls ∧ ls.map coreFields = (viaFasta rs).map coreFields ∧
      ls.map queryFields = (viaFasta rs).map queryFields := by
  cases r with
  | fasta => exact ⟨_, rfl, rfl, rfl⟩
  | csv => exact ⟨_, viaCsv_eq rs h, map_coreFields_forget _, map_queryFields_forget _⟩

/-- **C09.four_routes** — for queries and targets that `updown list` can write, whatever the options and the output
form, every combination of input formats prints the text of the FASTA/FASTA run -/
theorem four_routes (o : TROpts) (table : Bool) (qs ts : Recs) (hq : RecsOk qs) (ht : RecsOk ts) (rq rt : Route) :
    runVia o table rq rt qs ts = some (trRun o table (viaFasta qs) (viaFasta ts)) := by
  obtain ⟨ql, hql, _, hqq⟩ := load_ok rq qs hq
  obtain ⟨tl, htl, htc, _⟩ := load_ok rt ts ht
  unfold runVia
  rw [hql, htl]
  simp only [Option.some.injEq]
  exact trRun_core o table ql (viaFasta qs) tl (viaFasta ts) hqq htc

/-- the four combinations spelled out -/
theorem four_routes_all (o : TROpts) (table : Bool) (qs ts : Recs) (hq : RecsOk qs) (ht : RecsOk ts) :
    runVia o table .csv .csv qs ts = runVia o table .fasta .fasta qs ts ∧
    runVia o table .csv .fasta qs ts = runVia o table .fasta .fasta qs ts ∧
    runVia o table .fasta .csv qs ts = runVia o table .fasta .fasta qs ts ∧
    runVia o table .fasta .fasta qs ts = some (trRun o table (viaFasta qs) (viaFasta ts)) := by
  simp only [four_routes o table qs ts hq ht, and_self]

/-- any two combinations agree, and no combination is an input error -/
theorem routes_agree (o : TROpts) (table : Bool) (qs ts : Recs) (hq : RecsOk qs) (ht : RecsOk ts)
    (rq rt rq' rt' : Route) :
    runVia o table rq rt qs ts = runVia o table rq' rt' qs ts ∧ (runVia o table rq rt qs ts).isSome = true := by
  rw [four_routes o table qs ts hq ht rq rt, four_routes o table qs ts hq ht rq' rt']
  exact ⟨rfl, rfl⟩

/-! ### the records of the FASTA route are well-formed rows

`RowOk` holds for everything `getLine` produces from alignment columns, so the closing theorem can be stated on
the alignments themselves. -/

/-- every byte of the decoding table is a non-delimiter (checked on the table generated from the Go source) -/
theorem dec_symOk (e : Nat) : symOk (dec e) := by
  have hall : Gen.decTab.all (fun b => b != comma && b != quote && b != nl && b != cr && b != pipe) = true := by
    decide +kernel
  unfold dec
  by_cases he : e < Gen.decTab.length
  · have hm : Gen.decTab.getD e 0 ∈ Gen.decTab := by
      rw [List.getD_eq_getElem?_getD, List.getElem?_eq_getElem he]
      exact List.getElem_mem he
    have := List.all_eq_true.1 hall _ hm
    simp only [Bool.and_eq_true, bne_iff_ne, ne_eq] at this
    exact ⟨this.1.1.1.1, this.1.1.1.2, this.1.1.2, this.1.2, this.2⟩
  · have : Gen.decTab.getD e 0 = 0 := by
      rw [List.getD_eq_getElem?_getD, List.getElem?_eq_none (by omega)]
      rfl
    rw [this]
    exact ⟨by decide, by decide, by decide, by decide, by decide⟩

/-- the tract closed at column `i` (0-based, exclusive end), if one is open -/
def closedOf (o : Option Nat) (i : Nat) : List (Nat × Nat) := match o with | some a => [(a + 1, i)] | none => []

theorem udScan_q_nil (i : Nat) (o : Option Nat) (rs : List Nat) : udScan i o rs [] = ([], closedOf o i, 0) := by
  cases rs <;> cases o <;> rfl

theorem udScan_r_nil (i : Nat) (o : Option Nat) (qs : List Nat) : udScan i o [] qs = ([], closedOf o i, 0) := by
  cases qs <;> cases o <;> rfl

theorem udScan_res (i : Nat) (o : Option Nat) (r q : Nat) (rs t : List Nat) (h : encResolved q = true) :
    udScan i o (r :: rs) (q :: t) =
      ((if encDiffer r q then [(i + 1, dec r, dec q)] else []) ++ (udScan (i + 1) none rs t).1,
       closedOf o i ++ (udScan (i + 1) none rs t).2.1, (udScan (i + 1) none rs t).2.2) := by
  cases o <;> simp [udScan, h, closedOf]

theorem udScan_unres (i : Nat) (o : Option Nat) (r q : Nat) (rs t : List Nat) (h : ¬ encResolved q = true) :
    udScan i o (r :: rs) (q :: t) =
      ((udScan (i + 1) (some (o.getD i)) rs t).1, (udScan (i + 1) (some (o.getD i)) rs t).2.1,
       (udScan (i + 1) (some (o.getD i)) rs t).2.2 + 1) := by
  simp [udScan, h]

theorem closedOf_bound (o : Option Nat) (i : Nat) (ho : ∀ a, o = some a → a < i) :
    ∀ a ∈ closedOf o i, a.1 ≤ i ∧ a.2 ≤ i := by
  intro a ha
  cases o with
  | none => cases ha
  | some b =>
    have hb := ho b rfl
    simp only [closedOf, List.mem_cons, List.not_mem_nil, or_false] at ha
    subst ha
    exact ⟨hb, Nat.le_refl _⟩

/-- bounds on everything the single pass emits: positions and range ends are at most the number of columns, the
symbols are decoded bytes, the ambiguity count is at most the number of columns -/
theorem udScan_bounds : ∀ (qs rs : List Nat) (i : Nat) (o : Option Nat), (∀ a, o = some a → a < i) →
    (∀ s ∈ (udScan i o rs qs).1, s.1 ≤ i + qs.length ∧ symOk s.2.1 ∧ symOk s.2.2) ∧
    (∀ a ∈ (udScan i o rs qs).2.1, a.1 ≤ i + qs.length ∧ a.2 ≤ i + qs.length) ∧
    (udScan i o rs qs).2.2 ≤ qs.length := by
  intro qs
  induction qs with
  | nil =>
    intro rs i o ho
    rw [udScan_q_nil]
    refine ⟨(by intro s hs; cases hs), ?_, Nat.le_refl _⟩
    intro a ha
    have := closedOf_bound o i ho a ha
    simp only [List.length_nil]
    omega
  | cons q t ih =>
    intro rs i o ho
    cases rs with
    | nil =>
      rw [udScan_r_nil]
      refine ⟨(by intro s hs; cases hs), ?_, Nat.zero_le _⟩
      intro a ha
      have := closedOf_bound o i ho a ha
      omega
    | cons r rs =>
      by_cases hres : encResolved q = true
      · obtain ⟨h1, h2, h3⟩ := ih rs (i + 1) none (by intro a ha; cases ha)
        rw [udScan_res i o r q rs t hres]
        refine ⟨?_, ?_, ?_⟩
        · intro s hs
          rcases List.mem_append.1 hs with hs | hs
          · by_cases hd : encDiffer r q = true
            · simp only [hd, if_true, List.mem_cons, List.not_mem_nil, or_false] at hs
              subst hs
              exact ⟨by simp only [List.length_cons]; omega, dec_symOk r, dec_symOk q⟩
            · simp only [hd] at hs; cases hs
          · have := h1 s hs
            simp only [List.length_cons]
            exact ⟨by omega, this.2⟩
        · intro a ha
          rcases List.mem_append.1 ha with ha | ha
          · have := closedOf_bound o i ho a ha
            omega
          · have := h2 a ha
            simp only [List.length_cons]
            omega
        · simp only [List.length_cons]; omega
      · obtain ⟨h1, h2, h3⟩ := ih rs (i + 1) (some (o.getD i)) (by
          intro a ha
          simp only [Option.some.injEq] at ha
          subst ha
          cases o with
          | none => simp
          | some b => have := ho b rfl; simp only [Option.getD_some]; omega)
        rw [udScan_unres i o r q rs t hres]
        refine ⟨?_, ?_, ?_⟩
        · intro s hs
          have := h1 s hs
          simp only [List.length_cons]
          exact ⟨by omega, this.2⟩
        · intro a ha
          have := h2 a ha
          simp only [List.length_cons]
          omega
        · simp only [List.length_cons]; omega

/-- **every record of the FASTA route can be written and read back**: for any encoded columns (at most maxInt64 of
them) and id bytes without line breaks -/
theorem getLine_rowOk (idb : Bytes) (id : String) (ref q : List Nat) (hid : ∀ b ∈ idb, b ≠ cr ∧ b ≠ nl)
    (hlen : q.length ≤ maxInt64) : RowOk idb (getLine id ref q) := by
  obtain ⟨h1, h2, h3⟩ := udScan_bounds q ref 0 none (by intro a ha; cases ha)
  refine ⟨hid, ?_, ?_, ?_⟩
  · intro s hs
    have := h1 s hs
    exact ⟨by omega, this.2⟩
  · intro a ha
    have := h2 a ha
    exact ⟨by omega, by omega⟩
  · show (udScan 0 none ref q).2.2 ≤ maxInt64
    omega

theorem bytesToString_stringToBytes (s : String) : bytesToString (stringToBytes s) = s := by
  unfold bytesToString stringToBytes
  rw [List.map_map]
  have : (Char.ofNat ∘ Char.toNat) = id := by funext c; simp
  rw [this, List.map_id]
  exact String.ofList_toList

/-- an alignment as (name, sequence bytes) records, as in `Driver.modelTR` -/
abbrev Fasta := List (String × List Nat)

/-- names without line breaks (a FASTA header line cannot hold one), sequences of at most maxInt64 columns -/
def FastaOk (fa : Fasta) : Prop :=
  ∀ r ∈ fa, (∀ b ∈ stringToBytes r.1, b ≠ cr ∧ b ≠ nl) ∧ r.2.length ≤ maxInt64

instance (fa : Fasta) : Decidable (FastaOk fa) := by unfold FastaOk; infer_instance

/-- the `updown list` records of an alignment against the reference `ref`, with their id bytes -/
def recsOf (ref : List Nat) (fa : Fasta) : Recs :=
  fa.map fun r => (stringToBytes r.1, getLine r.1 (ref.map (enc false)) (r.2.map (enc false)))

/-- the records alone: what the FASTA route of topranking computes (`tl` and the queries of `Driver.modelTR`) -/
def linesOf (ref : List Nat) (fa : Fasta) : List UDLine :=
  fa.map fun r => getLine r.1 (ref.map (enc false)) (r.2.map (enc false))

theorem viaFasta_recsOf (ref : List Nat) (fa : Fasta) : viaFasta (recsOf ref fa) = linesOf ref fa := by
  simp [viaFasta, recsOf, linesOf, List.map_map, Function.comp_def]

theorem recsOk_recsOf (ref : List Nat) (fa : Fasta) (h : FastaOk fa) : RecsOk (recsOf ref fa) := by
  intro r hr
  obtain ⟨x, hx, rfl⟩ := List.mem_map.1 hr
  have hx' := h x hx
  exact ⟨getLine_rowOk _ _ _ _ hx'.1 (by simpa using hx'.2), bytesToString_stringToBytes x.1⟩

/-- **C09.four_routes on alignments** — query alignment `qa` and target alignment `ta` against the reference
`ref`: each side either goes through `getLine` directly (FASTA) or through the CSV file `updown list` writes from it
and the CSV reader of topranking; every one of the four combinations prints the text of the FASTA/FASTA run -/
theorem four_routes_fasta (o : TROpts) (table : Bool) (ref : List Nat) (qa ta : Fasta)
    (hq : FastaOk qa) (ht : FastaOk ta) (rq rt : Route) :
    runVia o table rq rt (recsOf ref qa) (recsOf ref ta) = some (trRun o table (linesOf ref qa) (linesOf ref ta)) := by
  rw [four_routes o table _ _ (recsOk_recsOf ref qa hq) (recsOk_recsOf ref ta ht) rq rt, viaFasta_recsOf,
    viaFasta_recsOf]

/-- the row labels of the FASTA route are the record names -/
theorem topRankingAll_linesOf (o : TROpts) (ref : List Nat) (qa : Fasta) (tl : List UDLine) :
    topRankingAll o (linesOf ref qa) tl =
      qa.map fun r => (r.1, topRankingQuery o (getLine r.1 (ref.map (enc false)) (r.2.map (enc false))) tl) := by
  simp only [topRankingAll, linesOf, List.map_map, Function.comp_def]
  rfl

/-- non-vacuity: names with a comma and a double quote, SNPs, a one-column and a longer ambiguity range; the
hypotheses of `four_routes_fasta` hold, and the CSV route really differs from the FASTA route in snpCount -/
example : FastaOk [("q,1", stringToBytes "ACGTANGTAT"), ("q\"2", stringToBytes "ACTTACGNNC")] ∧
    (linesOf (stringToBytes "ACGTACGTAC") [("q,1", stringToBytes "ACGTANGTAT")]).map forgetCount ≠
      linesOf (stringToBytes "ACGTACGTAC") [("q,1", stringToBytes "ACGTANGTAT")] := by
  refine ⟨by decide, by decide +kernel⟩

end Gofasta.Lemmas.CsvFasta
