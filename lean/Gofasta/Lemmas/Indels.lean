import Gofasta.Model.Variants
import Gofasta.Spec.Variants
/-
The run-length scanner of getIndelsPair decomposes into two independent machines (insertions,
deletions) sharing only the running count of reference bases; each is shown equal to the
declarative maximal-run specification.
-/
namespace Gofasta.Lemmas
open Gofasta Model Spec

/-! ### projections of the scanner state -/

def insOf (vs : List Variant) : List (Nat × Nat) :=
  vs.filterMap fun v => if v.kind = .ins then some (v.pos.toNat, v.len) else none

def delOf (vs : List Variant) : List (Nat × Nat) :=
  vs.filterMap fun v => if v.kind = .del then some (v.pos.toNat, v.len) else none

/-- the insertion machine: (open?, start, length, reference bases so far, emitted) -/
structure InsSt where
  opn : Bool
  start : Nat
  len : Nat
  n : Nat
  out : List (Nat × Nat)
  deriving DecidableEq

def insStep (s : InsSt) (c : Nat × Nat) : InsSt :=
  if c.1 = gapCode then
    if c.2 = gapCode then s
    else if s.opn then { s with len := s.len + 1 }
    else { s with opn := true, start := s.n, len := 1 }
  else
    if s.opn then { opn := false, start := s.start, len := s.len, n := s.n + 1, out := s.out ++ [(s.start, s.len)] }
    else { s with n := s.n + 1 }

def insProj (s : IndelState) : InsSt :=
  { opn := s.insOpen, start := s.insStart, len := s.insLen, n := s.refBases, out := insOf s.out }

theorem insOf_append (a b : List Variant) : insOf (a ++ b) = insOf a ++ insOf b := by simp [insOf]
theorem delOf_append (a b : List Variant) : delOf (a ++ b) = delOf a ++ delOf b := by simp [delOf]

theorem insProj_step (s : IndelState) (c : Nat × Nat) : insProj (indelStep s c) = insStep (insProj s) c := by
  obtain ⟨r, q⟩ := c
  simp only [indelStep, insStep, insProj]
  by_cases hr : r = gapCode
  · simp only [hr, if_true]
    by_cases hq : q = gapCode
    · simp [hq]
    · by_cases ho : s.insOpen = true <;> simp [hq, ho]
  · simp only [hr, if_false]
    by_cases ho : s.insOpen = true
    · by_cases hq : q = gapCode
      · by_cases hd : s.delOpen = true <;> simp [ho, hq, hd, insOf_append, insOf]
      · by_cases hd : s.delOpen = true
        · by_cases h0 : s.delStart = 0 <;> simp [ho, hq, hd, h0, insOf_append, insOf]
        · simp [ho, hq, hd, insOf_append, insOf]
    · by_cases hq : q = gapCode
      · by_cases hd : s.delOpen = true <;> simp [ho, hq, hd]
      · by_cases hd : s.delOpen = true
        · by_cases h0 : s.delStart = 0 <;> simp [ho, hq, hd, h0, insOf_append, insOf]
        · simp [ho, hq, hd]

theorem insProj_fold : ∀ (cols : List (Nat × Nat)) (s : IndelState),
    insProj (cols.foldl indelStep s) = cols.foldl insStep (insProj s) := by
  intro cols
  induction cols with
  | nil => intro s; rfl
  | cons c t ih => intro s; simp only [List.foldl_cons]; rw [ih, insProj_step]

/-- final flush of the insertion machine -/
def insFinish (s : InsSt) : List (Nat × Nat) := if s.opn then s.out ++ [(s.start, s.len)] else s.out

/-- what the insertion machine emits on normalised columns (no column is a gap in both rows) -/
theorem insMachine_spec : ∀ (cols : List (Nat × Nat)), (∀ c ∈ cols, ¬ (c.1 = gapCode ∧ c.2 = gapCode)) →
    (∀ (a l n : Nat) (out : List (Nat × Nat)),
      insFinish (cols.foldl insStep { opn := true, start := a, len := l, n := n, out := out }) =
        out ++ (a, l + (cols.takeWhile fun c => c.1 == gapCode).length) ::
          specInsBy (· == gapCode) n (cols.dropWhile fun c => c.1 == gapCode)) ∧
    (∀ (a l n : Nat) (out : List (Nat × Nat)),
      insFinish (cols.foldl insStep { opn := false, start := a, len := l, n := n, out := out }) = out ++ specInsBy (· == gapCode) n cols) := by
  intro cols
  induction cols with
  | nil =>
    intro _
    constructor
    · intro a l n out; simp [insFinish, specInsBy]
    · intro a l n out; simp [insFinish, specInsBy]
  | cons c t ih =>
    intro hn
    obtain ⟨r, q⟩ := c
    have hc := hn (r, q) (by simp)
    obtain ⟨ihA, ihB⟩ := ih (fun c hc => hn c (by simp [hc]))
    by_cases hr : r = gapCode
    · have hq : q ≠ gapCode := fun h => hc ⟨hr, h⟩
      constructor
      · intro a l n out
        simp only [List.foldl_cons, insStep, hr, hq, if_true, if_false]
        rw [ihA]
        simp only [List.takeWhile_cons, List.dropWhile_cons, beq_self_eq_true, if_true, List.length_cons]
        have : l + 1 + (t.takeWhile fun c => c.1 == gapCode).length = l + ((t.takeWhile fun c => c.1 == gapCode).length + 1) := by omega
        rw [this]
      · intro a l n out
        simp only [List.foldl_cons, insStep, hr, hq, if_true, if_false, Bool.false_eq_true]
        rw [ihA]
        rw [specInsBy]
        simp [Nat.add_comm]
    · have hrb : (r == gapCode) = false := by simpa using hr
      constructor
      · intro a l n out
        simp only [List.foldl_cons, insStep, hr, if_false, if_true]
        rw [ihB]
        simp only [List.takeWhile_cons, List.dropWhile_cons, hrb, Bool.false_eq_true, if_false, List.length_nil, Nat.add_zero]
        rw [specInsBy]
        simp [hrb, List.append_assoc]
      · intro a l n out
        simp only [List.foldl_cons, insStep, hr, if_false, Bool.false_eq_true]
        rw [ihB]
        conv => rhs; rw [specInsBy]
        simp [hrb]

end Gofasta.Lemmas

namespace Gofasta.Lemmas
open Gofasta Model Spec

/-! ### the deletion machine -/

structure DelSt where
  opn : Bool
  start : Nat      -- 0-based reference index of the first deleted base
  len : Nat
  n : Nat
  out : List (Nat × Nat)
  deriving DecidableEq

def delStepQ (s : DelSt) (q : Nat) : DelSt :=
  if q = gapCode then
    if s.opn then { s with len := s.len + 1, n := s.n + 1 }
    else { s with opn := true, start := s.n, len := 1, n := s.n + 1 }
  else
    if s.opn then { opn := false, start := s.start, len := s.len, n := s.n + 1,
                    out := if s.start ≠ 0 then s.out ++ [(s.start + 1, s.len)] else s.out }
    else { s with n := s.n + 1 }

def delStep (s : DelSt) (c : Nat × Nat) : DelSt := if c.1 = gapCode then s else delStepQ s c.2

def delProj (s : IndelState) : DelSt :=
  { opn := s.delOpen, start := s.delStart, len := s.delLen, n := s.refBases, out := delOf s.out }

theorem delProj_step (s : IndelState) (c : Nat × Nat) : delProj (indelStep s c) = delStep (delProj s) c := by
  obtain ⟨r, q⟩ := c
  simp only [indelStep, delStep, delStepQ, delProj]
  by_cases hr : r = gapCode
  · simp only [hr, if_true]
    by_cases hq : q = gapCode
    · simp [hq]
    · by_cases ho : s.insOpen = true <;> simp [hq, ho]
  · simp only [hr, if_false]
    by_cases ho : s.insOpen = true
    · by_cases hq : q = gapCode
      · by_cases hd : s.delOpen = true <;> simp [ho, hq, hd, delOf_append, delOf]
      · by_cases hd : s.delOpen = true
        · by_cases h0 : s.delStart = 0 <;> simp [ho, hq, hd, h0, delOf_append, delOf]
        · simp [ho, hq, hd, delOf_append, delOf]
    · by_cases hq : q = gapCode
      · by_cases hd : s.delOpen = true <;> simp [ho, hq, hd]
      · by_cases hd : s.delOpen = true
        · by_cases h0 : s.delStart = 0 <;> simp [ho, hq, hd, h0, delOf_append, delOf]
        · simp [ho, hq, hd]

theorem delProj_fold : ∀ (cols : List (Nat × Nat)) (s : IndelState),
    delProj (cols.foldl indelStep s) = cols.foldl delStep (delProj s) := by
  intro cols
  induction cols with
  | nil => intro s; rfl
  | cons c t ih => intro s; simp only [List.foldl_cons]; rw [ih, delProj_step]

/-- reference-gap columns are invisible to the deletion machine -/
theorem del_fold_refcols : ∀ (cols : List (Nat × Nat)) (s : DelSt),
    cols.foldl delStep s = (refColumnQueryBy (· == gapCode) cols).foldl delStepQ s := by
  intro cols
  induction cols with
  | nil => intro s; rfl
  | cons c t ih =>
    intro s
    obtain ⟨r, q⟩ := c
    by_cases hr : r = gapCode
    · simp only [List.foldl_cons, delStep, hr, if_true, refColumnQueryBy, List.filter_cons, beq_self_eq_true, Bool.not_true,
        Bool.false_eq_true, if_false]
      exact ih s
    · have hrb : (r == gapCode) = false := by simpa using hr
      simp only [List.foldl_cons, delStep, hr, if_false, refColumnQueryBy, List.filter_cons, hrb, Bool.not_false, if_true,
        List.map_cons]
      exact ih _

/-- the deletion machine on the reference-column subsequence emits exactly the maximal runs that contain
    neither the first nor the last reference base -/
theorem delMachine_spec (N : Nat) : ∀ (qs : List Nat) (i : Nat), i + qs.length = N →
    (∀ (a l : Nat) (out : List (Nat × Nat)), a + l = i →
      (qs.foldl delStepQ { opn := true, start := a, len := l, n := i, out := out }).out =
        out ++ ((a + 1, l + (qs.takeWhile (· == gapCode)).length) ::
                specDelRunsBy (· == gapCode) (i + (qs.takeWhile (· == gapCode)).length) (qs.dropWhile (· == gapCode))).filter
              (fun d => d.1 ≠ 1 ∧ d.1 + d.2 - 1 ≠ N)) ∧
    (∀ (a l : Nat) (out : List (Nat × Nat)),
      (qs.foldl delStepQ { opn := false, start := a, len := l, n := i, out := out }).out =
        out ++ (specDelRunsBy (· == gapCode) i qs).filter (fun d => d.1 ≠ 1 ∧ d.1 + d.2 - 1 ≠ N)) := by
  intro qs
  induction qs with
  | nil =>
    intro i hN
    constructor
    · intro a l out hal
      simp only [List.foldl_nil, List.takeWhile_nil, List.length_nil, Nat.add_zero, List.dropWhile_nil]
      rw [specDelRunsBy]
      have : a + 1 + l - 1 = N := by simp at hN; omega
      simp [this]
    · intro a l out
      simp [specDelRunsBy]
  | cons q t ih =>
    intro i hN
    have hN' : (i + 1) + t.length = N := by simp only [List.length_cons] at hN; omega
    obtain ⟨ihA, ihB⟩ := ih (i + 1) hN'
    by_cases hq : q = gapCode
    · have hqb : (q == gapCode) = true := by simpa using hq
      constructor
      · intro a l out hal
        simp only [List.foldl_cons, delStepQ, hq, if_true]
        rw [ihA a (l + 1) out (by omega)]
        simp only [List.takeWhile_cons, List.dropWhile_cons, beq_self_eq_true, if_true, List.length_cons]
        have e1 : l + 1 + (t.takeWhile (· == gapCode)).length = l + ((t.takeWhile (· == gapCode)).length + 1) := by omega
        have e2 : i + 1 + (t.takeWhile (· == gapCode)).length = i + ((t.takeWhile (· == gapCode)).length + 1) := by omega
        rw [e1, e2]
      · intro a l out
        simp only [List.foldl_cons, delStepQ, hq, if_true, Bool.false_eq_true, if_false]
        rw [ihA i 1 out rfl]
        conv => rhs; rw [specDelRunsBy]
        simp [Nat.add_comm]
    · have hqb : (q == gapCode) = false := by simpa using hq
      constructor
      · intro a l out hal
        simp only [List.foldl_cons, delStepQ, hq, if_false, if_true]
        rw [ihB]
        simp only [List.takeWhile_cons, List.dropWhile_cons, hqb, Bool.false_eq_true, if_false, List.length_nil, Nat.add_zero]
        conv => rhs; rw [specDelRunsBy]
        simp only [hqb, Bool.false_eq_true, if_false, List.filter_cons]
        have hlast : a + 1 + l - 1 ≠ N := by simp only [List.length_cons] at hN; omega
        by_cases ha : a = 0
        · simp [ha]
        · have : a + 1 ≠ 1 := by omega
          have hlast' : ¬ (a + l = N) := by omega
          simp [ha, this, hlast', List.append_assoc]
      · intro a l out
        simp only [List.foldl_cons, delStepQ, hq, if_false, Bool.false_eq_true]
        rw [ihB]
        conv => rhs; rw [specDelRunsBy]
        simp [hqb]

end Gofasta.Lemmas

namespace Gofasta.Lemmas
open Gofasta Model Spec

/-! ### transfer along a symbol map that preserves "is a gap" (raw bytes -> codes) -/

theorem mem_of_mem_dropWhile' {α : Type} (p : α → Bool) : ∀ (l : List α) (x : α), x ∈ l.dropWhile p → x ∈ l
  | [], _, h => by simp at h
  | y :: t, x, h => by
    simp only [List.dropWhile_cons] at h
    split at h
    · exact List.mem_cons_of_mem _ (mem_of_mem_dropWhile' p t x h)
    · exact h

theorem takeWhile_map_fst (f : Nat → Nat) (g g' : Nat → Bool) : ∀ (l : List (Nat × Nat)),
    (∀ c ∈ l, g' (f c.1) = g c.1) →
    ((l.map (Prod.map f f)).takeWhile fun c => g' c.1).length = (l.takeWhile fun c => g c.1).length ∧
    (l.map (Prod.map f f)).dropWhile (fun c => g' c.1) = (l.dropWhile fun c => g c.1).map (Prod.map f f) := by
  intro l
  induction l with
  | nil => intro _; simp
  | cons c t ih =>
    intro h
    have hc := h c (by simp)
    obtain ⟨i1, i2⟩ := ih (fun x hx => h x (by simp [hx]))
    simp only [List.map_cons, List.takeWhile_cons, List.dropWhile_cons, Prod.map_fst, hc]
    cases g c.1 <;> simp [i1, i2]

theorem specInsBy_map (f : Nat → Nat) (g g' : Nat → Bool) : ∀ (k : Nat) (l : List (Nat × Nat)) (n : Nat), l.length ≤ k →
    (∀ c ∈ l, g' (f c.1) = g c.1) → specInsBy g' n (l.map (Prod.map f f)) = specInsBy g n l := by
  intro k
  induction k with
  | zero =>
    intro l n hl _
    have : l = [] := by cases l <;> simp_all
    subst this; simp [specInsBy]
  | succ k ih =>
    intro l n hl h
    cases l with
    | nil => simp [specInsBy]
    | cons c t =>
      obtain ⟨r, q⟩ := c
      have hc : g' (f r) = g r := h (r, q) (by simp)
      have ht : ∀ c ∈ t, g' (f c.1) = g c.1 := fun x hx => h x (by simp [hx])
      obtain ⟨e1, e2⟩ := takeWhile_map_fst f g g' t ht
      simp only [List.map_cons, Prod.map_apply]
      rw [specInsBy, specInsBy]
      simp only [hc]
      cases hg : g r with
      | false =>
        simp only [Bool.false_eq_true, if_false]
        exact ih t (n + 1) (by simp only [List.length_cons] at hl; omega) ht
      | true =>
        simp only [if_true]
        rw [e1, e2]
        congr 1
        apply ih
        · have := length_dropWhile_le (fun c : Nat × Nat => g c.1) t
          simp only [List.length_cons] at hl; omega
        · intro x hx
          exact ht x (mem_of_mem_dropWhile' _ _ _ hx)

theorem takeWhile_map_nat (f : Nat → Nat) (g g' : Nat → Bool) : ∀ (l : List Nat), (∀ b ∈ l, g' (f b) = g b) →
    ((l.map f).takeWhile g').length = (l.takeWhile g).length ∧ (l.map f).dropWhile g' = (l.dropWhile g).map f := by
  intro l
  induction l with
  | nil => intro _; simp
  | cons b t ih =>
    intro h
    have hb := h b (by simp)
    obtain ⟨i1, i2⟩ := ih (fun x hx => h x (by simp [hx]))
    simp only [List.map_cons, List.takeWhile_cons, List.dropWhile_cons, hb]
    cases g b <;> simp [i1, i2]

theorem specDelRunsBy_map (f : Nat → Nat) (g g' : Nat → Bool) : ∀ (k : Nat) (l : List Nat) (i : Nat), l.length ≤ k →
    (∀ b ∈ l, g' (f b) = g b) → specDelRunsBy g' i (l.map f) = specDelRunsBy g i l := by
  intro k
  induction k with
  | zero =>
    intro l i hl _
    have : l = [] := by cases l <;> simp_all
    subst this; simp [specDelRunsBy]
  | succ k ih =>
    intro l i hl h
    cases l with
    | nil => simp [specDelRunsBy]
    | cons b t =>
      have hb : g' (f b) = g b := h b (by simp)
      have ht : ∀ x ∈ t, g' (f x) = g x := fun x hx => h x (by simp [hx])
      obtain ⟨e1, e2⟩ := takeWhile_map_nat f g g' t ht
      simp only [List.map_cons]
      rw [specDelRunsBy, specDelRunsBy]
      simp only [hb]
      cases hg : g b with
      | false =>
        simp only [Bool.false_eq_true, if_false]
        exact ih t (i + 1) (by simp only [List.length_cons] at hl; omega) ht
      | true =>
        simp only [if_true]
        rw [e1, e2]
        congr 1
        apply ih
        · have := length_dropWhile_le g t
          simp only [List.length_cons] at hl; omega
        · intro x hx
          exact ht x (mem_of_mem_dropWhile' _ _ _ hx)

end Gofasta.Lemmas
