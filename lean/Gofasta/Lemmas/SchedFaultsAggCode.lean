import Gofasta.Lemmas.SchedFaultsAgg
/-
The aggregating writers AS THE GO CODE HAS THEM: snps.aggregateWriteOutput (and the aggregating writers of variants and
sam variants) write the header BEFORE the receive loop and the rows after it.  In the terms of Lemmas/SchedFaultsAgg that
is `hs = [header]`, `pre = []` (its command-level statements are given for `hs = []`, `pre = [header]`: header and rows
after the loop).  The general theorems are parametric in `hs` and `pre`; this file instantiates them for the placement
the code has, for `snps --aggregate`.
-/
namespace Gofasta.Lemmas.SchedFaultsAgg
open Gofasta Gofasta.Model
open Gofasta.Model.Sched (absorbAll)
open Gofasta.Lemmas.SchedCommands
open Gofasta.Lemmas.SchedFaults
open Gofasta.Model.Sched Gofasta.Lemmas.Sched Gofasta.Lemmas.AggOrder

/-- header first: the destination fails at call k, 1 ≤ k ≤ W = 1 + rows: no schedule returns nil -/
theorem snps_agg_code_fault_reported (d : Dest) (hard : Bool) (thrNum thrDen : Nat) (ref : List Nat)
    (recs : List (String × List Nat)) (N capIn capOut : Nat) (rf : Option (Nat × RunErr)) (hN : 1 ≤ N) (k : Nat)
    (hd : d = .failFrom k ∨ d = .failOnce k) (hk1 : 1 ≤ k)
    (hkW : k ≤ 1 + (snpsAggLines hard thrNum thrDen ref recs).length) {s : State _ _ _ _}
    (hr : Reach (snpsAggFCfg d [snpsAggHeader] [] hard thrNum thrDen ref recs N capIn capOut rf) s) :
    s.main ≠ .ret none :=
  agg_fault_reported (snpsAggF_isAW d [snpsAggHeader] [] hard thrNum thrDen ref recs N capIn capOut rf) hN
    (snps_rowsAre hard thrNum thrDen ref recs) k hd hk1 (by rw [aggW_B]; exact hkW) hr

/-- header first: a nil return means the whole table was accepted, in W calls none of which failed -/
theorem snps_agg_code_fault_beyond_run_harmless (d : Dest) (hard : Bool) (thrNum thrDen : Nat) (ref : List Nat)
    (recs : List (String × List Nat)) (N capIn capOut : Nat) (rf : Option (Nat × RunErr)) (hN : 1 ≤ N)
    {s : State _ _ _ _}
    (hr : Reach (snpsAggFCfg d [snpsAggHeader] [] hard thrNum thrDen ref recs N capIn capOut rf) s)
    (hm : s.main = .ret none) :
    s.wst.sink.text = snpsAggregate hard thrNum thrDen ref recs ∧
      s.wst.sink.calls = 1 + (snpsAggLines hard thrNum thrDen ref recs).length ∧
      ∀ i, 1 ≤ i → i ≤ 1 + (snpsAggLines hard thrNum thrDen ref recs).length → d.fails i = false := by
  obtain ⟨h1, _, h3, h4⟩ := agg_fault_beyond_run_harmless
    (snpsAggF_isAW d [snpsAggHeader] [] hard thrNum thrDen ref recs N capIn capOut rf) hN
    (snps_rowsAre hard thrNum thrDen ref recs) hr hm
  rw [aggW_B] at h3 h4
  exact ⟨by rw [h1, aggCalls_B, snpsAggregate_eq_join], h3, h4⟩

/-- header first: in every reachable state the accepted text is a prefix of the table, cut at a call boundary -/
theorem snps_agg_code_written_is_prefix (d : Dest) (hard : Bool) (thrNum thrDen : Nat) (ref : List Nat)
    (recs : List (String × List Nat)) (N capIn capOut : Nat) (rf : Option (Nat × RunErr)) (hN : 1 ≤ N)
    {s : State _ _ _ _}
    (hr : Reach (snpsAggFCfg d [snpsAggHeader] [] hard thrNum thrDen ref recs N capIn capOut rf) s) :
    ∃ j, aggAccepted d [snpsAggHeader] [] ([], 0) snpsAccum (snpsAggRowsOf thrNum thrDen) s =
      String.join ((snpsAggHeader :: snpsAggLines hard thrNum thrDen ref recs).take j) :=
  agg_written_is_prefix (snpsAggF_isAW d [snpsAggHeader] [] hard thrNum thrDen ref recs N capIn capOut rf) hN
    (snps_rowsAre hard thrNum thrDen ref recs) hr

/-- header first: while some record has not been absorbed the destination has been offered the header and nothing
else (one call) -/
theorem snps_agg_code_only_header_before_all_arrived (d : Dest) (hard : Bool) (thrNum thrDen : Nat) (ref : List Nat)
    (recs : List (String × List Nat)) (N capIn capOut : Nat) (rf : Option (Nat × RunErr)) (hN : 1 ≤ N)
    {s : State _ _ _ _}
    (hr : Reach (snpsAggFCfg d [snpsAggHeader] [] hard thrNum thrDen ref recs N capIn capOut rf) s)
    {i : Nat} (hi : i < recs.length) (hni : i ∉ s.arrival.map Prod.fst) :
    s.writer = .recv ∧ s.wst.sink = Sink.putAll d Sink.empty [snpsAggHeader] :=
  let h := agg_nothing_before_all_arrived
    (snpsAggF_isAW d [snpsAggHeader] [] hard thrNum thrDen ref recs N capIn capOut rf) hN hr
    (by simpa [snpsAggFCfg, encItems] using hi) hni
  ⟨h.1, h.2.1⟩

section variantsAggregateCode
open Gofasta.Model.Sched Gofasta.Lemmas.Sched Gofasta.Driver Gofasta.Lemmas.SamVarPipeline
open Gofasta.Lemmas.AggVariants

/-- the header written before the loop, as the Go writer has it (see `variants_agg_fault_reported` for the statement with header and rows after the loop) -/
theorem variants_agg_code_fault_reported (d : Dest) (vi : VarIn)
    (pairFn : List Nat → List Nat → List Region → List Nat → List Variant)
    (refRow : List Nat) (rows : List (String × List Nat)) (refID : String) (regions : List Region) (inter : List Nat)
    (hsep : Separated (aggKeys vi.append vi.start vi.stop refID
      (rows.map fun r => (r.1, pairFn refRow r.2 regions inter))))
    (N capIn capOut : Nat) (rf : Option (Nat × RunErr)) (hN : 1 ≤ N) (k : Nat)
    (hd : d = .failFrom k ∨ d = .failOnce k) (hk1 : 1 ≤ k)
    (hkW : k ≤ 1 + (varAggLines vi refID (rows.map fun r => (r.1, pairFn refRow r.2 regions inter))).length)
    {s : State _ _ _ _}
    (hr : Reach (varAggFCfg d [varAggHeader] [] vi pairFn refRow rows refID regions inter N capIn capOut rf) s) :
    s.main ≠ .ret none :=
  agg_fault_reported (varAggF_isAW d [varAggHeader] [] vi pairFn refRow rows refID regions inter N capIn capOut rf) hN
    (var_rowsAre vi pairFn refRow rows refID regions inter hsep) k hd hk1 (by rw [aggW_B]; exact hkW) hr

/-- the header written before the loop, as the Go writer has it (see `variants_agg_fault_beyond_run_harmless` for the statement with header and rows after the loop) -/
theorem variants_agg_code_fault_beyond_run_harmless (d : Dest) (vi : VarIn)
    (pairFn : List Nat → List Nat → List Region → List Nat → List Variant)
    (refRow : List Nat) (rows : List (String × List Nat)) (refID : String) (regions : List Region) (inter : List Nat)
    (hra : refAndRows vi = some (refRow, rows, refID)) (hregs : varRegions vi refRow = some (regions, inter))
    (hagg : vi.agg = true)
    (hsep : Separated (aggKeys vi.append vi.start vi.stop refID
      (rows.map fun r => (r.1, pairFn refRow r.2 regions inter))))
    (N capIn capOut : Nat) (rf : Option (Nat × RunErr)) (hN : 1 ≤ N) {s : State _ _ _ _}
    (hr : Reach (varAggFCfg d [varAggHeader] [] vi pairFn refRow rows refID regions inter N capIn capOut rf) s)
    (hm : s.main = .ret none) :
    s.wst.sink.text = varCommand vi pairFn ∧
      s.wst.sink.calls =
        1 + (varAggLines vi refID (rows.map fun r => (r.1, pairFn refRow r.2 regions inter))).length ∧
      ∀ i, 1 ≤ i →
        i ≤ 1 + (varAggLines vi refID (rows.map fun r => (r.1, pairFn refRow r.2 regions inter))).length →
        d.fails i = false := by
  obtain ⟨h1, _, h3, h4⟩ := agg_fault_beyond_run_harmless
    (varAggF_isAW d [varAggHeader] [] vi pairFn refRow rows refID regions inter N capIn capOut rf) hN
    (var_rowsAre vi pairFn refRow rows refID regions inter hsep) hr hm
  rw [aggW_B] at h3 h4
  refine ⟨?_, h3, h4⟩
  have hall := (success_means_complete
    (cfg := varAggFCfg d [varAggHeader] [] vi pairFn refRow rows refID regions inter N capIn capOut rf) hN hr hm).2.1
  have hwid : ∀ r ∈ rows, r.2.length = refRow.length := by
    intro x hx
    obtain ⟨y, hy⟩ := hall x hx
    exact varWorker_width pairFn refRow regions inter x y (liftW_ok.mp hy)
  rw [h1, aggCalls_B]
  exact varAgg_text_eq vi pairFn refRow rows refID regions inter hra hregs hagg hwid

/-- the header written before the loop, as the Go writer has it (see `variants_agg_written_is_prefix` for the statement with header and rows after the loop) -/
theorem variants_agg_code_written_is_prefix (d : Dest) (vi : VarIn)
    (pairFn : List Nat → List Nat → List Region → List Nat → List Variant)
    (refRow : List Nat) (rows : List (String × List Nat)) (refID : String) (regions : List Region) (inter : List Nat)
    (hsep : Separated (aggKeys vi.append vi.start vi.stop refID
      (rows.map fun r => (r.1, pairFn refRow r.2 regions inter))))
    (N capIn capOut : Nat) (rf : Option (Nat × RunErr)) (hN : 1 ≤ N) {s : State _ _ _ _}
    (hr : Reach (varAggFCfg d [varAggHeader] [] vi pairFn refRow rows refID regions inter N capIn capOut rf) s) :
    ∃ j, aggAccepted d [varAggHeader] [] ([], 0) (varAccum vi refID) (varAggRowsOf vi) s =
      String.join ((varAggHeader ::
        varAggLines vi refID (rows.map fun r => (r.1, pairFn refRow r.2 regions inter))).take j) :=
  agg_written_is_prefix (varAggF_isAW d [varAggHeader] [] vi pairFn refRow rows refID regions inter N capIn capOut rf)
    hN (var_rowsAre vi pairFn refRow rows refID regions inter hsep) hr

end variantsAggregateCode

section samVariantsAggregateCode
open Gofasta.Model.SchedChain Gofasta.Lemmas.SchedChain Gofasta.Driver Gofasta.Lemmas.SamVarPipeline Gofasta.Base
open Gofasta.Lemmas.AggVariants

/-- the header written before the loop, as the Go writer has it (see `sam_variants_agg_fault_reported` for the statement with header and rows after the loop) -/
theorem sam_variants_agg_code_fault_reported (d : Dest) (vi : VarIn) (refID : String) (refRaw : List Nat)
    (blocks : List (List SamRec)) (pairOf : List SamRec → List Nat → List Nat × List Nat)
    (caller : List Nat → List Nat → List Region → List Nat → List Variant)
    (regions : List Region) (inter : List Nat)
    (hsep : Separated (aggKeys vi.append vi.start vi.stop refID (samLists refRaw blocks pairOf caller regions inter)))
    (N1 N2 cap0 cap1 cap2 : Nat) (rf : Option (Nat × RunErr)) (hN1 : 1 ≤ N1) (hN2 : 1 ≤ N2) (k : Nat)
    (hd : d = .failFrom k ∨ d = .failOnce k) (hk1 : 1 ≤ k)
    (hkW : k ≤ 1 + (varAggLines vi refID (samLists refRaw blocks pairOf caller regions inter)).length)
    {s : State _ _ _}
    (hr : Reach (samVarAggFCfg d [varAggHeader] [] vi refID refRaw blocks pairOf caller regions inter
      N1 N2 cap0 cap1 cap2 rf) s) : s.main ≠ .ret none :=
  chain_agg_fault_reported
    (samVarAggF_isAW d [varAggHeader] [] vi refID refRaw blocks pairOf caller regions inter N1 N2 cap0 cap1 cap2 rf)
    (samVarAggF_pools_pos hN1 hN2)
    (samVar_rowsAre d [varAggHeader] [] vi refID refRaw blocks pairOf caller regions inter N1 N2 cap0 cap1 cap2 rf hsep)
    k hd hk1 (by rw [aggW_B]; exact hkW) hr

/-- the header written before the loop, as the Go writer has it (see `sam_variants_agg_fault_beyond_run_harmless` for the statement with header and rows after the loop) -/
theorem sam_variants_agg_code_fault_beyond_run_harmless (d : Dest) (vi : VarIn) (refID : String) (refRaw : List Nat)
    (blocks : List (List SamRec)) (pairOf : List SamRec → List Nat → List Nat × List Nat)
    (caller : List Nat → List Nat → List Region → List Nat → List Variant)
    (regions : List Region) (inter : List Nat) (hregs : samRegions vi refRaw = some (regions, inter))
    (hagg : vi.agg = true)
    (hsep : Separated (aggKeys vi.append vi.start vi.stop refID (samLists refRaw blocks pairOf caller regions inter)))
    (N1 N2 cap0 cap1 cap2 : Nat) (rf : Option (Nat × RunErr)) (hN1 : 1 ≤ N1) (hN2 : 1 ≤ N2) {s : State _ _ _}
    (hr : Reach (samVarAggFCfg d [varAggHeader] [] vi refID refRaw blocks pairOf caller regions inter
      N1 N2 cap0 cap1 cap2 rf) s) (hm : s.main = .ret none) :
    s.wst.sink.text = samVarOn vi refID refRaw blocks pairOf caller ∧
      s.wst.sink.calls = 1 + (varAggLines vi refID (samLists refRaw blocks pairOf caller regions inter)).length ∧
      ∀ i, 1 ≤ i → i ≤ 1 + (varAggLines vi refID (samLists refRaw blocks pairOf caller regions inter)).length →
        d.fails i = false := by
  obtain ⟨h1, _, h3, h4⟩ := chain_agg_fault_beyond_run_harmless
    (samVarAggF_isAW d [varAggHeader] [] vi refID refRaw blocks pairOf caller regions inter N1 N2 cap0 cap1 cap2 rf)
    (samVarAggF_pools_pos hN1 hN2)
    (samVar_rowsAre d [varAggHeader] [] vi refID refRaw blocks pairOf caller regions inter N1 N2 cap0 cap1 cap2 rf hsep)
    hr hm
  rw [aggW_B] at h3 h4
  refine ⟨?_, h3, h4⟩
  rw [h1, aggCalls_B]
  exact samVarAgg_text_eq vi refID refRaw blocks pairOf caller regions inter hregs hagg

/-- the header written before the loop, as the Go writer has it (see `sam_variants_agg_written_is_prefix` for the statement with header and rows after the loop) -/
theorem sam_variants_agg_code_written_is_prefix (d : Dest) (vi : VarIn) (refID : String) (refRaw : List Nat)
    (blocks : List (List SamRec)) (pairOf : List SamRec → List Nat → List Nat × List Nat)
    (caller : List Nat → List Nat → List Region → List Nat → List Variant)
    (regions : List Region) (inter : List Nat)
    (hsep : Separated (aggKeys vi.append vi.start vi.stop refID (samLists refRaw blocks pairOf caller regions inter)))
    (N1 N2 cap0 cap1 cap2 : Nat) (rf : Option (Nat × RunErr)) (hN1 : 1 ≤ N1) (hN2 : 1 ≤ N2) {s : State _ _ _}
    (hr : Reach (samVarAggFCfg d [varAggHeader] [] vi refID refRaw blocks pairOf caller regions inter
      N1 N2 cap0 cap1 cap2 rf) s) :
    ∃ j, chainAggAccepted d [varAggHeader] [] ([], 0) (svAccum vi refID) (varAggRowsOf vi) s =
      String.join ((varAggHeader ::
        varAggLines vi refID (samLists refRaw blocks pairOf caller regions inter)).take j) :=
  chain_agg_written_is_prefix
    (samVarAggF_isAW d [varAggHeader] [] vi refID refRaw blocks pairOf caller regions inter N1 N2 cap0 cap1 cap2 rf)
    (samVarAggF_pools_pos hN1 hN2)
    (samVar_rowsAre d [varAggHeader] [] vi refID refRaw blocks pairOf caller regions inter N1 N2 cap0 cap1 cap2 rf hsep)
    hr

end samVariantsAggregateCode

end Gofasta.Lemmas.SchedFaultsAgg
