import Gofasta.Model.Pipeline
/-
L-reorder: an index-keyed pending map with a running counter, fed the records 0..n-1 in ANY
permutation, emits exactly records 0,1,…,n-1 in order, each once.
-/
namespace Gofasta.Model.Reorder
variable {α : Type}

@[simp] theorem lookup_erase_self (k : Nat) (l : List (Nat × α)) : lookup k (erase k l) = none := by
  induction l with
  | nil => rfl
  | cons h t ih =>
    obtain ⟨k', v⟩ := h
    simp only [erase]
    split
    · exact ih
    · rename_i hne; simp [lookup, hne, ih]

theorem lookup_erase_ne {k j : Nat} (h : j ≠ k) (l : List (Nat × α)) : lookup j (erase k l) = lookup j l := by
  induction l with
  | nil => rfl
  | cons hd t ih =>
    obtain ⟨k', v⟩ := hd
    simp only [erase]
    split
    · rename_i heq; subst heq; simp [lookup, ih, Ne.symm h]
    · simp [lookup, ih]

theorem length_erase_lt {k : Nat} {v : α} (l : List (Nat × α)) (h : lookup k l = some v) :
    (erase k l).length < l.length := by
  induction l with
  | nil => simp [lookup] at h
  | cons hd t ih =>
    obtain ⟨k', w⟩ := hd
    simp only [erase]
    split
    · have : (erase k t).length ≤ t.length := by
        clear ih h
        induction t with
        | nil => simp [erase]
        | cons h2 t2 ih2 =>
          obtain ⟨a, b⟩ := h2
          simp only [erase]; split <;> simp <;> omega
      simp; omega
    · rename_i hne
      simp [lookup, hne] at h
      have := ih h
      simp; omega

/-- invariant relative to the set of arrived indices `A` and payload function `f` -/
structure Inv (f : Nat → α) (A : List Nat) (s : St α) : Prop where
  out_eq : s.out = (List.range s.counter).map f
  pend : ∀ k, lookup k s.pending = if k ∈ A ∧ s.counter ≤ k then some (f k) else none
  below : ∀ k, k < s.counter → k ∈ A

theorem flush_inv (f : Nat → α) (A : List Nat) : ∀ (fuel : Nat) (s : St α), Inv f A s → s.pending.length ≤ fuel →
    Inv f A (flush fuel s) ∧ lookup (flush fuel s).counter (flush fuel s).pending = none := by
  intro fuel
  induction fuel with
  | zero =>
    intro s hs hl
    have : s.pending = [] := by cases h : s.pending <;> simp_all
    simp [flush, hs, this, lookup]
  | succ n ih =>
    intro s hs hl
    simp only [flush]
    split
    · rename_i v hv
      have hp := hs.pend s.counter
      rw [hv] at hp
      have hA : s.counter ∈ A := by
        by_cases h : s.counter ∈ A ∧ s.counter ≤ s.counter
        · exact h.1
        · simp at hp; exact hp.1
      have hvf : v = f s.counter := by
        have : s.counter ∈ A ∧ s.counter ≤ s.counter := ⟨hA, Nat.le_refl _⟩
        simp [this] at hp; exact hp
      apply ih
      · constructor
        · simp [hs.out_eq, List.range_succ, hvf]
        · intro k
          by_cases hk : k = s.counter
          · subst hk; simp
          · rw [lookup_erase_ne hk, hs.pend k]
            simp only
            have : (s.counter + 1 ≤ k) ↔ (s.counter ≤ k) := by omega
            simp [this]
        · intro k hk
          simp only at hk
          by_cases hk' : k = s.counter
          · subst hk'; exact hA
          · exact hs.below k (by omega)
      · have := length_erase_lt s.pending hv
        simp; omega
    · rename_i hnone
      exact ⟨hs, hnone⟩

theorem recv_inv (f : Nat → α) (A : List Nat) (s : St α) (i : Nat) (hs : Inv f A s) (hi : i ∉ A) :
    Inv f (i :: A) (recv s (i, f i)) ∧
      lookup (recv s (i, f i)).counter (recv s (i, f i)).pending = none := by
  unfold recv
  apply flush_inv f (i :: A)
  · constructor
    · exact hs.out_eq
    · intro k
      by_cases hk : k = i
      · subst hk
        by_cases hc : s.counter ≤ k
        · simp [lookup, hc]
        · -- late duplicate arrival below the counter cannot happen for permutations; keep map semantics
          exact absurd (hs.below k (by omega)) hi
      · have hne : i ≠ k := fun h => hk h.symm
        simp [lookup, hne, lookup_erase_ne hk, hs.pend k, hk]
    · intro k hk; exact List.mem_cons_of_mem _ (hs.below k hk)
  · exact Nat.le_refl _


theorem foldl_inv (f : Nat → α) : ∀ (arr : List Nat) (A : List Nat) (s : St α), Inv f A s →
    (arr ++ A).Nodup → lookup s.counter s.pending = none →
    let s' := (arr.map (fun i => (i, f i))).foldl recv s
    Inv f (arr.reverse ++ A) s' ∧ lookup s'.counter s'.pending = none := by
  intro arr
  induction arr with
  | nil => intro A s hs _ hn; simpa using ⟨hs, hn⟩
  | cons i t ih =>
    intro A s hs hnd hn
    have hi : i ∉ A := by
      intro h; simp [List.nodup_cons] at hnd; exact hnd.1.2 h
    obtain ⟨h1, h2⟩ := recv_inv f A s i hs hi
    have hnd' : (t ++ (i :: A)).Nodup := by
      have := hnd
      simp [List.nodup_cons, List.nodup_append] at this ⊢
      grind
    have := ih (i :: A) (recv s (i, f i)) h1 hnd' h2
    simpa [List.reverse_cons, List.append_assoc] using this

theorem run_perm (f : Nat → α) (n : Nat) (arr : List Nat) (hp : arr.Perm (List.range n)) :
    run (arr.map (fun i => (i, f i))) = (List.range n).map f := by
  have hnd : (arr ++ []).Nodup := by simpa using (hp.nodup_iff.mpr List.nodup_range)
  have h0 : Inv f [] (⟨[], 0, []⟩ : St α) := ⟨by simp, by intro k; simp [lookup], by intro k hk; simp at hk⟩
  obtain ⟨hI, hN⟩ := foldl_inv f arr [] ⟨[], 0, []⟩ h0 hnd (by simp [lookup])
  simp only [List.append_nil] at hI
  unfold run runFrom
  generalize (List.foldl recv ⟨[], 0, []⟩ (arr.map fun i => (i, f i))) = s at hI hN
  have hmem : ∀ k, k ∈ arr.reverse ↔ k < n := by
    intro k; rw [List.mem_reverse, hp.mem_iff, List.mem_range]
  have hc : s.counter = n := by
    have h1 : ¬ (s.counter < n) := by
      intro h
      have := hI.pend s.counter
      rw [hN] at this
      have hh : s.counter ∈ arr.reverse ∧ s.counter ≤ s.counter := ⟨(hmem _).2 h, Nat.le_refl _⟩
      simp [hh] at this
    have h2 : s.counter ≤ n := by
      cases hcz : s.counter with
      | zero => omega
      | succ m =>
        have := (hmem m).1 (hI.below m (by omega)); omega
    omega
  rw [hI.out_eq, hc]


end Gofasta.Model.Reorder
