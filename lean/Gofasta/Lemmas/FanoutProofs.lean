import Gofasta.Model.Fanout
/-
Every-schedule theorems about the fan-out half of `closest` (Model/Fanout.lean).
-/
namespace Gofasta.Lemmas.Fanout
open Gofasta.Model.Fanout
open Gofasta.Model.Sched (Chan)

variable {τ ρ : Type}

/-! ### small facts about lists and the fold -/

theorem foldAcc_append (acc : Nat → Option ρ → τ → ρ) (i : Nat) (b : Option ρ) (l1 l2 : List τ) :
    foldAcc acc i b (l1 ++ l2) = foldAcc acc i (foldAcc acc i b l1) l2 := by
  induction l1 generalizing b with
  | nil => rfl
  | cons t ts ih => simp only [List.cons_append, foldAcc]; exact ih _

theorem foldAcc_snoc (acc : Nat → Option ρ → τ → ρ) (i : Nat) (b : Option ρ) (l : List τ) (t : τ) :
    foldAcc acc i b (l ++ [t]) = some (acc i (foldAcc acc i b l) t) := by
  rw [foldAcc_append]; rfl

theorem take_succ_of_get {T : List τ} {k : Nat} {t : τ} (h : T[k]? = some t) :
    T.take (k + 1) = T.take k ++ [t] := by
  rw [List.take_add_one, h]; rfl

theorem drop_cons_inv {T : List τ} {k : Nat} {t : τ} {rest : List τ} (h : T.drop k = t :: rest) :
    T[k]? = some t ∧ T.drop (k + 1) = rest := by
  induction T generalizing k with
  | nil => simp at h
  | cons a as ih =>
    cases k with
    | zero => simp at h; simp [h.1, h.2]
    | succ k => simp at h; simpa using ih h

theorem drop_of_get {T : List τ} {k : Nat} {t : τ} (h : T[k]? = some t) :
    T.drop k = t :: T.drop (k + 1) := by
  induction T generalizing k with
  | nil => simp at h
  | cons a as ih =>
    cases k with
    | zero => simp at h; simp [h]
    | succ k => simp at h; simpa using ih h

/-! ### counting the queries that have delivered -/

def isExited : QPc ρ → Bool
  | .exited => true
  | _ => false

def ex (p : QPc ρ) : Nat := if isExited p then 1 else 0

def exitedCount : List (QPc ρ) → Nat
  | [] => 0
  | p :: ps => ex p + exitedCount ps

theorem exitedCount_set {l : List (QPc ρ)} {i : Nat} {p q : QPc ρ} (h : l[i]? = some p) :
    exitedCount (l.set i q) + ex p = exitedCount l + ex q := by
  induction l generalizing i with
  | nil => simp at h
  | cons a as ih =>
    cases i with
    | zero => simp at h; subst h; simp [exitedCount]; omega
    | succ i => simp at h; have := ih h; simp [exitedCount]; omega

theorem exitedCount_le (l : List (QPc ρ)) : exitedCount l ≤ l.length := by
  induction l with
  | nil => simp [exitedCount]
  | cons a as ih => simp [exitedCount, ex]; split <;> omega

theorem exitedCount_lt {l : List (QPc ρ)} {i : Nat} {p : QPc ρ} (h : l[i]? = some p)
    (hp : isExited p = false) : exitedCount l < l.length := by
  induction l generalizing i with
  | nil => simp at h
  | cons a as ih =>
    cases i with
    | zero =>
      simp at h; subst h
      have := exitedCount_le as
      simp [exitedCount, ex, hp]; omega
    | succ i =>
      simp at h; have := ih h
      simp [exitedCount, ex]; split <;> omega

theorem all_exited_of_count {l : List (QPc ρ)} (h : exitedCount l = l.length) {i : Nat} {p : QPc ρ}
    (hi : l[i]? = some p) : p = .exited := by
  cases p with
  | exited => rfl
  | recv b => have := exitedCount_lt hi rfl; omega
  | sendRes b => have := exitedCount_lt hi rfl; omega

theorem exists_not_exited {l : List (QPc ρ)} (h : exitedCount l < l.length) :
    ∃ (i : Nat) (p : QPc ρ), l[i]? = some p ∧ isExited p = false := by
  induction l with
  | nil => simp at h
  | cons a as ih =>
    cases ha : isExited a with
    | false => exact ⟨0, a, by simp, ha⟩
    | true =>
      have : exitedCount as < as.length := by
        simp [exitedCount, ex, ha] at h; omega
      obtain ⟨i, p, h1, h2⟩ := ih this
      exact ⟨i + 1, p, by simpa using h1, h2⟩

theorem exitedCount_replicate (n : Nat) (b : Option ρ) : exitedCount (List.replicate n (QPc.recv b)) = 0 := by
  induction n with
  | zero => rfl
  | succ n ih => simp [List.replicate_succ, exitedCount, ex, isExited, ih]

/-! ### the invariant -/

/-- how many targets the reader has sent -/
def rpos (cfg : Cfg τ ρ) : RPc → Nat
  | .sending j => j
  | _ => cfg.targets.length

/-- how many targets query i has been handed, read off the splitter's program counter -/
def expH (taken : Nat) : SPc τ → Nat → Nat
  | .sending _ j, i => if i < j then taken else taken - 1
  | _, _ => taken

/-- whether QChan[i] is closed, read off the splitter's program counter -/
def expC : SPc τ → Nat → Bool
  | .closing j, i => decide (i < j)
  | .doneS, _ => true
  | .exited, _ => true
  | _, _ => false

/-- the splitter has left its `range cIn` loop -/
def sDone : SPc τ → Bool
  | .closing _ => true
  | .doneS => true
  | .exited => true
  | _ => false

def SOk (cfg : Cfg τ ρ) (taken : Nat) : SPc τ → Prop
  | .sending t j => j < cfg.nQ ∧ 1 ≤ taken ∧ cfg.targets[taken - 1]? = some t
  | .closing j => j < cfg.nQ
  | _ => True

def QOk (cfg : Cfg τ ρ) (i taken : Nat) (sp : SPc τ) (r : Option (Option (Option ρ))) : QPc ρ → Prop
  | .recv b => b = foldAcc cfg.acc i none (cfg.targets.take (expH taken sp i)) ∧ r = some none
  | .sendRes b => b = expected cfg i ∧ expC sp i = true ∧ r = some none
  | .exited => r = some (some (expected cfg i)) ∧ sp = .exited

def after2 : MPc → Bool
  | .collecting _ => true
  | .ret => true
  | _ => false

/-- how many results main has received -/
def mcount (cfg : Cfg τ ρ) : MPc → Nat
  | .collecting k => k
  | .ret => cfg.nQ
  | _ => 0

structure Inv (cfg : Cfg τ ρ) (s : State τ ρ) : Prop where
  np : s.panicked = false
  lq : s.queries.length = cfg.nQ
  lr : s.results.length = cfg.nQ
  cap : s.cIn.queue.length ≤ cfg.cap
  rj : ∀ j, s.reader = .sending j → j < cfg.targets.length
  tk : s.taken + s.cIn.queue.length = rpos cfg s.reader
  dr : cfg.targets.drop s.taken = s.cIn.queue ++ cfg.targets.drop (rpos cfg s.reader)
  cl : s.cIn.closed = true ↔ s.reader = .exited
  m1 : s.main = .stage1 ↔ s.reader ≠ .exited
  m2 : after2 s.main = true ↔ s.splitter = .exited
  mkk : ∀ k, s.main = .collecting k → k < cfg.nQ
  cnt : exitedCount s.queries = mcount cfg s.main
  sd : sDone s.splitter = true → s.taken = cfg.targets.length ∧ s.reader = .exited
  so : SOk cfg s.taken s.splitter
  hh : ∀ i, i < cfg.nQ → s.handed[i]? = some (expH s.taken s.splitter i)
  hc : ∀ i, i < cfg.nQ → s.qClosed[i]? = some (expC s.splitter i)
  hq : ∀ i, i < cfg.nQ → ∃ p, s.queries[i]? = some p ∧ QOk cfg i s.taken s.splitter s.results[i]? p

theorem rnext_facts (cfg : Cfg τ ρ) (j : Nat) (hj : j ≤ cfg.targets.length) :
    (∀ k, rnext cfg j = .sending k → k < cfg.targets.length) ∧ rnext cfg j ≠ .exited ∧
      rpos cfg (rnext cfg j) = j := by
  unfold rnext
  by_cases h : j < cfg.targets.length
  · simp only [h, if_true]
    refine ⟨?_, ?_, rfl⟩
    · intro k hk; cases hk; exact h
    · intro hk; cases hk
  · simp only [h, if_false]
    refine ⟨?_, ?_, ?_⟩
    · intro k hk; cases hk
    · intro hk; cases hk
    · simp [rpos]; omega

theorem inv_init (cfg : Cfg τ ρ) : Inv cfg (init cfg) := by
  obtain ⟨r1, r2, r3⟩ := rnext_facts cfg 0 (Nat.zero_le _)
  refine ⟨rfl, ?_, ?_, ?_, r1, ?_, ?_, ?_, ?_, ?_, ?_, ?_, ?_, trivial, ?_, ?_, ?_⟩
  · simp [init]
  · simp [init]
  · simp [init]
  · simp [init, r3]
  · simp [init, r3]
  · simp only [init]; constructor
    · intro h; cases h
    · intro h; exact absurd h r2
  · simp only [init]; constructor
    · intro _; exact r2
    · intro _; trivial
  · simp [init, after2]
  · intro k h; simp [init] at h
  · simp [init, exitedCount_replicate, mcount]
  · intro h; simp [init, sDone] at h
  · intro i hi; simp [init, expH, hi]
  · intro i hi; simp [init, expC, hi]
  · intro i hi
    refine ⟨.recv none, by simp [init, hi], ?_⟩
    simp [QOk, init, expH, foldAcc, hi]

/-! ### how the read-off values move with the splitter -/

theorem snext_ne_exited (cfg : Cfg τ ρ) (t : τ) (k : Nat) : snext cfg t k ≠ .exited := by
  unfold snext; split <;> (intro h; cases h)

theorem sDone_snext (cfg : Cfg τ ρ) (t : τ) (k : Nat) : sDone (snext cfg t k) = false := by
  unfold snext; split <;> rfl

theorem expC_snext (cfg : Cfg τ ρ) (t : τ) (k i : Nat) : expC (snext cfg t k) i = false := by
  unfold snext; split <;> rfl

theorem cnext_ne_exited (cfg : Cfg τ ρ) (k : Nat) : cnext cfg k ≠ .exited := by
  unfold cnext; split <;> (intro h; cases h)

theorem sDone_cnext (cfg : Cfg τ ρ) (k : Nat) : sDone (cnext cfg k) = true := by
  unfold cnext; split <;> rfl

theorem expH_cnext (cfg : Cfg τ ρ) (taken k i : Nat) : expH taken (cnext cfg k) i = taken := by
  unfold cnext; split <;> rfl

theorem expC_cnext (cfg : Cfg τ ρ) {k i : Nat} (hi : i < cfg.nQ) :
    expC (cnext cfg k) i = decide (i < k) := by
  unfold cnext
  by_cases h : k < cfg.nQ
  · simp only [h, if_true, expC]
  · simp only [h, if_false, expC]; symm; simp; omega

theorem SOk_cnext (cfg : Cfg τ ρ) (taken k : Nat) : SOk cfg taken (cnext cfg k) := by
  unfold cnext
  by_cases h : k < cfg.nQ
  · simp only [h, if_true]; exact h
  · simp only [h, if_false]; trivial

theorem expH_snext0 (cfg : Cfg τ ρ) (t : τ) {taken i : Nat} (hi : i < cfg.nQ) :
    expH (taken + 1) (snext cfg t 0) i = taken := by
  have : 0 < cfg.nQ := by omega
  simp [snext, this, expH]

theorem expH_after_send_self (cfg : Cfg τ ρ) (t : τ) (taken j : Nat) :
    expH taken (snext cfg t (j + 1)) j = taken := by
  unfold snext
  by_cases h : j + 1 < cfg.nQ
  · simp [h, expH]
  · simp [h, expH]

theorem expH_after_send_other (cfg : Cfg τ ρ) (t : τ) (taken : Nat) {i j : Nat} (hi : i < cfg.nQ) (hne : i ≠ j) :
    expH taken (snext cfg t (j + 1)) i = expH taken (.sending t j) i := by
  unfold snext
  by_cases h : j + 1 < cfg.nQ
  · simp only [h, if_true, expH]
    by_cases h1 : i < j
    · have h2 : i < j + 1 := by omega
      simp [h1, h2]
    · have h2 : ¬ i < j + 1 := by omega
      simp [h1, h2]
  · simp only [h, if_false, expH]
    have h1 : i < j := by omega
    simp [h1]

theorem expC_true {sp : SPc τ} {i : Nat} (h : expC sp i = true) (taken : Nat) :
    sDone sp = true ∧ expH taken sp i = taken := by
  cases sp <;> simp [expC] at h <;> simp [sDone, expH]

theorem QOk_mono {cfg : Cfg τ ρ} {i taken taken' : Nat} {sp sp' : SPc τ} {r : Option (Option (Option ρ))}
    {p : QPc ρ} (hH : expH taken' sp' i = expH taken sp i) (hC : expC sp i = true → expC sp' i = true)
    (hE : sp = .exited → sp' = .exited) (h : QOk cfg i taken sp r p) : QOk cfg i taken' sp' r p := by
  cases p with
  | recv b => simp only [QOk] at h ⊢; rw [hH]; exact h
  | sendRes b => simp only [QOk] at h ⊢; exact ⟨h.1, hC h.2.1, h.2.2⟩
  | exited => simp only [QOk] at h ⊢; exact ⟨h.1, hE h.2⟩

theorem idx_lt {cfg : Cfg τ ρ} {s : State τ ρ} (h : Inv cfg s) {i : Nat} {p : QPc ρ}
    (hi : s.queries[i]? = some p) : i < cfg.nQ := by
  have := (List.getElem?_eq_some_iff.mp hi).1
  rw [h.lq] at this; exact this

theorem m2_of_ne {cfg : Cfg τ ρ} {s : State τ ρ} (h : Inv cfg s) {sp' : SPc τ}
    (hsp : s.splitter ≠ .exited) (hsp' : sp' ≠ .exited) : after2 s.main = true ↔ sp' = .exited :=
  ⟨fun e => absurd (h.m2.mp e) hsp, fun e => absurd e hsp'⟩

/-! ### preservation, one lemma per label -/

theorem inv_readerSend {cfg : Cfg τ ρ} {s s' : State τ ρ} (h : Inv cfg s)
    (hs : stepReaderSend cfg s = some s') : Inv cfg s' := by
  unfold stepReaderSend at hs
  split at hs
  · rename_i j hr hc
    have := h.cl.mp hc; rw [hr] at this; cases this
  · rename_i j hr hc
    split at hs
    · rename_i x hx
      split at hs
      · rename_i hcap
        cases hs
        have hj := h.rj j hr
        obtain ⟨r1, r2, r3⟩ := rnext_facts cfg (j + 1) hj
        have htk := h.tk
        have hdr := h.dr
        rw [hr] at htk hdr
        simp only [rpos] at htk hdr
        exact { h with
          cap := by simp; omega
          rj := r1
          tk := by simp [r3]; omega
          dr := by
            simp only [r3]
            rw [hdr, drop_of_get hx]; simp
          cl := ⟨fun e => by simp [hc] at e, fun e => absurd e r2⟩
          m1 := ⟨fun _ => r2, fun _ => h.m1.mpr (by rw [hr]; intro e; cases e)⟩
          sd := fun e => by have := (h.sd e).2; rw [hr] at this; cases this }
      · cases hs
    · cases hs
  · cases hs

theorem inv_splitRecv {cfg : Cfg τ ρ} {s s' : State τ ρ} (h : Inv cfg s)
    (hs : stepSplitRecv cfg s = some s') : Inv cfg s' := by
  unfold stepSplitRecv at hs
  split at hs
  · rename_i t rest hsp hq
    cases hs
    have htk := h.tk
    have hdr := h.dr
    rw [hq] at htk hdr
    obtain ⟨d1, d2⟩ := drop_cons_inv hdr
    exact { h with
      cap := by have := h.cap; rw [hq] at this; simp at this ⊢; omega
      tk := by simp at htk ⊢; omega
      dr := d2
      m2 := m2_of_ne h (by rw [hsp]; intro e; cases e) (snext_ne_exited cfg t 0)
      sd := fun e => by simp [sDone_snext] at e
      so := by
        show SOk cfg (s.taken + 1) (snext cfg t 0)
        unfold snext
        by_cases h0 : 0 < cfg.nQ
        · simp only [h0, if_true]; exact ⟨h0, by omega, by simpa using d1⟩
        · simp only [h0, if_false]; trivial
      hh := fun i hi => by
        have := h.hh i hi
        rw [hsp] at this
        simp only [expH] at this
        show s.handed[i]? = some (expH (s.taken + 1) (snext cfg t 0) i)
        rw [expH_snext0 cfg t hi]; exact this
      hc := fun i hi => by
        have := h.hc i hi
        rw [hsp] at this
        show s.qClosed[i]? = some (expC (snext cfg t 0) i)
        rw [expC_snext]; exact this
      hq := fun i hi => by
        obtain ⟨p, hp, hok⟩ := h.hq i hi
        refine ⟨p, hp, ?_⟩
        rw [hsp] at hok
        refine QOk_mono ?_ ?_ ?_ hok
        · rw [expH_snext0 cfg t hi]; rfl
        · intro e; simp [expC] at e
        · intro e; cases e }
  · cases hs

theorem inv_handIn {cfg : Cfg τ ρ} {s s' : State τ ρ} (h : Inv cfg s)
    (hs : stepHandIn cfg s = some s') : Inv cfg s' := by
  unfold stepHandIn at hs
  split at hs
  · rename_i j hr hsp hc hcap
    split at hs
    · rename_i x hx
      cases hs
      have hj := h.rj j hr
      obtain ⟨r1, r2, r3⟩ := rnext_facts cfg (j + 1) hj
      have hq0 : s.cIn.queue = [] := by
        have := h.cap; rw [hcap] at this
        exact List.eq_nil_of_length_eq_zero (by omega)
      have htk := h.tk
      have hdr := h.dr
      rw [hr, hq0] at htk hdr
      simp only [rpos, List.length_nil, Nat.add_zero] at htk
      simp only [rpos, List.nil_append] at hdr
      have hx' : cfg.targets[s.taken]? = some x := by rw [htk]; exact hx
      exact { h with
        rj := r1
        tk := by simp [r3, hq0]; omega
        dr := by
          simp only [r3, hq0, List.nil_append]; rw [htk]
        cl := ⟨fun e => by simp [hc] at e, fun e => absurd e r2⟩
        m1 := ⟨fun _ => r2, fun _ => h.m1.mpr (by rw [hr]; intro e; cases e)⟩
        m2 := m2_of_ne h (by rw [hsp]; intro e; cases e) (snext_ne_exited cfg x 0)
        sd := fun e => by simp [sDone_snext] at e
        so := by
          show SOk cfg (s.taken + 1) (snext cfg x 0)
          unfold snext
          by_cases h0 : 0 < cfg.nQ
          · simp only [h0, if_true]; exact ⟨h0, by omega, by simpa using hx'⟩
          · simp only [h0, if_false]; trivial
        hh := fun i hi => by
          have := h.hh i hi
          rw [hsp] at this
          simp only [expH] at this
          show s.handed[i]? = some (expH (s.taken + 1) (snext cfg x 0) i)
          rw [expH_snext0 cfg x hi]; exact this
        hc := fun i hi => by
          have := h.hc i hi
          rw [hsp] at this
          show s.qClosed[i]? = some (expC (snext cfg x 0) i)
          rw [expC_snext]; exact this
        hq := fun i hi => by
          obtain ⟨p, hp, hok⟩ := h.hq i hi
          refine ⟨p, hp, ?_⟩
          rw [hsp] at hok
          refine QOk_mono ?_ ?_ ?_ hok
          · rw [expH_snext0 cfg x hi]; rfl
          · intro e; simp [expC] at e
          · intro e; cases e }
    · cases hs
  · cases hs

theorem inv_splitClosed {cfg : Cfg τ ρ} {s s' : State τ ρ} (h : Inv cfg s)
    (hs : stepSplitClosed cfg s = some s') : Inv cfg s' := by
  unfold stepSplitClosed at hs
  split at hs
  · rename_i hsp hc hq
    cases hs
    have hre := h.cl.mp hc
    have htk := h.tk
    rw [hre, hq] at htk
    simp only [rpos, List.length_nil, Nat.add_zero] at htk
    exact { h with
      m2 := m2_of_ne h (by rw [hsp]; intro e; cases e) (cnext_ne_exited cfg 0)
      sd := fun _ => ⟨htk, hre⟩
      so := SOk_cnext cfg _ 0
      hh := fun i hi => by
        have := h.hh i hi
        rw [hsp] at this
        show s.handed[i]? = some (expH s.taken (cnext cfg 0) i)
        rw [expH_cnext]; exact this
      hc := fun i hi => by
        have := h.hc i hi
        rw [hsp] at this
        show s.qClosed[i]? = some (expC (cnext cfg 0) i)
        rw [expC_cnext cfg hi]; simpa [expC] using this
      hq := fun i hi => by
        obtain ⟨p, hp, hok⟩ := h.hq i hi
        refine ⟨p, hp, ?_⟩
        rw [hsp] at hok
        refine QOk_mono ?_ ?_ ?_ hok
        · rw [expH_cnext]; rfl
        · intro e; simp [expC] at e
        · intro e; cases e }
  · cases hs

theorem inv_splitSend {cfg : Cfg τ ρ} {s s' : State τ ρ} (h : Inv cfg s)
    (hs : stepSplitSend cfg s = some s') : Inv cfg s' := by
  unfold stepSplitSend at hs
  split at hs
  · rename_i t j hsp
    have hso := h.so
    rw [hsp] at hso
    obtain ⟨hj, htk1, hget⟩ := hso
    have hcj := h.hc j hj
    rw [hsp] at hcj
    simp only [expC] at hcj
    split at hs
    · rename_i hc; rw [hcj] at hc; cases hc
    · rename_i b _ hqj
      cases hs
      have hhj := h.hh j hj
      rw [hsp] at hhj
      simp only [expH, Nat.lt_irrefl, if_false] at hhj
      have hjl : j < s.handed.length := (List.getElem?_eq_some_iff.mp hhj).1
      have hjq : j < s.queries.length := (List.getElem?_eq_some_iff.mp hqj).1
      exact { h with
        lq := by simp [h.lq]
        m2 := m2_of_ne h (by rw [hsp]; intro e; cases e) (snext_ne_exited cfg t (j + 1))
        cnt := by
          have := exitedCount_set (q := QPc.recv (some (cfg.acc j b t))) hqj
          simp only [ex, isExited] at this
          show exitedCount (s.queries.set j _) = _
          rw [← h.cnt]; simpa using this
        sd := fun e => by simp [sDone_snext] at e
        so := by
          show SOk cfg s.taken (snext cfg t (j + 1))
          unfold snext
          by_cases h1 : j + 1 < cfg.nQ
          · simp only [h1, if_true]; exact ⟨h1, htk1, hget⟩
          · simp only [h1, if_false]; trivial
        hh := fun i hi => by
          show (s.handed.set j (s.handed.getD j 0 + 1))[i]? = some (expH s.taken (snext cfg t (j + 1)) i)
          by_cases hij : i = j
          · subst hij
            rw [expH_after_send_self]
            have e : s.handed.getD i 0 = s.taken - 1 := by simp [List.getD_eq_getElem?_getD, hhj]
            rw [e]; simp [hjl]; omega
          · rw [expH_after_send_other cfg t s.taken hi hij, List.getElem?_set_ne (Ne.symm hij)]
            have := h.hh i hi
            rw [hsp] at this; exact this
        hc := fun i hi => by
          have := h.hc i hi
          rw [hsp] at this
          show s.qClosed[i]? = some (expC (snext cfg t (j + 1)) i)
          rw [expC_snext]; exact this
        hq := fun i hi => by
          show ∃ p, (s.queries.set j _)[i]? = some p ∧ QOk cfg i s.taken (snext cfg t (j + 1)) s.results[i]? p
          by_cases hij : i = j
          · subst hij
            refine ⟨QPc.recv (some (cfg.acc i b t)), by simp [hjq], ?_⟩
            obtain ⟨p, hp, hok⟩ := h.hq i hi
            rw [hqj] at hp; cases hp
            rw [hsp] at hok
            simp only [QOk, expH, Nat.lt_irrefl, if_false] at hok
            simp only [QOk, expH_after_send_self]
            refine ⟨?_, hok.2⟩
            have e1 : s.taken = (s.taken - 1) + 1 := by omega
            have e2 : cfg.targets.take s.taken = cfg.targets.take (s.taken - 1) ++ [t] := by
              have := take_succ_of_get hget
              rw [← e1] at this; exact this
            rw [e2, foldAcc_snoc, ← hok.1]
          · obtain ⟨p, hp, hok⟩ := h.hq i hi
            refine ⟨p, by rw [List.getElem?_set_ne (Ne.symm hij)]; exact hp, ?_⟩
            rw [hsp] at hok
            refine QOk_mono ?_ ?_ ?_ hok
            · exact expH_after_send_other cfg t s.taken hi hij
            · intro e; simp [expC] at e
            · intro e; cases e }
    · cases hs
  · cases hs

theorem inv_splitClose {cfg : Cfg τ ρ} {s s' : State τ ρ} (h : Inv cfg s)
    (hs : stepSplitClose cfg s = some s') : Inv cfg s' := by
  unfold stepSplitClose at hs
  split at hs
  · rename_i j hsp
    have hj : j < cfg.nQ := by have := h.so; rw [hsp] at this; exact this
    have hcj := h.hc j hj
    rw [hsp] at hcj
    simp only [expC, Nat.lt_irrefl, decide_false] at hcj
    split at hs
    · rename_i hc; rw [hcj] at hc; cases hc
    · cases hs
      have hjl : j < s.qClosed.length := (List.getElem?_eq_some_iff.mp hcj).1
      exact { h with
        m2 := m2_of_ne h (by rw [hsp]; intro e; cases e) (cnext_ne_exited cfg (j + 1))
        sd := fun _ => h.sd (by rw [hsp]; rfl)
        so := SOk_cnext cfg _ _
        hh := fun i hi => by
          have := h.hh i hi
          rw [hsp] at this
          show s.handed[i]? = some (expH s.taken (cnext cfg (j + 1)) i)
          rw [expH_cnext]; exact this
        hc := fun i hi => by
          show (s.qClosed.set j true)[i]? = some (expC (cnext cfg (j + 1)) i)
          rw [expC_cnext cfg hi]
          by_cases hij : i = j
          · subst hij; simp [hjl]
          · rw [List.getElem?_set_ne (Ne.symm hij)]
            have := h.hc i hi
            rw [hsp] at this
            simp only [expC] at this
            rw [this]
            have : (i < j) ↔ (i < j + 1) := by omega
            simp [this]
        hq := fun i hi => by
          obtain ⟨p, hp, hok⟩ := h.hq i hi
          refine ⟨p, hp, ?_⟩
          rw [hsp] at hok
          refine QOk_mono ?_ ?_ ?_ hok
          · rw [expH_cnext]; rfl
          · intro e
            rw [expC_cnext cfg hi]
            simp only [expC, decide_eq_true_eq] at e ⊢; omega
          · intro e; cases e }
    · rename_i hc; rw [hcj] at hc; cases hc
  · cases hs

theorem inv_queryClosed {cfg : Cfg τ ρ} {s s' : State τ ρ} {i : Nat} (h : Inv cfg s)
    (hs : stepQueryClosed s i = some s') : Inv cfg s' := by
  unfold stepQueryClosed at hs
  split at hs
  · rename_i b hqi hci
    cases hs
    have hi := idx_lt h hqi
    have hjq : i < s.queries.length := (List.getElem?_eq_some_iff.mp hqi).1
    have hc := h.hc i hi
    rw [hci] at hc
    have hC : expC s.splitter i = true := (Option.some.inj hc).symm
    obtain ⟨hD, hH⟩ := expC_true hC s.taken
    exact { h with
      lq := by simp [h.lq]
      cnt := by
        have := exitedCount_set (q := QPc.sendRes b) hqi
        simp only [ex, isExited] at this
        show exitedCount (s.queries.set i _) = _
        rw [← h.cnt]; simpa using this
      hq := fun k hk => by
        show ∃ p, (s.queries.set i _)[k]? = some p ∧ QOk cfg k s.taken s.splitter s.results[k]? p
        by_cases hki : k = i
        · subst hki
          refine ⟨QPc.sendRes b, by simp [hjq], ?_⟩
          obtain ⟨p, hp, hok⟩ := h.hq k hk
          rw [hqi] at hp; cases hp
          simp only [QOk] at hok ⊢
          refine ⟨?_, hC, hok.2⟩
          rw [hok.1, hH, (h.sd hD).1, List.take_length]; rfl
        · obtain ⟨p, hp, hok⟩ := h.hq k hk
          exact ⟨p, by rw [List.getElem?_set_ne (Ne.symm hki)]; exact hp, hok⟩ }
  · cases hs

theorem mnext_facts (cfg : Cfg τ ρ) (k : Nat) (hk : k ≤ cfg.nQ) :
    mnext cfg k ≠ .stage1 ∧ after2 (mnext cfg k) = true ∧ (∀ k', mnext cfg k = .collecting k' → k' < cfg.nQ) ∧
      mcount cfg (mnext cfg k) = k := by
  unfold mnext
  by_cases h : k < cfg.nQ
  · simp only [h, if_true]
    refine ⟨(by intro e; cases e), rfl, ?_, rfl⟩
    intro k' e; cases e; exact h
  · simp only [h, if_false]
    refine ⟨(by intro e; cases e), rfl, ?_, ?_⟩
    · intro k' e; cases e
    · simp [mcount]; omega

theorem inv_handRes {cfg : Cfg τ ρ} {s s' : State τ ρ} {i : Nat} (h : Inv cfg s)
    (hs : stepHandRes cfg s i = some s') : Inv cfg s' := by
  unfold stepHandRes at hs
  split at hs
  · rename_i b k hqi hm
    cases hs
    have hi := idx_lt h hqi
    have hjq : i < s.queries.length := (List.getElem?_eq_some_iff.mp hqi).1
    have hk := h.mkk k hm
    obtain ⟨n1, n2, n3, n4⟩ := mnext_facts cfg (k + 1) hk
    have hre : s.reader = .exited := by
      apply Classical.byContradiction
      intro e; have := h.m1.mpr e; rw [hm] at this; cases this
    have hsp : s.splitter = .exited := h.m2.mp (by rw [hm]; rfl)
    obtain ⟨p, hp, hok⟩ := h.hq i hi
    rw [hqi] at hp; cases hp
    simp only [QOk] at hok
    have hir : i < s.results.length := by rw [h.lr]; exact hi
    exact { h with
      lq := by simp [h.lq]
      lr := by simp [h.lr]
      m1 := ⟨fun e => absurd e n1, fun e => absurd hre e⟩
      m2 := ⟨fun _ => hsp, fun _ => n2⟩
      mkk := n3
      cnt := by
        have := exitedCount_set (q := QPc.exited) hqi
        simp only [ex, isExited] at this
        show exitedCount (s.queries.set i _) = mcount cfg (mnext cfg (k + 1))
        rw [n4]
        have h2 := h.cnt
        rw [hm] at h2
        simp only [mcount] at h2
        simp at this; omega
      hq := fun j hj => by
        show ∃ p, (s.queries.set i _)[j]? = some p ∧
          QOk cfg j s.taken s.splitter (s.results.set i (some b))[j]? p
        by_cases hji : j = i
        · subst hji
          refine ⟨QPc.exited, by simp [hjq], ?_⟩
          simp only [QOk]
          exact ⟨by simp [hir, hok.1], hsp⟩
        · obtain ⟨p, hp, hok'⟩ := h.hq j hj
          refine ⟨p, by rw [List.getElem?_set_ne (Ne.symm hji)]; exact hp, ?_⟩
          rw [List.getElem?_set_ne (Ne.symm hji)]; exact hok' }
  · cases hs

theorem inv_mainReadDone {cfg : Cfg τ ρ} {s s' : State τ ρ} (h : Inv cfg s)
    (hs : stepMainReadDone s = some s') : Inv cfg s' := by
  unfold stepMainReadDone at hs
  split at hs
  · rename_i hm hr
    split at hs
    · rename_i hc
      have := h.cl.mp hc; rw [hr] at this; cases this
    · cases hs
      have hsp : s.splitter ≠ .exited := by
        intro e; have := h.m2.mpr e; rw [hm] at this; cases this
      have htk := h.tk
      have hdr := h.dr
      rw [hr] at htk hdr
      exact { h with
        rj := fun j e => by cases e
        tk := htk
        dr := hdr
        cl := ⟨fun _ => rfl, fun _ => rfl⟩
        m1 := ⟨(by intro e; cases e), fun e => absurd rfl e⟩
        m2 := ⟨(by intro e; cases e), fun e => absurd e hsp⟩
        mkk := fun k e => by cases e
        cnt := by have := h.cnt; rw [hm] at this; exact this
        sd := fun e => ⟨(h.sd e).1, rfl⟩ }
  · cases hs

theorem inv_mainSplitDone {cfg : Cfg τ ρ} {s s' : State τ ρ} (h : Inv cfg s)
    (hs : stepMainSplitDone cfg s = some s') : Inv cfg s' := by
  unfold stepMainSplitDone at hs
  split at hs
  · rename_i hm hsp
    cases hs
    obtain ⟨n1, n2, n3, n4⟩ := mnext_facts cfg 0 (Nat.zero_le _)
    have hre : s.reader = .exited := by
      apply Classical.byContradiction
      intro e; have := h.m1.mpr e; rw [hm] at this; cases this
    exact { h with
      m1 := ⟨fun e => absurd e n1, fun e => absurd hre e⟩
      m2 := ⟨fun _ => rfl, fun _ => n2⟩
      mkk := n3
      cnt := by
        show exitedCount s.queries = mcount cfg (mnext cfg 0)
        rw [n4, h.cnt, hm]; rfl
      sd := fun _ => h.sd (by rw [hsp]; rfl)
      so := trivial
      hh := fun i hi => by
        have := h.hh i hi
        rw [hsp] at this; exact this
      hc := fun i hi => by
        have := h.hc i hi
        rw [hsp] at this; exact this
      hq := fun i hi => by
        obtain ⟨p, hp, hok⟩ := h.hq i hi
        refine ⟨p, hp, ?_⟩
        rw [hsp] at hok
        show QOk cfg i s.taken SPc.exited s.results[i]? p
        exact QOk_mono (sp := SPc.doneS) (taken := s.taken) rfl (fun _ => rfl) (fun e => by cases e) hok }
  · cases hs

theorem inv_step {cfg : Cfg τ ρ} {s s' : State τ ρ} {l : Label} (h : Inv cfg s)
    (hs : step? cfg s l = some s') : Inv cfg s' := by
  unfold step? at hs
  split at hs
  · cases hs
  · cases l with
    | readerSend => exact inv_readerSend h hs
    | splitRecv => exact inv_splitRecv h hs
    | handIn => exact inv_handIn h hs
    | splitClosed => exact inv_splitClosed h hs
    | splitSend => exact inv_splitSend h hs
    | splitClose => exact inv_splitClose h hs
    | queryClosed i => exact inv_queryClosed h hs
    | handRes i => exact inv_handRes h hs
    | mainReadDone => exact inv_mainReadDone h hs
    | mainSplitDone => exact inv_mainSplitDone h hs

theorem reach_inv {cfg : Cfg τ ρ} {s : State τ ρ} (h : Reach cfg s) : Inv cfg s := by
  induction h with
  | init => exact inv_init cfg
  | step l _ hs ih => exact inv_step ih hs

/-! ### F1, F2 and the safety corollaries -/

theorem rpos_le {cfg : Cfg τ ρ} {s : State τ ρ} (h : Inv cfg s) : rpos cfg s.reader ≤ cfg.targets.length := by
  cases hr : s.reader with
  | sending j => have := h.rj j hr; simp [rpos]; omega
  | doneS => simp [rpos]
  | exited => simp [rpos]

theorem expH_le (taken : Nat) (sp : SPc τ) (i : Nat) : expH taken sp i ≤ taken := by
  cases sp <;> simp [expH]
  split <;> omega

/-- F1: whatever the schedule, what query i holds is the fold of `acc i` over a PREFIX of `targets`
    in file order; the length of the prefix is the number of targets the splitter has handed to i. -/
theorem fanout_in_order {cfg : Cfg τ ρ} {s : State τ ρ} (hr : Reach cfg s) {i : Nat} (hi : i < cfg.nQ) :
    ∃ k, s.handed[i]? = some k ∧ k ≤ s.taken ∧ s.taken ≤ cfg.targets.length ∧
      ∀ b, (s.queries[i]? = some (.recv b) ∨ s.queries[i]? = some (.sendRes b)) →
        b = foldAcc cfg.acc i none (cfg.targets.take k) := by
  have h := reach_inv hr
  refine ⟨_, h.hh i hi, expH_le _ _ _, ?_, ?_⟩
  · have := h.tk; have := rpos_le h; omega
  · intro b hb
    obtain ⟨p, hp, hok⟩ := h.hq i hi
    rcases hb with hb | hb
    · rw [hb] at hp; cases hp
      exact hok.1
    · rw [hb] at hp; cases hp
      simp only [QOk] at hok
      obtain ⟨hD, hH⟩ := expC_true hok.2.1 s.taken
      rw [hok.1, hH, (h.sd hD).1, List.take_length]; rfl

/-- the splitter hands every target to query 0 first: the prefixes differ by at most one target -/
theorem fanout_lockstep {cfg : Cfg τ ρ} {s : State τ ρ} (hr : Reach cfg s) {i j : Nat} (hij : i ≤ j)
    (hj : j < cfg.nQ) : ∃ a b, s.handed[i]? = some a ∧ s.handed[j]? = some b ∧ b ≤ a ∧ a ≤ b + 1 := by
  have h := reach_inv hr
  refine ⟨_, _, h.hh i (by omega), h.hh j hj, ?_, ?_⟩
  · cases s.splitter <;> simp [expH]
    split <;> split <;> omega
  · cases s.splitter <;> simp [expH]
    split <;> split <;> omega

/-- F2: when main has returned, slot i of the results holds the fold of `acc i` over ALL of `targets`
    in file order, for every i: the output does not depend on the schedule. -/
theorem fanout_result {cfg : Cfg τ ρ} {s : State τ ρ} (hr : Reach cfg s) (hm : s.main = .ret) :
    ∀ i, i < cfg.nQ → s.results[i]? = some (some (foldAcc cfg.acc i none cfg.targets)) := by
  intro i hi
  have h := reach_inv hr
  have hc := h.cnt
  rw [hm] at hc
  simp only [mcount] at hc
  rw [← h.lq] at hc
  obtain ⟨p, hp, hok⟩ := h.hq i hi
  have := all_exited_of_count hc hp
  subst this
  exact hok.1

/-- F2 as one equation -/
theorem fanout_result_eq {cfg : Cfg τ ρ} {s : State τ ρ} (hr : Reach cfg s) (hm : s.main = .ret) :
    s.results = (List.range cfg.nQ).map (fun i => some (expected cfg i)) := by
  have h := reach_inv hr
  apply List.ext_getElem?
  intro i
  by_cases hi : i < cfg.nQ
  · rw [fanout_result hr hm i hi]; simp [hi, expected]
  · have h1 : s.results.length ≤ i := by rw [h.lr]; omega
    have h2 : (List.range cfg.nQ)[i]? = none := List.getElem?_eq_none (by simp; omega)
    rw [List.getElem?_eq_none h1, List.getElem?_map, h2]; rfl

/-- a slot is filled only with the final answer, also before main returns -/
theorem fanout_slot {cfg : Cfg τ ρ} {s : State τ ρ} (hr : Reach cfg s) {i : Nat} {v : Option ρ}
    (hv : s.results[i]? = some (some v)) : v = expected cfg i := by
  have h := reach_inv hr
  have hi : i < cfg.nQ := by
    have := (List.getElem?_eq_some_iff.mp hv).1
    rw [h.lr] at this; exact this
  obtain ⟨p, hp, hok⟩ := h.hq i hi
  cases p with
  | recv b => have := hok.2; rw [hv] at this; cases this
  | sendRes b => have := hok.2.2; rw [hv] at this; cases this
  | exited => have := hok.1; rw [hv] at this; cases this; rfl

/-- no send on a closed channel, no double close -/
theorem no_panic {cfg : Cfg τ ρ} {s : State τ ρ} (hr : Reach cfg s) : s.panicked = false :=
  (reach_inv hr).np

theorem buffer_bounded {cfg : Cfg τ ρ} {s : State τ ρ} (hr : Reach cfg s) : s.cIn.queue.length ≤ cfg.cap :=
  (reach_inv hr).cap

/-! ### F4: the measure -/

theorem qsμ_set {l : List (QPc ρ)} {i : Nat} {p q : QPc ρ} (h : l[i]? = some p) :
    qsμ (l.set i q) + qμ p = qsμ l + qμ q := by
  induction l generalizing i with
  | nil => simp at h
  | cons a as ih =>
    cases i with
    | zero => simp at h; subst h; simp [qsμ]; omega
    | succ i => simp at h; have := ih h; simp [qsμ]; omega

theorem rμ_rnext (cfg : Cfg τ ρ) {j : Nat} (hj : j < cfg.targets.length) :
    rμ cfg (rnext cfg (j + 1)) + (cfg.nQ + 3) ≤ rμ cfg (.sending j) := by
  obtain ⟨d, hd⟩ : ∃ d, cfg.targets.length - j = d + 1 := ⟨cfg.targets.length - j - 1, by omega⟩
  unfold rnext
  by_cases h : j + 1 < cfg.targets.length
  · simp only [h, if_true, rμ]
    have : cfg.targets.length - (j + 1) = d := by omega
    rw [this, hd, Nat.mul_succ]; omega
  · simp only [h, if_false, rμ]
    rw [hd, Nat.mul_succ]; omega

theorem sμ_recv (cfg : Cfg τ ρ) : sμ cfg (.recv : SPc τ) = cfg.nQ + 4 := rfl
theorem sμ_sending (cfg : Cfg τ ρ) (t : τ) (i : Nat) : sμ cfg (.sending t i) = cfg.nQ + 5 + (cfg.nQ - i) := rfl
theorem sμ_closing (cfg : Cfg τ ρ) (i : Nat) : sμ cfg (.closing i : SPc τ) = 3 + (cfg.nQ - i) := rfl
theorem sμ_doneS (cfg : Cfg τ ρ) : sμ cfg (.doneS : SPc τ) = 1 := rfl
theorem sμ_exited (cfg : Cfg τ ρ) : sμ cfg (.exited : SPc τ) = 0 := rfl
theorem mμ_stage1 (cfg : Cfg τ ρ) : mμ cfg .stage1 = cfg.nQ + 3 := rfl
theorem mμ_stage2 (cfg : Cfg τ ρ) : mμ cfg .stage2 = cfg.nQ + 2 := rfl
theorem mμ_collecting (cfg : Cfg τ ρ) (k : Nat) : mμ cfg (.collecting k) = 1 + (cfg.nQ - k) := rfl
theorem rμ_doneS (cfg : Cfg τ ρ) : rμ cfg .doneS = 1 := rfl
theorem rμ_exited (cfg : Cfg τ ρ) : rμ cfg .exited = 0 := rfl

theorem sμ_snext (cfg : Cfg τ ρ) (t : τ) (k : Nat) : sμ cfg (snext cfg t k) ≤ cfg.nQ + 5 + (cfg.nQ - k) := by
  unfold snext; split <;> simp [sμ] <;> omega

theorem sμ_snext_succ (cfg : Cfg τ ρ) (t : τ) (k : Nat) : sμ cfg (snext cfg t (k + 1)) < cfg.nQ + 5 + (cfg.nQ - k) := by
  unfold snext; split <;> simp [sμ] <;> omega

theorem sμ_cnext (cfg : Cfg τ ρ) (k : Nat) : sμ cfg (cnext cfg k) ≤ 3 + cfg.nQ := by
  unfold cnext; split <;> simp [sμ] <;> omega

theorem sμ_cnext_succ (cfg : Cfg τ ρ) (k : Nat) : sμ cfg (cnext cfg (k + 1)) < 3 + (cfg.nQ - k) := by
  unfold cnext; split <;> simp [sμ] <;> omega

theorem mμ_mnext (cfg : Cfg τ ρ) (k : Nat) : mμ cfg (mnext cfg k) ≤ 1 + cfg.nQ := by
  unfold mnext; split <;> simp [mμ] <;> omega

theorem mμ_mnext_succ (cfg : Cfg τ ρ) (k : Nat) : mμ cfg (mnext cfg (k + 1)) < 1 + (cfg.nQ - k) := by
  unfold mnext; split <;> simp [mμ] <;> omega

/-- F4: every step decreases μ -/
theorem step_decreases {cfg : Cfg τ ρ} {s s' : State τ ρ} {l : Label}
    (hs : step? cfg s l = some s') : μ cfg s' < μ cfg s := by
  unfold step? at hs
  split at hs
  · cases hs
  · rename_i hnf
    have hp : s.panicked = false := by
      simp only [State.final, Bool.or_eq_true, not_or] at hnf
      simpa using hnf.1
    cases l with
    | readerSend =>
      simp only at hs
      unfold stepReaderSend at hs
      split at hs
      · cases hs; simp [μ, hp]
      · rename_i j hr hc
        split at hs
        · rename_i x hx
          split at hs
          · cases hs
            have hj : j < cfg.targets.length := (List.getElem?_eq_some_iff.mp hx).1
            have := rμ_rnext cfg hj
            simp only [μ, hr, List.length_append, List.length_singleton, Nat.mul_succ]
            omega
          · cases hs
        · cases hs
      · cases hs
    | splitRecv =>
      simp only at hs
      unfold stepSplitRecv at hs
      split at hs
      · rename_i t rest hsp hq
        cases hs
        have := sμ_snext cfg t 0
        simp only [μ, hsp, hq, sμ_recv, List.length_cons, Nat.mul_succ]
        omega
      · cases hs
    | handIn =>
      simp only at hs
      unfold stepHandIn at hs
      split at hs
      · rename_i j hr hsp hc hcap
        split at hs
        · rename_i x hx
          cases hs
          have hj : j < cfg.targets.length := (List.getElem?_eq_some_iff.mp hx).1
          have := rμ_rnext cfg hj
          have := sμ_snext cfg x 0
          simp only [μ, hr, hsp, sμ_recv]
          omega
        · cases hs
      · cases hs
    | splitClosed =>
      simp only at hs
      unfold stepSplitClosed at hs
      split at hs
      · rename_i hsp hc hq
        cases hs
        have := sμ_cnext cfg 0
        simp only [μ, hsp, sμ_recv]
        omega
      · cases hs
    | splitSend =>
      simp only at hs
      unfold stepSplitSend at hs
      split at hs
      · rename_i t i hsp
        split at hs
        · cases hs; simp [μ, hp]
        · rename_i b _ hqi
          cases hs
          have := sμ_snext_succ cfg t i
          have := qsμ_set (q := QPc.recv (some (cfg.acc i b t))) hqi
          simp only [qμ] at this
          simp only [μ, hsp, sμ_sending]
          omega
        · cases hs
      · cases hs
    | splitClose =>
      simp only at hs
      unfold stepSplitClose at hs
      split at hs
      · rename_i i hsp
        split at hs
        · cases hs; simp [μ, hp]
        · cases hs
          have := sμ_cnext_succ cfg i
          simp only [μ, hsp, sμ_closing]
          omega
        · cases hs
      · cases hs
    | queryClosed i =>
      simp only at hs
      unfold stepQueryClosed at hs
      split at hs
      · rename_i b hqi hci
        cases hs
        have := qsμ_set (q := QPc.sendRes b) hqi
        simp only [qμ] at this
        simp only [μ]
        omega
      · cases hs
    | handRes i =>
      simp only at hs
      unfold stepHandRes at hs
      split at hs
      · rename_i b k hqi hm
        cases hs
        have := qsμ_set (q := QPc.exited) hqi
        simp only [qμ] at this
        have := mμ_mnext_succ cfg k
        simp only [μ, hm, mμ_collecting]
        omega
      · cases hs
    | mainReadDone =>
      simp only at hs
      unfold stepMainReadDone at hs
      split at hs
      · rename_i hm hr
        split at hs
        · cases hs; simp [μ, hp]
        · cases hs
          simp only [μ, hm, hr, mμ_stage1, mμ_stage2, rμ_doneS, rμ_exited]
          omega
      · cases hs
    | mainSplitDone =>
      simp only at hs
      unfold stepMainSplitDone at hs
      split at hs
      · rename_i hm hsp
        cases hs
        have := mμ_mnext cfg 0
        simp only [μ, hm, hsp, mμ_stage2, sμ_doneS, sμ_exited]
        omega
      · cases hs

/-! ### F3: no reachable non-final state is stuck -/

/-- some label of the label universe is enabled -/
def Progress (cfg : Cfg τ ρ) (s : State τ ρ) : Prop :=
  ∃ l ∈ allLabels cfg.nQ, (step? cfg s l).isSome = true

theorem enabled_ne_nil_of_progress {cfg : Cfg τ ρ} {s : State τ ρ} (h : Progress cfg s) :
    enabled cfg s ≠ [] := by
  obtain ⟨l, hl, hs⟩ := h
  intro he
  have : l ∈ enabled cfg s := by
    unfold enabled enabledWith
    exact List.mem_filter.mpr ⟨hl, hs⟩
  rw [he] at this; cases this

theorem progress_of_enabled_ne_nil {cfg : Cfg τ ρ} {s : State τ ρ} (h : enabled cfg s ≠ []) :
    Progress cfg s := by
  cases he : enabled cfg s with
  | nil => exact absurd he h
  | cons l t =>
    have : l ∈ enabled cfg s := by rw [he]; simp
    unfold enabled enabledWith at this
    obtain ⟨h1, h2⟩ := List.mem_filter.mp this
    exact ⟨l, h1, h2⟩

theorem mem_all_queryClosed {n i : Nat} (hi : i < n) : Label.queryClosed i ∈ allLabels n := by
  simp only [allLabels, List.mem_append, List.mem_flatMap, List.mem_range, queryLabels]
  right; exact ⟨i, hi, by simp⟩

theorem mem_all_handRes {n i : Nat} (hi : i < n) : Label.handRes i ∈ allLabels n := by
  simp only [allLabels, List.mem_append, List.mem_flatMap, List.mem_range, queryLabels]
  right; exact ⟨i, hi, by simp⟩

theorem splitSend_enabled {cfg : Cfg τ ρ} {s : State τ ρ} (h : Inv cfg s) {t : τ} {i : Nat}
    (hsp : s.splitter = .sending t i) : (stepSplitSend cfg s).isSome = true := by
  have hso := h.so
  rw [hsp] at hso
  have hi := hso.1
  have hc := h.hc i hi
  rw [hsp] at hc
  simp only [expC] at hc
  obtain ⟨p, hp, hok⟩ := h.hq i hi
  rw [hsp] at hok
  cases p with
  | recv b => simp [stepSplitSend, hsp, hc, hp]
  | sendRes b => have := hok.2.1; simp [expC] at this
  | exited => have := hok.2; cases this

theorem splitClose_enabled {cfg : Cfg τ ρ} {s : State τ ρ} (h : Inv cfg s) {i : Nat}
    (hsp : s.splitter = .closing i) : (stepSplitClose cfg s).isSome = true := by
  have hso := h.so
  rw [hsp] at hso
  have hc := h.hc i hso
  rw [hsp] at hc
  simp only [expC, Nat.lt_irrefl, decide_false] at hc
  simp [stepSplitClose, hsp, hc]

theorem no_deadlock' {cfg : Cfg τ ρ} {s : State τ ρ} (h : Inv cfg s) (hnf : s.final = false) :
    Progress cfg s := by
  have hstep : ∀ l, step? cfg s l = (match l with
      | .readerSend => stepReaderSend cfg s
      | .splitRecv => stepSplitRecv cfg s
      | .handIn => stepHandIn cfg s
      | .splitClosed => stepSplitClosed cfg s
      | .splitSend => stepSplitSend cfg s
      | .splitClose => stepSplitClose cfg s
      | .queryClosed i => stepQueryClosed s i
      | .handRes i => stepHandRes cfg s i
      | .mainReadDone => stepMainReadDone s
      | .mainSplitDone => stepMainSplitDone cfg s) := by
    intro l; simp only [step?, hnf]; cases l <;> rfl
  have fixed : ∀ l, l ∈ [Label.readerSend, .splitRecv, .handIn, .splitClosed, .splitSend, .splitClose,
      .mainReadDone, .mainSplitDone] → l ∈ allLabels cfg.nQ := by
    intro l hl; unfold allLabels; exact List.mem_append_left _ hl
  -- the splitter can move whenever it is in its inner loop or closing
  have hsend : ∀ t i, s.splitter = .sending t i → Progress cfg s := fun t i hsp =>
    ⟨.splitSend, fixed _ (by simp), by rw [hstep]; exact splitSend_enabled h hsp⟩
  have hclose : ∀ i, s.splitter = .closing i → Progress cfg s := fun i hsp =>
    ⟨.splitClose, fixed _ (by simp), by rw [hstep]; exact splitClose_enabled h hsp⟩
  cases hm : s.main with
  | stage1 =>
    have hre : s.reader ≠ .exited := h.m1.mp hm
    have hcl : s.cIn.closed = false := by
      cases hc : s.cIn.closed with
      | false => rfl
      | true => exact absurd (h.cl.mp hc) hre
    cases hr : s.reader with
    | exited => exact absurd hr hre
    | doneS =>
      exact ⟨.mainReadDone, fixed _ (by simp), by rw [hstep]; simp [stepMainReadDone, hm, hr, hcl]⟩
    | sending j =>
      have hj := h.rj j hr
      have hx : cfg.targets[j]? = some cfg.targets[j] := List.getElem?_eq_getElem hj
      cases hsp : s.splitter with
      | sending t i => exact hsend t i hsp
      | closing i => exact hclose i hsp
      | doneS => have := (h.sd (by rw [hsp]; rfl)).2; exact absurd this hre
      | exited => have := (h.sd (by rw [hsp]; rfl)).2; exact absurd this hre
      | recv =>
        by_cases hcap : cfg.cap = 0
        · exact ⟨.handIn, fixed _ (by simp), by rw [hstep]; simp [stepHandIn, hr, hsp, hcl, hcap, hx]⟩
        · by_cases hroom : s.cIn.queue.length < cfg.cap
          · exact ⟨.readerSend, fixed _ (by simp), by
              rw [hstep]; simp [stepReaderSend, hr, hcl, hx, hroom]⟩
          · cases hq : s.cIn.queue with
            | nil => rw [hq] at hroom; simp at hroom; omega
            | cons t rest =>
              exact ⟨.splitRecv, fixed _ (by simp), by rw [hstep]; simp [stepSplitRecv, hsp, hq]⟩
  | stage2 =>
    have hre : s.reader = .exited := by
      apply Classical.byContradiction
      intro e; have := h.m1.mpr e; rw [hm] at this; cases this
    have hcl : s.cIn.closed = true := h.cl.mpr hre
    cases hsp : s.splitter with
    | sending t i => exact hsend t i hsp
    | closing i => exact hclose i hsp
    | doneS =>
      exact ⟨.mainSplitDone, fixed _ (by simp), by rw [hstep]; simp [stepMainSplitDone, hm, hsp]⟩
    | exited => have := h.m2.mpr hsp; rw [hm] at this; cases this
    | recv =>
      cases hq : s.cIn.queue with
      | nil =>
        exact ⟨.splitClosed, fixed _ (by simp), by rw [hstep]; simp [stepSplitClosed, hsp, hcl, hq]⟩
      | cons t rest =>
        exact ⟨.splitRecv, fixed _ (by simp), by rw [hstep]; simp [stepSplitRecv, hsp, hq]⟩
  | collecting k =>
    have hk := h.mkk k hm
    have hsp : s.splitter = .exited := h.m2.mp (by rw [hm]; rfl)
    have hc := h.cnt
    rw [hm] at hc
    simp only [mcount] at hc
    have hlt : exitedCount s.queries < s.queries.length := by rw [hc, h.lq]; exact hk
    obtain ⟨i, p, hp, hne⟩ := exists_not_exited hlt
    have hi := idx_lt h hp
    have hci := h.hc i hi
    rw [hsp] at hci
    simp only [expC] at hci
    cases p with
    | exited => simp [isExited] at hne
    | recv b =>
      exact ⟨.queryClosed i, mem_all_queryClosed hi, by rw [hstep]; simp [stepQueryClosed, hp, hci]⟩
    | sendRes b =>
      exact ⟨.handRes i, mem_all_handRes hi, by rw [hstep]; simp [stepHandRes, hp, hm]⟩
  | ret => simp [State.final, hm] at hnf

/-- F3: every reachable state in which main has not returned has an enabled step (any nQ, any cap) -/
theorem fanout_no_deadlock {cfg : Cfg τ ρ} {s : State τ ρ} (hr : Reach cfg s) (hm : s.main ≠ .ret) :
    enabled cfg s ≠ [] := by
  have h := reach_inv hr
  apply enabled_ne_nil_of_progress
  apply no_deadlock' h
  simp only [State.final, h.np, Bool.false_or]
  cases hm' : s.main with
  | ret => exact absurd hm' hm
  | _ => rfl

/-! ### runs: every schedule is finite and every maximal run ends with main returned -/

/-- a finite run: the labels chosen by some scheduler, in order -/
inductive Steps (cfg : Cfg τ ρ) : State τ ρ → List Label → State τ ρ → Prop where
  | nil (s : State τ ρ) : Steps cfg s [] s
  | cons {s s1 s2 : State τ ρ} {l : Label} {ls : List Label} :
      step? cfg s l = some s1 → Steps cfg s1 ls s2 → Steps cfg s (l :: ls) s2

/-- F4: the measure μ strictly decreases along every step -/
theorem fanout_terminates {cfg : Cfg τ ρ} {s s' : State τ ρ} {l : Label}
    (hs : step? cfg s l = some s') : μ cfg s' < μ cfg s := step_decreases hs

/-- F4, for runs: a run from s has at most μ s steps -/
theorem run_length_le {cfg : Cfg τ ρ} {s s' : State τ ρ} {ls : List Label}
    (h : Steps cfg s ls s') : ls.length + μ cfg s' ≤ μ cfg s := by
  induction h with
  | nil s => simp
  | cons hs _ ih => have := step_decreases hs; simp; omega

theorem reach_steps {cfg : Cfg τ ρ} {s s' : State τ ρ} {ls : List Label}
    (hr : Reach cfg s) (h : Steps cfg s ls s') : Reach cfg s' := by
  induction h with
  | nil s => exact hr
  | cons hs _ ih => exact ih (Reach.step _ hr hs)

theorem steps_snoc {cfg : Cfg τ ρ} {s s1 s2 : State τ ρ} {ls : List Label} {l : Label}
    (h : Steps cfg s ls s1) (hs : step? cfg s1 l = some s2) : Steps cfg s (ls ++ [l]) s2 := by
  induction h with
  | nil s => exact Steps.cons hs (Steps.nil _)
  | cons hs' _ ih => exact Steps.cons hs' (ih hs)

theorem reach_iff_steps {cfg : Cfg τ ρ} {s : State τ ρ} :
    Reach cfg s ↔ ∃ ls, Steps cfg (init cfg) ls s := by
  constructor
  · intro h
    induction h with
    | init => exact ⟨[], Steps.nil _⟩
    | step l _ hs ih => obtain ⟨ls, h⟩ := ih; exact ⟨ls ++ [l], steps_snoc h hs⟩
  · rintro ⟨ls, h⟩; exact reach_steps Reach.init h

/-- the measure of the initial state: a bound on the length of every run -/
theorem μ_init (cfg : Cfg τ ρ) :
    μ cfg (init cfg) ≤ (cfg.nQ + 3) * cfg.targets.length + 4 * cfg.nQ + 9 := by
  have h1 : rμ cfg (rnext cfg 0) ≤ (cfg.nQ + 3) * cfg.targets.length + 1 := by
    unfold rnext; split <;> simp [rμ]
  have h2 : ∀ n, qsμ (List.replicate n (QPc.recv (none : Option ρ))) = 2 * n := by
    intro n
    induction n with
    | zero => rfl
    | succ n ih => simp [List.replicate_succ, qsμ, qμ, ih]; omega
  simp only [μ, init, h2, sμ_recv, mμ_stage1, List.length_nil, Nat.mul_zero]
  simp; omega

/-- a run that cannot be extended has main returned, with the schedule-independent results -/
theorem fanout_maximal_run {cfg : Cfg τ ρ} {s : State τ ρ} (hr : Reach cfg s) (hstuck : enabled cfg s = []) :
    s.main = .ret ∧ s.results = (List.range cfg.nQ).map (fun i => some (expected cfg i)) := by
  have hm : s.main = .ret := by
    apply Classical.byContradiction
    intro hcon
    exact fanout_no_deadlock hr hcon hstuck
  exact ⟨hm, fanout_result_eq hr hm⟩

/-! ### executing schedules -/

theorem runWith_reach {cfg : Cfg τ ρ} (sched : List Nat) {s : State τ ρ} (hr : Reach cfg s) :
    Reach cfg (runWith (step? cfg) (allLabels cfg.nQ) s sched) := by
  induction sched generalizing s with
  | nil => exact hr
  | cons k ks ih =>
    simp only [runWith]
    split
    · exact hr
    · rename_i l _
      split
      · rename_i s' hs; exact ih (Reach.step l hr hs)
      · exact hr

theorem runSchedule_reach (cfg : Cfg τ ρ) (sched : List Nat) : Reach cfg (runSchedule cfg sched) :=
  runWith_reach sched Reach.init

theorem runWith_returned {cfg : Cfg τ ρ} (sched : List Nat) {s : State τ ρ}
    (hm : s.main = .ret) : runWith (step? cfg) (allLabels cfg.nQ) s sched = s := by
  cases sched with
  | nil => rfl
  | cons k ks =>
    have : enabledWith (step? cfg) (allLabels cfg.nQ) s = [] := by
      unfold enabledWith
      apply List.filter_eq_nil_iff.mpr
      intro l _
      simp [step?, State.final, hm]
    simp [runWith, this]

/-- every schedule of length at least μ(s) runs the program to the point where main has returned -/
theorem runWith_returns {cfg : Cfg τ ρ} (sched : List Nat) {s : State τ ρ}
    (hr : Reach cfg s) (hlen : μ cfg s ≤ sched.length) :
    (runWith (step? cfg) (allLabels cfg.nQ) s sched).main = .ret := by
  induction sched generalizing s with
  | nil =>
    apply Classical.byContradiction
    intro hcon
    have hne := fanout_no_deadlock hr hcon
    obtain ⟨l, _, hl⟩ := progress_of_enabled_ne_nil hne
    obtain ⟨s', hs'⟩ := Option.isSome_iff_exists.mp hl
    have := step_decreases hs'
    simp at hlen; omega
  | cons k ks ih =>
    by_cases hret : s.main = .ret
    · rw [runWith_returned _ hret]; exact hret
    · have hne := fanout_no_deadlock hr hret
      have hpos : 0 < (enabled cfg s).length := List.length_pos_iff.mpr hne
      have hlt : k % (enabled cfg s).length < (enabled cfg s).length := Nat.mod_lt _ hpos
      have hget : (enabledWith (step? cfg) (allLabels cfg.nQ) s)[k % (enabledWith (step? cfg) (allLabels cfg.nQ) s).length]? =
          some ((enabled cfg s)[k % (enabled cfg s).length]) := List.getElem?_eq_getElem hlt
      have hmem : (enabled cfg s)[k % (enabled cfg s).length] ∈ enabled cfg s := List.getElem_mem hlt
      generalize (enabled cfg s)[k % (enabled cfg s).length] = l at hget hmem
      have hl : (step? cfg s l).isSome = true := by
        unfold enabled enabledWith at hmem
        exact (List.mem_filter.mp hmem).2
      obtain ⟨s', hs'⟩ := Option.isSome_iff_exists.mp hl
      have hdec := step_decreases hs'
      simp only [runWith, hget, hs']
      apply ih (Reach.step l hr hs')
      simp at hlen; omega

/-- every schedule that is long enough returns, with the same results -/
theorem runSchedule_returns {cfg : Cfg τ ρ} (sched : List Nat)
    (hlen : (cfg.nQ + 3) * cfg.targets.length + 4 * cfg.nQ + 9 ≤ sched.length) :
    (runSchedule cfg sched).main = .ret ∧
    (runSchedule cfg sched).results = (List.range cfg.nQ).map (fun i => some (expected cfg i)) := by
  have hm : (runSchedule cfg sched).main = .ret :=
    runWith_returns sched Reach.init (Nat.le_trans (μ_init cfg) hlen)
  exact ⟨hm, fanout_result_eq (runSchedule_reach cfg sched) hm⟩

/-! ### F5: the statements are not vacuous -/

namespace Demo

/-- an accumulator that keeps the first arrival (every target ties with every other) -/
def keepFirst : Nat → Option Nat → Nat → Nat
  | _, none, t => t
  | _, some b, _ => b

/-- two targets, one query -/
def two (cap : Nat) : Cfg Nat Nat := ⟨[10, 20], 1, cap, keepFirst⟩

/-- the faithful program on `two`: target 10 wins, as the theorem says for every schedule -/
theorem faithful_two (cap : Nat) (sched : List Nat) (h : (runSchedule (two cap) sched).main = .ret) :
    (runSchedule (two cap) sched).results = [some (some 10)] :=
  fanout_result_eq (runSchedule_reach _ sched) h

/-- F5: with TWO forwarders ranging over cIn the answer depends on the schedule.
    Schedule A: forwarder 1 takes both targets, one after the other. -/
theorem stepTwoForwarders_scheduleA :
    (runLabels (stepTwoForwarders (two 1)) (init2 (two 1))
      [.first .readerSend, .first .splitRecv, .first .splitSend,
       .first .readerSend, .first .splitRecv, .first .splitSend,
       .first .mainReadDone, .second .splitClosed, .first .splitClosed, .first .splitClose,
       .first .mainSplitDone, .first (.queryClosed 0), .first (.handRes 0)]).map
      (fun sp => (sp.1.results, sp.1.main, sp.1.panicked)) = some ([some (some 10)], .ret, false) := by
  decide

/-- Schedule B: forwarder 1 takes target 10, forwarder 2 takes target 20 and reaches the query first. -/
theorem stepTwoForwarders_scheduleB :
    (runLabels (stepTwoForwarders (two 1)) (init2 (two 1))
      [.first .readerSend, .first .splitRecv, .first .readerSend, .second .splitRecv,
       .second .splitSend, .first .splitSend,
       .first .mainReadDone, .second .splitClosed, .first .splitClosed, .first .splitClose,
       .first .mainSplitDone, .first (.queryClosed 0), .first (.handRes 0)]).map
      (fun sp => (sp.1.results, sp.1.main, sp.1.panicked)) = some ([some (some 20)], .ret, false) := by
  decide

/-- the same with an unbuffered cIn -/
theorem stepTwoForwarders_scheduleB0 :
    (runLabels (stepTwoForwarders (two 0)) (init2 (two 0))
      [.first .handIn, .second .handIn, .second .splitSend, .first .splitSend,
       .first .mainReadDone, .second .splitClosed, .first .splitClosed, .first .splitClose,
       .first .mainSplitDone, .first (.queryClosed 0), .first (.handRes 0)]).map
      (fun sp => (sp.1.results, sp.1.main, sp.1.panicked)) = some ([some (some 20)], .ret, false) := by
  decide

/-- the same two schedules through the numeric scheduler -/
theorem stepTwoForwarders_differ :
    (runWith (stepTwoForwarders (two 1)) (allLabels2 1) (init2 (two 1)) (List.replicate 13 0)).1.results
      = [some (some 10)] ∧
    (runWith (stepTwoForwarders (two 1)) (allLabels2 1) (init2 (two 1)) [0, 0, 0, 2, 2, 0, 0, 1, 0, 0, 0, 0, 0]).1.results
      = [some (some 20)] := by
  decide

/-- F5 in one statement: two schedules of the two-forwarder variant, both ending with main returned
    and no panic, with different results -/
theorem stepTwoForwarders_schedule_dependent :
    ∃ la lb sa sb, runLabels (stepTwoForwarders (two 1)) (init2 (two 1)) la = some sa ∧
      runLabels (stepTwoForwarders (two 1)) (init2 (two 1)) lb = some sb ∧
      sa.1.main = .ret ∧ sb.1.main = .ret ∧ sa.1.panicked = false ∧ sb.1.panicked = false ∧
      sa.1.results ≠ sb.1.results := by
  obtain ⟨sa, ha, ea⟩ := Option.map_eq_some_iff.mp stepTwoForwarders_scheduleA
  obtain ⟨sb, hb, eb⟩ := Option.map_eq_some_iff.mp stepTwoForwarders_scheduleB
  simp only [Prod.mk.injEq] at ea eb
  refine ⟨_, _, sa, sb, ha, hb, ea.2.1, eb.2.1, ea.2.2, eb.2.2, ?_⟩
  rw [ea.1, eb.1]; decide

/-- targets are (key, name); query q keeps the target whose key is nearest to q in the sense
    `(key + q) % 3` smallest, and the incumbent on a tie -/
def accMin : Nat → Option (Nat × Nat) → Nat × Nat → Nat × Nat
  | _, none, t => t
  | q, some b, t => if (t.1 + q) % 3 < (b.1 + q) % 3 then t else b

/-- three targets, two queries; query 0: target 0 wins outright; query 1: targets 1 and 2 tie and the
    earlier one in file order is kept -/
def three : Cfg (Nat × Nat) (Nat × Nat) := ⟨[(3, 0), (5, 1), (2, 2)], 2, 1, accMin⟩

/-- two different schedules (different interleavings, different order of collection), same results -/
example :
    traceWith (step? three) (allLabels 2) (init three) (List.replicate 21 0) ≠
      traceWith (step? three) (allLabels 2) (init three) ((List.range 21).map (fun k => k * 7 + 1)) ∧
    (runSchedule three (List.replicate 21 0)).main = .ret ∧
    (runSchedule three ((List.range 21).map (fun k => k * 7 + 1))).main = .ret ∧
    (runSchedule three (List.replicate 21 0)).results = [some (some (3, 0)), some (some (5, 1))] ∧
    (runSchedule three ((List.range 21).map (fun k => k * 7 + 1))).results
      = [some (some (3, 0)), some (some (5, 1))] := by
  decide

/-- and the general theorem says the same about every schedule of `three` -/
example (sched : List Nat) (h : (runSchedule three sched).main = .ret) :
    (runSchedule three sched).results = [some (some (3, 0)), some (some (5, 1))] :=
  fanout_result_eq (runSchedule_reach three sched) h

/-- every schedule of 32 or more choices runs `three` to completion -/
example (sched : List Nat) (h : 32 ≤ sched.length) : (runSchedule three sched).main = .ret :=
  (runSchedule_returns (cfg := three) sched (by simpa [three] using h)).1

end Demo

end Gofasta.Lemmas.Fanout
