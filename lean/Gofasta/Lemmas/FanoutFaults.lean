import Gofasta.Lemmas.SchedFaults
import Gofasta.Lemmas.FanoutCommands
/-
C19 ("a failed output write is never reported as success") for the FAN-OUT commands `closest` and
`updown topranking` (Model/Fanout: reader, splitter, one goroutine per query, main collecting into the results array).

In the Go code the output is written AFTER the fan-in: main (or a writer it waits for) walks the results array and
makes one write call for the header and one per result row, every call checked, the first error returned.

Modelling decisions
  * `Stage ρ` = the header (the string of the first write call) and `rows : results array -> List String` (the strings
    of the following calls, in order).  `Stage.calls` = header :: rows; `Stage.text` = what a destination that never
    fails holds afterwards; `Stage.W` = 1 + number of rows = the number of calls of the fault-free run.
  * the destination `Dest` and the `Sink` with its CHECKED call `Sink.put` are those of Lemmas/SchedFaults.
  * section 1-3 (outcome form): `writeOut d st results` = the sink after the stage ran on a results array;
    `cmdResult d st s` = `.running` while main of the fan-out has not returned, else `.error` / `.success` as the stage
    reports; `finalSink d st s` = what the destination holds (nothing while main has not returned).
    The theorems quantify over every `Reach cfg s` (every schedule, every intermediate state) exactly as
    `fanout_result_eq` does; `expResults cfg` is the schedule-independent results array of that theorem.
  * section 7 (small-step form): the fan-out model EXTENDED (not edited) by a program counter of the write stage, the
    sink and main's return value: `WStep` = a step of Model/Fanout (`step?`, unchanged) | one checked write call
    (enabled only when the fan-out's main has returned) | `return nil` after the last call.  `WReach` = every
    interleaving.  Here "nothing is written before the fan-in has completed" is a theorem about intermediate states.

Contents
  0.  `Stage`, `expResults`, `writeOut`, `Res`, `cmdResult`, `finalSink`
  1.  `fanout_fault_reported'`, `fanout_fault_reported`, `fanout_fault_maximal_run`, `fanout_fault_runSchedule`
  2.  `fanout_fault_beyond_run_harmless`, `fanout_no_spurious_error`, `fanout_ok_success`, `fanout_beyond_success`
  3.  `fanout_written_is_prefix`, `fanout_nothing_before_fanin`
  4.  closest (plain; -n, -d list and table), topranking (list and table): stages `closestStage`, `closestNStage`,
      `trStage`; `*_stage_text` (the stage's text on the schedule's results array is the sequential model's text),
      `*_fault_reported`, `*_fault_maximal_run`, `*_fault_beyond_run_harmless`, `*_written_is_prefix`, `*_W`
  5.  namespace `Unchecked`: a stage whose j-th call drops its error; `unchecked_loses` (by decide)
  6.  namespace `Examples` (by decide): two queries, faults at the header, the middle row, the last row, beyond
  7.  the small-step composition: `WState`, `WStep`, `WReach`, `WInv`, `wreach_inv`, `w_fault_reported`,
      `w_success_harmless`, `w_written_is_prefix`, `w_nothing_before_fanin`, `w_no_spurious_error`
-/
set_option autoImplicit false

namespace Gofasta.Lemmas.FanoutFaults
open Gofasta Gofasta.Model Gofasta.Driver
open Gofasta.Model.Fanout Gofasta.Lemmas.Fanout
open Gofasta.Lemmas.SchedFaults (Dest Sink SinkInv sinkInv_all sinkInv_empty sinkInv_put sink_fails sink_text_take)
open Gofasta.Lemmas.FanoutCommands

variable {τ ρ : Type}

/-! ## 0. the write stage after the fan-in -/

/-- the output stage of a fan-out command: main walks the results array after the collection loop -/
structure Stage (ρ : Type) where
  header : String                                      -- the string of the first write call
  rows : List (Option (Option ρ)) → List String        -- the strings of the following calls, one per row

/-- the write calls of the fault-free run, in order -/
def Stage.calls (st : Stage ρ) (res : List (Option (Option ρ))) : List String := st.header :: st.rows res

/-- what a destination that never fails holds afterwards -/
def Stage.text (st : Stage ρ) (res : List (Option (Option ρ))) : String := String.join (st.calls res)

/-- W: the number of write calls of the fault-free run -/
def Stage.W (st : Stage ρ) (res : List (Option (Option ρ))) : Nat := 1 + (st.rows res).length

theorem Stage.calls_length (st : Stage ρ) (res : List (Option (Option ρ))) : (st.calls res).length = st.W res := by
  simp [Stage.calls, Stage.W]; omega

theorem Stage.text_eq (st : Stage ρ) (res : List (Option (Option ρ))) :
    st.text res = st.header ++ String.join (st.rows res) := by
  simp [Stage.text, Stage.calls, String.join_cons]

/-- the results array of `fanout_result_eq`: slot i holds the fold of `acc i` over all targets in file order -/
def expResults (cfg : Cfg τ ρ) : List (Option (Option ρ)) := (List.range cfg.nQ).map fun i => some (expected cfg i)

/-- every schedule: when main has returned the results array is `expResults` -/
theorem results_every_schedule {cfg : Cfg τ ρ} {s : State τ ρ} (hr : Reach cfg s) (hm : s.main = .ret) :
    s.results = expResults cfg := fanout_result_eq hr hm

/-- the sink after the stage ran on a results array: every call checked, no call after a failed one -/
def writeOut (d : Dest) (st : Stage ρ) (res : List (Option (Option ρ))) : Sink :=
  Sink.putAll d Sink.empty (st.calls res)

theorem writeOut_inv (d : Dest) (st : Stage ρ) (res : List (Option (Option ρ))) :
    SinkInv d (writeOut d st res) (st.calls res) := sinkInv_all d _

/-- what the command has returned -/
inductive Res where
  | running      -- main of the fan-out has not finished the collection
  | error        -- a write call failed, its error was returned
  | success      -- `return nil`
  deriving DecidableEq, Repr

/-- the command's result in a state of the fan-out model -/
def cmdResult (d : Dest) (st : Stage ρ) (s : State τ ρ) : Res :=
  if s.main = .ret then (if (writeOut d st s.results).failed then .error else .success) else .running

/-- what the destination holds in a state of the fan-out model: nothing before main has collected every result -/
def finalSink (d : Dest) (st : Stage ρ) (s : State τ ρ) : Sink :=
  if s.main = .ret then writeOut d st s.results else Sink.empty

theorem cmdResult_ret {d : Dest} {st : Stage ρ} {cfg : Cfg τ ρ} {s : State τ ρ} (hr : Reach cfg s) (hm : s.main = .ret) :
    cmdResult d st s = (if (writeOut d st (expResults cfg)).failed then .error else .success) ∧
    finalSink d st s = writeOut d st (expResults cfg) := by
  simp only [cmdResult, finalSink, hm, if_true, results_every_schedule hr hm]
  exact ⟨trivial, trivial⟩

/-! ## 1. a fault at one of the W calls is reported -/

/-- **(1), general form**: the destination fails some call k, 1 ≤ k ≤ W: in no reachable state of any schedule is
the command's result success -/
theorem fanout_fault_reported' {cfg : Cfg τ ρ} {s : State τ ρ} (d : Dest) (st : Stage ρ) (k : Nat) (hk1 : 1 ≤ k)
    (hkW : k ≤ st.W (expResults cfg)) (hd : d.fails k = true) (hr : Reach cfg s) : cmdResult d st s ≠ .success := by
  by_cases hm : s.main = .ret
  · rw [(cmdResult_ret hr hm).1]
    have : (writeOut d st (expResults cfg)).failed = true :=
      sink_fails d _ k hk1 (by rw [Stage.calls_length]; exact hkW) hd
    simp [this]
  · simp [cmdResult, hm]

/-- **(1) fanout_fault_reported**: `failFrom k` or `failOnce k` with 1 ≤ k ≤ W: never success, on any schedule -/
theorem fanout_fault_reported {cfg : Cfg τ ρ} {s : State τ ρ} (d : Dest) (st : Stage ρ) (k : Nat)
    (hd : d = .failFrom k ∨ d = .failOnce k) (hk1 : 1 ≤ k) (hkW : k ≤ st.W (expResults cfg)) (hr : Reach cfg s) :
    cmdResult d st s ≠ .success :=
  fanout_fault_reported' d st k hk1 hkW (SchedFaults.Dest.fails_of_at hd) hr

/-- **(1) whole runs**: a run of the fan-out that cannot be extended has returned, and the command returns an error -/
theorem fanout_fault_maximal_run {cfg : Cfg τ ρ} {s : State τ ρ} (d : Dest) (st : Stage ρ) (k : Nat)
    (hd : d = .failFrom k ∨ d = .failOnce k) (hk1 : 1 ≤ k) (hkW : k ≤ st.W (expResults cfg)) (hr : Reach cfg s)
    (hstuck : enabled cfg s = []) : cmdResult d st s = .error := by
  have hm := (fanout_maximal_run hr hstuck).1
  have h1 := fanout_fault_reported d st k hd hk1 hkW hr
  simp only [cmdResult, hm, if_true] at h1 ⊢
  by_cases hf : (writeOut d st s.results).failed = true
  · simp [hf]
  · simp [hf] at h1

/-- **(1) executed schedules**: every schedule that is long enough ends in an error -/
theorem fanout_fault_runSchedule {cfg : Cfg τ ρ} (d : Dest) (st : Stage ρ) (k : Nat)
    (hd : d = .failFrom k ∨ d = .failOnce k) (hk1 : 1 ≤ k) (hkW : k ≤ st.W (expResults cfg)) (sched : List Nat)
    (hlen : (cfg.nQ + 3) * cfg.targets.length + 4 * cfg.nQ + 9 ≤ sched.length) :
    cmdResult d st (runSchedule cfg sched) = .error := by
  have hm := (runSchedule_returns (cfg := cfg) sched hlen).1
  have hr := runSchedule_reach cfg sched
  have h1 := fanout_fault_reported d st k hd hk1 hkW hr
  simp only [cmdResult, hm, if_true] at h1 ⊢
  by_cases hf : (writeOut d st (runSchedule cfg sched).results).failed = true
  · simp [hf]
  · simp [hf] at h1

/-! ## 2. success means the whole text was accepted; a fault beyond the run does no harm -/

/-- **(2) fanout_fault_beyond_run_harmless** (any destination): success, on any schedule, means that exactly the
schedule-independent text was accepted, in W calls none of which failed -/
theorem fanout_fault_beyond_run_harmless {cfg : Cfg τ ρ} {s : State τ ρ} (d : Dest) (st : Stage ρ) (hr : Reach cfg s)
    (hs : cmdResult d st s = .success) :
    s.main = .ret ∧ (finalSink d st s).text = st.text (expResults cfg) ∧
    (finalSink d st s).calls = st.W (expResults cfg) ∧ (finalSink d st s).failed = false ∧
    ∀ i, 1 ≤ i → i ≤ st.W (expResults cfg) → d.fails i = false := by
  by_cases hm : s.main = .ret
  · obtain ⟨h1, h2⟩ := cmdResult_ret (d := d) (st := st) hr hm
    rw [h1] at hs
    rw [h2]
    have hf : (writeOut d st (expResults cfg)).failed = false := by
      cases h : (writeOut d st (expResults cfg)).failed with
      | false => rfl
      | true => simp [h] at hs
    obtain ⟨a, b, c⟩ := (writeOut_inv d st (expResults cfg)).good hf
    rw [Stage.calls_length] at b c
    exact ⟨hm, a, b, hf, c⟩
  · simp [cmdResult, hm] at hs

/-- no call of the run fails: once main has returned, the result is success (no spurious error) -/
theorem fanout_no_spurious_error {cfg : Cfg τ ρ} {s : State τ ρ} (d : Dest) (st : Stage ρ) (hr : Reach cfg s)
    (hm : s.main = .ret) (hd : ∀ i, 1 ≤ i → i ≤ st.W (expResults cfg) → d.fails i = false) :
    cmdResult d st s = .success := by
  rw [(cmdResult_ret hr hm).1]
  cases hf : (writeOut d st (expResults cfg)).failed with
  | false => simp
  | true =>
    obtain ⟨h1, h2, h3, _, _⟩ := (writeOut_inv d st (expResults cfg)).bad hf
    rw [Stage.calls_length] at h2
    rw [hd _ h1 h2] at h3; cases h3

/-- (2) a destination that never fails: success with the whole text -/
theorem fanout_ok_success {cfg : Cfg τ ρ} {s : State τ ρ} (st : Stage ρ) (hr : Reach cfg s) (hm : s.main = .ret) :
    cmdResult .ok st s = .success ∧ (finalSink .ok st s).text = st.text (expResults cfg) := by
  have h := fanout_no_spurious_error .ok st hr hm (fun _ _ _ => rfl)
  exact ⟨h, (fanout_fault_beyond_run_harmless .ok st hr h).2.1⟩

/-- (2) a fault at a call k > W is never reached: success with the whole text -/
theorem fanout_beyond_success {cfg : Cfg τ ρ} {s : State τ ρ} (d : Dest) (st : Stage ρ) (k : Nat)
    (hd : d = .failFrom k ∨ d = .failOnce k) (hk : st.W (expResults cfg) < k) (hr : Reach cfg s) (hm : s.main = .ret) :
    cmdResult d st s = .success ∧ (finalSink d st s).text = st.text (expResults cfg) := by
  have h := fanout_no_spurious_error d st hr hm (by
    intro i _ hi
    rcases hd with rfl | rfl
    · exact SchedFaults.Dest.fails_failFrom_lt (by omega)
    · exact SchedFaults.Dest.fails_failOnce_ne (by omega))
  exact ⟨h, (fanout_fault_beyond_run_harmless d st hr h).2.1⟩

/-! ## 3. the accepted text is a prefix cut at a call boundary; nothing before the fan-in has completed -/

/-- **(3) fanout_written_is_prefix**: in every reachable state of every schedule, for every destination, the accepted
text is the schedule-independent call sequence cut at a call boundary -/
theorem fanout_written_is_prefix {cfg : Cfg τ ρ} {s : State τ ρ} (d : Dest) (st : Stage ρ) (hr : Reach cfg s) :
    ∃ j, j ≤ st.W (expResults cfg) ∧
      (finalSink d st s).text = String.join ((st.calls (expResults cfg)).take j) := by
  by_cases hm : s.main = .ret
  · rw [(cmdResult_ret (d := d) (st := st) hr hm).2]
    obtain ⟨j, hj, h⟩ := sink_text_take d (st.calls (expResults cfg))
    rw [Stage.calls_length] at hj
    exact ⟨j, hj, h⟩
  · exact ⟨0, by omega, by simp [finalSink, hm, Sink.empty, String.join]⟩

/-- (3) while main of the fan-out has not returned no call has been made (outcome form: by the definition of
`finalSink`; the small-step form `w_nothing_before_fanin` of section 7 is a theorem about intermediate states) -/
theorem fanout_nothing_before_fanin {s : State τ ρ} (d : Dest) (st : Stage ρ) (hm : s.main ≠ .ret) :
    finalSink d st s = Sink.empty ∧ cmdResult d st s = .running := by
  simp [finalSink, cmdResult, hm]

/-! ## 4. the commands -/

/-- some schedule returns: the all-zero schedule of sufficient length -/
theorem exists_returned (cfg : Cfg τ ρ) : ∃ s, Reach cfg s ∧ s.main = .ret := by
  let sched := List.replicate ((cfg.nQ + 3) * cfg.targets.length + 4 * cfg.nQ + 9) 0
  exact ⟨runSchedule cfg sched, runSchedule_reach cfg sched,
    (runSchedule_returns (cfg := cfg) sched (by simp [sched])).1⟩

/-! ### A. closest (plain) -/

section closestPlain

/-- the output stage of plain `closest`: the header line, then one line per query in query order -/
def closestStage (ci : ClosestIn) : Stage Hit where
  header := "query,closest,distance,SNPs" ++ "\n"
  rows := fun results => (ci.qs.zip results).map fun p => (plainRow ci p.1 (p.2.getD none)).render ++ "\n"

theorem closestStage_header (ci : ClosestIn) : (closestStage ci).header = "query,closest,distance,SNPs" ++ "\n" := rfl

theorem closestStage_rows (ci : ClosestIn) (results : List (Option (Option Hit))) :
    (closestStage ci).rows results =
      (ci.qs.zip results).map fun p => (plainRow ci p.1 (p.2.getD none)).render ++ "\n" := rfl

/-- the stage's text IS what main prints from the results array (`plainText` of FanoutCommands) -/
theorem closestStage_text (ci : ClosestIn) (results : List (Option (Option Hit))) :
    (closestStage ci).text results = plainText ci results := by
  rw [Stage.text_eq, closestStage_header, closestStage_rows]
  simp only [plainText, renderRows, List.map_map, Function.comp_def]

/-- the schedule-independent text of the stage is the sequential model's text -/
theorem closest_text_model (ci : ClosestIn) (cap : Nat) (hmode : ci.mode = "plain") :
    (closestStage ci).text (expResults (closestCfg ci cap)) = modelText ci := by
  obtain ⟨s, hr, hm⟩ := exists_returned (closestCfg ci cap)
  rw [← results_every_schedule hr hm, closestStage_text]
  exact closest_every_schedule ci cap hmode hr hm

/-- W = 1 + the number of queries -/
theorem closest_W (ci : ClosestIn) (cap : Nat) : (closestStage ci).W (expResults (closestCfg ci cap)) = 1 + ci.qs.length := by
  rw [Stage.W, closestStage_rows, List.length_map, List.length_zip, expResults, List.length_map, List.length_range]
  simp [closestCfg]

variable {s : State (Target × Nat) Hit}

/-- **closest (1)**: a fault at the header or at any query's row is reported, on every schedule -/
theorem closest_fault_reported (ci : ClosestIn) (cap : Nat) (d : Dest) (k : Nat)
    (hd : d = .failFrom k ∨ d = .failOnce k) (hk1 : 1 ≤ k) (hkW : k ≤ 1 + ci.qs.length)
    (hr : Reach (closestCfg ci cap) s) : cmdResult d (closestStage ci) s ≠ .success :=
  fanout_fault_reported d _ k hd hk1 (by rw [closest_W]; exact hkW) hr

theorem closest_fault_maximal_run (ci : ClosestIn) (cap : Nat) (d : Dest) (k : Nat)
    (hd : d = .failFrom k ∨ d = .failOnce k) (hk1 : 1 ≤ k) (hkW : k ≤ 1 + ci.qs.length)
    (hr : Reach (closestCfg ci cap) s) (hstuck : enabled (closestCfg ci cap) s = []) :
    cmdResult d (closestStage ci) s = .error :=
  fanout_fault_maximal_run d _ k hd hk1 (by rw [closest_W]; exact hkW) hr hstuck

/-- **closest (2)**: success means the sequential model's text was accepted, in 1 + nQ calls none of which failed -/
theorem closest_fault_beyond_run_harmless (ci : ClosestIn) (cap : Nat) (hmode : ci.mode = "plain") (d : Dest)
    (hr : Reach (closestCfg ci cap) s) (hs : cmdResult d (closestStage ci) s = .success) :
    (finalSink d (closestStage ci) s).text = modelText ci ∧
    (finalSink d (closestStage ci) s).calls = 1 + ci.qs.length ∧ (finalSink d (closestStage ci) s).failed = false ∧
    ∀ i, 1 ≤ i → i ≤ 1 + ci.qs.length → d.fails i = false := by
  obtain ⟨_, h1, h2, h3, h4⟩ := fanout_fault_beyond_run_harmless d _ hr hs
  rw [closest_text_model ci cap hmode] at h1
  rw [closest_W] at h2 h4
  exact ⟨h1, h2, h3, h4⟩

/-- closest (2): a fault beyond the run (or none) and a returned main: success -/
theorem closest_no_spurious_error (ci : ClosestIn) (cap : Nat) (d : Dest)
    (hr : Reach (closestCfg ci cap) s) (hm : s.main = .ret)
    (hd : ∀ i, 1 ≤ i → i ≤ 1 + ci.qs.length → d.fails i = false) : cmdResult d (closestStage ci) s = .success :=
  fanout_no_spurious_error d _ hr hm (by rw [closest_W]; exact hd)

/-- **closest (3)**: the accepted text is the model's text cut at a line boundary (header, then whole query rows) -/
theorem closest_written_is_prefix (ci : ClosestIn) (cap : Nat) (hmode : ci.mode = "plain") (d : Dest)
    (hr : Reach (closestCfg ci cap) s) :
    ∃ (cs : List String) (j : Nat), String.join cs = modelText ci ∧ cs.length = 1 + ci.qs.length ∧ j ≤ cs.length ∧
      (finalSink d (closestStage ci) s).text = String.join (cs.take j) := by
  obtain ⟨j, hj, h⟩ := fanout_written_is_prefix d (closestStage ci) hr
  refine ⟨(closestStage ci).calls (expResults (closestCfg ci cap)), j, closest_text_model ci cap hmode, ?_, ?_, h⟩
  · rw [Stage.calls_length, closest_W]
  · rw [Stage.calls_length]; exact hj

end closestPlain

/-! ### B. closest -n K, -d D (list form: one row per query; table form: one row per (query, neighbour)) -/

section closestN

def catchHeader (ci : ClosestIn) : String := if ci.mode = "table" then "query,target,distance" else "query,closest"

def catchRows (ci : ClosestIn) (results : List (Option (Option (List Hit)))) : List ERow :=
  if ci.mode = "table" then
    ((ci.qs.zip results).map fun p =>
      (catchment ci p.2).map fun h => ({ pre := [p.1.1, h.name], dist := some h.dist, post := [] } : ERow)).flatten
  else
    (ci.qs.zip results).map fun p =>
      ({ pre := [p.1.1, joinWith ";" ((catchment ci p.2).map (·.name))], dist := none, post := [] } : ERow)

def closestNStage (ci : ClosestIn) : Stage (List Hit) where
  header := catchHeader ci ++ "\n"
  rows := fun results => (catchRows ci results).map fun r => r.render ++ "\n"

theorem closestNStage_header (ci : ClosestIn) : (closestNStage ci).header = catchHeader ci ++ "\n" := rfl

theorem closestNStage_rows (ci : ClosestIn) (results : List (Option (Option (List Hit)))) :
    (closestNStage ci).rows results = (catchRows ci results).map fun r => r.render ++ "\n" := rfl

theorem catchText_eq (ci : ClosestIn) (results : List (Option (Option (List Hit)))) :
    catchText ci results = renderRows (catchHeader ci) (catchRows ci results) := by
  unfold catchText catchHeader catchRows
  by_cases h : ci.mode = "table"
  · simp only [h, if_true]
  · simp only [h, if_false]

theorem closestNStage_text (ci : ClosestIn) (results : List (Option (Option (List Hit)))) :
    (closestNStage ci).text results = catchText ci results := by
  rw [Stage.text_eq, closestNStage_header, closestNStage_rows, catchText_eq, renderRows]

theorem closestN_text_model (ci : ClosestIn) (cap : Nat) (hmode : ci.mode ≠ "plain") :
    (closestNStage ci).text (expResults (closestNCfg ci cap)) = modelText ci := by
  obtain ⟨s, hr, hm⟩ := exists_returned (closestNCfg ci cap)
  rw [← results_every_schedule hr hm, closestNStage_text]
  exact closestN_every_schedule ci cap hmode hr hm

/-- list form: W = 1 + the number of queries -/
theorem closestN_W_list (ci : ClosestIn) (cap : Nat) (hmode : ci.mode ≠ "table") :
    (closestNStage ci).W (expResults (closestNCfg ci cap)) = 1 + ci.qs.length := by
  rw [Stage.W, closestNStage_rows, List.length_map, catchRows, if_neg hmode, List.length_map, List.length_zip,
    expResults, List.length_map, List.length_range]
  simp [closestNCfg]

variable {s : State (Target × Nat) (List Hit)}

/-- **closest -n, -d (1)**, both forms: W = 1 + the number of rows of the schedule-independent results -/
theorem closestN_fault_reported (ci : ClosestIn) (cap : Nat) (d : Dest) (k : Nat)
    (hd : d = .failFrom k ∨ d = .failOnce k) (hk1 : 1 ≤ k)
    (hkW : k ≤ (closestNStage ci).W (expResults (closestNCfg ci cap)))
    (hr : Reach (closestNCfg ci cap) s) : cmdResult d (closestNStage ci) s ≠ .success :=
  fanout_fault_reported d _ k hd hk1 hkW hr

/-- (1), list form: 1 ≤ k ≤ 1 + nQ -/
theorem closestN_fault_reported_list (ci : ClosestIn) (cap : Nat) (hmode : ci.mode ≠ "table") (d : Dest) (k : Nat)
    (hd : d = .failFrom k ∨ d = .failOnce k) (hk1 : 1 ≤ k) (hkW : k ≤ 1 + ci.qs.length)
    (hr : Reach (closestNCfg ci cap) s) : cmdResult d (closestNStage ci) s ≠ .success :=
  fanout_fault_reported d _ k hd hk1 (by rw [closestN_W_list ci cap hmode]; exact hkW) hr

theorem closestN_fault_maximal_run (ci : ClosestIn) (cap : Nat) (d : Dest) (k : Nat)
    (hd : d = .failFrom k ∨ d = .failOnce k) (hk1 : 1 ≤ k)
    (hkW : k ≤ (closestNStage ci).W (expResults (closestNCfg ci cap)))
    (hr : Reach (closestNCfg ci cap) s) (hstuck : enabled (closestNCfg ci cap) s = []) :
    cmdResult d (closestNStage ci) s = .error :=
  fanout_fault_maximal_run d _ k hd hk1 hkW hr hstuck

/-- **closest -n, -d (2)** -/
theorem closestN_fault_beyond_run_harmless (ci : ClosestIn) (cap : Nat) (hmode : ci.mode ≠ "plain") (d : Dest)
    (hr : Reach (closestNCfg ci cap) s) (hs : cmdResult d (closestNStage ci) s = .success) :
    (finalSink d (closestNStage ci) s).text = modelText ci ∧
    (finalSink d (closestNStage ci) s).calls = (closestNStage ci).W (expResults (closestNCfg ci cap)) ∧
    (finalSink d (closestNStage ci) s).failed = false ∧
    ∀ i, 1 ≤ i → i ≤ (closestNStage ci).W (expResults (closestNCfg ci cap)) → d.fails i = false := by
  obtain ⟨_, h1, h2, h3, h4⟩ := fanout_fault_beyond_run_harmless d _ hr hs
  rw [closestN_text_model ci cap hmode] at h1
  exact ⟨h1, h2, h3, h4⟩

/-- **closest -n, -d (3)** -/
theorem closestN_written_is_prefix (ci : ClosestIn) (cap : Nat) (hmode : ci.mode ≠ "plain") (d : Dest)
    (hr : Reach (closestNCfg ci cap) s) :
    ∃ (cs : List String) (j : Nat), String.join cs = modelText ci ∧
      cs.length = (closestNStage ci).W (expResults (closestNCfg ci cap)) ∧ j ≤ cs.length ∧
      (finalSink d (closestNStage ci) s).text = String.join (cs.take j) := by
  obtain ⟨j, hj, h⟩ := fanout_written_is_prefix d (closestNStage ci) hr
  refine ⟨(closestNStage ci).calls (expResults (closestNCfg ci cap)), j, closestN_text_model ci cap hmode, ?_, ?_, h⟩
  · rw [Stage.calls_length]
  · rw [Stage.calls_length]; exact hj

end closestN

/-! ### C. updown topranking (list form: one row per query; table form: one row per (query, direction, neighbour)) -/

section topRanking

/-- what main has per query after the collection: the name and the four finished bins -/
def trRowsOf (ti : TRIn) (results : List (Option (Option (List TRBin)))) : List (String × List (List UDHit)) :=
  (ti.qs.zip results).map fun p => (p.1.1, trFinish ti.opts ((p.2.getD none).getD emptyBins))

def trHeader (ti : TRIn) : String :=
  if ti.table then "query,direction,distance,target\n" else "query,closestsame,closestup,closestdown,closestside\n"

/-- the strings of the write calls after the header: the lines of `trTableOutput` / `trListOutput` -/
def trLines (ti : TRIn) (rows : List (String × List (List UDHit))) : List String :=
  if ti.table then
    rows.flatMap fun (qn, bins) =>
      (bins.zip (List.range 4)).flatMap fun (b, d) => b.map fun h =>
        joinWith "," [qn, dirName d, toString h.dist, h.name] ++ "\n"
  else
    rows.map fun (qn, bins) =>
      qn ++ "," ++ joinWith "," (bins.map fun b => joinWith ";" (b.map (·.name))) ++ "\n"

def trStage (ti : TRIn) : Stage (List TRBin) where
  header := trHeader ti
  rows := fun results => trLines ti (trRowsOf ti results)

theorem trStage_header (ti : TRIn) : (trStage ti).header = trHeader ti := rfl

theorem trStage_rows (ti : TRIn) (results : List (Option (Option (List TRBin)))) :
    (trStage ti).rows results = trLines ti (trRowsOf ti results) := rfl

theorem trStage_text (ti : TRIn) (results : List (Option (Option (List TRBin)))) :
    (trStage ti).text results = trText ti results := by
  rw [Stage.text_eq, trStage_header, trStage_rows]
  unfold trText trHeader trLines trRowsOf
  by_cases h : ti.table = true
  · rw [if_pos h, if_pos h, if_pos h]
    unfold trTableOutput
    refine congrArg _ (congrArg String.join ?_)
    have hf : ∀ (f g : String × List (List UDHit) → List String) (l : List (String × List (List UDHit))),
        f = g → List.flatMap f l = List.flatMap g l := fun f g l h => by rw [h]
    apply hf
    funext x
    obtain ⟨qn, bins⟩ := x
    have hg : ∀ (f g : List UDHit × Nat → List String) (l : List (List UDHit × Nat)),
        f = g → List.flatMap f l = List.flatMap g l := fun f g l h => by rw [h]
    apply hg
    funext y
    obtain ⟨b, d⟩ := y
    rfl
  · rw [if_neg h, if_neg h, if_neg h]
    unfold trListOutput
    refine congrArg _ (congrArg String.join (List.map_congr_left ?_))
    intro x _
    obtain ⟨qn, bins⟩ := x
    rfl

theorem topranking_text_model (ti : TRIn) (cap : Nat) (a : List Nat × List Nat) (hargs : ti.args = some a) :
    (trStage ti).text (expResults (topRankingCfg ti cap)) = modelTR ti := by
  obtain ⟨s, hr, hm⟩ := exists_returned (topRankingCfg ti cap)
  rw [← results_every_schedule hr hm, trStage_text]
  exact topranking_every_schedule ti cap a hargs hr hm

/-- list form: W = 1 + the number of queries -/
theorem topranking_W_list (ti : TRIn) (cap : Nat) (htab : ti.table = false) :
    (trStage ti).W (expResults (topRankingCfg ti cap)) = 1 + ti.qs.length := by
  rw [Stage.W, trStage_rows, trLines, htab, if_neg (by simp), List.length_map, trRowsOf, List.length_map,
    List.length_zip, expResults, List.length_map, List.length_range]
  simp [topRankingCfg]

variable {s : State UDLine (List TRBin)}

/-- **topranking (1)**, both forms -/
theorem topranking_fault_reported (ti : TRIn) (cap : Nat) (d : Dest) (k : Nat)
    (hd : d = .failFrom k ∨ d = .failOnce k) (hk1 : 1 ≤ k)
    (hkW : k ≤ (trStage ti).W (expResults (topRankingCfg ti cap)))
    (hr : Reach (topRankingCfg ti cap) s) : cmdResult d (trStage ti) s ≠ .success :=
  fanout_fault_reported d _ k hd hk1 hkW hr

/-- (1), list form: 1 ≤ k ≤ 1 + nQ -/
theorem topranking_fault_reported_list (ti : TRIn) (cap : Nat) (htab : ti.table = false) (d : Dest) (k : Nat)
    (hd : d = .failFrom k ∨ d = .failOnce k) (hk1 : 1 ≤ k) (hkW : k ≤ 1 + ti.qs.length)
    (hr : Reach (topRankingCfg ti cap) s) : cmdResult d (trStage ti) s ≠ .success :=
  fanout_fault_reported d _ k hd hk1 (by rw [topranking_W_list ti cap htab]; exact hkW) hr

theorem topranking_fault_maximal_run (ti : TRIn) (cap : Nat) (d : Dest) (k : Nat)
    (hd : d = .failFrom k ∨ d = .failOnce k) (hk1 : 1 ≤ k)
    (hkW : k ≤ (trStage ti).W (expResults (topRankingCfg ti cap)))
    (hr : Reach (topRankingCfg ti cap) s) (hstuck : enabled (topRankingCfg ti cap) s = []) :
    cmdResult d (trStage ti) s = .error :=
  fanout_fault_maximal_run d _ k hd hk1 hkW hr hstuck

/-- **topranking (2)** -/
theorem topranking_fault_beyond_run_harmless (ti : TRIn) (cap : Nat) (a : List Nat × List Nat)
    (hargs : ti.args = some a) (d : Dest)
    (hr : Reach (topRankingCfg ti cap) s) (hs : cmdResult d (trStage ti) s = .success) :
    (finalSink d (trStage ti) s).text = modelTR ti ∧
    (finalSink d (trStage ti) s).calls = (trStage ti).W (expResults (topRankingCfg ti cap)) ∧
    (finalSink d (trStage ti) s).failed = false ∧
    ∀ i, 1 ≤ i → i ≤ (trStage ti).W (expResults (topRankingCfg ti cap)) → d.fails i = false := by
  obtain ⟨_, h1, h2, h3, h4⟩ := fanout_fault_beyond_run_harmless d _ hr hs
  rw [topranking_text_model ti cap a hargs] at h1
  exact ⟨h1, h2, h3, h4⟩

/-- **topranking (3)** -/
theorem topranking_written_is_prefix (ti : TRIn) (cap : Nat) (a : List Nat × List Nat) (hargs : ti.args = some a)
    (d : Dest) (hr : Reach (topRankingCfg ti cap) s) :
    ∃ (cs : List String) (j : Nat), String.join cs = modelTR ti ∧
      cs.length = (trStage ti).W (expResults (topRankingCfg ti cap)) ∧ j ≤ cs.length ∧
      (finalSink d (trStage ti) s).text = String.join (cs.take j) := by
  obtain ⟨j, hj, h⟩ := fanout_written_is_prefix d (trStage ti) hr
  refine ⟨(trStage ti).calls (expResults (topRankingCfg ti cap)), j, topranking_text_model ti cap a hargs, ?_, ?_, h⟩
  · rw [Stage.calls_length]
  · rw [Stage.calls_length]; exact hj

end topRanking

/-! ## 7. the small-step composition: the fan-out model, then the write stage, one call per step -/

section smallStep

/-- a state of the composed system: the state of Model/Fanout, the write stage's program counter (calls issued),
the sink, main's return value (`none`: running, `some true`: nil, `some false`: the write error) -/
structure WState (τ ρ : Type) where
  fan : State τ ρ
  pc : Nat
  sink : Sink
  ret : Option Bool

def winit (cfg : Cfg τ ρ) : WState τ ρ := ⟨init cfg, 0, Sink.empty, none⟩

def WState.withFan (w : WState τ ρ) (s' : State τ ρ) : WState τ ρ := ⟨s', w.pc, w.sink, w.ret⟩

/-- the state after one checked write call of the string c: the error is returned at once -/
def WState.afterWrite (d : Dest) (w : WState τ ρ) (c : String) : WState τ ρ :=
  ⟨w.fan, w.pc + 1, Sink.put d w.sink c, if (Sink.put d w.sink c).failed then some false else none⟩

def WState.afterDone (w : WState τ ρ) : WState τ ρ := ⟨w.fan, w.pc, w.sink, some true⟩

/-- one step: a step of the fan-out model (`step?`, unchanged: none once its main has returned); one write call of
the stage, enabled only after the fan-out's main has left the collection loop; `return nil` after the last call -/
inductive WStep (cfg : Cfg τ ρ) (d : Dest) (st : Stage ρ) : WState τ ρ → WState τ ρ → Prop where
  | fan {w : WState τ ρ} {s' : State τ ρ} (l : Label) : step? cfg w.fan l = some s' → WStep cfg d st w (w.withFan s')
  | write {w : WState τ ρ} {c : String} : w.fan.main = .ret → w.ret = none →
      (st.calls w.fan.results)[w.pc]? = some c → WStep cfg d st w (w.afterWrite d c)
  | done {w : WState τ ρ} : w.fan.main = .ret → w.ret = none → w.pc = (st.calls w.fan.results).length →
      WStep cfg d st w w.afterDone

/-- the states some interleaving can reach -/
inductive WReach (cfg : Cfg τ ρ) (d : Dest) (st : Stage ρ) : WState τ ρ → Prop where
  | init : WReach cfg d st (winit cfg)
  | step {w w' : WState τ ρ} : WReach cfg d st w → WStep cfg d st w w' → WReach cfg d st w'

theorem not_ret_of_step {cfg : Cfg τ ρ} {s s' : State τ ρ} {l : Label} (h : step? cfg s l = some s') :
    s.main ≠ .ret := by
  intro hm
  have : s.final = true := by simp [State.final, hm]
  simp [step?, this] at h

structure WInv (cfg : Cfg τ ρ) (d : Dest) (st : Stage ρ) (w : WState τ ρ) : Prop where
  reach : Reach cfg w.fan
  before : w.fan.main ≠ .ret → w.pc = 0 ∧ w.sink = Sink.empty ∧ w.ret = none
  pcle : w.pc ≤ (st.calls w.fan.results).length
  sink : w.sink = Sink.putAll d Sink.empty ((st.calls w.fan.results).take w.pc)
  running : w.ret = none → w.sink.failed = false
  err : w.ret = some false → w.sink.failed = true
  ok : w.ret = some true → w.sink.failed = false ∧ w.pc = (st.calls w.fan.results).length

theorem winv_init (cfg : Cfg τ ρ) (d : Dest) (st : Stage ρ) : WInv cfg d st (winit cfg) :=
  ⟨Reach.init, fun _ => ⟨rfl, rfl, rfl⟩, Nat.zero_le _, rfl, fun _ => rfl, fun h => (by cases h), fun h => (by cases h)⟩

theorem winv_step {cfg : Cfg τ ρ} {d : Dest} {st : Stage ρ} {w w' : WState τ ρ} (hi : WInv cfg d st w)
    (hs : WStep cfg d st w w') : WInv cfg d st w' := by
  cases hs with
  | fan l h =>
    obtain ⟨h1, h2, h3⟩ := hi.before (not_ret_of_step h)
    refine ⟨Reach.step l hi.reach h, fun _ => ⟨h1, h2, h3⟩, ?_, ?_, ?_, ?_, ?_⟩
    · show w.pc ≤ _; rw [h1]; exact Nat.zero_le _
    · show w.sink = Sink.putAll d Sink.empty (List.take w.pc _); rw [h1, h2]; rfl
    · intro _; show w.sink.failed = false; rw [h2]; rfl
    · intro hr; change w.ret = some false at hr; rw [h3] at hr; cases hr
    · intro hr; change w.ret = some true at hr; rw [h3] at hr; cases hr
  | write hm hr hc =>
    rename_i c
    have hlt : w.pc < (st.calls w.fan.results).length := (List.getElem?_eq_some_iff.mp hc).1
    have hsink : Sink.put d w.sink c = Sink.putAll d Sink.empty ((st.calls w.fan.results).take (w.pc + 1)) := by
      rw [List.take_add_one, hc, SchedFaults.Sink.putAll_append, ← hi.sink]
      rfl
    refine ⟨hi.reach, fun h => absurd hm h, hlt, hsink, ?_, ?_, ?_⟩
    · intro h
      change (if (Sink.put d w.sink c).failed then some false else none) = none at h
      cases hf : (Sink.put d w.sink c).failed with
      | false => exact hf
      | true => rw [hf] at h; simp at h
    · intro h
      change (if (Sink.put d w.sink c).failed then some false else none) = some false at h
      cases hf : (Sink.put d w.sink c).failed with
      | true => exact hf
      | false => rw [hf] at h; simp at h
    · intro h
      change (if (Sink.put d w.sink c).failed then some false else none) = some true at h
      cases hf : (Sink.put d w.sink c).failed <;> (rw [hf] at h; simp at h)
  | done hm hr hpc =>
    exact ⟨hi.reach, fun h => absurd hm h, hi.pcle, hi.sink, fun h => (by cases h), fun h => (by cases h),
      fun _ => ⟨hi.running hr, hpc⟩⟩

theorem wreach_inv {cfg : Cfg τ ρ} {d : Dest} {st : Stage ρ} {w : WState τ ρ} (hr : WReach cfg d st w) :
    WInv cfg d st w := by
  induction hr with
  | init => exact winv_init cfg d st
  | step _ hs ih => exact winv_step ih hs

variable {cfg : Cfg τ ρ} {d : Dest} {st : Stage ρ} {w : WState τ ρ}

/-- main of the composed system returns only after the fan-out's main has left the collection loop -/
theorem w_ret_after_fanin (hr : WReach cfg d st w) (h : w.ret ≠ none) : w.fan.main = .ret := by
  cases hm : decide (w.fan.main = .ret) with
  | true => exact of_decide_eq_true hm
  | false => exact absurd ((wreach_inv hr).before (of_decide_eq_false hm)).2.2 h

/-- **(3), intermediate states: nothing is written before the fan-in has completed** - in every reachable state of
every interleaving in which the fan-out's main is still before or in its collection loop, no write call has been made -/
theorem w_nothing_before_fanin (hr : WReach cfg d st w) (hm : w.fan.main ≠ .ret) :
    w.pc = 0 ∧ w.sink = Sink.empty ∧ w.ret = none := (wreach_inv hr).before hm

/-- `return nil` happens with the sink of the outcome form -/
theorem w_success_sink (hr : WReach cfg d st w) (h : w.ret = some true) :
    w.sink = writeOut d st (expResults cfg) ∧ cmdResult d st w.fan = .success := by
  have hi := wreach_inv hr
  have hm := w_ret_after_fanin hr (by rw [h]; simp)
  obtain ⟨hf, hpc⟩ := hi.ok h
  have hs : w.sink = writeOut d st (expResults cfg) := by
    rw [hi.sink, hpc, List.take_length, results_every_schedule hi.reach hm]; rfl
  refine ⟨hs, ?_⟩
  rw [(cmdResult_ret hi.reach hm).1, ← hs, hf]; rfl

/-- **(1), small-step form**: a fault at a call k, 1 ≤ k ≤ W: on no interleaving does main return nil -/
theorem w_fault_reported (k : Nat) (hd : d = .failFrom k ∨ d = .failOnce k) (hk1 : 1 ≤ k)
    (hkW : k ≤ st.W (expResults cfg)) (hr : WReach cfg d st w) : w.ret ≠ some true := by
  intro h
  exact fanout_fault_reported d st k hd hk1 hkW (wreach_inv hr).reach (w_success_sink hr h).2

/-- **(2), small-step form**: `return nil` means exactly the schedule-independent text was accepted, in W calls none
of which failed -/
theorem w_success_harmless (hr : WReach cfg d st w) (h : w.ret = some true) :
    w.sink.text = st.text (expResults cfg) ∧ w.sink.calls = st.W (expResults cfg) ∧ w.sink.failed = false ∧
    w.pc = st.W (expResults cfg) ∧ ∀ i, 1 ≤ i → i ≤ st.W (expResults cfg) → d.fails i = false := by
  have hi := wreach_inv hr
  have hm := w_ret_after_fanin hr (by rw [h]; simp)
  obtain ⟨hs, hc⟩ := w_success_sink hr h
  obtain ⟨_, h1, h2, h3, h4⟩ := fanout_fault_beyond_run_harmless d st hi.reach hc
  rw [(cmdResult_ret hi.reach hm).2, ← hs] at h1 h2 h3
  refine ⟨h1, h2, h3, ?_, h4⟩
  rw [(hi.ok h).2, results_every_schedule hi.reach hm, Stage.calls_length]

/-- a returned error is a real write failure: the call that failed is one the destination refuses -/
theorem w_error_is_write_failure (hr : WReach cfg d st w) (h : w.ret = some false) :
    w.sink.failed = true ∧ 1 ≤ w.sink.calls ∧ w.sink.calls ≤ st.W (expResults cfg) ∧ d.fails w.sink.calls = true := by
  have hi := wreach_inv hr
  have hm := w_ret_after_fanin hr (by rw [h]; simp)
  have hf := hi.err h
  have hinv := sinkInv_all d ((st.calls w.fan.results).take w.pc)
  rw [← hi.sink] at hinv
  obtain ⟨a, b, c, _, _⟩ := hinv.bad hf
  refine ⟨hf, a, ?_, c⟩
  rw [List.length_take, results_every_schedule hi.reach hm, Stage.calls_length] at b
  omega

/-- no call of the run fails: main never returns an error (no spurious error) -/
theorem w_no_spurious_error (hd : ∀ i, 1 ≤ i → i ≤ st.W (expResults cfg) → d.fails i = false)
    (hr : WReach cfg d st w) : w.ret ≠ some false := by
  intro h
  obtain ⟨_, a, b, c⟩ := w_error_is_write_failure hr h
  rw [hd _ a b] at c; cases c

/-- **(3), small-step form**: in every reachable state of every interleaving, for every destination, the accepted
text is the schedule-independent call sequence cut at a call boundary, no further than the calls issued -/
theorem w_written_is_prefix (hr : WReach cfg d st w) :
    ∃ j, j ≤ w.pc ∧ j ≤ st.W (expResults cfg) ∧ w.sink.text = String.join ((st.calls (expResults cfg)).take j) := by
  have hi := wreach_inv hr
  cases hm : decide (w.fan.main = .ret) with
  | false =>
    obtain ⟨_, h2, _⟩ := hi.before (of_decide_eq_false hm)
    exact ⟨0, Nat.zero_le _, Nat.zero_le _, by rw [h2]; simp [Sink.empty, String.join]⟩
  | true =>
    have hm := of_decide_eq_true hm
    have hres := results_every_schedule hi.reach hm
    obtain ⟨j, hj, h⟩ := sink_text_take d ((st.calls w.fan.results).take w.pc)
    rw [← hi.sink, List.take_take, hres] at h
    rw [List.length_take, hres, Stage.calls_length] at hj
    exact ⟨min j w.pc, Nat.min_le_right _ _, by omega, h⟩

/-- closest, small-step form: a fault at the header or any query's row: no interleaving returns nil -/
theorem closest_w_fault_reported (ci : ClosestIn) (cap : Nat) (d : Dest) (k : Nat)
    (hd : d = .failFrom k ∨ d = .failOnce k) (hk1 : 1 ≤ k) (hkW : k ≤ 1 + ci.qs.length)
    {w : WState (Target × Nat) Hit} (hr : WReach (closestCfg ci cap) d (closestStage ci) w) : w.ret ≠ some true :=
  w_fault_reported k hd hk1 (by rw [closest_W]; exact hkW) hr

/-- closest, small-step form: `return nil` means the sequential model's text was accepted -/
theorem closest_w_success_harmless (ci : ClosestIn) (cap : Nat) (hmode : ci.mode = "plain") (d : Dest)
    {w : WState (Target × Nat) Hit} (hr : WReach (closestCfg ci cap) d (closestStage ci) w) (h : w.ret = some true) :
    w.sink.text = modelText ci ∧ w.sink.calls = 1 + ci.qs.length ∧ w.sink.failed = false := by
  obtain ⟨h1, h2, h3, _, _⟩ := w_success_harmless hr h
  rw [closest_text_model ci cap hmode] at h1
  rw [closest_W] at h2
  exact ⟨h1, h2, h3⟩

/-- topranking, small-step form -/
theorem topranking_w_fault_reported (ti : TRIn) (cap : Nat) (d : Dest) (k : Nat)
    (hd : d = .failFrom k ∨ d = .failOnce k) (hk1 : 1 ≤ k)
    (hkW : k ≤ (trStage ti).W (expResults (topRankingCfg ti cap)))
    {w : WState UDLine (List TRBin)} (hr : WReach (topRankingCfg ti cap) d (trStage ti) w) : w.ret ≠ some true :=
  w_fault_reported k hd hk1 hkW hr

theorem topranking_w_success_harmless (ti : TRIn) (cap : Nat) (a : List Nat × List Nat) (hargs : ti.args = some a)
    (d : Dest) {w : WState UDLine (List TRBin)} (hr : WReach (topRankingCfg ti cap) d (trStage ti) w)
    (h : w.ret = some true) : w.sink.text = modelTR ti ∧ w.sink.failed = false := by
  obtain ⟨h1, _, h3, _, _⟩ := w_success_harmless hr h
  rw [topranking_text_model ti cap a hargs] at h1
  exact ⟨h1, h3⟩

end smallStep

/-! ## 5. an UNCHECKED call site -/

namespace Unchecked
open Gofasta.Lemmas.SchedFaults.Unchecked (putC putSites putSites_checked)

/-- the stage with call sites 0 (the header), 1, 2, ... (the rows); `sites j = false`: the error of call site j is
dropped (`w.Write(c)` with the result ignored: the call is made, fails, nothing reaches the destination, main goes on) -/
def writeOutU (d : Dest) (sites : Nat → Bool) (st : Stage ρ) (res : List (Option (Option ρ))) : Sink :=
  putSites d sites 0 Sink.empty (st.calls res)

def cmdResultU (d : Dest) (sites : Nat → Bool) (st : Stage ρ) (s : State τ ρ) : Res :=
  if s.main = .ret then (if (writeOutU d sites st s.results).failed then .error else .success) else .running

/-- every site checked: the stage of section 0 -/
theorem writeOutU_checked (d : Dest) (st : Stage ρ) (res : List (Option (Option ρ))) :
    writeOutU d (fun _ => true) st res = writeOut d st res := putSites_checked d _ 0 _

theorem cmdResultU_checked (d : Dest) (st : Stage ρ) (s : State τ ρ) :
    cmdResultU d (fun _ => true) st s = cmdResult d st s := by
  simp only [cmdResultU, cmdResult, writeOutU_checked]

end Unchecked

/-! ## 6. non-vacuity (by decide) -/

namespace Examples
open Gofasta.Lemmas.FanoutCommands.Examples

/-- plain closest, two queries, five targets (FanoutCommands.Examples): W = 3 calls -/
def ci0 : ClosestIn := exCi "plain" 0 none
def s1 : State (Target × Nat) Hit := runSchedule plainEx fsched1
def s2 : State (Target × Nat) Hit := runSchedule plainEx fsched2

/-- a fault at the header (call 1), transient: error on both schedules, nothing accepted -/
example :
    cmdResult (.failOnce 1) (closestStage ci0) s1 = .error ∧ cmdResult (.failOnce 1) (closestStage ci0) s2 = .error ∧
    (finalSink (.failOnce 1) (closestStage ci0) s1).text = "" ∧ (finalSink (.failOnce 1) (closestStage ci0) s2).text = "" := by
  decide

/-- a fault at the middle call (call 2, the row of q1): error, the header alone was accepted -/
example :
    cmdResult (.failFrom 2) (closestStage ci0) s1 = .error ∧ cmdResult (.failFrom 2) (closestStage ci0) s2 = .error ∧
    (finalSink (.failFrom 2) (closestStage ci0) s1).text = "query,closest,distance,SNPs\n" ∧
    (finalSink (.failFrom 2) (closestStage ci0) s2).text = "query,closest,distance,SNPs\n" := by
  decide

/-- a fault at the last call (call 3 = W, the row of q2), transient: error, header and the first row accepted -/
example :
    cmdResult (.failOnce 3) (closestStage ci0) s1 = .error ∧ cmdResult (.failOnce 3) (closestStage ci0) s2 = .error ∧
    (finalSink (.failOnce 3) (closestStage ci0) s1).text = "query,closest,distance,SNPs\nq1,t4,0,\n" ∧
    (finalSink (.failOnce 3) (closestStage ci0) s2).text = "query,closest,distance,SNPs\nq1,t4,0,\n" := by
  decide

/-- a fault beyond the run (call 4 > W) and no fault: success, the model's text, three calls -/
example :
    cmdResult (.failFrom 4) (closestStage ci0) s1 = .success ∧ cmdResult .ok (closestStage ci0) s2 = .success ∧
    (finalSink (.failFrom 4) (closestStage ci0) s1).text = modelText ci0 ∧
    (finalSink .ok (closestStage ci0) s2).text = "query,closest,distance,SNPs\nq1,t4,0,\nq2,t3,1,4TA\n" ∧
    (finalSink (.failFrom 4) (closestStage ci0) s1).calls = 3 := by
  decide

/-- before the fan-in has completed (a schedule cut short): running, nothing written -/
example :
    cmdResult (.failOnce 2) (closestStage ci0) (runSchedule plainEx (fsched1.take 20)) = .running ∧
    finalSink .ok (closestStage ci0) (runSchedule plainEx (fsched1.take 20)) = Sink.empty := by
  decide

/-- **(5) unchecked_loses**: the second call site (the first row) drops its error, the destination fails call 2 once:
the command returns SUCCESS although a write failed, and the row of q1 is missing from the output -/
theorem unchecked_loses :
    Unchecked.cmdResultU (.failOnce 2) (fun j => j != 1) (closestStage ci0) s1 = .success ∧
    Unchecked.cmdResultU (.failOnce 2) (fun j => j != 1) (closestStage ci0) s2 = .success ∧
    (Unchecked.writeOutU (.failOnce 2) (fun j => j != 1) (closestStage ci0) s1.results).text =
      "query,closest,distance,SNPs\nq2,t3,1,4TA\n" ∧
    (Unchecked.writeOutU (.failOnce 2) (fun j => j != 1) (closestStage ci0) s1.results).calls = 3 ∧
    (Dest.failOnce 2).fails 2 = true := by
  decide

/-- the same destination against the checked stage: an error -/
theorem checked_reports :
    cmdResult (.failOnce 2) (closestStage ci0) s1 = .error ∧ cmdResult (.failOnce 2) (closestStage ci0) s2 = .error := by
  decide

/-- and the general theorem says so about every schedule of this example, for each of the three calls -/
example (sched : List Nat) (k : Nat) (hk1 : 1 ≤ k) (hk : k ≤ 3) :
    cmdResult (.failOnce k) (closestStage ci0) (runSchedule plainEx sched) ≠ .success :=
  closest_fault_reported ci0 1 (.failOnce k) k (Or.inr rfl) hk1 (by simpa [ci0, exCi] using hk)
    (runSchedule_reach _ sched)

/-- `closest -n 2 --table`: W = 5 calls (header, two rows per query); a fault at the fourth -/
example :
    (closestNStage (exCi "table" 2 none)).W (expResults tableEx) = 5 ∧
    cmdResult (.failFrom 4) (closestNStage (exCi "table" 2 none)) (runSchedule tableEx fsched1) = .error ∧
    cmdResult (.failFrom 4) (closestNStage (exCi "table" 2 none)) (runSchedule tableEx fsched2) = .error ∧
    (finalSink (.failFrom 4) (closestNStage (exCi "table" 2 none)) (runSchedule tableEx fsched2)).text =
      "query,target,distance\nq1,t4,0\nq1,t5,0\n" ∧
    cmdResult (.failFrom 6) (closestNStage (exCi "table" 2 none)) (runSchedule tableEx fsched2) = .success := by
  decide

/-- `updown topranking` (list form), two queries: W = 3; a fault at the row of q1 and at the row of q2 -/
example :
    cmdResult (.failOnce 2) (trStage (exTi false 0)) (runSchedule trEx fsched3) = .error ∧
    cmdResult (.failOnce 3) (trStage (exTi false 0)) (runSchedule trEx fsched4) = .error ∧
    (finalSink (.failOnce 3) (trStage (exTi false 0)) (runSchedule trEx fsched4)).text =
      "query,closestsame,closestup,closestdown,closestside\nq1,t2,t1,t3,t7\n" ∧
    cmdResult (.failOnce 4) (trStage (exTi false 0)) (runSchedule trEx fsched4) = .success ∧
    (finalSink (.failOnce 4) (trStage (exTi false 0)) (runSchedule trEx fsched4)).text = modelTR (exTi false 0) := by
  decide

end Examples

end Gofasta.Lemmas.FanoutFaults
