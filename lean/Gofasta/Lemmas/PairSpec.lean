import Gofasta.Lemmas.PairSingle
/-
C02: the executable specification `specPair` (any number of records) has the properties the statement asks for:
the reference row de-gaps to the reference, both rows have the same length, the '-' columns of the reference row are
exactly the inserted bases, and deleting them from the query row gives the toMultiAlign --pad row.
-/
namespace Gofasta.Lemmas.PairSpec
open Gofasta Model Spec Gofasta.Props.C02 Gofasta.Lemmas

/-- the columns the specification places at reference position p -/
def colsAt (block : List SamRec) (ref : List Nat) (p : Nat) : List (Nat × Nat) :=
  (((block.flatMap fun r => insList r.seq r.cigar 0 r.pos).filter fun x => x.1 == p).flatMap fun x => x.2.map fun b => (dash, b)) ++
    (match ref[p]? with
     | some rb => [(rb, (flatCol block p).getD letN)]
     | none => [])

theorem specPair_eq (block : List SamRec) (ref : List Nat) :
    specPair block ref = (((List.range (ref.length + 1)).flatMap (colsAt block ref)).map (·.1),
                          ((List.range (ref.length + 1)).flatMap (colsAt block ref)).map (·.2)) := rfl

theorem specPair_lengths (block : List SamRec) (ref : List Nat) :
    (specPair block ref).1.length = (specPair block ref).2.length := by
  rw [specPair_eq]; simp

theorem degap_ins_cols (l : List (Nat × List Nat)) :
    degap ((l.flatMap fun x => x.2.map fun b => (dash, b)).map (·.1)) = [] := by
  unfold degap
  rw [List.filter_eq_nil_iff]
  intro b hb
  simp only [List.mem_map, List.mem_flatMap] at hb
  obtain ⟨c, ⟨x, _, hc⟩, rfl⟩ := hb
  obtain ⟨y, _, rfl⟩ := hc
  simp

theorem degap_colsAt (block : List SamRec) (ref : List Nat) (hnd : NoDash ref) (p : Nat) :
    degap ((colsAt block ref p).map (·.1)) = (match ref[p]? with | some rb => [rb] | none => []) := by
  unfold colsAt
  rw [List.map_append, degap_append, degap_ins_cols]
  cases hp : ref[p]? with
  | none => simp [degap]
  | some rb =>
    have hm : rb ∈ ref := List.mem_of_getElem? hp
    have : rb ≠ dash := hnd rb hm
    simp [degap, this]

theorem degap_flatMap_cols (block : List SamRec) (ref : List Nat) (hnd : NoDash ref) : ∀ (n : Nat),
    degap (((List.range n).flatMap (colsAt block ref)).map (·.1)) = ref.take n := by
  intro n
  induction n with
  | zero => simp [degap]
  | succ n ih =>
    rw [List.range_succ, List.flatMap_append, List.map_append, degap_append, ih]
    simp only [List.flatMap_cons, List.flatMap_nil, List.append_nil]
    rw [degap_colsAt block ref hnd n]
    cases hp : ref[n]? with
    | none =>
      have : ref.length ≤ n := by
        rcases Nat.lt_or_ge n ref.length with h | h
        · rw [List.getElem?_eq_getElem h] at hp; cases hp
        · exact h
      simp [List.take_of_length_le this, List.take_of_length_le (Nat.le_succ_of_le this)]
    | some rb =>
      have hlt : n < ref.length := by
        rcases Nat.lt_or_ge n ref.length with h | h
        · exact h
        · rw [List.getElem?_eq_none h] at hp; cases hp
      rw [List.take_succ, hp]
      rfl

/-- **C02.spec_lossless** — for every block of records: removing '-' from the specified reference row gives exactly
the reference -/
theorem specPair_lossless (block : List SamRec) (ref : List Nat) (hnd : NoDash ref) :
    degap (specPair block ref).1 = ref := by
  rw [specPair_eq]
  simp only []
  rw [degap_flatMap_cols block ref hnd (ref.length + 1)]
  exact List.take_of_length_le (Nat.le_succ _)

theorem keepRefCols_colsAt (block : List SamRec) (ref : List Nat) (hnd : NoDash ref) (p : Nat) :
    keepRefCols ((colsAt block ref p).map (·.1)) ((colsAt block ref p).map (·.2)) =
      (match ref[p]? with | some _ => [(flatCol block p).getD letN] | none => []) := by
  unfold colsAt keepRefCols
  rw [List.map_append, List.map_append, List.zip_append (by simp), List.filter_append, List.map_append]
  have hins : ∀ (l : List (Nat × List Nat)),
      (((l.flatMap fun x => x.2.map fun b => (dash, b)).map (·.1)).zip
        ((l.flatMap fun x => x.2.map fun b => (dash, b)).map (·.2))).filter (fun p => p.1 != dash) = [] := by
    intro l
    rw [List.filter_eq_nil_iff]
    intro c hc
    have := (List.of_mem_zip hc).1
    simp only [List.mem_map, List.mem_flatMap] at this
    obtain ⟨d, ⟨x, _, hd⟩, hdc⟩ := this
    obtain ⟨y, _, hy⟩ := hd
    rw [← hdc, ← hy]
    simp
  rw [hins]
  cases hp : ref[p]? with
  | none => simp
  | some rb =>
    have hm : rb ∈ ref := List.mem_of_getElem? hp
    have : rb ≠ dash := hnd rb hm
    simp [this]

theorem keepRefCols_flatMap (block : List SamRec) (ref : List Nat) (hnd : NoDash ref) : ∀ (n : Nat),
    keepRefCols (((List.range n).flatMap (colsAt block ref)).map (·.1)) (((List.range n).flatMap (colsAt block ref)).map (·.2)) =
      (List.range (min n ref.length)).map fun p => (flatCol block p).getD letN := by
  intro n
  induction n with
  | zero => simp [keepRefCols]
  | succ n ih =>
    rw [List.range_succ, List.flatMap_append, List.map_append, List.map_append]
    rw [keepRefCols_append _ _ _ _ (by simp), ih]
    simp only [List.flatMap_cons, List.flatMap_nil, List.append_nil]
    rw [keepRefCols_colsAt block ref hnd n]
    cases hp : ref[n]? with
    | none =>
      have : ref.length ≤ n := by
        rcases Nat.lt_or_ge n ref.length with h | h
        · rw [List.getElem?_eq_getElem h] at hp; cases hp
        · exact h
      simp [Nat.min_eq_right this, Nat.min_eq_right (Nat.le_succ_of_le this)]
    | some rb =>
      have hlt : n < ref.length := by
        rcases Nat.lt_or_ge n ref.length with h | h
        · exact h
        · rw [List.getElem?_eq_none h] at hp; cases hp
      simp only []
      rw [Nat.min_eq_left (Nat.le_of_lt hlt), Nat.min_eq_left hlt, List.range_succ, List.map_append]
      rfl

/-- **C02.spec_skip_insertions** — for every block: deleting the reference-gap columns from the specified query row
gives exactly the `toMultiAlign --pad` row of the same query -/
theorem specPair_skip_insertions (block : List SamRec) (ref : List Nat) (hnd : NoDash ref) :
    keepRefCols (specPair block ref).1 (specPair block ref).2 = specTomaRow block ref.length true := by
  rw [specPair_eq]
  simp only []
  rw [keepRefCols_flatMap block ref hnd (ref.length + 1), Nat.min_eq_right (Nat.le_succ _)]
  unfold specTomaRow
  simp only [if_true]
  apply List.ext_getElem
  · simp
  · intro i h1 h2
    simp only [List.getElem_map, List.getElem_zip, List.getElem_range]
    cases flatCol block i <;> rfl

end Gofasta.Lemmas.PairSpec
