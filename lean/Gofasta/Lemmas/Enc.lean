import Gofasta.Spec.EncChecks
/-
L-enc: finite facts about the *regenerated* tables, decided by the kernel over the whole
byte range and lifted to statements about arbitrary bytes < 256.
-/
namespace Gofasta.Lemmas
open Gofasta Base Model Spec

theorem all_range_elim {p : Nat → Bool} {n : Nat} (h : (List.range n).all p = true) :
    ∀ i, i < n → p i = true := by
  intro i hi
  exact (List.all_eq_true.1 h) i (List.mem_range.2 hi)

theorem mem_accepted {hard : Bool} {b : Nat} (hb : b < 256) (he : enc hard b ≠ 0) :
    b ∈ acceptedBytes hard := by
  unfold acceptedBytes
  simp [List.mem_filter, hb, he]

/-! ### acceptance: code 0 exactly for bytes outside the alphabet -/
theorem chkAccept_ok : chkAccept false = true ∧ chkAccept true = true := by decide +kernel

theorem enc_ne_zero_iff (hard : Bool) (b : Nat) (hb : b < 256) :
    enc hard b ≠ 0 ↔ (baseSet hard b).isSome = true := by
  have h := all_range_elim (by cases hard; exact chkAccept_ok.1; exact chkAccept_ok.2 : chkAccept hard = true) b hb
  simp only [beq_iff_eq] at h
  constructor
  · intro hne; rw [← h]; simp [hne]
  · intro hs hz; rw [← h] at hs; simp [hz] at hs

/-! ### the disjointness test `(a & b) < 16` means "base sets are disjoint" -/
theorem chkDisjoint_ok : chkDisjoint false = true ∧ chkDisjoint true = true := by decide +kernel

theorem encDiffer_iff (hard : Bool) (a b : Nat) (ha : a < 256) (hb : b < 256)
    (hea : enc hard a ≠ 0) (heb : enc hard b ≠ 0) :
    encDiffer (enc hard a) (enc hard b) = disjointSyms hard a b := by
  have h : chkDisjoint hard = true := by cases hard; exact chkDisjoint_ok.1; exact chkDisjoint_ok.2
  have h1 := (List.all_eq_true.1 h) a (mem_accepted ha hea)
  have h2 := (List.all_eq_true.1 h1) b (mem_accepted hb heb)
  simpa using h2

/-! ### decoding gives back the upper-case symbol -/
theorem chkDec_ok : chkDec false = true ∧ chkDec true = true := by decide +kernel

theorem dec_enc (hard : Bool) (b : Nat) (hb : b < 256) (he : enc hard b ≠ 0) :
    dec (enc hard b) = upper b := by
  have h : chkDec hard = true := by cases hard; exact chkDec_ok.1; exact chkDec_ok.2
  simpa using (List.all_eq_true.1 h) b (mem_accepted hb he)

/-! ### case-insensitivity -/
theorem chkCase_ok : chkCase false = true ∧ chkCase true = true := by decide +kernel

theorem enc_upper (hard : Bool) (b : Nat) (hb : b < 256) : enc hard (upper b) = enc hard b := by
  have h : chkCase hard = true := by cases hard; exact chkCase_ok.1; exact chkCase_ok.2
  simpa using all_range_elim h b hb

/-! ### resolved test `a&8 == 8` means A/C/G/T -/
theorem chkResolved_ok : chkResolved false = true ∧ chkResolved true = true := by decide +kernel

theorem encResolved_iff (hard : Bool) (b : Nat) (hb : b < 256) (he : enc hard b ≠ 0) :
    encResolved (enc hard b) = isACGT b := by
  have h : chkResolved hard = true := by cases hard; exact chkResolved_ok.1; exact chkResolved_ok.2
  simpa using (List.all_eq_true.1 h) b (mem_accepted hb he)

/-! ### completeness score: 12 / |base set| (with '-' and '?' counted as any base) -/
theorem chkScore_ok : chkScore = true := by decide +kernel

/-! ### transition tests used by tn93: `a|b == 200` iff {A,G}; `a|b == 56` iff {C,T} (on resolved bases) -/
theorem chkTransitions_ok : chkTransitions = true := by decide +kernel

/-! ### equality of codes on resolved bases means same base -/
theorem chkSame_ok : chkSame = true := by decide +kernel

theorem chkGapCode_ok : chkGapCode = true := by decide +kernel

theorem chkResolvedDiffer_ok : chkResolvedDiffer = true := by decide +kernel

end Gofasta.Lemmas

namespace Gofasta.Lemmas
open Gofasta Base Model Spec

theorem enc_same_iff (a b : Nat) (ha : a < 256) (hb : b < 256) (hea : enc false a ≠ 0) (heb : enc false b ≠ 0)
    (hr : isACGT a = true) : (enc false a == enc false b) = (upper a == upper b) := by
  have h1 := (List.all_eq_true.1 chkSame_ok) a (mem_accepted ha hea)
  have h2 := (List.all_eq_true.1 h1) b (mem_accepted hb heb)
  simpa [hr] using h2

theorem enc_transitions (a b : Nat) (ha : a < 256) (hb : b < 256) (hea : enc false a ≠ 0) (heb : enc false b ≠ 0)
    (hra : isACGT a = true) (hrb : isACGT b = true) :
    (((enc false a ||| enc false b) == 200) = ((upper a == 65 && upper b == 71) || (upper a == 71 && upper b == 65))) ∧
    (((enc false a ||| enc false b) == 56) = ((upper a == 67 && upper b == 84) || (upper a == 84 && upper b == 67))) := by
  have h1 := (List.all_eq_true.1 chkTransitions_ok) a (mem_accepted ha hea)
  have h2 := (List.all_eq_true.1 h1) b (mem_accepted hb heb)
  simp only [hra, hrb, Bool.and_self, Bool.not_true, Bool.false_or, Bool.and_eq_true, beq_iff_eq] at h2
  exact h2

theorem isACGT_of_upper_eq {a b : Nat} (h : upper a = upper b) : isACGT a = isACGT b := by
  simp [isACGT, h]

theorem enc_gap_iff (b : Nat) (hb : b < 256) (he : enc false b ≠ 0) : (enc false b == 244) = (b == 45) := by
  simpa using (List.all_eq_true.1 chkGapCode_ok) b (mem_accepted hb he)

end Gofasta.Lemmas
