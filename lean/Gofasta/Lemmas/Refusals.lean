import Gofasta.Props.C18
import Gofasta.Lemmas.FromBytes
import Gofasta.Lemmas.CsvFasta
import Gofasta.Lemmas.SamVarPipeline
import Gofasta.Driver.Dispatch
/-
Refusals (C18 at COMMAND level) - invalid or inconsistent input makes the whole command model return its error result
("!error", `none`), wherever the defect sits; and what is returned as success is never partial.

Props/C18 proves the refusals of the individual readers and checks. Here they are lifted to the command models:
  * `varCommand` (Driver/Var), `samVarCore` (= `samVarCommand`, Lemmas/SamVarPipeline), `modelTR` (Driver/C08),
    `toMultiAlign`, `toPairAlign` (Model/Sam), `tomaOfText`, `topaOfText`, `samRecsOfText` (Lemmas/FromBytes) as they are;
  * the command models that start from already-read records (`snpsOutput`, `snpsAggregate`, `udListOutput`,
    `modelTR`, the model side of `runC06`, `varCommand`, `topaOfText`) are composed with the reader models
    (`readFasta`, `readFastaList`, `readUDL`) and with the checks of Model/Validate into commands ON BYTES:
    `snpsOnText`, `listOnText`, `closestOnText`, `trOnText`, `varOnText`, `topaOnTexts`, `samVarOnText`
    (sections 2-5). Their success branch is the existing command model and nothing else (`snpsOnText_valid`,
    `listOnText_valid`, `trOnText_valid`, `closestModel_eq`).
A defect in a FASTA file is stated on the scanned lines (`splitLines text = ...`), which covers every layout;
`lines_of_rendered` (= `splitLines_render`) turns it into a statement on the bytes of a written file
(`readFasta_bad_symbol_rendered`, `readFasta_unequal_rows_rendered`).

SUMMARY  (command x condition -> theorem ; n.e. = not expressible in the model)

  every FASTA reader (section 1)
    symbol outside the alphabet, any line      fails_bad_symbol, readFasta_bad_symbol(_rendered)
    rows of unequal length, any later row      fails_unequal_rows, readFasta_unequal_rows(_rendered)   [an EMPTY LAST row too: fails_trailing_header]
    empty file, blank lines only, one header   fails_no_lines, fails_blank_lines, fails_single_header  (C18.empty_fasta_refused)
    text before the first header               fails_no_leading_header
    header without ID, any record              fails_header_without_id
    success => >= 1 record, one width          readFasta_ok_widths
    missing file                               n.e.: opening a file is not modelled (run of the binary, EXIT stream)

  snps (`snpsOnText`) and updown list (`listOnText`)
    bad symbol (alignment / reference file)    snpsOnText_bad_symbol, snpsOnText_bad_symbol_ref, listOnText_bad_symbol(_ref)
    unequal rows                               snpsOnText_unequal_rows, listOnText_unequal_rows
    empty alignment / empty reference          snpsOnText_empty_file, snpsOnText_empty_ref, listOnText_empty_file, listOnText_empty_ref
    more than one reference record             snpsOnText_two_references, listOnText_two_references
    reference and alignment widths differ      snpsOnText_width_mismatch, listOnText_width_mismatch
    refused exactly then                       snpsOnText_error_iff, listOnText_error_iff ; accepted: snpsOnText_valid, listOnText_valid

  closest (`closestOnText`)
    bad symbol / unequal rows / empty, either file   closestOnText_bad_symbol, closestOnText_unequal_rows, closestOnText_empty_file
    query and target widths differ (any two rows)    closestOnText_width_mismatch
    refused exactly then                             closestOnText_error_iff

  updown topranking (`modelTR`, `trOnText`)
    no size / dist option                      modelTR_no_option, modelTR_case_no_option, trIn_args_none, trOnText_no_option
    conflicting options                        udCheckArgs_conflict
    CSV empty / not `updown list` output / unreadable row    trOnText_csv_empty, trOnText_csv_header, trOnText_csv_error
    FASTA input: bad symbol, unequal rows, empty             trOnText_bad_symbol, trOnText_unequal_rows, trOnText_empty_file
    reference refused / more than one record   trOnText_ref_refused (+ refOfText_two_records)
    reference and alignment widths differ      trOnText_width_mismatch
    refused exactly then                       trOnText_error_iff ; accepted: trOnText_valid (= modelTR)

  variants (`varCommand`, `varOnText`)
    reference name not found                   varCommand_ref_not_found, varCommand_ref_not_first, varOnText_ref_not_found
    GenBank ORIGIN length differs              varCommand_origin_length
    annotation gives no regions                varCommand_regions_refused
    a row of another length than the reference varCommand_row_width, varCommand_row_width_msa
    alignment file: bad symbol, unequal rows, empty    varOnText_bad_symbol, varOnText_unequal_rows, varOnText_empty_file
    refused exactly then                       varCommand_error_iff
    window                                     NOT refused: varCommand_window_not_checked (FINDING 2)
    annotation suffix                          n.e. in the command model: `annfmt` selects "gb", everything else is GFF
                                               (variants_unknown_format_accepted, FINDING 3); check alone: C18.suffix_refused

  sam toMultiAlign / toPairAlign
    window outside 1..L, start > end           checkArgs_none_iff, checkArgs_bad_window, checkArgs_bad_start, checkArgs_bad_end,
                                               toMultiAlign_bad_window, toPairAlign_bad_window, toma_text_bad_window,
                                               topa_text_bad_window, tomaOfText_bad_window, topaOfText_bad_window, topaOnTexts_bad_window
    empty SAM stream                           samRecsOfText_empty, tomaOfText_empty
    stream without @SQ line (incl. header-less)  samRecsOfText_headerless, samRecsOfText_no_sq, tomaOfText_no_sq,
                                               tomaOfText_sam_refused, topaOfText_sam_refused, topaOnTexts_sam_refused
    reference file empty / two records         topaOnTexts_empty_ref, topaOnTexts_ref_error, topaOnTexts_two_references
    refused exactly then                       toMultiAlign_none_iff, toPairAlign_none_iff, tomaOfText_none_iff

  sam variants (`samVarCore`, `samVarOnText`)
    annotation gives no regions                samVarCore_regions_refused ; SAM stream refused: samVarOnText_sam_refused
    refused exactly then                       samVarCore_error_iff
    window                                     NOT refused: samVarCore_window_not_checked (FINDING 2)

FINDINGS (section 7; concrete inputs evaluated by the kernel)
  1. (REPAIRED in the Go readers and in the model) a LAST record without sequence used to be dropped silently by every
     reader, so ">a\nACGA\n>b\n" was processed as the one-record alignment [a] and reported as success. Now it is
     refused like every other row of another length: trailing_header_refused, trailing_header_commands_refused,
     fails_trailing_header (the old loop end: Props.C16.old_finish_dropped_last).
  2. variants_bad_window_accepted, samVariants_bad_window_accepted: `variants` and `sam variants` accept start > end
     (and any other window): the command models contain no window check at all.
  3. variants_unknown_format_accepted: the command model treats every annotation format other than "gb" as GFF.
  4. minus_one_is_absent (observation): a window coordinate -1 means "absent" and is therefore never refused.
  5. topa_reference_length_not_checked (observation): toPairAlign does not compare the reference sequence with the @SQ
     length; with a shorter reference it prints rows of different lengths.
-/

namespace Gofasta.Lemmas.Refusals
open Gofasta Base Model Spec Driver Lemmas

/-! ## 1. The FASTA readers on whole files -/

/-- the reader fails on the remaining lines, from state `s` (an error while reading or at the end of the stream) -/
def Fails (m : Mode) (s : RdState) (lines : List (List Nat)) : Prop :=
  ∃ e, (rdLines m s lines).bind rdFinish = .error e

theorem fails_of_step_error {m : Mode} {s : RdState} {l : List Nat} {rest : List (List Nat)} {e : List FaRec × RdErr}
    (h : rdStep m s l = .error e) : Fails m s (l :: rest) := by
  refine ⟨e, ?_⟩
  simp [rdLines, h, Except.bind]

theorem fails_step_ok {m : Mode} {s s' : RdState} {l : List Nat} {rest : List (List Nat)}
    (h : rdStep m s l = .ok s') : Fails m s (l :: rest) ↔ Fails m s' rest := by
  unfold Fails
  simp [rdLines, h]

/-- a failing stream of lines is a refused text -/
theorem readFasta_of_fails (m : Mode) (text : List Nat) (h : Fails m {} (splitLines text)) :
    ∃ e, readFasta m text = .error e := by
  rw [readFasta_eq_bind]
  exact h

theorem readFastaList_of_fails (hard : Bool) (text : List Nat) (h : Fails (.encoded hard) {} (splitLines text)) :
    ∃ e, readFastaList hard text = .error e := by
  obtain ⟨e, he⟩ := readFasta_of_fails _ _ h
  exact ⟨e.2, by simp [readFastaList, he]⟩


/-! ### 1a. a symbol outside the alphabet, anywhere in the file -/

/-- a line that is not a header, before the first header: format error, whatever the reader -/
theorem rdStep_not_started (m : Mode) (s : RdState) (l : List Nat) (hs : s.started = false) (hne : l ≠ [])
    (hh : l.head? ≠ some 62) : rdStep m s l = .error (s.out, .badFormat) := by
  cases l with
  | nil => exact absurd rfl hne
  | cons x t =>
    have hx : x ≠ 62 := by intro h; subst h; simp at hh
    unfold rdStep
    split
    · rename_i heq; cases heq
    · rename_i d heq; cases heq; exact absurd rfl hx
    · simp [hs]

/-- a sequence line holding a byte outside the alphabet fails in every state of an encoded reader -/
theorem rdStep_bad_symbol (hard : Bool) (s : RdState) (bad : List Nat) (hne : bad ≠ []) (hh : bad.head? ≠ some 62)
    (hb : ∃ b ∈ bad, enc hard b = 0) : ∃ e, rdStep (.encoded hard) s bad = .error e := by
  obtain ⟨b, hb, he⟩ := hb
  cases hs : s.started with
  | true => exact ⟨_, Props.C16.strict_symbol hard s bad hs hne hh b hb he⟩
  | false => exact ⟨_, rdStep_not_started _ s bad hs hne hh⟩

/-- **bad symbol anywhere (lines)** - first, middle or last line, whatever precedes and follows -/
theorem fails_bad_symbol (hard : Bool) : ∀ (pre : List (List Nat)) (s : RdState) (bad : List Nat) (post : List (List Nat)),
    bad ≠ [] → bad.head? ≠ some 62 → (∃ b ∈ bad, enc hard b = 0) → Fails (.encoded hard) s (pre ++ bad :: post) := by
  intro pre
  induction pre with
  | nil =>
    intro s bad post hne hh hb
    obtain ⟨e, he⟩ := rdStep_bad_symbol hard s bad hne hh hb
    exact fails_of_step_error he
  | cons l t ih =>
    intro s bad post hne hh hb
    cases hstep : rdStep (.encoded hard) s l with
    | error e => exact fails_of_step_error hstep
    | ok s' => exact (fails_step_ok hstep).2 (ih s' bad post hne hh hb)

/-- **bad symbol anywhere (bytes)** - a text one of whose scanned lines is a sequence line with a byte outside the
alphabet is refused by the encoded readers -/
theorem readFasta_bad_symbol (hard : Bool) (text : List Nat) (pre post : List (List Nat)) (bad : List Nat)
    (hl : splitLines text = pre ++ bad :: post) (hne : bad ≠ []) (hh : bad.head? ≠ some 62)
    (hb : ∃ b ∈ bad, enc hard b = 0) : ∃ e, readFasta (.encoded hard) text = .error e :=
  readFasta_of_fails _ _ (hl ▸ fails_bad_symbol hard pre {} bad post hne hh hb)

/-! ### 1b. no record, no leading header, a header without an ID -/

theorem fails_no_lines (m : Mode) : Fails m {} [] := ⟨([], .empty), by simp [rdLines, Except.bind, rdFinish]⟩

/-- only blank lines: no record -/
theorem fails_blank_lines (m : Mode) (lines : List (List Nat)) (h : ∀ l ∈ lines, l = []) : Fails m {} lines := by
  induction lines with
  | nil => exact fails_no_lines m
  | cons l t ih =>
    have hl : l = [] := h l (by simp)
    subst hl
    exact (fails_step_ok (Props.C16.blank_total m {})).2 (ih fun x hx => h x (by simp [hx]))

/-- the first non-blank line is not a header -/
theorem fails_no_leading_header (m : Mode) (blanks : List (List Nat)) (l : List Nat) (rest : List (List Nat))
    (hb : ∀ x ∈ blanks, x = []) (hne : l ≠ []) (hh : l.head? ≠ some 62) : Fails m {} (blanks ++ l :: rest) := by
  induction blanks with
  | nil => exact fails_of_step_error (Props.C16.no_leading_header m l hne hh)
  | cons b t ih =>
    have hl : b = [] := hb b (by simp)
    subst hl
    exact (fails_step_ok (Props.C16.blank_total m {})).2 (ih fun x hx => hb x (by simp [hx]))

/-- a header line without an ID, anywhere -/
theorem fails_header_without_id (m : Mode) : ∀ (pre : List (List Nat)) (s : RdState) (d : List Nat) (post : List (List Nat)),
    firstField d = none → Fails m s (pre ++ (62 :: d) :: post) := by
  intro pre
  induction pre with
  | nil =>
    intro s d post hd
    have : rdStep m s (62 :: d) = .error (s.out, .badFormat) := by simp [rdStep, hd]
    exact fails_of_step_error this
  | cons l t ih =>
    intro s d post hd
    cases hstep : rdStep m s l with
    | error e => exact fails_of_step_error hstep
    | ok s' => exact (fails_step_ok hstep).2 (ih s' d post hd)


/-- one single header and no sequence line (blank lines apart): no record. This is the only shape in which a last
header without a sequence is not a record of length 0: nothing was emitted before it and its buffer is empty. -/
theorem fails_single_header (m : Mode) (d : List Nat) (blanks : List (List Nat)) (hb : ∀ x ∈ blanks, x = []) :
    Fails m {} ((62 :: d) :: blanks) := by
  cases hid : firstField d with
  | none =>
    have : rdStep m {} (62 :: d) = .error ([], .badFormat) := by simp [rdStep, hid]
    exact fails_of_step_error this
  | some id =>
    have hstep : rdStep m {} (62 :: d) = .ok { started := true, id := id, desc := d } := by simp [rdStep, hid]
    refine (fails_step_ok hstep).2 ?_
    generalize hs : ({ started := true, id := id, desc := d } : RdState) = s0
    have h1 : s0.buf = [] := by subst hs; rfl
    have h2 : s0.counter = 0 := by subst hs; rfl
    clear hs hstep
    induction blanks with
    | nil => exact ⟨(s0.out, .empty), by simp [rdLines, Except.bind, rdFinish, h1, h2]⟩
    | cons b t ih =>
      have hl : b = [] := hb b (by simp)
      subst hl
      exact (fails_step_ok (Props.C16.blank_total m s0)).2 (ih fun x hx => hb x (by simp [hx]))

/-! ### 1c. rows of unequal length -/

theorem encodeLine_length (hard : Bool) : ∀ (l e : List Nat), encodeLine hard l = some e → e.length = l.length := by
  intro l
  induction l with
  | nil => intro e h; simp [encodeLine] at h; subst h; rfl
  | cons b t ih =>
    intro e h
    simp only [encodeLine] at h
    split at h
    · cases h
    · cases ht : encodeLine hard t with
      | none => simp [ht] at h
      | some e' =>
        simp only [ht, Option.map_some, Option.some.injEq] at h
        subst h
        simp [ih e' ht]

theorem seqLine_length (m : Mode) (l e : List Nat) (h : seqLine m l = some e) : e.length = l.length := by
  cases m with
  | plain => simp [seqLine] at h; subst h; simp
  | encoded hard => exact encodeLine_length hard l e h

/-- a sequence line in a started reader: the encoded line is appended, or the symbol check fails -/
theorem rdStep_seq (m : Mode) (s : RdState) (l : List Nat) (hs : s.started = true) (hl : SeqLine l) :
    rdStep m s l = (match seqLine m l with
      | none => .error (s.out, .invalidNuc)
      | some e => .ok (addBuf s e)) := by
  obtain ⟨hne, hh⟩ := hl
  cases l with
  | nil => exact absurd rfl hne
  | cons x t =>
    have hx : x ≠ 62 := by intro h; subst h; simp at hh
    unfold rdStep
    split
    · rename_i heq; cases heq
    · rename_i d heq; cases heq; exact absurd rfl hx
    · simp only [hs, Bool.not_true, Bool.false_eq_true, if_false]
      cases seqLine m (x :: t) <;> simp [addBuf, hs]

/-- the lines of one sequence: if every state in which the buffer has grown by the sequence's length fails on the
rest, the whole fails (the other outcome is a symbol error on the way) -/
theorem fails_chunks (m : Mode) : ∀ (chunks : List (List Nat)) (s : RdState) (rest : List (List Nat)),
    s.started = true → (∀ l ∈ chunks, SeqLine l) →
    (∀ b : List Nat, b.length = chunks.flatten.length → Fails m (addBuf s b) rest) → Fails m s (chunks ++ rest) := by
  intro chunks
  induction chunks with
  | nil =>
    intro s rest _ _ k
    simpa [addBuf_nil] using k [] rfl
  | cons c t ih =>
    intro s rest hs h k
    have hc := h c (by simp)
    have hstep := rdStep_seq m s c hs hc
    cases hsl : seqLine m c with
    | none =>
      rw [hsl] at hstep
      exact fails_of_step_error hstep
    | some e =>
      rw [hsl] at hstep
      have hlen := seqLine_length m c e hsl
      refine (fails_step_ok hstep).2 (ih (addBuf s e) rest (by simp [hs]) (fun l hl => h l (by simp [hl])) ?_)
      intro b hb
      rw [addBuf_addBuf]
      exact k (e ++ b) (by simp [hlen, hb])

/-- the state at a record boundary (before a header line or the end of the stream) in which the width every later
record is compared with is `W`: the width of the first record, stored at the second header -/
def Bd (W : Nat) (s : RdState) : Prop :=
  s.started = true ∧ (if s.counter = 0 then s.buf.length = W else s.width = W)

/-- one record read from a boundary state: afterwards the stored width is `W` and the buffer holds the record -/
theorem fails_record (m : Mode) (W : Nat) (r : LRec) (s : RdState) (rest : List (List Nat)) (hb : Bd W s)
    (hc : ∀ l ∈ r.chunks, SeqLine l)
    (k : ∀ s' : RdState, s'.started = true → s'.counter ≠ 0 → s'.width = W → s'.buf.length = r.seq.length →
      Fails m s' rest) : Fails m s (r.lines ++ rest) := by
  obtain ⟨hs, hw⟩ := hb
  simp only [LRec.lines, List.cons_append]
  cases hid : firstField r.desc with
  | none =>
    have : rdStep m s (62 :: r.desc) = .error (s.out, .badFormat) := by simp [rdStep, hid]
    exact fails_of_step_error this
  | some id =>
    by_cases hcond : s.counter = 0 ∨ s.buf.length = s.width
    · have hstep := rdStep_header_started m s r.desc id hs hid hcond
      refine (fails_step_ok hstep).2 (fails_chunks m r.chunks _ rest (by simp [startRec, hs]) hc ?_)
      intro b hbl
      apply k
      · simp [startRec, hs]
      · simp [startRec]
      · simp only [addBuf_width, startRec]
        by_cases h0 : s.counter = 0
        · simpa [h0] using hw
        · simpa [h0] using hw
      · simp [startRec, hbl, LRec.seq]
    · have h1 : s.counter ≠ 0 := fun h => hcond (Or.inl h)
      have h2 : s.buf.length ≠ s.width := fun h => hcond (Or.inr h)
      have : rdStep m s (62 :: r.desc) = .error (s.out, .diffLen) := by
        simp [rdStep, hid, hs, h1, h2]
      exact fails_of_step_error this

/-- any number of records read from a boundary state: again a boundary state for the same width -/
theorem fails_records (m : Mode) (W : Nat) : ∀ (rs : List LRec) (s : RdState) (rest : List (List Nat)), Bd W s →
    (∀ r ∈ rs, ∀ l ∈ r.chunks, SeqLine l) → (∀ s' : RdState, Bd W s' → Fails m s' rest) →
    Fails m s (renderLines rs ++ rest) := by
  intro rs
  induction rs with
  | nil => intro s rest hb _ k; simpa [renderLines] using k s hb
  | cons r t ih =>
    intro s rest hb hc k
    have e : renderLines (r :: t) ++ rest = r.lines ++ (renderLines t ++ rest) := by simp [renderLines]
    rw [e]
    refine fails_record m W r s _ hb (hc r (by simp)) ?_
    intro s' h1 h2 h3 _
    exact ih s' rest ⟨h1, by simp [h2, h3]⟩ (fun x hx => hc x (by simp [hx])) k

/-- a record of another width is pending: the next header, or the end of the stream, reports it (the end of the
stream too when the pending buffer is empty: the last record is checked like every other one) -/
theorem fails_pending (m : Mode) (s : RdState) (post : List LRec) (hs : s.started = true) (hc : s.counter ≠ 0)
    (hw : s.buf.length ≠ s.width) : Fails m s (renderLines post) := by
  cases post with
  | nil =>
    refine ⟨(s.out, .diffLen), ?_⟩
    have hc' : s.counter > 0 := by omega
    simp [renderLines, rdLines, Except.bind, rdFinish, hc', hw]
  | cons p t =>
    simp only [renderLines, List.flatMap_cons, LRec.lines, List.cons_append]
    cases hid : firstField p.desc with
    | none =>
      have : rdStep m s (62 :: p.desc) = .error (s.out, .badFormat) := by simp [rdStep, hid]
      exact fails_of_step_error this
    | some id =>
      have : rdStep m s (62 :: p.desc) = .error (s.out, .diffLen) := by simp [rdStep, hid, hs, hc, hw]
      exact fails_of_step_error this

/-- **rows of unequal length (lines)** - a file of records (any chunking of each sequence into lines) in which some
record after the first has another width than the first is refused by every reader, wherever that record is:
directly after the first record, in the middle, or last - a LAST record with an EMPTY sequence (a trailing header)
included: see `trailing_header_refused`. No hypothesis on the position or on the length remains: the statement is
about files with at least two records, so the one shape that is "no record" rather than "unequal rows" (one single
header without sequence, `fails_single_header`) does not occur here -/
theorem fails_unequal_rows (m : Mode) (r0 : LRec) (pre : List LRec) (r : LRec) (post : List LRec)
    (hseq : ∀ x ∈ r0 :: pre ++ r :: post, ∀ l ∈ x.chunks, SeqLine l)
    (hw : r.seq.length ≠ r0.seq.length) :
    Fails m {} (renderLines (r0 :: pre ++ r :: post)) := by
  have e : renderLines (r0 :: pre ++ r :: post) =
      (62 :: r0.desc) :: (r0.chunks ++ (renderLines pre ++ (r.lines ++ renderLines post))) := by
    simp [renderLines, LRec.lines]
  rw [e]
  cases hid : firstField r0.desc with
  | none =>
    have : rdStep m {} (62 :: r0.desc) = .error ([], .badFormat) := by simp [rdStep, hid]
    exact fails_of_step_error this
  | some id =>
    have hstep : rdStep m {} (62 :: r0.desc) = .ok { started := true, id := id, desc := r0.desc } := by
      simp [rdStep, hid]
    refine (fails_step_ok hstep).2 (fails_chunks m r0.chunks _ _ rfl (hseq r0 (by simp)) ?_)
    intro b hb
    refine fails_records m r0.seq.length pre _ _ ⟨rfl, by simpa [LRec.seq] using hb⟩
      (fun x hx => hseq x (by simp [hx])) ?_
    intro s1 hb1
    refine fails_record m r0.seq.length r s1 _ hb1 (hseq r (by simp)) ?_
    intro s2 h1 h2 h3 h4
    exact fails_pending m s2 post h1 h2 (by omega)

/-- **rows of unequal length (bytes)** -/
theorem readFasta_unequal_rows (m : Mode) (text : List Nat) (r0 : LRec) (pre : List LRec) (r : LRec) (post : List LRec)
    (hl : splitLines text = renderLines (r0 :: pre ++ r :: post))
    (hseq : ∀ x ∈ r0 :: pre ++ r :: post, ∀ l ∈ x.chunks, SeqLine l)
    (hw : r.seq.length ≠ r0.seq.length) : ∃ e, readFasta m text = .error e :=
  readFasta_of_fails _ _ (hl ▸ fails_unequal_rows m r0 pre r post hseq hw)


/-! ### 1d. what a reader returns as success: at least one record, all of one width -/

/-- the records delivered so far are as many as the counter says and have the stored width -/
def Inv (s : RdState) : Prop := s.out.length = s.counter ∧ ∀ r ∈ s.out, r.seq.length = s.width

theorem inv_step (m : Mode) (s s' : RdState) (l : List Nat) (hi : Inv s) (h : rdStep m s l = .ok s') : Inv s' := by
  obtain ⟨h1, h2⟩ := hi
  unfold rdStep at h
  split at h
  · cases h; exact ⟨h1, h2⟩
  · rename_i d
    split at h
    · cases h
    · rename_i id hid
      split at h
      · cases h; exact ⟨h1, h2⟩
      · split at h
        · cases h
        · rename_i hns hnd
          cases h
          refine ⟨by simp [h1], ?_⟩
          intro r hr
          simp only [List.mem_append, List.mem_singleton] at hr
          by_cases hc : s.counter = 0
          · have : s.out = [] := List.eq_nil_of_length_eq_zero (by omega)
            rcases hr with hr | hr
            · rw [this] at hr; cases hr
            · subst hr; simp [hc, mkRec]
          · simp only [hc, if_false]
            rcases hr with hr | hr
            · exact h2 r hr
            · subst hr
              simp only [mkRec]
              have : ¬ (s.counter != 0 && s.buf.length != s.width) = true := hnd
              simp only [Bool.and_eq_true, bne_iff_ne, ne_eq, not_and, Decidable.not_not] at this
              exact this hc
  · split at h
    · cases h
    · split at h
      · cases h
      · cases h; exact ⟨h1, h2⟩

theorem inv_lines (m : Mode) : ∀ (ls : List (List Nat)) (s s' : RdState), Inv s → rdLines m s ls = .ok s' → Inv s' := by
  intro ls
  induction ls with
  | nil => intro s s' hi h; simp only [rdLines] at h; cases h; exact hi
  | cons l t ih =>
    intro s s' hi h
    simp only [rdLines] at h
    cases hstep : rdStep m s l with
    | error e => simp [hstep] at h
    | ok s1 =>
      simp only [hstep] at h
      exact ih s1 s' (inv_step m s s1 l hi hstep) h

theorem inv_finish (s : RdState) (rs : List FaRec) (hi : Inv s) (h : rdFinish s = .ok rs) :
    rs ≠ [] ∧ ∃ W, ∀ r ∈ rs, r.seq.length = W := by
  obtain ⟨h1, h2⟩ := hi
  unfold rdFinish at h
  split at h
  · split at h
    · cases h
    · rename_i hpos hnd
      cases h
      refine ⟨by simp, s.buf.length, ?_⟩
      intro r hr
      simp only [List.mem_append, List.mem_singleton] at hr
      rcases hr with hr | hr
      · have hc : s.counter ≠ 0 := by
          intro hc
          have : s.out = [] := List.eq_nil_of_length_eq_zero (by omega)
          rw [this] at hr; cases hr
        have : ¬ (decide (s.counter > 0) && s.buf.length != s.width) = true := hnd
        simp only [Bool.and_eq_true, decide_eq_true_eq, bne_iff_ne, ne_eq, not_and, Decidable.not_not] at this
        rw [h2 r hr, this (by omega)]
      · subst hr; rfl
  · cases h

/-- **no partial success** - whatever a reader returns as success holds at least one record, and all its records
have the same width -/
theorem readFasta_ok_widths (m : Mode) (text : List Nat) (rs : List FaRec) (h : readFasta m text = .ok rs) :
    rs ≠ [] ∧ ∃ W, ∀ r ∈ rs, r.seq.length = W := by
  unfold readFasta at h
  cases hl : rdLines m {} (splitLines text) with
  | error e => simp [hl] at h
  | ok s =>
    simp only [hl] at h
    exact inv_finish s rs (inv_lines m _ {} s ⟨rfl, by intro r hr; cases hr⟩ hl) h


/-- **the last record is checked against the records already delivered** (`Props.C16.last_record_checked` with the
stored width replaced by what it stands for): if, after the last line, the pending record has another length than some
record delivered before - whatever that length is, 0 included - the reader returns "different length sequences" -/
theorem last_record_checked_records (m : Mode) (text : List Nat) (s : RdState)
    (hl : rdLines m {} (splitLines text) = .ok s) (r : FaRec) (hr : r ∈ s.out) (hw : s.buf.length ≠ r.seq.length) :
    readFasta m text = .error (s.out, .diffLen) := by
  obtain ⟨h1, h2⟩ := inv_lines m _ {} s ⟨rfl, by intro r hr; cases hr⟩ hl
  refine Props.C16.last_record_checked m text s hl ?_ (by rw [← h2 r hr]; exact hw)
  cases ho : s.out with
  | nil => rw [ho] at hr; cases hr
  | cons a t => rw [ho] at h1; simp at h1; omega

/-! ## 2. snps, updown list, (topranking): reference file + alignment file -/

/-- the error result of a command model -/
def errorOut : String := "!error"

/-- the reference file of snps, updown list, topranking: read whole with the list reader; it must hold exactly one
record (`refusesReferenceCount`; no record at all is already a reader error) -/
def refOfText (hard : Bool) (refText : List Nat) : Option FaRec :=
  match readFastaList hard refText with
  | .error _ => none
  | .ok rs => if refusesReferenceCount rs.length then none else rs.head?

/-- the alignment file of these commands: read with the streaming reader; every row must be as wide as the reference
(`refusesWidths`) -/
def rowsOfText (hard : Bool) (ref : FaRec) (text : List Nat) : Option (List FaRec) :=
  match readFasta (.encoded hard) text with
  | .error _ => none
  | .ok qs => if refusesWidths ref.seq.length (qs.map fun q => q.seq.length) then none else some qs

/-- reader, validation, then the command `k` on the encoded records: the shape shared by snps and updown list -/
def alignedCommand (hard : Bool) (refText qText : List Nat) (k : FaRec → List FaRec → String) : String :=
  match refOfText hard refText with
  | none => errorOut
  | some ref =>
    match rowsOfText hard ref qText with
    | none => errorOut
    | some qs => k ref qs

/-! ### reader-level refusals as `refOfText` / `rowsOfText` = none -/

theorem refOfText_of_error (hard : Bool) (refText : List Nat) (h : ∃ e, readFasta (.encoded hard) refText = .error e) :
    refOfText hard refText = none := by
  obtain ⟨e, he⟩ := h
  simp [refOfText, readFastaList, he]

theorem rowsOfText_of_error (hard : Bool) (ref : FaRec) (text : List Nat)
    (h : ∃ e, readFasta (.encoded hard) text = .error e) : rowsOfText hard ref text = none := by
  obtain ⟨e, he⟩ := h
  simp [rowsOfText, he]

/-- more than one record in the reference file -/
theorem refOfText_two_records (hard : Bool) (refText : List Nat) (rs : List FaRec)
    (h : readFasta (.encoded hard) refText = .ok rs) (hn : 1 < rs.length) : refOfText hard refText = none := by
  simp [refOfText, readFastaList, h, Props.C18.reference_count_refused rs.length hn]

/-- a row (any row) of another width than the reference -/
theorem rowsOfText_width_mismatch (hard : Bool) (ref : FaRec) (text : List Nat) (qs : List FaRec)
    (h : readFasta (.encoded hard) text = .ok qs) (hw : ∃ q ∈ qs, q.seq.length ≠ ref.seq.length) :
    rowsOfText hard ref text = none := by
  obtain ⟨q, hq, hne⟩ := hw
  obtain ⟨pre, post, rfl⟩ := List.append_of_mem hq
  have := Props.C18.widths_refused ref.seq.length (pre.map fun q => q.seq.length) (post.map fun q => q.seq.length)
    q.seq.length hne
  simp only [rowsOfText, h, List.map_append, List.map_cons, this, if_true]

/-- what `rowsOfText` returns has the reference's width in every row, and at least one row -/
theorem rowsOfText_some (hard : Bool) (ref : FaRec) (text : List Nat) (qs : List FaRec)
    (h : rowsOfText hard ref text = some qs) : qs ≠ [] ∧ ∀ q ∈ qs, q.seq.length = ref.seq.length := by
  unfold rowsOfText at h
  cases hr : readFasta (.encoded hard) text with
  | error e => simp [hr] at h
  | ok rs =>
    simp only [hr] at h
    split at h
    · cases h
    · rename_i hw
      cases h
      refine ⟨(readFasta_ok_widths _ _ _ hr).1, ?_⟩
      have hw' : refusesWidths ref.seq.length (qs.map fun q => q.seq.length) = false := by simpa using hw
      simp only [refusesWidths, List.any_eq_false, bne_iff_ne, ne_eq, Decidable.not_not, List.mem_map,
        forall_exists_index, and_imp, forall_apply_eq_imp_iff₂] at hw'
      exact hw'

/-! ### the command refuses -/

theorem aligned_ref_refused (hard : Bool) (refText qText : List Nat) (k : FaRec → List FaRec → String)
    (h : refOfText hard refText = none) : alignedCommand hard refText qText k = errorOut := by
  simp [alignedCommand, h]

theorem aligned_rows_refused (hard : Bool) (refText qText : List Nat) (k : FaRec → List FaRec → String)
    (h : ∀ ref, rowsOfText hard ref qText = none) : alignedCommand hard refText qText k = errorOut := by
  unfold alignedCommand
  cases refOfText hard refText with
  | none => rfl
  | some ref => simp [h ref]

/-- the alignment file is refused by the reader (bad symbol, unequal rows, empty, no header ...) -/
theorem aligned_query_error (hard : Bool) (refText qText : List Nat) (k : FaRec → List FaRec → String)
    (h : ∃ e, readFasta (.encoded hard) qText = .error e) : alignedCommand hard refText qText k = errorOut :=
  aligned_rows_refused hard refText qText k fun ref => rowsOfText_of_error hard ref qText h

/-- the reference file is refused by the reader -/
theorem aligned_ref_error (hard : Bool) (refText qText : List Nat) (k : FaRec → List FaRec → String)
    (h : ∃ e, readFasta (.encoded hard) refText = .error e) : alignedCommand hard refText qText k = errorOut :=
  aligned_ref_refused hard refText qText k (refOfText_of_error hard refText h)

/-- reference and alignment of different widths: some row of the alignment is not as wide as the reference -/
theorem aligned_width_mismatch (hard : Bool) (refText qText : List Nat) (k : FaRec → List FaRec → String)
    (ref : FaRec) (qs : List FaRec) (hr : refOfText hard refText = some ref)
    (hq : readFasta (.encoded hard) qText = .ok qs) (hw : ∃ q ∈ qs, q.seq.length ≠ ref.seq.length) :
    alignedCommand hard refText qText k = errorOut := by
  simp [alignedCommand, hr, rowsOfText_width_mismatch hard ref qText qs hq hw]

/-- and conversely: when the command is not refused, `k` ran on ONE reference record and on rows that all have its width -/
theorem aligned_not_refused (hard : Bool) (refText qText : List Nat) (k : FaRec → List FaRec → String)
    (h : alignedCommand hard refText qText k ≠ errorOut) :
    ∃ ref qs, readFastaList hard refText = .ok [ref] ∧ readFasta (.encoded hard) qText = .ok qs ∧ qs ≠ [] ∧
      (∀ q ∈ qs, q.seq.length = ref.seq.length) ∧ alignedCommand hard refText qText k = k ref qs := by
  unfold alignedCommand at h ⊢
  cases hr : refOfText hard refText with
  | none => simp [hr] at h
  | some ref =>
    simp only [hr] at h ⊢
    cases hq : rowsOfText hard ref qText with
    | none => simp [hq] at h
    | some qs =>
      simp only
      have hqs := rowsOfText_some hard ref qText qs hq
      refine ⟨ref, qs, ?_, ?_, hqs.1, hqs.2, rfl⟩
      · unfold refOfText at hr
        cases hl : readFastaList hard refText with
        | error e => simp [hl] at hr
        | ok rs =>
          simp only [hl] at hr
          split at hr
          · cases hr
          · rename_i hc
            have : rs.length = 1 := by simpa [refusesReferenceCount] using hc
            match rs, this with
            | [x], _ => simp at hr; subst hr; rfl
      · unfold rowsOfText at hq
        cases hl : readFasta (.encoded hard) qText with
        | error e => simp [hl] at hq
        | ok rs =>
          simp only [hl] at hq
          split at hq
          · cases hq
          · cases hq; rfl


/-! ### 2a. `snps` and `updown list` on the bytes of their two files -/

/-- a record as the (name, sequence bytes) pair the command models take: the codes decoded back to symbols (the
models encode again; for what a reader returned this gives the codes back, see `reencode`) -/
def rawOf (r : FaRec) : String × List Nat := (bytesToString r.id, r.seq.map dec)

/-- `gofasta snps` (per-sequence or aggregate form) on the bytes of the reference file and of the query alignment -/
def snpsOnText (hard agg : Bool) (thrNum thrDen : Nat) (refText qText : List Nat) : String :=
  alignedCommand hard refText qText fun ref qs =>
    if agg then snpsAggregate hard thrNum thrDen (ref.seq.map dec) (qs.map rawOf)
    else snpsOutput hard (ref.seq.map dec) (qs.map rawOf)

/-- `gofasta updown list` on the bytes of the reference file and of the query alignment -/
def listOnText (refText qText : List Nat) : String :=
  alignedCommand false refText qText fun ref qs => udListOutput (ref.seq.map dec) (qs.map rawOf)

section snps
variable (hard agg : Bool) (n d : Nat) (refText qText : List Nat)

/-- **snps, bad symbol** in the query alignment, on any line -/
theorem snpsOnText_bad_symbol (pre post : List (List Nat)) (bad : List Nat)
    (hl : splitLines qText = pre ++ bad :: post) (hne : bad ≠ []) (hh : bad.head? ≠ some 62)
    (hb : ∃ b ∈ bad, enc hard b = 0) : snpsOnText hard agg n d refText qText = errorOut :=
  aligned_query_error _ _ _ _ (readFasta_bad_symbol hard qText pre post bad hl hne hh hb)

/-- **snps, bad symbol** in the reference file -/
theorem snpsOnText_bad_symbol_ref (pre post : List (List Nat)) (bad : List Nat)
    (hl : splitLines refText = pre ++ bad :: post) (hne : bad ≠ []) (hh : bad.head? ≠ some 62)
    (hb : ∃ b ∈ bad, enc hard b = 0) : snpsOnText hard agg n d refText qText = errorOut :=
  aligned_ref_error _ _ _ _ (readFasta_bad_symbol hard refText pre post bad hl hne hh hb)

/-- **snps, rows of unequal length** in the query alignment -/
theorem snpsOnText_unequal_rows (r0 : LRec) (pre : List LRec) (r : LRec) (post : List LRec)
    (hl : splitLines qText = renderLines (r0 :: pre ++ r :: post))
    (hseq : ∀ x ∈ r0 :: pre ++ r :: post, ∀ l ∈ x.chunks, SeqLine l)
    (hw : r.seq.length ≠ r0.seq.length) :
    snpsOnText hard agg n d refText qText = errorOut :=
  aligned_query_error _ _ _ _ (readFasta_unequal_rows _ qText r0 pre r post hl hseq hw)

/-- **snps, empty file**: query alignment empty or of blank lines only -/
theorem snpsOnText_empty_file (h : ∀ l ∈ splitLines qText, l = []) : snpsOnText hard agg n d refText qText = errorOut :=
  aligned_query_error _ _ _ _ (readFasta_of_fails _ _ (fails_blank_lines _ _ h))

/-- **snps, empty reference file** -/
theorem snpsOnText_empty_ref (h : ∀ l ∈ splitLines refText, l = []) : snpsOnText hard agg n d refText qText = errorOut :=
  aligned_ref_error _ _ _ _ (readFasta_of_fails _ _ (fails_blank_lines _ _ h))

/-- **snps, more than one record in the reference file** -/
theorem snpsOnText_two_references (rs : List FaRec) (h : readFasta (.encoded hard) refText = .ok rs) (hn : 1 < rs.length) :
    snpsOnText hard agg n d refText qText = errorOut :=
  aligned_ref_refused _ _ _ _ (refOfText_two_records hard refText rs h hn)

/-- **snps, reference and alignment of different widths** (any row) -/
theorem snpsOnText_width_mismatch (ref : FaRec) (qs : List FaRec) (hr : refOfText hard refText = some ref)
    (hq : readFasta (.encoded hard) qText = .ok qs) (hw : ∃ q ∈ qs, q.seq.length ≠ ref.seq.length) :
    snpsOnText hard agg n d refText qText = errorOut :=
  aligned_width_mismatch _ _ _ _ ref qs hr hq hw

end snps

section list
variable (refText qText : List Nat)

theorem listOnText_bad_symbol (pre post : List (List Nat)) (bad : List Nat)
    (hl : splitLines qText = pre ++ bad :: post) (hne : bad ≠ []) (hh : bad.head? ≠ some 62)
    (hb : ∃ b ∈ bad, enc false b = 0) : listOnText refText qText = errorOut :=
  aligned_query_error _ _ _ _ (readFasta_bad_symbol false qText pre post bad hl hne hh hb)

theorem listOnText_bad_symbol_ref (pre post : List (List Nat)) (bad : List Nat)
    (hl : splitLines refText = pre ++ bad :: post) (hne : bad ≠ []) (hh : bad.head? ≠ some 62)
    (hb : ∃ b ∈ bad, enc false b = 0) : listOnText refText qText = errorOut :=
  aligned_ref_error _ _ _ _ (readFasta_bad_symbol false refText pre post bad hl hne hh hb)

theorem listOnText_unequal_rows (r0 : LRec) (pre : List LRec) (r : LRec) (post : List LRec)
    (hl : splitLines qText = renderLines (r0 :: pre ++ r :: post))
    (hseq : ∀ x ∈ r0 :: pre ++ r :: post, ∀ l ∈ x.chunks, SeqLine l)
    (hw : r.seq.length ≠ r0.seq.length) : listOnText refText qText = errorOut :=
  aligned_query_error _ _ _ _ (readFasta_unequal_rows _ qText r0 pre r post hl hseq hw)

theorem listOnText_empty_file (h : ∀ l ∈ splitLines qText, l = []) : listOnText refText qText = errorOut :=
  aligned_query_error _ _ _ _ (readFasta_of_fails _ _ (fails_blank_lines _ _ h))

theorem listOnText_empty_ref (h : ∀ l ∈ splitLines refText, l = []) : listOnText refText qText = errorOut :=
  aligned_ref_error _ _ _ _ (readFasta_of_fails _ _ (fails_blank_lines _ _ h))

theorem listOnText_two_references (rs : List FaRec) (h : readFasta (.encoded false) refText = .ok rs) (hn : 1 < rs.length) :
    listOnText refText qText = errorOut :=
  aligned_ref_refused _ _ _ _ (refOfText_two_records false refText rs h hn)

theorem listOnText_width_mismatch (ref : FaRec) (qs : List FaRec) (hr : refOfText false refText = some ref)
    (hq : readFasta (.encoded false) qText = .ok qs) (hw : ∃ q ∈ qs, q.seq.length ≠ ref.seq.length) :
    listOnText refText qText = errorOut :=
  aligned_width_mismatch _ _ _ _ ref qs hr hq hw

end list

/-! ### 2b. `closest`: query alignment and target alignment -/

/-- the model side of `Driver.runC06` (the rows in query order, as for property C06) -/
def closestModel (ci : ClosestIn) : String :=
  let mts := modelTargets ci.ts
  let r := rowsFor ci (fun q => hitsOf ci.measure (q.map (enc false)) mts) findClosest
      (findClosestN (effK ci) ci.maxd)
      (fun q i => closestSnps 0 (q.map (enc false)) ((mts.getD i default).seq))
  renderRows r.1 r.2

theorem closestModel_eq (c : Case) (h : c.prop ≠ "C07") : (runC06 c).model = closestModel (closestIn c) := by
  simp [runC06, closestModel, h]

def firstWidth (rs : List FaRec) : Nat := (rs.head?.map fun r => r.seq.length).getD 0

def withRecs (ci : ClosestIn) (qs ts : List FaRec) : ClosestIn :=
  { measure := ci.measure, mode := ci.mode, k := ci.k, maxd := ci.maxd, qs := qs.map rawOf, ts := ts.map rawOf }

/-- `gofasta closest` on the bytes of the two alignments (options taken from `ci`): both files through the encoded
reader, the first target as wide as the first query (`refusesQueryTarget`), then the model of C06 -/
def closestOnText (ci : ClosestIn) (qText tText : List Nat) : String :=
  match readFasta (.encoded false) qText, readFasta (.encoded false) tText with
  | .ok qs, .ok ts =>
    if refusesQueryTarget (firstWidth qs) (firstWidth ts) then errorOut else closestModel (withRecs ci qs ts)
  | _, _ => errorOut

theorem closestOnText_query_error (ci : ClosestIn) (qText tText : List Nat)
    (h : ∃ e, readFasta (.encoded false) qText = .error e) : closestOnText ci qText tText = errorOut := by
  obtain ⟨e, he⟩ := h
  simp [closestOnText, he]

theorem closestOnText_target_error (ci : ClosestIn) (qText tText : List Nat)
    (h : ∃ e, readFasta (.encoded false) tText = .error e) : closestOnText ci qText tText = errorOut := by
  obtain ⟨e, he⟩ := h
  unfold closestOnText
  cases readFasta (.encoded false) qText <;> simp [he]

theorem firstWidth_of_ok (text : List Nat) (rs : List FaRec) (h : readFasta (.encoded false) text = .ok rs) :
    ∀ r ∈ rs, r.seq.length = firstWidth rs := by
  obtain ⟨hne, W, hW⟩ := readFasta_ok_widths _ _ _ h
  cases rs with
  | nil => exact absurd rfl hne
  | cons a t =>
    intro r hr
    simp [firstWidth, hW r hr, hW a (by simp)]

/-- **closest, query and target of different widths**: ANY query row and ANY target row of different widths (the
readers make the rows of each file equal, the command compares the first rows) -/
theorem closestOnText_width_mismatch (ci : ClosestIn) (qText tText : List Nat) (qs ts : List FaRec)
    (hq : readFasta (.encoded false) qText = .ok qs) (ht : readFasta (.encoded false) tText = .ok ts)
    (hw : ∃ q ∈ qs, ∃ t ∈ ts, q.seq.length ≠ t.seq.length) : closestOnText ci qText tText = errorOut := by
  obtain ⟨q, hqm, t, htm, hne⟩ := hw
  have h1 := firstWidth_of_ok qText qs hq q hqm
  have h2 := firstWidth_of_ok tText ts ht t htm
  have := Props.C18.query_target_refused (firstWidth qs) (firstWidth ts) (by omega)
  simp [closestOnText, hq, ht, this]

theorem closestOnText_bad_symbol (ci : ClosestIn) (qText tText : List Nat) (pre post : List (List Nat)) (bad : List Nat)
    (hl : splitLines qText = pre ++ bad :: post ∨ splitLines tText = pre ++ bad :: post) (hne : bad ≠ [])
    (hh : bad.head? ≠ some 62) (hb : ∃ b ∈ bad, enc false b = 0) : closestOnText ci qText tText = errorOut := by
  rcases hl with hl | hl
  · exact closestOnText_query_error ci qText tText (readFasta_bad_symbol false qText pre post bad hl hne hh hb)
  · exact closestOnText_target_error ci qText tText (readFasta_bad_symbol false tText pre post bad hl hne hh hb)

theorem closestOnText_unequal_rows (ci : ClosestIn) (qText tText : List Nat) (r0 : LRec) (pre : List LRec) (r : LRec)
    (post : List LRec)
    (hl : splitLines qText = renderLines (r0 :: pre ++ r :: post) ∨ splitLines tText = renderLines (r0 :: pre ++ r :: post))
    (hseq : ∀ x ∈ r0 :: pre ++ r :: post, ∀ l ∈ x.chunks, SeqLine l)
    (hw : r.seq.length ≠ r0.seq.length) : closestOnText ci qText tText = errorOut := by
  rcases hl with hl | hl
  · exact closestOnText_query_error ci qText tText (readFasta_unequal_rows _ qText r0 pre r post hl hseq hw)
  · exact closestOnText_target_error ci qText tText (readFasta_unequal_rows _ tText r0 pre r post hl hseq hw)

theorem closestOnText_empty_file (ci : ClosestIn) (qText tText : List Nat)
    (h : (∀ l ∈ splitLines qText, l = []) ∨ (∀ l ∈ splitLines tText, l = [])) : closestOnText ci qText tText = errorOut := by
  rcases h with h | h
  · exact closestOnText_query_error ci qText tText (readFasta_of_fails _ _ (fails_blank_lines _ _ h))
  · exact closestOnText_target_error ci qText tText (readFasta_of_fails _ _ (fails_blank_lines _ _ h))


/-! ## 3. `updown topranking` -/

open Gofasta.Lemmas.CsvFasta (linesOfCsv linesOf trRun)

/-- **topranking, no size or distance option** (the command model itself) -/
theorem modelTR_no_option (ti : TRIn) (h : ti.args = none) : modelTR ti = "!error" := by
  simp [modelTR, h]

/-- the ten options at their defaults (all 0: `Props.Cli.topranking_defaults`) leave `args` empty -/
theorem trIn_args_none (c : Case) (h1 : c.int "sizetotal" = 0) (h2 : c.int "sizeup" = 0) (h3 : c.int "sizedown" = 0)
    (h4 : c.int "sizeside" = 0) (h5 : c.int "sizesame" = 0) (h6 : c.int "distall" = 0) (h7 : c.int "distup" = 0)
    (h8 : c.int "distdown" = 0) (h9 : c.int "distside" = 0) (h10 : c.int "distpush" = 0) : (trIn c).args = none := by
  simp [trIn, h1, h2, h3, h4, h5, h6, h7, h8, h9, h10, udCheckArgs]

/-- **topranking on a harness case without size or distance option: refused** -/
theorem modelTR_case_no_option (c : Case) (h1 : c.int "sizetotal" = 0) (h2 : c.int "sizeup" = 0) (h3 : c.int "sizedown" = 0)
    (h4 : c.int "sizeside" = 0) (h5 : c.int "sizesame" = 0) (h6 : c.int "distall" = 0) (h7 : c.int "distup" = 0)
    (h8 : c.int "distdown" = 0) (h9 : c.int "distside" = 0) (h10 : c.int "distpush" = 0) : modelTR (trIn c) = "!error" :=
  modelTR_no_option _ (trIn_args_none c h1 h2 h3 h4 h5 h6 h7 h8 h9 h10)

/-- the other refusal of checkArgs: a total size together with a per-direction size, a distance and push mode -/
theorem udCheckArgs_conflict (sizetotal sizeup sizedown sizeside sizesame distall distup distdown distside distpush : Int)
    (h1 : sizetotal ≠ 0) (h2 : ¬ (sizeup = 0 ∧ sizedown = 0 ∧ sizeside = 0 ∧ sizesame = 0))
    (h3 : ¬ (distup = 0 ∧ distdown = 0 ∧ distside = 0 ∧ distall = 0)) (h4 : distpush > 0) :
    udCheckArgs sizetotal sizeup sizedown sizeside sizesame distall distup distdown distside distpush = none := by
  unfold udCheckArgs
  simp only
  rw [if_neg (fun h => h1 h.1), if_pos ⟨⟨h1, h2⟩, h3, h4⟩]

/-- the command model IS the ranking of the `updown list` records of its two alignments -/
theorem modelTR_eq (ti : TRIn) (a : List Nat × List Nat) (h : ti.args = some a) :
    modelTR ti = trRun ti.opts ti.table (linesOf ti.ref ti.qs) (linesOf ti.ref ti.ts) := by
  simp only [modelTR, h, trRun, CsvFasta.trOutput, CsvFasta.topRankingAll_linesOf]
  rfl

/-- an input of topranking: an alignment (FASTA bytes) or the CSV `updown list` wrote (CSV bytes) -/
inductive Src where
  | fasta (text : List Nat)
  | csv (text : List Nat)

/-- the records of one input. A FASTA input needs the reference file (one record) and rows of its width; a CSV input
is read by `readUDL` (header check, row parsing) -/
def loadSrc (refText : List Nat) : Src → Option (List UDLine)
  | .csv text => linesOfCsv text
  | .fasta text =>
    match refOfText false refText with
    | none => none
    | some ref => (rowsOfText false ref text).map fun qs => linesOf (ref.seq.map dec) (qs.map rawOf)

/-- `updown topranking` on the bytes of its inputs; options, thresholds and output form taken from `ti`
(`ti.ref`, `ti.qs`, `ti.ts` are not used) -/
def trOnText (ti : TRIn) (refText : List Nat) (q t : Src) : String :=
  match ti.args with
  | none => errorOut
  | some _ =>
    match loadSrc refText q, loadSrc refText t with
    | some ql, some tl => trRun ti.opts ti.table ql tl
    | _, _ => errorOut

theorem trOnText_no_option (ti : TRIn) (refText : List Nat) (q t : Src) (h : ti.args = none) :
    trOnText ti refText q t = errorOut := by
  simp [trOnText, h]

theorem trOnText_query_refused (ti : TRIn) (refText : List Nat) (q t : Src) (h : loadSrc refText q = none) :
    trOnText ti refText q t = errorOut := by
  unfold trOnText
  cases ti.args <;> simp [h]

theorem trOnText_target_refused (ti : TRIn) (refText : List Nat) (q t : Src) (h : loadSrc refText t = none) :
    trOnText ti refText q t = errorOut := by
  unfold trOnText
  cases ti.args with
  | none => rfl
  | some a => cases loadSrc refText q <;> simp [h]

/-- either input refused -/
theorem trOnText_input_refused (ti : TRIn) (refText : List Nat) (q t : Src)
    (h : loadSrc refText q = none ∨ loadSrc refText t = none) : trOnText ti refText q t = errorOut := by
  rcases h with h | h
  · exact trOnText_query_refused ti refText q t h
  · exact trOnText_target_refused ti refText q t h

/-! ### CSV inputs -/

/-- **CSV refused by the reader** (empty, wrong header, unparsable row, bad quoting, ragged rows) -/
theorem loadSrc_csv_error (refText text : List Nat) (h : Csv.readUDL text = .error) : loadSrc refText (.csv text) = none := by
  simp [loadSrc, linesOfCsv, h]

/-- a panic of the CSV reader is not a success either -/
theorem loadSrc_csv_panic (refText text : List Nat) (h : Csv.readUDL text = .panic) : loadSrc refText (.csv text) = none := by
  simp [loadSrc, linesOfCsv, h]

/-- **CSV that is not `updown list` output**: the first record is not the five-column header -/
theorem loadSrc_csv_header (refText text : List Nat)
    (h : (Csv.readRecs text).1.head? ≠ some (Csv.splitB Csv.comma Csv.headerB)) : loadSrc refText (.csv text) = none :=
  loadSrc_csv_error refText text (Props.C18.csv_bytes_header_refused text h)

/-- **empty CSV** (no byte, or blank lines only) -/
theorem loadSrc_csv_empty (refText : List Nat) :
    loadSrc refText (.csv []) = none ∧ loadSrc refText (.csv [Csv.nl]) = none ∧
    loadSrc refText (.csv [Csv.cr, Csv.nl, Csv.nl]) = none :=
  ⟨loadSrc_csv_error _ _ Props.C18.csv_bytes_empty_refused.1, loadSrc_csv_error _ _ Props.C18.csv_bytes_empty_refused.2.1,
    loadSrc_csv_error _ _ Props.C18.csv_bytes_empty_refused.2.2⟩

/-- **topranking, CSV query or target that is empty or not `updown list` output** -/
theorem trOnText_csv_header (ti : TRIn) (refText : List Nat) (bad : List Nat) (other : Src)
    (h : (Csv.readRecs bad).1.head? ≠ some (Csv.splitB Csv.comma Csv.headerB)) :
    trOnText ti refText (.csv bad) other = errorOut ∧ trOnText ti refText other (.csv bad) = errorOut :=
  ⟨trOnText_query_refused _ _ _ _ (loadSrc_csv_header refText bad h),
   trOnText_target_refused _ _ _ _ (loadSrc_csv_header refText bad h)⟩

theorem trOnText_csv_empty (ti : TRIn) (refText : List Nat) (other : Src) :
    trOnText ti refText (.csv []) other = errorOut ∧ trOnText ti refText other (.csv []) = errorOut :=
  ⟨trOnText_query_refused _ _ _ _ (loadSrc_csv_empty refText).1, trOnText_target_refused _ _ _ _ (loadSrc_csv_empty refText).1⟩

theorem trOnText_csv_error (ti : TRIn) (refText : List Nat) (bad : List Nat) (other : Src) (h : Csv.readUDL bad = .error) :
    trOnText ti refText (.csv bad) other = errorOut ∧ trOnText ti refText other (.csv bad) = errorOut :=
  ⟨trOnText_query_refused _ _ _ _ (loadSrc_csv_error refText bad h),
   trOnText_target_refused _ _ _ _ (loadSrc_csv_error refText bad h)⟩

/-! ### FASTA inputs -/

theorem loadSrc_fasta_error (refText text : List Nat) (h : ∃ e, readFasta (.encoded false) text = .error e) :
    loadSrc refText (.fasta text) = none := by
  unfold loadSrc
  cases refOfText false refText with
  | none => rfl
  | some ref => simp [rowsOfText_of_error false ref text h]

theorem loadSrc_fasta_ref_refused (refText text : List Nat) (h : refOfText false refText = none) :
    loadSrc refText (.fasta text) = none := by
  simp [loadSrc, h]

theorem loadSrc_fasta_width (refText text : List Nat) (ref : FaRec) (qs : List FaRec) (hr : refOfText false refText = some ref)
    (hq : readFasta (.encoded false) text = .ok qs) (hw : ∃ q ∈ qs, q.seq.length ≠ ref.seq.length) :
    loadSrc refText (.fasta text) = none := by
  simp [loadSrc, hr, rowsOfText_width_mismatch false ref text qs hq hw]

/-- **topranking, bad symbol** in a FASTA query or target -/
theorem trOnText_bad_symbol (ti : TRIn) (refText text : List Nat) (other : Src) (pre post : List (List Nat)) (bad : List Nat)
    (hl : splitLines text = pre ++ bad :: post) (hne : bad ≠ []) (hh : bad.head? ≠ some 62)
    (hb : ∃ b ∈ bad, enc false b = 0) :
    trOnText ti refText (.fasta text) other = errorOut ∧ trOnText ti refText other (.fasta text) = errorOut :=
  have h := loadSrc_fasta_error refText text (readFasta_bad_symbol false text pre post bad hl hne hh hb)
  ⟨trOnText_query_refused _ _ _ _ h, trOnText_target_refused _ _ _ _ h⟩

/-- **topranking, rows of unequal length** in a FASTA query or target -/
theorem trOnText_unequal_rows (ti : TRIn) (refText text : List Nat) (other : Src) (r0 : LRec) (pre : List LRec) (r : LRec)
    (post : List LRec) (hl : splitLines text = renderLines (r0 :: pre ++ r :: post))
    (hseq : ∀ x ∈ r0 :: pre ++ r :: post, ∀ l ∈ x.chunks, SeqLine l)
    (hw : r.seq.length ≠ r0.seq.length) :
    trOnText ti refText (.fasta text) other = errorOut ∧ trOnText ti refText other (.fasta text) = errorOut :=
  have h := loadSrc_fasta_error refText text (readFasta_unequal_rows _ text r0 pre r post hl hseq hw)
  ⟨trOnText_query_refused _ _ _ _ h, trOnText_target_refused _ _ _ _ h⟩

/-- **topranking, empty FASTA** query or target -/
theorem trOnText_empty_file (ti : TRIn) (refText text : List Nat) (other : Src) (he : ∀ l ∈ splitLines text, l = []) :
    trOnText ti refText (.fasta text) other = errorOut ∧ trOnText ti refText other (.fasta text) = errorOut :=
  have h := loadSrc_fasta_error refText text (readFasta_of_fails _ _ (fails_blank_lines _ _ he))
  ⟨trOnText_query_refused _ _ _ _ h, trOnText_target_refused _ _ _ _ h⟩

/-- **topranking, reference file refused** (reader error, or more than one record) while an input is FASTA -/
theorem trOnText_ref_refused (ti : TRIn) (refText text : List Nat) (other : Src) (hr : refOfText false refText = none) :
    trOnText ti refText (.fasta text) other = errorOut ∧ trOnText ti refText other (.fasta text) = errorOut :=
  have h := loadSrc_fasta_ref_refused refText text hr
  ⟨trOnText_query_refused _ _ _ _ h, trOnText_target_refused _ _ _ _ h⟩

/-- **topranking, reference and alignment of different widths** -/
theorem trOnText_width_mismatch (ti : TRIn) (refText text : List Nat) (other : Src) (ref : FaRec) (qs : List FaRec)
    (hr : refOfText false refText = some ref) (hq : readFasta (.encoded false) text = .ok qs)
    (hw : ∃ q ∈ qs, q.seq.length ≠ ref.seq.length) :
    trOnText ti refText (.fasta text) other = errorOut ∧ trOnText ti refText other (.fasta text) = errorOut :=
  have h := loadSrc_fasta_width refText text ref qs hr hq hw
  ⟨trOnText_query_refused _ _ _ _ h, trOnText_target_refused _ _ _ _ h⟩


/-! ## 4. `variants` -/

abbrev PairFn := List Nat → List Nat → List Region → List Nat → List Variant

/-- **variants, reference name not found** (reference looked up by name in the alignment) -/
theorem varCommand_ref_not_found (vi : VarIn) (f : PairFn) (h1 : vi.refmode ≠ "ann") (h2 : vi.refmode ≠ "stdin")
    (h : ∀ r ∈ vi.recs, r.1 ≠ vi.refname) : varCommand vi f = "!error" := by
  have hfind : vi.recs.find? (fun r => r.1 == vi.refname) = none := by
    rw [List.find?_eq_none]
    intro r hr
    simpa using h r hr
  have : refAndRows vi = none := by
    unfold refAndRows
    split
    · rename_i heq; exact absurd heq h1
    · rename_i heq; exact absurd heq h2
    · rw [hfind]
  simp [varCommand, this]

/-- the reference choice when the alignment comes on stdin: the first record, which must carry the reference name -/
theorem refAndRows_stdin (vi : VarIn) (h : vi.refmode = "stdin") :
    refAndRows vi = (match vi.recs with
      | (n, s) :: rest => if n == vi.refname then some (s, rest, vi.refname) else none
      | [] => none) := by
  unfold refAndRows
  rw [h]
  rfl

/-- **variants, reference is not the first record of the stream** (alignment on stdin) -/
theorem varCommand_ref_not_first (vi : VarIn) (f : PairFn) (h1 : vi.refmode = "stdin")
    (h : ∀ r, vi.recs.head? = some r → r.1 ≠ vi.refname) : varCommand vi f = "!error" := by
  have : refAndRows vi = none := by
    rw [refAndRows_stdin vi h1]
    cases hr : vi.recs with
    | nil => rfl
    | cons a t =>
      obtain ⟨n, s⟩ := a
      have := h (n, s) (by simp [hr])
      simp [this]
  simp [varCommand, this]

/-- the three ways the reference row and the output rows are chosen -/
theorem refAndRows_msa (vi : VarIn) (h1 : vi.refmode ≠ "ann") (h2 : vi.refmode ≠ "stdin") (n : String) (s : List Nat)
    (h : vi.recs.find? (fun r => r.1 == vi.refname) = some (n, s)) : refAndRows vi = some (s, vi.recs, vi.refname) := by
  unfold refAndRows
  split
  · rename_i heq; exact absurd heq h1
  · rename_i heq; exact absurd heq h2
  · rw [h]

theorem refAndRows_ann (vi : VarIn) (h : vi.refmode = "ann") : refAndRows vi = some (vi.origin, vi.recs, "annotation_fasta") := by
  unfold refAndRows
  rw [h]
  rfl

/-- **variants, GenBank annotation whose ORIGIN has another length than the (de-gapped) reference** -/
theorem varCommand_origin_length (vi : VarIn) (f : PairFn) (refRow : List Nat) (rows : List (String × List Nat))
    (refID : String) (hr : refAndRows vi = some (refRow, rows, refID)) (hgb : vi.annfmt = "gb")
    (hl : (degapUpper refRow).length ≠ vi.origin.length) : varCommand vi f = "!error" := by
  simp [varCommand, hr, hgb, hl]

/-- **variants, the annotation cannot be turned into regions** (a CDS whose length is not a multiple of three, GFF
rows of one CDS on both strands, an untranslatable GFF CDS ...) -/
theorem varCommand_regions_refused (vi : VarIn) (f : PairFn) (refRow : List Nat) (rows : List (String × List Nat))
    (refID : String) (hr : refAndRows vi = some (refRow, rows, refID))
    (hregs : (if vi.annfmt == "gb" then
        (if (degapUpper refRow).length != vi.origin.length then none else regionsFromGenbank vi.gb (degapUpper refRow).length)
      else regionsFromGFF vi.gff (degapUpper refRow)) = none) : varCommand vi f = "!error" := by
  simp only [varCommand, hr]
  rw [hregs]

/-- **variants, an alignment row whose length differs from the reference row's**, whichever row it is -/
theorem varCommand_row_width (vi : VarIn) (f : PairFn) (refRow : List Nat) (rows : List (String × List Nat))
    (refID : String) (hr : refAndRows vi = some (refRow, rows, refID))
    (hw : ∃ r ∈ rows, r.2.length ≠ refRow.length) : varCommand vi f = "!error" := by
  simp only [varCommand, hr]
  split
  · rfl
  · have : (rows.any fun r => r.2.length != refRow.length) = true := by
      obtain ⟨r, hrm, hne⟩ := hw
      exact List.any_eq_true.2 ⟨r, hrm, by simpa using hne⟩
    simp [this]

/-- the same with the reference looked up by name: a row before, at a distance from, or after the reference row -/
theorem varCommand_row_width_msa (vi : VarIn) (f : PairFn) (h1 : vi.refmode ≠ "ann") (h2 : vi.refmode ≠ "stdin")
    (n : String) (s : List Nat) (h : vi.recs.find? (fun r => r.1 == vi.refname) = some (n, s))
    (pre post : List (String × List Nat)) (qn : String) (q : List Nat) (hrecs : vi.recs = pre ++ (qn, q) :: post)
    (hw : q.length ≠ s.length) : varCommand vi f = "!error" :=
  varCommand_row_width vi f s vi.recs vi.refname (refAndRows_msa vi h1 h2 n s h) ⟨(qn, q), by simp [hrecs], hw⟩

/-- `vi` with other alignment records -/
def setRecs (vi : VarIn) (recs : List (String × List Nat)) : VarIn :=
  { annfmt := vi.annfmt, gb := vi.gb, gff := vi.gff, refmode := vi.refmode, refname := vi.refname,
    origin := vi.origin, recs := recs, append := vi.append, start := vi.start, stop := vi.stop,
    agg := vi.agg, thrn := vi.thrn, thrd := vi.thrd }

/-- `variants` with the alignment given as bytes: the alignment through the encoded reader, then `varCommand` on its
records (the other fields of `vi`: annotation, reference choice, options) -/
def varOnText (vi : VarIn) (msaText : List Nat) (f : PairFn) : String :=
  match readFasta (.encoded false) msaText with
  | .error _ => errorOut
  | .ok rs =>
    varCommand (setRecs vi (rs.map rawOf)) f

theorem varOnText_reader_error (vi : VarIn) (msaText : List Nat) (f : PairFn)
    (h : ∃ e, readFasta (.encoded false) msaText = .error e) : varOnText vi msaText f = errorOut := by
  obtain ⟨e, he⟩ := h
  simp [varOnText, he]

theorem varOnText_bad_symbol (vi : VarIn) (msaText : List Nat) (f : PairFn) (pre post : List (List Nat)) (bad : List Nat)
    (hl : splitLines msaText = pre ++ bad :: post) (hne : bad ≠ []) (hh : bad.head? ≠ some 62)
    (hb : ∃ b ∈ bad, enc false b = 0) : varOnText vi msaText f = errorOut :=
  varOnText_reader_error vi msaText f (readFasta_bad_symbol false msaText pre post bad hl hne hh hb)

theorem varOnText_unequal_rows (vi : VarIn) (msaText : List Nat) (f : PairFn) (r0 : LRec) (pre : List LRec) (r : LRec)
    (post : List LRec) (hl : splitLines msaText = renderLines (r0 :: pre ++ r :: post))
    (hseq : ∀ x ∈ r0 :: pre ++ r :: post, ∀ l ∈ x.chunks, SeqLine l)
    (hw : r.seq.length ≠ r0.seq.length) : varOnText vi msaText f = errorOut :=
  varOnText_reader_error vi msaText f (readFasta_unequal_rows _ msaText r0 pre r post hl hseq hw)

theorem varOnText_empty_file (vi : VarIn) (msaText : List Nat) (f : PairFn) (h : ∀ l ∈ splitLines msaText, l = []) :
    varOnText vi msaText f = errorOut :=
  varOnText_reader_error vi msaText f (readFasta_of_fails _ _ (fails_blank_lines _ _ h))

/-- the reference name is not among the IDs of the alignment file -/
theorem varOnText_ref_not_found (vi : VarIn) (msaText : List Nat) (f : PairFn) (h1 : vi.refmode ≠ "ann")
    (h2 : vi.refmode ≠ "stdin") (rs : List FaRec) (hr : readFasta (.encoded false) msaText = .ok rs)
    (h : ∀ r ∈ rs, bytesToString r.id ≠ vi.refname) : varOnText vi msaText f = errorOut := by
  simp only [varOnText, hr]
  refine varCommand_ref_not_found (setRecs vi (rs.map rawOf)) f h1 h2 ?_
  intro r hrm
  obtain ⟨x, hx, rfl⟩ := List.mem_map.1 hrm
  exact h x hx

/-! ## 5. `sam toMultiAlign`, `sam toPairAlign`, `sam variants` -/

/-- checkArgs refuses exactly the windows that, after the defaults for absent coordinates (-1), are not inside
1..reference length or have start > end -/
theorem checkArgs_none_iff (L : Nat) (start stop : Int) :
    checkArgs L start stop = none ↔
      ((if start = -1 then 1 else start) < 1 ∨ (if start = -1 then 1 else start) > L ∨
       (if stop = -1 then (L : Int) else stop) < 1 ∨ (if stop = -1 then (L : Int) else stop) > L ∨
       (if start = -1 then 1 else start) > (if stop = -1 then (L : Int) else stop)) := by
  unfold checkArgs
  simp only
  generalize (if start = -1 then (1 : Int) else start) = s
  generalize (if stop = -1 then (L : Int) else stop) = e
  by_cases h1 : s > (L : Int) ∨ s < 1
  · rw [if_pos h1]
    exact ⟨fun _ => (by omega), fun _ => rfl⟩
  · rw [if_neg h1]
    by_cases h2 : e > (L : Int) ∨ e < 1
    · rw [if_pos h2]
      exact ⟨fun _ => (by omega), fun _ => rfl⟩
    · rw [if_neg h2]
      by_cases h3 : s > e
      · rw [if_pos h3]
        exact ⟨fun _ => (by omega), fun _ => rfl⟩
      · rw [if_neg h3]
        exact ⟨fun h => (by cases h), fun h => (by exfalso; omega)⟩

/-- a bad window in the terms of property C18 (both coordinates given) -/
def BadWindow (L : Nat) (s e : Int) : Prop := s < 1 ∨ s > L ∨ e < 1 ∨ e > L ∨ s > e

theorem checkArgs_bad_window (L : Nat) (s e : Int) (hs : s ≠ -1) (he : e ≠ -1) (h : BadWindow L s e) :
    checkArgs L s e = none := by
  have := Props.C18.window_refused L s e hs he h
  simpa [refusesWindow] using this

/-- only start given (end absent): refused when it is outside 1..L -/
theorem checkArgs_bad_start (L : Nat) (s : Int) (hs : s ≠ -1) (h : s < 1 ∨ s > L) : checkArgs L s (-1) = none := by
  rw [checkArgs_none_iff]
  simp only [hs, if_false, if_true]
  rcases h with h | h
  · exact Or.inl h
  · exact Or.inr (Or.inl h)

/-- only end given (start absent) -/
theorem checkArgs_bad_end (L : Nat) (e : Int) (he : e ≠ -1) (h : e < 1 ∨ e > L) : checkArgs L (-1) e = none := by
  rw [checkArgs_none_iff]
  simp only [he, if_false, if_true]
  rcases h with h | h
  · exact Or.inr (Or.inr (Or.inl h))
  · exact Or.inr (Or.inr (Or.inr (Or.inl h)))

/-- a reference of length 0 is refused whatever the window -/
theorem checkArgs_empty_reference (s e : Int) : checkArgs 0 s e = none := by
  rw [checkArgs_none_iff]
  by_cases h : s = -1
  · simp [h]
  · simp only [h, if_false]; omega

/-- **toMultiAlign, bad window** -/
theorem toMultiAlign_window (L : Nat) (o : TomaOpts) (recs : List SamRec) (h : checkArgs L o.start o.stop = none) :
    toMultiAlign L o recs = none := by
  simp [toMultiAlign, h]

theorem toMultiAlign_bad_window (L : Nat) (o : TomaOpts) (recs : List SamRec) (hs : o.start ≠ -1) (he : o.stop ≠ -1)
    (h : BadWindow L o.start o.stop) : toMultiAlign L o recs = none :=
  toMultiAlign_window L o recs (checkArgs_bad_window L _ _ hs he h)

/-- the command model prints the error result -/
theorem toma_text_bad_window (L : Nat) (o : TomaOpts) (recs : List SamRec) (hs : o.start ≠ -1) (he : o.stop ≠ -1)
    (h : BadWindow L o.start o.stop) : optText (toMultiAlign L o recs) = "!error" := by
  rw [toMultiAlign_bad_window L o recs hs he h]; rfl

/-- **toPairAlign, bad window** -/
theorem toPairAlign_window (ref : List Nat) (refName : String) (start stop wrap : Int) (omitRef omitIns : Bool)
    (recs : List SamRec) (h : checkArgs ref.length start stop = none) :
    toPairAlign ref refName start stop wrap omitRef omitIns recs = none := by
  simp [toPairAlign, h]

theorem toPairAlign_bad_window (ref : List Nat) (refName : String) (start stop wrap : Int) (omitRef omitIns : Bool)
    (recs : List SamRec) (hs : start ≠ -1) (he : stop ≠ -1) (h : BadWindow ref.length start stop) :
    toPairAlign ref refName start stop wrap omitRef omitIns recs = none :=
  toPairAlign_window ref refName start stop wrap omitRef omitIns recs (checkArgs_bad_window _ _ _ hs he h)

theorem topa_text_bad_window (ref : List Nat) (refName : String) (start stop wrap : Int) (omitRef omitIns : Bool)
    (recs : List SamRec) (hs : start ≠ -1) (he : stop ≠ -1) (h : BadWindow ref.length start stop) :
    topaText (toPairAlign ref refName start stop wrap omitRef omitIns recs) = "!error" := by
  rw [toPairAlign_bad_window ref refName start stop wrap omitRef omitIns recs hs he h]; rfl


/-! ### 5a. the SAM stream -/

open Gofasta.Model.SamText in
/-- **empty SAM stream** -/
theorem samRecsOfText_empty : FromBytes.samRecsOfText [] = none := rfl

open Gofasta.Model.SamText in
/-- a stream whose header holds no reference gives the commands nothing to work with -/
theorem samRecsOfText_of_no_refs (text : List Nat) (h : Hdr) (recs : List Rec) (e : End) (after : List RefView)
    (hread : readSam text = .ok h recs e after) (hr : h.refs = []) : FromBytes.samRecsOfText text = none := by
  unfold FromBytes.samRecsOfText SamRT.readRows
  rw [hread]
  cases e <;> simp [hr]

open Gofasta.Model.SamText in
/-- **header-less SAM stream**: a text that does not start with '@' has no @SQ line: no reference length -/
theorem samRecsOfText_headerless (c : Nat) (t : List Nat) (hc : c ≠ bAt) : FromBytes.samRecsOfText (c :: t) = none := by
  have : ∃ recs e after, readSam (c :: t) = .ok {} recs e after := by
    simp only [readSam, hc, ne_eq, not_false_eq_true, if_true]
    exact ⟨_, _, _, rfl⟩
  obtain ⟨recs, e, after, hread⟩ := this
  exact samRecsOfText_of_no_refs (c :: t) {} recs e after hread rfl

open Gofasta.Model.SamText in
theorem bind_ok {ε α β : Type} (r : Res ε α) (f : α → Res ε β) (b : β) (h : r.bind f = .ok b) :
    ∃ a, r = .ok a ∧ f a = .ok b := by
  cases r with
  | ok a => exact ⟨a, rfl, h⟩
  | err x => cases h
  | panic => cases h
  | unsup => cases h

open Gofasta.Model.SamText in
theorem hdFields_refs : ∀ (fs : List Bytes) (h h' : Hdr), hdFields fs h = .ok h' → h'.refs = h.refs := by
  intro fs
  induction fs with
  | nil => intro h h' e; simp only [hdFields] at e; cases e; rfl
  | cons f rest ih =>
    intro h h' e
    simp only [hdFields] at e
    obtain ⟨tv, _, e⟩ := bind_ok _ _ _ e
    split at e
    · split at e
      · cases e
      · have := ih _ _ e; exact this
    · split at e
      · split at e
        · cases e
        · have := ih _ _ e; exact this
      · split at e
        · split at e
          · cases e
          · have := ih _ _ e; exact this
        · have := ih _ _ e; exact this

open Gofasta.Model.SamText in
theorem headerLine_refs (l : Bytes) (h h' : Hdr) (e : headerLine l h = .ok h') : h'.refs = h.refs := by
  unfold headerLine at e
  dsimp only at e
  split at e
  · cases e
  · obtain ⟨h1, hf, e⟩ := bind_ok _ _ _ e
    split at e
    · cases e
    · cases e; exact hdFields_refs _ _ _ hf

open Gofasta.Model.SamText in
theorem readGroupLine_refs (l : Bytes) (h h' : Hdr) (e : readGroupLine l h = .ok h') : h'.refs = h.refs := by
  unfold readGroupLine at e
  dsimp only at e
  split at e
  · cases e
  · obtain ⟨id, _, e⟩ := bind_ok _ _ _ e
    cases id with
    | none => cases e
    | some n => cases e; rfl

open Gofasta.Model.SamText in
theorem programLine_refs (l : Bytes) (h h' : Hdr) (e : programLine l h = .ok h') : h'.refs = h.refs := by
  unfold programLine at e
  dsimp only at e
  split at e
  · cases e
  · obtain ⟨id, _, e⟩ := bind_ok _ _ _ e
    cases id with
    | none => cases e
    | some n => cases e; rfl

open Gofasta.Model.SamText in
theorem commentLine_refs (l : Bytes) (h h' : Hdr) (e : commentLine l h = .ok h') : h'.refs = h.refs := by
  unfold commentLine at e
  dsimp only at e
  split at e
  · cases e
  · cases e; rfl

open Gofasta.Model.SamText in
/-- the record type of a header line: the two bytes after '@' -/
def lineTag (l : Bytes) : Bytes := ((stripCr l).drop 1).take 2

open Gofasta.Model.SamText in
/-- header lines none of which is an @SQ line add no reference -/
theorem headerLines_refs : ∀ (hl : List Bytes) (i : Nat) (h h' : Hdr), (∀ l ∈ hl, lineTag l ≠ tSQ) →
    headerLines hl i h = .ok h' → h'.refs = h.refs := by
  intro hl
  induction hl with
  | nil => intro i h h' _ e; simp only [headerLines] at e; cases e; rfl
  | cons l0 rest ih =>
    intro i h h' hno e
    have hl0 : ((stripCr l0).drop 1).take 2 ≠ tSQ := hno l0 (by simp)
    have hrest : ∀ l ∈ rest, lineTag l ≠ tSQ := fun l hl => hno l (by simp [hl])
    simp only [headerLines] at e
    split at e
    · exact ih _ _ _ hrest e
    · split at e
      · cases e
      · by_cases t1 : ((stripCr l0).drop 1).take 2 = tHD
        · simp only [t1, if_true] at e
          cases hr : headerLine (stripCr l0) h with
          | ok h1 => simp only [hr] at e; rw [ih _ _ _ hrest e, headerLine_refs _ _ _ hr]
          | err x => simp [hr] at e
          | panic => simp [hr] at e
          | unsup => simp [hr] at e
        · simp only [t1, if_false] at e
          by_cases t2 : ((stripCr l0).drop 1).take 2 = tRG
          · simp only [t2, if_true] at e
            cases hr : readGroupLine (stripCr l0) h with
            | ok h1 => simp only [hr] at e; rw [ih _ _ _ hrest e, readGroupLine_refs _ _ _ hr]
            | err x => simp [hr] at e
            | panic => simp [hr] at e
            | unsup => simp [hr] at e
          · simp only [t2, if_false] at e
            by_cases t3 : ((stripCr l0).drop 1).take 2 = tPG
            · simp only [t3, if_true] at e
              cases hr : programLine (stripCr l0) h with
              | ok h1 => simp only [hr] at e; rw [ih _ _ _ hrest e, programLine_refs _ _ _ hr]
              | err x => simp [hr] at e
              | panic => simp [hr] at e
              | unsup => simp [hr] at e
            · simp only [t3, if_false] at e
              by_cases t4 : ((stripCr l0).drop 1).take 2 = tCO
              · simp only [t4, if_true] at e
                cases hr : commentLine (stripCr l0) h with
                | ok h1 => simp only [hr] at e; rw [ih _ _ _ hrest e, commentLine_refs _ _ _ hr]
                | err x => simp [hr] at e
                | panic => simp [hr] at e
                | unsup => simp [hr] at e
              · simp only [t4, if_false] at e
                cases e

open Gofasta.Model.SamText in
theorem takeHeader_subset : ∀ (ls : List Bytes) (rest : Bytes) (hl rl : List Bytes), takeHeader ls rest = some (hl, rl) →
    ∀ l ∈ hl, l ∈ ls := by
  intro ls
  induction ls with
  | nil =>
    intro rest hl rl e
    simp only [takeHeader] at e
    split at e
    · cases e
    · cases e; intro l hl; cases hl
  | cons a t ih =>
    intro rest hl rl e
    simp only [takeHeader] at e
    split at e
    · cases hth : takeHeader t rest with
      | none => simp [hth] at e
      | some p =>
        obtain ⟨h1, r1⟩ := p
        simp only [hth, Option.some.injEq, Prod.mk.injEq] at e
        obtain ⟨rfl, rfl⟩ := e
        intro l hl
        rcases List.mem_cons.1 hl with rfl | hl
        · simp
        · exact List.mem_cons_of_mem _ (ih rest h1 r1 hth l hl)
    · cases e; intro l hl; cases hl

open Gofasta.Model.SamText in
/-- **SAM stream without any @SQ line** (no terminated line whose type is SQ): the commands have no reference length
to work with; `samRecsOfText` gives nothing. Covers the empty stream and the header-less stream -/
theorem samRecsOfText_no_sq (text : List Nat) (h : ∀ l ∈ (SamText.linesOf text).1, lineTag l ≠ tSQ) :
    FromBytes.samRecsOfText text = none := by
  cases text with
  | nil => rfl
  | cons c t =>
    by_cases hc : c = bAt
    · subst hc
      cases hth : takeHeader (SamText.linesOf (bAt :: t)).1 (SamText.linesOf (bAt :: t)).2 with
      | none => simp [FromBytes.samRecsOfText, SamRT.readRows, readSam, hth]
      | some p =>
        obtain ⟨hl, rl⟩ := p
        cases hh : headerLines hl 0 {} with
        | err e => simp [FromBytes.samRecsOfText, SamRT.readRows, readSam, hth, hh]
        | panic => simp [FromBytes.samRecsOfText, SamRT.readRows, readSam, hth, hh]
        | unsup => simp [FromBytes.samRecsOfText, SamRT.readRows, readSam, hth, hh]
        | ok hd =>
          have hrefs : hd.refs = [] :=
            headerLines_refs hl 0 {} hd (fun l hlm => h l (takeHeader_subset _ _ _ _ hth l hlm)) hh
          refine samRecsOfText_of_no_refs _ hd (readWithHeader hd.refs rl).1 (readWithHeader hd.refs rl).2
            (hd.refs.map Ref.view) ?_ hrefs
          simp [readSam, hth, hh]
    · exact samRecsOfText_headerless c t hc

/-- **toMultiAlign on bytes: SAM stream refused** -/
theorem tomaOfText_sam_refused (o : TomaOpts) (text : List Nat) (h : FromBytes.samRecsOfText text = none) :
    FromBytes.tomaOfText o text = none := by
  simp [FromBytes.tomaOfText, h]

/-- **toMultiAlign on bytes: bad window** (against the length of the @SQ line) -/
theorem tomaOfText_bad_window (o : TomaOpts) (text : List Nat) (hs : o.start ≠ -1) (he : o.stop ≠ -1)
    (h : ∀ n L recs, FromBytes.samRecsOfText text = some (n, L, recs) → BadWindow L o.start o.stop) :
    FromBytes.tomaOfText o text = none := by
  unfold FromBytes.tomaOfText
  cases hr : FromBytes.samRecsOfText text with
  | none => rfl
  | some p =>
    obtain ⟨n, L, recs⟩ := p
    exact toMultiAlign_bad_window L o recs hs he (h n L recs hr)

theorem tomaOfText_empty (o : TomaOpts) : FromBytes.tomaOfText o [] = none := rfl

theorem tomaOfText_no_sq (o : TomaOpts) (text : List Nat)
    (h : ∀ l ∈ (SamText.linesOf text).1, lineTag l ≠ SamText.tSQ) : FromBytes.tomaOfText o text = none :=
  tomaOfText_sam_refused o text (samRecsOfText_no_sq text h)

/-- **toPairAlign on bytes: SAM stream refused** -/
theorem topaOfText_sam_refused (ref : List Nat) (refName : String) (start stop wrap : Int) (omitRef omitIns : Bool)
    (text : List Nat) (h : FromBytes.samRecsOfText text = none) :
    FromBytes.topaOfText ref refName start stop wrap omitRef omitIns text = none := by
  simp [FromBytes.topaOfText, h]

/-- **toPairAlign on bytes: bad window** (against the length of the reference sequence) -/
theorem topaOfText_bad_window (ref : List Nat) (refName : String) (start stop wrap : Int) (omitRef omitIns : Bool)
    (text : List Nat) (hs : start ≠ -1) (he : stop ≠ -1) (h : BadWindow ref.length start stop) :
    FromBytes.topaOfText ref refName start stop wrap omitRef omitIns text = none := by
  unfold FromBytes.topaOfText
  cases hr : FromBytes.samRecsOfText text with
  | none => rfl
  | some p =>
    obtain ⟨n, L, recs⟩ := p
    exact toPairAlign_bad_window ref refName start stop wrap omitRef omitIns recs hs he h

/-- `sam toPairAlign` with the reference given as the bytes of its FASTA file: the plain reader (upper-cased text),
exactly one record (`refusesReferenceCount`), then `topaOfText` with that record's sequence and ID -/
def topaOnTexts (refText : List Nat) (start stop wrap : Int) (omitRef omitIns : Bool) (samText : List Nat) :
    Option (List (String × String)) :=
  match readFasta .plain refText with
  | .error _ => none
  | .ok rs =>
    if refusesReferenceCount rs.length then none
    else match rs.head? with
      | none => none
      | some r => FromBytes.topaOfText r.seq (bytesToString r.id) start stop wrap omitRef omitIns samText

section topa
variable (refText : List Nat) (start stop wrap : Int) (omitRef omitIns : Bool) (samText : List Nat)

/-- **toPairAlign, reference file refused by the reader** (empty, no header, rows of unequal length) -/
theorem topaOnTexts_ref_error (h : ∃ e, readFasta .plain refText = .error e) :
    topaOnTexts refText start stop wrap omitRef omitIns samText = none := by
  obtain ⟨e, he⟩ := h
  simp [topaOnTexts, he]

theorem topaOnTexts_empty_ref (h : ∀ l ∈ splitLines refText, l = []) :
    topaOnTexts refText start stop wrap omitRef omitIns samText = none :=
  topaOnTexts_ref_error _ _ _ _ _ _ _ (readFasta_of_fails _ _ (fails_blank_lines _ _ h))

/-- **toPairAlign, more than one record in the reference file** -/
theorem topaOnTexts_two_references (rs : List FaRec) (h : readFasta .plain refText = .ok rs) (hn : 1 < rs.length) :
    topaOnTexts refText start stop wrap omitRef omitIns samText = none := by
  simp [topaOnTexts, h, Props.C18.reference_count_refused rs.length hn]

/-- **toPairAlign, SAM stream refused** -/
theorem topaOnTexts_sam_refused (h : FromBytes.samRecsOfText samText = none) :
    topaOnTexts refText start stop wrap omitRef omitIns samText = none := by
  unfold topaOnTexts
  split
  · rfl
  · split
    · rfl
    · split
      · rfl
      · exact topaOfText_sam_refused _ _ _ _ _ _ _ _ h

/-- **toPairAlign, bad window** against the length of the reference record -/
theorem topaOnTexts_bad_window (r : FaRec) (h : readFasta .plain refText = .ok [r]) (hs : start ≠ -1) (he : stop ≠ -1)
    (hw : BadWindow r.seq.length start stop) : topaOnTexts refText start stop wrap omitRef omitIns samText = none := by
  simp only [topaOnTexts, h, List.length_singleton, refusesReferenceCount, bne_self_eq_false, Bool.false_eq_true,
    if_false, List.head?_cons]
  exact topaOfText_bad_window _ _ _ _ _ _ _ _ hs he hw

end topa

/-! ### 5b. `sam variants` -/

/-- `sam variants` on the bytes of the SAM file -/
def samVarOnText (vi : VarIn) (samText : List Nat) (refFromFile : Bool) (refBytes : List Nat) (rname : String) : String :=
  match FromBytes.samRecsOfText samText with
  | none => errorOut
  | some (_, _, recs) =>
    SamVarPipeline.samVarCore vi recs refFromFile refBytes rname samBlocks (fun b r => blockToSeqPair b r) modelPair

theorem samVarOnText_sam_refused (vi : VarIn) (samText : List Nat) (refFromFile : Bool) (refBytes : List Nat)
    (rname : String) (h : FromBytes.samRecsOfText samText = none) :
    samVarOnText vi samText refFromFile refBytes rname = errorOut := by
  simp [samVarOnText, h]

/-- **sam variants, the annotation cannot be turned into regions** -/
theorem samVarCore_regions_refused (vi : VarIn) (recs : List SamRec) (refFromFile : Bool) (refBytes : List Nat)
    (rname : String) (blocksFn : List SamRec → List (List SamRec)) (pairOf : List SamRec → List Nat → List Nat × List Nat)
    (caller : PairFn)
    (h : SamVarPipeline.samRegions vi (SamVarPipeline.refRawOf vi refFromFile refBytes) = none) :
    SamVarPipeline.samVarCore vi recs refFromFile refBytes rname blocksFn pairOf caller = "!error" := by
  simp [SamVarPipeline.samVarCore, SamVarPipeline.samVarOn, h]


/-! ## 6. The converse: well-formed input is not refused -/

theorem recsFrom_seq (g : Nat → Nat) : ∀ (rs : List LRec) (k : Nat), ∀ x ∈ recsFrom g rs k, ∃ y ∈ rs, x.seq = y.seq.map g := by
  intro rs
  induction rs with
  | nil => intro k x hx; simp [recsFrom] at hx
  | cons r t ih =>
    intro k x hx
    simp only [recsFrom, List.mem_cons] at hx
    rcases hx with rfl | hx
    · exact ⟨r, by simp, rfl⟩
    · obtain ⟨y, hy, e⟩ := ih (k + 1) x hx
      exact ⟨y, by simp [hy], e⟩

/-- a well-formed reference file of one record is accepted, in any layout -/
theorem refOfText_valid (hard c1 f1 : Bool) (W : Nat) (r : LRec) (hr : Props.C16.WFFile hard W [r]) :
    refOfText hard (renderText c1 f1 (renderLines [r])) = some (recOf (enc hard) r 0) := by
  have h1 := Props.C16.layout_independent hard c1 f1 W r [] hr
  simp [refOfText, readFastaList, h1, recsFrom, refusesReferenceCount]

/-- a well-formed alignment of the reference's width is accepted, in any layout -/
theorem rowsOfText_valid (hard c2 f2 : Bool) (W : Nat) (r q0 : LRec) (qs : List LRec) (k0 : Nat)
    (hrw : r.seq.length = W) (hq : Props.C16.WFFile hard W (q0 :: qs)) :
    rowsOfText hard (recOf (enc hard) r k0) (renderText c2 f2 (renderLines (q0 :: qs))) =
      some (recsFrom (enc hard) (q0 :: qs) 0) := by
  have h2 := Props.C16.layout_independent hard c2 f2 W q0 qs hq
  have hw : refusesWidths (recOf (enc hard) r k0).seq.length
      ((recsFrom (enc hard) (q0 :: qs) 0).map fun q => q.seq.length) = false := by
    apply Props.C18.widths_accepted
    intro w hwm
    obtain ⟨x, hx, rfl⟩ := List.mem_map.1 hwm
    obtain ⟨y, hy, e⟩ := recsFrom_seq (enc hard) (q0 :: qs) 0 x hx
    rw [e]
    simp [recOf, hq.width y hy, hrw]
  simp only [rowsOfText, h2, hw, Bool.false_eq_true, if_false]

/-- **well-formed files are accepted**: a reference file of one record and an alignment of records of the same
width, over the accepted alphabet, in any layout: the command runs on exactly those records -/
theorem aligned_valid (hard c1 f1 c2 f2 : Bool) (W : Nat) (r q0 : LRec) (qs : List LRec)
    (hr : Props.C16.WFFile hard W [r]) (hq : Props.C16.WFFile hard W (q0 :: qs)) (k : FaRec → List FaRec → String) :
    alignedCommand hard (renderText c1 f1 (renderLines [r])) (renderText c2 f2 (renderLines (q0 :: qs))) k =
      k (recOf (enc hard) r 0) (recsFrom (enc hard) (q0 :: qs) 0) := by
  simp only [alignedCommand, refOfText_valid hard c1 f1 W r hr,
    rowsOfText_valid hard c2 f2 W r q0 qs 0 (hr.width r (by simp)) hq]

/-- a text that starts with another character than '!' is not the error result -/
theorem ne_error (hd x : String) (c : Char) (h : hd.toList.head? = some c) (hc : c ≠ '!') : hd ++ x ≠ errorOut := by
  intro e
  have e2 := congrArg String.toList e
  rw [String.toList_append] at e2
  cases hl : hd.toList with
  | nil => rw [hl] at h; cases h
  | cons a t =>
    rw [hl] at h e2
    simp only [List.head?_cons, Option.some.injEq] at h
    subst h
    have : errorOut.toList = ['!', 'e', 'r', 'r', 'o', 'r'] := by decide
    rw [this] at e2
    simp only [List.cons_append, List.cons.injEq] at e2
    exact hc e2.1

/-- no success output of `snps`, `updown list`, `topranking` is the error result: each starts with its CSV header -/
theorem snpsOutput_ne_error (hard : Bool) (ref : List Nat) (recs : List (String × List Nat)) :
    snpsOutput hard ref recs ≠ errorOut :=
  ne_error "query,SNPs\n" _ 'q' (by decide) (by decide)

theorem snpsAggregate_ne_error (hard : Bool) (n d : Nat) (ref : List Nat) (recs : List (String × List Nat)) :
    snpsAggregate hard n d ref recs ≠ errorOut :=
  ne_error "SNP,frequency\n" _ 'S' (by decide) (by decide)

theorem udListOutput_ne_error (ref : List Nat) (recs : List (String × List Nat)) : udListOutput ref recs ≠ errorOut :=
  ne_error "query,SNPs,ambiguities,SNPcount,ambcount\n" _ 'q' (by decide) (by decide)

theorem trRun_ne_error (o : TROpts) (table : Bool) (ql tl : List UDLine) : trRun o table ql tl ≠ errorOut := by
  cases table
  · exact ne_error "query,closestsame,closestup,closestdown,closestside\n" _ 'q' (by decide) (by decide)
  · exact ne_error "query,direction,distance,target\n" _ 'q' (by decide) (by decide)

/-- a command whose success output is never the error result gives the error result exactly when the reference file
or the alignment is refused -/
theorem aligned_error_iff (hard : Bool) (refText qText : List Nat) (k : FaRec → List FaRec → String)
    (hk : ∀ ref qs, k ref qs ≠ errorOut) :
    alignedCommand hard refText qText k = errorOut ↔
      (refOfText hard refText = none ∨ ∃ ref, refOfText hard refText = some ref ∧ rowsOfText hard ref qText = none) := by
  unfold alignedCommand
  cases hr : refOfText hard refText with
  | none => simp
  | some ref =>
    simp only [reduceCtorEq, Option.some.injEq, false_or, exists_eq_left']
    cases hq : rowsOfText hard ref qText with
    | none => simp
    | some qs => simpa using hk ref qs

/-- **snps: exactly the refusals of the readers and of the two checks** - the command on bytes gives the error result
if and only if the reference file is not one readable record or the alignment is not readable rows of its width -/
theorem snpsOnText_error_iff (hard agg : Bool) (n d : Nat) (refText qText : List Nat) :
    snpsOnText hard agg n d refText qText = errorOut ↔
      (refOfText hard refText = none ∨ ∃ ref, refOfText hard refText = some ref ∧ rowsOfText hard ref qText = none) := by
  apply aligned_error_iff
  intro ref qs
  cases agg
  · exact snpsOutput_ne_error hard _ _
  · exact snpsAggregate_ne_error hard n d _ _

theorem listOnText_error_iff (refText qText : List Nat) :
    listOnText refText qText = errorOut ↔
      (refOfText false refText = none ∨ ∃ ref, refOfText false refText = some ref ∧ rowsOfText false ref qText = none) :=
  aligned_error_iff false refText qText _ fun _ _ => udListOutput_ne_error _ _

/-- **topranking on bytes: error exactly when the options or an input are refused** -/
theorem trOnText_error_iff (ti : TRIn) (refText : List Nat) (q t : Src) :
    trOnText ti refText q t = errorOut ↔ (ti.args = none ∨ loadSrc refText q = none ∨ loadSrc refText t = none) := by
  unfold trOnText
  cases ha : ti.args with
  | none => simp
  | some a =>
    cases hq : loadSrc refText q with
    | none => simp
    | some ql =>
      cases ht : loadSrc refText t with
      | none => simp
      | some tl => simpa using trRun_ne_error ti.opts ti.table ql tl

/-- the symbols the command sees for a well-formed record: the bytes of the file, upper-cased -/
theorem rawOf_recOf (hard : Bool) (x : LRec) (k : Nat) (h : ∀ b ∈ x.seq, b < 256 ∧ enc hard b ≠ 0) :
    rawOf (recOf (enc hard) x k) = (bytesToString x.id, x.seq.map asciiUpper) := by
  simp only [rawOf, recOf, Props.C16.readers_agree_seq hard x.seq h]

theorem enc_lt (hard : Bool) (b : Nat) (h : enc hard b ≠ 0) : b < 256 := by
  have hl : Gen.encSoft.length = 256 ∧ Gen.encHard.length = 256 := by decide +kernel
  cases Nat.lt_or_ge b 256 with
  | inl h' => exact h'
  | inr h' =>
    exfalso
    apply h
    unfold enc
    cases hard
    · simp [List.getD_eq_getElem?_getD, List.getElem?_eq_none (show Gen.encSoft.length ≤ b by omega)]
    · simp [List.getD_eq_getElem?_getD, List.getElem?_eq_none (show Gen.encHard.length ≤ b by omega)]

theorem wf_seq_bytes (hard : Bool) (W : Nat) (recs : List LRec) (hf : Props.C16.WFFile hard W recs) (x : LRec) (hx : x ∈ recs) :
    ∀ b ∈ x.seq, b < 256 ∧ enc hard b ≠ 0 := by
  intro b hb
  simp only [LRec.seq, List.mem_flatten] at hb
  obtain ⟨l, hl, hbl⟩ := hb
  have := (hf.chunks x hx l hl).2 b hbl
  exact ⟨enc_lt hard b this, this⟩

theorem map_rawOf_recsFrom (hard : Bool) : ∀ (rs : List LRec) (k : Nat), (∀ x ∈ rs, ∀ b ∈ x.seq, b < 256 ∧ enc hard b ≠ 0) →
    (recsFrom (enc hard) rs k).map rawOf = rs.map fun x => (bytesToString x.id, x.seq.map asciiUpper) := by
  intro rs
  induction rs with
  | nil => intro k _; rfl
  | cons r t ih =>
    intro k h
    simp only [recsFrom, List.map_cons, rawOf_recOf hard r k (h r (by simp)), ih (k + 1) (fun x hx => h x (by simp [hx]))]

/-- **snps on well-formed files** (any layout of both files): the command model `snpsOutput` / `snpsAggregate` on the
upper-cased symbols of the files, and in particular not the error result -/
theorem snpsOnText_valid (hard agg c1 f1 c2 f2 : Bool) (n d W : Nat) (r q0 : LRec) (qs : List LRec)
    (hr : Props.C16.WFFile hard W [r]) (hq : Props.C16.WFFile hard W (q0 :: qs)) :
    snpsOnText hard agg n d (renderText c1 f1 (renderLines [r])) (renderText c2 f2 (renderLines (q0 :: qs))) =
      (if agg then snpsAggregate hard n d (r.seq.map asciiUpper) ((q0 :: qs).map fun x => (bytesToString x.id, x.seq.map asciiUpper))
       else snpsOutput hard (r.seq.map asciiUpper) ((q0 :: qs).map fun x => (bytesToString x.id, x.seq.map asciiUpper))) := by
  unfold snpsOnText
  rw [aligned_valid hard c1 f1 c2 f2 W r q0 qs hr hq]
  have e1 : (recOf (enc hard) r 0).seq.map dec = r.seq.map asciiUpper := by
    simp only [recOf, Props.C16.readers_agree_seq hard r.seq (wf_seq_bytes hard W [r] hr r (by simp))]
  rw [e1, map_rawOf_recsFrom hard (q0 :: qs) 0 (fun x hx => wf_seq_bytes hard W _ hq x hx)]

theorem listOnText_valid (c1 f1 c2 f2 : Bool) (W : Nat) (r q0 : LRec) (qs : List LRec)
    (hr : Props.C16.WFFile false W [r]) (hq : Props.C16.WFFile false W (q0 :: qs)) :
    listOnText (renderText c1 f1 (renderLines [r])) (renderText c2 f2 (renderLines (q0 :: qs))) =
      udListOutput (r.seq.map asciiUpper) ((q0 :: qs).map fun x => (bytesToString x.id, x.seq.map asciiUpper)) := by
  unfold listOnText
  rw [aligned_valid false c1 f1 c2 f2 W r q0 qs hr hq]
  have e1 : (recOf (enc false) r 0).seq.map dec = r.seq.map asciiUpper := by
    simp only [recOf, Props.C16.readers_agree_seq false r.seq (wf_seq_bytes false W [r] hr r (by simp))]
  rw [e1, map_rawOf_recsFrom false (q0 :: qs) 0 (fun x hx => wf_seq_bytes false W _ hq x hx)]

/-- a good window is accepted by toMultiAlign and toPairAlign -/
theorem toMultiAlign_good_window (L : Nat) (o : TomaOpts) (recs : List SamRec) (hs : o.start ≠ -1) (he : o.stop ≠ -1)
    (h : 1 ≤ o.start ∧ o.start ≤ o.stop ∧ o.stop ≤ L) : (toMultiAlign L o recs).isSome = true := by
  have := Props.C18.window_accepted L o.start o.stop h hs he
  simp only [refusesWindow, Option.isNone_eq_false_iff] at this
  obtain ⟨v, hv⟩ := Option.isSome_iff_exists.1 this
  obtain ⟨a, b, c⟩ := v
  simp [toMultiAlign, hv]

theorem toPairAlign_good_window (ref : List Nat) (refName : String) (start stop wrap : Int) (omitRef omitIns : Bool)
    (recs : List SamRec) (hs : start ≠ -1) (he : stop ≠ -1) (h : 1 ≤ start ∧ start ≤ stop ∧ stop ≤ ref.length) :
    (toPairAlign ref refName start stop wrap omitRef omitIns recs).isSome = true := by
  have := Props.C18.window_accepted ref.length start stop h hs he
  simp only [refusesWindow, Option.isNone_eq_false_iff] at this
  obtain ⟨v, hv⟩ := Option.isSome_iff_exists.1 this
  obtain ⟨a, b, c⟩ := v
  simp [toPairAlign, hv]


/-! ### exactly what `variants` and `sam variants` refuse; the window is not among it -/

/-- the annotation step of `varCommand` -/
def varRegions (vi : VarIn) (refRow : List Nat) : Option (List Region × List Nat) :=
  if vi.annfmt == "gb" then
    (if (degapUpper refRow).length != vi.origin.length then none else regionsFromGenbank vi.gb (degapUpper refRow).length)
  else regionsFromGFF vi.gff (degapUpper refRow)

theorem variantsOutput_ne_error (a : Bool) (s e : Int) (id : String) (rows : List (String × List Variant)) :
    variantsOutput a s e id rows ≠ errorOut :=
  ne_error "query,mutations\n" _ 'q' (by decide) (by decide)

theorem variantsAggregate_ne_error (a : Bool) (s e : Int) (n d : Nat) (id : String) (rows : List (String × List Variant)) :
    variantsAggregate a s e n d id rows ≠ errorOut :=
  ne_error "mutation,frequency\n" _ 'm' (by decide) (by decide)

/-- **variants refuses exactly**: no reference row; no regions from the annotation (which includes the GenBank ORIGIN
length check); an alignment row of another length than the reference row -/
theorem varCommand_error_iff (vi : VarIn) (f : PairFn) :
    varCommand vi f = "!error" ↔
      (refAndRows vi = none ∨ ∃ refRow rows refID, refAndRows vi = some (refRow, rows, refID) ∧
        (varRegions vi refRow = none ∨ ∃ r ∈ rows, r.2.length ≠ refRow.length)) := by
  unfold varCommand
  cases hr : refAndRows vi with
  | none => simp
  | some p =>
    obtain ⟨refRow, rows, refID⟩ := p
    simp only [reduceCtorEq, Option.some.injEq, Prod.mk.injEq, false_or]
    constructor
    · intro h
      refine ⟨refRow, rows, refID, ⟨rfl, rfl, rfl⟩, ?_⟩
      cases hg : varRegions vi refRow with
      | none => exact Or.inl rfl
      | some ri =>
        right
        obtain ⟨regions, inter⟩ := ri
        unfold varRegions at hg
        rw [hg] at h
        simp only at h
        by_cases hw : (rows.any fun r => r.2.length != refRow.length) = true
        · obtain ⟨r, hrm, hne⟩ := List.any_eq_true.1 hw
          exact ⟨r, hrm, by simpa using hne⟩
        · exfalso
          simp only [hw, Bool.false_eq_true, if_false] at h
          cases ha : vi.agg
          · simp only [ha, Bool.false_eq_true, if_false] at h
            exact variantsOutput_ne_error _ _ _ _ _ h
          · simp only [ha, if_true] at h
            exact variantsAggregate_ne_error _ _ _ _ _ _ _ h
    · rintro ⟨refRow', rows', refID', ⟨rfl, rfl, rfl⟩, h⟩
      rcases h with h | h
      · unfold varRegions at h
        rw [h]
      · split
        · rfl
        · have : (rows.any fun r => r.2.length != refRow.length) = true := by
            obtain ⟨r, hrm, hne⟩ := h
            exact List.any_eq_true.2 ⟨r, hrm, by simpa using hne⟩
          simp [this]

/-- `vi` with another window -/
def setWindow (vi : VarIn) (s e : Int) : VarIn :=
  { annfmt := vi.annfmt, gb := vi.gb, gff := vi.gff, refmode := vi.refmode, refname := vi.refname,
    origin := vi.origin, recs := vi.recs, append := vi.append, start := s, stop := e,
    agg := vi.agg, thrn := vi.thrn, thrd := vi.thrd }

/-- **FINDING (model): `variants` never refuses a window.** Whether the command model gives the error result does not
depend on start and end at all: start > end, start < 1, end beyond the reference are all accepted (the window only
filters what is printed) -/
theorem varCommand_window_not_checked (vi : VarIn) (f : PairFn) (s e : Int) :
    varCommand (setWindow vi s e) f = "!error" ↔ varCommand vi f = "!error" := by
  rw [varCommand_error_iff, varCommand_error_iff]
  rfl

/-- **sam variants refuses exactly** when the annotation gives no regions -/
theorem samVarCore_error_iff (vi : VarIn) (recs : List SamRec) (refFromFile : Bool) (refBytes : List Nat)
    (rname : String) (blocksFn : List SamRec → List (List SamRec)) (pairOf : List SamRec → List Nat → List Nat × List Nat)
    (caller : PairFn) :
    SamVarPipeline.samVarCore vi recs refFromFile refBytes rname blocksFn pairOf caller = "!error" ↔
      SamVarPipeline.samRegions vi (SamVarPipeline.refRawOf vi refFromFile refBytes) = none := by
  unfold SamVarPipeline.samVarCore SamVarPipeline.samVarOn
  cases hg : SamVarPipeline.samRegions vi (SamVarPipeline.refRawOf vi refFromFile refBytes) with
  | none => simp
  | some ri =>
    obtain ⟨regions, inter⟩ := ri
    simp only [reduceCtorEq, iff_false]
    cases ha : vi.agg
    · simp only [Bool.false_eq_true, if_false]
      exact variantsOutput_ne_error _ _ _ _ _
    · simp only [if_true]
      exact variantsAggregate_ne_error _ _ _ _ _ _ _

/-- **FINDING (model): `sam variants` never refuses a window** either (no `checkArgs` in this command model) -/
theorem samVarCore_window_not_checked (vi : VarIn) (recs : List SamRec) (refFromFile : Bool) (refBytes : List Nat)
    (rname : String) (blocksFn : List SamRec → List (List SamRec)) (pairOf : List SamRec → List Nat → List Nat × List Nat)
    (caller : PairFn) (s e : Int) :
    SamVarPipeline.samVarCore (setWindow vi s e) recs refFromFile refBytes rname blocksFn pairOf caller = "!error" ↔
      SamVarPipeline.samVarCore vi recs refFromFile refBytes rname blocksFn pairOf caller = "!error" := by
  rw [samVarCore_error_iff, samVarCore_error_iff]
  rfl


/-! ### exactly what `closest`, `toMultiAlign`, `toPairAlign` refuse -/

theorem rowsFor_header (ci : ClosestIn) (hitsFor : List Nat → List Hit) (pick1 : List Hit → Option Hit)
    (pickN : List Hit → List Hit) (snps : List Nat → Nat → List String) :
    (rowsFor ci hitsFor pick1 pickN snps).1.toList.head? = some 'q' := by
  unfold rowsFor
  split <;> (dsimp only; decide)

theorem closestModel_ne_error (ci : ClosestIn) : closestModel ci ≠ errorOut := by
  unfold closestModel renderRows
  simp only
  rw [String.append_assoc]
  exact ne_error _ _ 'q' (rowsFor_header _ _ _ _ _) (by decide)

/-- **closest on bytes refuses exactly**: a file the reader refuses, or first rows of different widths -/
theorem closestOnText_error_iff (ci : ClosestIn) (qText tText : List Nat) :
    closestOnText ci qText tText = errorOut ↔
      ((∃ e, readFasta (.encoded false) qText = .error e) ∨ (∃ e, readFasta (.encoded false) tText = .error e) ∨
       ∃ qs ts, readFasta (.encoded false) qText = .ok qs ∧ readFasta (.encoded false) tText = .ok ts ∧
         firstWidth qs ≠ firstWidth ts) := by
  unfold closestOnText
  cases hq : readFasta (.encoded false) qText with
  | error e => simp
  | ok qs =>
    cases ht : readFasta (.encoded false) tText with
    | error e => simp
    | ok ts =>
      simp only [reduceCtorEq, exists_false, false_or, Except.ok.injEq, exists_and_left, exists_eq_left']
      by_cases hw : firstWidth qs = firstWidth ts
      · simp only [refusesQueryTarget, hw, bne_self_eq_false, Bool.false_eq_true, if_false, ne_eq, not_true_eq_false,
          iff_false]
        exact closestModel_ne_error _
      · simp [refusesQueryTarget, hw]

theorem toMultiAlign_none_iff (L : Nat) (o : TomaOpts) (recs : List SamRec) :
    toMultiAlign L o recs = none ↔ checkArgs L o.start o.stop = none := by
  unfold toMultiAlign
  cases h : checkArgs L o.start o.stop with
  | none => simp
  | some v => obtain ⟨a, b, c⟩ := v; simp

theorem toPairAlign_none_iff (ref : List Nat) (refName : String) (start stop wrap : Int) (omitRef omitIns : Bool)
    (recs : List SamRec) :
    toPairAlign ref refName start stop wrap omitRef omitIns recs = none ↔ checkArgs ref.length start stop = none := by
  unfold toPairAlign
  cases h : checkArgs ref.length start stop with
  | none => simp
  | some v => obtain ⟨a, b, c⟩ := v; simp

/-- toMultiAlign on bytes refuses exactly: the stream, or the window against the @SQ length -/
theorem tomaOfText_none_iff (o : TomaOpts) (text : List Nat) :
    FromBytes.tomaOfText o text = none ↔
      (FromBytes.samRecsOfText text = none ∨
        ∃ n L recs, FromBytes.samRecsOfText text = some (n, L, recs) ∧ checkArgs L o.start o.stop = none) := by
  unfold FromBytes.tomaOfText
  cases h : FromBytes.samRecsOfText text with
  | none => simp
  | some v =>
    obtain ⟨n, L, recs⟩ := v
    simp only [toMultiAlign_none_iff, reduceCtorEq, Option.some.injEq, Prod.mk.injEq, false_or]
    constructor
    · intro hc; exact ⟨n, L, recs, ⟨rfl, rfl, rfl⟩, hc⟩
    · rintro ⟨n', L', recs', ⟨rfl, rfl, rfl⟩, hc⟩; exact hc


/-! ## 7. Concrete inputs: non-vacuity, and the findings -/

/-- string to bytes, for the examples -/
def sb (s : String) : List Nat := stringToBytes s

/-! ### accepted -/

/-- snps, per-sequence and aggregate: CRLF, wrapped and lower-case rows are read; the command is not refused -/
example : snpsOnText false false 0 1 (sb ">r\nACGT\n") (sb ">a x\nACGA\n>b\r\ntc\r\nGT") = "query,SNPs\na,T4A\nb,A1T\n" := by
  decide +kernel
example : snpsOnText false true 0 1 (sb ">r\nACGT\n") (sb ">a x\nACGA\n>b\r\ntc\r\nGT") =
    "SNP,frequency\nA1T,0.500000000\nT4A,0.500000000\n" := by decide +kernel
/-- updown list is not refused on such files (the text itself is not evaluated here: the CSV quoting of `udRow` uses
library string functions the kernel does not unfold; the general statement is `listOnText_valid`) -/
example : listOnText (sb ">r\nACGT\n") (sb ">a x\nACGA\n>b\r\ntn\r\nGT") ≠ errorOut := by
  rw [Ne, listOnText_error_iff]
  have hr : refOfText false (sb ">r\nACGT\n") = some ⟨[114], [114], [136, 40, 72, 24], 0, 48⟩ := by decide +kernel
  rintro (h | ⟨ref, h1, h2⟩)
  · rw [hr] at h; cases h
  · rw [hr] at h1; cases h1; revert h2; decide +kernel

def exCi : ClosestIn := ClosestIn.mk .snp "plain" 0 none [] []
example : closestOnText exCi (sb ">q\nACGT\n") (sb ">t1\nACGA\n>t2\nACGT\n") = "query,closest,distance,SNPs\nq,t2,0,\n" := by
  decide +kernel

def exOpts : TROpts := TROpts.mk [1, 1, 1, 1] [bigN, bigN, bigN, bigN] false 1 10 10000 0 []
/-- options: size-total 4 -/
def exTi : TRIn := TRIn.mk [] [] [] false (udCheckArgs 4 0 0 0 0 0 0 0 0 0) exOpts
def exCsv : List Nat := sb "query,SNPs,ambiguities,SNPcount,ambcount\nt1,T4A,,1,0\nt2,A1T|T4A,,2,0\n"
/-- topranking: FASTA target and CSV target give the same text -/
example : trOnText exTi (sb ">r\nACGT\n") (.fasta (sb ">q\nACGA\n")) (.fasta (sb ">t1\nACGA\n>t2\nTCGA\n")) =
    "query,closestsame,closestup,closestdown,closestside\nq,t1,,t2,\n" := by decide +kernel
example : trOnText exTi (sb ">r\nACGT\n") (.fasta (sb ">q\nACGA\n")) (.csv exCsv) =
    "query,closestsame,closestup,closestdown,closestside\nq,t1,,t2,\n" := by decide +kernel

def exVi : VarIn := VarIn.mk "gff" [] [] "msa" "r" [] [("r", sb "ACGT"), ("a", sb "ACGA")] false (-1) (-1) false 0 1
example : varCommand exVi modelPair = "query,mutations\na,nuc:T4A\n" := by decide +kernel
example : varOnText exVi (sb ">r\nACGT\n>a\nacga\n") modelPair = "query,mutations\na,nuc:T4A\n" := by decide +kernel

/-- toMultiAlign, toPairAlign: a window inside the reference is accepted -/
example : checkArgs 8 2 6 = some (2, 6, true) ∧ checkArgs 8 (-1) (-1) = some (1, 8, false) := by decide

/-! ### refused (instances of the theorems above, evaluated) -/

example : snpsOnText false false 0 1 (sb ">r\nACGT\n") (sb ">a\nACGA\n>b\nAC!T\n") = errorOut := by decide +kernel
example : snpsOnText false false 0 1 (sb ">r\nACGT\n") (sb ">a\nACGA\n>b\nACT\n>c\nACGT\n") = errorOut := by decide +kernel
example : snpsOnText false false 0 1 (sb ">r\nACGT\n") (sb ">a\nACG\n>b\nACT\n") = errorOut := by decide +kernel
example : snpsOnText false false 0 1 (sb ">r\nACGT\n>s\nACGT\n") (sb ">a\nACGA\n") = errorOut := by decide +kernel
example : snpsOnText false false 0 1 [] (sb ">a\nACGA\n") = errorOut := by decide +kernel
example : snpsOnText false false 0 1 (sb ">r\nACGT\n") (sb "\n\n") = errorOut := by decide +kernel
example : closestOnText exCi (sb ">q\nACGT\n") (sb ">t1\nACG\n>t2\nACG\n") = errorOut := by decide +kernel
example : trOnText exTi (sb ">r\nACGT\n") (.fasta (sb ">q\nACGA\n")) (.csv (sb "query,SNPs\nt1,T4A\n")) = errorOut := by
  decide +kernel
example : varCommand (setRecs exVi [("r", sb "ACGT"), ("a", sb "ACG")]) modelPair = "!error" := by decide +kernel
example : varCommand (setRecs exVi [("x", sb "ACGT"), ("a", sb "ACGA")]) modelPair = "!error" := by decide +kernel

/-! ### FINDING 1, repaired: a trailing header is refused -/

/-- the error of a reader result: the IDs of the records delivered before it, and the error class -/
def errIds : Except (List FaRec × RdErr) (List FaRec) → Option (List (List Nat) × RdErr)
  | .error (out, e) => some (out.map (·.id), e)
  | .ok _ => none

/-- **FINDING 1 (repaired) - a trailing header (last record without sequence) is refused.** The readers used to flush
the pending record at the end of the stream only when its buffer was not empty, so an alignment whose LAST row is
empty - a row of another length than the others - was read as success without that row (`Props.C16.old_finish_dropped_last`).
The repaired loop end (`rdFinish`) handles the last record like every other one: every reader reports
"different length sequences" after having delivered record `a` (general statement: `fails_trailing_header`) -/
theorem trailing_header_refused :
    errIds (readFasta .plain (sb ">a\nACGT\n>b\n")) = some ([[97]], .diffLen) ∧
    errIds (readFasta (.encoded false) (sb ">a\nACGT\n>b\n")) = some ([[97]], .diffLen) ∧
    errIds (readFasta (.encoded true) (sb ">a\nACGT\n>b\n")) = some ([[97]], .diffLen) ∧
    FromBytes.errOf (readFastaList false (sb ">a\nACGT\n>b\n")) = some .diffLen := by
  refine ⟨by decide +kernel, by decide +kernel, by decide +kernel, by decide +kernel⟩

/-- hence every command built on the readers refuses the file instead of printing a result without record `b` -/
theorem trailing_header_commands_refused :
    snpsOnText false false 0 1 (sb ">r\nACGT\n") (sb ">a\nACGA\n>b\n") = errorOut ∧
    closestOnText exCi (sb ">q\nACGT\n") (sb ">t1\nACGT\n>t2\n") = errorOut ∧
    varOnText exVi (sb ">r\nACGT\n>a\nACGA\n>b\n") modelPair = errorOut := by
  refine ⟨by decide +kernel, by decide +kernel, by decide +kernel⟩

/-- the general statement behind it: a file of at least two records whose first record is not empty and whose LAST
header is followed by no sequence line is refused by every reader, in every layout of the other records -/
theorem fails_trailing_header (m : Mode) (r0 : LRec) (pre : List LRec) (id d : List Nat)
    (hseq : ∀ x ∈ r0 :: pre, ∀ l ∈ x.chunks, SeqLine l) (hpos : r0.seq ≠ []) :
    Fails m {} (renderLines (r0 :: pre ++ [⟨id, d, []⟩])) := by
  refine fails_unequal_rows m r0 pre ⟨id, d, []⟩ [] ?_ ?_
  · intro x hx l hl
    have hx' : x = r0 ∨ x ∈ pre ∨ x = ⟨id, d, []⟩ := by simpa [List.mem_append] using hx
    rcases hx' with h | h | h
    · exact hseq x (by simp [h]) l hl
    · exact hseq x (by simp [h]) l hl
    · subst h; simp at hl
  · intro h
    apply hpos
    apply List.eq_nil_of_length_eq_zero
    rw [← h]
    simp [LRec.seq]

/-- what is left of the old hypothesis `r.seq ≠ [] ∨ post ≠ []` of `fails_unequal_rows`: nothing. An empty last row is
refused unless ALL rows are empty: two headers and nothing else are two records of width 0 (before the repair: one
record), and one single header is "no record" (`fails_single_header`) -/
example : (readFasta (.encoded false) (sb ">a\n>b\n")).toOption.map (fun rs => rs.map fun r => (r.id, r.seq)) =
    some [([97], []), ([98], [])] := by decide +kernel

example : errIds (readFasta (.encoded false) (sb ">a\n")) = some ([], .empty) := by decide +kernel

/-! ### FINDINGS: inputs with a listed defect that the model accepts -/

/-- **FINDING 2 - `variants` and `sam variants` accept a window with start > end** (general statements:
`varCommand_window_not_checked`, `samVarCore_window_not_checked`): every mutation is filtered out and the run succeeds -/
theorem variants_bad_window_accepted : varCommand (setWindow exVi 3 2) modelPair = "query,mutations\na,\n" := by
  decide +kernel

theorem samVariants_bad_window_accepted :
    SamVarPipeline.samVarCore (setWindow exVi 3 2) [⟨"q", 0, 0, [(0, 4)], sb "ACGA"⟩] true (sb "ACGT") "r" samBlocks
      (fun b r => blockToSeqPair b r) modelPair = "query,mutations\nq,\n" := by decide +kernel

/-- **FINDING 3 - the command model of `variants` has no third annotation format**: whatever is not "gb" is handled
as GFF (the suffix check `refusesSuffix` is a separate function that no command model calls) -/
theorem variants_unknown_format_accepted :
    varCommand (VarIn.mk ".txt" [] [] "msa" "r" [] [("r", sb "ACGT"), ("a", sb "ACGA")] false (-1) (-1) false 0 1) modelPair =
      "query,mutations\na,nuc:T4A\n" := by decide +kernel

/-- **OBSERVATION 4 - the value -1 of a window coordinate means "not given"**, so `--start -1` is not refused although
it is below 1 (the hypotheses `s ≠ -1`, `e ≠ -1` of the window theorems are needed); 0 and -2 are refused -/
theorem minus_one_is_absent : checkArgs 10 (-1) 5 = some (1, 5, true) ∧ checkArgs 10 0 5 = none ∧ checkArgs 10 (-2) 5 = none := by
  decide

/-- **OBSERVATION 5 - toPairAlign does not compare the reference sequence with the @SQ length of the SAM header**:
with a reference of 4 bases and records aligned to a reference of 8, the model prints a pair whose rows have different
lengths (4 and 5 columns) -/
theorem topa_reference_length_not_checked :
    topaOnTexts (sb ">ref\nACGT\n") (-1) (-1) (-1) false false (SamRT.renderSam FromBytes.exName 8 [FromBytes.exR1, FromBytes.exR2]) =
      some [("q", ">ref\nACGT\n>q\nNACNT\n")] := by
  unfold topaOnTexts FromBytes.topaOfText
  rw [FromBytes.samRecsOfText_render FromBytes.exName 8 _ FromBytes.ex_hyps.1 FromBytes.ex_hyps.2.1]
  decide +kernel

/-- the same SAM file with the right reference, and with a bad window / two reference records -/
example : topaOnTexts (sb ">ref\nACGTACGT\n") (-1) (-1) (-1) false false
    (SamRT.renderSam FromBytes.exName 8 [FromBytes.exR1, FromBytes.exR2]) = some [("q", ">ref\nACGTACGT\n>q\nNACNTNNN\n")] := by
  unfold topaOnTexts FromBytes.topaOfText
  rw [FromBytes.samRecsOfText_render FromBytes.exName 8 _ FromBytes.ex_hyps.1 FromBytes.ex_hyps.2.1]
  decide +kernel


/-! ## 8. The defects stated on a rendered file (any layout), and topranking on well-formed files -/

/-- the scanned lines of a rendered file are its lines (LF or CRLF, final line end or not) -/
theorem lines_of_rendered (crlf finalEol : Bool) (lines : List (List Nat)) (h : ∀ l ∈ lines, CleanLine l ∧ l ≠ []) :
    splitLines (renderText crlf finalEol lines) = lines := splitLines_render crlf finalEol lines h

/-- **bad symbol anywhere, on the bytes of a file written in any layout** -/
theorem readFasta_bad_symbol_rendered (hard crlf finalEol : Bool) (pre post : List (List Nat)) (bad : List Nat)
    (hclean : ∀ l ∈ pre ++ bad :: post, CleanLine l ∧ l ≠ []) (hh : bad.head? ≠ some 62)
    (hb : ∃ b ∈ bad, enc hard b = 0) :
    ∃ e, readFasta (.encoded hard) (renderText crlf finalEol (pre ++ bad :: post)) = .error e :=
  readFasta_bad_symbol hard _ pre post bad (lines_of_rendered crlf finalEol _ hclean) (hclean bad (by simp)).2 hh hb

/-- **rows of unequal length, on the bytes of a file written in any layout** -/
theorem readFasta_unequal_rows_rendered (m : Mode) (crlf finalEol : Bool) (r0 : LRec) (pre : List LRec) (r : LRec)
    (post : List LRec) (hclean : ∀ l ∈ renderLines (r0 :: pre ++ r :: post), CleanLine l ∧ l ≠ [])
    (hseq : ∀ x ∈ r0 :: pre ++ r :: post, ∀ l ∈ x.chunks, l.head? ≠ some 62)
    (hw : r.seq.length ≠ r0.seq.length) :
    ∃ e, readFasta m (renderText crlf finalEol (renderLines (r0 :: pre ++ r :: post))) = .error e := by
  refine readFasta_unequal_rows m _ r0 pre r post (lines_of_rendered crlf finalEol _ hclean) ?_ hw
  intro x hx l hl
  refine ⟨(hclean l ?_).2, hseq x hx l hl⟩
  simp only [renderLines, List.mem_flatMap, LRec.lines]
  exact ⟨x, hx, by simp [hl]⟩

/-- a well-formed FASTA input of topranking gives the `updown list` records of its upper-cased rows -/
theorem loadSrc_fasta_valid (c1 f1 c2 f2 : Bool) (W : Nat) (r q0 : LRec) (qs : List LRec)
    (hr : Props.C16.WFFile false W [r]) (hq : Props.C16.WFFile false W (q0 :: qs)) :
    loadSrc (renderText c1 f1 (renderLines [r])) (.fasta (renderText c2 f2 (renderLines (q0 :: qs)))) =
      some (linesOf (r.seq.map asciiUpper) ((q0 :: qs).map fun x => (bytesToString x.id, x.seq.map asciiUpper))) := by
  have e1 : (recOf (enc false) r 0).seq.map dec = r.seq.map asciiUpper := by
    simp only [recOf, Props.C16.readers_agree_seq false r.seq (wf_seq_bytes false W [r] hr r (by simp))]
  simp only [loadSrc, refOfText_valid false c1 f1 W r hr, rowsOfText_valid false c2 f2 W r q0 qs 0 (hr.width r (by simp)) hq,
    Option.map_some, e1, map_rawOf_recsFrom false (q0 :: qs) 0 (fun x hx => wf_seq_bytes false W _ hq x hx)]

/-- **topranking on well-formed FASTA files is the command model `modelTR`** on their upper-cased records (so
`trOnText` extends `modelTR` by the readers and the checks, and changes nothing else) -/
theorem trOnText_valid (ti : TRIn) (a : List Nat × List Nat) (ha : ti.args = some a) (c1 f1 c2 f2 c3 f3 : Bool) (W : Nat)
    (r q0 t0 : LRec) (qs ts : List LRec) (hr : Props.C16.WFFile false W [r]) (hq : Props.C16.WFFile false W (q0 :: qs))
    (ht : Props.C16.WFFile false W (t0 :: ts)) :
    trOnText ti (renderText c1 f1 (renderLines [r])) (.fasta (renderText c2 f2 (renderLines (q0 :: qs))))
        (.fasta (renderText c3 f3 (renderLines (t0 :: ts)))) =
      modelTR (TRIn.mk (r.seq.map asciiUpper) ((q0 :: qs).map fun x => (bytesToString x.id, x.seq.map asciiUpper))
        ((t0 :: ts).map fun x => (bytesToString x.id, x.seq.map asciiUpper)) ti.table ti.args ti.opts) := by
  have hm := modelTR_eq (TRIn.mk (r.seq.map asciiUpper) ((q0 :: qs).map fun x => (bytesToString x.id, x.seq.map asciiUpper))
    ((t0 :: ts).map fun x => (bytesToString x.id, x.seq.map asciiUpper)) ti.table ti.args ti.opts) a ha
  rw [hm]
  simp only [trOnText, ha, loadSrc_fasta_valid c1 f1 c2 f2 W r q0 qs hr hq, loadSrc_fasta_valid c1 f1 c3 f3 W r t0 ts hr ht]

end Gofasta.Lemmas.Refusals
