import Gofasta.Lemmas.FromBytes
import Gofasta.Lemmas.GbRoundTrip
/-
Glue between the GenBank text layer (Model/GbText: `readGenBank`, `getPositions`, `isReverse` on BYTES) and the
annotation model the commands use (Model/Regions: `GbFeature`, `regionFromGenbank`, `regionsFromGenbank`): the
theorems of C14 (Lemmas/RegionEquiv) restated for what is read from the bytes of a GenBank flat file.
-/
namespace Gofasta.Lemmas.FromBytesGb
open Gofasta Model
open Gofasta.Model.Csv (Bytes digitsOf maxInt64)
open Gofasta.Model.GbText
open Gofasta.Lemmas.GbRT (FeatS FeatOk LocOk OriginOk expected qv)
open Gofasta.Lemmas.RegionEquiv (Gene AllDescribe Describes gbRev cdsRows)
open Gofasta.Lemmas.FromBytes (bytesToString_stringToBytes mapM_roundtrip)

deriving instance DecidableEq for GbFeature
deriving instance Repr for GbFeature
deriving instance DecidableEq for FeatS

/-! ## (1) from the text to the structured features -/

/-- the bytes of `CDS` -/
def cdsKey : Bytes := [67, 68, 83]
/-- the bytes of `gene` -/
def geneKey : Bytes := [103, 101, 110, 101]
/-- the bytes of `codon_start` -/
def csKey : Bytes := [99, 111, 100, 111, 110, 95, 115, 116, 97, 114, 116]
/-- the bytes of `translation` -/
def trKey : Bytes := [116, 114, 97, 110, 115, 108, 97, 116, 105, 111, 110]

theorem cdsKey_text : cdsKey = stringToBytes "CDS" := by decide +kernel
theorem geneKey_text : geneKey = stringToBytes "gene" := by decide +kernel
theorem csKey_text : csKey = stringToBytes "codon_start" := by decide +kernel
theorem trKey_text : trKey = stringToBytes "translation" := by decide +kernel

/-- `feature.Info[k]` as Go evaluates it: the value stored under the key, the empty string when the key is absent
(also when the map is nil: reading a nil map is allowed) -/
def infoGet (m : Option Info) (k : Bytes) : Bytes :=
  match m with
  | none => []
  | some m =>
    match m.find? (fun e => e.1 == k) with
    | some e => e.2
    | none => []

/-- One parsed CDS feature as the `GbFeature` the region builder consumes.
  * location: the text must be one of the five shapes of Model/Regions.lean with canonical numerals (`parseLocation`);
    any other location text (`<1..9`, `join(1..3,complement(5..9))`, a bare number ...) has no counterpart in the
    structured model: `none`.
  * strand: the Go code asks `Location.IsReverse`, which panics on an empty list of positions (a location such as
    `5..3`) and returns the error of GetPositions otherwise: `none` unless `isReverse` returns a value.
  * gene, translation: the qualifier text, the empty string when the qualifier is absent (Go map lookup).
  * codon_start: `strconv.Atoi` of the qualifier text. ASSUMPTION (the Go file is not visible from here): an Atoi error
    is returned by CDSRegion2fromGenbank, so an absent qualifier (Atoi of the empty string), or one that is not a
    number, or out of the int64 range gives `none`. A negative value has no counterpart in the model (the field is a
    natural; the Go slice expression would panic): `none`. Atoi accepts `+2` and `02`; they are read as 2. The value 0
    is handed on as it is (Model/Regions treats it as 1: `drop (0 - 1)`). -/
def featToGb (f : Feat) : Option GbFeature :=
  match parseLocation f.loc with
  | none => none
  | some l =>
    match isReverse f.loc with
    | .ok _ =>
      (match atoiE (infoGet f.info csKey) with
       | .ok v =>
         if v < 0 then none
         else some ⟨bytesToString (infoGet f.info geneKey), l.1, l.2, v.toNat, infoGet f.info trKey⟩
       | _ => none)
    | _ => none

/-- the features RegionsFromGenbank looks at: those whose key is exactly `CDS`; a record without FEATURES section
(nil slice) has none -/
def cdsFeats (r : Record) : List Feat := (r.features.getD []).filter fun f => f.key == cdsKey

/-- What RegionsFromGenbank gets from a GenBank text: the CDS features as `GbFeature`s, in file order, and the bytes of
ORIGIN (letters only, case as in the file; empty when there is no ORIGIN section).
`none` = ReadGenBank panics or returns the scanner's error (a line of 1 MiB or more), or some CDS feature has no
counterpart (see `featToGb`). -/
def gbFeaturesOfText (text : List Nat) : Option (List GbFeature × List Nat) :=
  match readGenBank text with
  | .panic => none
  | .error => none
  | .ok r => ((cdsFeats r).mapM featToGb).map fun fs => (fs, r.origin.getD [])

/-- RegionsFromGenbank on the bytes of a GenBank file, `L` = length of the (degapped) reference ; none = error -/
def regionsFromGbText (text : List Nat) (L : Nat) : Option (List Region × List Nat) :=
  match gbFeaturesOfText text with
  | some (fs, _) => regionsFromGenbank fs L
  | none => none

theorem regionsFromGbText_of_feats (text : List Nat) (fs : List GbFeature) (o : List Nat) (L : Nat)
    (h : gbFeaturesOfText text = some (fs, o)) : regionsFromGbText text L = regionsFromGenbank fs L := by
  unfold regionsFromGbText
  rw [h]

/-! ### positions and strand: `locPositions` of the structured feature is `GetPositions` of the location text -/

theorem getLast?_map_cast (l : List Nat) :
    (l.map fun (p : Nat) => (p : Int)).getLast? = l.getLast?.map fun (p : Nat) => (p : Int) := by
  simp [List.getLast?_map]

/-- IsReverse computed from the positions: first position greater than the last, as `regionFromGenbank` reads it -/
theorem isReverse_of_positions (s : Bytes) (l : List Nat)
    (h : getPositions s = .ok (l.map fun (p : Nat) => (p : Int))) (hne : l ≠ []) : isReverse s = .ok (gbRev l) := by
  unfold isReverse
  rw [h]
  match l, hne with
  | a :: t, _ =>
    simp only [List.map_cons]
    have hl : ((a : Int) :: t.map fun (p : Nat) => (p : Int)) = (a :: t).map fun (p : Nat) => (p : Int) := rfl
    rw [hl, getLast?_map_cast]
    cases hb : (a :: t).getLast? with
    | none => simp at hb
    | some b =>
      simp only [gbRev, List.head?_cons, hb, Option.map_some, Option.getD_some]
      congr 1
      simp

theorem isReverse_empty (s : Bytes) (h : getPositions s = .ok []) : isReverse s = .panic := by
  unfold isReverse
  rw [h]

/-- what a successful conversion says about the parsed feature it came from -/
structure ReadsAs (ft : Feat) (f : GbFeature) : Prop where
  /-- the location text is the rendering of the structured location -/
  loc : renderLocation (f.form, f.segs) = ft.loc
  locOk : LocOk (f.form, f.segs)
  /-- **positions**: Location.GetPositions on the text gives the positions the region builder works with -/
  positions : getPositions ft.loc = .ok ((locPositions f.form f.segs).map fun (p : Nat) => (p : Int))
  nonempty : locPositions f.form f.segs ≠ []
  /-- **strand**: Location.IsReverse on the text gives the orientation the region builder works with -/
  reverse : isReverse ft.loc = .ok (gbRev (locPositions f.form f.segs))
  codonStart : atoiE (infoGet ft.info csKey) = .ok (f.codonStart : Int)
  gene : f.gene = bytesToString (infoGet ft.info geneKey)
  translation : f.translation = infoGet ft.info trKey

theorem featToGb_reads (ft : Feat) (f : GbFeature) (h : featToGb ft = some f) : ReadsAs ft f := by
  unfold featToGb at h
  cases hp : parseLocation ft.loc with
  | none => simp [hp] at h
  | some l =>
    simp only [hp] at h
    have hrp := GbRT.render_parse ft.loc l hp
    have hpos : getPositions ft.loc = .ok ((locPositions l.1 l.2).map fun (p : Nat) => (p : Int)) :=
      GbRT.getPositions_of_parse ft.loc l hp
    cases hr : isReverse ft.loc with
    | err => simp [hr] at h
    | panic => simp [hr] at h
    | ok rv =>
      simp only [hr] at h
      have hne : locPositions l.1 l.2 ≠ [] := by
        intro e
        rw [e] at hpos
        rw [isReverse_empty ft.loc hpos] at hr
        cases hr
      cases ha : atoiE (infoGet ft.info csKey) with
      | synErr => simp [ha] at h
      | rngErr => simp [ha] at h
      | ok v =>
        simp only [ha] at h
        by_cases hv : v < 0
        · simp [hv] at h
        · rw [if_neg hv] at h
          simp only [Option.some.injEq] at h
          subst h
          refine ⟨hrp.1, hrp.2, hpos, hne, isReverse_of_positions ft.loc _ hpos hne, ?_, rfl, rfl⟩
          rw [ha]
          show AtoiRes.ok v = AtoiRes.ok ((v.toNat : Nat) : Int)
          congr 1
          omega


/-- the two lists have the same length and corresponding elements are related (in order) -/
inductive Paired {α β : Type} (R : α → β → Prop) : List α → List β → Prop where
  | nil : Paired R [] []
  | cons {a b l m} : R a b → Paired R l m → Paired R (a :: l) (b :: m)

theorem mapM_some_paired {α β : Type} (f : α → Option β) : ∀ (l : List α) (ys : List β), l.mapM f = some ys →
    Paired (fun a b => f a = some b) l ys := by
  intro l
  induction l with
  | nil =>
    intro ys h
    simp at h
    subst h
    exact .nil
  | cons a t ih =>
    intro ys h
    rw [List.mapM_cons] at h
    cases ha : f a with
    | none => simp [ha] at h
    | some b =>
      cases ht : t.mapM f with
      | none => simp [ha, ht] at h
      | some bs =>
        simp [ha, ht] at h
        subst h
        exact .cons ha (ih bs ht)

theorem paired_mapM_some {α β : Type} (f : α → Option β) : ∀ (l : List α) (ys : List β),
    Paired (fun a b => f a = some b) l ys → l.mapM f = some ys := by
  intro l ys h
  induction h with
  | nil => rfl
  | cons ha _ ih =>
    rw [List.mapM_cons, ha, ih]
    rfl

theorem paired_imp {α β : Type} {R S : α → β → Prop} (hRS : ∀ a b, R a b → S a b) :
    ∀ {l : List α} {m : List β}, Paired R l m → Paired S l m := by
  intro l m h
  induction h with
  | nil => exact .nil
  | cons h _ ih => exact .cons (hRS _ _ h) ih

/-- **features_from_text** - for EVERY text (rendered by the writer of GbRoundTrip or not): when the conversion
succeeds, the structured features are, one for one and in file order, the CDS features of the record ReadGenBank
returns, each with the positions `GetPositions` computes from the location text, the orientation `IsReverse` computes,
the codon_start `Atoi` reads, and the gene and translation qualifier texts -/
theorem features_from_text (text : List Nat) (fs : List GbFeature) (o : List Nat)
    (h : gbFeaturesOfText text = some (fs, o)) :
    ∃ r, readGenBank text = .ok r ∧ o = r.origin.getD [] ∧ Paired ReadsAs (cdsFeats r) fs := by
  unfold gbFeaturesOfText at h
  cases hr : readGenBank text with
  | panic => simp [hr] at h
  | error => simp [hr] at h
  | ok r =>
    simp only [hr] at h
    cases hm : (cdsFeats r).mapM featToGb with
    | none => simp [hm] at h
    | some fs' =>
      simp only [hm, Option.map_some, Option.some.injEq, Prod.mk.injEq] at h
      obtain ⟨rfl, rfl⟩ := h
      exact ⟨r, rfl, rfl, paired_imp (fun a b => featToGb_reads a b) (mapM_some_paired featToGb _ _ hm)⟩

/-- the region `regionFromGenbank` builds, stated on the parsed feature: name = the gene qualifier, positions = what
GetPositions gives for the location text from index codon_start - 1 on, strand = -1 exactly when IsReverse says so,
reference amino acids = the translation qualifier and a `*` -/
structure RegionOfFeat (ft : Feat) (reg : Region) : Prop where
  ex : ∃ (ps : List Int) (rev : Bool) (cs : Int),
    getPositions ft.loc = .ok ps ∧ isReverse ft.loc = .ok rev ∧ atoiE (infoGet ft.info csKey) = .ok cs ∧ 0 ≤ cs ∧
    (reg.positions.map fun (p : Nat) => (p : Int)) = ps.drop (cs.toNat - 1) ∧
    reg.positions.length % 3 = 0 ∧
    reg.strand = (if rev then -1 else 1) ∧
    reg.name = bytesToString (infoGet ft.info geneKey) ∧
    reg.translation = infoGet ft.info trKey ++ [42]

theorem region_of_feat (ft : Feat) (f : GbFeature) (reg : Region) (h : ReadsAs ft f)
    (hr : regionFromGenbank f = some reg) : RegionOfFeat ft reg := by
  rw [RegionEquiv.regionFromGenbank_eq] at hr
  split at hr
  · cases hr
  · rename_i hm
    simp only [Option.some.injEq] at hr
    subst hr
    refine ⟨_, _, _, h.positions, h.reverse, h.codonStart, by omega, ?_, (by show (List.drop (f.codonStart - 1) (locPositions f.form f.segs)).length % 3 = 0; omega), rfl, h.gene, ?_⟩
    · simp only [Int.toNat_natCast, List.map_drop]
    · simp only [h.translation]


theorem paired_mapM {α β γ : Type} {R : α → β → Prop} {S : α → γ → Prop} (g : β → Option γ)
    (hRS : ∀ a b c, R a b → g b = some c → S a c) :
    ∀ {l : List α} {m : List β}, Paired R l m → ∀ n, m.mapM g = some n → Paired S l n := by
  intro l m h
  induction h with
  | nil =>
    intro n hn
    simp at hn
    subst hn
    exact .nil
  | @cons a b l m hab _ ih =>
    intro n hn
    rw [List.mapM_cons] at hn
    cases hb : g b with
    | none => simp [hb] at hn
    | some c =>
      cases hm : m.mapM g with
      | none => simp [hb, hm] at hn
      | some cs =>
        simp [hb, hm] at hn
        subst hn
        exact .cons (hRS a b c hab hb) (ih cs hm)

/-- **regions_from_text** - for EVERY text: when RegionsFromGenbank on the bytes succeeds, its regions are, one for one
and in file order, built from the CDS features of the record ReadGenBank returns, each with the positions
`GetPositions` computes from the location text (from index codon_start - 1 on) and the strand `IsReverse` computes ; the
intergenic list is the complement of these regions in 1..L -/
theorem regions_from_text (text : List Nat) (L : Nat) (rs : List Region) (inter : List Nat)
    (h : regionsFromGbText text L = some (rs, inter)) :
    ∃ r, readGenBank text = .ok r ∧ Paired RegionOfFeat (cdsFeats r) rs ∧ inter = codes rs L := by
  unfold regionsFromGbText at h
  cases hg : gbFeaturesOfText text with
  | none => simp [hg] at h
  | some x =>
    obtain ⟨fs, o⟩ := x
    simp only [hg] at h
    obtain ⟨r, hr, _, hp⟩ := features_from_text text fs o hg
    unfold regionsFromGenbank at h
    cases hm : fs.mapM regionFromGenbank with
    | none => simp [hm] at h
    | some rs' =>
      simp only [hm, Option.some.injEq, Prod.mk.injEq] at h
      obtain ⟨rfl, rfl⟩ := h
      exact ⟨r, hr, paired_mapM regionFromGenbank (fun a b c hab hc => region_of_feat a b c hab hc) hp _ hm, rfl⟩

/-! ## (2) writing structured features, and the round trip -/

/-- the value the reader returns for qualifier `k` of a laid-out feature -/
def qualGet (t : FeatS) (k : Bytes) : Bytes := infoGet (some (t.quals.map qv)) k

/-- the laid-out feature `t` (any order of qualifiers, any further qualifiers such as product or protein_id, any line
wrapping of the values) carries the structured feature `f`: same location, and the qualifiers gene, codon_start and
translation hold the name, the decimal numeral and the amino-acid text -/
def Carries (t : FeatS) (f : GbFeature) : Prop :=
  t.loc = (f.form, f.segs) ∧ qualGet t geneKey = stringToBytes f.gene ∧ qualGet t csKey = digitsOf f.codonStart ∧
    qualGet t trKey = f.translation

instance (t : FeatS) (f : GbFeature) : Decidable (Carries t f) := by unfold Carries; exact inferInstance

/-- what the conversion needs beyond the text layer's `FeatOk`: codon_start within int64 (Atoi), and a location with at
least one position (IsReverse panics on none) -/
def GbNumOk (f : GbFeature) : Prop := f.codonStart ≤ maxInt64 ∧ locPositions f.form f.segs ≠ []

instance (f : GbFeature) : Decidable (GbNumOk f) := by unfold GbNumOk; exact inferInstance

/-- **one feature**: what the reader returns for a written feature converts back to the structured feature -/
theorem featToGb_expected (t : FeatS) (f : GbFeature) (hc : Carries t f) (hl : LocOk t.loc) (hn : GbNumOk f) :
    featToGb (expected t) = some f := by
  obtain ⟨hloc, hg, hcs, htr⟩ := hc
  have hpl : parseLocation (expected t).loc = some t.loc := GbRT.parse_render t.loc hl
  have hpos : getPositions (expected t).loc = .ok ((locPositions f.form f.segs).map fun (p : Nat) => (p : Int)) := by
    have := GbRT.getPositions_render t.loc hl
    show getPositions (renderLocation t.loc) = _
    rw [this, hloc]
    rfl
  have hrev := isReverse_of_positions _ _ hpos hn.2
  have h1 : infoGet (expected t).info csKey = digitsOf f.codonStart := hcs
  have h2 : infoGet (expected t).info geneKey = stringToBytes f.gene := hg
  have h3 : infoGet (expected t).info trKey = f.translation := htr
  unfold featToGb
  rw [hpl]
  simp only [hrev, h1, h2, h3, GbRT.atoiE_digitsOf _ hn.1, hloc, bytesToString_stringToBytes]
  cases f
  simp

theorem mapM_expected : ∀ (l : List FeatS) (fs : List GbFeature), Paired Carries l fs → (∀ t ∈ l, LocOk t.loc) →
    (∀ f ∈ fs, GbNumOk f) → (l.map expected).mapM featToGb = some fs := by
  intro l fs h
  induction h with
  | nil => intro _ _; rfl
  | @cons t f l fs hc _ ih =>
    intro hl hn
    rw [List.map_cons, List.mapM_cons, featToGb_expected t f hc (hl t List.mem_cons_self) (hn f List.mem_cons_self),
      ih (fun t ht => hl t (List.mem_cons_of_mem _ ht)) (fun f hf => hn f (List.mem_cons_of_mem _ hf))]
    rfl

def isCds (t : FeatS) : Bool := t.key == cdsKey

/-- **gb_features_from_bytes (general layout)** - the file written for ANY non-empty list of well-formed features (source,
gene, mRNA ... features interleaved; the CDS features with any further qualifiers in any order, values wrapped or not)
whose CDS features carry `fs`, in order, and any sequence of letters, is read back as exactly `fs` and the sequence -/
theorem gbFeaturesOfText_render_of (feats : List FeatS) (origin : Bytes) (fs : List GbFeature) (hne : feats ≠ [])
    (hok : ∀ t ∈ feats, FeatOk t) (ho : OriginOk origin) (hc : Paired Carries (feats.filter isCds) fs)
    (hn : ∀ f ∈ fs, GbNumOk f) :
    gbFeaturesOfText (GbRT.render feats origin) = some (fs, origin) := by
  unfold gbFeaturesOfText
  rw [GbRT.gb_roundtrip feats origin hne hok ho]
  have hf : cdsFeats { features := some (feats.map expected), origin := some origin } = (feats.filter isCds).map expected := by
    simp only [cdsFeats, Option.getD_some, List.filter_map]
    rfl
  simp only [hf]
  rw [mapM_expected _ fs hc (fun t ht => (hok t (List.mem_filter.1 ht).1).2.2.2.1) hn]
  rfl


/-- the way the test generator writes a gene: ONE feature with key CDS, the location, and the qualifiers gene,
codon_start, translation in that order ; `w` = 0: the translation on one line, `w` > 0: cut into pieces of `w` bytes
written on consecutive lines -/
def featToTextW (w : Nat) (f : GbFeature) : FeatS :=
  ⟨cdsKey, (f.form, f.segs),
    [(geneKey, [stringToBytes f.gene]), (csKey, [digitsOf f.codonStart]),
     (trKey, if w = 0 then [f.translation] else GbRT.chunkGo w f.translation [])]⟩

def featsToTextW (w : Nat) (fs : List GbFeature) : List FeatS := fs.map (featToTextW w)

/-- every value on one line -/
def featToText (f : GbFeature) : FeatS := featToTextW 0 f

def featsToText (fs : List GbFeature) : List FeatS := featsToTextW 0 fs

theorem carries_featToTextW (w : Nat) (f : GbFeature) : Carries (featToTextW w f) f := by
  have hfl : (if w = 0 then [f.translation] else GbRT.chunkGo w f.translation []).flatten = f.translation := by
    split
    · simp
    · rw [GbRT.chunkGo_flatten, List.nil_append]
  have k4 : (geneKey == csKey) = false := by decide
  have k6 : (geneKey == trKey) = false := by decide
  have k7 : (csKey == trKey) = false := by decide
  have k8 : (trKey == trKey) = true := by decide
  refine ⟨rfl, ?_, ?_, ?_⟩
  · simp [qualGet, infoGet, featToTextW, qv]
  · simp [qualGet, infoGet, featToTextW, qv, List.find?, k4]
  · simp only [qualGet, infoGet, featToTextW, qv, List.map_cons, List.map_nil, List.find?, k6, k7, k8, hfl]

theorem paired_featsToTextW (w : Nat) : ∀ (fs : List GbFeature), Paired Carries (featsToTextW w fs) fs := by
  intro fs
  induction fs with
  | nil => exact .nil
  | cons f t ih => exact .cons (carries_featToTextW w f) ih

theorem filter_featsToTextW (w : Nat) (fs : List GbFeature) : (featsToTextW w fs).filter isCds = featsToTextW w fs := by
  rw [List.filter_eq_self]
  intro t ht
  obtain ⟨f, _, rfl⟩ := List.mem_map.1 ht
  show (cdsKey == cdsKey) = true
  decide

/-- a `GbFeature` that can be written and read back: the written feature meets the hypotheses of the round-trip theorem
of the text layer (`FeatOk`: a well-formed location `LocOk` - at least one segment, one for a..b and complement(a..b),
numbers within int64 - ; gene name and translation non-empty, of printable bytes other than `=` and `"`, a wrapped
translation without blanks ; every line within the scanner's 1 MiB), codon_start within int64, at least one position -/
def GbFeatureOkW (w : Nat) (f : GbFeature) : Prop := FeatOk (featToTextW w f) ∧ GbNumOk f

instance (w : Nat) (f : GbFeature) : Decidable (GbFeatureOkW w f) := by unfold GbFeatureOkW; exact inferInstance

def GbFeatureOk (f : GbFeature) : Prop := GbFeatureOkW 0 f

instance (f : GbFeature) : Decidable (GbFeatureOk f) := by unfold GbFeatureOk; exact inferInstance

/-- **gb_features_from_bytes** - the round trip: the file written for a non-empty list of well-formed features and a
sequence of letters is read back as exactly these features and this sequence (translation wrapped at any width) -/
theorem gbFeaturesOfText_renderW (w : Nat) (fs : List GbFeature) (origin : Bytes) (hne : fs ≠ [])
    (hok : ∀ f ∈ fs, GbFeatureOkW w f) (ho : OriginOk origin) :
    gbFeaturesOfText (GbRT.render (featsToTextW w fs) origin) = some (fs, origin) := by
  apply gbFeaturesOfText_render_of _ origin fs (by unfold featsToTextW; simpa using hne) ?_ ho ?_
    (fun f hf => (hok f hf).2)
  · intro t ht
    obtain ⟨f, hf, rfl⟩ := List.mem_map.1 ht
    exact (hok f hf).1
  · rw [filter_featsToTextW]
    exact paired_featsToTextW w fs

/-- the same with every value on one line -/
theorem gbFeaturesOfText_render (fs : List GbFeature) (origin : Bytes) (hne : fs ≠ [])
    (hok : ∀ f ∈ fs, GbFeatureOk f) (ho : OriginOk origin) :
    gbFeaturesOfText (GbRT.render (featsToText fs) origin) = some (fs, origin) :=
  gbFeaturesOfText_renderW 0 fs origin hne hok ho


/-! ### `GbFeatureOk` in elementary terms -/

theorem featToText_eq (f : GbFeature) : featToText f =
    ⟨cdsKey, (f.form, f.segs),
      [(geneKey, [stringToBytes f.gene]), (csKey, [digitsOf f.codonStart]), (trKey, [f.translation])]⟩ := rfl

theorem qualOkW_single (k v : Bytes) (hk1 : k ≠ []) (hk2 : GbRT.AllWord k) (hk3 : ∀ b ∈ k, b ≠ eqB) (hv : v ≠ [])
    (hvb : ∀ b ∈ v, GbRT.ValB b) (hlen : k.length + v.length + 25 < maxTok) : GbRT.QualOkW (k, [v]) := by
  refine ⟨hk1, hk2, hk3, by simp, ?_, ?_, ?_⟩
  · intro c hc
    simp only [List.mem_cons, List.not_mem_nil, or_false] at hc
    subst hc
    exact ⟨hv, hvb⟩
  · intro h
    simp at h
  · intro l hl
    have e : GbRT.qualLines (k, [v]) = [GbRT.qualLine (k, v)] := rfl
    rw [e] at hl
    simp only [List.mem_cons, List.not_mem_nil, or_false] at hl
    subst hl
    simp only [GbRT.qualLine, GbRT.spaces, List.length_append, List.length_replicate, List.length_cons, List.length_nil]
    omega

/-- conditions on the feature itself: a well-formed location whose line fits the scanner ; a non-empty gene name and a
non-empty translation of printable bytes (blank allowed) other than `=` and `"`, short enough for one line ;
codon_start within int64 ; at least one position -/
theorem gbFeatureOk_of (f : GbFeature) (hloc : LocOk (f.form, f.segs))
    (hline : (GbRT.featLine (featToText f)).length < maxTok)
    (hg : stringToBytes f.gene ≠ []) (hgb : ∀ b ∈ stringToBytes f.gene, GbRT.ValB b)
    (hgl : (stringToBytes f.gene).length + 29 < maxTok)
    (ht : f.translation ≠ []) (htb : ∀ b ∈ f.translation, GbRT.ValB b) (htl : f.translation.length + 36 < maxTok)
    (hcs : f.codonStart ≤ maxInt64) (hpos : locPositions f.form f.segs ≠ []) : GbFeatureOk f := by
  refine ⟨⟨?_, ?_, ?_, hloc, ?_, ?_, ?_, hline⟩, hcs, hpos⟩
  · show cdsKey ≠ []
    decide
  · show GbRT.AllWord cdsKey
    decide
  · show cdsKey.head? ≠ some slash
    decide
  · show (featToText f).quals ≠ []
    rw [featToText_eq]
    simp
  · intro q hq
    change q ∈ (featToText f).quals at hq
    rw [featToText_eq] at hq
    simp only [List.mem_cons, List.not_mem_nil, or_false] at hq
    rcases hq with rfl | rfl | rfl
    · exact qualOkW_single geneKey _ (by decide) (by decide) (by decide) hg hgb (by
        show 4 + _ + 25 < maxTok
        omega)
    · have hlen : (digitsOf f.codonStart).length ≤ 19 :=
        SamRT.digitsOf_length_le _ 19 (by decide) (by unfold maxInt64 at hcs; omega)
      refine qualOkW_single csKey _ (by decide) (by decide) (by decide) (CsvRT.digitsOf_ne_nil _) ?_ (by
        show 11 + _ + 25 < maxTok
        unfold maxTok
        omega)
      intro b hb
      have := CsvRT.digitsOf_isDigit _ b hb
      simp only [Csv.isDigitB, Bool.and_eq_true, decide_eq_true_eq] at this
      refine ⟨by omega, by omega, ?_, ?_⟩
      · show b ≠ 61
        omega
      · show b ≠ 34
        omega
    · exact qualOkW_single trKey _ (by decide) (by decide) (by decide) ht htb (by
        show 11 + _ + 25 < maxTok
        omega)
  · show [geneKey, csKey, trKey].Nodup
    decide


/-! ## (3) the annotation theorems of C14 on the bytes of a GenBank file -/

/-- the hypotheses on a written GenBank file, general layout: a non-empty list of well-formed features of any kind whose
CDS features carry `fs` in order, `fs` within the numeric limits, a sequence of letters -/
structure GbFileOk (feats : List FeatS) (origin : Bytes) (fs : List GbFeature) : Prop where
  ne : feats ≠ []
  ok : ∀ t ∈ feats, FeatOk t
  origin : OriginOk origin
  carries : Paired Carries (feats.filter isCds) fs
  num : ∀ f ∈ fs, GbNumOk f

theorem GbFileOk.reads {feats : List FeatS} {origin : Bytes} {fs : List GbFeature} (h : GbFileOk feats origin fs) :
    gbFeaturesOfText (GbRT.render feats origin) = some (fs, origin) :=
  gbFeaturesOfText_render_of feats origin fs h.ne h.ok h.origin h.carries h.num

/-- the simple writer meets them -/
theorem gbFileOk_simple (w : Nat) (fs : List GbFeature) (origin : Bytes) (hne : fs ≠ [])
    (hok : ∀ f ∈ fs, GbFeatureOkW w f) (ho : OriginOk origin) : GbFileOk (featsToTextW w fs) origin fs := by
  refine ⟨by unfold featsToTextW; simpa using hne, ?_, ho, ?_, fun f hf => (hok f hf).2⟩
  · intro t ht
    obtain ⟨f, hf, rfl⟩ := List.mem_map.1 ht
    exact (hok f hf).1
  · rw [filter_featsToTextW]
    exact paired_featsToTextW w fs

/-- **genbank_annotation_from_bytes (general layout)** - `RegionEquiv.genbank_annotation` for the bytes of a GenBank
file: the file whose CDS features describe `genes` yields the regions of the genes in file order and their intergenic
list -/
theorem genbank_annotation_from_bytes_of (feats : List FeatS) (origin : Bytes) (fs : List GbFeature) (genes : List Gene)
    (ref : List Nat) (L : Nat) (hfile : GbFileOk feats origin fs) (hfs : AllDescribe fs genes)
    (hoff : ∀ g ∈ genes, g.Offset) (hor : ∀ g ∈ genes, g.Oriented) (hf : ∀ g ∈ genes, g.Faithful ref) :
    regionsFromGbText (GbRT.render feats origin) L = some (genes.map Gene.region, codes (genes.map Gene.region) L) := by
  rw [regionsFromGbText_of_feats _ fs origin L hfile.reads]
  exact RegionEquiv.genbank_annotation fs genes ref L hfs hoff hor hf

/-- **genbank_annotation_from_bytes** - the same for the simple writer: the features replaced by what is read from
the file rendered for them -/
theorem genbank_annotation_from_bytes (w : Nat) (fs : List GbFeature) (origin : Bytes) (genes : List Gene)
    (ref : List Nat) (L : Nat) (hne : fs ≠ []) (hok : ∀ f ∈ fs, GbFeatureOkW w f) (ho : OriginOk origin)
    (hfs : AllDescribe fs genes)
    (hoff : ∀ g ∈ genes, g.Offset) (hor : ∀ g ∈ genes, g.Oriented) (hf : ∀ g ∈ genes, g.Faithful ref) :
    regionsFromGbText (GbRT.render (featsToTextW w fs) origin) L =
      some (genes.map Gene.region, codes (genes.map Gene.region) L) :=
  genbank_annotation_from_bytes_of _ origin fs genes ref L (gbFileOk_simple w fs origin hne hok ho) hfs hoff hor hf

/-- the same statement with the features named by what the reader returns -/
theorem genbank_annotation_from_bytes' (w : Nat) (fs : List GbFeature) (origin : Bytes) (genes : List Gene)
    (ref : List Nat) (L : Nat) (hne : fs ≠ []) (hok : ∀ f ∈ fs, GbFeatureOkW w f) (ho : OriginOk origin)
    (hfs : AllDescribe fs genes)
    (hoff : ∀ g ∈ genes, g.Offset) (hor : ∀ g ∈ genes, g.Oriented) (hf : ∀ g ∈ genes, g.Faithful ref) :
    ∃ fs' o, gbFeaturesOfText (GbRT.render (featsToTextW w fs) origin) = some (fs', o) ∧ o = origin ∧
      regionsFromGenbank fs' L = some (genes.map Gene.region, codes (genes.map Gene.region) L) :=
  ⟨fs, origin, gbFeaturesOfText_renderW w fs origin hne hok ho, rfl,
    RegionEquiv.genbank_annotation fs genes ref L hfs hoff hor hf⟩

/-- the two numeric conditions follow from the C14 hypotheses where they can: a faithful gene has at least one codon,
so its location has positions ; only codon_start within int64 remains -/
theorem gbNumOk_of_describes (f : GbFeature) (g : Gene) (ref : List Nat) (hd : Describes f g) (hf : g.Faithful ref)
    (hcs : f.codonStart ≤ maxInt64) : GbNumOk f := by
  refine ⟨hcs, ?_⟩
  rw [RegionEquiv.describes_all f g hd]
  intro e
  have h3 := RegionEquiv.faithful_long g ref hf
  have hl : g.positions.length ≤ g.all.length := by simp [Gene.positions]
  rw [e, List.length_nil] at hl
  omega

section TwoFiles
open Gofasta.Lemmas.FromBytes (regionsFromGffText rowsToText GffRowOk gffRowsOfText_render regionsFromGffText_of_rows)
open Gofasta.Lemmas.GffRT (VerOk)

/-- **annotation_equiv_from_two_files** - `RegionEquiv.annotation_equiv` with BOTH annotations read from bytes: the
GenBank file (any layout whose CDS features carry `fs`) through `regionsFromGbText`, the GFF3 file through
`FromBytes.regionsFromGffText`. The GFF route returns the region list of the GenBank route, stably sorted by smallest
position, and the same intergenic list. -/
theorem annotation_equiv_from_two_files
    (feats : List FeatS) (origin : Bytes) (fs : List GbFeature)
    (ver seqid source : Bytes) (dot : Bool) (extra : List (Bytes × List Bytes)) (rows : List GffRow)
    (genes : List Gene) (ref : List Nat)
    (hfile : GbFileOk feats origin fs)
    (hv : VerOk ver) (hne0 : rows ≠ []) (hok : ∀ r ∈ rows, GffRowOk seqid source dot extra r)
    (hfs : AllDescribe fs genes) (hrows : cdsRows rows = genes.flatMap Gene.rows)
    (hoff : ∀ g ∈ genes, g.Offset) (hst : ∀ g ∈ genes, g.AscStarts) (hor : ∀ g ∈ genes, g.Oriented) (hf : ∀ g ∈ genes, g.Faithful ref)
    (hnd : (genes.map Gene.name).Nodup) (hne : ∀ g ∈ genes, g.name ≠ "")
    (rsB interB : _) (hB : regionsFromGbText (GbRT.render feats origin) ref.length = some (rsB, interB))
    (rsF interF : _)
    (hF : regionsFromGffText (GffText.render ver (rowsToText seqid source dot extra rows)) ref = some (rsF, interF)) :
    rsB = genes.map Gene.region ∧ rsF = sortStable regionStartLt rsB ∧ rsF.Perm rsB ∧ interF = interB := by
  rw [regionsFromGbText_of_feats _ fs origin _ hfile.reads] at hB
  exact FromBytes.annotation_equiv_from_bytes ver seqid source dot extra fs rows genes ref hv hne0 hok hfs hrows hoff hst hor hf
    hnd hne rsB interB hB rsF interF hF

/-- the same for the simple GenBank writer -/
theorem annotation_equiv_from_two_files_simple
    (w : Nat) (fs : List GbFeature) (origin : Bytes)
    (ver seqid source : Bytes) (dot : Bool) (extra : List (Bytes × List Bytes)) (rows : List GffRow)
    (genes : List Gene) (ref : List Nat)
    (hne1 : fs ≠ []) (hok1 : ∀ f ∈ fs, GbFeatureOkW w f) (ho : OriginOk origin)
    (hv : VerOk ver) (hne0 : rows ≠ []) (hok : ∀ r ∈ rows, GffRowOk seqid source dot extra r)
    (hfs : AllDescribe fs genes) (hrows : cdsRows rows = genes.flatMap Gene.rows)
    (hoff : ∀ g ∈ genes, g.Offset) (hst : ∀ g ∈ genes, g.AscStarts) (hor : ∀ g ∈ genes, g.Oriented) (hf : ∀ g ∈ genes, g.Faithful ref)
    (hnd : (genes.map Gene.name).Nodup) (hne : ∀ g ∈ genes, g.name ≠ "")
    (rsB interB : _)
    (hB : regionsFromGbText (GbRT.render (featsToTextW w fs) origin) ref.length = some (rsB, interB))
    (rsF interF : _)
    (hF : regionsFromGffText (GffText.render ver (rowsToText seqid source dot extra rows)) ref = some (rsF, interF)) :
    rsB = genes.map Gene.region ∧ rsF = sortStable regionStartLt rsB ∧ rsF.Perm rsB ∧ interF = interB :=
  annotation_equiv_from_two_files _ origin fs ver seqid source dot extra rows genes ref
    (gbFileOk_simple w fs origin hne1 hok1 ho) hv hne0 hok hfs hrows hoff hst hor hf hnd hne rsB interB hB rsF interF hF

/-- **variants_equiv_from_two_files** - hence the mutation records reported with the annotation read from the GFF3
bytes are those reported with the annotation read from the GenBank bytes, for every (reference row, query row) pair -/
theorem variants_equiv_from_two_files
    (feats : List FeatS) (origin : Bytes) (fs : List GbFeature)
    (ver seqid source : Bytes) (dot : Bool) (extra : List (Bytes × List Bytes)) (rows : List GffRow)
    (genes : List Gene) (ref : List Nat)
    (hfile : GbFileOk feats origin fs)
    (hv : VerOk ver) (hne0 : rows ≠ []) (hok : ∀ r ∈ rows, GffRowOk seqid source dot extra r)
    (hfs : AllDescribe fs genes) (hrows : cdsRows rows = genes.flatMap Gene.rows)
    (hoff : ∀ g ∈ genes, g.Offset) (hst : ∀ g ∈ genes, g.AscStarts) (hor : ∀ g ∈ genes, g.Oriented) (hf : ∀ g ∈ genes, g.Faithful ref)
    (hnd : (genes.map Gene.name).Nodup) (hne : ∀ g ∈ genes, g.name ≠ "")
    (rsB : List Region) (interB : List Nat)
    (hB : regionsFromGbText (GbRT.render feats origin) ref.length = some (rsB, interB))
    (rsF : List Region) (interF : List Nat)
    (hF : regionsFromGffText (GffText.render ver (rowsToText seqid source dot extra rows)) ref = some (rsF, interF))
    (refRow qRow : List Nat) (v : Variant) :
    v ∈ getVariantsPair refRow qRow rsF interF ↔ v ∈ getVariantsPair refRow qRow rsB interB := by
  rw [regionsFromGbText_of_feats _ fs origin _ hfile.reads] at hB
  exact FromBytes.variants_equiv_from_bytes ver seqid source dot extra fs rows genes ref hv hne0 hok hfs hrows hoff hst hor hf
    hnd hne rsB interB hB rsF interF hF refRow qRow v

/-- both routes succeed on the bytes (the hypotheses hB, hF above are not vacuous) -/
theorem both_succeed_from_two_files
    (feats : List FeatS) (origin : Bytes) (fs : List GbFeature)
    (ver seqid source : Bytes) (dot : Bool) (extra : List (Bytes × List Bytes)) (rows : List GffRow)
    (genes : List Gene) (ref : List Nat)
    (hfile : GbFileOk feats origin fs)
    (hv : VerOk ver) (hne0 : rows ≠ []) (hok : ∀ r ∈ rows, GffRowOk seqid source dot extra r)
    (hfs : AllDescribe fs genes) (hrows : cdsRows rows = genes.flatMap Gene.rows)
    (hoff : ∀ g ∈ genes, g.Offset) (hst : ∀ g ∈ genes, g.AscStarts) (hor : ∀ g ∈ genes, g.Oriented) (hf : ∀ g ∈ genes, g.Faithful ref)
    (hnd : (genes.map Gene.name).Nodup) (hne : ∀ g ∈ genes, g.name ≠ "") :
    (regionsFromGbText (GbRT.render feats origin) ref.length).isSome = true ∧
    (regionsFromGffText (GffText.render ver (rowsToText seqid source dot extra rows)) ref).isSome = true := by
  rw [regionsFromGbText_of_feats _ fs origin _ hfile.reads]
  exact FromBytes.both_succeed_from_bytes ver seqid source dot extra fs rows genes ref hv hne0 hok hfs hrows hoff hst hor hf
    hnd hne

/-- **annotation_equal_from_two_files** - when the files list the genes by non-decreasing smallest coding position, the
two routes on the bytes return literally the same pair (regions, intergenic positions) -/
theorem annotation_equal_from_two_files
    (feats : List FeatS) (origin : Bytes) (fs : List GbFeature)
    (ver seqid source : Bytes) (dot : Bool) (extra : List (Bytes × List Bytes)) (rows : List GffRow)
    (genes : List Gene) (ref : List Nat)
    (hfile : GbFileOk feats origin fs)
    (hv : VerOk ver) (hne0 : rows ≠ []) (hok : ∀ r ∈ rows, GffRowOk seqid source dot extra r)
    (hfs : AllDescribe fs genes) (hrows : cdsRows rows = genes.flatMap Gene.rows)
    (hoff : ∀ g ∈ genes, g.Offset) (hst : ∀ g ∈ genes, g.AscStarts) (hor : ∀ g ∈ genes, g.Oriented) (hf : ∀ g ∈ genes, g.Faithful ref)
    (hnd : (genes.map Gene.name).Nodup) (hne : ∀ g ∈ genes, g.name ≠ "")
    (hs : genes.Pairwise (fun g h => minPos g.positions ≤ minPos h.positions)) :
    regionsFromGffText (GffText.render ver (rowsToText seqid source dot extra rows)) ref =
      regionsFromGbText (GbRT.render feats origin) ref.length := by
  rw [regionsFromGbText_of_feats _ fs origin _ hfile.reads,
    regionsFromGffText_of_rows _ rows none ref (gffRowsOfText_render ver seqid source dot extra rows hv hne0 hok)]
  exact RegionEquiv.annotation_equal_of_sorted fs rows genes ref hfs hrows hoff hst hor hf hnd hne hs

end TwoFiles


/-! ## non-vacuity: a concrete GenBank file (the two genes of `RegionEquiv`: a forward join and a reverse-strand gene) -/

/-- a source feature, a gene and a CDS feature per gene ; the first CDS with a further qualifier and its translation
wrapped over two lines, the second with its qualifiers in another order -/
def exFeats : List FeatS :=
  [⟨stringToBytes "source", (.range, [(1, 28)]), [(stringToBytes "organism", [stringToBytes "virus X"])]⟩,
   ⟨stringToBytes "gene", (.join, [(2, 8), (12, 14)]), [(geneKey, [stringToBytes "A"])]⟩,
   ⟨cdsKey, (.join, [(2, 8), (12, 14)]),
     [(geneKey, [stringToBytes "A"]), (csKey, [stringToBytes "2"]), (stringToBytes "product", [stringToBytes "protein A"]),
      (trKey, [stringToBytes "M", stringToBytes "K"])]⟩,
   ⟨stringToBytes "gene", (.comp, [(18, 26)]), [(geneKey, [stringToBytes "B"])]⟩,
   ⟨cdsKey, (.comp, [(18, 26)]),
     [(csKey, [stringToBytes "1"]), (geneKey, [stringToBytes "B"]), (trKey, [stringToBytes "MK"])]⟩]

/-- the bytes of the file -/
example : bytesToString (GbRT.render exFeats RegionEquiv.nvRef) =
    "LOCUS       GB\n" ++
    "FEATURES             Location/Qualifiers\n" ++
    "     source          1..28\n" ++
    "                     /organism=\"virus X\"\n" ++
    "     gene            join(2..8,12..14)\n" ++
    "                     /gene=\"A\"\n" ++
    "     CDS             join(2..8,12..14)\n" ++
    "                     /gene=\"A\"\n" ++
    "                     /codon_start=\"2\"\n" ++
    "                     /product=\"protein A\"\n" ++
    "                     /translation=\"M\n" ++
    "                     K\"\n" ++
    "     gene            complement(18..26)\n" ++
    "                     /gene=\"B\"\n" ++
    "     CDS             complement(18..26)\n" ++
    "                     /codon_start=\"1\"\n" ++
    "                     /gene=\"B\"\n" ++
    "                     /translation=\"MK\"\n" ++
    "ORIGIN      \n" ++
    "        1 CCATGAAAGG GTAACCCTTA TTTCATCC\n" ++
    "//\n" := by decide +kernel

theorem exFile_ok : GbFileOk exFeats RegionEquiv.nvRef RegionEquiv.nvFs := by
  refine ⟨by decide, by decide +kernel, by decide +kernel, ?_, by decide +kernel⟩
  have hfilter : exFeats.filter isCds = [exFeats[2], exFeats[4]] := by decide +kernel
  rw [hfilter]
  exact .cons (by decide +kernel) (.cons (by decide +kernel) .nil)

/-- the reader and the conversion on these bytes: the structured features of `RegionEquiv.nvFs` and the sequence -/
example : gbFeaturesOfText (GbRT.render exFeats RegionEquiv.nvRef) = some (RegionEquiv.nvFs, RegionEquiv.nvRef) :=
  exFile_ok.reads

/-- the theorem applies: the regions built from the BYTES are the regions of the two genes -/
example : regionsFromGbText (GbRT.render exFeats RegionEquiv.nvRef) RegionEquiv.nvRef.length =
    some ([RegionEquiv.nvA, RegionEquiv.nvB].map Gene.region,
      codes ([RegionEquiv.nvA, RegionEquiv.nvB].map Gene.region) RegionEquiv.nvRef.length) := by
  obtain ⟨h1, h2, h3, h4, _, _, _⟩ := RegionEquiv.nv_hyps
  exact genbank_annotation_from_bytes_of exFeats RegionEquiv.nvRef RegionEquiv.nvFs [RegionEquiv.nvA, RegionEquiv.nvB]
    RegionEquiv.nvRef _ exFile_ok h1 h2 (fun g hg => RegionEquiv.oriented_of_asc_faithful g RegionEquiv.nvRef (h3 g hg) (h4 g hg)) h4

/-- and by plain evaluation of the text reader, GetPositions / IsReverse on the location texts and the region builder:
the forward join with codon_start 2, the reverse-strand gene, the intergenic positions -/
example : (regionsFromGbText (GbRT.render exFeats RegionEquiv.nvRef) RegionEquiv.nvRef.length).map
      (fun x => x.1.map (fun r => (r.name, r.strand))) = some [("A", (1 : Int)), ("B", (-1 : Int))] ∧
    (regionsFromGbText (GbRT.render exFeats RegionEquiv.nvRef) RegionEquiv.nvRef.length).map
      (fun x => x.1.map (fun r => (r.positions, bytesToString r.translation))) =
      some [([3, 4, 5, 6, 7, 8, 12, 13, 14], "MK*"), ([26, 25, 24, 23, 22, 21, 20, 19, 18], "MK*")] ∧
    (regionsFromGbText (GbRT.render exFeats RegionEquiv.nvRef) RegionEquiv.nvRef.length).map (·.2) =
      some [1, 2, 9, 10, 11, 15, 16, 17, 27, 28] := by decide +kernel

/-- the simple writer on the same features (translation on one line, and cut into pieces of one byte) -/
example : gbFeaturesOfText (GbRT.render (featsToText RegionEquiv.nvFs) RegionEquiv.nvRef) =
    some (RegionEquiv.nvFs, RegionEquiv.nvRef) :=
  gbFeaturesOfText_render _ _ (by decide) (by decide +kernel) (by decide +kernel)
example : gbFeaturesOfText (GbRT.render (featsToTextW 1 RegionEquiv.nvFs) RegionEquiv.nvRef) =
    some (RegionEquiv.nvFs, RegionEquiv.nvRef) :=
  gbFeaturesOfText_renderW 1 _ _ (by decide) (by decide +kernel) (by decide +kernel)

/-- both files: the GFF3 file of `FromBytes` and this GenBank file give literally the same regions and intergenic list -/
example : FromBytes.regionsFromGffText
      (GffText.render [51] (FromBytes.rowsToText FromBytes.exSeqid FromBytes.exSource true [] FromBytes.exRows)) RegionEquiv.nvRef =
    regionsFromGbText (GbRT.render exFeats RegionEquiv.nvRef) RegionEquiv.nvRef.length := by
  obtain ⟨h1, h2, h3, h4, h5, h6, h7⟩ := RegionEquiv.nv_hyps
  exact annotation_equal_from_two_files exFeats RegionEquiv.nvRef RegionEquiv.nvFs [51] FromBytes.exSeqid FromBytes.exSource true []
    FromBytes.exRows [RegionEquiv.nvA, RegionEquiv.nvB] RegionEquiv.nvRef exFile_ok GffRT.sampleVer_ok (by decide)
    FromBytes.exRows_ok h1 FromBytes.exRows_cds h2 RegionEquiv.nv_ascStarts
    (fun g hg => RegionEquiv.oriented_of_asc_faithful g RegionEquiv.nvRef (h3 g hg) (h4 g hg)) h4 h5 h6 h7


/-! ## the hypotheses are needed: counterexamples (all checked by evaluation in the kernel) -/

def cxOrigin : List Nat := stringToBytes "ACGTACGTACGT"
def cxF : GbFeature := ⟨"g", .range, [(1, 9)], 1, stringToBytes "MK"⟩

/-- the base case: well-formed, read back -/
example : GbFeatureOk cxF ∧ gbFeaturesOfText (GbRT.render (featsToText [cxF]) cxOrigin) = some ([cxF], cxOrigin) := by
  decide +kernel

/-- `GbNumOk`, at least one position: the location 5..3 is written and parsed (`FeatOk` holds), GetPositions returns no
position, IsReverse panics: no conversion. The structured model does not see this: `regionFromGenbank` returns a region
without positions on the forward strand. -/
example : FeatOk (featToText ⟨"g", .range, [(5, 3)], 1, stringToBytes "MK"⟩) ∧
    gbFeaturesOfText (GbRT.render (featsToText [⟨"g", .range, [(5, 3)], 1, stringToBytes "MK"⟩]) cxOrigin) = none ∧
    getPositions (stringToBytes "5..3") = .ok [] ∧ isReverse (stringToBytes "5..3") = .panic ∧
    (regionFromGenbank ⟨"g", .range, [(5, 3)], 1, stringToBytes "MK"⟩).map (fun r => (r.strand, r.positions)) =
      some ((1 : Int), []) := by
  decide +kernel

/-- `GbNumOk`, codon_start within int64: 2^63 is written and parsed, Atoi reports a range error -/
example : FeatOk (featToText ⟨"g", .range, [(1, 9)], 2 ^ 63, stringToBytes "MK"⟩) ∧
    gbFeaturesOfText (GbRT.render (featsToText [⟨"g", .range, [(1, 9)], 2 ^ 63, stringToBytes "MK"⟩]) cxOrigin) = none := by
  decide +kernel

/-- `FeatOk`, values without `=` : the reader drops every `=` of a value -/
example : gbFeaturesOfText (GbRT.render (featsToText [⟨"g", .range, [(1, 9)], 1, stringToBytes "M=K"⟩]) cxOrigin) =
    some ([cxF], cxOrigin) := by decide +kernel

/-- `FeatOk`, printable ASCII: the name "é" (one character, written as the byte 233) comes back as U+FFFD -/
example : (gbFeaturesOfText (GbRT.render (featsToText [⟨"é", .range, [(1, 9)], 1, stringToBytes "MK"⟩]) cxOrigin)).map
    (fun x => x.1.map (fun f => stringToBytes f.gene)) = some [[239, 191, 189]] := by decide +kernel

/-- `FeatOk`, a wrapped value without blanks: the reader trims every line, a blank at a line break is lost -/
example : gbFeaturesOfText (GbRT.render (featsToTextW 3 [⟨"g", .range, [(1, 9)], 1, stringToBytes "MK VFAG"⟩]) cxOrigin) =
    some ([⟨"g", .range, [(1, 9)], 1, stringToBytes "MKVFAG"⟩], cxOrigin) := by decide +kernel

/-- `LocOk`, one segment for a..b: the writer writes the first segment only -/
example : gbFeaturesOfText (GbRT.render (featsToText [⟨"g", .range, [(1, 3), (7, 9)], 1, stringToBytes "MK"⟩]) cxOrigin) =
    some ([⟨"g", .range, [(1, 3)], 1, stringToBytes "MK"⟩], cxOrigin) := by decide +kernel

/-- `LocOk`, at least one segment: `join()` is not a location -/
example : gbFeaturesOfText (GbRT.render (featsToText [⟨"g", .join, [], 1, stringToBytes "MK"⟩]) cxOrigin) = none := by
  decide +kernel

/-- `OriginOk`, letters only: the reader keeps the letters of the sequence lines -/
example : gbFeaturesOfText (GbRT.render (featsToText [cxF]) (stringToBytes "ACG*T1")) = some ([cxF], stringToBytes "ACGT") := by
  decide +kernel

/-- `FeatOk` is sufficient, not necessary: an empty gene name or an empty translation is not `FeatOk` (the reader does
not store a qualifier without value) and is read back all the same, an absent qualifier being the empty text -/
example : ¬ FeatOk (featToText ⟨"", .range, [(1, 9)], 1, []⟩) ∧
    gbFeaturesOfText (GbRT.render (featsToText [⟨"", .range, [(1, 9)], 1, []⟩]) cxOrigin) =
      some ([⟨"", .range, [(1, 9)], 1, []⟩], cxOrigin) := by decide +kernel

/-- `fs ≠ []` comes from the round-trip theorem of the text layer ; on this instance the empty feature table reads back -/
example : gbFeaturesOfText (GbRT.render (featsToText []) cxOrigin) = some ([], cxOrigin) := by decide +kernel

/-! ### the decisions of `featToGb`, on files -/

/-- a CDS without codon_start: Atoi of the empty text fails, no conversion (ASSUMPTION of `featToGb`) -/
example : gbFeaturesOfText (GbRT.render [⟨cdsKey, (.range, [(1, 9)]), [(geneKey, [[103]]), (trKey, [[77]])]⟩] cxOrigin) = none := by
  decide +kernel

/-- codon_start written `+2` or `02`: Atoi reads 2 ; `-2`: no conversion -/
example : gbFeaturesOfText (GbRT.render [⟨cdsKey, (.range, [(1, 9)]), [(geneKey, [[103]]), (csKey, [[43, 50]]), (trKey, [[77]])]⟩] cxOrigin) =
      some ([⟨"g", .range, [(1, 9)], 2, [77]⟩], cxOrigin) ∧
    gbFeaturesOfText (GbRT.render [⟨cdsKey, (.range, [(1, 9)]), [(geneKey, [[103]]), (csKey, [[48, 50]]), (trKey, [[77]])]⟩] cxOrigin) =
      some ([⟨"g", .range, [(1, 9)], 2, [77]⟩], cxOrigin) ∧
    gbFeaturesOfText (GbRT.render [⟨cdsKey, (.range, [(1, 9)]), [(geneKey, [[103]]), (csKey, [[45, 50]]), (trKey, [[77]])]⟩] cxOrigin) = none := by
  decide +kernel

/-- a CDS without gene and translation: empty name, empty translation ; a feature whose key is not exactly `CDS` is skipped -/
example : gbFeaturesOfText (GbRT.render [⟨cdsKey, (.range, [(1, 9)]), [(csKey, [[49]])]⟩,
      ⟨stringToBytes "cds", (.range, [(1, 9)]), [(csKey, [[49]])]⟩] cxOrigin) =
    some ([⟨"", .range, [(1, 9)], 1, []⟩], cxOrigin) := by decide +kernel

/-- a location outside the five shapes (here `<1..9`, written by hand): no conversion, though the file is read -/
example : gbFeaturesOfText (stringToBytes
    "LOCUS       GB\nFEATURES             Location/Qualifiers\n     CDS             <1..9\n                     /codon_start=1\nORIGIN      \n        1 acgtacgtac gt\n//\n") = none ∧
    gbFeaturesOfText (stringToBytes
    "LOCUS       GB\nFEATURES             Location/Qualifiers\n     CDS             1..9\n                     /codon_start=1\nORIGIN      \n        1 acgtacgtac gt\n//\n") =
      some ([⟨"", .range, [(1, 9)], 1, []⟩], stringToBytes "acgtacgtacgt") := by decide +kernel


end Gofasta.Lemmas.FromBytesGb
