import Gofasta.Model.SamText
import Gofasta.Lemmas.CsvRoundTrip
/-
Round trip of the SAM text layer: what the generator's `samText` (harness/cmd/gfh/samgen.go) writes for a reference
(name, length) and a list of structured records is read back by the model of the biogo reader
(Model/SamText.lean, `readSam`) as exactly that reference and those records.
-/
namespace Gofasta.Lemmas.SamRT
open Gofasta Model Model.SamText
open Gofasta.Model.Csv (digitsOf splitB joinB atoi isDigitB digitsVal maxInt64)
open Gofasta.Lemmas.CsvRT

/-! ### decimal numbers -/

theorem digitChar_toNat : ∀ d, d < 10 → (Nat.digitChar d).toNat = 48 + d := by decide

theorem digitsOf_lt (n : Nat) (h : n < 10) : digitsOf n = [48 + n] := by
  unfold digitsOf
  rw [Nat.toDigits_of_lt_base h]
  simp [digitChar_toNat n h]

theorem digitsOf_ge (n : Nat) (h : 10 ≤ n) : digitsOf n = digitsOf (n / 10) ++ [48 + n % 10] := by
  unfold digitsOf
  rw [Nat.toDigits_of_base_le (by decide) h]
  simp [digitChar_toNat (n % 10) (Nat.mod_lt n (by decide))]

/-- the first digit of a positive number is not '0' -/
theorem digitsOf_head (n : Nat) : 0 < n → ∃ b t, digitsOf n = b :: t ∧ 49 ≤ b ∧ b ≤ 57 := by
  induction n using Nat.strongRecOn with
  | _ n ih =>
    intro hn
    by_cases h : n < 10
    · exact ⟨48 + n, [], digitsOf_lt n h, by omega, by omega⟩
    · have h10 : 10 ≤ n := by omega
      obtain ⟨b, t, hbt, h1, h2⟩ := ih (n / 10) (Nat.div_lt_self hn (by decide)) (Nat.div_pos h10 (by decide))
      exact ⟨b, t ++ [48 + n % 10], by rw [digitsOf_ge n h10, hbt]; rfl, h1, h2⟩

theorem digitsOf_length_le (n k : Nat) (hk : 0 < k) (h : n < 10 ^ k) : (digitsOf n).length ≤ k := by
  unfold digitsOf
  rw [List.length_map]
  exact (Nat.length_toDigits_le_iff (by decide) hk).2 h

theorem foldl_ge : ∀ (ds : Bytes) (n : Nat), n ≤ ds.foldl (fun acc b => 10 * acc + (b - 48)) n := by
  intro ds
  induction ds with
  | nil => intro n; exact Nat.le_refl _
  | cons c t ih =>
    intro n
    simp only [List.foldl_cons]
    exact Nat.le_trans (by omega) (ih _)

theorem digitOf_digit (c : Nat) (h : isDigitB c = true) : c ≠ bUnder ∧ digitOf c = some (c - 48) ∧ c - 48 < 10 := by
  simp only [isDigitB, Bool.and_eq_true, decide_eq_true_eq] at h
  refine ⟨by unfold bUnder; omega, ?_, by omega⟩
  unfold digitOf
  simp [h.1, h.2]

/-- the digit loop of ParseUint on decimal digits -/
theorem puLoop_digits (M : Nat) (b0 : Bool) : ∀ (ds : Bytes) (n : Nat), (∀ d ∈ ds, isDigitB d = true) →
    ds.foldl (fun acc b => 10 * acc + (b - 48)) n ≤ M →
    puLoop 10 M b0 ds n = some (ds.foldl (fun acc b => 10 * acc + (b - 48)) n) := by
  intro ds
  induction ds with
  | nil => intro n _ _; rfl
  | cons c t ih =>
    intro n hd hM
    obtain ⟨h1, h2, h3⟩ := digitOf_digit c (hd c List.mem_cons_self)
    simp only [List.foldl_cons] at hM ⊢
    have hle : 10 * n + (c - 48) ≤ M := Nat.le_trans (foldl_ge t _) hM
    unfold puLoop
    simp only [h1, false_and, if_false, h2]
    have e : n * 10 + (c - 48) = 10 * n + (c - 48) := by omega
    rw [e]
    simp only [show ¬ (c - 48 ≥ 10) by omega, show ¬ (10 * n + (c - 48) > M) by omega, if_false]
    exact ih _ (fun d hd' => hd d (List.mem_cons_of_mem _ hd')) hM

theorem digits_no_under (n : Nat) : (digitsOf n).contains bUnder = false := by
  rw [List.contains_eq_mem]
  simp only [decide_eq_false_iff_not]
  intro h
  exact digit_not n bUnder (by decide) bUnder h rfl

/-- strconv.ParseUint(strconv.Itoa(n), 0, bits) = n -/
theorem parseUint0_digitsOf (n bits : Nat) (h : n < 2 ^ bits) : parseUint (digitsOf n) 0 bits = some n := by
  have hv : (digitsOf n).foldl (fun acc b => 10 * acc + (b - 48)) 0 = n := digitsVal_digitsOf n
  by_cases hn : n = 0
  · subst hn
    have : digitsOf 0 = [48] := digitsOf_lt 0 (by decide)
    rw [this]
    simp [parseUint, basePrefix, puLoop, bUnder]
  · obtain ⟨b, t, hbt, h1, h2⟩ := digitsOf_head n (Nat.pos_of_ne_zero hn)
    have hbp : basePrefix (digitsOf n) = (10, digitsOf n) := by
      rw [hbt]; unfold basePrefix
      simp [show b ≠ 48 by omega]
    have hloop := puLoop_digits (2 ^ bits - 1) true (digitsOf n) 0 (digitsOf_isDigit n) (by rw [hv]; omega)
    rw [hv] at hloop
    unfold parseUint
    simp only [digitsOf_ne_nil n, if_false, if_true, hbp, digits_no_under n]
    simp [hloop]

/-! ### CIGAR -/

/-- the operator letters "MIDNSHP=XB" -/
def opChar (op : Nat) : Nat := [77, 73, 68, 78, 83, 72, 80, 61, 88, 66].getD op 63

/-- Cigar.String -/
def renderCigar (c : List (Nat × Nat)) : Bytes :=
  if c = [] then [bStar] else c.flatMap fun o => digitsOf o.2 ++ [opChar o.1]

theorem opChar_props : ∀ op, op ≤ 9 → isDigitB (opChar op) = false ∧ cigarOpOf (opChar op) = op ∧ opChar op ≠ bTab ∧ opChar op ≠ bNl := by
  decide

theorem cigLoop_digits : ∀ (ds rest cur : Bytes) (n : Int) (o : Nat), (∀ d ∈ ds, isDigitB d = true) →
    cigLoop (ds ++ rest) cur n o = cigLoop rest (cur ++ ds) n o := by
  intro ds
  induction ds with
  | nil => intro rest cur n o _; simp
  | cons c t ih =>
    intro rest cur n o h
    have hc := h c List.mem_cons_self
    simp only [List.cons_append]
    rw [cigLoop]
    simp only [hc, if_true]
    rw [ih rest (cur ++ [c]) n o (fun d hd => h d (List.mem_cons_of_mem _ hd))]
    simp

theorem emitOps_small (op len : Nat) (h : len ≤ cigarK) : emitOps op (len / cigarK) len = [(op, len)] := by
  have hK : cigarK = 268435455 := by decide
  by_cases hl : len < cigarK
  · have : len / cigarK = 0 := Nat.div_eq_of_lt hl
    rw [this]; unfold emitOps
    simp [Nat.min_eq_left h]
  · have he : len = cigarK := by omega
    subst he
    have : cigarK / cigarK = 1 := by rw [hK]
    rw [this]; unfold emitOps
    simp

theorem cigLoop_render : ∀ (c : List (Nat × Nat)) (n : Int) (o : Nat), (∀ x ∈ c, x.1 ≤ 9 ∧ x.2 ≤ cigarK) →
    cigLoop (c.flatMap fun o => digitsOf o.2 ++ [opChar o.1]) [] n o = .ok c := by
  intro c
  induction c with
  | nil => intro n o _; rfl
  | cons x t ih =>
    intro n o h
    obtain ⟨hop, hlen⟩ := h x List.mem_cons_self
    obtain ⟨hnd, hopOf, _, _⟩ := opChar_props x.1 hop
    simp only [List.flatMap_cons, List.append_assoc, List.singleton_append]
    rw [cigLoop_digits _ _ _ _ _ (digitsOf_isDigit x.2)]
    rw [cigLoop]
    simp only [hnd, Bool.false_eq_true, if_false, List.nil_append, hopOf]
    have hK : cigarK = 268435455 := by decide
    have hl13 : ¬ (digitsOf x.2).length > 13 := by
      have := digitsOf_length_le x.2 13 (by decide) (by omega)
      omega
    have hv : digitsVal (digitsOf x.2) = x.2 := digitsVal_digitsOf x.2
    simp only [hl13, if_false, hv, show ¬ (x.1 = 10) by omega]
    rw [ih _ _ (fun y hy => h y (List.mem_cons_of_mem _ hy)), emitOps_small x.1 x.2 hlen]
    rfl

/-- ParseCigar reads back Cigar.String -/
theorem parseCigar_render (c : List (Nat × Nat)) (h : ∀ x ∈ c, x.1 ≤ 9 ∧ x.2 ≤ cigarK) :
    parseCigar (renderCigar c) = .ok c := by
  unfold parseCigar renderCigar
  cases c with
  | nil => simp
  | cons x t =>
    have hne : ¬ (((x :: t).flatMap fun o => digitsOf o.2 ++ [opChar o.1]) = [bStar]) := by
      intro he
      simp only [List.flatMap_cons, List.append_assoc] at he
      cases hd : digitsOf x.2 with
      | nil => exact digitsOf_ne_nil _ hd
      | cons b u =>
        rw [hd] at he
        have hb : isDigitB b = true := digitsOf_isDigit x.2 b (by rw [hd]; exact List.mem_cons_self)
        simp only [List.cons_append, List.cons.injEq] at he
        rw [he.1] at hb
        exact absurd hb (by decide)
    simp only [show ¬ (x :: t = []) by simp, if_false, hne]
    exact cigLoop_render (x :: t) 0 0 h

/-! ### lines -/

/-- every line followed by a newline -/
def unlines (ls : List Bytes) : Bytes := ls.flatMap (· ++ [bNl])

theorem splitB_unlines : ∀ (ls : List Bytes), (∀ l ∈ ls, ∀ b ∈ l, b ≠ bNl) →
    splitB bNl (unlines ls) = ls ++ [[]] := by
  intro ls
  induction ls with
  | nil => intro _; rfl
  | cons l t ih =>
    intro h
    have e : unlines (l :: t) = l ++ bNl :: unlines t := by simp [unlines]
    rw [e, splitB_append_sep bNl l _ (h l List.mem_cons_self), ih (fun x hx => h x (List.mem_cons_of_mem _ hx))]
    rfl

theorem linesOf_unlines (ls : List Bytes) (h : ∀ l ∈ ls, ∀ b ∈ l, b ≠ bNl) : linesOf (unlines ls) = (ls, []) := by
  unfold linesOf
  rw [splitB_unlines ls h]
  simp

/-! ### what samText writes -/

/-- the alphabet Seq.Expand prints: "=ACMGRSVTWYHKDBN" -/
def seqAlphabet : Bytes := [61, 65, 67, 77, 71, 82, 83, 86, 84, 87, 89, 72, 75, 68, 66, 78]

theorem seqAlphabet_props : ∀ b ∈ seqAlphabet, seqCanon b = b ∧ b ≠ bTab ∧ b ≠ bNl ∧ b ≠ bStar := by decide

/-- the eleven fields of a record line (MAPQ 60, no mate, no quality string, no optional field) -/
def recFields (rname : Bytes) (r : SamRec) : List Bytes :=
  [stringToBytes r.name, digitsOf r.flag, rname, digitsOf (r.pos + 1), [54, 48], renderCigar r.cigar, [bStar], [48], [48],
   (if r.seq = [] then [bStar] else r.seq), [bStar]]

def recLine (rname : Bytes) (r : SamRec) : Bytes := joinB bTab (recFields rname r)

/-- "@HD\tVN:1.6\tSO:unsorted" -/
def hdLine : Bytes := [64, 72, 68, 9, 86, 78, 58, 49, 46, 54, 9, 83, 79, 58, 117, 110, 115, 111, 114, 116, 101, 100]
/-- "@PG\tID:verif\tPN:verif" -/
def pgLine : Bytes := [64, 80, 71, 9, 73, 68, 58, 118, 101, 114, 105, 102, 9, 80, 78, 58, 118, 101, 114, 105, 102]
/-- "@SQ\tSN:<name>\tLN:<length>" -/
def sqLine (name : Bytes) (len : Nat) : Bytes := joinB bTab [[64, 83, 81], [83, 78, 58] ++ name, [76, 78, 58] ++ digitsOf len]

theorem hdLine_eq : hdLine = strB "@HD\tVN:1.6\tSO:unsorted" := by decide +kernel
theorem pgLine_eq : pgLine = strB "@PG\tID:verif\tPN:verif" := by decide +kernel

/-- samText(rname, L, recs, header = true) -/
def renderSam (name : Bytes) (len : Nat) (recs : List SamRec) : Bytes :=
  unlines ([hdLine, sqLine name len, pgLine] ++ recs.map (recLine name))

/-- a reference that can be written: a name without tab or newline that is not `*`, a length the header accepts -/
def refOk (name : Bytes) (len : Nat) : Bool :=
  name.all (fun b => b != bTab && b != bNl) && name != [bStar] && decide (1 ≤ len) && decide (len ≤ 2147483647)

/-- a record that can be written: a name without tab or newline whose first byte is not '@', a 16-bit flag, a
position inside the reference, operators M I D N S H P = X with lengths in 1 .. 2^28-1, SEQ over the alphabet of
Seq.Expand, and - when both are present - a CIGAR that Cigar.IsValid accepts for the length of SEQ -/
def recOk (refLen : Nat) (r : SamRec) : Bool :=
  (stringToBytes r.name).all (fun b => b != bTab && b != bNl) && (stringToBytes r.name).head? != some bAt &&
  decide (r.flag < 65536) && decide (r.pos < refLen) &&
  r.cigar.all (fun o => decide (o.1 ≤ 8) && decide (1 ≤ o.2) && decide (o.2 ≤ cigarK)) &&
  r.seq.all (fun b => seqAlphabet.contains b) &&
  (r.seq.isEmpty || r.cigar.isEmpty || cigarIsValid r.cigar r.seq.length)

/-- what the reader returns for a written record -/
def expected (rname : Bytes) (len : Nat) (r : SamRec) : Rec :=
  { name := stringToBytes r.name, flags := r.flag, ref := some { name := rname, id := 0, len := len }, pos := (r.pos : Int),
    mapq := 60, cigar := r.cigar, mate := none, matePos := -1, tlen := 0, seq := r.seq,
    qual := List.replicate r.seq.length 255, aux := [] }

theorem toSamRec_expected (rname : Bytes) (len : Nat) (r : SamRec) : (expected rname len r).toSamRec = r := by
  cases r with
  | mk name flag pos cigar seq =>
    simp [expected, Rec.toSamRec, bytesToString, stringToBytes, List.map_map, Function.comp_def]

structure RecFacts (refLen : Nat) (r : SamRec) : Prop where
  name : ∀ b ∈ stringToBytes r.name, b ≠ bTab ∧ b ≠ bNl
  head : (stringToBytes r.name).head? ≠ some bAt
  flag : r.flag < 65536
  pos : r.pos < refLen
  cigar : ∀ o ∈ r.cigar, o.1 ≤ 8 ∧ 1 ≤ o.2 ∧ o.2 ≤ cigarK
  seq : ∀ b ∈ r.seq, b ∈ seqAlphabet
  valid : r.seq ≠ [] → r.cigar ≠ [] → cigarIsValid r.cigar r.seq.length = true

theorem recOk_facts (refLen : Nat) (r : SamRec) (h : recOk refLen r = true) : RecFacts refLen r := by
  unfold recOk at h
  simp only [Bool.and_eq_true, List.all_eq_true, decide_eq_true_eq, bne_iff_ne, ne_eq, Bool.or_eq_true,
    List.isEmpty_iff, List.contains_eq_mem] at h
  obtain ⟨⟨⟨⟨⟨⟨h1, h2⟩, h3⟩, h4⟩, h5⟩, h6⟩, h7⟩ := h
  refine ⟨h1, h2, h3, h4, ?_, h6, ?_⟩
  · intro o ho
    have := h5 o ho
    exact ⟨this.1.1, this.1.2, this.2⟩
  · intro hs hc
    rcases h7 with (h7 | h7) | h7
    · exact absurd h7 hs
    · exact absurd h7 hc
    · exact h7

structure RefFacts (rn : Bytes) (len : Nat) : Prop where
  name : ∀ b ∈ rn, b ≠ bTab ∧ b ≠ bNl
  star : rn ≠ [bStar]
  lo : 1 ≤ len
  hi : len ≤ 2147483647

theorem refOk_facts (name : Bytes) (len : Nat) (h : refOk name len = true) : RefFacts name len := by
  unfold refOk at h
  simp only [Bool.and_eq_true, List.all_eq_true, decide_eq_true_eq, bne_iff_ne, ne_eq] at h
  exact ⟨h.1.1.1, h.1.1.2, h.1.2, h.2⟩

/-! ### no tab, no newline in the written fields -/

def Clean (p : Bytes) : Prop := ∀ b ∈ p, b ≠ bTab ∧ b ≠ bNl

theorem clean_digits (n : Nat) : Clean (digitsOf n) := fun b hb =>
  ⟨digit_not n bTab (by decide) b hb, digit_not n bNl (by decide) b hb⟩

theorem clean_append {a b : Bytes} (ha : Clean a) (hb : Clean b) : Clean (a ++ b) := by
  intro x hx
  rcases List.mem_append.1 hx with h | h
  · exact ha x h
  · exact hb x h

theorem clean_lit (p : Bytes) (h : p.all (fun b => b != bTab && b != bNl) = true) : Clean p := by
  intro b hb
  have := List.all_eq_true.1 h b hb
  simpa using this

theorem clean_cigar (c : List (Nat × Nat)) (h : ∀ o ∈ c, o.1 ≤ 9) : Clean (renderCigar c) := by
  unfold renderCigar
  split
  · exact clean_lit _ (by decide)
  · intro b hb
    obtain ⟨o, ho, hbo⟩ := List.mem_flatMap.1 hb
    rcases List.mem_append.1 hbo with h1 | h1
    · exact clean_digits _ b h1
    · have := opChar_props o.1 (h o ho)
      simp only [List.mem_singleton] at h1
      subst h1
      exact ⟨this.2.2.1, this.2.2.2⟩

theorem clean_fields (rname : Bytes) (len : Nat) (r : SamRec) (hn : Clean rname) (h : RecFacts len r) :
    ∀ p ∈ recFields rname r, Clean p := by
  intro p hp
  simp only [recFields, List.mem_cons, List.mem_nil_iff, or_false] at hp
  rcases hp with rfl | rfl | rfl | rfl | rfl | rfl | rfl | rfl | rfl | rfl | rfl
  · exact h.name
  · exact clean_digits _
  · exact hn
  · exact clean_digits _
  · exact clean_lit _ (by decide)
  · exact clean_cigar _ (fun o ho => by have := (h.cigar o ho).1; omega)
  · exact clean_lit _ (by decide)
  · exact clean_lit _ (by decide)
  · exact clean_lit _ (by decide)
  · split
    · exact clean_lit _ (by decide)
    · intro b hb
      have := seqAlphabet_props b (h.seq b hb)
      exact ⟨this.2.1, this.2.2.1⟩
  · exact clean_lit _ (by decide)

/-! ### one record line -/

theorem map_canon (s : Bytes) (h : ∀ b ∈ s, b ∈ seqAlphabet) : s.map seqCanon = s := by
  induction s with
  | nil => rfl
  | cons b t ih =>
    simp only [List.map_cons]
    rw [(seqAlphabet_props b (h b List.mem_cons_self)).1, ih (fun x hx => h x (List.mem_cons_of_mem _ hx))]

theorem stripCr_of_getLast (l : Bytes) (c : Nat) (h : l.getLast? = some c) (hc : c ≠ bCr) : stripCr l = l := by
  unfold stripCr
  rw [h]
  simp [hc]

theorem joinB_snoc (sep : Nat) : ∀ (t : List Bytes) (q p : Bytes),
    joinB sep (q :: t ++ [p]) = joinB sep (q :: t) ++ sep :: p := by
  intro t
  induction t with
  | nil => intro q p; simp [joinB]
  | cons x u ih =>
    intro q p
    simp only [List.cons_append, joinB]
    rw [← List.cons_append, ih x p]
    simp

theorem recLine_noCr (rname : Bytes) (r : SamRec) : stripCr (recLine rname r) = recLine rname r := by
  have e : recFields rname r = (stringToBytes r.name :: [digitsOf r.flag, rname, digitsOf (r.pos + 1), [54, 48],
      renderCigar r.cigar, [bStar], [48], [48], (if r.seq = [] then [bStar] else r.seq)]) ++ [[bStar]] := rfl
  apply stripCr_of_getLast _ bStar _ (by decide)
  unfold recLine
  rw [e, joinB_snoc]
  simp [List.getLast?_append]

theorem parseRecord_render (rname : Bytes) (len : Nat) (r : SamRec) (hr : RefFacts rname len) (h : RecFacts len r) :
    parseRecord (some [{ id := 0, name := rname, len := len }]) (recLine rname r) = .ok (expected rname len r) := by
  have hsplit : splitB bTab (recLine rname r) = recFields rname r :=
    splitB_joinB bTab _ (by simp [recFields]) (fun p hp b hb => (clean_fields rname len r hr.name h p hp b hb).1)
  have hflags : parseUint (digitsOf r.flag) 0 16 = some r.flag := parseUint0_digitsOf _ 16 h.flag
  have href : refForName (some [{ id := 0, name := rname, len := len }]) rname =
      some (some { name := rname, id := 0, len := len }) := by
    unfold refForName
    simp [hr.star, Ref.view]
  have hpos : atoi (digitsOf (r.pos + 1)) = some ((r.pos + 1 : Nat) : Int) :=
    atoi_digitsOf _ (by have := h.pos; have := hr.hi; unfold maxInt64; omega)
  have hmapq : parseUint [54, 48] 10 8 = some 60 := by decide
  have hcig : parseCigar (renderCigar r.cigar) = .ok r.cigar :=
    parseCigar_render _ (fun o ho => ⟨by have := (h.cigar o ho).1; omega, (h.cigar o ho).2.2⟩)
  have hstar : refForName (some [{ id := 0, name := rname, len := len }]) [bStar] = some none := by
    unfold refForName; simp
  have hat0 : atoi [48] = some 0 := by decide
  have hdec : decWrap ((r.pos + 1 : Nat) : Int) = (r.pos : Int) := by
    unfold decWrap
    have : ¬ (((r.pos + 1 : Nat) : Int) = -9223372036854775808) := by omega
    simp only [this, if_false]
    omega
  have hdec0 : decWrap 0 = -1 := by decide
  have hmate : ¬ (rname = [bStar] ∨ [bStar] = [bEq]) := by
    intro hm
    rcases hm with hm | hm
    · exact hr.star hm
    · exact absurd hm (by decide)
  unfold parseRecord
  simp only [hsplit]
  have hlen : ¬ ((recFields rname r).length < 11) := by simp [recFields]
  simp only [hlen, if_false]
  have f1 : field (recFields rname r) 1 = digitsOf r.flag := rfl
  have f2 : field (recFields rname r) 2 = rname := rfl
  have f3 : field (recFields rname r) 3 = digitsOf (r.pos + 1) := rfl
  have f4 : field (recFields rname r) 4 = [54, 48] := rfl
  have f5 : field (recFields rname r) 5 = renderCigar r.cigar := rfl
  have f6 : field (recFields rname r) 6 = [bStar] := rfl
  have f7 : field (recFields rname r) 7 = [48] := rfl
  have f8 : field (recFields rname r) 8 = [48] := rfl
  have f9 : field (recFields rname r) 9 = (if r.seq = [] then [bStar] else r.seq) := rfl
  have f10 : field (recFields rname r) 10 = [bStar] := rfl
  have f0 : field (recFields rname r) 0 = stringToBytes r.name := rfl
  have fd : (recFields rname r).drop 11 = [] := rfl
  simp only [f0, f1, f2, f3, f4, f5, f6, f7, f8, f9, f10, fd, hflags, href, hpos, hmapq, hcig, hmate, if_false, hstar,
    hat0, hdec, hdec0, parseAuxes]
  by_cases hs : r.seq = []
  · simp [hs, expected]
  · have hne : ¬ (r.seq = [bStar]) := by
      intro he
      have := seqAlphabet_props bStar (h.seq bStar (by rw [he]; exact List.mem_cons_self))
      exact this.2.2.2 rfl
    simp only [hs, if_false, hne, ne_eq, not_false_eq_true, true_and, not_true_eq_false, false_and]
    by_cases hc : r.cigar = []
    · simp [hc, expected, map_canon r.seq h.seq]
    · have hv := h.valid hs hc
      simp [hc, hv, expected, map_canon r.seq h.seq]

/-! ### the header -/

def verifB : Bytes := [118, 101, 114, 105, 102]

/-- the header NewReader builds from the three lines samText writes -/
def hdrOf (name : Bytes) (len : Nat) : Hdr :=
  { version := [49, 46, 54], so := 1, refs := [{ id := 0, name := name, len := len }], progs := [verifB] }

theorem hd_parse : headerLine hdLine {} = .ok { version := [49, 46, 54], so := 1 } := by decide +kernel

theorem pg_split : splitB bTab pgLine = [[64, 80, 71], [73, 68, 58] ++ verifB, [80, 78, 58] ++ verifB] := by decide +kernel

theorem pg_parse (h : Hdr) (hp : h.progs = []) : programLine pgLine h = .ok { h with progs := [verifB] } := by
  unfold programLine
  rw [pg_split]
  simp [pgFields, tagField, Res.bind, hp, tID, bColon, verifB]

theorem digits_getLast (n : Nat) : ∃ c, (digitsOf n).getLast? = some c ∧ c ≠ bCr := by
  cases h : (digitsOf n).getLast? with
  | none => exact absurd (List.getLast?_eq_none_iff.1 h) (digitsOf_ne_nil n)
  | some c =>
    refine ⟨c, rfl, ?_⟩
    have hm : c ∈ digitsOf n := List.mem_of_getLast? h
    exact digit_not n bCr (by decide) c hm

theorem sqLine_noCr (name : Bytes) (len : Nat) : stripCr (sqLine name len) = sqLine name len := by
  obtain ⟨c, hc, hne⟩ := digits_getLast len
  apply stripCr_of_getLast _ c _ hne
  have e : sqLine name len = ([64, 83, 81] ++ bTab :: ([83, 78, 58] ++ name) ++ bTab :: [76, 78, 58]) ++ digitsOf len := by
    simp [sqLine, joinB]
  rw [e, List.getLast?_append, hc]
  rfl

theorem sq_split (name : Bytes) (len : Nat) (hn : Clean name) :
    splitB bTab (sqLine name len) = [[64, 83, 81], [83, 78, 58] ++ name, [76, 78, 58] ++ digitsOf len] := by
  unfold sqLine
  apply splitB_joinB bTab _ (by simp)
  intro p hp b hb
  simp only [List.mem_cons, List.mem_nil_iff, or_false] at hp
  rcases hp with rfl | rfl | rfl
  · exact (clean_lit _ (by decide) b hb).1
  · exact (clean_append (clean_lit [83, 78, 58] (by decide)) hn b hb).1
  · exact (clean_append (clean_lit [76, 78, 58] (by decide)) (clean_digits len) b hb).1

theorem sq_parse (name : Bytes) (len : Nat) (hr : RefFacts name len) (h : Hdr) (hrefs : h.refs = []) :
    referenceLine (sqLine name len) h = .ok { h with refs := [{ id := 0, name := name, len := len }] } := by
  have hat : atoi (digitsOf len) = some (len : Int) := atoi_digitsOf _ (by have := hr.hi; unfold maxInt64; omega)
  have hvl : validLen (len : Int) = true := by
    unfold validLen
    have := hr.lo; have := hr.hi
    simp only [Bool.and_eq_true, decide_eq_true_eq]
    omega
  unfold referenceLine
  rw [sq_split name len hr.name]
  simp [sqFields, tagField, Res.bind, hrefs, hat, hvl, tSN, tLN, tAS, tM5, tSP, tUR, bColon]

theorem header_parse (name : Bytes) (len : Nat) (hr : RefFacts name len) :
    headerLines [hdLine, sqLine name len, pgLine] 0 {} = .ok (hdrOf name len) := by
  have h1 : stripCr hdLine = hdLine := by decide
  have h3 : stripCr pgLine = pgLine := by decide
  have hsq : sqLine name len = 64 :: 83 :: 81 :: 9 :: ([83, 78, 58] ++ name ++ 9 :: ([76, 78, 58] ++ digitsOf len)) := by
    simp [sqLine, joinB, bTab]
  have hsqp := sq_parse name len hr { version := [49, 46, 54], so := 1 } rfl
  have hpgp := pg_parse { version := [49, 46, 54], so := 1, refs := [{ id := 0, name := name, len := len }] } rfl
  rw [headerLines]
  simp only [h1, show ¬ (hdLine = []) by decide, show ¬ (hdLine.head? ≠ some bAt ∨ hdLine.length < 3) by decide,
    show (hdLine.drop 1).take 2 = tHD by decide, if_false, if_true, hd_parse]
  have e2 : ¬ (sqLine name len = []) := by rw [hsq]; simp
  have e3 : ¬ ((sqLine name len).head? ≠ some bAt ∨ (sqLine name len).length < 3) := by
    rw [hsq]; simp [bAt]
  have e4 : ((sqLine name len).drop 1).take 2 = tSQ := by rw [hsq]; rfl
  rw [headerLines]
  simp only [sqLine_noCr, e2, e3, e4, show ¬ (tSQ = tHD) by decide, if_false, if_true, hsqp]
  rw [headerLines]
  simp only [h3, show ¬ (pgLine = []) by decide, show ¬ (pgLine.head? ≠ some bAt ∨ pgLine.length < 3) by decide,
    show (pgLine.drop 1).take 2 = tPG by decide, show ¬ (tPG = tHD) by decide, show ¬ (tPG = tSQ) by decide,
    show ¬ (tPG = tRG) by decide, if_false, if_true, hpgp]
  rfl

/-! ### the Read loop -/

theorem recLine_cons (rname : Bytes) (r : SamRec) :
    recLine rname r = stringToBytes r.name ++ bTab :: joinB bTab ((recFields rname r).drop 1) := by
  simp [recLine, recFields, joinB]

theorem recLine_head (rname : Bytes) (len : Nat) (r : SamRec) (h : RecFacts len r) :
    (recLine rname r).head? ≠ some bAt := by
  rw [recLine_cons]
  cases hn : stringToBytes r.name with
  | nil => simp [bTab, bAt]
  | cons b t =>
    have := h.head
    rw [hn] at this
    simpa using this

theorem recLine_ne_nil (rname : Bytes) (r : SamRec) : recLine rname r ≠ [] := by
  rw [recLine_cons]; simp

theorem read_render (rname : Bytes) (len : Nat) (hr : RefFacts rname len) : ∀ (recs : List SamRec),
    (∀ r ∈ recs, RecFacts len r) →
    readWithHeader [{ id := 0, name := rname, len := len }] (recs.map (recLine rname)) =
      (recs.map (expected rname len), .eof) := by
  intro recs
  induction recs with
  | nil => intro _; rfl
  | cons r t ih =>
    intro h
    simp only [List.map_cons]
    rw [readWithHeader]
    have hl : recordLine (recLine rname r) = some (recLine rname r) := by
      unfold recordLine
      simp [recLine_ne_nil, recLine_noCr]
    simp only [hl, parseRecord_render rname len r hr (h r List.mem_cons_self),
      ih (fun x hx => h x (List.mem_cons_of_mem _ hx))]

theorem takeHeader_recs (rname : Bytes) (len : Nat) (recs : List SamRec) (h : ∀ r ∈ recs, RecFacts len r) :
    takeHeader (recs.map (recLine rname)) [] = some ([], recs.map (recLine rname)) := by
  cases recs with
  | nil => simp [takeHeader]
  | cons r t =>
    simp only [List.map_cons]
    rw [takeHeader]
    simp [recLine_head rname len r (h r List.mem_cons_self)]

theorem takeHeader_render (name : Bytes) (len : Nat) (recs : List SamRec) (h : ∀ r ∈ recs, RecFacts len r) :
    takeHeader ([hdLine, sqLine name len, pgLine] ++ recs.map (recLine name)) [] =
      some ([hdLine, sqLine name len, pgLine], recs.map (recLine name)) := by
  have hsq : (sqLine name len).head? = some bAt := by simp [sqLine, joinB, bAt]
  simp only [List.cons_append, List.nil_append]
  rw [takeHeader]
  rw [show hdLine.head? = some bAt by decide]
  simp only [if_true]
  rw [takeHeader]
  simp only [hsq, if_true]
  rw [takeHeader]
  rw [show pgLine.head? = some bAt by decide]
  simp only [if_true, takeHeader_recs name len recs h]

/-! ### no newline inside a line -/

def NoNl (p : Bytes) : Prop := ∀ b ∈ p, b ≠ bNl

theorem noNl_lit (p : Bytes) (h : p.all (fun b => b != bNl) = true) : NoNl p := by
  intro b hb
  have := List.all_eq_true.1 h b hb
  simpa using this

theorem noNl_joinB : ∀ (parts : List Bytes), (∀ p ∈ parts, Clean p) → NoNl (joinB bTab parts) := by
  intro parts
  induction parts with
  | nil => intro _ b hb; simp [joinB] at hb
  | cons p t ih =>
    intro h
    cases t with
    | nil => simp only [joinB]; exact fun b hb => (h p List.mem_cons_self b hb).2
    | cons q u =>
      simp only [joinB]
      intro b hb
      rcases List.mem_append.1 hb with h1 | h1
      · exact (h p List.mem_cons_self b h1).2
      · rcases List.mem_cons.1 h1 with h2 | h2
        · rw [h2]; decide
        · exact ih (fun x hx => h x (List.mem_cons_of_mem _ hx)) b h2

theorem lines_noNl (name : Bytes) (len : Nat) (recs : List SamRec) (hr : RefFacts name len)
    (h : ∀ r ∈ recs, RecFacts len r) :
    ∀ l ∈ [hdLine, sqLine name len, pgLine] ++ recs.map (recLine name), ∀ b ∈ l, b ≠ bNl := by
  intro l hl
  rcases List.mem_append.1 hl with h1 | h1
  · simp only [List.mem_cons, List.mem_nil_iff, or_false] at h1
    rcases h1 with rfl | rfl | rfl
    · exact noNl_lit hdLine (by decide)
    · apply noNl_joinB
      intro p hp
      simp only [List.mem_cons, List.mem_nil_iff, or_false] at hp
      rcases hp with rfl | rfl | rfl
      · exact clean_lit _ (by decide)
      · exact clean_append (clean_lit [83, 78, 58] (by decide)) hr.name
      · exact clean_append (clean_lit [76, 78, 58] (by decide)) (clean_digits len)
    · exact noNl_lit pgLine (by decide)
  · obtain ⟨r, hrm, rfl⟩ := List.mem_map.1 h1
    exact noNl_joinB _ (clean_fields name len r hr.name (h r hrm))

/-! ### the round trip -/

/-- NewReader and the Read loop on the written text: the header of the three written lines, one record per written
record with exactly the written fields (and MAPQ 60, no mate, quality 0xff), the end of the input reached without
an error -/
theorem readSam_render (name : Bytes) (len : Nat) (recs : List SamRec) (hr : refOk name len = true)
    (h : ∀ r ∈ recs, recOk len r = true) :
    readSam (renderSam name len recs) =
      .ok (hdrOf name len) (recs.map (expected name len)) .eof [{ name := name, id := 0, len := len }] := by
  have hrf := refOk_facts name len hr
  have hf : ∀ r ∈ recs, RecFacts len r := fun r hrm => recOk_facts len r (h r hrm)
  have hlines := linesOf_unlines _ (lines_noNl name len recs hrf hf)
  obtain ⟨t, ht⟩ : ∃ t, renderSam name len recs = bAt :: t := ⟨_, rfl⟩
  have hlines' : linesOf (renderSam name len recs) =
      ([hdLine, sqLine name len, pgLine] ++ recs.map (recLine name), []) := hlines
  rw [ht] at hlines'
  rw [ht]
  unfold readSam
  simp only [hlines', ne_eq, not_true_eq_false, if_false, takeHeader_render name len recs hf,
    header_parse name len hrf]
  simp only [hdrOf, read_render name len hrf recs hf]
  rfl

/-- the reader seen as a function to structured rows: the (name, length) of the header's references and the records
as `SamRec`, when NewReader succeeds and the Read loop reaches io.EOF -/
def readRows (text : Bytes) : Option (List (Bytes × Nat) × List SamRec) :=
  match readSam text with
  | .ok h recs .eof _ => some (h.refs.map (fun r => (r.name, r.len)), recs.map Rec.toSamRec)
  | _ => none

/-- reading what `samText` wrote for a reference and a list of well-formed records gives that reference and those
records back -/
theorem sam_roundtrip (name : Bytes) (len : Nat) (recs : List SamRec) (hr : refOk name len = true)
    (h : ∀ r ∈ recs, recOk len r = true) :
    readRows (renderSam name len recs) = some ([(name, len)], recs) := by
  unfold readRows
  rw [readSam_render name len recs hr h]
  simp only [hdrOf, List.map_cons, List.map_nil, List.map_map]
  congr 2
  have e : ∀ r ∈ recs, (Rec.toSamRec ∘ expected name len) r = id r := fun r _ => toSamRec_expected name len r
  rw [List.map_congr_left e]
  simp

/-! ### an unterminated last line is never returned -/

theorem splitB_unlines_append : ∀ (ls : List Bytes) (p : Bytes), (∀ l ∈ ls, ∀ b ∈ l, b ≠ bNl) → (∀ b ∈ p, b ≠ bNl) →
    splitB bNl (unlines ls ++ p) = ls ++ [p] := by
  intro ls
  induction ls with
  | nil => intro p _ hp; exact splitB_plain bNl p hp
  | cons l t ih =>
    intro p h hp
    have e : unlines (l :: t) ++ p = l ++ bNl :: (unlines t ++ p) := by simp [unlines]
    rw [e, splitB_append_sep bNl l _ (h l List.mem_cons_self), ih p (fun x hx => h x (List.mem_cons_of_mem _ hx)) hp]
    rfl

theorem linesOf_unlines_append (ls : List Bytes) (p : Bytes) (h : ∀ l ∈ ls, ∀ b ∈ l, b ≠ bNl) (hp : ∀ b ∈ p, b ≠ bNl) :
    linesOf (unlines ls ++ p) = (ls, p) := by
  unfold linesOf
  rw [splitB_unlines_append ls p h hp]
  simp

theorem takeHeader_rest : ∀ (ls : List Bytes) (p : Bytes), p.head? ≠ some bAt → takeHeader ls p = takeHeader ls [] := by
  intro ls
  induction ls with
  | nil => intro p hp; simp [takeHeader, hp]
  | cons l t ih =>
    intro p hp
    rw [takeHeader, takeHeader, ih p hp]

theorem readSam_congr (t1 t2 : Bytes) (h0 : t1.head? = t2.head?) (h1 : (linesOf t1).1 = (linesOf t2).1)
    (h2 : takeHeader (linesOf t1).1 (linesOf t1).2 = takeHeader (linesOf t2).1 (linesOf t2).2) :
    readSam t1 = readSam t2 := by
  cases t1 with
  | nil =>
    cases t2 with
    | nil => rfl
    | cons c u => simp at h0
  | cons c u =>
    cases t2 with
    | nil => simp at h0
    | cons c' u' =>
      simp only [List.head?_cons, Option.some.injEq] at h0
      subst h0
      unfold readSam
      rw [h1] at h2
      simp only [h1, h2]

/-- The defect in Reader.Read seen from outside: bytes after the last newline are never returned as a record (and
raise no error), whatever they are, unless they start with '@' right after header lines. A SAM file whose last line
is not terminated loses that alignment silently. -/
theorem readSam_unterminated (ls : List Bytes) (p : Bytes) (hne : ls ≠ []) (h : ∀ l ∈ ls, ∀ b ∈ l, b ≠ bNl)
    (hp : ∀ b ∈ p, b ≠ bNl) (hat : p.head? ≠ some bAt) :
    readSam (unlines ls ++ p) = readSam (unlines ls) := by
  have e1 := linesOf_unlines_append ls p h hp
  have e2 := linesOf_unlines ls h
  apply readSam_congr
  · cases ls with
    | nil => exact absurd rfl hne
    | cons l t =>
      have e : unlines (l :: t) = l ++ bNl :: unlines t := by simp [unlines]
      rw [e]
      cases l <;> simp
  · rw [e1, e2]
  · rw [e1, e2]
    exact takeHeader_rest ls p hat

/-! ### Cigar.IsValid in plain terms -/

/-- number of query bases a CIGAR covers: the lengths of M I S = X -/
def queryLen (c : List (Nat × Nat)) : Nat :=
  (c.map fun o => if o.1 = 0 ∨ o.1 = 1 ∨ o.1 = 4 ∨ o.1 = 7 ∨ o.1 = 8 then o.2 else 0).sum

/-- an operator other than the clips S, H and the backward skip B -/
def plainOp (op : Nat) : Bool := op == 0 || op == 1 || op == 2 || op == 3 || op == 6 || op == 7 || op == 8

theorem consumes_plain : ∀ op, plainOp op = true →
    op ≠ 5 ∧ op ≠ 4 ∧ 0 ≤ (consumes op).2 ∧
    (consumes op).1 = (if op = 0 ∨ op = 1 ∨ op = 4 ∨ op = 7 ∨ op = 8 then 1 else 0) := by
  intro op h
  simp only [plainOp, Bool.or_eq_true, beq_iff_eq] at h
  rcases h with (((((h | h) | h) | h) | h) | h) | h <;> subst h <;> decide

theorem validLoop_plain : ∀ (c : List (Nat × Nat)) (i prev : Nat) (length pos : Int), 0 ≤ pos →
    (∀ o ∈ c, plainOp o.1 = true) →
    validLoop c i prev length pos = (length - (queryLen c : Int) == 0) := by
  intro c
  induction c with
  | nil => intro i prev length pos _ _; simp [validLoop, queryLen]
  | cons o t ih =>
    intro i prev length pos hpos h
    obtain ⟨op, len⟩ := o
    obtain ⟨h5, h4, hr, hq⟩ := consumes_plain op (h (op, len) List.mem_cons_self)
    rw [validLoop]
    simp only [h5, h4, false_and, if_false, show ¬ (pos < 0 ∧ (consumes op).1 ≠ 0) by omega]
    rw [ih (i + 1) op _ _ (by have : (0 : Int) ≤ (len : Int) * (consumes op).2 := Int.mul_nonneg (by omega) hr; omega)
      (fun x hx => h x (List.mem_cons_of_mem _ hx))]
    have e : (queryLen ((op, len) :: t) : Int) = (len : Int) * (consumes op).1 + (queryLen t : Int) := by
      rw [hq]
      simp only [queryLen, List.map_cons, List.sum_cons]
      split <;> simp
    rw [e]
    congr 1
    omega

/-- for a CIGAR without clipping and backward skips, Cigar.IsValid(n) says that the operators cover n query bases -/
theorem cigarIsValid_plain (c : List (Nat × Nat)) (n : Nat) (h : ∀ o ∈ c, plainOp o.1 = true) :
    cigarIsValid c n = decide (queryLen c = n) := by
  unfold cigarIsValid
  rw [validLoop_plain c 0 0 n 0 (by omega) h]
  by_cases e : queryLen c = n
  · simp [e]
  · simp only [e, decide_false, beq_eq_false_iff_ne, ne_eq]
    omega

/-- an optional clipping operation -/
def clip (op : Nat) : Option Nat → List (Nat × Nat)
  | none => []
  | some k => [(op, k)]

theorem validLoop_core : ∀ (core tail : List (Nat × Nat)) (i prev : Nat) (length pos : Int), 0 ≤ pos →
    (∀ o ∈ core, plainOp o.1 = true) →
    ∃ prev' pos', 0 ≤ pos' ∧
      validLoop (core ++ tail) i prev length pos =
        validLoop tail (i + core.length) prev' (length - (queryLen core : Int)) pos' := by
  intro core
  induction core with
  | nil => intro tail i prev length pos hpos _; exact ⟨prev, pos, hpos, by simp [queryLen]⟩
  | cons o t ih =>
    intro tail i prev length pos hpos h
    obtain ⟨op, len⟩ := o
    obtain ⟨h5, h4, hr, hq⟩ := consumes_plain op (h (op, len) List.mem_cons_self)
    have hpos' : 0 ≤ pos + (len : Int) * (consumes op).2 := by
      have : (0 : Int) ≤ (len : Int) * (consumes op).2 := Int.mul_nonneg (by omega) hr
      omega
    obtain ⟨p', q', hq', e⟩ := ih tail (i + 1) op (length - (len : Int) * (consumes op).1) _ hpos'
      (fun x hx => h x (List.mem_cons_of_mem _ hx))
    refine ⟨p', q', hq', ?_⟩
    simp only [List.cons_append]
    rw [validLoop]
    simp only [h5, h4, false_and, if_false, show ¬ (pos < 0 ∧ (consumes op).1 ≠ 0) by omega]
    rw [e]
    have eq : (queryLen ((op, len) :: t) : Int) = (len : Int) * (consumes op).1 + (queryLen t : Int) := by
      rw [hq]
      simp only [queryLen, List.map_cons, List.sum_cons]
      split <;> simp
    rw [eq]
    have e1 : i + 1 + t.length = i + ((op, len) :: t).length := by simp; omega
    have e2 : length - (len : Int) * (consumes op).1 - (queryLen t : Int) =
        length - ((len : Int) * (consumes op).1 + (queryLen t : Int)) := by omega
    rw [e1, e2]

theorem validLoop_tail (s2 h2 : Option Nat) (i prev : Nat) (length pos : Int) (hpos : 0 ≤ pos) :
    validLoop (clip 4 s2 ++ clip 5 h2) i prev length pos = (length - (queryLen (clip 4 s2) : Int) == 0) := by
  cases s2 <;> cases h2 <;>
    simp [clip, validLoop, queryLen, consumes, show ¬ pos < 0 by omega]

theorem validLoop_head (h1 s1 : Option Nat) (rest : List (Nat × Nat)) (length : Int) :
    ∃ prev, validLoop (clip 5 h1 ++ clip 4 s1 ++ rest) 0 0 length 0 =
      validLoop rest ((clip 5 h1).length + (clip 4 s1).length) prev (length - (queryLen (clip 4 s1) : Int)) 0 := by
  cases h1 <;> cases s1
  · exact ⟨0, by simp [clip, queryLen]⟩
  · exact ⟨4, by simp [clip, validLoop, queryLen, consumes]⟩
  · exact ⟨5, by simp [clip, validLoop, queryLen, consumes]⟩
  · exact ⟨4, by simp [clip, validLoop, queryLen, consumes]⟩

theorem queryLen_append (a b : List (Nat × Nat)) : queryLen (a ++ b) = queryLen a + queryLen b := by
  simp [queryLen]

theorem queryLen_clipH (h : Option Nat) : queryLen (clip 5 h) = 0 := by
  cases h <;> simp [clip, queryLen]

/-- for a CIGAR of the usual shape - hard clip, soft clip, operators M I D N P = X, soft clip, hard clip, each clip
optional - Cigar.IsValid(n) says that the operators cover n query bases -/
theorem cigarIsValid_clipped (h1 s1 s2 h2 : Option Nat) (core : List (Nat × Nat)) (n : Nat)
    (hcore : ∀ o ∈ core, plainOp o.1 = true) :
    cigarIsValid (clip 5 h1 ++ clip 4 s1 ++ (core ++ (clip 4 s2 ++ clip 5 h2))) n =
      decide (queryLen (clip 5 h1 ++ clip 4 s1 ++ (core ++ (clip 4 s2 ++ clip 5 h2))) = n) := by
  unfold cigarIsValid
  obtain ⟨p0, e0⟩ := validLoop_head h1 s1 (core ++ (clip 4 s2 ++ clip 5 h2)) n
  rw [e0]
  obtain ⟨p1, q1, hq1, e1⟩ := validLoop_core core (clip 4 s2 ++ clip 5 h2)
    ((clip 5 h1).length + (clip 4 s1).length) p0 (n - (queryLen (clip 4 s1) : Int)) 0 (by omega) hcore
  rw [e1, validLoop_tail s2 h2 _ _ _ _ hq1]
  simp only [queryLen_append, queryLen_clipH, Nat.zero_add, Nat.add_zero]
  by_cases e : queryLen (clip 4 s1) + (queryLen core + queryLen (clip 4 s2)) = n
  · simp only [e, decide_true, beq_iff_eq]
    omega
  · simp only [e, decide_false, beq_eq_false_iff_ne, ne_eq]
    omega

end Gofasta.Lemmas.SamRT
