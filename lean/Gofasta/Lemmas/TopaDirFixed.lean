import Gofasta.Lemmas.FanoutCommands
/-
`gofasta sam toPairAlign -o <directory>` with the REPAIRED directory writer.

FanoutCommands part D models the directory writer that wrote the file of a pair WHEN THE PAIR ARRIVED
(`topaDirCfg`); `topa_dir_every_schedule` needed the hypothesis that the query names of the blocks are distinct, and
`Examples.topaDupEx` shows two schedules that leave different files when two blocks share a name.  The Go writer has
been repaired: it re-orders the pairs by their input index exactly like the stdout writer (a pending map keyed by
index, a counter, a flush loop) and creates the file of a pair when the pair is FLUSHED.  The files are therefore
written in input order whatever the arrival order, and a later block of the same name replaces the earlier one.

  0.  generic: the writer `DirW` = the pending map and counter (`Reorder.St`) + the directory; the loop body
      `DirW.absorb` (store, flush, create the file of every flushed record), `dirw_result`,
      `chain_dir_writer_every_schedule` (any number of pools), `chain_dir_writer_deterministic`
  D'. `topaDirFixedCfg`;
      `topa_dir_fixed_every_schedule`   the directory is `files.foldl fsWrite []`, files = the model's list in input
                                        order; the file called n holds the text of the LAST file called n in input order
      `topa_dir_fixed_deterministic`    two returned states of any two schedules have EQUAL directories (as lists)
      `topa_dir_fixed_runSchedule`      executed schedules
  no hypothesis on the names anywhere.  Non-vacuity: namespace `Examples` (the input of `topaDupEx`, the two schedules
  that disagreed there now agree).
-/
set_option autoImplicit false

namespace Gofasta.Lemmas.TopaDirFixed
open Gofasta Gofasta.Model Gofasta.Driver
open Gofasta.Model.SchedChain Gofasta.Lemmas.SchedChain Gofasta.Lemmas.SchedCommands
open Gofasta.Lemmas.FanoutCommands
open Gofasta.Lemmas.Sched (absorbAll_total)

/-! ## 0. the re-ordering directory writer -/

section generic
variable {α β ε : Type}

/-- state of the repaired writer goroutine: the pending map with its counter (`ro`, as in `TextW`) and the directory
(file name to contents) -/
structure DirW (β : Type) where
  ro : Reorder.St β
  dir : List (String × String)

/-- before the loop: nothing pending, the counter at 0, an empty directory -/
def DirW.start : DirW β := ⟨⟨[], 0, []⟩, []⟩

/-- the loop body: store the record under its index, flush, and create the file of each flushed record, in the
order of the flush -/
def DirW.absorb (file : β → String × String) (st : DirW β) (r : Nat × β) : DirW β :=
  let ro' := Reorder.recv st.ro r
  ⟨ro', ((ro'.out.drop st.ro.out.length).map file).foldl fsWrite st.dir⟩

theorem DirW.absorb_ro (file : β → String × String) (st : DirW β) (r : Nat × β) :
    (DirW.absorb file st r).ro = Reorder.recv st.ro r := rfl

/-- the directory is what the flushed records, in the order of their flush, leave -/
theorem DirW.absorb_dir (file : β → String × String) (st : DirW β) (r : Nat × β)
    (h : st.dir = (st.ro.out.map file).foldl fsWrite []) :
    (DirW.absorb file st r).dir = ((DirW.absorb file st r).ro.out.map file).foldl fsWrite [] := by
  obtain ⟨l, hl⟩ := recv_out_prefix st.ro r
  simp only [DirW.absorb, hl, List.drop_left, List.map_append, List.foldl_append, h]

theorem DirW.foldl_ro (file : β → String × String) : ∀ (recs : List (Nat × β)) (st : DirW β),
    (recs.foldl (DirW.absorb file) st).ro = recs.foldl Reorder.recv st.ro := by
  intro recs
  induction recs with
  | nil => intro st; rfl
  | cons r t ih => intro st; simp only [List.foldl_cons, ih, DirW.absorb_ro]

theorem DirW.foldl_dir (file : β → String × String) : ∀ (recs : List (Nat × β)) (st : DirW β),
    st.dir = (st.ro.out.map file).foldl fsWrite [] →
    (recs.foldl (DirW.absorb file) st).dir =
      ((recs.foldl (DirW.absorb file) st).ro.out.map file).foldl fsWrite [] := by
  intro recs
  induction recs with
  | nil => intro st h; exact h
  | cons r t ih => intro st h; simp only [List.foldl_cons]; exact ih _ (DirW.absorb_dir file st r h)

/-- the directory writer, fed in any arrival order the records of a complete run, leaves the directory that the
results written in input order leave -/
theorem dirw_result {items : List α} {F : α → Except ε β} {recs : List (Nat × β)}
    (file : β → String × String)
    (hall : ∀ x ∈ items, ∃ y, F x = .ok y)
    (hperm : (recs.map Prod.fst).Perm (List.range items.length))
    (hgood : ∀ r ∈ recs, ∃ x, items[r.1]? = some x ∧ F x = .ok r.2) :
    ∃ ys : List β, items.map F = ys.map Except.ok ∧
      (recs.foldl (DirW.absorb file) DirW.start).ro.out = ys ∧
      (recs.foldl (DirW.absorb file) DirW.start).dir = (ys.map file).foldl fsWrite [] := by
  obtain ⟨ys, hys⟩ := outputs_exist hall
  refine ⟨ys, hys, ?_⟩
  have hgood' : ∀ r ∈ recs, ys[r.1]? = some r.2 := by
    intro r hr
    obtain ⟨x, hx, hf⟩ := hgood r hr
    exact good_index hys hx hf
  rw [← map_ok_length hys] at hperm
  have hout : (recs.foldl (DirW.absorb file) DirW.start).ro.out = ys := by
    rw [DirW.foldl_ro]
    have : (recs.foldl Reorder.recv (DirW.start : DirW β).ro).out = Reorder.run recs := rfl
    rw [this, run_eq_of_indexed hperm hgood']
  refine ⟨hout, ?_⟩
  rw [DirW.foldl_dir file recs DirW.start rfl, hout]

end generic

section chain
variable {γ ε : Type}

/-- **any number of pools, re-ordering directory writer, every schedule**: in every reachable state in which main
has returned nil, every item went through all the pools, the writer flushed the results in input order, and the
directory is what creating their files in input order leaves -/
theorem chain_dir_writer_every_schedule {cfg : Cfg γ ε (DirW γ)} {s : State γ ε (DirW γ)}
    (file : γ → String × String) (hN : ∀ P ∈ cfg.pools, 1 ≤ P.N)
    (habs : ∀ st r, cfg.absorb st r = .ok (DirW.absorb file st r))
    (hfin : ∀ st, cfg.finish st = .ok st)
    (hinit : cfg.init = DirW.start)
    (hr : Reach cfg s) (hm : s.main = .ret none) :
    ∃ ys : List γ, cfg.items.map (pass cfg.pools) = ys.map Except.ok ∧ s.wst.ro.out = ys ∧
      s.wst.dir = (ys.map file).foldl fsWrite [] := by
  obtain ⟨_, hall, recs, hperm, hgood, st, hfold, hfin'⟩ := chain_success_means_complete hN hr hm
  rw [absorbAll_total habs] at hfold
  injection hfold with hfold
  rw [hfin] at hfin'
  injection hfin' with hfin'
  rw [← hfin', ← hfold, hinit]
  exact dirw_result file hall hperm hgood

/-- two returned states (any two schedules) of the same chain have the same directory, as lists -/
theorem chain_dir_writer_deterministic {cfg : Cfg γ ε (DirW γ)} {s1 s2 : State γ ε (DirW γ)}
    (file : γ → String × String) (hN : ∀ P ∈ cfg.pools, 1 ≤ P.N)
    (habs : ∀ st r, cfg.absorb st r = .ok (DirW.absorb file st r))
    (hfin : ∀ st, cfg.finish st = .ok st)
    (hinit : cfg.init = DirW.start)
    (hr1 : Reach cfg s1) (hm1 : s1.main = .ret none) (hr2 : Reach cfg s2) (hm2 : s2.main = .ret none) :
    s1.wst.dir = s2.wst.dir := by
  obtain ⟨ys1, hys1, _, hd1⟩ := chain_dir_writer_every_schedule file hN habs hfin hinit hr1 hm1
  obtain ⟨ys2, hys2, _, hd2⟩ := chain_dir_writer_every_schedule file hN habs hfin hinit hr2 hm2
  have : ys1 = ys2 := by
    apply (List.map_inj_right (fun a b h => Except.ok.inj h)).mp
    rw [← hys1, ← hys2]
  rw [hd1, hd2, this]

end chain

/-! ## D'. `sam toPairAlign -o dir`, the repaired writer -/

section toPairAlign

/-- `sam toPairAlign -o dir` as a run of the chain with two pools: the writer re-orders the pairs by input index and
creates the file of a pair when the pair is flushed -/
def topaDirFixedCfg (ref : List Nat) (refName : String) (wrap : Int) (omitRef omitIns : Bool) (w : Nat × Nat × Bool)
    (blocks : List (List SamRec)) (N1 N2 cap0 cap1 cap2 : Nat) (rf : Option (Nat × CmdErr)) :
    Cfg PA CmdErr (DirW PA) where
  items := blocks.map .block
  pools := paPools ref omitIns w N1 N2 cap1 cap2
  cap0 := cap0
  readFail := rf
  absorb := fun st r => .ok (DirW.absorb (paFile wrap refName omitRef) st r)
  finish := fun st => .ok st
  init := DirW.start

/-- the directory that creating the files f_1, ..., f_k in this order leaves -/
def dirOf (files : List (String × String)) : List (String × String) := files.foldl fsWrite []

/-- in `dirOf files` the file called n holds the text of the LAST file called n in `files` -/
theorem lookup_dirOf (n : String) (files : List (String × String)) :
    List.lookup n (dirOf files) = List.lookup n files.reverse := by
  have := foldl_fsWrite_lookup n files []
  simpa [dirOf] using this

/-- the names in `dirOf files` are distinct -/
theorem dirOf_nodup (files : List (String × String)) : ((dirOf files).map Prod.fst).Nodup := by
  have h : ∀ (fs acc : List (String × String)), (acc.map Prod.fst).Nodup → ((fs.foldl fsWrite acc).map Prod.fst).Nodup := by
    intro fs
    induction fs with
    | nil => intro acc h; exact h
    | cons f t ih =>
      intro acc hacc
      simp only [List.foldl_cons]
      apply ih
      simp only [fsWrite, List.map_cons, List.nodup_cons, List.mem_map, List.mem_filter]
      refine ⟨?_, ?_⟩
      · rintro ⟨g, ⟨_, hg⟩, hgf⟩
        simp [hgf] at hg
      · exact (List.filter_sublist.map Prod.fst).nodup hacc
  exact h files [] (by simp)

/-- the directory of a block list, every schedule, in terms of the blocks (no argument check involved) -/
theorem topa_dir_fixed_blocks (ref : List Nat) (refName : String) (wrap : Int) (omitRef omitIns : Bool)
    (blocks : List (List SamRec)) (w : Nat × Nat × Bool)
    (N1 N2 cap0 cap1 cap2 : Nat) (rf : Option (Nat × CmdErr)) (hN1 : 1 ≤ N1) (hN2 : 1 ≤ N2) {s : State _ _ _}
    (hr : Reach (topaDirFixedCfg ref refName wrap omitRef omitIns w blocks N1 N2 cap0 cap1 cap2 rf) s)
    (hm : s.main = .ret none) :
    s.wst.ro.out = blocks.map (paBoth ref omitIns w) ∧
    s.wst.dir = dirOf ((blocks.map (paBoth ref omitIns w)).map (paFile wrap refName omitRef)) := by
  obtain ⟨ys, hys, hout, hdir⟩ := chain_dir_writer_every_schedule
    (cfg := topaDirFixedCfg ref refName wrap omitRef omitIns w blocks N1 N2 cap0 cap1 cap2 rf)
    (paFile wrap refName omitRef) (pa_pools_N ref omitIns w N1 N2 cap1 cap2 hN1 hN2)
    (fun _ _ => rfl) (fun _ => rfl) rfl hr hm
  have hys1 : blocks.map (paBoth ref omitIns w) = ys := by
    apply (List.map_inj_right (fun a b h => Except.ok.inj h)).mp
    rw [← hys]
    exact (pa_items_pass ref omitIns w N1 N2 cap1 cap2 blocks).symm
  rw [hys1]
  exact ⟨hout, hdir⟩

/-- **D'. sam toPairAlign to a directory, the repaired writer, every schedule of the two-pool chain**: whenever the
driver returns nil the directory is what creating the files of the sequential model IN INPUT ORDER leaves - the
same list for every schedule, with no hypothesis on the query names; the file called n holds the text of the last
file called n in input order -/
theorem topa_dir_fixed_every_schedule (ref : List Nat) (refName : String) (start stop wrap : Int) (omitRef omitIns : Bool)
    (recs : List SamRec) (w : Nat × Nat × Bool) (hargs : checkArgs ref.length start stop = some w)
    (N1 N2 cap0 cap1 cap2 : Nat) (rf : Option (Nat × CmdErr)) (hN1 : 1 ≤ N1) (hN2 : 1 ≤ N2) {s : State _ _ _}
    (hr : Reach (topaDirFixedCfg ref refName wrap omitRef omitIns w (samBlocks recs) N1 N2 cap0 cap1 cap2 rf) s)
    (hm : s.main = .ret none) :
    ∃ files, toPairAlign ref refName start stop wrap omitRef omitIns recs = some files ∧
      s.wst.dir = files.foldl fsWrite [] ∧
      (∀ n, List.lookup n s.wst.dir = List.lookup n files.reverse) ∧
      (s.wst.dir.map Prod.fst).Nodup := by
  refine ⟨_, toPairAlign_files ref refName start stop wrap omitRef omitIns recs w hargs, ?_⟩
  have hd := (topa_dir_fixed_blocks ref refName wrap omitRef omitIns (samBlocks recs) w N1 N2 cap0 cap1 cap2 rf
    hN1 hN2 hr hm).2
  refine ⟨hd, ?_, ?_⟩
  · intro n
    rw [hd]
    exact lookup_dirOf n _
  · rw [hd]
    exact dirOf_nodup _

/-- the same with the model's answer as the left-hand side -/
theorem topa_dir_fixed_model (ref : List Nat) (refName : String) (start stop wrap : Int) (omitRef omitIns : Bool)
    (recs : List SamRec) (w : Nat × Nat × Bool) (hargs : checkArgs ref.length start stop = some w)
    (N1 N2 cap0 cap1 cap2 : Nat) (rf : Option (Nat × CmdErr)) (hN1 : 1 ≤ N1) (hN2 : 1 ≤ N2) {s : State _ _ _}
    (hr : Reach (topaDirFixedCfg ref refName wrap omitRef omitIns w (samBlocks recs) N1 N2 cap0 cap1 cap2 rf) s)
    (hm : s.main = .ret none) :
    some s.wst.dir = (toPairAlign ref refName start stop wrap omitRef omitIns recs).map dirOf := by
  obtain ⟨files, hf, hd, _⟩ := topa_dir_fixed_every_schedule ref refName start stop wrap omitRef omitIns recs w hargs
    N1 N2 cap0 cap1 cap2 rf hN1 hN2 hr hm
  rw [hf, hd]
  rfl

/-- **D', determinism**: two reachable states in which the driver has returned nil - the end states of any two
schedules - have literally equal directories (hence equal as lookup functions); any block list, any names, any
window -/
theorem topa_dir_fixed_deterministic (ref : List Nat) (refName : String) (wrap : Int) (omitRef omitIns : Bool)
    (blocks : List (List SamRec)) (w : Nat × Nat × Bool)
    (N1 N2 cap0 cap1 cap2 : Nat) (rf : Option (Nat × CmdErr)) (hN1 : 1 ≤ N1) (hN2 : 1 ≤ N2) {s1 s2 : State _ _ _}
    (hr1 : Reach (topaDirFixedCfg ref refName wrap omitRef omitIns w blocks N1 N2 cap0 cap1 cap2 rf) s1)
    (hm1 : s1.main = .ret none)
    (hr2 : Reach (topaDirFixedCfg ref refName wrap omitRef omitIns w blocks N1 N2 cap0 cap1 cap2 rf) s2)
    (hm2 : s2.main = .ret none) :
    s1.wst.dir = s2.wst.dir ∧ ∀ n, List.lookup n s1.wst.dir = List.lookup n s2.wst.dir := by
  have h : s1.wst.dir = s2.wst.dir := by
    rw [(topa_dir_fixed_blocks ref refName wrap omitRef omitIns blocks w N1 N2 cap0 cap1 cap2 rf hN1 hN2 hr1 hm1).2,
      (topa_dir_fixed_blocks ref refName wrap omitRef omitIns blocks w N1 N2 cap0 cap1 cap2 rf hN1 hN2 hr2 hm2).2]
  exact ⟨h, fun n => by rw [h]⟩

/-- **D', executed schedules**: with no read failure, every schedule that is long enough ends with the driver having
returned nil and the directory of the model -/
theorem topa_dir_fixed_runSchedule (ref : List Nat) (refName : String) (start stop wrap : Int) (omitRef omitIns : Bool)
    (recs : List SamRec) (w : Nat × Nat × Bool) (hargs : checkArgs ref.length start stop = some w)
    (N1 N2 cap0 cap1 cap2 : Nat) (hN1 : 1 ≤ N1) (hN2 : 1 ≤ N2) (sched : List Nat)
    (hlen : μ (topaDirFixedCfg ref refName wrap omitRef omitIns w (samBlocks recs) N1 N2 cap0 cap1 cap2 none)
      (init (topaDirFixedCfg ref refName wrap omitRef omitIns w (samBlocks recs) N1 N2 cap0 cap1 cap2 none)) ≤ sched.length) :
    (runSchedule (topaDirFixedCfg ref refName wrap omitRef omitIns w (samBlocks recs) N1 N2 cap0 cap1 cap2 none) sched).main
      = .ret none ∧
    some (runSchedule (topaDirFixedCfg ref refName wrap omitRef omitIns w (samBlocks recs) N1 N2 cap0 cap1 cap2 none) sched).wst.dir
      = (toPairAlign ref refName start stop wrap omitRef omitIns recs).map dirOf := by
  have hf : ∀ x ∈ (topaDirFixedCfg ref refName wrap omitRef omitIns w (samBlocks recs) N1 N2 cap0 cap1 cap2 none).items,
      ∃ y, pass (topaDirFixedCfg ref refName wrap omitRef omitIns w (samBlocks recs) N1 N2 cap0 cap1 cap2 none).pools x = .ok y := by
    intro x hx
    obtain ⟨b, _, rfl⟩ := List.mem_map.mp hx
    exact ⟨_, pa_pass_block ref omitIns w N1 N2 cap1 cap2 b⟩
  have hm := chain_runSchedule_returns_nil
    (cfg := topaDirFixedCfg ref refName wrap omitRef omitIns w (samBlocks recs) N1 N2 cap0 cap1 cap2 none)
    (pa_pools_N ref omitIns w N1 N2 cap1 cap2 hN1 hN2) rfl hf (fun _ _ => ⟨_, rfl⟩) (fun _ => ⟨_, rfl⟩) sched hlen
  exact ⟨hm, topa_dir_fixed_model ref refName start stop wrap omitRef omitIns recs w hargs
    N1 N2 cap0 cap1 cap2 none hN1 hN2 (runSchedule_reach _ sched) hm⟩

end toPairAlign

/-! ## the statements are not vacuous: the input on which the old writer was schedule-dependent -/

namespace Examples
open Gofasta.Lemmas.FanoutCommands.Examples

/-- the input of `FanoutCommands.Examples.topaDupEx` (blocks called q, r, q), the repaired writer -/
def topaDupFixedEx :=
  topaDirFixedCfg paRef "ref" (-1) true false paW (samBlocks [paRec1, paRec2, paRec4]) 2 2 1 2 2 none

set_option maxRecDepth 100000 in
/-- the two schedules of the counterexample: the pairs still arrive at the writer in the orders 0, 1, 2 and 1, 2, 0,
but both runs now leave the same directory - the file q holds the text of the LATER block called q -/
example :
    (samBlocks [paRec1, paRec2, paRec4]).map (fun b => (b.headD default).name) = ["q", "r", "q"] ∧
    (runSchedule topaDupFixedEx csched1).main = .ret none ∧ (runSchedule topaDupFixedEx csched3).main = .ret none ∧
    (runSchedule topaDupFixedEx csched1).arrival.map (·.1) = [0, 1, 2] ∧
    (runSchedule topaDupFixedEx csched3).arrival.map (·.1) = [1, 2, 0] ∧
    (runSchedule topaDupFixedEx csched1).wst.dir = (runSchedule topaDupFixedEx csched3).wst.dir ∧
    (runSchedule topaDupFixedEx csched1).wst.dir = [("q", ">q\nNNNTTT\n"), ("r", ">r\nNGGTAN\n")] ∧
    List.lookup "q" (runSchedule topaDupFixedEx csched1).wst.dir = some ">q\nNNNTTT\n" ∧
    List.lookup "q" (runSchedule topaDupFixedEx csched3).wst.dir = some ">q\nNNNTTT\n" ∧
    some (runSchedule topaDupFixedEx csched1).wst.dir =
      (toPairAlign paRef "ref" 2 7 (-1) true false [paRec1, paRec2, paRec4]).map dirOf := by
  decide

/-- the old writer on the same two schedules, for comparison: different files q -/
example :
    List.lookup "q" (runSchedule topaDupEx csched1).wst ≠ List.lookup "q" (runSchedule topaDupEx csched3).wst := by
  decide

/-- and the general theorem says the same about every schedule -/
example (sched : List Nat) (h : (runSchedule topaDupFixedEx sched).main = .ret none) :
    (runSchedule topaDupFixedEx sched).wst.dir = [("q", ">q\nNNNTTT\n"), ("r", ">r\nNGGTAN\n")] := by
  have := topa_dir_fixed_model paRef "ref" 2 7 (-1) true false [paRec1, paRec2, paRec4] paW paW_ok 2 2 1 2 2 none
    (by decide) (by decide) (runSchedule_reach _ sched) h
  have hm : (toPairAlign paRef "ref" 2 7 (-1) true false [paRec1, paRec2, paRec4]).map dirOf =
      some [("q", ">q\nNNNTTT\n"), ("r", ">r\nNGGTAN\n")] := by decide
  rw [hm] at this
  exact Option.some.inj this

end Examples

end Gofasta.Lemmas.TopaDirFixed
