import Gofasta.Lemmas.SchedProofs
import Gofasta.Lemmas.SchedChainProofs
import Gofasta.Lemmas.AggOrder
import Gofasta.Lemmas.SamVarPipeline
import Gofasta.Model.Updown
import Gofasta.Model.Validate
import Gofasta.Lemmas.AggVariants
/-
Command-level "every schedule" theorems: the small-step models of the goroutines and channels
(Model/Sched, one worker pool; Model/SchedChain, any number of pools) instantiated with the
functions of the sequential command models (Model/Snps, Model/Updown, Model/Sam, Model/Variants,
Driver/Var, Driver/SamVar).

For every reachable state of the concurrency model in which the driver has returned nil (by
`maximal_run_success`: at the end of every maximal run when nothing fails), the bytes the writer
has written are exactly the value of the sequential command model; when a record makes a worker
fail, no schedule returns nil.

  0.  generic: the re-ordering writer started at k (`runFrom_shift`), the text writer `TextW`
      (pending map + counter + bytes written), `text_writer_every_schedule`,
      `chain_text_writer_every_schedule`
  A.  snps                       `snps_every_schedule`            = `snpsOutput hard ref recs`
  C.  snps --aggregate           `snps_aggregate_every_schedule`  = `snpsAggregate hard n d ref recs`
  B.  updown list                `updown_list_every_schedule`     = `udListOutput ref recs`
  D.  sam toMultiAlign           `toma_every_schedule`            `toMultiAlign refLen o recs = some text`
  E.  variants                   `variants_every_schedule`        = `varCommand vi pairFn`
  E'. variants --aggregate       `variants_aggregate_every_schedule`, `variants_aggregate_model_every_schedule`
  F.  sam variants (two pools)   `sam_variants_every_schedule`    = `samVarOn ...` (= `samVarCore`, `samVarCommand`)
  F'. sam variants --aggregate   `sam_variants_aggregate_every_schedule`
  failure direction: `*_width_error_reported`, `*_read_error_reported`; whole runs: `*_maximal_run`;
  executed schedules: `*_runSchedule`, `*_outcome` (decided by `refusesWidths` of Model/Validate);
  non-vacuity: namespace `Examples` (two schedules with different arrival orders per family).
-/
set_option autoImplicit false

namespace Gofasta.Lemmas.SchedCommands
open Gofasta Gofasta.Model
open Gofasta.Model.Sched (absorbAll)

variable {α β ε : Type}

/-! ## 0. generic part -/

/-! ### the re-ordering writer whose counter starts at k, fed the indices k, k+1, ... -/

/-- the index the reader gives a record when it has already consumed k records itself -/
def shiftIdx (k : Nat) (r : Nat × β) : Nat × β := (r.1 + k, r.2)

def shiftSt (k : Nat) (s : Reorder.St β) : Reorder.St β :=
  ⟨s.pending.map (shiftIdx k), s.counter + k, s.out⟩

theorem lookup_shift (k c : Nat) (l : List (Nat × β)) :
    Reorder.lookup (c + k) (l.map (shiftIdx k)) = Reorder.lookup c l := by
  induction l with
  | nil => rfl
  | cons h t ih =>
    obtain ⟨i, v⟩ := h
    simp only [List.map_cons, shiftIdx, Reorder.lookup]
    by_cases hi : i = c
    · subst hi; simp
    · have : ¬ (i + k = c + k) := by omega
      simp only [hi, this, if_false]
      exact ih

theorem erase_shift (k c : Nat) (l : List (Nat × β)) :
    Reorder.erase (c + k) (l.map (shiftIdx k)) = (Reorder.erase c l).map (shiftIdx k) := by
  induction l with
  | nil => rfl
  | cons h t ih =>
    obtain ⟨i, v⟩ := h
    simp only [List.map_cons, shiftIdx, Reorder.erase]
    by_cases hi : i = c
    · subst hi; simp only [if_true]; exact ih
    · have : ¬ (i + k = c + k) := by omega
      simp only [hi, this, if_false, List.map_cons, shiftIdx]
      rw [← ih]

theorem flush_shift (k : Nat) : ∀ (fuel : Nat) (s : Reorder.St β),
    Reorder.flush fuel (shiftSt k s) = shiftSt k (Reorder.flush fuel s) := by
  intro fuel
  induction fuel with
  | zero => intro s; rfl
  | succ n ih =>
    intro s
    simp only [Reorder.flush]
    have hl : Reorder.lookup (shiftSt k s).counter (shiftSt k s).pending = Reorder.lookup s.counter s.pending :=
      lookup_shift k s.counter s.pending
    rw [hl]
    cases hlook : Reorder.lookup s.counter s.pending with
    | none => rfl
    | some v =>
      simp only []
      have : ({ pending := Reorder.erase (shiftSt k s).counter (shiftSt k s).pending,
                counter := (shiftSt k s).counter + 1, out := (shiftSt k s).out ++ [v] } : Reorder.St β) =
          shiftSt k { pending := Reorder.erase s.counter s.pending, counter := s.counter + 1, out := s.out ++ [v] } := by
        simp only [shiftSt, erase_shift]
        congr 1
        omega
      rw [this, ih]

theorem recv_shift (k : Nat) (s : Reorder.St β) (r : Nat × β) :
    Reorder.recv (shiftSt k s) (shiftIdx k r) = shiftSt k (Reorder.recv s r) := by
  unfold Reorder.recv
  simp only []
  have hp : ((shiftIdx k r).1, (shiftIdx k r).2) :: Reorder.erase (shiftIdx k r).1 (shiftSt k s).pending =
      ((r.1, r.2) :: Reorder.erase r.1 s.pending).map (shiftIdx k) := by
    simp only [shiftIdx, shiftSt, List.map_cons, erase_shift]
  rw [hp]
  have hst : ({ shiftSt k s with pending := ((r.1, r.2) :: Reorder.erase r.1 s.pending).map (shiftIdx k) } : Reorder.St β) =
      shiftSt k { s with pending := (r.1, r.2) :: Reorder.erase r.1 s.pending } := rfl
  rw [hst, List.length_map, flush_shift]

theorem foldl_recv_shift (k : Nat) : ∀ (recs : List (Nat × β)) (s : Reorder.St β),
    (recs.map (shiftIdx k)).foldl Reorder.recv (shiftSt k s) = shiftSt k (recs.foldl Reorder.recv s) := by
  intro recs
  induction recs with
  | nil => intro s; rfl
  | cons r t ih => intro s; simp only [List.map_cons, List.foldl_cons, recv_shift, ih]

/-- the writer started at k and fed the indices shifted by k emits what the writer started at 0 emits -/
theorem runFrom_shift (k : Nat) (recs : List (Nat × β)) :
    Reorder.runFrom k (recs.map (shiftIdx k)) = Reorder.run recs := by
  unfold Reorder.run Reorder.runFrom
  have h0 : (⟨[], k, []⟩ : Reorder.St β) = shiftSt k ⟨[], 0, []⟩ := by simp [shiftSt]
  rw [h0, foldl_recv_shift]
  rfl

/-! ### the flush loop only appends to what was emitted -/

theorem flush_out_prefix : ∀ (fuel : Nat) (s : Reorder.St β), ∃ l, (Reorder.flush fuel s).out = s.out ++ l := by
  intro fuel
  induction fuel with
  | zero => intro s; exact ⟨[], by simp [Reorder.flush]⟩
  | succ n ih =>
    intro s
    simp only [Reorder.flush]
    split
    · rename_i v _
      obtain ⟨l, hl⟩ := ih { pending := Reorder.erase s.counter s.pending, counter := s.counter + 1, out := s.out ++ [v] }
      exact ⟨v :: l, by rw [hl]; simp⟩
    · exact ⟨[], by simp⟩

theorem recv_out_prefix (s : Reorder.St β) (r : Nat × β) : ∃ l, (Reorder.recv s r).out = s.out ++ l := by
  unfold Reorder.recv
  exact flush_out_prefix _ _

/-! ### the text writer: header, then every flushed record rendered and written -/

/-- state of a writer goroutine of the shape of snps.writeOutput, updown/list.writeOutput,
variants.WriteVariants, fastaio.WriteAlignment: the pending map with its counter (`ro`) and the
bytes written so far (`text`) -/
structure TextW (β : Type) where
  ro : Reorder.St β
  text : String

/-- before the loop: the header is written; the counter starts at k -/
def TextW.start (header : String) (k : Nat) : TextW β := ⟨⟨[], k, []⟩, header⟩

/-- the loop body: store the record under its index, flush, and write each flushed record -/
def TextW.absorb (render : β → String) (k : Nat) (st : TextW β) (r : Nat × β) : TextW β :=
  let ro' := Reorder.recv st.ro (shiftIdx k r)
  ⟨ro', st.text ++ String.join ((ro'.out.drop st.ro.out.length).map render)⟩

theorem TextW.absorb_ro (render : β → String) (k : Nat) (st : TextW β) (r : Nat × β) :
    (TextW.absorb render k st r).ro = Reorder.recv st.ro (shiftIdx k r) := rfl

/-- what was written is the header and the rendering of what was emitted -/
theorem TextW.absorb_text (render : β → String) (header : String) (k : Nat) (st : TextW β) (r : Nat × β)
    (h : st.text = header ++ String.join (st.ro.out.map render)) :
    (TextW.absorb render k st r).text = header ++ String.join ((TextW.absorb render k st r).ro.out.map render) := by
  obtain ⟨l, hl⟩ := recv_out_prefix st.ro (shiftIdx k r)
  simp only [TextW.absorb, hl, List.drop_left, List.map_append, String.join_append, h, String.append_assoc]

theorem TextW.foldl_ro (render : β → String) (k : Nat) : ∀ (recs : List (Nat × β)) (st : TextW β),
    (recs.foldl (TextW.absorb render k) st).ro = (recs.map (shiftIdx k)).foldl Reorder.recv st.ro := by
  intro recs
  induction recs with
  | nil => intro st; rfl
  | cons r t ih => intro st; simp only [List.foldl_cons, List.map_cons, ih, TextW.absorb_ro]

theorem TextW.foldl_text (render : β → String) (header : String) (k : Nat) : ∀ (recs : List (Nat × β)) (st : TextW β),
    st.text = header ++ String.join (st.ro.out.map render) →
    (recs.foldl (TextW.absorb render k) st).text =
      header ++ String.join ((recs.foldl (TextW.absorb render k) st).ro.out.map render) := by
  intro recs
  induction recs with
  | nil => intro st h; exact h
  | cons r t ih => intro st h; simp only [List.foldl_cons]; exact ih _ (TextW.absorb_text render header k st r h)

/-! ### the records that reach a writer, against the list of the workers' results -/

/-- when every item is accepted, the results form a list -/
theorem outputs_exist {items : List α} {F : α → Except ε β} (hall : ∀ x ∈ items, ∃ y, F x = .ok y) :
    ∃ ys : List β, items.map F = ys.map Except.ok := by
  induction items with
  | nil => exact ⟨[], rfl⟩
  | cons a t ih =>
    obtain ⟨y, hy⟩ := hall a (by simp)
    obtain ⟨ys, hys⟩ := ih (fun x hx => hall x (by simp [hx]))
    exact ⟨y :: ys, by simp [hy, hys]⟩

theorem map_ok_length {items : List α} {F : α → Except ε β} {ys : List β} (h : items.map F = ys.map Except.ok) :
    ys.length = items.length := by
  have := congrArg List.length h
  simpa using this.symm

theorem good_index {items : List α} {F : α → Except ε β} {ys : List β} (h : items.map F = ys.map Except.ok)
    {i : Nat} {x : α} {y : β} (hx : items[i]? = some x) (hf : F x = .ok y) : ys[i]? = some y := by
  have h1 : (items.map F)[i]? = some (Except.ok y) := by simp [hx, hf]
  rw [h, List.getElem?_map] at h1
  cases hy : ys[i]? with
  | none => rw [hy] at h1; cases h1
  | some y' =>
    rw [hy] at h1
    simp only [Option.map_some, Option.some.injEq] at h1
    injection h1 with h1
    rw [h1]

/-- when the worker's result is a function g of the item wherever it succeeds, the results are the items mapped by g -/
theorem map_ok_eq {F : α → Except ε β} {g : α → β} (hg : ∀ x y, F x = .ok y → y = g x) :
    ∀ {items : List α} {ys : List β}, items.map F = ys.map Except.ok → ys = items.map g := by
  intro items
  induction items with
  | nil => intro ys h; cases ys with
    | nil => rfl
    | cons _ _ => simp at h
  | cons a t ih =>
    intro ys h
    cases ys with
    | nil => simp at h
    | cons y ys' =>
      simp only [List.map_cons, List.cons.injEq] at h
      rw [hg a y h.1, ih h.2]
      rfl

theorem all_ok_of_map {items : List α} {F : α → Except ε β} {ys : List β} (h : items.map F = ys.map Except.ok) :
    ∀ x ∈ items, ∃ y, F x = .ok y := by
  intro x hx
  have : F x ∈ ys.map Except.ok := by rw [← h]; exact List.mem_map.mpr ⟨x, hx, rfl⟩
  obtain ⟨y, _, hy⟩ := List.mem_map.mp this
  exact ⟨y, hy.symm⟩

/-- records that carry their own index into ys are the indices paired with the entries of ys -/
theorem indexed_payload {ys : List β} {recs : List (Nat × β)} (d : β)
    (hgood : ∀ r ∈ recs, ys[r.1]? = some r.2) :
    recs = (recs.map Prod.fst).map (fun i => (i, ys[i]?.getD d)) ∧
    (List.range ys.length).map (fun i => ys[i]?.getD d) = ys := by
  constructor
  · rw [List.map_map]
    have : ∀ r ∈ recs, ((fun i => (i, ys[i]?.getD d)) ∘ Prod.fst) r = id r := by
      intro r hr
      simp only [Function.comp, hgood r hr, Option.getD_some, id]
    rw [List.map_congr_left this, List.map_id]
  · apply List.ext_getElem
    · simp
    · intro i h1 h2
      simp at h1
      simp [List.getElem?_eq_getElem h1]

/-- the re-ordering writer emits ys -/
theorem run_eq_of_indexed {ys : List β} {recs : List (Nat × β)}
    (hperm : (recs.map Prod.fst).Perm (List.range ys.length))
    (hgood : ∀ r ∈ recs, ys[r.1]? = some r.2) : Reorder.run recs = ys := by
  cases hrecs : recs with
  | nil =>
    rw [hrecs] at hperm
    have hl := hperm.length_eq
    simp at hl
    rw [List.eq_nil_of_length_eq_zero hl.symm]
    rfl
  | cons r0 t =>
    rw [← hrecs]
    obtain ⟨h1, h2⟩ := indexed_payload r0.2 hgood
    rw [h1, Reorder.run_perm _ ys.length _ hperm, h2]

/-- the payloads, in arrival order, are a permutation of ys -/
theorem snd_perm_of_indexed {ys : List β} {recs : List (Nat × β)}
    (hperm : (recs.map Prod.fst).Perm (List.range ys.length))
    (hgood : ∀ r ∈ recs, ys[r.1]? = some r.2) : (recs.map Prod.snd).Perm ys := by
  cases hrecs : recs with
  | nil =>
    rw [hrecs] at hperm
    have hl := hperm.length_eq
    simp at hl
    rw [List.eq_nil_of_length_eq_zero hl.symm]
    exact List.Perm.refl _
  | cons r0 t =>
    rw [← hrecs]
    obtain ⟨h1, h2⟩ := indexed_payload r0.2 hgood
    have h3 : recs.map Prod.snd = (recs.map Prod.fst).map (fun i => ys[i]?.getD r0.2) := by
      conv => lhs; rw [h1]
      simp [List.map_map, Function.comp]
    rw [h3]
    have := hperm.map (fun i => ys[i]?.getD r0.2)
    rw [h2] at this
    exact this

/-- the text writer, fed in any arrival order the records of a complete run, has written the header and the
rendered results in input order -/
theorem textw_result {items : List α} {F : α → Except ε β} {recs : List (Nat × β)}
    (render : β → String) (header : String) (k : Nat)
    (hall : ∀ x ∈ items, ∃ y, F x = .ok y)
    (hperm : (recs.map Prod.fst).Perm (List.range items.length))
    (hgood : ∀ r ∈ recs, ∃ x, items[r.1]? = some x ∧ F x = .ok r.2) :
    ∃ ys : List β, items.map F = ys.map Except.ok ∧
      (recs.foldl (TextW.absorb render k) (TextW.start header k)).text = header ++ String.join (ys.map render) := by
  obtain ⟨ys, hys⟩ := outputs_exist hall
  refine ⟨ys, hys, ?_⟩
  have hgood' : ∀ r ∈ recs, ys[r.1]? = some r.2 := by
    intro r hr
    obtain ⟨x, hx, hf⟩ := hgood r hr
    exact good_index hys hx hf
  rw [← map_ok_length hys] at hperm
  rw [TextW.foldl_text render header k recs (TextW.start header k) (by simp [TextW.start])]
  rw [TextW.foldl_ro]
  have : ((recs.map (shiftIdx k)).foldl Reorder.recv (TextW.start header k : TextW β).ro).out =
      Reorder.runFrom k (recs.map (shiftIdx k)) := rfl
  rw [this, runFrom_shift, run_eq_of_indexed hperm hgood']

/-! ### one worker pool with the text writer -/

section onePool
open Gofasta.Model.Sched Gofasta.Lemmas.Sched

/-- **one pool, text writer, every schedule**: in every reachable state in which main has returned nil, every
item was accepted by the worker and the text written is the header followed by the rendered results in input order -/
theorem text_writer_every_schedule {cfg : Cfg α β ε (TextW β)} {s : State α β ε (TextW β)}
    (render : β → String) (header : String) (k : Nat) (hN : 1 ≤ cfg.N)
    (habs : ∀ st r, cfg.absorb st r = .ok (TextW.absorb render k st r))
    (hfin : ∀ st, cfg.finish st = .ok st)
    (hinit : cfg.init = TextW.start header k)
    (hr : Reach cfg s) (hm : s.main = .ret none) :
    ∃ ys : List β, cfg.items.map cfg.f = ys.map Except.ok ∧ s.wst.text = header ++ String.join (ys.map render) := by
  obtain ⟨_, hall, recs, hperm, hgood, st, hfold, hfin'⟩ := success_means_complete hN hr hm
  rw [absorbAll_total habs] at hfold
  injection hfold with hfold
  rw [hfin] at hfin'
  injection hfin' with hfin'
  rw [← hfin', ← hfold, hinit]
  exact textw_result render header k hall hperm hgood

/-- when nothing can fail, every schedule that is long enough ends with main having returned nil -/
theorem runSchedule_returns_nil {σ : Type} {cfg : Cfg α β ε σ} (hN : 1 ≤ cfg.N)
    (hrf : cfg.readFail = none) (hf : ∀ x ∈ cfg.items, ∃ y, cfg.f x = .ok y)
    (ha : ∀ st r, ∃ st', cfg.absorb st r = .ok st') (hfin : ∀ st, ∃ st', cfg.finish st = .ok st')
    (sched : List Nat) (hlen : μ cfg (init cfg) ≤ sched.length) :
    (runSchedule cfg sched).main = .ret none := by
  obtain ⟨r, hret⟩ := runSchedule_returns hN sched hlen
  cases r with
  | none => exact hret
  | some e => exact absurd hret (no_spurious_error hrf hf ha hfin (runSchedule_reach cfg sched) e)

end onePool

/-- what a worker reports -/
inductive CmdErr where
  | width      -- a row is not as wide as the reference
  | input      -- the reader could not read a record
  | stage      -- a value of the wrong kind on a channel (cannot happen: see `samVarCfg`)
  deriving DecidableEq, Repr

/-! ## A. `gofasta snps`, per-sequence output -/

section snps
open Gofasta.Model.Sched Gofasta.Lemmas.Sched

/-- the reader's records: name and encoded row -/
def encItems (hard : Bool) (recs : List (String × List Nat)) : List (String × List Nat) :=
  recs.map fun r => (r.1, r.2.map (enc hard))

/-- the worker of snps.SNPs: width check, then getSNPs on the encoded rows -/
def snpsWorker (refE : List Nat) (x : String × List Nat) : Except CmdErr (String × List Snp) :=
  if x.2.length ≠ refE.length then .error .width else .ok (x.1, snpsRowEnc 0 refE x.2)

def snpsRender (y : String × List Snp) : String := snpsLine y.1 y.2

/-- `gofasta snps` as a run of the one-pool pipeline: any number of workers, any capacities, any reader failure -/
def snpsCfg (hard : Bool) (ref : List Nat) (recs : List (String × List Nat)) (N capIn capOut : Nat)
    (rf : Option (Nat × CmdErr)) : Cfg (String × List Nat) (String × List Snp) CmdErr (TextW (String × List Snp)) where
  items := encItems hard recs
  f := snpsWorker (ref.map (enc hard))
  N := N
  capIn := capIn
  capOut := capOut
  readFail := rf
  absorb := fun st r => .ok (TextW.absorb snpsRender 0 st r)
  finish := fun st => .ok st
  init := TextW.start "query,SNPs\n" 0

theorem snpsWorker_ok (refE : List Nat) (x : String × List Nat) (y : String × List Snp)
    (h : snpsWorker refE x = .ok y) : y = (x.1, snpsRowEnc 0 refE x.2) := by
  unfold snpsWorker at h
  split at h
  · cases h
  · injection h with h; exact h.symm

/-- **A. snps, every schedule**: whenever the driver returns nil the bytes written are `snpsOutput hard ref recs` -/
theorem snps_every_schedule (hard : Bool) (ref : List Nat) (recs : List (String × List Nat)) (N capIn capOut : Nat)
    (rf : Option (Nat × CmdErr)) (hN : 1 ≤ N) {s : State _ _ _ _}
    (hr : Reach (snpsCfg hard ref recs N capIn capOut rf) s) (hm : s.main = .ret none) :
    s.wst.text = snpsOutput hard ref recs := by
  obtain ⟨ys, hys, htext⟩ := text_writer_every_schedule (cfg := snpsCfg hard ref recs N capIn capOut rf)
    snpsRender "query,SNPs\n" 0 hN (fun _ _ => rfl) (fun _ => rfl) rfl hr hm
  have := map_ok_eq (snpsWorker_ok (ref.map (enc hard))) hys
  rw [htext, this]
  simp only [snpsCfg, encItems, List.map_map]
  rfl

/-- **A, failure direction**: a row of another width than the reference: no schedule returns nil -/
theorem snps_width_error_reported (hard : Bool) (ref : List Nat) (recs : List (String × List Nat)) (N capIn capOut : Nat)
    (rf : Option (Nat × CmdErr)) (hN : 1 ≤ N) (hbad : ∃ r ∈ recs, r.2.length ≠ ref.length) {s : State _ _ _ _}
    (hr : Reach (snpsCfg hard ref recs N capIn capOut rf) s) : s.main ≠ .ret none := by
  apply error_reported (cfg := snpsCfg hard ref recs N capIn capOut rf) hN _ hr
  right; left
  obtain ⟨r, hr, hw⟩ := hbad
  refine ⟨(r.1, r.2.map (enc hard)), List.mem_map.mpr ⟨r, hr, rfl⟩, .width, ?_⟩
  simp [snpsCfg, snpsWorker, hw]

theorem snps_all_ok (hard : Bool) (ref : List Nat) (recs : List (String × List Nat)) (N capIn capOut : Nat)
    (rf : Option (Nat × CmdErr)) (hw : ∀ r ∈ recs, r.2.length = ref.length) :
    ∀ x ∈ (snpsCfg hard ref recs N capIn capOut rf).items, ∃ y, (snpsCfg hard ref recs N capIn capOut rf).f x = .ok y := by
  intro x hx
  obtain ⟨r, hr, rfl⟩ := List.mem_map.mp hx
  refine ⟨(r.1, snpsRowEnc 0 (ref.map (enc hard)) (r.2.map (enc hard))), ?_⟩
  simp [snpsCfg, snpsWorker, hw r hr]

/-- **A, whole runs**: with rows as wide as the reference and a reader that does not fail, every run that cannot be
extended has returned nil and has written `snpsOutput hard ref recs` -/
theorem snps_maximal_run (hard : Bool) (ref : List Nat) (recs : List (String × List Nat)) (N capIn capOut : Nat)
    (hN : 1 ≤ N) (hw : ∀ r ∈ recs, r.2.length = ref.length) {s : State _ _ _ _}
    (hr : Reach (snpsCfg hard ref recs N capIn capOut none) s)
    (hstuck : enabled (snpsCfg hard ref recs N capIn capOut none) s = []) :
    s.main = .ret none ∧ s.wst.text = snpsOutput hard ref recs := by
  have hf := snps_all_ok hard ref recs N capIn capOut none hw
  have hm := (maximal_run_success (cfg := snpsCfg hard ref recs N capIn capOut none) hN rfl hf
    (fun _ _ => ⟨_, rfl⟩) (fun _ => ⟨_, rfl⟩) hr hstuck).1
  exact ⟨hm, snps_every_schedule hard ref recs N capIn capOut none hN hr hm⟩

/-- **A, executed schedules**: every schedule of at least μ(init) numbers prints the model's text -/
theorem snps_runSchedule (hard : Bool) (ref : List Nat) (recs : List (String × List Nat)) (N capIn capOut : Nat)
    (hN : 1 ≤ N) (hw : ∀ r ∈ recs, r.2.length = ref.length) (sched : List Nat)
    (hlen : μ (snpsCfg hard ref recs N capIn capOut none) (init (snpsCfg hard ref recs N capIn capOut none)) ≤ sched.length) :
    (runSchedule (snpsCfg hard ref recs N capIn capOut none) sched).main = .ret none ∧
    (runSchedule (snpsCfg hard ref recs N capIn capOut none) sched).wst.text = snpsOutput hard ref recs := by
  have hf := snps_all_ok hard ref recs N capIn capOut none hw
  have hm := runSchedule_returns_nil (cfg := snpsCfg hard ref recs N capIn capOut none) hN rfl hf
    (fun _ _ => ⟨_, rfl⟩) (fun _ => ⟨_, rfl⟩) sched hlen
  exact ⟨hm, snps_every_schedule hard ref recs N capIn capOut none hN (runSchedule_reach _ sched) hm⟩

end snps

/-! ## C. `gofasta snps --aggregate` -/

section snpsAggregate
open Gofasta.Model.Sched Gofasta.Lemmas.Sched Gofasta.Lemmas.AggOrder

/-- state of snps.aggregateWriteOutput: the counting map (association list in first-seen order), the number of
records received, the bytes written -/
structure AggW where
  counts : List (Snp × Nat)
  n : Nat
  text : String

/-- the loop body: count every SNP of the row that arrived, count the record -/
def AggW.absorb (st : AggW) (r : Nat × (String × List Snp)) : AggW :=
  { st with counts := r.2.2.foldl (fun m s => countInsert s m) st.counts, n := st.n + 1 }

/-- after the loop: sort by (position, query allele), keep what reaches the threshold, print -/
def AggW.finish (thrNum thrDen : Nat) (st : AggW) : AggW :=
  { st with text := st.text ++ String.join (((sortStable snpLt st.counts).filter fun e =>
      keepFreq e.2 st.n thrNum thrDen).map fun e => fmtSnp e.1 ++ "," ++ fmt9 e.2 st.n ++ "\n") }

def snpsAggCfg (hard : Bool) (thrNum thrDen : Nat) (ref : List Nat) (recs : List (String × List Nat))
    (N capIn capOut : Nat) (rf : Option (Nat × CmdErr)) :
    Cfg (String × List Nat) (String × List Snp) CmdErr AggW where
  items := encItems hard recs
  f := snpsWorker (ref.map (enc hard))
  N := N
  capIn := capIn
  capOut := capOut
  readFail := rf
  absorb := fun st r => .ok (AggW.absorb st r)
  finish := fun st => .ok (AggW.finish thrNum thrDen st)
  init := ⟨[], 0, "SNP,frequency\n"⟩

theorem agg_foldl : ∀ (recs : List (Nat × (String × List Snp))) (st : AggW),
    recs.foldl AggW.absorb st =
      ⟨(recs.map (·.2.2)).foldl (fun m row => row.foldl (fun m s => countInsert s m) m) st.counts,
       st.n + recs.length, st.text⟩ := by
  intro recs
  induction recs with
  | nil => intro st; rfl
  | cons r t ih =>
    intro st
    simp only [List.foldl_cons, ih, List.map_cons, List.length_cons, AggW.absorb]
    congr 1
    omega

/-- the reference symbol of a SNP of a row is a function of its position (whatever the symbols are) -/
theorem snpsRowEnc_ref_symbol : ∀ (rs qs : List Nat) (i : Nat), ∀ s ∈ snpsRowEnc i rs qs,
    i < s.1 ∧ s.2.1 = dec (rs.getD (s.1 - 1 - i) 0) := by
  intro rs
  induction rs with
  | nil => intro qs i s hs; simp [snpsRowEnc] at hs
  | cons r rs ih =>
    intro qs i s hs
    cases qs with
    | nil => simp [snpsRowEnc] at hs
    | cons x xs =>
      simp only [snpsRowEnc] at hs
      have tail : ∀ s ∈ snpsRowEnc (i + 1) rs xs, i < s.1 ∧ s.2.1 = dec ((r :: rs).getD (s.1 - 1 - i) 0) := by
        intro s hs
        have := ih xs (i + 1) s hs
        refine ⟨by omega, ?_⟩
        have e : s.1 - 1 - i = (s.1 - 1 - (i + 1)) + 1 := by omega
        rw [e, List.getD_cons_succ]; exact this.2
      split at hs
      · rcases List.mem_cons.1 hs with rfl | hs
        · refine ⟨by simp, ?_⟩
          simp
        · exact tail s hs
      · exact tail s hs

/-- rows computed against one reference: the sort key (position, query allele) identifies the mutation -/
theorem keyDecides_of_rows (refE : List Nat) (rows : List (List Snp))
    (h : ∀ row ∈ rows, ∃ q, row = snpsRowEnc 0 refE q) : KeyDecides (countAll rows) := by
  intro a ha b hb hpos halt
  have ka := (mem_iff_countOf _ (countAll_keys _).1 a).1 ha
  have kb := (mem_iff_countOf _ (countAll_keys _).1 b).1 hb
  have fa := ((countAll_keys _).2 a.1).1 ka.1
  have fb := ((countAll_keys _).2 b.1).1 kb.1
  obtain ⟨ra, hra, hsa⟩ := List.mem_flatten.1 fa
  obtain ⟨rb, hrb, hsb⟩ := List.mem_flatten.1 fb
  obtain ⟨qa, rfl⟩ := h ra hra
  obtain ⟨qb, rfl⟩ := h rb hrb
  have sa := snpsRowEnc_ref_symbol refE qa 0 a.1 hsa
  have sb := snpsRowEnc_ref_symbol refE qb 0 b.1 hsb
  have href : a.1.2.1 = b.1.2.1 := by rw [sa.2, sb.2, hpos]
  exact Prod.ext hpos (Prod.ext href halt)

/-- **C. snps --aggregate, every schedule**: whenever the driver returns nil the bytes written are
`snpsAggregate hard thrNum thrDen ref recs` - the table does not depend on the order of arrival at the counting writer.
No hypothesis on the symbols of the rows. -/
theorem snps_aggregate_every_schedule (hard : Bool) (thrNum thrDen : Nat) (ref : List Nat)
    (recs : List (String × List Nat)) (N capIn capOut : Nat) (rf : Option (Nat × CmdErr)) (hN : 1 ≤ N)
    {s : State _ _ _ _}
    (hr : Reach (snpsAggCfg hard thrNum thrDen ref recs N capIn capOut rf) s) (hm : s.main = .ret none) :
    s.wst.text = snpsAggregate hard thrNum thrDen ref recs := by
  obtain ⟨_, hall, arr, hperm, hgood, st, hfold, hfin⟩ :=
    success_means_complete (cfg := snpsAggCfg hard thrNum thrDen ref recs N capIn capOut rf) hN hr hm
  rw [absorbAll_total (absorb := (snpsAggCfg hard thrNum thrDen ref recs N capIn capOut rf).absorb)
    (g := AggW.absorb) (fun _ _ => rfl)] at hfold
  injection hfold with hfold
  have hfin : AggW.finish thrNum thrDen st = s.wst := by injection hfin
  obtain ⟨ys, hys⟩ := outputs_exist hall
  have hgood' : ∀ r ∈ arr, ys[r.1]? = some r.2 := by
    intro r hr
    obtain ⟨x, hx, hf⟩ := hgood r hr
    exact good_index hys hx hf
  have hlen := map_ok_length hys
  rw [← hlen] at hperm
  have hsnd := snd_perm_of_indexed hperm hgood'
  have hys' : ys = recs.map fun r => (r.1, snpsRow hard ref r.2) := by
    have := map_ok_eq (snpsWorker_ok (ref.map (enc hard))) hys
    rw [this]
    simp only [snpsAggCfg, encItems, List.map_map]
    rfl
  -- the rows in arrival order are a permutation of the rows in input order
  have hrows : (arr.map (·.2.2)).Perm (recs.map fun r => snpsRow hard ref r.2) := by
    have := hsnd.map (fun y : String × List Snp => y.2)
    rw [hys', List.map_map, List.map_map] at this
    exact this
  have hkd : KeyDecides (countAll (arr.map (·.2.2))) := by
    apply keyDecides_of_rows (ref.map (enc hard))
    intro row hrow
    obtain ⟨r, _, rfl⟩ := List.mem_map.mp (hrows.mem_iff.mp hrow)
    exact ⟨r.2.map (enc hard), rfl⟩
  have hsort := snps_aggregate_any_order _ _ hrows hkd
  have hn : arr.length = recs.length := by
    have := hperm.length_eq
    simp only [List.length_map, List.length_range] at this
    rw [this, hlen]
    simp [snpsAggCfg, encItems]
  rw [← hfin, ← hfold, agg_foldl]
  simp only [AggW.finish, snpsAggCfg, Nat.zero_add, hn]
  unfold snpsAggregate
  simp only []
  rw [← hsort]
  rfl

/-- **C, failure direction** -/
theorem snps_aggregate_width_error_reported (hard : Bool) (thrNum thrDen : Nat) (ref : List Nat)
    (recs : List (String × List Nat)) (N capIn capOut : Nat) (rf : Option (Nat × CmdErr)) (hN : 1 ≤ N)
    (hbad : ∃ r ∈ recs, r.2.length ≠ ref.length) {s : State _ _ _ _}
    (hr : Reach (snpsAggCfg hard thrNum thrDen ref recs N capIn capOut rf) s) : s.main ≠ .ret none := by
  apply error_reported (cfg := snpsAggCfg hard thrNum thrDen ref recs N capIn capOut rf) hN _ hr
  right; left
  obtain ⟨r, hr, hw⟩ := hbad
  refine ⟨(r.1, r.2.map (enc hard)), List.mem_map.mpr ⟨r, hr, rfl⟩, .width, ?_⟩
  simp [snpsAggCfg, snpsWorker, hw]

/-- **C, executed schedules** -/
theorem snps_aggregate_runSchedule (hard : Bool) (thrNum thrDen : Nat) (ref : List Nat)
    (recs : List (String × List Nat)) (N capIn capOut : Nat)
    (hN : 1 ≤ N) (hw : ∀ r ∈ recs, r.2.length = ref.length) (sched : List Nat)
    (hlen : μ (snpsAggCfg hard thrNum thrDen ref recs N capIn capOut none)
      (init (snpsAggCfg hard thrNum thrDen ref recs N capIn capOut none)) ≤ sched.length) :
    (runSchedule (snpsAggCfg hard thrNum thrDen ref recs N capIn capOut none) sched).main = .ret none ∧
    (runSchedule (snpsAggCfg hard thrNum thrDen ref recs N capIn capOut none) sched).wst.text =
      snpsAggregate hard thrNum thrDen ref recs := by
  have hf : ∀ x ∈ (snpsAggCfg hard thrNum thrDen ref recs N capIn capOut none).items,
      ∃ y, (snpsAggCfg hard thrNum thrDen ref recs N capIn capOut none).f x = .ok y :=
    snps_all_ok hard ref recs N capIn capOut none hw
  have hm := runSchedule_returns_nil (cfg := snpsAggCfg hard thrNum thrDen ref recs N capIn capOut none) hN rfl hf
    (fun _ _ => ⟨_, rfl⟩) (fun _ => ⟨_, rfl⟩) sched hlen
  exact ⟨hm, snps_aggregate_every_schedule hard thrNum thrDen ref recs N capIn capOut none hN (runSchedule_reach _ sched) hm⟩

end snpsAggregate

/-! ## B. `gofasta updown list` -/

section updownList
open Gofasta.Model.Sched Gofasta.Lemmas.Sched

/-- the worker of updown.List: width check, then getLines on the encoded rows -/
def udWorker (refE : List Nat) (x : String × List Nat) : Except CmdErr UDLine :=
  if x.2.length ≠ refE.length then .error .width else .ok (getLine x.1 refE x.2)

def udHeaderText : String := "query,SNPs,ambiguities,SNPcount,ambcount\n"

def udListCfg (ref : List Nat) (recs : List (String × List Nat)) (N capIn capOut : Nat)
    (rf : Option (Nat × CmdErr)) : Cfg (String × List Nat) UDLine CmdErr (TextW UDLine) where
  items := encItems false recs
  f := udWorker (ref.map (enc false))
  N := N
  capIn := capIn
  capOut := capOut
  readFail := rf
  absorb := fun st r => .ok (TextW.absorb udRow 0 st r)
  finish := fun st => .ok st
  init := TextW.start udHeaderText 0

theorem udWorker_ok (refE : List Nat) (x : String × List Nat) (y : UDLine)
    (h : udWorker refE x = .ok y) : y = getLine x.1 refE x.2 := by
  unfold udWorker at h
  split at h
  · cases h
  · injection h with h; exact h.symm

/-- **B. updown list, every schedule**: whenever the driver returns nil the bytes written are `udListOutput ref recs` -/
theorem updown_list_every_schedule (ref : List Nat) (recs : List (String × List Nat)) (N capIn capOut : Nat)
    (rf : Option (Nat × CmdErr)) (hN : 1 ≤ N) {s : State _ _ _ _}
    (hr : Reach (udListCfg ref recs N capIn capOut rf) s) (hm : s.main = .ret none) :
    s.wst.text = udListOutput ref recs := by
  obtain ⟨ys, hys, htext⟩ := text_writer_every_schedule (cfg := udListCfg ref recs N capIn capOut rf)
    udRow udHeaderText 0 hN (fun _ _ => rfl) (fun _ => rfl) rfl hr hm
  have := map_ok_eq (udWorker_ok (ref.map (enc false))) hys
  rw [htext, this]
  simp only [udListCfg, encItems, List.map_map]
  rfl

/-- **B, failure direction**: a row of another width than the reference: no schedule returns nil -/
theorem updown_list_width_error_reported (ref : List Nat) (recs : List (String × List Nat)) (N capIn capOut : Nat)
    (rf : Option (Nat × CmdErr)) (hN : 1 ≤ N) (hbad : ∃ r ∈ recs, r.2.length ≠ ref.length) {s : State _ _ _ _}
    (hr : Reach (udListCfg ref recs N capIn capOut rf) s) : s.main ≠ .ret none := by
  apply error_reported (cfg := udListCfg ref recs N capIn capOut rf) hN _ hr
  right; left
  obtain ⟨r, hr, hw⟩ := hbad
  refine ⟨(r.1, r.2.map (enc false)), List.mem_map.mpr ⟨r, hr, rfl⟩, .width, ?_⟩
  simp [udListCfg, udWorker, hw]

theorem ud_all_ok (ref : List Nat) (recs : List (String × List Nat)) (N capIn capOut : Nat)
    (rf : Option (Nat × CmdErr)) (hw : ∀ r ∈ recs, r.2.length = ref.length) :
    ∀ x ∈ (udListCfg ref recs N capIn capOut rf).items, ∃ y, (udListCfg ref recs N capIn capOut rf).f x = .ok y := by
  intro x hx
  obtain ⟨r, hr, rfl⟩ := List.mem_map.mp hx
  refine ⟨getLine r.1 (ref.map (enc false)) (r.2.map (enc false)), ?_⟩
  simp [udListCfg, udWorker, hw r hr]

/-- **B, whole runs** -/
theorem updown_list_maximal_run (ref : List Nat) (recs : List (String × List Nat)) (N capIn capOut : Nat)
    (hN : 1 ≤ N) (hw : ∀ r ∈ recs, r.2.length = ref.length) {s : State _ _ _ _}
    (hr : Reach (udListCfg ref recs N capIn capOut none) s)
    (hstuck : enabled (udListCfg ref recs N capIn capOut none) s = []) :
    s.main = .ret none ∧ s.wst.text = udListOutput ref recs := by
  have hf := ud_all_ok ref recs N capIn capOut none hw
  have hm := (maximal_run_success (cfg := udListCfg ref recs N capIn capOut none) hN rfl hf
    (fun _ _ => ⟨_, rfl⟩) (fun _ => ⟨_, rfl⟩) hr hstuck).1
  exact ⟨hm, updown_list_every_schedule ref recs N capIn capOut none hN hr hm⟩

/-- **B, executed schedules** -/
theorem updown_list_runSchedule (ref : List Nat) (recs : List (String × List Nat)) (N capIn capOut : Nat)
    (hN : 1 ≤ N) (hw : ∀ r ∈ recs, r.2.length = ref.length) (sched : List Nat)
    (hlen : μ (udListCfg ref recs N capIn capOut none) (init (udListCfg ref recs N capIn capOut none)) ≤ sched.length) :
    (runSchedule (udListCfg ref recs N capIn capOut none) sched).main = .ret none ∧
    (runSchedule (udListCfg ref recs N capIn capOut none) sched).wst.text = udListOutput ref recs := by
  have hf := ud_all_ok ref recs N capIn capOut none hw
  have hm := runSchedule_returns_nil (cfg := udListCfg ref recs N capIn capOut none) hN rfl hf
    (fun _ _ => ⟨_, rfl⟩) (fun _ => ⟨_, rfl⟩) sched hlen
  exact ⟨hm, updown_list_every_schedule ref recs N capIn capOut none hN (runSchedule_reach _ sched) hm⟩

end updownList

/-! ## D. `gofasta sam toMultiAlign` -/

section toMultiAlign
open Gofasta.Model.Sched Gofasta.Lemmas.Sched

/-- the worker of sam.ToMultiAlign: one block of records of a query to one FASTA record (name, sequence);
`a` = what toma.checkArgs returned: first column, last column, whether to trim -/
def tomaWorker (refLen : Nat) (pad : Bool) (a : Nat × Nat × Bool) (b : List SamRec) : String × List Nat :=
  ((b.headD default).name, fastaRecordSeq (seqFromBlock b refLen) a.2.2 pad a.1 a.2.1)

def tomaRender (wrap : Int) (y : String × List Nat) : String := tomaRecordText wrap y.1 y.2

/-- the pipeline of `sam toMultiAlign` once checkArgs has accepted the window: the reader groups the records into
blocks, the workers flatten a block into a row, the writer prints FASTA records in input order -/
def tomaCfg (refLen : Nat) (o : TomaOpts) (recs : List SamRec) (a : Nat × Nat × Bool) (N capIn capOut : Nat)
    (rf : Option (Nat × CmdErr)) : Cfg (List SamRec) (String × List Nat) CmdErr (TextW (String × List Nat)) where
  items := samBlocks recs
  f := fun b => .ok (tomaWorker refLen o.pad a b)
  N := N
  capIn := capIn
  capOut := capOut
  readFail := rf
  absorb := fun st r => .ok (TextW.absorb (tomaRender o.wrap) 0 st r)
  finish := fun st => .ok st
  init := TextW.start "" 0

/-- **D. sam toMultiAlign, every schedule**: whenever the driver returns nil the bytes written are the text
`toMultiAlign refLen o recs` of the sequential model -/
theorem toma_every_schedule (refLen : Nat) (o : TomaOpts) (recs : List SamRec) (a : Nat × Nat × Bool)
    (hargs : checkArgs refLen o.start o.stop = some a) (N capIn capOut : Nat)
    (rf : Option (Nat × CmdErr)) (hN : 1 ≤ N) {s : State _ _ _ _}
    (hr : Reach (tomaCfg refLen o recs a N capIn capOut rf) s) (hm : s.main = .ret none) :
    toMultiAlign refLen o recs = some s.wst.text := by
  obtain ⟨ys, hys, htext⟩ := text_writer_every_schedule (cfg := tomaCfg refLen o recs a N capIn capOut rf)
    (tomaRender o.wrap) "" 0 hN (fun _ _ => rfl) (fun _ => rfl) rfl hr hm
  have := map_ok_eq (F := (tomaCfg refLen o recs a N capIn capOut rf).f) (g := tomaWorker refLen o.pad a)
    (fun x y h => by injection h with h; exact h.symm) hys
  obtain ⟨a1, a2, a3⟩ := a
  rw [htext, this, String.empty_append]
  unfold toMultiAlign
  rw [hargs]
  simp only [tomaCfg, List.map_map]
  rfl

/-- the window is refused: the command fails before any goroutine is started -/
theorem toma_refused (refLen : Nat) (o : TomaOpts) (recs : List SamRec)
    (hargs : checkArgs refLen o.start o.stop = none) : toMultiAlign refLen o recs = none := by
  unfold toMultiAlign; rw [hargs]

/-- **D, executed schedules** -/
theorem toma_runSchedule (refLen : Nat) (o : TomaOpts) (recs : List SamRec) (a : Nat × Nat × Bool)
    (hargs : checkArgs refLen o.start o.stop = some a) (N capIn capOut : Nat) (hN : 1 ≤ N) (sched : List Nat)
    (hlen : μ (tomaCfg refLen o recs a N capIn capOut none) (init (tomaCfg refLen o recs a N capIn capOut none)) ≤ sched.length) :
    (runSchedule (tomaCfg refLen o recs a N capIn capOut none) sched).main = .ret none ∧
    toMultiAlign refLen o recs = some (runSchedule (tomaCfg refLen o recs a N capIn capOut none) sched).wst.text := by
  have hm := runSchedule_returns_nil (cfg := tomaCfg refLen o recs a N capIn capOut none) hN rfl
    (fun _ _ => ⟨_, rfl⟩) (fun _ _ => ⟨_, rfl⟩) (fun _ => ⟨_, rfl⟩) sched hlen
  exact ⟨hm, toma_every_schedule refLen o recs a hargs N capIn capOut none hN (runSchedule_reach _ sched) hm⟩

/-- **D, failure direction**: the reader fails on some record (a malformed SAM line): no schedule returns nil -/
theorem toma_read_error_reported (refLen : Nat) (o : TomaOpts) (recs : List SamRec) (a : Nat × Nat × Bool)
    (N capIn capOut : Nat) (k : Nat) (e : CmdErr) (hN : 1 ≤ N) {s : State _ _ _ _}
    (hr : Reach (tomaCfg refLen o recs a N capIn capOut (some (k, e))) s) : s.main ≠ .ret none :=
  error_reported (cfg := tomaCfg refLen o recs a N capIn capOut (some (k, e))) hN (Or.inl (by simp [tomaCfg])) hr

end toMultiAlign

/-! ## E. `gofasta variants`, per-sequence output -/

section variants
open Gofasta.Model.Sched Gofasta.Lemmas.Sched Gofasta.Driver Gofasta.Lemmas.SamVarPipeline

/-- the annotation of `variants` over the reference row (as in `Driver.varCommand`) -/
def varRegions (vi : VarIn) (refRow : List Nat) : Option (List Region × List Nat) :=
  if vi.annfmt == "gb" then
    (if (degapUpper refRow).length != vi.origin.length then none
     else regionsFromGenbank vi.gb (degapUpper refRow).length)
  else regionsFromGFF vi.gff (degapUpper refRow)

/-- the worker of variants.Variants: width check, then the caller on (reference row, query row) -/
def varWorker (pairFn : List Nat → List Nat → List Region → List Nat → List Variant) (refRow : List Nat)
    (regions : List Region) (inter : List Nat) (r : String × List Nat) : Except CmdErr (String × List Variant) :=
  if r.2.length ≠ refRow.length then .error .width else .ok (r.1, pairFn refRow r.2 regions inter)

/-- variants.WriteVariants prints nothing for the record named like the reference (its index is still consumed) -/
def varRender (vi : VarIn) (refID : String) (y : String × List Variant) : String :=
  if y.1 != refID then variantsLine vi.append vi.start vi.stop y.1 y.2 else ""

/-- `gofasta variants` as a run of the one-pool pipeline. `first` is the index the reader gives the first row it
sends and the value the writer's counter starts from: 1 when the reader has consumed the reference itself (reference
from standard input), 0 otherwise. The reader of Model/Sched numbers from 0, so the writer adds `first`. -/
def varCfg (vi : VarIn) (pairFn : List Nat → List Nat → List Region → List Nat → List Variant)
    (refRow : List Nat) (rows : List (String × List Nat)) (refID : String) (regions : List Region) (inter : List Nat)
    (first N capIn capOut : Nat) (rf : Option (Nat × CmdErr)) :
    Cfg (String × List Nat) (String × List Variant) CmdErr (TextW (String × List Variant)) where
  items := rows
  f := varWorker pairFn refRow regions inter
  N := N
  capIn := capIn
  capOut := capOut
  readFail := rf
  absorb := fun st r => .ok (TextW.absorb (varRender vi refID) first st r)
  finish := fun st => .ok st
  init := TextW.start "query,mutations\n" first

theorem varWorker_ok (pairFn : List Nat → List Nat → List Region → List Nat → List Variant) (refRow : List Nat)
    (regions : List Region) (inter : List Nat) (x : String × List Nat) (y : String × List Variant)
    (h : varWorker pairFn refRow regions inter x = .ok y) : y = (x.1, pairFn refRow x.2 regions inter) := by
  unfold varWorker at h
  split at h
  · cases h
  · injection h with h; exact h.symm

theorem varWorker_width (pairFn : List Nat → List Nat → List Region → List Nat → List Variant) (refRow : List Nat)
    (regions : List Region) (inter : List Nat) (x : String × List Nat) (y : String × List Variant)
    (h : varWorker pairFn refRow regions inter x = .ok y) : x.2.length = refRow.length := by
  unfold varWorker at h
  split at h
  · cases h
  · rename_i hw; exact Decidable.of_not_not hw

/-- `Driver.varCommand` once the reference, the rows and the annotation are known -/
theorem varCommand_unfold (vi : VarIn) (pairFn : List Nat → List Nat → List Region → List Nat → List Variant)
    (refRow : List Nat) (rows : List (String × List Nat)) (refID : String) (regions : List Region) (inter : List Nat)
    (hra : refAndRows vi = some (refRow, rows, refID)) (hregs : varRegions vi refRow = some (regions, inter)) :
    varCommand vi pairFn =
      if rows.any (fun r => r.2.length != refRow.length) then "!error" else
      if vi.agg then variantsAggregate vi.append vi.start vi.stop vi.thrn vi.thrd refID
          (rows.map fun r => (r.1, pairFn refRow r.2 regions inter))
      else variantsOutput vi.append vi.start vi.stop refID (rows.map fun r => (r.1, pairFn refRow r.2 regions inter)) := by
  unfold varCommand
  rw [hra]
  simp only []
  unfold varRegions at hregs
  rw [hregs]

/-- **E. variants, every schedule**: whenever the driver returns nil the bytes written are `varCommand vi pairFn`,
for every caller `pairFn` (the model's `modelPair`, the specification's), whichever way the reference is given, and
whatever `first` is -/
theorem variants_every_schedule (vi : VarIn) (pairFn : List Nat → List Nat → List Region → List Nat → List Variant)
    (refRow : List Nat) (rows : List (String × List Nat)) (refID : String) (regions : List Region) (inter : List Nat)
    (hra : refAndRows vi = some (refRow, rows, refID)) (hregs : varRegions vi refRow = some (regions, inter))
    (hagg : vi.agg = false) (first N capIn capOut : Nat) (rf : Option (Nat × CmdErr)) (hN : 1 ≤ N)
    {s : State _ _ _ _}
    (hr : Reach (varCfg vi pairFn refRow rows refID regions inter first N capIn capOut rf) s)
    (hm : s.main = .ret none) :
    s.wst.text = varCommand vi pairFn := by
  obtain ⟨ys, hys, htext⟩ := text_writer_every_schedule
    (cfg := varCfg vi pairFn refRow rows refID regions inter first N capIn capOut rf)
    (varRender vi refID) "query,mutations\n" first hN (fun _ _ => rfl) (fun _ => rfl) rfl hr hm
  have hmap := map_ok_eq (varWorker_ok pairFn refRow regions inter) hys
  have hwid : rows.any (fun r => r.2.length != refRow.length) = false := by
    rw [List.any_eq_false]
    intro x hx
    obtain ⟨y, hy⟩ := all_ok_of_map hys x hx
    have := varWorker_width pairFn refRow regions inter x y hy
    simp [this]
  rw [varCommand_unfold vi pairFn refRow rows refID regions inter hra hregs, hwid, htext, hmap]
  simp only [hagg, Bool.false_eq_true, if_false]
  unfold variantsOutput
  rw [join_filter_map]
  rfl

/-- **E, failure direction**: a row of another width than the reference row: no schedule returns nil, and the
sequential model says "!error" -/
theorem variants_width_error_reported (vi : VarIn)
    (pairFn : List Nat → List Nat → List Region → List Nat → List Variant)
    (refRow : List Nat) (rows : List (String × List Nat)) (refID : String) (regions : List Region) (inter : List Nat)
    (hra : refAndRows vi = some (refRow, rows, refID)) (hregs : varRegions vi refRow = some (regions, inter))
    (first N capIn capOut : Nat) (rf : Option (Nat × CmdErr)) (hN : 1 ≤ N)
    (hbad : ∃ r ∈ rows, r.2.length ≠ refRow.length) {s : State _ _ _ _}
    (hr : Reach (varCfg vi pairFn refRow rows refID regions inter first N capIn capOut rf) s) :
    s.main ≠ .ret none ∧ varCommand vi pairFn = "!error" := by
  constructor
  · apply error_reported (cfg := varCfg vi pairFn refRow rows refID regions inter first N capIn capOut rf) hN _ hr
    right; left
    obtain ⟨r, hr, hw⟩ := hbad
    exact ⟨r, hr, .width, by simp [varCfg, varWorker, hw]⟩
  · have hwid : rows.any (fun r => r.2.length != refRow.length) = true := by
      rw [List.any_eq_true]
      obtain ⟨r, hr, hw⟩ := hbad
      exact ⟨r, hr, by simp [hw]⟩
    rw [varCommand_unfold vi pairFn refRow rows refID regions inter hra hregs, hwid]
    rfl

/-- **E, executed schedules** -/
theorem variants_runSchedule (vi : VarIn) (pairFn : List Nat → List Nat → List Region → List Nat → List Variant)
    (refRow : List Nat) (rows : List (String × List Nat)) (refID : String) (regions : List Region) (inter : List Nat)
    (hra : refAndRows vi = some (refRow, rows, refID)) (hregs : varRegions vi refRow = some (regions, inter))
    (hagg : vi.agg = false) (first N capIn capOut : Nat) (hN : 1 ≤ N)
    (hw : ∀ r ∈ rows, r.2.length = refRow.length) (sched : List Nat)
    (hlen : μ (varCfg vi pairFn refRow rows refID regions inter first N capIn capOut none)
      (init (varCfg vi pairFn refRow rows refID regions inter first N capIn capOut none)) ≤ sched.length) :
    (runSchedule (varCfg vi pairFn refRow rows refID regions inter first N capIn capOut none) sched).main = .ret none ∧
    (runSchedule (varCfg vi pairFn refRow rows refID regions inter first N capIn capOut none) sched).wst.text =
      varCommand vi pairFn := by
  have hf : ∀ x ∈ (varCfg vi pairFn refRow rows refID regions inter first N capIn capOut none).items,
      ∃ y, (varCfg vi pairFn refRow rows refID regions inter first N capIn capOut none).f x = .ok y := by
    intro x hx
    refine ⟨(x.1, pairFn refRow x.2 regions inter), ?_⟩
    simp [varCfg, varWorker, hw x hx]
  have hm := runSchedule_returns_nil
    (cfg := varCfg vi pairFn refRow rows refID regions inter first N capIn capOut none) hN rfl hf
    (fun _ _ => ⟨_, rfl⟩) (fun _ => ⟨_, rfl⟩) sched hlen
  exact ⟨hm, variants_every_schedule vi pairFn refRow rows refID regions inter hra hregs hagg first N capIn capOut none hN
    (runSchedule_reach _ sched) hm⟩

end variants

/-! ## F. `gofasta sam variants`: two worker pools -/

section samVariants
open Gofasta.Model.SchedChain Gofasta.Lemmas.SchedChain Gofasta.Driver Gofasta.Lemmas.SamVarPipeline Gofasta.Base
open Gofasta.Lemmas.Sched (absorbAll_total)

variable {γ : Type}

/-- **any number of pools, text writer, every schedule** -/
theorem chain_text_writer_every_schedule {cfg : Cfg γ ε (TextW γ)} {s : State γ ε (TextW γ)}
    (render : γ → String) (header : String) (k : Nat) (hN : ∀ P ∈ cfg.pools, 1 ≤ P.N)
    (habs : ∀ st r, cfg.absorb st r = .ok (TextW.absorb render k st r))
    (hfin : ∀ st, cfg.finish st = .ok st)
    (hinit : cfg.init = TextW.start header k)
    (hr : Reach cfg s) (hm : s.main = .ret none) :
    ∃ ys : List γ, cfg.items.map (pass cfg.pools) = ys.map Except.ok ∧
      s.wst.text = header ++ String.join (ys.map render) := by
  obtain ⟨_, hall, recs, hperm, hgood, st, hfold, hfin'⟩ := chain_success_means_complete hN hr hm
  rw [absorbAll_total habs] at hfold
  injection hfold with hfold
  rw [hfin] at hfin'
  injection hfin' with hfin'
  rw [← hfin', ← hfold, hinit]
  exact textw_result render header k hall hperm hgood

theorem chain_runSchedule_returns_nil {σ : Type} {cfg : Cfg γ ε σ} (hN : ∀ P ∈ cfg.pools, 1 ≤ P.N)
    (hrf : cfg.readFail = none) (hf : ∀ x ∈ cfg.items, ∃ y, pass cfg.pools x = .ok y)
    (ha : ∀ st r, ∃ st', cfg.absorb st r = .ok st') (hfin : ∀ st, ∃ st', cfg.finish st = .ok st')
    (sched : List Nat) (hlen : μ cfg (init cfg) ≤ sched.length) :
    (runSchedule cfg sched).main = .ret none := by
  obtain ⟨r, hret⟩ := runSchedule_returns hN sched hlen
  cases r with
  | none => exact hret
  | some e => exact absurd hret (chain_no_spurious_error hrf hf ha hfin (runSchedule_reach cfg sched) e)

/-- what travels on the three channels of sam.Variants (the chain model has one value type for all channels) -/
inductive SV where
  | block (b : List SamRec)                       -- cSR: the records of one query
  | pair (name : String) (p : List Nat × List Nat)  -- cPairAlign: (reference row, query row)
  | vars (name : String) (vs : List Variant)      -- cVariants: the mutation list of the query

/-- pool 1: block to pairwise alignment -/
def svPair (pairOf : List SamRec → List Nat → List Nat × List Nat) (refU : List Nat) : SV → Except CmdErr SV
  | .block b => .ok (.pair (qnameOf b) (pairOf b refU))
  | _ => .error .stage

/-- pool 2: pairwise alignment to mutation list -/
def svCall (caller : List Nat → List Nat → List Region → List Nat → List Variant) (regions : List Region)
    (inter : List Nat) : SV → Except CmdErr SV
  | .pair n p => .ok (.vars n (caller p.1 p.2 regions inter))
  | _ => .error .stage

def svRender (vi : VarIn) (refID : String) : SV → String
  | .vars n vs => varRender vi refID (n, vs)
  | _ => ""

/-- `gofasta sam variants` as a run of the chain with two pools -/
def samVarCfg (vi : VarIn) (refID : String) (refRaw : List Nat) (blocks : List (List SamRec))
    (pairOf : List SamRec → List Nat → List Nat × List Nat)
    (caller : List Nat → List Nat → List Region → List Nat → List Variant)
    (regions : List Region) (inter : List Nat) (N1 N2 cap0 cap1 cap2 : Nat) (rf : Option (Nat × CmdErr)) :
    Cfg SV CmdErr (TextW SV) where
  items := blocks.map .block
  pools := [⟨N1, svPair pairOf (refRaw.map upper), cap1⟩, ⟨N2, svCall caller regions inter, cap2⟩]
  cap0 := cap0
  readFail := rf
  absorb := fun st r => .ok (TextW.absorb (svRender vi refID) 0 st r)
  finish := fun st => .ok st
  init := TextW.start "query,mutations\n" 0

/-- a block through both pools -/
def svBoth (refRaw : List Nat) (pairOf : List SamRec → List Nat → List Nat × List Nat)
    (caller : List Nat → List Nat → List Region → List Nat → List Variant) (regions : List Region)
    (inter : List Nat) (b : List SamRec) : SV :=
  .vars (qnameOf b) (caller (pairOf b (refRaw.map upper)).1 (pairOf b (refRaw.map upper)).2 regions inter)

theorem sv_pass_block (vi : VarIn) (refID : String) (refRaw : List Nat) (blocks : List (List SamRec))
    (pairOf : List SamRec → List Nat → List Nat × List Nat)
    (caller : List Nat → List Nat → List Region → List Nat → List Variant)
    (regions : List Region) (inter : List Nat) (N1 N2 cap0 cap1 cap2 : Nat) (rf : Option (Nat × CmdErr))
    (b : List SamRec) :
    pass (samVarCfg vi refID refRaw blocks pairOf caller regions inter N1 N2 cap0 cap1 cap2 rf).pools (.block b) =
      .ok (svBoth refRaw pairOf caller regions inter b) := rfl

theorem sv_items_pass (vi : VarIn) (refID : String) (refRaw : List Nat) (blocks : List (List SamRec))
    (pairOf : List SamRec → List Nat → List Nat × List Nat)
    (caller : List Nat → List Nat → List Region → List Nat → List Variant)
    (regions : List Region) (inter : List Nat) (N1 N2 cap0 cap1 cap2 : Nat) (rf : Option (Nat × CmdErr)) :
    (samVarCfg vi refID refRaw blocks pairOf caller regions inter N1 N2 cap0 cap1 cap2 rf).items.map
      (pass (samVarCfg vi refID refRaw blocks pairOf caller regions inter N1 N2 cap0 cap1 cap2 rf).pools) =
    (blocks.map (svBoth refRaw pairOf caller regions inter)).map Except.ok := by
  simp only [samVarCfg, List.map_map]
  rfl

/-- **F. sam variants, every schedule of the two-pool chain**: whenever the driver returns nil the bytes written
are `samVarOn vi refID refRaw blocks pairOf caller`, the per-sequence output of the sequential model -/
theorem sam_variants_every_schedule (vi : VarIn) (refID : String) (refRaw : List Nat) (blocks : List (List SamRec))
    (pairOf : List SamRec → List Nat → List Nat × List Nat)
    (caller : List Nat → List Nat → List Region → List Nat → List Variant)
    (regions : List Region) (inter : List Nat) (hregs : samRegions vi refRaw = some (regions, inter))
    (hagg : vi.agg = false) (N1 N2 cap0 cap1 cap2 : Nat) (rf : Option (Nat × CmdErr))
    (hN1 : 1 ≤ N1) (hN2 : 1 ≤ N2) {s : State _ _ _}
    (hr : Reach (samVarCfg vi refID refRaw blocks pairOf caller regions inter N1 N2 cap0 cap1 cap2 rf) s)
    (hm : s.main = .ret none) :
    s.wst.text = samVarOn vi refID refRaw blocks pairOf caller := by
  have hN : ∀ P ∈ (samVarCfg vi refID refRaw blocks pairOf caller regions inter N1 N2 cap0 cap1 cap2 rf).pools,
      1 ≤ P.N := by
    intro P hP
    simp only [samVarCfg, List.mem_cons, List.not_mem_nil, or_false] at hP
    rcases hP with rfl | rfl
    · exact hN1
    · exact hN2
  obtain ⟨ys, hys, htext⟩ := chain_text_writer_every_schedule
    (cfg := samVarCfg vi refID refRaw blocks pairOf caller regions inter N1 N2 cap0 cap1 cap2 rf)
    (svRender vi refID) "query,mutations\n" 0 hN (fun _ _ => rfl) (fun _ => rfl) rfl hr hm
  rw [sv_items_pass] at hys
  have hys' : ys = blocks.map (svBoth refRaw pairOf caller regions inter) :=
    ((List.map_inj_right (fun a b h => Except.ok.inj h)).mp hys).symm
  rw [htext, hys']
  unfold samVarOn
  rw [hregs]
  simp only [hagg, Bool.false_eq_true, if_false]
  unfold variantsOutput
  rw [join_filter_map, List.map_map, List.map_map]
  rfl

/-- **F, the whole command**: the same for the function the test harness executes, `Driver.samVarCommand`
(as `samVarCore` on structured arguments: `samVarCommand_eq`) -/
theorem sam_variants_command_every_schedule (vi : VarIn) (recs : List SamRec) (refFromFile : Bool)
    (refBytes : List Nat) (rname : String) (blocksFn : List SamRec → List (List SamRec))
    (pairOf : List SamRec → List Nat → List Nat × List Nat)
    (caller : List Nat → List Nat → List Region → List Nat → List Variant)
    (regions : List Region) (inter : List Nat)
    (hregs : samRegions vi (refRawOf vi refFromFile refBytes) = some (regions, inter))
    (hagg : vi.agg = false) (N1 N2 cap0 cap1 cap2 : Nat) (rf : Option (Nat × CmdErr))
    (hN1 : 1 ≤ N1) (hN2 : 1 ≤ N2) {s : State _ _ _}
    (hr : Reach (samVarCfg vi (refIDOf refFromFile rname) (refRawOf vi refFromFile refBytes) (blocksFn recs)
      pairOf caller regions inter N1 N2 cap0 cap1 cap2 rf) s)
    (hm : s.main = .ret none) :
    s.wst.text = samVarCore vi recs refFromFile refBytes rname blocksFn pairOf caller :=
  sam_variants_every_schedule vi _ _ _ pairOf caller regions inter hregs hagg N1 N2 cap0 cap1 cap2 rf hN1 hN2 hr hm

/-- **F, executed schedules** -/
theorem sam_variants_runSchedule (vi : VarIn) (refID : String) (refRaw : List Nat) (blocks : List (List SamRec))
    (pairOf : List SamRec → List Nat → List Nat × List Nat)
    (caller : List Nat → List Nat → List Region → List Nat → List Variant)
    (regions : List Region) (inter : List Nat) (hregs : samRegions vi refRaw = some (regions, inter))
    (hagg : vi.agg = false) (N1 N2 cap0 cap1 cap2 : Nat) (hN1 : 1 ≤ N1) (hN2 : 1 ≤ N2) (sched : List Nat)
    (hlen : μ (samVarCfg vi refID refRaw blocks pairOf caller regions inter N1 N2 cap0 cap1 cap2 none)
      (init (samVarCfg vi refID refRaw blocks pairOf caller regions inter N1 N2 cap0 cap1 cap2 none)) ≤ sched.length) :
    (runSchedule (samVarCfg vi refID refRaw blocks pairOf caller regions inter N1 N2 cap0 cap1 cap2 none) sched).main
      = .ret none ∧
    (runSchedule (samVarCfg vi refID refRaw blocks pairOf caller regions inter N1 N2 cap0 cap1 cap2 none) sched).wst.text
      = samVarOn vi refID refRaw blocks pairOf caller := by
  have hN : ∀ P ∈ (samVarCfg vi refID refRaw blocks pairOf caller regions inter N1 N2 cap0 cap1 cap2 none).pools,
      1 ≤ P.N := by
    intro P hP
    simp only [samVarCfg, List.mem_cons, List.not_mem_nil, or_false] at hP
    rcases hP with rfl | rfl
    · exact hN1
    · exact hN2
  have hf : ∀ x ∈ (samVarCfg vi refID refRaw blocks pairOf caller regions inter N1 N2 cap0 cap1 cap2 none).items,
      ∃ y, pass (samVarCfg vi refID refRaw blocks pairOf caller regions inter N1 N2 cap0 cap1 cap2 none).pools x = .ok y := by
    intro x hx
    obtain ⟨b, _, rfl⟩ := List.mem_map.mp hx
    exact ⟨_, sv_pass_block vi refID refRaw blocks pairOf caller regions inter N1 N2 cap0 cap1 cap2 none b⟩
  have hm := chain_runSchedule_returns_nil
    (cfg := samVarCfg vi refID refRaw blocks pairOf caller regions inter N1 N2 cap0 cap1 cap2 none) hN rfl hf
    (fun _ _ => ⟨_, rfl⟩) (fun _ => ⟨_, rfl⟩) sched hlen
  exact ⟨hm, sam_variants_every_schedule vi refID refRaw blocks pairOf caller regions inter hregs hagg
    N1 N2 cap0 cap1 cap2 none hN1 hN2 (runSchedule_reach _ sched) hm⟩

/-- **F, failure direction**: the reader fails on some record: no schedule returns nil -/
theorem sam_variants_read_error_reported (vi : VarIn) (refID : String) (refRaw : List Nat) (blocks : List (List SamRec))
    (pairOf : List SamRec → List Nat → List Nat × List Nat)
    (caller : List Nat → List Nat → List Region → List Nat → List Variant)
    (regions : List Region) (inter : List Nat) (N1 N2 cap0 cap1 cap2 : Nat) (k : Nat) (e : CmdErr)
    (hN1 : 1 ≤ N1) (hN2 : 1 ≤ N2) {s : State _ _ _}
    (hr : Reach (samVarCfg vi refID refRaw blocks pairOf caller regions inter N1 N2 cap0 cap1 cap2 (some (k, e))) s) :
    s.main ≠ .ret none := by
  apply chain_error_reported
    (cfg := samVarCfg vi refID refRaw blocks pairOf caller regions inter N1 N2 cap0 cap1 cap2 (some (k, e))) _ _ hr
  · intro P hP
    simp only [samVarCfg, List.mem_cons, List.not_mem_nil, or_false] at hP
    rcases hP with rfl | rfl
    · exact hN1
    · exact hN2
  · left; simp [samVarCfg]

end samVariants

/-! ## E'. `gofasta variants --aggregate` -/

section variantsAggregate
open Gofasta.Model.Sched Gofasta.Lemmas.Sched Gofasta.Driver Gofasta.Lemmas.SamVarPipeline
open Gofasta.Lemmas.AggVariants

/-- state of the aggregating writer of variants: the counting map (association list in first-seen order), the number
of records counted (the one named like the reference is not), the bytes written -/
structure VAggW where
  counts : List (AggKey × Nat)
  n : Nat
  text : String

/-- the loop body: a record not named like the reference is counted, and so is each of its mutations inside the window -/
def VAggW.absorb (vi : VarIn) (refID : String) (st : VAggW) (r : Nat × (String × List Variant)) : VAggW :=
  if r.2.1 != refID then
    { st with
      counts := (r.2.2.filter (inWindow vi.start vi.stop)).foldl (fun m v =>
        aggInsert { v := { v with snps := "" }, rep := formatVariant vi.append v } m) st.counts,
      n := st.n + 1 }
  else st

/-- after the loop: sort, keep what reaches the threshold, print -/
def VAggW.finish (vi : VarIn) (st : VAggW) : VAggW :=
  { st with text := st.text ++ String.join (((sortStable aggLt st.counts).filter fun e =>
      e.2 * vi.thrd ≥ vi.thrn * st.n).map fun e => e.1.rep ++ "," ++ fmt9 e.2 st.n ++ "\n") }

def varAggCfg (vi : VarIn) (pairFn : List Nat → List Nat → List Region → List Nat → List Variant)
    (refRow : List Nat) (rows : List (String × List Nat)) (refID : String) (regions : List Region) (inter : List Nat)
    (N capIn capOut : Nat) (rf : Option (Nat × CmdErr)) :
    Cfg (String × List Nat) (String × List Variant) CmdErr VAggW where
  items := rows
  f := varWorker pairFn refRow regions inter
  N := N
  capIn := capIn
  capOut := capOut
  readFail := rf
  absorb := fun st r => .ok (VAggW.absorb vi refID st r)
  finish := fun st => .ok (VAggW.finish vi st)
  init := ⟨[], 0, "mutation,frequency\n"⟩

theorem vagg_foldl (vi : VarIn) (refID : String) : ∀ (arr : List (Nat × (String × List Variant))) (st : VAggW),
    arr.foldl (VAggW.absorb vi refID) st =
      ⟨((arr.map (·.2)).filter fun r => r.1 != refID).foldl (fun m r =>
          (r.2.filter (inWindow vi.start vi.stop)).foldl (fun m v =>
            aggInsert { v := { v with snps := "" }, rep := formatVariant vi.append v } m) m) st.counts,
       st.n + ((arr.map (·.2)).filter fun r => r.1 != refID).length, st.text⟩ := by
  intro arr
  induction arr with
  | nil => intro st; rfl
  | cons r t ih =>
    intro st
    simp only [List.foldl_cons, ih, List.map_cons]
    by_cases hr : (r.2.1 != refID) = true
    · simp only [VAggW.absorb, hr, if_true, List.filter_cons, List.foldl_cons, List.length_cons]
      congr 1
      omega
    · simp only [VAggW.absorb, hr, Bool.false_eq_true, if_false, List.filter_cons]

/-- the writer fed the arrival sequence `arr` prints the aggregate table of the mutation lists in arrival order -/
theorem vagg_text (vi : VarIn) (refID : String) (arr : List (Nat × (String × List Variant))) :
    (VAggW.finish vi (arr.foldl (VAggW.absorb vi refID) ⟨[], 0, "mutation,frequency\n"⟩)).text =
      variantsAggregate vi.append vi.start vi.stop vi.thrn vi.thrd refID (arr.map (·.2)) := by
  rw [vagg_foldl]
  simp only [VAggW.finish, Nat.zero_add]
  rfl

/-- **E'. variants --aggregate, every schedule**: whenever the driver returns nil the bytes written are
`varCommand vi pairFn` (aggregate form), provided two different counters that occur are never tied under the sort
key of the table (`Separated`; discharged for the model's caller in `variants_aggregate_model_every_schedule`) -/
theorem variants_aggregate_every_schedule (vi : VarIn)
    (pairFn : List Nat → List Nat → List Region → List Nat → List Variant)
    (refRow : List Nat) (rows : List (String × List Nat)) (refID : String) (regions : List Region) (inter : List Nat)
    (hra : refAndRows vi = some (refRow, rows, refID)) (hregs : varRegions vi refRow = some (regions, inter))
    (hagg : vi.agg = true)
    (hsep : Separated (aggKeys vi.append vi.start vi.stop refID
      (rows.map fun r => (r.1, pairFn refRow r.2 regions inter))))
    (N capIn capOut : Nat) (rf : Option (Nat × CmdErr)) (hN : 1 ≤ N) {s : State _ _ _ _}
    (hr : Reach (varAggCfg vi pairFn refRow rows refID regions inter N capIn capOut rf) s)
    (hm : s.main = .ret none) :
    s.wst.text = varCommand vi pairFn := by
  obtain ⟨_, hall, arr, hperm, hgood, st, hfold, hfin⟩ :=
    success_means_complete (cfg := varAggCfg vi pairFn refRow rows refID regions inter N capIn capOut rf) hN hr hm
  rw [absorbAll_total (absorb := (varAggCfg vi pairFn refRow rows refID regions inter N capIn capOut rf).absorb)
    (g := VAggW.absorb vi refID) (fun _ _ => rfl)] at hfold
  injection hfold with hfold
  have hfin : VAggW.finish vi st = s.wst := by injection hfin
  obtain ⟨ys, hys⟩ := outputs_exist hall
  have hgood' : ∀ r ∈ arr, ys[r.1]? = some r.2 := by
    intro r hr
    obtain ⟨x, hx, hf⟩ := hgood r hr
    exact good_index hys hx hf
  rw [← map_ok_length hys] at hperm
  have hsnd := snd_perm_of_indexed hperm hgood'
  have hmap : ys = rows.map fun r => (r.1, pairFn refRow r.2 regions inter) :=
    map_ok_eq (varWorker_ok pairFn refRow regions inter) hys
  have hwid : rows.any (fun r => r.2.length != refRow.length) = false := by
    rw [List.any_eq_false]
    intro x hx
    obtain ⟨y, hy⟩ := hall x hx
    have := varWorker_width pairFn refRow regions inter x y hy
    simp [this]
  rw [varCommand_unfold vi pairFn refRow rows refID regions inter hra hregs, hwid]
  simp only [hagg, if_true, Bool.false_eq_true, if_false]
  rw [← hfin, ← hfold]
  have htxt := vagg_text vi refID arr
  rw [hmap] at hsnd
  have hany := variants_aggregate_any_order vi.append vi.start vi.stop vi.thrn vi.thrd refID _ _ hsnd.symm hsep
  rw [hany]
  exact htxt

/-- **E', failure direction** -/
theorem variants_aggregate_width_error_reported (vi : VarIn)
    (pairFn : List Nat → List Nat → List Region → List Nat → List Variant)
    (refRow : List Nat) (rows : List (String × List Nat)) (refID : String) (regions : List Region) (inter : List Nat)
    (hra : refAndRows vi = some (refRow, rows, refID)) (hregs : varRegions vi refRow = some (regions, inter))
    (N capIn capOut : Nat) (rf : Option (Nat × CmdErr)) (hN : 1 ≤ N)
    (hbad : ∃ r ∈ rows, r.2.length ≠ refRow.length) {s : State _ _ _ _}
    (hr : Reach (varAggCfg vi pairFn refRow rows refID regions inter N capIn capOut rf) s) :
    s.main ≠ .ret none ∧ varCommand vi pairFn = "!error" := by
  constructor
  · apply error_reported (cfg := varAggCfg vi pairFn refRow rows refID regions inter N capIn capOut rf) hN _ hr
    right; left
    obtain ⟨r, hr, hw⟩ := hbad
    exact ⟨r, hr, .width, by simp [varAggCfg, varWorker, hw]⟩
  · have hwid : rows.any (fun r => r.2.length != refRow.length) = true := by
      rw [List.any_eq_true]
      obtain ⟨r, hr, hw⟩ := hbad
      exact ⟨r, hr, by simp [hw]⟩
    rw [varCommand_unfold vi pairFn refRow rows refID regions inter hra hregs, hwid]
    rfl

/-- the mutation lists of the model's caller never produce two different counters tied under the sort key, when the
feature names of the annotation contain no colon and the translations are bytes -/
theorem model_separated (a : Bool) (s e : Int) (refID : String) (ref : List Nat) (regions : List Region)
    (inter : List Nat) (recs : List (String × List Nat)) (hreg : RegionsOk regions) :
    Separated (aggKeys a s e refID (modelRows ref regions inter recs)) := by
  rw [aggKeys_eq_map]
  apply separated_of_shape a _ _ (aaDecided_model a s e refID ref regions inter recs hreg)
  intro v hv
  unfold aggVariants at hv
  obtain ⟨r, hr, hvr⟩ := List.mem_flatMap.1 hv
  obtain ⟨x, _, rfl⟩ := List.mem_map.1 (List.mem_filter.1 hr).1
  exact getVariantsPair_shaped ref x.2 regions inter v (List.mem_filter.1 hvr).1

/-- **E', the model's caller, no hypothesis about ties**: with `modelPair`, an annotation whose feature names contain
no colon and whose translations are bytes (`RegionsOk`), every schedule that returns nil has written
`varCommand vi modelPair` -/
theorem variants_aggregate_model_every_schedule (vi : VarIn)
    (refRow : List Nat) (rows : List (String × List Nat)) (refID : String) (regions : List Region) (inter : List Nat)
    (hra : refAndRows vi = some (refRow, rows, refID)) (hregs : varRegions vi refRow = some (regions, inter))
    (hagg : vi.agg = true) (hreg : RegionsOk regions)
    (N capIn capOut : Nat) (rf : Option (Nat × CmdErr)) (hN : 1 ≤ N) {s : State _ _ _ _}
    (hr : Reach (varAggCfg vi modelPair refRow rows refID regions inter N capIn capOut rf) s)
    (hm : s.main = .ret none) :
    s.wst.text = varCommand vi modelPair := by
  apply variants_aggregate_every_schedule vi modelPair refRow rows refID regions inter hra hregs hagg _
    N capIn capOut rf hN hr hm
  have : (rows.map fun r => (r.1, modelPair refRow r.2 regions inter)) =
      modelRows (refRow.map (enc false)) regions inter (rows.map fun r => (r.1, r.2.map (enc false))) := by
    simp only [modelRows, List.map_map]
    rfl
  rw [this]
  exact model_separated _ _ _ _ _ _ _ _ hreg

end variantsAggregate

/-! ## F'. `gofasta sam variants --aggregate`: two worker pools, the counting writer -/

section samVariantsAggregate
open Gofasta.Model.SchedChain Gofasta.Lemmas.SchedChain Gofasta.Driver Gofasta.Lemmas.SamVarPipeline Gofasta.Base
open Gofasta.Lemmas.Sched (absorbAll_total)
open Gofasta.Lemmas.AggVariants

/-- the name and the mutation list carried by a value of cVariants -/
def svRow : SV → String × List Variant
  | .vars n vs => (n, vs)
  | _ => ("", [])

/-- the aggregating writer at the end of the chain: it ranges over cVariants -/
def svAggAbsorb (vi : VarIn) (refID : String) (st : VAggW) (r : Nat × SV) : VAggW :=
  match r.2 with
  | .vars n vs => VAggW.absorb vi refID st (r.1, (n, vs))
  | _ => st

def samVarAggCfg (vi : VarIn) (refID : String) (refRaw : List Nat) (blocks : List (List SamRec))
    (pairOf : List SamRec → List Nat → List Nat × List Nat)
    (caller : List Nat → List Nat → List Region → List Nat → List Variant)
    (regions : List Region) (inter : List Nat) (N1 N2 cap0 cap1 cap2 : Nat) (rf : Option (Nat × CmdErr)) :
    Cfg SV CmdErr VAggW where
  items := blocks.map .block
  pools := [⟨N1, svPair pairOf (refRaw.map upper), cap1⟩, ⟨N2, svCall caller regions inter, cap2⟩]
  cap0 := cap0
  readFail := rf
  absorb := fun st r => .ok (svAggAbsorb vi refID st r)
  finish := fun st => .ok (VAggW.finish vi st)
  init := ⟨[], 0, "mutation,frequency\n"⟩

theorem svagg_foldl (vi : VarIn) (refID : String) : ∀ (arr : List (Nat × SV)) (st : VAggW),
    (∀ r ∈ arr, ∃ n vs, r.2 = .vars n vs) →
    arr.foldl (svAggAbsorb vi refID) st = (arr.map fun r => (r.1, svRow r.2)).foldl (VAggW.absorb vi refID) st := by
  intro arr
  induction arr with
  | nil => intro st _; rfl
  | cons r t ih =>
    intro st h
    obtain ⟨n, vs, hr⟩ := h r (by simp)
    simp only [List.foldl_cons, List.map_cons]
    rw [ih _ (fun r' hr' => h r' (by simp [hr']))]
    congr 1
    simp only [svAggAbsorb, hr, svRow]

/-- **F'. sam variants --aggregate, every schedule of the two-pool chain**: whenever the driver returns nil the
bytes written are `samVarOn vi refID refRaw blocks pairOf caller` (aggregate form), provided two different
counters that occur are never tied under the sort key of the table -/
theorem sam_variants_aggregate_every_schedule (vi : VarIn) (refID : String) (refRaw : List Nat)
    (blocks : List (List SamRec))
    (pairOf : List SamRec → List Nat → List Nat × List Nat)
    (caller : List Nat → List Nat → List Region → List Nat → List Variant)
    (regions : List Region) (inter : List Nat) (hregs : samRegions vi refRaw = some (regions, inter))
    (hagg : vi.agg = true)
    (hsep : Separated (aggKeys vi.append vi.start vi.stop refID (blocks.map fun b =>
      (qnameOf b, caller (pairOf b (refRaw.map upper)).1 (pairOf b (refRaw.map upper)).2 regions inter))))
    (N1 N2 cap0 cap1 cap2 : Nat) (rf : Option (Nat × CmdErr))
    (hN1 : 1 ≤ N1) (hN2 : 1 ≤ N2) {s : State _ _ _}
    (hr : Reach (samVarAggCfg vi refID refRaw blocks pairOf caller regions inter N1 N2 cap0 cap1 cap2 rf) s)
    (hm : s.main = .ret none) :
    s.wst.text = samVarOn vi refID refRaw blocks pairOf caller := by
  have hN : ∀ P ∈ (samVarAggCfg vi refID refRaw blocks pairOf caller regions inter N1 N2 cap0 cap1 cap2 rf).pools,
      1 ≤ P.N := by
    intro P hP
    simp only [samVarAggCfg, List.mem_cons, List.not_mem_nil, or_false] at hP
    rcases hP with rfl | rfl
    · exact hN1
    · exact hN2
  obtain ⟨_, hall, arr, hperm, hgood, st, hfold, hfin⟩ := chain_success_means_complete hN hr hm
  rw [absorbAll_total
    (absorb := (samVarAggCfg vi refID refRaw blocks pairOf caller regions inter N1 N2 cap0 cap1 cap2 rf).absorb)
    (g := svAggAbsorb vi refID) (fun _ _ => rfl)] at hfold
  injection hfold with hfold
  have hfin : VAggW.finish vi st = s.wst := by injection hfin
  -- the values that reach the writer: the blocks through both pools
  have hys : (samVarAggCfg vi refID refRaw blocks pairOf caller regions inter N1 N2 cap0 cap1 cap2 rf).items.map
      (pass (samVarAggCfg vi refID refRaw blocks pairOf caller regions inter N1 N2 cap0 cap1 cap2 rf).pools) =
      (blocks.map (svBoth refRaw pairOf caller regions inter)).map Except.ok := by
    simp only [samVarAggCfg, List.map_map]
    rfl
  have hgood' : ∀ r ∈ arr, (blocks.map (svBoth refRaw pairOf caller regions inter))[r.1]? = some r.2 := by
    intro r hr
    obtain ⟨x, hx, hf⟩ := hgood r hr
    exact good_index hys hx hf
  rw [← map_ok_length hys] at hperm
  have hsnd := snd_perm_of_indexed hperm hgood'
  have hvars : ∀ r ∈ arr, ∃ n vs, r.2 = .vars n vs := by
    intro r hr
    have : r.2 ∈ blocks.map (svBoth refRaw pairOf caller regions inter) :=
      hsnd.mem_iff.mp (List.mem_map.mpr ⟨r, hr, rfl⟩)
    obtain ⟨b, _, hb⟩ := List.mem_map.mp this
    exact ⟨_, _, hb.symm⟩
  have hrows : ((arr.map fun r => (r.1, svRow r.2)).map (·.2)).Perm (blocks.map fun b =>
      (qnameOf b, caller (pairOf b (refRaw.map upper)).1 (pairOf b (refRaw.map upper)).2 regions inter)) := by
    have := hsnd.map svRow
    rw [List.map_map, List.map_map] at this
    rw [List.map_map]
    exact this
  rw [← hfin, ← hfold, svagg_foldl vi refID arr _ hvars]
  have htxt := vagg_text vi refID (arr.map fun r => (r.1, svRow r.2))
  unfold samVarOn
  rw [hregs]
  simp only [hagg, if_true]
  have hany := variants_aggregate_any_order vi.append vi.start vi.stop vi.thrn vi.thrd refID _ _ hrows.symm hsep
  rw [hany]
  exact htxt

end samVariantsAggregate

/-! ## whole runs: every run that cannot be extended (C, D, E, F), and the link of F with `variants` on the pair files -/

section wholeRuns
open Gofasta.Driver Gofasta.Lemmas.SamVarPipeline Gofasta.Base

/-- **C, whole runs** -/
theorem snps_aggregate_maximal_run (hard : Bool) (thrNum thrDen : Nat) (ref : List Nat)
    (recs : List (String × List Nat)) (N capIn capOut : Nat)
    (hN : 1 ≤ N) (hw : ∀ r ∈ recs, r.2.length = ref.length) {s : Sched.State _ _ _ _}
    (hr : Sched.Reach (snpsAggCfg hard thrNum thrDen ref recs N capIn capOut none) s)
    (hstuck : Sched.enabled (snpsAggCfg hard thrNum thrDen ref recs N capIn capOut none) s = []) :
    s.main = .ret none ∧ s.wst.text = snpsAggregate hard thrNum thrDen ref recs := by
  have hf : ∀ x ∈ (snpsAggCfg hard thrNum thrDen ref recs N capIn capOut none).items,
      ∃ y, (snpsAggCfg hard thrNum thrDen ref recs N capIn capOut none).f x = .ok y :=
    snps_all_ok hard ref recs N capIn capOut none hw
  have hm := (Gofasta.Lemmas.Sched.maximal_run_success
    (cfg := snpsAggCfg hard thrNum thrDen ref recs N capIn capOut none) hN rfl hf
    (fun _ _ => ⟨_, rfl⟩) (fun _ => ⟨_, rfl⟩) hr hstuck).1
  exact ⟨hm, snps_aggregate_every_schedule hard thrNum thrDen ref recs N capIn capOut none hN hr hm⟩

/-- **D, whole runs** -/
theorem toma_maximal_run (refLen : Nat) (o : TomaOpts) (recs : List SamRec) (a : Nat × Nat × Bool)
    (hargs : checkArgs refLen o.start o.stop = some a) (N capIn capOut : Nat) (hN : 1 ≤ N)
    {s : Sched.State _ _ _ _}
    (hr : Sched.Reach (tomaCfg refLen o recs a N capIn capOut none) s)
    (hstuck : Sched.enabled (tomaCfg refLen o recs a N capIn capOut none) s = []) :
    s.main = .ret none ∧ toMultiAlign refLen o recs = some s.wst.text := by
  have hm := (Gofasta.Lemmas.Sched.maximal_run_success (cfg := tomaCfg refLen o recs a N capIn capOut none) hN rfl
    (fun _ _ => ⟨_, rfl⟩) (fun _ _ => ⟨_, rfl⟩) (fun _ => ⟨_, rfl⟩) hr hstuck).1
  exact ⟨hm, toma_every_schedule refLen o recs a hargs N capIn capOut none hN hr hm⟩

/-- **E, whole runs** -/
theorem variants_maximal_run (vi : VarIn) (pairFn : List Nat → List Nat → List Region → List Nat → List Variant)
    (refRow : List Nat) (rows : List (String × List Nat)) (refID : String) (regions : List Region) (inter : List Nat)
    (hra : refAndRows vi = some (refRow, rows, refID)) (hregs : varRegions vi refRow = some (regions, inter))
    (hagg : vi.agg = false) (first N capIn capOut : Nat) (hN : 1 ≤ N)
    (hw : ∀ r ∈ rows, r.2.length = refRow.length) {s : Sched.State _ _ _ _}
    (hr : Sched.Reach (varCfg vi pairFn refRow rows refID regions inter first N capIn capOut none) s)
    (hstuck : Sched.enabled (varCfg vi pairFn refRow rows refID regions inter first N capIn capOut none) s = []) :
    s.main = .ret none ∧ s.wst.text = varCommand vi pairFn := by
  have hf : ∀ x ∈ (varCfg vi pairFn refRow rows refID regions inter first N capIn capOut none).items,
      ∃ y, (varCfg vi pairFn refRow rows refID regions inter first N capIn capOut none).f x = .ok y := by
    intro x hx
    refine ⟨(x.1, pairFn refRow x.2 regions inter), ?_⟩
    simp [varCfg, varWorker, hw x hx]
  have hm := (Gofasta.Lemmas.Sched.maximal_run_success
    (cfg := varCfg vi pairFn refRow rows refID regions inter first N capIn capOut none) hN rfl hf
    (fun _ _ => ⟨_, rfl⟩) (fun _ => ⟨_, rfl⟩) hr hstuck).1
  exact ⟨hm, variants_every_schedule vi pairFn refRow rows refID regions inter hra hregs hagg first N capIn capOut
    none hN hr hm⟩

/-- **F, whole runs** -/
theorem sam_variants_maximal_run (vi : VarIn) (refID : String) (refRaw : List Nat) (blocks : List (List SamRec))
    (pairOf : List SamRec → List Nat → List Nat × List Nat)
    (caller : List Nat → List Nat → List Region → List Nat → List Variant)
    (regions : List Region) (inter : List Nat) (hregs : samRegions vi refRaw = some (regions, inter))
    (hagg : vi.agg = false) (N1 N2 cap0 cap1 cap2 : Nat) (hN1 : 1 ≤ N1) (hN2 : 1 ≤ N2)
    {s : SchedChain.State _ _ _}
    (hr : SchedChain.Reach (samVarCfg vi refID refRaw blocks pairOf caller regions inter N1 N2 cap0 cap1 cap2 none) s)
    (hstuck : SchedChain.enabled
      (samVarCfg vi refID refRaw blocks pairOf caller regions inter N1 N2 cap0 cap1 cap2 none) s = []) :
    s.main = .ret none ∧ s.wst.text = samVarOn vi refID refRaw blocks pairOf caller := by
  have hN : ∀ P ∈ (samVarCfg vi refID refRaw blocks pairOf caller regions inter N1 N2 cap0 cap1 cap2 none).pools,
      1 ≤ P.N := by
    intro P hP
    simp only [samVarCfg, List.mem_cons, List.not_mem_nil, or_false] at hP
    rcases hP with rfl | rfl
    · exact hN1
    · exact hN2
  have hf : ∀ x ∈ (samVarCfg vi refID refRaw blocks pairOf caller regions inter N1 N2 cap0 cap1 cap2 none).items,
      ∃ y, SchedChain.pass
        (samVarCfg vi refID refRaw blocks pairOf caller regions inter N1 N2 cap0 cap1 cap2 none).pools x = .ok y := by
    intro x hx
    obtain ⟨b, _, rfl⟩ := List.mem_map.mp hx
    exact ⟨_, sv_pass_block vi refID refRaw blocks pairOf caller regions inter N1 N2 cap0 cap1 cap2 none b⟩
  have hm := (Gofasta.Lemmas.SchedChain.chain_maximal_run_success
    (cfg := samVarCfg vi refID refRaw blocks pairOf caller regions inter N1 N2 cap0 cap1 cap2 none) hN rfl hf
    (fun _ _ => ⟨_, rfl⟩) (fun _ => ⟨_, rfl⟩) hr hstuck).1
  exact ⟨hm, sam_variants_every_schedule vi refID refRaw blocks pairOf caller regions inter hregs hagg
    N1 N2 cap0 cap1 cap2 none hN1 hN2 hr hm⟩

/-- **F and C11 together**: for a SAM file and reference meeting `SamVarOk`, what any schedule of the two-pool
pipeline of `sam variants` has written when the driver returns nil is the header followed, in file order, by the
row that `gofasta variants` prints for the pair file of each query (`sam_variants_rows`) -/
theorem sam_variants_every_schedule_rows (vi : VarIn) (recs : List SamRec) (refFromFile : Bool) (refBytes : List Nat)
    (rname mode : String) (printed : List SamRec → List Nat × List Nat)
    (regions : List Region) (inter : List Nat)
    (hregs : samRegions vi (refRawOf vi refFromFile refBytes) = some (regions, inter)) (hagg : vi.agg = false)
    (hmode : mode ≠ "ann") (hok : SamVarOk vi recs refFromFile refBytes)
    (hP : ∀ b ∈ samBlocks recs, PrintedOk (refRawOf vi refFromFile refBytes) b (printed b))
    (N1 N2 cap0 cap1 cap2 : Nat) (rf : Option (Nat × CmdErr)) (hN1 : 1 ≤ N1) (hN2 : 1 ≤ N2)
    {s : SchedChain.State _ _ _}
    (hr : SchedChain.Reach (samVarCfg vi (refIDOf refFromFile rname) (refRawOf vi refFromFile refBytes) (samBlocks recs)
      (fun b r => blockToSeqPair b r) modelPair regions inter N1 N2 cap0 cap1 cap2 rf) s)
    (hm : s.main = .ret none) :
    s.wst.text = header ++ String.join ((samBlocks recs).map
        (queryRow vi (refIDOf refFromFile rname) (refRawOf vi refFromFile refBytes) regions inter)) ∧
    ∀ b ∈ samBlocks recs,
      varCommand (pairVarIn vi mode (refIDOf refFromFile rname) (qnameOf b) (printed b).1 (printed b).2) modelPair =
        header ++ queryRow vi (refIDOf refFromFile rname) (refRawOf vi refFromFile refBytes) regions inter b := by
  have h := sam_variants_rows vi recs refFromFile refBytes rname mode printed regions inter hregs hagg hmode hok hP
  refine ⟨?_, h.2⟩
  rw [← h.1]
  exact sam_variants_command_every_schedule vi recs refFromFile refBytes rname samBlocks
    (fun b r => blockToSeqPair b r) modelPair regions inter hregs hagg N1 N2 cap0 cap1 cap2 rf hN1 hN2 hr hm

end wholeRuns

/-! ## the width validation of Model/Validate decides the outcome of every executed schedule -/

section outcomes
open Gofasta.Model.Sched Gofasta.Lemmas.Sched Gofasta.Driver

/-- one pool, a reader that does not fail, a writer that cannot fail, some item the worker rejects: every schedule
that is long enough ends with main returning an error some worker produced -/
theorem runSchedule_returns_worker_error {σ : Type} {cfg : Cfg α β ε σ} (hN : 1 ≤ cfg.N)
    (hrf : cfg.readFail = none)
    (ha : ∀ st r, ∃ st', cfg.absorb st r = .ok st') (hfin : ∀ st, ∃ st', cfg.finish st = .ok st')
    (hbad : ∃ x ∈ cfg.items, ∃ e, cfg.f x = .error e)
    (sched : List Nat) (hlen : μ cfg (init cfg) ≤ sched.length) :
    ∃ x ∈ cfg.items, ∃ e, cfg.f x = .error e ∧ (runSchedule cfg sched).main = .ret (some e) := by
  obtain ⟨r, hret⟩ := runSchedule_returns hN sched hlen
  cases r with
  | none => exact absurd hret (error_reported hN (Or.inr (Or.inl hbad)) (runSchedule_reach cfg sched))
  | some e =>
    rcases error_has_source (runSchedule_reach cfg sched) hret with ⟨k, h⟩ | ⟨x, hx, h⟩ | ⟨st, r, h⟩ | ⟨st, h⟩
    · rw [hrf] at h; cases h
    · exact ⟨x, hx, e, h, hret⟩
    · obtain ⟨st', hy⟩ := ha st r; rw [hy] at h; cases h
    · obtain ⟨st', hy⟩ := hfin st; rw [hy] at h; cases h

theorem refusesWidths_true (w : Nat) (recs : List (String × List Nat)) :
    refusesWidths w (recs.map fun r => r.2.length) = true ↔ ∃ r ∈ recs, r.2.length ≠ w := by
  simp [refusesWidths]

theorem refusesWidths_false (w : Nat) (recs : List (String × List Nat)) :
    refusesWidths w (recs.map fun r => r.2.length) = false ↔ ∀ r ∈ recs, r.2.length = w := by
  simp [refusesWidths]

theorem snpsWorker_error (refE : List Nat) (x : String × List Nat) (e : CmdErr) (h : snpsWorker refE x = .error e) :
    e = .width := by
  unfold snpsWorker at h
  split at h
  · injection h with h; exact h.symm
  · cases h

theorem udWorker_error (refE : List Nat) (x : String × List Nat) (e : CmdErr) (h : udWorker refE x = .error e) :
    e = .width := by
  unfold udWorker at h
  split at h
  · injection h with h; exact h.symm
  · cases h

theorem varWorker_error (pairFn : List Nat → List Nat → List Region → List Nat → List Variant) (refRow : List Nat)
    (regions : List Region) (inter : List Nat) (x : String × List Nat) (e : CmdErr)
    (h : varWorker pairFn refRow regions inter x = .error e) : e = .width := by
  unfold varWorker at h
  split at h
  · injection h with h; exact h.symm
  · cases h

/-- **A, both directions**: every schedule of at least μ(init) numbers ends with main returning the width error when
`refusesWidths` refuses the alignment, and otherwise with main returning nil and `snpsOutput hard ref recs` written -/
theorem snps_outcome (hard : Bool) (ref : List Nat) (recs : List (String × List Nat)) (N capIn capOut : Nat)
    (hN : 1 ≤ N) (sched : List Nat)
    (hlen : μ (snpsCfg hard ref recs N capIn capOut none) (init (snpsCfg hard ref recs N capIn capOut none)) ≤ sched.length) :
    if refusesWidths ref.length (recs.map fun r => r.2.length) then
      (runSchedule (snpsCfg hard ref recs N capIn capOut none) sched).main = .ret (some .width)
    else
      (runSchedule (snpsCfg hard ref recs N capIn capOut none) sched).main = .ret none ∧
      (runSchedule (snpsCfg hard ref recs N capIn capOut none) sched).wst.text = snpsOutput hard ref recs := by
  by_cases h : refusesWidths ref.length (recs.map fun r => r.2.length) = true
  · simp only [h, if_true]
    obtain ⟨r, hr, hw⟩ := (refusesWidths_true _ _).mp h
    have hbad : ∃ x ∈ (snpsCfg hard ref recs N capIn capOut none).items, ∃ e,
        (snpsCfg hard ref recs N capIn capOut none).f x = .error e :=
      ⟨(r.1, r.2.map (enc hard)), List.mem_map.mpr ⟨r, hr, rfl⟩, .width, by simp [snpsCfg, snpsWorker, hw]⟩
    obtain ⟨x, _, e, he, hret⟩ := runSchedule_returns_worker_error
      (cfg := snpsCfg hard ref recs N capIn capOut none) hN rfl (fun _ _ => ⟨_, rfl⟩) (fun _ => ⟨_, rfl⟩) hbad sched hlen
    rw [snpsWorker_error _ x e he] at hret
    exact hret
  · simp only [h, Bool.false_eq_true, if_false]
    have hw := (refusesWidths_false _ _).mp (by simpa using h)
    exact snps_runSchedule hard ref recs N capIn capOut hN hw sched hlen

/-- **B, both directions** -/
theorem updown_list_outcome (ref : List Nat) (recs : List (String × List Nat)) (N capIn capOut : Nat)
    (hN : 1 ≤ N) (sched : List Nat)
    (hlen : μ (udListCfg ref recs N capIn capOut none) (init (udListCfg ref recs N capIn capOut none)) ≤ sched.length) :
    if refusesWidths ref.length (recs.map fun r => r.2.length) then
      (runSchedule (udListCfg ref recs N capIn capOut none) sched).main = .ret (some .width)
    else
      (runSchedule (udListCfg ref recs N capIn capOut none) sched).main = .ret none ∧
      (runSchedule (udListCfg ref recs N capIn capOut none) sched).wst.text = udListOutput ref recs := by
  by_cases h : refusesWidths ref.length (recs.map fun r => r.2.length) = true
  · simp only [h, if_true]
    obtain ⟨r, hr, hw⟩ := (refusesWidths_true _ _).mp h
    have hbad : ∃ x ∈ (udListCfg ref recs N capIn capOut none).items, ∃ e,
        (udListCfg ref recs N capIn capOut none).f x = .error e :=
      ⟨(r.1, r.2.map (enc false)), List.mem_map.mpr ⟨r, hr, rfl⟩, .width, by simp [udListCfg, udWorker, hw]⟩
    obtain ⟨x, _, e, he, hret⟩ := runSchedule_returns_worker_error
      (cfg := udListCfg ref recs N capIn capOut none) hN rfl (fun _ _ => ⟨_, rfl⟩) (fun _ => ⟨_, rfl⟩) hbad sched hlen
    rw [udWorker_error _ x e he] at hret
    exact hret
  · simp only [h, Bool.false_eq_true, if_false]
    have hw := (refusesWidths_false _ _).mp (by simpa using h)
    exact updown_list_runSchedule ref recs N capIn capOut hN hw sched hlen

/-- **E, both directions**: every schedule of at least μ(init) numbers ends with the width error exactly when
`refusesWidths` refuses the rows (and then `varCommand` is "!error"), otherwise with nil and `varCommand vi pairFn` written -/
theorem variants_outcome (vi : VarIn) (pairFn : List Nat → List Nat → List Region → List Nat → List Variant)
    (refRow : List Nat) (rows : List (String × List Nat)) (refID : String) (regions : List Region) (inter : List Nat)
    (hra : refAndRows vi = some (refRow, rows, refID)) (hregs : varRegions vi refRow = some (regions, inter))
    (hagg : vi.agg = false) (first N capIn capOut : Nat) (hN : 1 ≤ N) (sched : List Nat)
    (hlen : μ (varCfg vi pairFn refRow rows refID regions inter first N capIn capOut none)
      (init (varCfg vi pairFn refRow rows refID regions inter first N capIn capOut none)) ≤ sched.length) :
    if refusesWidths refRow.length (rows.map fun r => r.2.length) then
      (runSchedule (varCfg vi pairFn refRow rows refID regions inter first N capIn capOut none) sched).main
        = .ret (some .width) ∧ varCommand vi pairFn = "!error"
    else
      (runSchedule (varCfg vi pairFn refRow rows refID regions inter first N capIn capOut none) sched).main = .ret none ∧
      (runSchedule (varCfg vi pairFn refRow rows refID regions inter first N capIn capOut none) sched).wst.text =
        varCommand vi pairFn := by
  by_cases h : refusesWidths refRow.length (rows.map fun r => r.2.length) = true
  · simp only [h, if_true]
    have hb := (refusesWidths_true _ _).mp h
    obtain ⟨r, hr, hw⟩ := hb
    have hbad : ∃ x ∈ (varCfg vi pairFn refRow rows refID regions inter first N capIn capOut none).items, ∃ e,
        (varCfg vi pairFn refRow rows refID regions inter first N capIn capOut none).f x = .error e :=
      ⟨r, hr, .width, by simp [varCfg, varWorker, hw]⟩
    obtain ⟨x, _, e, he, hret⟩ := runSchedule_returns_worker_error
      (cfg := varCfg vi pairFn refRow rows refID regions inter first N capIn capOut none) hN rfl
      (fun _ _ => ⟨_, rfl⟩) (fun _ => ⟨_, rfl⟩) hbad sched hlen
    rw [varWorker_error pairFn refRow regions inter x e he] at hret
    exact ⟨hret, (variants_width_error_reported vi pairFn refRow rows refID regions inter hra hregs first N capIn capOut
      none hN ⟨r, hr, hw⟩ (runSchedule_reach _ sched)).2⟩
  · simp only [h, Bool.false_eq_true, if_false]
    have hw := (refusesWidths_false _ _).mp (by simpa using h)
    exact variants_runSchedule vi pairFn refRow rows refID regions inter hra hregs hagg first N capIn capOut hN hw sched hlen

end outcomes

/-! ## the statements are not vacuous: concrete inputs, two schedules each -/

namespace Examples
open Gofasta.Driver Gofasta.Lemmas.SamVarPipeline Gofasta.Base

/-- two schedules (the k-th number picks the enabled step number k modulo the count of enabled steps) -/
def sched1 : List Nat := List.replicate 30 0
def sched2 : List Nat := [0, 0, 0, 1, 2, 2, 0, 3, 1, 1, 0, 1] ++ List.replicate 20 0

/-- reference ACGT; three rows: ACGA, TCNT, ACGA -/
def exRef : List Nat := [65, 67, 71, 84]
def exRecs : List (String × List Nat) :=
  [("q1", [65, 67, 71, 65]), ("q2", [84, 67, 78, 84]), ("q3", [65, 67, 71, 65])]

/-! ### A. snps: two workers, cIn of capacity 1, cOut of capacity 2 -/

def snpsEx := snpsCfg false exRef exRecs 2 1 2 none

/-- two schedules, two arrival orders at the writer, the model's text both times -/
example :
    (Model.Sched.runSchedule snpsEx sched1).arrival.map (·.1) = [0, 1, 2] ∧
    (Model.Sched.runSchedule snpsEx sched2).arrival.map (·.1) = [1, 0, 2] ∧
    (Model.Sched.runSchedule snpsEx sched1).main = .ret none ∧
    (Model.Sched.runSchedule snpsEx sched2).main = .ret none ∧
    (Model.Sched.runSchedule snpsEx sched1).wst.text = snpsOutput false exRef exRecs ∧
    (Model.Sched.runSchedule snpsEx sched2).wst.text = snpsOutput false exRef exRecs ∧
    snpsOutput false exRef exRecs = "query,SNPs\nq1,T4A\nq2,A1T\nq3,T4A\n" := by
  decide

/-- and the general theorem says the same about every schedule -/
example (sched : List Nat) (h : (Model.Sched.runSchedule snpsEx sched).main = .ret none) :
    (Model.Sched.runSchedule snpsEx sched).wst.text = "query,SNPs\nq1,T4A\nq2,A1T\nq3,T4A\n" := by
  exact (snps_every_schedule false exRef exRecs 2 1 2 none (by decide)
    (Lemmas.Sched.runSchedule_reach snpsEx sched) h).trans (by decide)

/-- a row of another width: the worker that gets it reports, main returns the error (and by
`snps_width_error_reported` no schedule returns nil) -/
example :
    (Model.Sched.runSchedule (snpsCfg false exRef [("q1", [65, 67, 71, 65]), ("q2", [84, 67])] 2 1 2 none) sched1).main
      = .ret (some .width) := by
  decide

/-! ### C. snps --aggregate (threshold 0) -/

def aggEx := snpsAggCfg false 0 1 exRef exRecs 2 1 2 none

/-- the two schedules leave the counting map in two different orders; the table printed is the same -/
example :
    (Model.Sched.runSchedule aggEx sched1).wst.counts = [((4, 84, 65), 2), ((1, 65, 84), 1)] ∧
    (Model.Sched.runSchedule aggEx sched2).wst.counts = [((1, 65, 84), 1), ((4, 84, 65), 2)] ∧
    (Model.Sched.runSchedule aggEx sched1).main = .ret none ∧
    (Model.Sched.runSchedule aggEx sched2).main = .ret none ∧
    (Model.Sched.runSchedule aggEx sched1).wst.text = snpsAggregate false 0 1 exRef exRecs ∧
    (Model.Sched.runSchedule aggEx sched2).wst.text = snpsAggregate false 0 1 exRef exRecs ∧
    snpsAggregate false 0 1 exRef exRecs = "SNP,frequency\nA1T,0.333333333\nT4A,0.666666667\n" := by
  decide

/-! ### B. updown list -/

def udEx := udListCfg exRef exRecs 2 1 2 none

/-- `udRow` quotes the ID with `String.any` and `String.replace`, which the kernel does not evaluate; so the two
executed schedules are compared on the records the writer has emitted (in order) rather than on the bytes -/
example :
    (Model.Sched.runSchedule udEx sched1).arrival.map (·.1) = [0, 1, 2] ∧
    (Model.Sched.runSchedule udEx sched2).arrival.map (·.1) = [1, 0, 2] ∧
    (Model.Sched.runSchedule udEx sched1).main = .ret none ∧
    (Model.Sched.runSchedule udEx sched2).main = .ret none ∧
    (Model.Sched.runSchedule udEx sched1).wst.ro.out =
      exRecs.map (fun r => getLine r.1 (exRef.map (enc false)) (r.2.map (enc false))) ∧
    (Model.Sched.runSchedule udEx sched2).wst.ro.out =
      exRecs.map (fun r => getLine r.1 (exRef.map (enc false)) (r.2.map (enc false))) ∧
    exRecs.map (fun r => getLine r.1 (exRef.map (enc false)) (r.2.map (enc false))) =
      [⟨"q1", [(4, 84, 65)], [], 1, 0⟩, ⟨"q2", [(1, 65, 84)], [(3, 3)], 1, 1⟩, ⟨"q3", [(4, 84, 65)], [], 1, 0⟩] := by
  decide

/-- and the bytes, for every schedule, by the theorem -/
example (sched : List Nat) (h : (Model.Sched.runSchedule udEx sched).main = .ret none) :
    (Model.Sched.runSchedule udEx sched).wst.text = udListOutput exRef exRecs :=
  updown_list_every_schedule exRef exRecs 2 1 2 none (by decide) (Lemmas.Sched.runSchedule_reach udEx sched) h

/-! ### D. sam toMultiAlign -/

/-- three queries; the second has two records (the second one supplementary), the third a deletion -/
def exSam : List SamRec :=
  [⟨"a", 0, 0, [(0, 4)], [65, 67, 71, 84]⟩, ⟨"b", 0, 1, [(0, 2)], [67, 67]⟩, ⟨"b", 2048, 3, [(0, 1)], [84]⟩,
   ⟨"c", 0, 0, [(0, 2), (2, 1), (0, 1)], [65, 67, 84]⟩]

def tomaEx := tomaCfg 4 {} exSam (1, 4, false) 2 1 2 none

example :
    checkArgs 4 (-1) (-1) = some (1, 4, false) ∧
    (Model.Sched.runSchedule tomaEx sched1).arrival.map (·.1) = [0, 1, 2] ∧
    (Model.Sched.runSchedule tomaEx sched2).arrival.map (·.1) = [1, 0, 2] ∧
    (Model.Sched.runSchedule tomaEx sched1).main = .ret none ∧
    (Model.Sched.runSchedule tomaEx sched2).main = .ret none ∧
    toMultiAlign 4 {} exSam = some (Model.Sched.runSchedule tomaEx sched1).wst.text ∧
    toMultiAlign 4 {} exSam = some (Model.Sched.runSchedule tomaEx sched2).wst.text ∧
    toMultiAlign 4 {} exSam = some ">a\nACGT\n>b\n-CCT\n>c\nAC-T\n" := by
  decide

/-! ### E. variants: reference ATGGCATTTTAACC with one CDS over 1..12, given as the first record (standard input),
so the writer's counter starts at 1; and the same alignment with the reference found by name (counter from 0, the
reference's own record skipped by the writer) -/

def exRows : List (String × List Nat) :=
  [("q1", [65, 84, 71, 71, 67, 65, 84, 84, 84, 84, 65, 65, 67, 67]),
   ("q2", [65, 84, 71, 71, 84, 65, 84, 84, 84, 84, 65, 65, 67, 84]),
   ("q3", [65, 84, 71, 45, 67, 65, 84, 84, 84, 84, 65, 65, 67, 67])]

def exVi (mode : String) (agg : Bool) : VarIn :=
  ⟨"gff", [], [pvGff], mode, "ref", [], ("ref", pvRef) :: exRows, true, 0, 0, agg, 0, 1⟩

def exRegs : List Region × List Nat := (varRegions (exVi "stdin" false) pvRef).getD ([], [])

theorem exRegs_ok (mode : String) (agg : Bool) : varRegions (exVi mode agg) pvRef = some exRegs := by rfl

example : exRegs.1.map (·.positions) = [[1, 2, 3, 4, 5, 6, 7, 8, 9, 10, 11, 12]] ∧ exRegs.2 = [13, 14] := by decide

theorem exRows_stdin (agg : Bool) : refAndRows (exVi "stdin" agg) = some (pvRef, exRows, "ref") := by
  cases agg <;> decide

theorem exRows_msa (agg : Bool) : refAndRows (exVi "msa" agg) = some (pvRef, ("ref", pvRef) :: exRows, "ref") := by
  cases agg <;> decide

def varEx := varCfg (exVi "stdin" false) modelPair pvRef exRows "ref" exRegs.1 exRegs.2 1 2 1 2 none
def varExMsa :=
  varCfg (exVi "msa" false) modelPair pvRef (("ref", pvRef) :: exRows) "ref" exRegs.1 exRegs.2 0 2 1 2 none

set_option maxRecDepth 100000 in
example :
    (Model.Sched.runSchedule varEx sched1).arrival.map (·.1) = [0, 1, 2] ∧
    (Model.Sched.runSchedule varEx sched2).arrival.map (·.1) = [1, 0, 2] ∧
    (Model.Sched.runSchedule varEx sched1).main = .ret none ∧
    (Model.Sched.runSchedule varEx sched2).main = .ret none ∧
    (Model.Sched.runSchedule varEx sched1).wst.text = varCommand (exVi "stdin" false) modelPair ∧
    (Model.Sched.runSchedule varEx sched2).wst.text = varCommand (exVi "stdin" false) modelPair ∧
    varCommand (exVi "stdin" false) modelPair =
      "query,mutations\nq1,\nq2,aa:g:A2V(nuc:C5T)|nuc:C14T\nq3,del:4:1\n" := by
  decide

set_option maxRecDepth 100000 in
example :
    (Model.Sched.runSchedule varExMsa (sched1 ++ sched1)).arrival.map (·.1) = [0, 1, 2, 3] ∧
    (Model.Sched.runSchedule varExMsa (sched2 ++ sched1)).arrival.map (·.1) = [1, 0, 2, 3] ∧
    (Model.Sched.runSchedule varExMsa (sched1 ++ sched1)).main = .ret none ∧
    (Model.Sched.runSchedule varExMsa (sched2 ++ sched1)).main = .ret none ∧
    (Model.Sched.runSchedule varExMsa (sched1 ++ sched1)).wst.text = varCommand (exVi "msa" false) modelPair ∧
    (Model.Sched.runSchedule varExMsa (sched2 ++ sched1)).wst.text = varCommand (exVi "msa" false) modelPair ∧
    varCommand (exVi "msa" false) modelPair =
      "query,mutations\nq1,\nq2,aa:g:A2V(nuc:C5T)|nuc:C14T\nq3,del:4:1\n" := by
  decide

set_option maxRecDepth 100000 in
/-- the general theorem on this input: every schedule that returns nil has written this text -/
example (sched : List Nat) (h : (Model.Sched.runSchedule varEx sched).main = .ret none) :
    (Model.Sched.runSchedule varEx sched).wst.text =
      "query,mutations\nq1,\nq2,aa:g:A2V(nuc:C5T)|nuc:C14T\nq3,del:4:1\n" := by
  exact (variants_every_schedule (exVi "stdin" false) modelPair pvRef exRows "ref" exRegs.1 exRegs.2
    (exRows_stdin false) (exRegs_ok _ _) rfl 1 2 1 2 none (by decide)
    (Lemmas.Sched.runSchedule_reach varEx sched) h).trans (by decide)

/-! ### E'. variants --aggregate -/

open Gofasta.Lemmas.AggVariants in
theorem exRegs_val : exRegs.1 = [⟨"g", 1, [1, 2, 3, 4, 5, 6, 7, 8, 9, 10, 11, 12], [77, 65, 70, 42]⟩] := by rfl

open Gofasta.Lemmas.AggVariants in
theorem exRegs_regionsOk : RegionsOk exRegs.1 := by
  intro reg hreg
  rw [exRegs_val] at hreg
  simp only [List.mem_singleton] at hreg
  subst hreg
  exact ⟨by decide, by unfold ValidBytes; decide⟩

def varAggEx := varAggCfg (exVi "stdin" true) modelPair pvRef exRows "ref" exRegs.1 exRegs.2 2 1 2 none

/-- a schedule in which record 2 overtakes record 1 -/
def sched3 : List Nat := [1, 2, 0, 3, 1, 1, 0, 1] ++ List.replicate 30 0

set_option maxRecDepth 100000 in
/-- two schedules, two arrival orders, the counting map in two different orders, one table -/
example :
    (Model.Sched.runSchedule varAggEx sched1).arrival.map (·.1) = [0, 1, 2] ∧
    (Model.Sched.runSchedule varAggEx sched3).arrival.map (·.1) = [0, 2, 1] ∧
    (Model.Sched.runSchedule varAggEx sched1).wst.counts.map (·.1.rep) = ["aa:g:A2V(nuc:C5T)", "nuc:C14T", "del:4:1"] ∧
    (Model.Sched.runSchedule varAggEx sched3).wst.counts.map (·.1.rep) = ["del:4:1", "aa:g:A2V(nuc:C5T)", "nuc:C14T"] ∧
    (Model.Sched.runSchedule varAggEx sched1).main = .ret none ∧
    (Model.Sched.runSchedule varAggEx sched3).main = .ret none ∧
    (Model.Sched.runSchedule varAggEx sched1).wst.text = varCommand (exVi "stdin" true) modelPair ∧
    (Model.Sched.runSchedule varAggEx sched3).wst.text = varCommand (exVi "stdin" true) modelPair ∧
    varCommand (exVi "stdin" true) modelPair =
      "mutation,frequency\naa:g:A2V(nuc:C5T),0.333333333\ndel:4:1,0.333333333\nnuc:C14T,0.333333333\n" := by
  decide

/-- the general theorem on this input (its hypothesis `RegionsOk` holds here) -/
example (sched : List Nat) (h : (Model.Sched.runSchedule varAggEx sched).main = .ret none) :
    (Model.Sched.runSchedule varAggEx sched).wst.text = varCommand (exVi "stdin" true) modelPair :=
  variants_aggregate_model_every_schedule (exVi "stdin" true) pvRef exRows "ref" exRegs.1 exRegs.2
    (exRows_stdin true) (exRegs_ok _ _) rfl exRegs_regionsOk 2 1 2 none (by decide)
    (Lemmas.Sched.runSchedule_reach varAggEx sched) h

/-! ### F. sam variants: two pools of two workers -/

def pvRec2 : SamRec := ⟨"r", 0, 2, [(0, 4)], [71, 71, 84, 65]⟩
def pvRec3 : SamRec := ⟨"t", 0, 0, [(0, 3)], [65, 84, 71]⟩
def svRegs : List Region × List Nat := (samRegions (pvVi "gff" false) pvRef).getD ([], [])
theorem svRegs_ok : samRegions (pvVi "gff" false) pvRef = some svRegs := by rfl

def samVarEx := samVarCfg (pvVi "gff" false) "ref" pvRef (samBlocks [pvRec, pvRec2, pvRec3])
  (fun b r => blockToSeqPair b r) modelPair svRegs.1 svRegs.2 2 2 1 2 2 none

def csched1 : List Nat := List.replicate 50 0
def csched2 : List Nat := [0, 0, 0, 1, 2, 1, 1, 2, 1, 1, 1, 1] ++ List.replicate 40 0

set_option maxRecDepth 100000 in
example :
    (Model.SchedChain.runSchedule samVarEx csched1).arrival.map (·.1) = [0, 1, 2] ∧
    (Model.SchedChain.runSchedule samVarEx csched2).arrival.map (·.1) = [1, 0, 2] ∧
    (Model.SchedChain.runSchedule samVarEx csched1).main = .ret none ∧
    (Model.SchedChain.runSchedule samVarEx csched2).main = .ret none ∧
    (Model.SchedChain.runSchedule samVarEx csched1).wst.text =
      samVarOn (pvVi "gff" false) "ref" pvRef (samBlocks [pvRec, pvRec2, pvRec3]) (fun b r => blockToSeqPair b r) modelPair ∧
    (Model.SchedChain.runSchedule samVarEx csched2).wst.text =
      samVarOn (pvVi "gff" false) "ref" pvRef (samBlocks [pvRec, pvRec2, pvRec3]) (fun b r => blockToSeqPair b r) modelPair ∧
    samVarOn (pvVi "gff" false) "ref" pvRef (samBlocks [pvRec, pvRec2, pvRec3]) (fun b r => blockToSeqPair b r) modelPair =
      "query,mutations\nq,aa:g:A2E(nuc:C5A)|ins:4:1|del:8:2\nr,aa:g:A2V(nuc:C5T)\nt,\n" := by
  decide

/-! ### F'. sam variants --aggregate -/

def samVarAggEx := samVarAggCfg (pvVi "gff" true) "ref" pvRef (samBlocks [pvRec, pvRec2, pvRec3])
  (fun b r => blockToSeqPair b r) modelPair svRegs.1 svRegs.2 2 2 1 2 2 none

set_option maxRecDepth 100000 in
example :
    (Model.SchedChain.runSchedule samVarAggEx csched1).arrival.map (·.1) = [0, 1, 2] ∧
    (Model.SchedChain.runSchedule samVarAggEx csched2).arrival.map (·.1) = [1, 0, 2] ∧
    (Model.SchedChain.runSchedule samVarAggEx csched1).wst.counts.map (·.1.rep) =
      ["aa:g:A2E(nuc:C5A)", "ins:4:1", "del:8:2", "aa:g:A2V(nuc:C5T)"] ∧
    (Model.SchedChain.runSchedule samVarAggEx csched2).wst.counts.map (·.1.rep) =
      ["aa:g:A2V(nuc:C5T)", "aa:g:A2E(nuc:C5A)", "ins:4:1", "del:8:2"] ∧
    (Model.SchedChain.runSchedule samVarAggEx csched1).main = .ret none ∧
    (Model.SchedChain.runSchedule samVarAggEx csched2).main = .ret none ∧
    (Model.SchedChain.runSchedule samVarAggEx csched1).wst.text =
      samVarOn (pvVi "gff" true) "ref" pvRef (samBlocks [pvRec, pvRec2, pvRec3]) (fun b r => blockToSeqPair b r) modelPair ∧
    (Model.SchedChain.runSchedule samVarAggEx csched2).wst.text =
      samVarOn (pvVi "gff" true) "ref" pvRef (samBlocks [pvRec, pvRec2, pvRec3]) (fun b r => blockToSeqPair b r) modelPair ∧
    samVarOn (pvVi "gff" true) "ref" pvRef (samBlocks [pvRec, pvRec2, pvRec3]) (fun b r => blockToSeqPair b r) modelPair =
      "mutation,frequency\naa:g:A2E(nuc:C5A),0.333333333\naa:g:A2V(nuc:C5T),0.333333333\nins:4:1,0.333333333\ndel:8:2,0.333333333\n" := by
  decide +kernel

end Examples

end Gofasta.Lemmas.SchedCommands
